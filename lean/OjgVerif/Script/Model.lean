import OjgVerif.Script.Spec
/-! # Executable model of `jp/script.go` (evalWithRoot, expandStack, evalStack) and of
`Equation.buildScript` / `Equation.Script` / `Equation.Filter` (jp/equation.go)

One Lean branch per Go `case`. Go faults are explicit (`Except Fault`): the interface comparison
`left == right` panics when both operands hold the same uncomparable dynamic type (`[]any` or
`map[string]any`), `sstack[0]` panics on an empty program.

The model is parametrised by `Dev`, the list of operator-level DEVIATIONS from the specification (findings
C12-uncomparable-panic, C12-neq-float, C12-int-via-float64 and, found in round 3, C12-iface-field-panic — all
repaired). `Dev.pinned` is the tree as first pinned, `Dev.current` the code after the applied `fix:` commits (no
flag left since 6d0c31a), `Dev.before6d0c31a` the code just before that commit; switching a flag off gives the
code with the corresponding fix applied.

Round 3: operands may be TYPED Go values (`Val.ext`, Script/Num.lean): the `Normalize` switch / `normalize()` are
`Val.norm`, applied to everything a path yields (`resolveItem`); template constants are produced by the exported
builders and the parser only as nil/bool/int64/float64/string/[]any/Nothing/*Regexp, on which the switch is the
identity. `sameValue` is modelled as the code has it (`comparable`, `goEq`, `sameValue`), `ifaceEq d` being the
comparison of code variant `d`.
Two further former findings were not operator-level: C12-bare-path (repaired by fe63c88 for built
`Get(x)` scripts and by 6b93c2a — the `bare` branch of `matchElem` — for filters; `matchGeneral` on
`compile false` is the behaviour before), C12-fn-arg-rotation (repaired by
cd355fe) was a defect of the script PARSER, which is not modelled: the harness fed the model the tree the
parser built (fnarg family, now run on the written tree).

Left out (not modelled, not exercised): user-registered functions (code 'U'), the `get` pseudo
operator (never placed in a program), NAVIGATION into data that is not made of nil/bool/int64/float64/
string/[]any/map[string]any (typed Go values and gen.* nodes are modelled as OPERANDS — `Val.ext`, with the
normalisation of sized numbers and gen scalars, `Val.norm` — but paths do not step into them here: that is
C05/C11), Keyed/Indexed, time, path fragments
other than member/index/wildcard, `Proc` fragments, and the location bookkeeping (`locs`). Path
selection itself (`Expr.Get`, `Expr.FirstFound`) is NOT modelled here: the model uses the specification
function `Spec.sel` for it (its own properties are C05/C11); the tie is the correspondence run. -/
namespace OjgVerif.Script
open OjgVerif

inductive Fault where
  | uncomparable   -- runtime error: comparing uncomparable type
  | index          -- runtime error: index out of range
  deriving DecidableEq, Inhabited

structure Dev where
  /-- `==`, `!=`, `in` compare two slices or two maps with Go `==` and panic -/
  uncmp : Bool
  /-- `float != x` is false unless x is an int64 of another value -/
  neqFlt : Bool
  /-- int/float comparisons convert the int64 to float64 first -/
  viaF64 : Bool
  /-- `sameValue` trusts the comparability of the TYPE: two struct/array values that hold a slice or map in an
  interface-typed field reach Go `==` and panic (finding C12-iface-field-panic, round 3; present in every
  version up to 6d0c31a, which compares struct/array kinds under recover: `sameHolder`) -/
  ifaceTrap : Bool
  deriving DecidableEq, Inhabited

/-- the tree as first pinned (before the `fix:` commits 0a3fd2c and 21415f8) -/
def Dev.pinned : Dev := ⟨true, true, true, true⟩
/-- the code between 21415f8 and 24fcf54: only the int-via-float64 deviation left -/
def Dev.before24fcf54 : Dev := ⟨false, false, true, true⟩
/-- the code between 24fcf54 and 6d0c31a: only the round-3 deviation `ifaceTrap` left -/
def Dev.before6d0c31a : Dev := ⟨false, false, false, true⟩
/-- the code as it is now (after 6d0c31a, `sameHolder`): no deviation left; the same as `Dev.fixed` -/
def Dev.current : Dev := ⟨false, false, false, false⟩
/-- every known deviation repaired -/
def Dev.fixed : Dev := ⟨false, false, false, false⟩

/-- Go `==` can be reached by a left operand `l` of an uncomparable dynamic type: always before 0a3fd2c; since
then only by a value whose TYPE reflection calls comparable (`tcmp`) -/
def passesGuard : Val → Bool
  | .ext e => e.tcmp
  | _ => false

def Dev.faultFlag (d : Dev) (l : Val) : Bool := d.uncmp || (d.ifaceTrap && passesGuard l)

/-- the float an int64 is compared as: `float64(tl)` before 24fcf54, its exact value since
(`cmpIntFloat` at all twelve comparison sites: `Gen.Script.cmpSites`, theorem `C12.int_float_exact_ok`) -/
def Dev.toF (d : Dev) (i : Int) : Flt := if d.viaF64 then Flt.ofInt i else .fin i 0

/-- Go `left == right` on interface values -/
def ifaceEq (d : Dev) (l r : Val) : Except Fault Bool :=
  match l, r with
  | .null, .null => .ok true
  | .bool a, .bool b => .ok (a == b)
  | .int a, .int b => .ok (a == b)
  | .flt a, .flt b => .ok (Flt.eq a b)
  | .str a, .str b => .ok (a == b)
  | .nothing, .nothing => .ok true
  | .arr _, .arr _ => if d.uncmp then .error .uncomparable else .ok false
  | .obj _, .obj _ => if d.uncmp then .error .uncomparable else .ok false
  | .ext a, .ext b =>      -- two typed values: Go compares only values of the same dynamic type
    if a.ty = b.ty then
      if a.cmp then .ok (a.id == b.id)
      else if d.uncmp || (d.ifaceTrap && a.tcmp) then .error .uncomparable else .ok false
    else .ok false
  | _, _ => .ok false      -- different dynamic types; two *regexp.Regexp are distinct pointers

/-! ### `sameValue` as the code has it (since 0a3fd2c)

```go
func sameValue(left, right any) bool {
	if lt := reflect.TypeOf(left); lt != nil && !lt.Comparable() { return false }
	return left == right
}
```
`goEq` is the raw Go `==` on two interface values (faults when both hold the same uncomparable dynamic
type), `comparable` the reflect test on the LEFT operand, `sameValue` the guarded comparison. The shape of
the guard (a reflect `Comparable()` test on the left operand's type, no list of types) is the regenerated
fact `Gen.Script.sameValueShape` (theorem `C12.same_value_shape_ok`). `ifaceEq d` is `goEq` when
`d.uncmp` (before 0a3fd2c), `sameValue` between 0a3fd2c and 6d0c31a, and `sameValueFix` (struct/array kinds
compared under recover, so the values whose `==` is unsafe although their type is comparable are simply unequal)
since 6d0c31a (`ifaceEq_eq_sameValue`). The Go text quoted above is the one before 6d0c31a. -/

/-- `reflect.TypeOf(v).Comparable()`; the nil interface has no type (`lt == nil`: the guard is skipped) -/
def comparable : Val → Bool
  | .arr _ => false
  | .obj _ => false
  | .ext e => e.tcmp
  | _ => true

/-- raw Go `left == right` -/
def goEq (l r : Val) : Except Fault Bool :=
  match l, r with
  | .null, .null => .ok true
  | .bool a, .bool b => .ok (a == b)
  | .int a, .int b => .ok (a == b)
  | .flt a, .flt b => .ok (Flt.eq a b)
  | .str a, .str b => .ok (a == b)
  | .nothing, .nothing => .ok true
  | .arr _, .arr _ => .error .uncomparable
  | .obj _, .obj _ => .error .uncomparable
  | .ext a, .ext b => if a.ty = b.ty then (if a.cmp then .ok (a.id == b.id) else .error .uncomparable) else .ok false
  | _, _ => .ok false

def sameValue (l r : Val) : Except Fault Bool :=
  if !comparable l then .ok false else goEq l r

/-- `==` on values of `l`'s dynamic type is safe -/
def eqSafe : Val → Bool
  | .arr _ => false
  | .obj _ => false
  | .ext e => e.cmp
  | _ => true

/-- with the proposed fix (struct/array kinds compared under recover): unsafe values are simply unequal -/
def sameValueFix (l r : Val) : Except Fault Bool :=
  if !comparable l || !eqSafe l then .ok false else goEq l r

def asBool : Val → Bool
  | .bool b => b
  | _ => false

/-- the four ordering `case`s share their type switch; `fi ff fs` are the int, float and string
comparisons. With the int/float deviation repaired (`d.viaF64 = false`) the int is compared by its
exact value instead of `float64(tl)`. -/
def ordering (d : Dev) (fi : Int → Int → Bool) (ff : Flt → Flt → Bool) (fs : Bytes → Bytes → Bool) (l r : Val) : Val :=
  match l with
  | .int a =>
    match r with
    | .int b => .bool (fi a b)
    | .flt b => .bool (ff (d.toF a) b)
    | _ => .bool false
  | .flt a =>
    match r with
    | .int b => .bool (ff a (d.toF b))
    | .flt b => .bool (ff a b)
    | _ => .bool false
  | .str a =>
    match r with
    | .str b => .bool (fs a b)
    | _ => .bool false
  | _ => .bool false

/-- `for _, ev := range list { if left == ev { … break } }` -/
def inLoop (d : Dev) (l : Val) : List Val → Except Fault Bool
  | [] => .ok false
  | ev :: rest =>
    match ifaceEq d l ev with
    | .error f => .error f
    | .ok b => if b then .ok true else inLoop d l rest

def evalOp (d : Dev) (rx : RxEngine) (o : Op) (l r : Val) : Except Fault Val :=
  match o with
  | .group => .ok l
  | .eq =>
    match ifaceEq d l r with
    | .error f => .error f
    | .ok b =>
      if b then .ok (.bool true)
      else
        match l with
        | .int a => match r with
          | .flt b => .ok (.bool (Flt.eq (d.toF a) b))
          | _ => .ok (.bool false)
        | .flt a => match r with
          | .int b => .ok (.bool (Flt.eq a (d.toF b)))
          | _ => .ok (.bool false)
        | _ => .ok (.bool false)
  | .neq =>
    match ifaceEq d l r with
    | .error f => .error f
    | .ok b =>
      if b then .ok (.bool false)
      else
        match l with
        | .int a => match r with
          | .flt b => .ok (.bool (!Flt.eq (d.toF a) b))
          | _ => .ok (.bool true)
        | .flt a => match r with
          | .int b => .ok (.bool (!Flt.eq a (d.toF b)))
          | _ => .ok (.bool (!d.neqFlt))      -- `tr, ok := right.(int64); sstack[i] = ok && …`
        | _ => .ok (.bool true)
  | .lt => .ok (ordering d (fun a b => decide (a < b)) Flt.lt bytesLt l r)
  | .gt => .ok (ordering d (fun a b => decide (b < a)) (fun a b => Flt.lt b a) (fun a b => bytesLt b a) l r)
  | .lte => .ok (ordering d (fun a b => decide (a ≤ b)) Flt.le (fun a b => !bytesLt b a) l r)
  | .gte => .ok (ordering d (fun a b => decide (b ≤ a)) (fun a b => Flt.le b a) (fun a b => !bytesLt a b) l r)
  | .or => .ok (.bool (asBool l || asBool r))
  | .and => .ok (.bool (asBool l && asBool r))
  | .not => .ok (.bool (!asBool l))
  | .add =>
    match l with
    | .int a => match r with
      | .int b => .ok (.int (wrap64 (a + b)))
      | .flt b => .ok (.flt (Flt.add (Flt.ofInt a) b))
      | _ => .ok .nothing
    | .flt a => match r with
      | .int b => .ok (.flt (Flt.add a (Flt.ofInt b)))
      | .flt b => .ok (.flt (Flt.add a b))
      | _ => .ok .nothing
    | .str a => match r with
      | .str b => .ok (.str (a ++ b))
      | _ => .ok .nothing
    | _ => .ok .nothing
  | .sub =>
    match l with
    | .int a => match r with
      | .int b => .ok (.int (wrap64 (a - b)))
      | .flt b => .ok (.flt (Flt.sub (Flt.ofInt a) b))
      | _ => .ok .nothing
    | .flt a => match r with
      | .int b => .ok (.flt (Flt.sub a (Flt.ofInt b)))
      | .flt b => .ok (.flt (Flt.sub a b))
      | _ => .ok .nothing
    | _ => .ok .nothing
  | .mult =>
    match l with
    | .int a => match r with
      | .int b => .ok (.int (wrap64 (a * b)))
      | .flt b => .ok (.flt (Flt.mul (Flt.ofInt a) b))
      | _ => .ok .nothing
    | .flt a => match r with
      | .int b => .ok (.flt (Flt.mul a (Flt.ofInt b)))
      | .flt b => .ok (.flt (Flt.mul a b))
      | _ => .ok .nothing
    | _ => .ok .nothing
  | .divide =>
    match l with
    | .int a => match r with
      | .int b => if b = 0 then .ok .nothing else .ok (.int (wrap64 (Int.tdiv a b)))
      | .flt b => if Flt.eq b (.fin 0 0) then .ok .nothing else .ok (.flt (Flt.div (Flt.ofInt a) b))
      | _ => .ok .nothing
    | .flt a => match r with
      | .int b => if b = 0 then .ok .nothing else .ok (.flt (Flt.div a (Flt.ofInt b)))
      | .flt b => if Flt.eq b (.fin 0 0) then .ok .nothing else .ok (.flt (Flt.div a b))
      | _ => .ok .nothing
    | _ => .ok .nothing
  | .in =>
    match r with
    | .arr xs =>
      match inLoop d l xs with
      | .error f => .error f
      | .ok b => .ok (.bool b)
    | _ => .ok (.bool false)
  | .empty =>
    match r with
    | .bool boo =>
      match l with
      | .str s => .ok (.bool (boo == (s.length == 0)))
      | .arr xs => .ok (.bool (boo == (xs.length == 0)))
      | .obj kvs => .ok (.bool (boo == (kvs.length == 0)))
      | _ => .ok (.bool false)
    | _ => .ok (.bool false)
  | .has | .exists =>
    match r with
    | .bool boo => .ok (.bool (boo == (match l with | .nothing => false | _ => true)))
    | _ => .ok (.bool false)
  | .rx =>
    match l with
    | .str ls =>
      match r with
      | .str p => .ok (.bool (match rx p ls with | some b => b | none => false))
      | .rx p => .ok (.bool (match rx p ls with | some b => b | none => false))
      | _ => .ok (.bool false)
    | _ => .ok (.bool false)
  | .length =>
    match l with
    | .str s => .ok (.int s.length)
    | .arr xs => .ok (.int xs.length)
    | .obj kvs => .ok (.int kvs.length)
    | _ => .ok .nothing
  | .count =>
    match l with
    | .arr xs => .ok (.int xs.length)
    | _ => .ok .nothing
  | .match =>
    match l with
    | .str ls =>
      match r with
      | .str rs =>
        if rs.isEmpty then .ok .nothing
        else match rx (Spec.anchor rs) ls with
          | some b => .ok (.bool b)
          | none => .ok .nothing
      | _ => .ok .nothing
    | _ => .ok .nothing
  | .search =>
    match l with
    | .str ls =>
      match r with
      | .str rs =>
        if rs.isEmpty then .ok .nothing
        else match rx rs ls with
          | some b => .ok (.bool b)
          | none => .ok .nothing
      | _ => .ok .nothing
    | _ => .ok .nothing

/-! ## evalStack -/

/-- entries of an expanded stack -/
inductive SItem where
  | op (o : Op)
  | val (v : Val)
  deriving Inhabited

/-- `copy(sstack[i+1:], sstack[i+cnt+1:])` when `i+cnt+1 <= len(sstack)`: the tail moves down, the
last `cnt` cells keep their old content -/
def shift (c : Nat) (t : List Val) : List Val :=
  if c ≤ t.length then t.drop c ++ t.drop (t.length - c) else t

/-- the loop runs from the last cell to the first, so the cells after position `i` are finished when
`i` is handled; a missing operand reads as nil -/
def evalStack (d : Dev) (rx : RxEngine) : List SItem → Except Fault (List Val)
  | [] => .ok []
  | .val v :: rest =>
    match evalStack d rx rest with
    | .error f => .error f
    | .ok t => .ok (v :: t)
  | .op o :: rest =>
    match evalStack d rx rest with
    | .error f => .error f
    | .ok t =>
      match evalOp d rx o (t.getD 0 .null) (t.getD 1 .null) with
      | .error f => .error f
      | .ok v => .ok (v :: shift o.cnt t)

/-! ## evalWithRoot: operand resolution, multi-valued expansion, the per-element verdict -/

/-- template entries -/
inductive Item where
  | op (o : Op)
  | val (v : Val)
  | path (p : Path)
  deriving Inhabited

/-- resolved entries -/
inductive RItem where
  | op (o : Op)
  | val (v : Val)
  | multi (vs : List Val)
  deriving Inhabited

def Op.getLeft : Op → Bool
  | .count => true
  | _ => false

/-- one iteration of the "resolve all expr members" loop; `g` = the previous cell is an operator
with `getLeft` -/
def resolveItem (elem root : Val) (g : Bool) : Item → RItem
  | .op o => if g then .val .null else .op o
  | .val v => if g then .val .null else .val v
  | .path p =>
    if g then .val (.arr (Spec.sel p elem elem))           -- x.Get(v)
    else if Spec.Path.normal p then
      match Spec.sel p elem root with                         -- x.FirstFound(dv)
      | [] => .val .nothing
      | v :: _ => .val v.norm                                 -- `goto Normalize`
    else
      match Spec.sel p elem root with                         -- x.Get(dv)
      | [] => .val .nothing
      | [v] => .val v.norm                                    -- normalize(values[0])
      | vs => .multi (vs.map Val.norm)                        -- mval[gi] = normalize(gv)

/-- `o, ok := sstack[i-1].(*op); ok && o.getLeft`, read from the already resolved previous cell -/
def RItem.nextGet : RItem → Bool
  | .op o => o.getLeft
  | _ => false

def resolve (elem root : Val) : Bool → List Item → List RItem
  | _, [] => []
  | g, it :: rest => resolveItem elem root g it :: resolve elem root (resolveItem elem root g it).nextGet rest

/-- expandStack -/
def expand : List RItem → Nat → List SItem
  | [], _ => []
  | .op o :: r, mi => .op o :: expand r mi
  | .val v :: r, mi => .val v :: expand r mi
  | .multi vs :: r, mi => .val (vs.getD (mi % vs.length) .null) :: expand r (mi / vs.length)

def combos : List RItem → Nat
  | [] => 1
  | .multi vs :: r => vs.length * combos r
  | _ :: r => combos r

def hasMulti : List RItem → Bool
  | [] => false
  | .multi _ :: _ => true
  | _ :: r => hasMulti r

/-- `for mi := 0; mi < max; mi++ { … if match { break } }`; `n` combinations left, next is `mi` -/
def tryCombos (d : Dev) (rx : RxEngine) (st : List RItem) : Nat → Nat → Except Fault Bool
  | 0, _ => .ok false
  | n + 1, mi =>
    match evalStack d rx (expand st mi) with
    | .error f => .error f
    | .ok vs => if Spec.isTrue (vs.headD .null) then .ok true else tryCombos d rx st n (mi + 1)

/-- the verdict for one element -/
def matchResolved (d : Dev) (rx : RxEngine) (st : List RItem) : Except Fault Bool :=
  if hasMulti st then tryCombos d rx st (combos st) 0
  else
    match evalStack d rx (expand st 0) with
    | .error f => .error f
    | .ok [] => .error .index                      -- sstack[0] of an empty template
    | .ok (v :: _) => .ok (Spec.isTrue v)

/-- the general path of the per-element loop: resolve the operands, expand, evaluate. Before 6b93c2a
this was the verdict for EVERY template. -/
def matchGeneral (d : Dev) (rx : RxEngine) (prog : List Item) (elem root : Val) : Except Fault Bool :=
  matchResolved d rx (resolve elem root false prog)

/-- the verdict for one element. Since 6b93c2a a template that is exactly one path (`bare`:
`len(s.template) == 1` and `s.template[0].(Expr)`) is an existence test: `match = sstack[0] != Nothing`
on the resolved cell (a value, Nothing, or a multivalue — which is not Nothing). The regenerated fact
`Gen.Script.bareExistence` (theorem `C12.bare_test_ok`) pins the presence of that branch. -/
def matchElem (d : Dev) (rx : RxEngine) (prog : List Item) (elem root : Val) : Except Fault Bool :=
  match prog with
  | [.path p] =>
    match resolveItem elem root false (.path p) with
    | .val .nothing => .ok false
    | _ => .ok true
  | _ => matchGeneral d rx prog elem root

/-! ## Equation.buildScript, Script(), Filter() -/

def flatten : Tm → List Item
  | .const v => [.val v]
  | .path p => [.path p]
  | .app1 o a => if o.cnt = 1 then .op o :: flatten a else .op o :: (flatten a ++ [.val .null])
  | .app2 o a b => if o.cnt = 1 then .op o :: flatten a else .op o :: (flatten a ++ flatten b)

/-- `wrap` = the route goes through `Equation.Script()` (text read by `NewScript`, or — since fe63c88 —
a built `jp.Get(x)` equation): a bare path is laid out as `path exists true`. `Equation.Filter()`
(`$[?(@.a)]`, `Expr.Filter`) lays out the bare path alone; since 6b93c2a `matchElem` evaluates that
one-cell template as an existence test too (before: "is the value the boolean true", former known
finding C12-bare-path). -/
def compile (wrap : Bool) (t : Tm) : List Item :=
  match t with
  | .path p => if wrap then [.op .exists, .path p, .val (.bool true)] else [.path p]
  | t => flatten t

/-- the `*Filter` fragment of `Expr.Get` on a list (jp/get.go: `tf.evalWithRoot(stack, prev, data)`, results
handed on in index order): the elements whose verdict is true; a fault on any element is a panic of the
whole call. `root` is the document given to `Get` (what `$` inside the script refers to). -/
def filterList (d : Dev) (rx : RxEngine) (prog : List Item) (root : Val) : List Val → Except Fault (List Val)
  | [] => .ok []
  | e :: rest =>
    match filterList d rx prog root rest with
    | .error f => .error f
    | .ok r =>
      match matchElem d rx prog e root with
      | .error f => .error f
      | .ok b => .ok (if b then e :: r else r)

/-- `$[?script]` applied to a document: the filter fragment on the document's elements, `$` = the document -/
def filterGet (d : Dev) (rx : RxEngine) (prog : List Item) (doc : Val) : Except Fault (List Val) :=
  filterList d rx prog doc (match doc with | .arr xs => xs | .obj kvs => kvs.map (·.2) | _ => [])

/-- elements of the filtered container, in index order (members of an object in the order given) -/
def elements : Val → List Val
  | .arr xs => xs
  | .obj kvs => kvs.map (·.2)
  | _ => []

end OjgVerif.Script
