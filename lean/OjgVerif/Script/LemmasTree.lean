import OjgVerif.Script.LemmasStack
/-! Tree-level lemmas for C12: resolving the program of a tree, and the combinations of its
multi-valued operands against the specification's `choices`. -/
namespace OjgVerif.Script
open OjgVerif

def isPath : Tm → Bool
  | .path _ => true
  | _ => false

/-- trees the exported builders (and the parser) produce: every operator has its own number of
arguments, `count` is applied to a path -/
def Tm.wf : Tm → Bool
  | .const _ => true
  | .path _ => true
  | .app1 o a => o.cnt == 1 && (if o = .count then isPath a else a.wf)
  | .app2 o a b => o.cnt == 2 && a.wf && b.wf

/-- the resolved program of a tree, defined on the tree -/
def rflat (elem root : Val) : Tm → List RItem
  | .const v => [.val v]
  | .path p => [resolveItem elem root false (.path p)]
  | .app1 o a =>
    if o = .count then
      match a with
      | .path p => [.op .count, .val (.arr (Spec.sel p elem elem))]
      | _ => []
    else .op o :: rflat elem root a
  | .app2 o a b => .op o :: (rflat elem root a ++ rflat elem root b)

theorem resolveItem_path_next (elem root : Val) (p : Path) :
    (resolveItem elem root false (.path p)).nextGet = false := by
  unfold resolveItem
  simp only [Bool.false_eq_true, ↓reduceIte]
  cases Spec.Path.normal p
  · simp only [Bool.false_eq_true, ↓reduceIte]
    cases Spec.sel p elem root with
    | nil => rfl
    | cons v r => cases r <;> rfl
  · simp only [↓reduceIte]
    cases Spec.sel p elem root <;> rfl

theorem flatMap_single {α β : Type} (f : α → β) (l : List α) : l.flatMap (fun v => [f v]) = l.map f := by
  induction l with
  | nil => rfl
  | cons x l ih => simp [ih]

theorem getLeft_of_cnt2 (o : Op) (h : o.cnt = 2) : o.getLeft = false := by
  cases o <;> simp [Op.cnt] at h <;> rfl

theorem getLeft_ne_count (o : Op) (h : o ≠ .count) : o.getLeft = false := by
  cases o <;> simp_all [Op.getLeft]

theorem resolve_flatten (elem root : Val) (t : Tm) :
    t.wf = true → ∀ rest, resolve elem root false (flatten t ++ rest) = rflat elem root t ++ resolve elem root false rest := by
  induction t with
  | const v => intro _ rest; simp [flatten, resolve, resolveItem, rflat, RItem.nextGet]
  | path p =>
    intro _ rest
    simp only [flatten, List.cons_append, List.nil_append, resolve, rflat, resolveItem_path_next]
  | app1 o a iha =>
    intro hwf rest
    simp only [Tm.wf, Bool.and_eq_true, beq_iff_eq] at hwf
    obtain ⟨hc, hrest⟩ := hwf
    by_cases hcount : o = .count
    · subst hcount
      simp only [↓reduceIte] at hrest
      cases a with
      | path p => simp [flatten, Op.cnt, resolve, resolveItem, rflat, Op.getLeft, RItem.nextGet]
      | const v => simp [isPath] at hrest
      | app1 o' a' => simp [isPath] at hrest
      | app2 o' a' b' => simp [isPath] at hrest
    · simp only [hcount, ↓reduceIte] at hrest
      have hg := getLeft_ne_count o hcount
      simp only [flatten, hc, ↓reduceIte, List.cons_append, resolve, resolveItem, Bool.false_eq_true, RItem.nextGet, hg, rflat, hcount]
      rw [iha hrest rest]
  | app2 o a b iha ihb =>
    intro hwf rest
    simp only [Tm.wf, Bool.and_eq_true, beq_iff_eq] at hwf
    obtain ⟨⟨hc, ha⟩, hb⟩ := hwf
    have hne : ¬ o.cnt = 1 := by omega
    have hg := getLeft_of_cnt2 o hc
    simp only [flatten, hne, ↓reduceIte, List.cons_append, List.append_assoc, resolve, resolveItem, Bool.false_eq_true, RItem.nextGet, hg, rflat]
    rw [iha ha (flatten b ++ rest), ihb hb rest]

theorem prod_append (a b : List RItem) :
    prod (a ++ b) = (prod a).flatMap fun x => (prod b).map fun y => x ++ y := by
  induction a with
  | nil => simp [prod]
  | cons it r ih =>
    cases it with
    | op o => simp [prod, ih, List.flatMap_map, List.map_flatMap, Function.comp_def]
    | val v => simp [prod, ih, List.flatMap_map, List.map_flatMap, Function.comp_def]
    | multi vs => simp [prod, ih, List.flatMap_map, List.map_flatMap, List.flatMap_assoc, Function.comp_def]

theorem prod_path (elem root : Val) (p : Path) :
    prod [resolveItem elem root false (.path p)] = (Spec.candidates p elem root).map fun v => [SItem.val v] := by
  unfold resolveItem Spec.candidates
  simp only [Bool.false_eq_true, ↓reduceIte]
  cases hn : Spec.Path.normal p
  · cases hs : Spec.sel p elem root with
    | nil => simp [prod]
    | cons v r =>
      cases r with
      | nil => simp [prod]
      | cons w r' => simp [prod, flatMap_single]
  · cases hs : Spec.sel p elem root with
    | nil => simp [prod]
    | cons v r => simp [prod]

theorem prod_rflat (elem root : Val) (t : Tm) :
    t.wf = true → prod (rflat elem root t) = (Spec.choices elem root t).map flattenS := by
  induction t with
  | const v => intro _; simp [rflat, prod, Spec.choices, flattenS]
  | path p =>
    intro _
    simp only [rflat, prod_path, Spec.choices, List.map_map]
    rfl
  | app1 o a iha =>
    intro hwf
    simp only [Tm.wf, Bool.and_eq_true, beq_iff_eq] at hwf
    obtain ⟨hc, hrest⟩ := hwf
    by_cases hcount : o = .count
    · subst hcount
      simp only [↓reduceIte] at hrest
      cases a with
      | path p => simp [rflat, prod, Spec.choices, flattenS, Op.cnt]
      | const v => simp [isPath] at hrest
      | app1 o' a' => simp [isPath] at hrest
      | app2 o' a' b' => simp [isPath] at hrest
    · simp only [hcount, ↓reduceIte] at hrest
      simp only [rflat, hcount, ↓reduceIte, prod, iha hrest, Spec.choices, List.map_map]
      congr 1
      funext c
      simp [flattenS, hc]
  | app2 o a b iha ihb =>
    intro hwf
    simp only [Tm.wf, Bool.and_eq_true, beq_iff_eq] at hwf
    obtain ⟨⟨hc, ha⟩, hb⟩ := hwf
    have hne : ¬ o.cnt = 1 := by omega
    simp only [rflat, prod, prod_append, iha ha, ihb hb, Spec.choices, List.map_flatMap, List.flatMap_map, List.map_map]
    congr 1
    funext ca
    congr 1
    funext cb
    simp [flattenS, hne]

theorem rflat_ne_nil (elem root : Val) (t : Tm) (h : t.wf = true) : rflat elem root t ≠ [] := by
  cases t with
  | const v => simp [rflat]
  | path p => simp [rflat]
  | app2 o a b => simp [rflat]
  | app1 o a =>
    simp only [Tm.wf, Bool.and_eq_true, beq_iff_eq] at h
    by_cases hcount : o = .count
    · subst hcount
      simp only [↓reduceIte] at h
      cases a <;> simp_all [isPath, rflat]
    · simp [rflat, hcount]

/-- verdict on the program of a closed tree = truth of the specified value (repaired model) -/
theorem stackTrue_flattenS (rx : RxEngine) (c : Tm) :
    stackTrue Dev.fixed rx (flattenS c) = Spec.isTrue (Spec.eval rx c) := by
  have h := evalStack_flattenS_head Dev.fixed rx c
  rw [evalTm_fixed] at h
  unfold stackTrue
  cases hs : evalStack Dev.fixed rx (flattenS c) with
  | error f => rw [hs] at h; cases h
  | ok vs =>
    rw [hs] at h
    have h' : vs.headD .null = Spec.eval rx c := Except.ok.inj h
    show Spec.isTrue (vs.headD .null) = _
    rw [h']

/-- per-element verdict of the repaired model on the program of a well-formed tree -/
theorem matchElem_flatten (rx : RxEngine) (t : Tm) (hwf : t.wf = true) (elem root : Val) :
    matchGeneral Dev.fixed rx (flatten t) elem root =
      .ok ((Spec.choices elem root t).any fun c => Spec.isTrue (Spec.eval rx c)) := by
  unfold matchGeneral
  have hr := resolve_flatten elem root t hwf []
  simp only [List.append_nil, resolve] at hr
  rw [hr, matchResolved_any Dev.fixed rfl rfl rx _ (rflat_ne_nil elem root t hwf), prod_rflat elem root t hwf,
    List.any_map]
  congr 2
  funext c
  exact stackTrue_flattenS rx c

end OjgVerif.Script
