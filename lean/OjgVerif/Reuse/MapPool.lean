/-! # The `Reuse` map pool of `oj.Parser` / `gen.Parser` / `sen.Parser` (`p.maps`, `p.mi`)

The three parsers carry the same code (gen/parser.go, oj/parser.go, sen/parser.go):

```go
// entry (Parse / ParseReader)
if p.stack == nil { … p.maps = make([]Object, 0, 16) } else { … }   // pool kept across calls
p.mi = 0
// parseBuffer, switch p.mode[b]
case openObject:
    var m Object
    if p.Reuse {
        if p.mi < len(p.maps) { m = p.maps[p.mi]; for k := range m { delete(m, k) } }
        else                  { m = make(Object, mapInitSize); p.maps = append(p.maps, m) }
        p.mi++
    } else { m = make(Object, mapInitSize) }
// after a top-level document has been delivered
p.mi = 0
```

Model. A map is an identity (`Nat`); `fresh` is the allocator (next identity never handed out);
`heap` gives the content of a map. The content of an object is abstract (`α`): `openObj … a` stands for
"the map is cleared and then filled with this object's members `a`" (that the filling is what the
machine's key/value actions do is NOT modelled here — tied by the harness stream `mappool`).
A document is the list of its objects' contents in the order the `{` are read (nested or siblings
alike: the pool index only counts `{`); a call is a list of documents.

Everything below is by induction over documents and calls of any length, from any state that ANY
earlier history of operations (finished, or aborted in the middle of a document) has left (`WF`,
`WF_history`). -/
namespace OjgVerif.Reuse.MapPool

structure St (α : Type) where
  /-- `p.maps`: identities of the pooled maps -/
  pool : List Nat
  /-- `p.mi` -/
  mi : Nat
  /-- allocator: every identity handed out so far is `< fresh` -/
  fresh : Nat
  /-- content of a map (`none`: never allocated / never filled) -/
  heap : Nat → Option α

/-- a new parser (`p.maps` empty) on an empty heap -/
def St.init {α : Type} : St α := ⟨[], 0, 0, fun _ => none⟩

/-- a new parser on a heap that already holds other maps -/
def St.new {α : Type} (fresh : Nat) (heap : Nat → Option α) : St α := ⟨[], 0, fresh, heap⟩

def upd {α : Type} (h : Nat → Option α) (x : Nat) (a : α) : Nat → Option α :=
  fun y => if y = x then some a else h y

/-- `case openObject:` — returns the identity of the map that becomes this object -/
def openObj {α : Type} (reuse : Bool) (a : α) (s : St α) : Nat × St α :=
  if reuse then
    if h : s.mi < s.pool.length then
      -- m = p.maps[p.mi]; clear(m); p.mi++
      (s.pool[s.mi], { s with mi := s.mi + 1, heap := upd s.heap s.pool[s.mi] a })
    else
      -- m = make(…); p.maps = append(p.maps, m); p.mi++
      (s.fresh, { pool := s.pool ++ [s.fresh], mi := s.mi + 1, fresh := s.fresh + 1,
                  heap := upd s.heap s.fresh a })
  else
    -- m = make(…)
    (s.fresh, { s with fresh := s.fresh + 1, heap := upd s.heap s.fresh a })

/-- MUTANT (seeded change C18-m8): `p.mi++` moved into the `else` branch — the index advances only
when the pool grows -/
def openObjBad {α : Type} (reuse : Bool) (a : α) (s : St α) : Nat × St α :=
  if reuse then
    if h : s.mi < s.pool.length then
      (s.pool[s.mi], { s with heap := upd s.heap s.pool[s.mi] a })
    else
      (s.fresh, { pool := s.pool ++ [s.fresh], mi := s.mi + 1, fresh := s.fresh + 1,
                  heap := upd s.heap s.fresh a })
  else
    (s.fresh, { s with fresh := s.fresh + 1, heap := upd s.heap s.fresh a })

/-- `p.mi = 0` after a top-level document has been delivered -/
def docEnd {α : Type} (s : St α) : St α := { s with mi := 0 }

/-- `p.mi = 0` at the entry of Parse / ParseReader; the pool is kept -/
def entry {α : Type} (s : St α) : St α := { s with mi := 0 }

/-- the objects of one document, in the order their `{` is read -/
def openAllW {α : Type} (step : α → St α → Nat × St α) : List α → St α → List Nat × St α
  | [], s => ([], s)
  | a :: as, s =>
    ((step a s).1 :: (openAllW step as (step a s).2).1, (openAllW step as (step a s).2).2)

/-- what is delivered for one document: the identities of its objects' maps, and their contents read
at the moment of delivery -/
structure DocRes (α : Type) where
  ids : List Nat
  val : List (Option α)

def runDocW {α : Type} (step : α → St α → Nat × St α) (d : List α) (s : St α) : DocRes α × St α :=
  (⟨(openAllW step d s).1, (openAllW step d s).1.map (openAllW step d s).2.heap⟩,
   docEnd (openAllW step d s).2)

def runDocsW {α : Type} (step : α → St α → Nat × St α) : List (List α) → St α → List (DocRes α) × St α
  | [], s => ([], s)
  | d :: ds, s =>
    ((runDocW step d s).1 :: (runDocsW step ds (runDocW step d s).2).1,
     (runDocsW step ds (runDocW step d s).2).2)

/-- one Parse / ParseReader call over an input holding the documents `docs` -/
def runCallW {α : Type} (step : α → St α → Nat × St α) (docs : List (List α)) (s : St α) :
    List (DocRes α) × St α :=
  runDocsW step docs (entry s)

abbrev openAll {α : Type} (reuse : Bool) := openAllW (α := α) (openObj reuse)
abbrev runDoc {α : Type} (reuse : Bool) := runDocW (α := α) (openObj reuse)
abbrev runDocs {α : Type} (reuse : Bool) := runDocsW (α := α) (openObj reuse)
abbrev runCall {α : Type} (reuse : Bool) := runCallW (α := α) (openObj reuse)

/-- the maps a call wrote: all identities it returned -/
def touched {α : Type} (rs : List (DocRes α)) : List Nat := (rs.map DocRes.ids).flatten

/-- the values a call delivered, document by document -/
def values {α : Type} (rs : List (DocRes α)) : List (List (Option α)) := rs.map DocRes.val

/-- the contents of the delivered maps read AFTER the call has returned -/
def valuesAfter {α : Type} (rs : List (DocRes α)) (s : St α) : List (List (Option α)) :=
  rs.map fun r => r.ids.map s.heap

/-! ## The invariant -/

/-- pooled maps are distinct, allocated, and the index is inside the pool (or just behind it) -/
structure WF {α : Type} (s : St α) : Prop where
  nodup : s.pool.Nodup
  lt : ∀ x ∈ s.pool, x < s.fresh
  mi_le : s.mi ≤ s.pool.length

theorem WF_init {α : Type} : WF (St.init : St α) := ⟨List.nodup_nil, by simp [St.init], by simp [St.init]⟩
theorem WF_new {α : Type} (f : Nat) (h : Nat → Option α) : WF (St.new f h) :=
  ⟨List.nodup_nil, by simp [St.new], by simp [St.new]⟩
theorem WF_docEnd {α : Type} {s : St α} (w : WF s) : WF (docEnd s) := ⟨w.nodup, w.lt, Nat.zero_le _⟩
theorem WF_entry {α : Type} {s : St α} (w : WF s) : WF (entry s) := ⟨w.nodup, w.lt, Nat.zero_le _⟩

/-- `s'` extends `s`: the pool has only grown at the end, by maps allocated since -/
structure Ext {α : Type} (s s' : St α) : Prop where
  pool : ∃ extra, s'.pool = s.pool ++ extra ∧ ∀ y ∈ extra, s.fresh ≤ y
  fresh : s.fresh ≤ s'.fresh

theorem Ext.refl {α : Type} (s : St α) : Ext s s := ⟨⟨[], by simp⟩, Nat.le_refl _⟩

theorem Ext.trans {α : Type} {s t u : St α} (h1 : Ext s t) (h2 : Ext t u) : Ext s u := by
  obtain ⟨e1, p1, l1⟩ := h1.pool
  obtain ⟨e2, p2, l2⟩ := h2.pool
  refine ⟨⟨e1 ++ e2, by rw [p2, p1, List.append_assoc], ?_⟩, Nat.le_trans h1.fresh h2.fresh⟩
  intro y hy
  rcases List.mem_append.1 hy with h | h
  · exact l1 y h
  · exact Nat.le_trans h1.fresh (l2 y h)

theorem Ext_docEnd {α : Type} (s : St α) : Ext s (docEnd s) := ⟨⟨[], by simp [docEnd]⟩, Nat.le_refl _⟩
theorem Ext_entry {α : Type} (s : St α) : Ext s (entry s) := ⟨⟨[], by simp [entry]⟩, Nat.le_refl _⟩

/-! ## One `{` -/

theorem openObj_reuse_spec {α : Type} (a : α) (s : St α) (w : WF s) :
    WF (openObj true a s).2 ∧ (openObj true a s).2.mi = s.mi + 1 ∧ Ext s (openObj true a s).2 ∧
    (openObj true a s).2.pool[s.mi]? = some (openObj true a s).1 := by
  by_cases h : s.mi < s.pool.length
  · simp only [openObj, if_true, dif_pos h]
    refine ⟨⟨w.nodup, w.lt, h⟩, by trivial, ⟨⟨[], by simp⟩, Nat.le_refl _⟩, ?_⟩
    simp [h]
  · have hm : s.mi = s.pool.length := Nat.le_antisymm w.mi_le (Nat.le_of_not_lt h)
    simp only [openObj, if_true, dif_neg h]
    refine ⟨⟨?_, ?_, ?_⟩, by trivial, ⟨⟨[s.fresh], rfl, by simp⟩, Nat.le_succ _⟩, ?_⟩
    · rw [List.nodup_append]
      refine ⟨w.nodup, by simp, ?_⟩
      intro x hx y hy
      simp only [List.mem_singleton] at hy
      have := w.lt x hx
      omega
    · intro x hx
      rcases List.mem_append.1 hx with h1 | h1
      · exact Nat.lt_succ_of_lt (w.lt x h1)
      · simp only [List.mem_singleton] at h1; subst h1; exact Nat.lt_succ_self _
    · simp [hm]
    · simp [hm]

theorem openObj_off_spec {α : Type} (a : α) (s : St α) :
    (openObj false a s).1 = s.fresh ∧ (openObj false a s).2.pool = s.pool ∧
    (openObj false a s).2.mi = s.mi ∧ (openObj false a s).2.fresh = s.fresh + 1 := by
  simp [openObj]

theorem WF_openObj {α : Type} (reuse : Bool) (a : α) {s : St α} (w : WF s) : WF (openObj reuse a s).2 := by
  cases reuse
  · obtain ⟨_, h2, h3, h4⟩ := openObj_off_spec a s
    exact ⟨h2 ▸ w.nodup, fun x hx => by rw [h4]; exact Nat.lt_succ_of_lt (w.lt x (h2 ▸ hx)),
      by rw [h3, h2]; exact w.mi_le⟩
  · exact (openObj_reuse_spec a s w).1

theorem Ext_openObj {α : Type} (reuse : Bool) (a : α) {s : St α} (w : WF s) : Ext s (openObj reuse a s).2 := by
  cases reuse
  · obtain ⟨_, h2, _, h4⟩ := openObj_off_spec a s
    exact ⟨⟨[], by simp [h2]⟩, by omega⟩
  · exact (openObj_reuse_spec a s w).2.2.1

/-- the returned map holds this object's content -/
theorem openObj_written {α : Type} (reuse : Bool) (a : α) (s : St α) :
    (openObj reuse a s).2.heap (openObj reuse a s).1 = some a := by
  unfold openObj
  split
  · split <;> simp [upd]
  · simp [upd]

/-- every other map is left alone -/
theorem openObj_frame {α : Type} (reuse : Bool) (a : α) (s : St α) (x : Nat)
    (hx : x ≠ (openObj reuse a s).1) : (openObj reuse a s).2.heap x = s.heap x := by
  unfold openObj at hx ⊢
  split
  · split
    · rename_i h1 h2; simp only [h1, if_true, dif_pos h2] at hx; simp [upd, hx]
    · rename_i h1 h2; simp only [h1, if_true, dif_neg h2] at hx; simp [upd, hx]
  · rename_i h1; simp only [h1] at hx; simp [upd]; intro h; exact absurd h (by simpa using hx)

/-! ## One document -/

theorem openAll_frame {α : Type} (reuse : Bool) (d : List α) (s : St α) (x : Nat)
    (hx : x ∉ (openAll reuse d s).1) : (openAll reuse d s).2.heap x = s.heap x := by
  induction d generalizing s with
  | nil => rfl
  | cons a as ih =>
    simp only [openAll, openAllW, List.mem_cons, not_or] at hx ⊢
    rw [ih _ hx.2, openObj_frame reuse a s x hx.1]

/-- if the identities are pairwise distinct, reading them back gives the document -/
theorem openAll_values {α : Type} (reuse : Bool) (d : List α) (s : St α)
    (hn : (openAll reuse d s).1.Nodup) :
    (openAll reuse d s).1.map (openAll reuse d s).2.heap = d.map some := by
  induction d generalizing s with
  | nil => rfl
  | cons a as ih =>
    simp only [openAll, openAllW, List.nodup_cons, List.map_cons] at hn ⊢
    rw [ih _ hn.2, openAll_frame reuse as _ _ hn.1, openObj_written]

/-- the content written into a touched map comes from this document -/
theorem openAll_touched_content {α : Type} (reuse : Bool) (d : List α) (s : St α) (x : Nat)
    (hx : x ∈ (openAll reuse d s).1) : ∃ a ∈ d, (openAll reuse d s).2.heap x = some a := by
  induction d generalizing s with
  | nil => simp [openAll, openAllW] at hx
  | cons a as ih =>
    simp only [openAll, openAllW] at hx ⊢
    by_cases h2 : x ∈ (openAllW (openObj reuse) as (openObj reuse a s).2).1
    · obtain ⟨b, hb, hv⟩ := ih _ h2
      exact ⟨b, List.mem_cons_of_mem _ hb, hv⟩
    · have h1 : x = (openObj reuse a s).1 := by
        rcases List.mem_cons.1 hx with h | h
        · exact h
        · exact absurd h h2
      refine ⟨a, List.mem_cons_self, ?_⟩
      have := openAll_frame reuse as (openObj reuse a s).2 x h2
      simp only [openAll] at this
      rw [this, h1, openObj_written]

theorem openAll_reuse_spec {α : Type} (d : List α) (s : St α) (w : WF s) :
    WF (openAll true d s).2 ∧ (openAll true d s).2.mi = s.mi + d.length ∧ Ext s (openAll true d s).2 ∧
    (openAll true d s).1 = ((openAll true d s).2.pool.drop s.mi).take d.length := by
  induction d generalizing s with
  | nil => exact ⟨w, rfl, Ext.refl s, by simp [openAll, openAllW]⟩
  | cons a as ih =>
    obtain ⟨w1, m1, e1, g1⟩ := openObj_reuse_spec a s w
    obtain ⟨w2, m2, e2, g2⟩ := ih (openObj true a s).2 w1
    simp only [openAll, openAllW] at w2 m2 e2 g2 ⊢
    refine ⟨w2, by rw [m2, m1, List.length_cons]; omega, e1.trans e2, ?_⟩
    obtain ⟨extra, hp, _⟩ := e2.pool
    have hlt : s.mi < (openObj true a s).2.pool.length := by
      rcases Nat.lt_or_ge s.mi (openObj true a s).2.pool.length with h | h
      · exact h
      · rw [List.getElem?_eq_none h] at g1; exact absurd g1 (by simp)
    have hget : (openAllW (openObj true) as (openObj true a s).2).2.pool[s.mi]? = some (openObj true a s).1 := by
      rw [hp, List.getElem?_append_left hlt]; exact g1
    have hlt2 : s.mi < (openAllW (openObj true) as (openObj true a s).2).2.pool.length := by
      rw [hp, List.length_append]; omega
    rw [List.drop_eq_getElem_cons hlt2, List.length_cons, List.take_succ_cons, g2, m1]
    congr 1
    rw [List.getElem?_eq_getElem hlt2] at hget
    exact (Option.some.inj hget).symm

theorem openAll_off_spec {α : Type} (d : List α) (s : St α) :
    (openAll false d s).1 = List.range' s.fresh d.length ∧ (openAll false d s).2.pool = s.pool ∧
    (openAll false d s).2.mi = s.mi ∧ (openAll false d s).2.fresh = s.fresh + d.length := by
  induction d generalizing s with
  | nil => simp [openAll, openAllW]
  | cons a as ih =>
    obtain ⟨h1, h2, h3, h4⟩ := openObj_off_spec a s
    obtain ⟨i1, i2, i3, i4⟩ := ih (openObj false a s).2
    simp only [openAll, openAllW] at i1 i2 i3 i4 ⊢
    refine ⟨?_, by rw [i2, h2], by rw [i3, h3], by rw [i4, h4, List.length_cons]; omega⟩
    rw [i1, h1, h4, List.length_cons, List.range'_succ]

theorem WF_openAll {α : Type} (reuse : Bool) (d : List α) {s : St α} (w : WF s) : WF (openAll reuse d s).2 := by
  induction d generalizing s with
  | nil => exact w
  | cons a as ih => exact ih (WF_openObj reuse a w)

theorem Ext_openAll {α : Type} (reuse : Bool) (d : List α) {s : St α} (w : WF s) : Ext s (openAll reuse d s).2 := by
  induction d generalizing s with
  | nil => exact Ext.refl s
  | cons a as ih => exact (Ext_openObj reuse a w).trans (ih (WF_openObj reuse a w))

/-- (a) **Within one document every object gets its own map**, Reuse on or off, from any
well-formed pool with the index at 0 (where entry and the end of every document put it). -/
theorem distinct_within_doc {α : Type} (reuse : Bool) (d : List α) (s : St α) (w : WF s) :
    (runDoc reuse d s).1.ids.Nodup := by
  cases reuse
  · simp only [runDoc, runDocW]
    have := (openAll_off_spec d s).1
    simp only [openAll] at this
    rw [this]
    exact List.nodup_range' 1
  · simp only [runDoc, runDocW]
    obtain ⟨w2, _, _, g⟩ := openAll_reuse_spec d s w
    simp only [openAll] at w2 g
    rw [g]
    exact (w2.nodup.sublist (List.drop_sublist _ _)).sublist (List.take_sublist _ _)

/-- the value delivered for a document is the document, whatever the pool held -/
theorem doc_value {α : Type} (reuse : Bool) (d : List α) (s : St α) (w : WF s) :
    (runDoc reuse d s).1.val = d.map some := by
  have hn := distinct_within_doc reuse d s w
  simp only [runDoc, runDocW] at hn ⊢
  exact openAll_values reuse d s hn

theorem WF_runDoc {α : Type} (reuse : Bool) (d : List α) {s : St α} (w : WF s) : WF (runDoc reuse d s).2 :=
  WF_docEnd (WF_openAll reuse d w)

theorem Ext_runDoc {α : Type} (reuse : Bool) (d : List α) {s : St α} (w : WF s) : Ext s (runDoc reuse d s).2 :=
  (Ext_openAll reuse d w).trans (Ext_docEnd _)

theorem runDoc_mi {α : Type} (reuse : Bool) (d : List α) (s : St α) : (runDoc reuse d s).2.mi = 0 := rfl

theorem runDoc_frame {α : Type} (reuse : Bool) (d : List α) (s : St α) (x : Nat)
    (hx : x ∉ (runDoc reuse d s).1.ids) : (runDoc reuse d s).2.heap x = s.heap x :=
  openAll_frame reuse d s x hx

theorem mem_take_ext {p extra : List Nat} {x n : Nat} (hx : x ∉ extra) :
    x ∈ (p ++ extra).take n ↔ x ∈ p.take n := by
  rw [List.take_append, List.mem_append]
  constructor
  · rintro (h | h)
    · exact h
    · exact absurd (List.mem_of_mem_take h) hx
  · exact Or.inl

/-- which EXISTING maps (`x < s.fresh`) a document writes: with Reuse, the first `d.length` of the
pool; without, none -/
theorem runDoc_touched_iff {α : Type} (reuse : Bool) (d : List α) (s : St α) (w : WF s) (hm : s.mi = 0)
    (x : Nat) (hx : x < s.fresh) :
    x ∈ (runDoc reuse d s).1.ids ↔ reuse = true ∧ x ∈ s.pool.take d.length := by
  cases reuse
  · simp only [runDoc, runDocW]
    have := (openAll_off_spec d s).1
    simp only [openAll] at this
    rw [this]
    simp only [List.mem_range'_1, Bool.false_eq_true, false_and, iff_false]
    omega
  · simp only [runDoc, runDocW, true_and]
    obtain ⟨_, _, e, g⟩ := openAll_reuse_spec d s w
    simp only [openAll] at e g
    obtain ⟨extra, hp, hl⟩ := e.pool
    rw [g, hm, List.drop_zero, hp]
    exact mem_take_ext (fun h => by have := hl x h; omega)

/-! ## One call -/

theorem WF_runDocs {α : Type} (reuse : Bool) (docs : List (List α)) {s : St α} (w : WF s) :
    WF (runDocs reuse docs s).2 := by
  induction docs generalizing s with
  | nil => exact w
  | cons d ds ih => exact ih (WF_runDoc reuse d w)

theorem WF_runCall {α : Type} (reuse : Bool) (docs : List (List α)) {s : St α} (w : WF s) :
    WF (runCall reuse docs s).2 := WF_runDocs reuse docs (WF_entry w)

theorem runDocs_distinct {α : Type} (reuse : Bool) (docs : List (List α)) (s : St α) (w : WF s) :
    ∀ r ∈ (runDocs reuse docs s).1, r.ids.Nodup := by
  induction docs generalizing s with
  | nil => intro r hr; simp [runDocs, runDocsW] at hr
  | cons d ds ih =>
    intro r hr
    simp only [runDocs, runDocsW, List.mem_cons] at hr
    rcases hr with h | h
    · rw [h]; exact distinct_within_doc reuse d s w
    · exact ih _ (WF_runDoc reuse d w) r h

theorem runDocs_values {α : Type} (reuse : Bool) (docs : List (List α)) (s : St α) (w : WF s) :
    values (runDocs reuse docs s).1 = docs.map (List.map some) := by
  induction docs generalizing s with
  | nil => rfl
  | cons d ds ih =>
    have h1 := doc_value reuse d s w
    have h2 := ih _ (WF_runDoc reuse d w)
    simp only [runDocs, runDocsW, values, List.map_cons, runDoc] at h1 h2 ⊢
    rw [h1, h2]

theorem runDocs_frame {α : Type} (reuse : Bool) (docs : List (List α)) (s : St α) (x : Nat)
    (hx : x ∉ touched (runDocs reuse docs s).1) : (runDocs reuse docs s).2.heap x = s.heap x := by
  induction docs generalizing s with
  | nil => rfl
  | cons d ds ih =>
    simp only [runDocs, runDocsW, touched, List.map_cons, List.flatten_cons, List.mem_append, not_or] at hx ⊢
    rw [ih _ hx.2]
    exact runDoc_frame reuse d s x hx.1

theorem runDocs_touched_iff {α : Type} (reuse : Bool) (docs : List (List α)) (s0 s : St α)
    (e : Ext s0 s) (w : WF s) (hm : s.mi = 0) (x : Nat) (hx : x < s0.fresh) :
    x ∈ touched (runDocs reuse docs s).1 ↔ reuse = true ∧ ∃ d ∈ docs, x ∈ s0.pool.take d.length := by
  induction docs generalizing s with
  | nil => simp [runDocs, runDocsW, touched]
  | cons d ds ih =>
    have hx' : x < s.fresh := Nat.lt_of_lt_of_le hx e.fresh
    have h1 := runDoc_touched_iff reuse d s w hm x hx'
    have h2 := ih _ (e.trans (Ext_runDoc reuse d w)) (WF_runDoc reuse d w) (runDoc_mi reuse d s)
    obtain ⟨extra, hp, hl⟩ := e.pool
    have h3 : x ∈ s.pool.take d.length ↔ x ∈ s0.pool.take d.length := by
      rw [hp]; exact mem_take_ext (fun h => by have := hl x h; omega)
    simp only [runDocs, runDocsW, touched, List.map_cons, List.flatten_cons, List.mem_append,
      runDoc] at h1 h2 ⊢
    rw [h1, h2, h3]
    constructor
    · rintro (⟨hr, h⟩ | ⟨hr, d', hd', h⟩)
      · exact ⟨hr, d, List.mem_cons_self, h⟩
      · exact ⟨hr, d', List.mem_cons_of_mem _ hd', h⟩
    · rintro ⟨hr, d', hd', h⟩
      rcases List.mem_cons.1 hd' with h' | h'
      · exact Or.inl ⟨hr, h' ▸ h⟩
      · exact Or.inr ⟨hr, d', h', h⟩

theorem runDocs_touched_content {α : Type} (reuse : Bool) (docs : List (List α)) (s : St α) (x : Nat)
    (hx : x ∈ touched (runDocs reuse docs s).1) :
    ∃ d ∈ docs, ∃ a ∈ d, (runDocs reuse docs s).2.heap x = some a := by
  induction docs generalizing s with
  | nil => simp [runDocs, runDocsW, touched] at hx
  | cons d ds ih =>
    simp only [runDocs, runDocsW, touched, List.map_cons, List.flatten_cons, List.mem_append] at hx ⊢
    by_cases h2 : x ∈ touched (runDocs reuse ds (runDoc reuse d s).2).1
    · obtain ⟨d', hd', a, ha, hv⟩ := ih _ h2
      exact ⟨d', List.mem_cons_of_mem _ hd', a, ha, hv⟩
    · have h1 : x ∈ (runDocW (openObj reuse) d s).1.ids := by
        rcases hx with h | h
        · exact h
        · exact absurd h h2
      obtain ⟨a, ha, hv⟩ := openAll_touched_content reuse d s x h1
      refine ⟨d, List.mem_cons_self, a, ha, ?_⟩
      have := runDocs_frame reuse ds (runDoc reuse d s).2 x h2
      simp only [runDocs, runDoc] at this
      rw [this]
      exact hv

/-- (a) at the level of a call: every delivered document has pairwise distinct maps -/
theorem call_distinct {α : Type} (reuse : Bool) (docs : List (List α)) (s : St α) (w : WF s) :
    ∀ r ∈ (runCall reuse docs s).1, r.ids.Nodup :=
  runDocs_distinct reuse docs (entry s) (WF_entry w)

/-- the values a call delivers are the documents of its input — a function of the input alone -/
theorem call_values {α : Type} (reuse : Bool) (docs : List (List α)) (s : St α) (w : WF s) :
    values (runCall reuse docs s).1 = docs.map (List.map some) :=
  runDocs_values reuse docs (entry s) (WF_entry w)

/-- (b) **With Reuse a call on a used parser delivers the values a new parser delivers**, from any
state any history has left (same for Reuse off). -/
theorem reuse_values_eq_fresh {α : Type} (reuse : Bool) (docs : List (List α)) (s : St α) (w : WF s) :
    values (runCall reuse docs s).1 = values (runCall reuse docs (St.init : St α)).1 := by
  rw [call_values reuse docs s w, call_values reuse docs St.init WF_init]

/-- (c) **Which earlier maps a later call overwrites**: a map that existed before the call
(`x < s.fresh` — in particular every map an earlier call returned) is written by the call exactly
when Reuse is on and it sits in the pool at an index below the number of objects of one of the
call's documents. -/
theorem earlier_results_clobbered_iff_reuse {α : Type} (reuse : Bool) (docs : List (List α)) (s : St α)
    (w : WF s) (x : Nat) (hx : x < s.fresh) :
    x ∈ touched (runCall reuse docs s).1 ↔ reuse = true ∧ ∃ d ∈ docs, x ∈ s.pool.take d.length := by
  have := runDocs_touched_iff reuse docs s (entry s) (Ext_entry s) (WF_entry w) rfl x hx
  exact this

/-- … a written map holds, after the call, the content of one of this call's objects … -/
theorem clobbered_content {α : Type} (reuse : Bool) (docs : List (List α)) (s : St α) (x : Nat)
    (hx : x ∈ touched (runCall reuse docs s).1) :
    ∃ d ∈ docs, ∃ a ∈ d, (runCall reuse docs s).2.heap x = some a :=
  runDocs_touched_content reuse docs (entry s) x hx

/-- … and a map that is not written keeps its content. -/
theorem untouched_kept {α : Type} (reuse : Bool) (docs : List (List α)) (s : St α) (x : Nat)
    (hx : x ∉ touched (runCall reuse docs s).1) : (runCall reuse docs s).2.heap x = s.heap x :=
  runDocs_frame reuse docs (entry s) x hx

/-- (c, Reuse off) **Without Reuse a later call alters no map that existed before it** -/
theorem reuse_off_untouched {α : Type} (docs : List (List α)) (s : St α) (w : WF s) (x : Nat)
    (hx : x < s.fresh) : (runCall false docs s).2.heap x = s.heap x := by
  apply untouched_kept
  rw [earlier_results_clobbered_iff_reuse false docs s w x hx]
  simp

/-! ## Reading the maps AFTER the call (Reuse on) -/

/-- the contents of the pooled maps, by pool position -/
def view {α : Type} (s : St α) : List (Option α) := s.pool.map s.heap

/-- what one document does to the pool contents: its objects take the first positions -/
def stepV {α : Type} (v : List (Option α)) (d : List α) : List (Option α) := d.map some ++ v.drop d.length

/-- the values of a call's documents read after the call, as a function of the input and of the
pool contents at entry -/
def afterSpec {α : Type} : List (List α) → List (Option α) → List (List (Option α))
  | [], _ => []
  | d :: ds, v => (ds.foldl stepV (stepV v d)).take d.length :: afterSpec ds (stepV v d)

theorem openAll_reuse_len {α : Type} (d : List α) (s : St α) (w : WF s) :
    (openAll true d s).2.pool.length = max s.pool.length (s.mi + d.length) := by
  induction d generalizing s with
  | nil => have := w.mi_le; simp only [openAll, openAllW, List.length_nil]; omega
  | cons a as ih =>
    obtain ⟨w1, m1, _, _⟩ := openObj_reuse_spec a s w
    have h := ih (openObj true a s).2 w1
    simp only [openAll, openAllW] at h ⊢
    rw [h, m1, List.length_cons]
    have hl : (openObj true a s).2.pool.length = max s.pool.length (s.mi + 1) := by
      have := w.mi_le
      by_cases hh : s.mi < s.pool.length
      · simp only [openObj, if_true, dif_pos hh]; omega
      · simp only [openObj, if_true, dif_neg hh, List.length_append, List.length_singleton]; omega
    rw [hl]; omega

theorem Ext_runDocs {α : Type} (reuse : Bool) (docs : List (List α)) {s : St α} (w : WF s) :
    Ext s (runDocs reuse docs s).2 := by
  induction docs generalizing s with
  | nil => exact Ext.refl s
  | cons d ds ih => exact (Ext_runDoc reuse d w).trans (ih (WF_runDoc reuse d w))

/-- one document with Reuse: its objects' contents take the first positions of the pool, the rest of
the pool is as before -/
theorem runDoc_view {α : Type} (d : List α) (s : St α) (w : WF s) (hm : s.mi = 0) :
    view (runDoc true d s).2 = stepV (view s) d ∧
    (runDoc true d s).1.ids = (runDoc true d s).2.pool.take d.length ∧
    d.length ≤ (runDoc true d s).2.pool.length := by
  obtain ⟨w2, _, e, g⟩ := openAll_reuse_spec d s w
  have hl := openAll_reuse_len d s w
  have hn := distinct_within_doc true d s w
  have hv := openAll_values true d s (by simpa [runDoc, runDocW] using hn)
  have hf := openAll_frame true d s
  simp only [runDoc, runDocW, docEnd, view, stepV, openAll] at *
  generalize (openAllW (openObj true) d s).2 = s' at *
  generalize (openAllW (openObj true) d s).1 = ids at *
  rw [hm, List.drop_zero] at g
  rw [hm, Nat.zero_add] at hl
  obtain ⟨extra, hp, _⟩ := e.pool
  have hdrop : s'.pool.drop d.length = s.pool.drop d.length := by
    rcases Nat.lt_or_ge s.pool.length d.length with h | h
    · rw [List.drop_eq_nil_of_le (by omega), List.drop_eq_nil_of_le (by omega)]
    · have : extra = [] := by
        have hh : s'.pool.length = s.pool.length + extra.length := by rw [hp, List.length_append]
        exact List.eq_nil_of_length_eq_zero (by omega)
      rw [hp, this, List.append_nil]
  refine ⟨?_, g, by omega⟩
  have hsplit : s'.pool = ids ++ s.pool.drop d.length := by
    rw [g, ← hdrop, List.take_append_drop]
  have hnd := w2.nodup
  rw [hsplit, List.nodup_append] at hnd
  rw [hsplit, List.map_append, hv]
  congr 1
  rw [← List.map_drop]
  apply List.map_congr_left
  intro x hx
  apply hf
  intro hmem
  exact hnd.2.2 x hmem x hx rfl

theorem agree_step {α : Type} (k : Nat) (v v' : List (Option α)) (d : List α)
    (h : d.length < k → v.take k = v'.take k) : (stepV v d).take k = (stepV v' d).take k := by
  simp only [stepV, List.take_append, List.length_map]
  congr 1
  rcases Nat.lt_or_ge d.length k with hk | hk
  · rw [List.take_drop, List.take_drop]
    have : d.length + (k - d.length) = k := by omega
    rw [this, h hk]
  · have : k - d.length = 0 := by omega
    rw [this, List.take_zero, List.take_zero]

theorem agree_fold {α : Type} (k : Nat) (ds : List (List α)) (v v' : List (Option α))
    (h : v.take k = v'.take k) : (ds.foldl stepV v).take k = (ds.foldl stepV v').take k := by
  induction ds generalizing v v' with
  | nil => exact h
  | cons d ds ih => exact ih _ _ (agree_step k v v' d (fun _ => h))

/-- the entry contents of the pool do not matter -/
theorem afterSpec_indep {α : Type} (docs : List (List α)) (v v' : List (Option α)) :
    afterSpec docs v = afterSpec docs v' := by
  induction docs generalizing v v' with
  | nil => rfl
  | cons d ds ih =>
    simp only [afterSpec]
    rw [ih (stepV v d) (stepV v' d)]
    congr 1
    apply agree_fold
    apply agree_step
    intro h
    exact absurd h (Nat.lt_irrefl _)


theorem runDocs_after {α : Type} (docs : List (List α)) (s : St α) (w : WF s) (hm : s.mi = 0) :
    view (runDocs true docs s).2 = docs.foldl stepV (view s) ∧
    valuesAfter (runDocs true docs s).1 (runDocs true docs s).2 = afterSpec docs (view s) := by
  induction docs generalizing s with
  | nil => exact ⟨rfl, rfl⟩
  | cons d ds ih =>
    obtain ⟨hv, hids, hlen⟩ := runDoc_view d s w hm
    have w1 := WF_runDoc true d w
    obtain ⟨ihv, iha⟩ := ih (runDoc true d s).2 w1 (runDoc_mi true d s)
    obtain ⟨extra, hp, _⟩ := (Ext_runDocs true ds w1).pool
    rw [hv] at ihv iha
    refine ⟨ihv, ?_⟩
    show ((runDoc true d s).1.ids.map (runDocs true ds (runDoc true d s).2).2.heap) ::
        valuesAfter (runDocs true ds (runDoc true d s).2).1 (runDocs true ds (runDoc true d s).2).2
      = (ds.foldl stepV (stepV (view s) d)).take d.length :: afterSpec ds (stepV (view s) d)
    rw [iha, ← ihv, hids]
    congr 1
    simp only [view]
    rw [← List.map_take, hp, List.take_append_of_le_length hlen]

/-- (b, read after the call) **With Reuse, what the maps a call returned hold after the call is the
same function of the input on a used parser as on a new one** — later documents of the same call
overwrite earlier ones in both alike -/
theorem reuse_values_after_eq_fresh {α : Type} (docs : List (List α)) (s : St α) (w : WF s) :
    valuesAfter (runCall true docs s).1 (runCall true docs s).2
      = valuesAfter (runCall true docs (St.init : St α)).1 (runCall true docs (St.init : St α)).2 := by
  have h1 := (runDocs_after docs (entry s) (WF_entry w) rfl).2
  have h2 := (runDocs_after docs (entry (St.init : St α)) (WF_entry WF_init) rfl).2
  simp only [runCall, runCallW, runDocs] at h1 h2 ⊢
  rw [h1, h2]
  exact afterSpec_indep docs _ _

theorem afterSpec_last {α : Type} (docs : List (List α)) (d : List α) (v : List (Option α)) :
    (afterSpec (docs ++ [d]) v).getLast? = some (d.map some) := by
  induction docs generalizing v with
  | nil => simp [afterSpec, stepV]
  | cons d' ds ih =>
    simp only [List.cons_append, afterSpec, List.getLast?_cons, ih (stepV v d')]
    rfl

/-- … and for the LAST document of a call (what `Parse` returns) that is the document itself -/
theorem last_doc_after {α : Type} (docs : List (List α)) (d : List α) (s : St α) (w : WF s) :
    (valuesAfter (runCall true (docs ++ [d]) s).1 (runCall true (docs ++ [d]) s).2).getLast?
      = some (d.map some) := by
  have h1 := (runDocs_after (docs ++ [d]) (entry s) (WF_entry w) rfl).2
  simp only [runCall, runCallW, runDocs] at h1 ⊢
  rw [h1]
  exact afterSpec_last docs d _

/-! ## Histories -/

inductive Op (α : Type) where
  | openObj (reuse : Bool) (a : α)
  | docEnd
  | entry

def runOp {α : Type} : Op α → St α → St α
  | .openObj r a, s => (openObj r a s).2
  | .docEnd, s => docEnd s
  | .entry, s => entry s

/-- every operation keeps the invariant … -/
theorem WF_runOp {α : Type} (o : Op α) {s : St α} (w : WF s) : WF (runOp o s) := by
  cases o with
  | openObj r a => exact WF_openObj r a w
  | docEnd => exact WF_docEnd w
  | entry => exact WF_entry w

/-- … so whatever sequence of operations — complete calls, calls aborted in the middle of a
document by an error, Reuse switched on and off in between — has run on a new parser, the state is
well-formed -/
theorem WF_history {α : Type} (h : List (Op α)) : WF (h.foldl (fun s o => runOp o s) (St.init : St α)) := by
  suffices ∀ s : St α, WF s → WF (h.foldl (fun s o => runOp o s) s) from this _ WF_init
  induction h with
  | nil => intro s w; exact w
  | cons o os ih => intro s w; exact ih _ (WF_runOp o w)

/-- a map an earlier call returned is older than the allocator of the state it leaves -/
theorem call_ids_lt_fresh {α : Type} (reuse : Bool) (docs : List (List α)) (s : St α) (w : WF s) (x : Nat)
    (hx : x ∈ touched (runCall reuse docs s).1) : x < (runCall reuse docs s).2.fresh := by
  suffices ∀ (s : St α), WF s → ∀ x, (runDocs reuse docs s).2.fresh ≤ x → x ∉ touched (runDocs reuse docs s).1 by
    rcases Nat.lt_or_ge x (runCall reuse docs s).2.fresh with h | h
    · exact h
    · exact absurd hx (this (entry s) (WF_entry w) x h)
  clear hx w s x
  induction docs with
  | nil => intro s _ x _; simp [runDocs, runDocsW, touched]
  | cons d ds ih =>
    intro s w x hge
    simp only [runDocs, runDocsW, touched, List.map_cons, List.flatten_cons, List.mem_append, not_or] at hge ⊢
    have w1 := WF_runDoc reuse d w
    refine ⟨?_, ih _ w1 x hge⟩
    have e2 : Ext (runDoc reuse d s).2 (runDocs reuse ds (runDoc reuse d s).2).2 := by
      clear ih hge
      generalize (runDoc reuse d s).2 = t at w1
      induction ds generalizing t with
      | nil => exact Ext.refl t
      | cons d' ds' ih' => exact (Ext_runDoc reuse d' w1).trans (ih' _ (WF_runDoc reuse d' w1))
    have hge' : (runDoc reuse d s).2.fresh ≤ x := Nat.le_trans e2.fresh hge
    cases reuse
    · have h := openAll_off_spec d s
      simp only [runDoc, runDocW, openAll, docEnd] at h hge' ⊢
      rw [h.1, List.mem_range'_1]
      omega
    · obtain ⟨w2, _, _, g⟩ := openAll_reuse_spec d s w
      simp only [runDoc, runDocW, openAll, docEnd] at w2 g hge' ⊢
      rw [g]
      intro hmem
      have := w2.lt x (List.mem_of_mem_drop (List.mem_of_mem_take hmem))
      omega

/-! ## The mutant: `p.mi++` only where the pool grows -/

/-- (d) with a pool of at least one map, the two objects of a document get THE SAME map -/
theorem bad_not_distinct {α : Type} (s : St α) (hm : s.mi = 0) (hp : 0 < s.pool.length) (a b : α) :
    ∃ x, (runDocW (openObjBad true) [a, b] s).1.ids = [x, x] := by
  refine ⟨s.pool[0], ?_⟩
  have h0 : s.mi < s.pool.length := by omega
  simp [runDocW, openAllW, openObjBad, hm, hp]

theorem bad_not_nodup {α : Type} (s : St α) (hm : s.mi = 0) (hp : 0 < s.pool.length) (a b : α) :
    ¬ (runDocW (openObjBad true) [a, b] s).1.ids.Nodup := by
  obtain ⟨x, hx⟩ := bad_not_distinct s hm hp a b
  rw [hx]; simp

/-- … and the delivered value is wrong: the first object shows the second one's members -/
theorem bad_value {α : Type} (s : St α) (hm : s.mi = 0) (hp : 0 < s.pool.length) (a b : α) :
    (runDocW (openObjBad true) [a, b] s).1.val = [some b, some b] := by
  simp [runDocW, openAllW, openObjBad, hm, hp, upd]

/-! ## Hypotheses are satisfiable; concrete runs -/

/-- a used parser: one call with Reuse, a document with three objects, on a new parser -/
def used : St Nat := (runCall true [[10, 11, 12]] St.init).2

example : WF used := WF_runCall true _ WF_init
example : used.pool = [0, 1, 2] ∧ used.mi = 0 ∧ used.fresh = 3 := by decide
example : (runCall true [[10, 11, 12]] (St.init : St Nat)).1.map DocRes.ids = [[0, 1, 2]] := by decide
/-- second call, fewer objects, then a document with more: maps 0,1 reused, then 0,1,2 and a new one -/
example : (runCall true [[20, 21], [30, 31, 32, 33]] used).1.map DocRes.ids = [[0, 1], [0, 1, 2, 3]] := by decide
example : values (runCall true [[20, 21], [30, 31, 32, 33]] used).1
    = [[some 20, some 21], [some 30, some 31, some 32, some 33]] := by decide
/-- after the call the first document's maps show the second document (documented for Reuse) -/
example : valuesAfter (runCall true [[20, 21], [30, 31, 32, 33]] used).1
      (runCall true [[20, 21], [30, 31, 32, 33]] used).2
    = [[some 30, some 31], [some 30, some 31, some 32, some 33]] := by decide
/-- … exactly what a new parser's maps show after the same call -/
example : valuesAfter (runCall true [[20, 21], [30, 31, 32, 33]] (St.init : St Nat)).1
      (runCall true [[20, 21], [30, 31, 32, 33]] (St.init : St Nat)).2
    = [[some 30, some 31], [some 30, some 31, some 32, some 33]] := by decide
/-- Reuse off on the used parser: new maps only -/
example : (runCall false [[20, 21]] used).1.map DocRes.ids = [[3, 4]] := by decide
/-- the hypotheses of (c): map 1 exists and is in the pool below 2 -/
example : (1 : Nat) < used.fresh ∧ 1 ∈ used.pool.take 2 := by decide
/-- the mutant on the used parser -/
example : (runDocW (openObjBad true) [20, 21] used).1.ids = [0, 0] := by decide
example : used.mi = 0 ∧ 0 < used.pool.length := by decide

/-- (c) witness — the documented clobbering: the first call returned map 1 holding 11; after a second
call with Reuse and a two-object document it holds 21; with Reuse off in the second call it still
holds 11 -/
theorem clobber_witness :
    1 ∈ touched (runCall true [[10, 11, 12]] (St.init : St Nat)).1 ∧
    used.heap 1 = some 11 ∧
    (runCall true [[20, 21]] used).2.heap 1 = some 21 ∧
    (runCall false [[20, 21]] used).2.heap 1 = some 11 := by decide

end OjgVerif.Reuse.MapPool
