/-! # The recomposer's registry and "types registered beforehand" (C08, model level)

`alt.(*Recomposer).registerComposer` registers a struct type and walks its exported fields: a field
that holds a struct type — directly, or as the element of ONE container (pointer, slice, map, array)
— gets that type registered too, so that a later `Recompose`, possibly on many goroutines at once,
only READS `r.composers`. A type that is reached while a value is filled and is not in the registry
is registered on the fly (`recomp` calls `registerComposer`): an unsynchronised write.

The model is one level deep (the struct types held by the fields have no struct fields of their
own): that is the step the walk repeats. Which container kinds the walk follows is a parameter; the
generated fact is `Gen.ReuseFacts.recomposerWalkKinds`. -/
namespace OjgVerif.Reuse.Reg

/-- how a field holds a struct type -/
inductive FKind where
  | plain | ptr | slice | map | array
  deriving DecidableEq, Repr

def FKind.all : List FKind := [.plain, .ptr, .slice, .map, .array]

/-- the `reflect.Kind` name of the container (none for a field of the struct type itself) -/
def FKind.goName : FKind → Option String
  | .plain => none
  | .ptr => some "Ptr"
  | .slice => some "Slice"
  | .map => some "Map"
  | .array => some "Array"

/-- a struct type: its id and, per exported field that holds a struct type, how and which -/
structure TyDecl where
  id : Nat
  fields : List (FKind × Nat)

/-- `registerComposer t`: the type itself and the types of the fields the walk follows -/
def register (follows : FKind → Bool) (reg : List Nat) (t : TyDecl) : List Nat :=
  t.id :: ((t.fields.filter fun f => follows f.1).map (·.2)) ++ reg

/-- the types `recomp` registers on the fly while it fills a value of type `t`: registry writes
during `Recompose` -/
def lazyWrites (reg : List Nat) (t : TyDecl) : List Nat :=
  (t.fields.map (·.2)).filter fun u => !reg.contains u

/-- the walk follows every kind: after registering `t`, recomposing a `t` writes nothing -/
theorem closed_of_follows (follows : FKind → Bool) (h : ∀ k, follows k = true) (reg : List Nat) (t : TyDecl) :
    lazyWrites (register follows reg t) t = [] := by
  unfold lazyWrites register
  rw [List.filter_eq_nil_iff]
  intro u hu
  obtain ⟨f, hf, rfl⟩ := List.mem_map.mp hu
  simp only [Bool.not_eq_true, Bool.not_eq_false', List.contains_eq_mem, decide_eq_true_eq]
  refine List.mem_cons_of_mem _ (List.mem_append_left _ ?_)
  exact List.mem_map.mpr ⟨f, List.mem_filter.mpr ⟨hf, h f.1⟩, rfl⟩

/-- a kind the walk does not follow: a type with one such field is not closed under registration —
the first `Recompose` calls write the registry -/
theorem not_closed_of_skips (follows : FKind → Bool) (k : FKind) (h : follows k = false) :
    lazyWrites (register follows [] ⟨0, [(k, 1)]⟩) ⟨0, [(k, 1)]⟩ = [1] := by
  simp [lazyWrites, register, h]

end OjgVerif.Reuse.Reg
