/-! # The recomposer's registry and "types registered beforehand" (C08, model level)

`alt.(*Recomposer).registerComposer` registers a struct type and walks its exported fields: the
struct type a field holds — directly or inside containers (pointer, slice, map, array) — is
registered too, so that a later `Recompose`, possibly on many goroutines at once, only READS
`r.composers`. A type that is reached while a value is filled and is not in the registry is
registered on the fly (`recomp` calls `registerComposer`): an unsynchronised write.

A field is modelled by the PATH of container kinds from the field type down to the struct type
(`[]` = the struct type itself, `[slice, slice]` = `[][]T`, `[ptr, array]` = `*[2]T`). The walk takes
the element type of a container whose kind it follows — once (`loops = false`: the code as it
is) or until the type is no container (`loops = true`); the recursive call then dereferences one
leading pointer (`if rt.Kind() == reflect.Ptr { rt = rt.Elem() }`) and must be at a struct type.
Types held by the fields have no struct fields of their own here: one application of the walk,
which is the step registration repeats. -/
namespace OjgVerif.Reuse.Reg

/-- container kinds -/
inductive CKind where
  | ptr | slice | map | array
  deriving DecidableEq, Repr

def CKind.all : List CKind := [.ptr, .slice, .map, .array]

def CKind.goName : CKind → String
  | .ptr => "Ptr"
  | .slice => "Slice"
  | .map => "Map"
  | .array => "Array"

/-- a struct type: its id and, per exported field that holds a struct type, the container path and that type -/
structure TyDecl where
  id : Nat
  fields : List (List CKind × Nat)

/-- what is left of the path after the walk's step(s) -/
def afterWalk (follows : CKind → Bool) (loops : Bool) (p : List CKind) : List CKind :=
  if loops then p.dropWhile follows
  else match p with
    | k :: r => if follows k then r else p
    | [] => []

/-- the walk registers the struct type at the end of path `p` -/
def reaches (follows : CKind → Bool) (loops : Bool) (p : List CKind) : Bool :=
  afterWalk follows loops p == [] || afterWalk follows loops p == [.ptr]

/-- `registerComposer t`: the type itself and the types the walk reaches -/
def register (follows : CKind → Bool) (loops : Bool) (reg : List Nat) (t : TyDecl) : List Nat :=
  t.id :: ((t.fields.filter fun f => reaches follows loops f.1).map (·.2)) ++ reg

/-- the types `recomp` registers on the fly while it fills a value of type `t`: registry writes
during `Recompose` -/
def lazyWrites (reg : List Nat) (t : TyDecl) : List Nat :=
  (t.fields.map (·.2)).filter fun u => !reg.contains u

theorem closed_of_reaches (follows : CKind → Bool) (loops : Bool) (reg : List Nat) (t : TyDecl)
    (h : ∀ f ∈ t.fields, reaches follows loops f.1 = true) :
    lazyWrites (register follows loops reg t) t = [] := by
  unfold lazyWrites register
  rw [List.filter_eq_nil_iff]
  intro u hu
  obtain ⟨f, hf, rfl⟩ := List.mem_map.mp hu
  simp only [Bool.not_eq_true, Bool.not_eq_false', List.contains_eq_mem, decide_eq_true_eq]
  refine List.mem_cons_of_mem _ (List.mem_append_left _ ?_)
  exact List.mem_map.mpr ⟨f, List.mem_filter.mpr ⟨hf, h f hf⟩, rfl⟩

theorem dropWhile_all (follows : CKind → Bool) (h : ∀ k, follows k = true) (p : List CKind) :
    p.dropWhile follows = [] := by
  induction p with
  | nil => rfl
  | cons k r ih => simp [List.dropWhile, h k, ih]

/-- repeated walk over all kinds: every path is reached -/
theorem reaches_loop (follows : CKind → Bool) (h : ∀ k, follows k = true) (p : List CKind) :
    reaches follows true p = true := by
  simp [reaches, afterWalk, dropWhile_all follows h p]

/-- single step over all kinds: paths of at most one container are reached, with either walk -/
theorem reaches_short (follows : CKind → Bool) (h : ∀ k, follows k = true) (loops : Bool) (p : List CKind)
    (hp : p.length ≤ 1) : reaches follows loops p = true := by
  cases loops
  · match p, hp with
    | [], _ => rfl
    | [k], _ => simp [reaches, afterWalk, h k]
  · exact reaches_loop follows h p

/-- **repaired walk**: after registering `t`, recomposing a `t` writes nothing, whatever containers
its fields nest -/
theorem closed_loop (follows : CKind → Bool) (h : ∀ k, follows k = true) (reg : List Nat) (t : TyDecl) :
    lazyWrites (register follows true reg t) t = [] :=
  closed_of_reaches follows true reg t fun f _ => reaches_loop follows h f.1

/-- **the walk as it is**: the same for types whose fields hold struct types behind at most one container -/
theorem closed_one_level (follows : CKind → Bool) (h : ∀ k, follows k = true) (loops : Bool) (reg : List Nat)
    (t : TyDecl) (ht : ∀ f ∈ t.fields, f.1.length ≤ 1) :
    lazyWrites (register follows loops reg t) t = [] :=
  closed_of_reaches follows loops reg t fun f hf => reaches_short follows h loops f.1 (ht f hf)

/-- a single step does not close registration over containers of containers: `[][]T` -/
theorem one_level_not_closed (follows : CKind → Bool) (h : ∀ k, follows k = true) :
    lazyWrites (register follows false [] ⟨0, [([.slice, .slice], 1)]⟩) ⟨0, [([.slice, .slice], 1)]⟩ = [1] := by
  simp [lazyWrites, register, reaches, afterWalk, h]

/-- the shortest path that needs kind `k` to be followed (a single leading pointer is dereferenced by
the recursive call whether or not the walk follows pointers) -/
def needs (k : CKind) : List CKind := if k = .ptr then [.ptr, .ptr] else [k]

/-- a kind the walk does not follow: a type with one such field is not closed under registration -/
theorem not_closed_of_skips (follows : CKind → Bool) (loops : Bool) (k : CKind) (h : follows k = false) :
    lazyWrites (register follows loops [] ⟨0, [(needs k, 1)]⟩) ⟨0, [(needs k, 1)]⟩ = [1] := by
  cases loops <;> cases k <;> simp [lazyWrites, register, reaches, afterWalk, needs, h, List.dropWhile]

end OjgVerif.Reuse.Reg
