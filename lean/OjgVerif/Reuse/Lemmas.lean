import OjgVerif.Reuse.Model
import OjgVerif.Json.Lemmas
/-! Non-interference for the JSON machine: two states that agree on the fields that are LIVE in the
current mode behave alike, whatever the other fields hold. Live everywhere: `mode starts stack docs
line pos nl`. Live only inside a string (`string esc u`): `nextMode tmp`; inside a literal
(`null true false`): `ri`; inside `\uXXXX`: `ri rn`; inside a number: `num` (and the fast-loop flag
in `digit`). Everything else is written before it is read. -/
namespace OjgVerif.Reuse
open OjgVerif OjgVerif.Json

def strMode : Mode → Bool
  | .string | .esc | .u => true
  | _ => false

def tokMode : Mode → Bool
  | .null | .true_ | .false_ => true
  | _ => false

def numMode : Mode → Bool
  | .neg | .zero | .digit | .dot | .frac | .expSign | .expZero | .exp => true
  | _ => false

/-- agreement on what is live (all but the fast-loop flag) -/
structure SimCore (s t : St) : Prop where
  mode : s.mode = t.mode
  starts : s.starts = t.starts
  stack : s.stack = t.stack
  docs : s.docs = t.docs
  line : s.line = t.line
  pos : s.pos = t.pos
  nl : s.nl = t.nl
  str : strMode s.mode = true → s.nextMode = t.nextMode ∧ s.tmp = t.tmp ∧ (s.nextMode = .colon ∨ s.nextMode = .after)
  tok : tokMode s.mode = true → s.ri = t.ri
  u : s.mode = .u → s.ri = t.ri ∧ s.rn = t.rn
  num : numMode s.mode = true → s.num = t.num

/-- agreement on what is live -/
structure Sim (s t : St) : Prop extends SimCore s t where
  fast : s.mode = .digit → s.inFast = t.inFast

theorem Sim.refl_of (s : St) (h : strMode s.mode = true → (s.nextMode = .colon ∨ s.nextMode = .after)) : Sim s s :=
  ⟨⟨rfl, rfl, rfl, rfl, rfl, rfl, rfl, fun hm => ⟨rfl, rfl, h hm⟩, fun _ => rfl, fun _ => ⟨rfl, rfl⟩, fun _ => rfl⟩, fun _ => rfl⟩

theorem SimCore.err {s t : St} (h : SimCore s t) (k : ErrKind) : s.err k = t.err k := by
  unfold St.err; rw [h.line, h.pos, h.nl]

/-- the modes in which each action occurs in the reference tables -/
def actModes : Act → List Mode
  | .strOk | .strQuote | .strSlash => [.string]
  | .escOk | .escU => [.esc]
  | .uOk => [.u]
  | .tokenOk => [.null, .true_, .false_]
  | .numDigit => [.digit]
  | .numZero | .negDigit => [.neg]
  | .numDot => [.zero, .digit]
  | .numFrac => [.dot, .frac]
  | .fracE => [.zero, .digit, .frac]
  | .expSign => [.expSign]
  | .expDigit => [.expSign, .expZero, .exp]
  | .numSpc | .numNewline | .numComma => [.zero, .digit, .frac, .exp]
  | .closeArray => [.value, .after, .zero, .digit, .frac, .exp]
  | .closeObject => [.value, .after, .key1, .zero, .digit, .frac, .exp]
  | .valNull | .valTrue | .valFalse | .valNeg | .val0 | .valDigit | .valQuote | .openArray | .openObject => [.value, .comma]
  | .keyQuote => [.key1, .key]
  | .afterComma => [.after]
  | .colonColon => [.colon]
  | .skipChar | .skipNewline => [.value, .comma, .after, .key1, .key, .colon, .space]
  | .charErr => Mode.all
  | .unknown => []

theorem act_mode (m : Mode) (b : UInt8) : m ∈ actModes (expected m b) := by
  have := forall_mode_byte (fun m b => (actModes (expected m b)).contains m) (by decide +kernel) m b
  simpa using this

/-- both sides fail alike, or both go on in agreeing states (the fast-loop flag agrees after the two
actions that `step` keeps it for) -/
def ResSim (a : Act) : Except Err (St × Bool) → Except Err (St × Bool) → Prop
  | .error e1, .error e2 => e1 = e2
  | .ok (s', c1), .ok (t', c2) =>
    c1 = c2 ∧ SimCore s' t' ∧ ((a = .numDigit ∨ a = .valDigit) → s'.inFast = t'.inFast)
  | _, _ => False

set_option hygiene false in
macro "sim_prep" : tactic => `(tactic| (
  simp only [strMode, tokMode, numMode, reduceCtorEq, forall_const, false_implies, Bool.false_eq_true] at hstr htok hu hnum hfast
  try (obtain ⟨h1, h2, hn⟩ := hstr; subst h1 h2)
  try (obtain ⟨h1, h2⟩ := hu; subst h1 h2)
  try subst htok
  try subst hnum
  try subst hfast))

set_option hygiene false in
macro "sim_close" : tactic => `(tactic| (
  refine ⟨rfl, ?_, ?_⟩
  · constructor <;> simp_all [strMode, tokMode, numMode, Num.reset]
  · simp_all))

set_option hygiene false in
macro "sim_simple" : tactic => `(tactic| (
  (repeat' rcases hm with hm | hm) <;> sim_prep <;> sim_close))

set_option maxHeartbeats 400000 in
theorem stepAct_sim (cfg : Cfg) {s t : St} (h : Sim s t) (b : UInt8) :
    ResSim (expected s.mode b) (stepAct refTables cfg s b) (stepAct refTables cfg t b) := by
  have hm := act_mode s.mode b
  obtain ⟨⟨hmode, hstarts, hstack, hdocs, hline, hpos, hnl, hstr, htok, hu, hnum⟩, hfast⟩ := h
  rcases s with ⟨sm, snm, sst, ssk, sdocs, stmp, sri, srn, snum, sline, spos, snl, sfast⟩
  rcases t with ⟨tm, tnm, tst, tsk, tdocs, ttmp, tri, trn, tnum, tline, tpos, tnl, tfast⟩
  simp only at hmode hstarts hstack hdocs hline hpos hnl hstr htok hu hnum hfast hm
  subst hmode hstarts hstack hdocs hline hpos hnl
  unfold stepAct
  simp only [refTables]
  cases hact : expected sm b <;> rw [hact] at hm <;> simp only [actModes, List.mem_cons, List.mem_nil_iff, or_false] at hm <;> simp only []
  case skipChar => sim_simple
  case skipNewline => sim_simple
  case colonColon => sim_simple
  case strOk => sim_simple
  case keyQuote => sim_simple
  case valQuote => sim_simple
  case strSlash => sim_simple
  case escOk => sim_simple
  case afterComma =>
    subst hm
    simp only [afterCommaMode]
    rcases sst with _ | ⟨hd, tl⟩
    · sim_simple
    · cases hd <;> sim_simple
  case openObject => sim_simple
  case openArray => sim_simple
  case val0 => sim_simple
  case valDigit => sim_simple
  case valNeg => sim_simple
  case escU => sim_simple
  case valNull => sim_simple
  case valTrue => sim_simple
  case valFalse => sim_simple
  case numDot => sim_simple
  case numFrac => sim_simple
  case fracE => sim_simple
  case numZero => sim_simple
  case numDigit => sim_simple
  case negDigit => sim_simple
  case expSign => sim_simple
  case expDigit => sim_simple
  case uOk =>
    subst hm
    sim_prep
    by_cases h4 : sri + 1 = 4 <;> simp only [h4, if_true, if_false] <;> sim_close
  case charErr =>
    simp only [ResSim, St.err]
  case numSpc =>
    (repeat' rcases hm with hm | hm) <;> sim_prep <;>
    (simp only [St.addNum, St.add, bind, Except.bind]
     cases addItem snum.asNum.toJV ssk <;> simp only [pure, Except.pure] <;> first | rfl | sim_close)
  case numNewline =>
    (repeat' rcases hm with hm | hm) <;> sim_prep <;>
    (simp only [St.addNum, St.add, bind, Except.bind]
     cases addItem snum.asNum.toJV ssk <;> simp only [pure, Except.pure] <;> first | rfl | sim_close)
  case numComma =>
    (repeat' rcases hm with hm | hm) <;> sim_prep <;>
    (simp only [St.addNum, St.add, bind, Except.bind]
     cases addItem snum.asNum.toJV ssk <;> simp only [pure, Except.pure]
     · rfl
     · rcases sst with _ | ⟨hd, tl⟩
       · rfl
       · simp only [afterCommaMode]; cases hd <;> sim_close)
  case strQuote =>
    subst hm
    sim_prep
    rcases hn with hn | hn <;> subst hn
    · have h58 : expected Mode.colon 58 = Act.colonColon := by decide
      simp only [h58, if_true]
      sim_close
    · have h58 : ¬ expected Mode.after 58 = Act.colonColon := by decide
      simp only [h58, if_false, St.add, bind, Except.bind]
      cases addItem (JV.str stmp.reverse) ssk <;> simp only [pure, Except.pure] <;> first | rfl | sim_close
  case closeObject =>
    (repeat' rcases hm with hm | hm) <;> sim_prep <;>
    (rcases sst with _ | ⟨hd, tl⟩
     · rfl
     · cases hd
       · simp only [expectedFin, St.flushNum, St.addNum, St.add, St.popObj, bind, Except.bind, reduceCtorEq, if_true, if_false]
         first
         | rfl
         | (rcases ssk with _ | ⟨top, below⟩
            · simp only []; rfl
            · simp only []
              cases addItem top.toJV below <;> simp only [pure, Except.pure] <;> first | rfl | sim_close)
         | (cases addItem snum.asNum.toJV ssk with
            | error w => simp only []; rfl
            | ok st1 =>
              simp only []
              rcases st1 with _ | ⟨top, below⟩
              · simp only []; rfl
              · simp only []
                cases addItem top.toJV below <;> simp only [pure, Except.pure] <;> first | rfl | sim_close)
       · rfl)
  case closeArray =>
    (repeat' rcases hm with hm | hm) <;> sim_prep <;>
    (rcases sst with _ | ⟨hd, tl⟩
     · rfl
     · cases hd
       · rfl
       · simp only [expectedFin, St.flushNum, St.addNum, St.add, St.popArr, bind, Except.bind, reduceCtorEq, if_true, if_false]
         first
         | (cases splitAtMark ssk [] with
            | none => simp only []; rfl
            | some p =>
              simp only []
              cases addItem (JV.arr p.1) p.2 <;> simp only [pure, Except.pure] <;> first | rfl | sim_close)
         | (cases addItem snum.asNum.toJV ssk with
            | error w => simp only []; rfl
            | ok st1 =>
              simp only []
              cases splitAtMark st1 [] with
              | none => simp only []; rfl
              | some p =>
                simp only []
                cases addItem (JV.arr p.1) p.2 <;> simp only [pure, Except.pure] <;> first | rfl | sim_close))
  case tokenOk =>
    have t1 : expected Mode.true_ 114 = Act.tokenOk := by decide
    have f1 : ¬ expected Mode.false_ 114 = Act.tokenOk := by decide
    have f2 : expected Mode.false_ 97 = Act.tokenOk := by decide
    have n1 : ¬ expected Mode.null 114 = Act.tokenOk := by decide
    have n2 : ¬ expected Mode.null 97 = Act.tokenOk := by decide
    have n3 : expected Mode.null 117 = Act.tokenOk := by decide
    have n4 : expected Mode.null 108 = Act.tokenOk := by decide
    (repeat' rcases hm with hm | hm) <;> sim_prep <;>
    simp only [stepToken, t1, f1, f2, n1, n2, n3, n4, if_true, if_false, Bool.and_self, decide_true, St.add, bind, Except.bind]
    · by_cases hb : [110, 117, 108, 108].getD (sri + 1) 0 = b
      · by_cases h3 : 3 ≤ sri + 1
        · simp only [if_pos hb, if_pos h3]
          cases addItem _ ssk <;> simp only [pure, Except.pure] <;> first | rfl | sim_close
        · simp only [if_pos hb, if_neg h3, pure, Except.pure]; sim_close
      · simp only [if_neg hb]; rfl
    · by_cases hb : [116, 114, 117, 101].getD (sri + 1) 0 = b
      · by_cases h3 : 3 ≤ sri + 1
        · simp only [if_pos hb, if_pos h3]
          cases addItem _ ssk <;> simp only [pure, Except.pure] <;> first | rfl | sim_close
        · simp only [if_pos hb, if_neg h3, pure, Except.pure]; sim_close
      · simp only [if_neg hb]; rfl
    · by_cases hb : [102, 97, 108, 115, 101].getD (sri + 1) 0 = b
      · by_cases h3 : 4 ≤ sri + 1
        · simp only [if_pos hb, if_pos h3]
          cases addItem _ ssk <;> simp only [pure, Except.pure] <;> first | rfl | sim_close
        · simp only [if_pos hb, if_neg h3, pure, Except.pure]; sim_close
      · simp only [if_neg hb]; rfl

theorem deliver_inFast (T : Tables) (cfg : Cfg) (s : St) : (deliver T cfg s).inFast = s.inFast := by
  unfold deliver; split <;> rfl

theorem deliver_sim (cfg : Cfg) {s t : St} (h : SimCore s t) :
    SimCore (deliver refTables cfg s) (deliver refTables cfg t) := by
  obtain ⟨hmode, hstarts, hstack, hdocs, hline, hpos, hnl, hstr, htok, hu, hnum⟩ := h
  unfold deliver
  rw [← hmode, ← hstarts, ← hstack, ← hdocs]
  split
  · constructor <;> (simp only [] <;> first | assumption | rfl | (cases cfg.onlyOne <;> simp [strMode, tokMode, numMode]))
  · exact ⟨hmode, hstarts, hstack, hdocs, hline, hpos, hnl, hstr, htok, hu, hnum⟩

/-- one byte: both sides fail alike or go on in agreeing states -/
def StepSim : Except Err St → Except Err St → Prop
  | .error e1, .error e2 => e1 = e2
  | .ok s', .ok t' => Sim s' t'
  | _, _ => False

theorem step_sim (cfg : Cfg) {s t : St} (h : Sim s t) (b : UInt8) :
    StepSim (step refTables cfg s b) (step refTables cfg t b) := by
  have ha := stepAct_sim cfg h b
  unfold step
  rw [← h.mode]
  cases hs : stepAct refTables cfg s b with
  | error e1 =>
    cases ht : stepAct refTables cfg t b with
    | error e2 => rw [hs, ht] at ha; exact ha
    | ok p => rw [hs, ht] at ha; exact ha.elim
  | ok p =>
    cases ht : stepAct refTables cfg t b with
    | error e2 => rw [hs, ht] at ha; exact ha.elim
    | ok q =>
      rw [hs, ht] at ha
      obtain ⟨s1, c1⟩ := p
      obtain ⟨t1, c2⟩ := q
      obtain ⟨hc, hcore, hf⟩ := ha
      subst hc
      have hd : SimCore (if c1 = true then s1 else deliver refTables cfg s1) (if c1 = true then t1 else deliver refTables cfg t1) := by
        cases c1
        · exact deliver_sim cfg hcore
        · exact hcore
      have hfi : (if c1 = true then s1 else deliver refTables cfg s1).inFast = s1.inFast := by
        cases c1
        · exact deliver_inFast _ _ _
        · rfl
      have hfi' : (if c1 = true then t1 else deliver refTables cfg t1).inFast = t1.inFast := by
        cases c1
        · exact deliver_inFast _ _ _
        · rfl
      simp only [StepSim]
      refine ⟨⟨hd.mode, hd.starts, hd.stack, hd.docs, hd.line, by simp only [hd.pos], hd.nl, hd.str, hd.tok, hd.u, hd.num⟩, ?_⟩
      intro _
      have hr : refTables.act s.mode b = expected s.mode b := rfl
      simp only [hr]
      cases hact : expected s.mode b <;> simp only [] <;> first | rfl | (rw [hfi, hfi']; exact hf (by simp [hact]))

theorem runBytes_sim (cfg : Cfg) (bs : Bytes) {s t : St} (h : Sim s t) :
    StepSim (runBytes refTables cfg s bs) (runBytes refTables cfg t bs) := by
  induction bs generalizing s t with
  | nil => exact h
  | cons b r ih =>
    have hs := step_sim cfg h b
    simp only [runBytes]
    cases h1 : step refTables cfg s b with
    | error e1 =>
      cases h2 : step refTables cfg t b with
      | error e2 => rw [h1, h2] at hs; exact hs
      | ok t1 => rw [h1, h2] at hs; exact hs.elim
    | ok s1 =>
      cases h2 : step refTables cfg t b with
      | error e2 => rw [h1, h2] at hs; exact hs.elim
      | ok t1 => rw [h1, h2] at hs; exact ih hs

theorem runChunks_sim (cfg : Cfg) (cs : List Bytes) {s t : St} (h : Sim s t) :
    StepSim (runChunks refTables cfg s cs) (runChunks refTables cfg t cs) := by
  induction cs generalizing s t with
  | nil => exact h
  | cons c r ih =>
    have hs := runBytes_sim cfg c h
    simp only [runChunks]
    cases h1 : runBytes refTables cfg s c with
    | error e1 =>
      cases h2 : runBytes refTables cfg t c with
      | error e2 => rw [h1, h2] at hs; exact hs
      | ok t1 => rw [h1, h2] at hs; exact hs.elim
    | ok s1 =>
      cases h2 : runBytes refTables cfg t c with
      | error e2 => rw [h1, h2] at hs; exact hs.elim
      | ok t1 =>
        rw [h1, h2] at hs
        exact ih ⟨⟨hs.mode, hs.starts, hs.stack, hs.docs, hs.line, hs.pos, hs.nl, hs.str, hs.tok, hs.u, hs.num⟩, fun _ => rfl⟩

theorem finish_sim {s t : St} (h : Sim s t) : finish refTables s = finish refTables t := by
  obtain ⟨⟨hmode, hstarts, hstack, hdocs, hline, hpos, hnl, hstr, htok, hu, hnum⟩, hfast⟩ := h
  rcases s with ⟨sm, snm, sst, ssk, sdocs, stmp, sri, srn, snum, sline, spos, snl, sfast⟩
  rcases t with ⟨tm, tnm, tst, tsk, tdocs, ttmp, tri, trn, tnum, tline, tpos, tnl, tfast⟩
  simp only at hmode hstarts hstack hdocs hline hpos hnl hstr htok hu hnum hfast
  subst hmode hstarts hstack hdocs hline hpos hnl
  unfold finish
  simp only [refTables]
  cases sm <;> simp only [expectedFin, numMode, reduceCtorEq, forall_const] at hnum ⊢ <;>
    first
    | rfl
    | (subst hnum
       simp only [St.addNum, St.add, St.err, if_true]
       cases addItem snum.asNum.toJV ssk <;> rfl)
    | (simp only [St.err])

end OjgVerif.Reuse
