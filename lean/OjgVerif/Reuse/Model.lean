import OjgVerif.Json.Machine
/-! # Reuse family (C07): an entry-point call on an instance that previous calls have used

`Json.run` models one call on a FRESH instance (`St` = `{}`). Here the same machine is started from
whatever a previous call left behind: `entryReset fs s` resets exactly the fields in `fs` (the list
is generated from the Go entry point: the receiver fields assigned before the buffer function is
first called) and leaves every other field of `s` as it is; `runFrom` is `Json.run` with that
initial state. The loop offset (`pos`) and the integer fast loop flag (`inFast`) are locals of the Go
buffer functions, not receiver fields: `enter` starts them afresh.

Also here: the per-call state of the writers (`WSt`) and the struct-info cache (`Cache`), as far
as C07 needs them (the encoders themselves belong to C04). -/
namespace OjgVerif.Reuse
open OjgVerif OjgVerif.Json

/-- the receiver state of the modelled machines, by field (`noff` is the model's `nl`) -/
inductive Field where
  | mode | nextMode | starts | stack | docs | tmp | ri | rn | num | line | noff
  deriving DecidableEq, Repr

def Field.all : List Field :=
  [.mode, .nextMode, .starts, .stack, .docs, .tmp, .ri, .rn, .num, .line, .noff]

/-- reset exactly the fields in `fs` to the values the Go entry points assign (`mode = valueMap`,
`line = 1`, `noff = -1`, empty slices, `result = nil`); every other field keeps whatever `s` holds -/
def entryReset (fs : List Field) (s : St) : St :=
  { mode := if fs.contains .mode then .value else s.mode
    nextMode := if fs.contains .nextMode then .after else s.nextMode
    starts := if fs.contains .starts then [] else s.starts
    stack := if fs.contains .stack then [] else s.stack
    docs := if fs.contains .docs then [] else s.docs
    tmp := if fs.contains .tmp then [] else s.tmp
    ri := if fs.contains .ri then 0 else s.ri
    rn := if fs.contains .rn then 0 else s.rn
    num := if fs.contains .num then {} else s.num
    line := if fs.contains .line then 1 else s.line
    pos := s.pos
    nl := if fs.contains .noff then -1 else s.nl
    inFast := s.inFast }

/-- the value `entryReset` gives a field, as the token the extractor writes for the right-hand side of
the Go assignment (`mode := .value` is `= valueMap`, `[]` is a zero-length reslice `x[:0]` or
`make(T, 0, n)`, `line := 1` is `= 1`, `nl := -1` is `noff = -1`, `docs := []` is `result = nil`
and a nil callback / channel before the arguments are looked at). Read side by side with
`entryReset`: this table is what ties its hard-coded values to the source. -/
def resetToken : Field → Option String
  | .mode => some "ident:valueMap"
  | .starts | .stack | .tmp => some "empty"
  | .docs => some "nil"
  | .line => some "lit:1"
  | .noff => some "lit:-1"
  | _ => none

/-- locals of the buffer function (`off`, the digit loop) start afresh in every call -/
def enter (s : St) : St := { s with pos := 0, inFast := false }

variable (T : Tables) (cfg : Cfg)

/-- `Json.run` started from the state `s0` of a used instance -/
def runFrom (s0 : St) (chunks : List Bytes) : Except Err (List JV) :=
  let cs := if cfg.reader then topUp (chunks.filter (!·.isEmpty)) else chunks
  match cs with
  | [] => finish T (enter s0)
  | c :: rest =>
    match (if cfg.reader then bomRuleReader c else bomRule c) with
    | .bad => .error { line := 1, col := 3, kind := .byte }
    | .strip r =>
      match runChunks T cfg (enter s0) (r :: rest) with
      | .error e => .error e
      | .ok s => finish T s
    | .keep =>
      match runChunks T cfg (enter s0) (c :: rest) with
      | .error e => .error e
      | .ok s => finish T s

/-- what a caller can tell apart: number of documents delivered, or the error position and kind -/
def observe : Except Err (List JV) → Option Nat × Option (Nat × Int × ErrKind)
  | .ok ds => (some ds.length, none)
  | .error e => (none, some (e.line, e.col, e.kind))

/-! ## Go field names

Which Go receiver fields hold each model field, per receiver type. A model field with no Go field
(the value stack of the Validator, say) is not instance state of that type. `docs` stands for where
results go: `result`, and the callback / channel / token handler of the call. -/

def implementedBy (recv : String) : Field → List String :=
  if recv = "oj.Parser" ∨ recv = "gen.Parser" then fun
    | .mode => ["mode"] | .nextMode => ["nextMode"] | .starts => ["starts"] | .stack => ["stack"]
    | .docs => ["result", "cb", "resultChan"] | .tmp => ["tmp"] | .ri => ["ri"] | .rn => ["rn"]
    | .num => ["num"] | .line => ["line"] | .noff => ["noff"]
  else if recv = "oj.Tokenizer" then fun
    | .mode => ["mode"] | .nextMode => ["nextMode"] | .starts => ["starts"] | .stack => []
    | .docs => ["handler"] | .tmp => ["tmp"] | .ri => ["ri"] | .rn => ["rn"]
    | .num => ["num"] | .line => ["line"] | .noff => ["noff"]
  else if recv = "oj.Validator" then fun
    | .mode => ["mode"] | .nextMode => ["nextMode"] | .starts => ["stack"] | .stack => []
    | .docs => [] | .tmp => [] | .ri => ["ri"] | .rn => [] | .num => [] | .line => ["line"] | .noff => ["noff"]
  else fun _ => ["?"]

/-- fields that carry an ARGUMENT of the call and therefore have to be assigned from the arguments
at entry (else the previous call's argument is used) -/
def argFields (recv : String) : List String :=
  if recv = "oj.Parser" then ["cb", "resultChan", "OnlyOne", "num.Conv"]
  else if recv = "gen.Parser" then ["cb", "resultChan", "OnlyOne"]
  else if recv = "oj.Tokenizer" then ["handler"]
  else []

/-- documented configuration of the instance: part of the call's options by design -/
def configFields (recv : String) : List String :=
  if recv = "oj.Parser" ∨ recv = "gen.Parser" then ["Reuse"]
  else if recv = "oj.Validator" ∨ recv = "oj.Tokenizer" then ["OnlyOne"]
  else if recv = "oj.Writer" ∨ recv = "sen.Writer" then ["Options"]
  else if recv = "pretty.Writer" then ["Options", "Width", "MaxDepth", "Align", "SEN"]
  else []

/-- scratch that holds no information between calls: recycled buffers and maps (`mi` indexes
`maps` and only matters under `Reuse`), `num` sub-fields written by `Reset` before they are read -/
def scratchFields (recv : String) : List String :=
  if recv = "oj.Parser" ∨ recv = "gen.Parser" then ["runeBytes", "maps", "mi"]
  else if recv = "oj.Tokenizer" then ["runeBytes", "mi"]
  else if recv = "oj.Writer" then ["buf", "w", "findex", "strict", "appendArray", "appendObject", "appendDefault", "appendString"]
  else if recv = "sen.Writer" then ["buf", "w", "findex", "needSep", "appendArray", "appendObject", "appendDefault", "appendString"]
  else if recv = "pretty.Writer" then ["buf", "w"]
  else []

/-- every Go field the classification knows for a receiver type -/
def knownFields (recv : String) : List String :=
  (Field.all.flatMap (implementedBy recv)) ++ argFields recv ++ configFields recv ++ scratchFields recv

/-- model fields that a Go entry point resets: all the Go fields that hold them are assigned -/
def resetFields (recv : String) (assigned : List String) : List Field :=
  Field.all.filter fun f => (implementedBy recv f).all assigned.contains

/-! ## Writers: per-call state

`enc` stands for the encoder proper (`appendJSON`/`colorJSON` and what they call): an arbitrary
function of what it can read — the options, the `strict` flag, the field index, the installed
append functions and the data. `buf` is what it appends to. -/

structure WOpts where
  indent : Nat := 0
  tab : Bool := false
  sort : Bool := false
  color : Bool := false
  nestEmbed : Bool := false
  useTags : Bool := false
  keyExact : Bool := false
  other : Nat := 0         -- every option the encoder reads besides the ones above
  deriving DecidableEq, Repr, Inhabited

/-- which of the append function sets `MustJSON` installs -/
inductive Sel where
  | none | tight | tightSort | indent | indentSort
  deriving DecidableEq, Repr, Inhabited

structure WSt where
  opts : WOpts := {}
  buf : Bytes := []
  sink : Option Nat := none     -- `w`: the io.Writer of the last Write call
  findex : Nat := 0
  strict : Bool := false
  sel : Sel := .none
  deriving Inhabited

def calcFieldsIndex (o : WOpts) : Nat :=
  (if o.nestEmbed then 4 else 0) + (if 0 < o.indent then 8 else 0) +
    (if o.useTags then 1 else if o.keyExact then 2 else 0)

def pickSel (o : WOpts) : Sel :=
  if o.tab || 0 < o.indent then (if o.sort then .indentSort else .indent)
  else (if o.sort then .tightSort else .tight)

/-- which writer fields a call resets (generated: `w`, `buf`, `findex`, the append functions) -/
structure WResets where
  sink : Bool
  buf : Bool
  findex : Bool
  sel : Bool
  deriving DecidableEq, Repr

abbrev Enc (D : Type) := WOpts → Bool → Nat → Sel → D → Bytes

/-- `MustJSON` / `MustWrite` with `w := sink`: the state after the call and what the caller receives
(the buffer; for `Write` the bytes handed to the io.Writer `sink`) -/
def wcall {D : Type} (enc : Enc D) (r : WResets) (sink : Option Nat) (s : WSt) (d : D) : WSt × Bytes × Option Nat :=
  let s1 : WSt := { s with sink := if r.sink then sink else s.sink }
  let s2 : WSt := { s1 with buf := if r.buf then [] else s1.buf }
  let s3 : WSt := { s2 with findex := if r.findex then calcFieldsIndex s2.opts else s2.findex }
  let s4 : WSt := if s3.opts.color then s3 else { s3 with sel := if r.sel then pickSel s3.opts else s3.sel }
  let out := s4.buf ++ enc s4.opts s4.strict s4.findex (if s4.opts.color then .none else s4.sel) d
  ({ s4 with buf := out }, out, s4.sink)

/-- `oj.Marshal(data, wr)` on the caller's Writer: sets `strict`, encodes, and (only if the source
does so: generated fact) puts the caller's `strict` back -/
def marshalOn {D : Type} (enc : Enc D) (r : WResets) (restores : Bool) (s : WSt) (d : D) : WSt × Bytes :=
  let res := wcall enc r none { s with strict := true } d
  ({ res.1 with strict := if restores then s.strict else true }, res.2.1)

/-! ## pretty.Writer: `Write` stores the io.Writer in `w`; `Encode`/`Marshal` clear it only if the
source does (generated fact). With `w` set the encoded bytes go to it and the buffer comes back empty. -/

structure PSt where
  sink : Option Nat := none
  deriving DecidableEq, Repr, Inhabited

/-- result of `Encode`: (state, returned bytes, (sink, bytes written to it)) -/
def pEncode (clearsSink : Bool) (text : Bytes) (s : PSt) : PSt × Bytes × Option (Nat × Bytes) :=
  let s1 : PSt := if clearsSink then { s with sink := none } else s
  match s1.sink with
  | some w => (s1, [], some (w, text))
  | none => (s1, text, none)

def pWrite (w : Nat) (text : Bytes) (_s : PSt) : PSt × Option (Nat × Bytes) :=
  ({ sink := some w }, some (w, text))

/-! ## Struct-info cache

Two maps keyed by type (`structMap`, `structEmptyMap`). `getSinfo t om` (the top-level lookup)
selects the map by `om`. `getTypeStruct` (nested struct fields, called while a plan is built)
selects by `om` only if the source does (generated fact `typeStructEmpty`); otherwise it looks
in `structMap` alone. A plan is identified by the flag it was built with. -/

structure Cache where
  plain : List (Nat × Bool) := []      -- type ↦ flag the cached plan was built with
  empty : List (Nat × Bool) := []
  deriving DecidableEq, Repr, Inhabited

def Cache.lookup (m : List (Nat × Bool)) (t : Nat) : Option Bool := (m.find? (·.1 = t)).map (·.2)

/-- `getTypeStruct t om`: the plan used for a nested field of type `t`, and the cache afterwards -/
def getTypeStruct (selectsByFlag : Bool) (c : Cache) (t : Nat) (om : Bool) : Bool × Cache :=
  let m := if selectsByFlag && om then c.empty else c.plain
  match Cache.lookup m t with
  | some p => (p, c)
  | none => (om, if om then { c with empty := (t, om) :: c.empty } else { c with plain := (t, om) :: c.plain })

/-- `getSinfo t om` for a top-level value of type `t` -/
def getSinfo (c : Cache) (t : Nat) (om : Bool) : Bool × Cache :=
  let m := if om then c.empty else c.plain
  match Cache.lookup m t with
  | some p => (p, c)
  | none => (om, if om then { c with empty := (t, om) :: c.empty } else { c with plain := (t, om) :: c.plain })

/-- a cache all of whose entries were made by these two functions: every plan sits in the map of
the flag it was built with -/
def Cache.wf (c : Cache) : Prop := (∀ e ∈ c.plain, e.2 = false) ∧ (∀ e ∈ c.empty, e.2 = true)

end OjgVerif.Reuse
