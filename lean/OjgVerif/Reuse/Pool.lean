/-! # The sync.Pool ownership protocol of the package-level functions (C08, model level)

Any number of goroutines, each making calls one after the other; a call is

    get an instance (an idle one from the pool, or a new one) and reset it (the entry point's resets);
    work: consume the input element by element, each step reading and writing the instance's state
          and buffer;
    finish: the result is read off the instance;
    [copy]: the buffer is copied to a fresh private location        (only if the API copies out);
    put the instance back into the pool;
    return (the private copy, or else the instance's own buffer) to the caller.

Steps of different goroutines interleave arbitrarily; the pool may drop idle instances at any time
(GC). `S` is the instance state, `X` an input element, `R` a result; `resetf`, `stepf`, `outf` are
the entry reset, one step of the work and reading the result; `new` is what the pool's New makes.

What this model cannot exhibit: Go data races proper (unsynchronised accesses inside one step), the
internals of sync.Pool, anything about memory outside the instances. -/
namespace OjgVerif.Reuse.Pool

/-- memory a caller may be handed: the buffer of instance `i`, or the `k`-th private copy -/
inductive Loc where
  | inst (i : Nat)
  | priv (k : Nat)
  deriving DecidableEq, Repr

inductive PC (X R : Type) where
  | idle
  | run (i : Nat) (done todo : List X)
  | filled (i : Nat) (inp : List X) (r : R)
  | copied (i k : Nat) (inp : List X) (r : R)
  | released (l : Loc) (inp : List X) (r : R)

/-- the instance a goroutine holds -/
def PC.inst? {X R : Type} : PC X R → Option Nat
  | .run i _ _ => some i
  | .filled i _ _ => some i
  | .copied i _ _ _ => some i
  | _ => none

structure State (X S R : Type) where
  pool : List Nat                  -- idle instances (a multiset)
  fresh : Nat                      -- instances made so far
  freshPriv : Nat                  -- private copies made so far
  ist : Nat → S                    -- state of each instance
  pcs : Nat → PC X R               -- where each goroutine is
  res : Nat → List R               -- results each goroutine has received, newest first
  calls : Nat → List (List X)      -- the inputs of those calls, newest first
  held : List Loc                  -- every location handed to a caller so far

def upd {α : Type} (f : Nat → α) (g : Nat) (a : α) : Nat → α := fun h => if h = g then a else f h

@[simp] theorem upd_same {α : Type} (f : Nat → α) (g : Nat) (a : α) : upd f g a g = a := by simp [upd]
@[simp] theorem upd_other {α : Type} (f : Nat → α) {g h : Nat} (a : α) (hn : h ≠ g) : upd f g a h = f h := by
  simp [upd, hn]

def init {X S R : Type} (new : S) : State X S R :=
  { pool := [], fresh := 0, freshPriv := 0, ist := fun _ => new, pcs := fun _ => .idle,
    res := fun _ => [], calls := fun _ => [], held := [] }

/-- what a step writes -/
inductive Ev where
  | none
  | write (l : Loc)
  deriving DecidableEq, Repr

section
variable {X S R : Type} (resetf : S → S) (stepf : S → X → S) (outf : S → R) (new : S) (copies : Bool)

/-- one step of goroutine `g` (or of the pool: `drop`) -/
inductive Step : State X S R → Ev → State X S R → Prop where
  | getPool (σ : State X S R) (g i : Nat) (inp : List X) (hp : σ.pcs g = .idle) (hi : i ∈ σ.pool) :
      Step σ .none { σ with pool := σ.pool.erase i, ist := upd σ.ist i (resetf (σ.ist i)), pcs := upd σ.pcs g (.run i [] inp) }
  | getNew (σ : State X S R) (g : Nat) (inp : List X) (hp : σ.pcs g = .idle) :
      Step σ .none { σ with fresh := σ.fresh + 1, ist := upd σ.ist σ.fresh (resetf new), pcs := upd σ.pcs g (.run σ.fresh [] inp) }
  | work (σ : State X S R) (g i : Nat) (done todo : List X) (x : X) (hp : σ.pcs g = .run i done (x :: todo)) :
      Step σ (.write (.inst i)) { σ with ist := upd σ.ist i (stepf (σ.ist i) x), pcs := upd σ.pcs g (.run i (done ++ [x]) todo) }
  | finish (σ : State X S R) (g i : Nat) (done : List X) (hp : σ.pcs g = .run i done []) :
      Step σ .none { σ with pcs := upd σ.pcs g (.filled i done (outf (σ.ist i))) }
  | copy (σ : State X S R) (g i : Nat) (inp : List X) (r : R) (hc : copies = true) (hp : σ.pcs g = .filled i inp r) :
      Step σ (.write (.priv σ.freshPriv)) { σ with freshPriv := σ.freshPriv + 1, pcs := upd σ.pcs g (.copied i σ.freshPriv inp r) }
  | putCopied (σ : State X S R) (g i k : Nat) (inp : List X) (r : R) (hp : σ.pcs g = .copied i k inp r) :
      Step σ .none { σ with pool := i :: σ.pool, pcs := upd σ.pcs g (.released (.priv k) inp r) }
  | putAlias (σ : State X S R) (g i : Nat) (inp : List X) (r : R) (hc : copies = false) (hp : σ.pcs g = .filled i inp r) :
      Step σ .none { σ with pool := i :: σ.pool, pcs := upd σ.pcs g (.released (.inst i) inp r) }
  | ret (σ : State X S R) (g : Nat) (l : Loc) (inp : List X) (r : R) (hp : σ.pcs g = .released l inp r) :
      Step σ .none { σ with pcs := upd σ.pcs g .idle, res := upd σ.res g (r :: σ.res g),
                            calls := upd σ.calls g (inp :: σ.calls g), held := l :: σ.held }
  | drop (σ : State X S R) (i : Nat) (hi : i ∈ σ.pool) :
      Step σ .none { σ with pool := σ.pool.erase i }

inductive Reachable : State X S R → Prop where
  | init : Reachable (init new)
  | step {σ σ' : State X S R} {ev : Ev} : Reachable σ → Step resetf stepf outf new copies σ ev σ' → Reachable σ'

/-! ## Ownership -/

structure Owner (σ : State X S R) : Prop where
  nodup : σ.pool.Nodup
  excl : ∀ g i, (σ.pcs g).inst? = some i → i ∉ σ.pool
  uniq : ∀ g1 g2 i, (σ.pcs g1).inst? = some i → (σ.pcs g2).inst? = some i → g1 = g2
  poolBound : ∀ i ∈ σ.pool, i < σ.fresh
  heldBound : ∀ g i, (σ.pcs g).inst? = some i → i < σ.fresh

theorem owner_step {σ σ' : State X S R} {ev : Ev} (h : Owner σ)
    (hs : Step resetf stepf outf new copies σ ev σ') : Owner σ' := by
  obtain ⟨hnd, hex, huq, hpb, hhb⟩ := h
  cases hs with
  | getPool g i inp hp hi =>
    refine ⟨hnd.erase i, ?_, ?_, ?_, ?_⟩
    · intro g' j hj hm
      by_cases hg : g' = g
      · subst hg
        simp only [upd_same, PC.inst?, Option.some.injEq] at hj
        subst hj
        exact hnd.not_mem_erase hm
      · simp only [upd_other _ _ hg] at hj
        exact hex g' j hj (List.mem_of_mem_erase hm)
    · intro g1 g2 j h1 h2
      by_cases hg1 : g1 = g <;> by_cases hg2 : g2 = g
      · rw [hg1, hg2]
      · subst hg1
        simp only [upd_same, PC.inst?, Option.some.injEq] at h1
        simp only [upd_other _ _ hg2] at h2
        subst h1
        exact absurd hi (hex g2 _ h2)
      · subst hg2
        simp only [upd_same, PC.inst?, Option.some.injEq] at h2
        simp only [upd_other _ _ hg1] at h1
        subst h2
        exact absurd hi (hex g1 _ h1)
      · simp only [upd_other _ _ hg1] at h1
        simp only [upd_other _ _ hg2] at h2
        exact huq g1 g2 j h1 h2
    · intro j hj; exact hpb j (List.mem_of_mem_erase hj)
    · intro g' j hj
      by_cases hg : g' = g
      · subst hg
        simp only [upd_same, PC.inst?, Option.some.injEq] at hj
        subst hj
        exact hpb _ hi
      · simp only [upd_other _ _ hg] at hj
        exact hhb g' j hj
  | getNew g inp hp =>
    refine ⟨hnd, ?_, ?_, ?_, ?_⟩
    · intro g' j hj hm
      by_cases hg : g' = g
      · subst hg
        simp only [upd_same, PC.inst?, Option.some.injEq] at hj
        subst hj
        exact absurd (hpb _ hm) (Nat.lt_irrefl _)
      · simp only [upd_other _ _ hg] at hj
        exact hex g' j hj hm
    · intro g1 g2 j h1 h2
      by_cases hg1 : g1 = g <;> by_cases hg2 : g2 = g
      · rw [hg1, hg2]
      · subst hg1
        simp only [upd_same, PC.inst?, Option.some.injEq] at h1
        simp only [upd_other _ _ hg2] at h2
        subst h1
        exact absurd (hhb g2 _ h2) (Nat.lt_irrefl _)
      · subst hg2
        simp only [upd_same, PC.inst?, Option.some.injEq] at h2
        simp only [upd_other _ _ hg1] at h1
        subst h2
        exact absurd (hhb g1 _ h1) (Nat.lt_irrefl _)
      · simp only [upd_other _ _ hg1] at h1
        simp only [upd_other _ _ hg2] at h2
        exact huq g1 g2 j h1 h2
    · intro j hj; exact Nat.lt_succ_of_lt (hpb j hj)
    · intro g' j hj
      by_cases hg : g' = g
      · subst hg
        simp only [upd_same, PC.inst?, Option.some.injEq] at hj
        subst hj
        exact Nat.lt_succ_self _
      · simp only [upd_other _ _ hg] at hj
        exact Nat.lt_succ_of_lt (hhb g' j hj)
  | work g i done todo x hp =>
    have hgi : (σ.pcs g).inst? = some i := by rw [hp]; rfl
    have key : ∀ g' j, (upd σ.pcs g (PC.run i (done ++ [x]) todo) g').inst? = some j → (σ.pcs g').inst? = some j := by
      intro g' j hj
      by_cases hg : g' = g
      · subst hg; simp only [upd_same, PC.inst?] at hj; rw [hgi]; exact hj
      · simpa only [upd_other _ _ hg] using hj
    exact ⟨hnd, fun g' j hj => hex g' j (key g' j hj), fun g1 g2 j h1 h2 => huq g1 g2 j (key _ _ h1) (key _ _ h2),
      hpb, fun g' j hj => hhb g' j (key g' j hj)⟩
  | finish g i done hp =>
    have hgi : (σ.pcs g).inst? = some i := by rw [hp]; rfl
    have key : ∀ g' j, (upd σ.pcs g (PC.filled i done (outf (σ.ist i))) g').inst? = some j → (σ.pcs g').inst? = some j := by
      intro g' j hj
      by_cases hg : g' = g
      · subst hg; simp only [upd_same, PC.inst?] at hj; rw [hgi]; exact hj
      · simpa only [upd_other _ _ hg] using hj
    exact ⟨hnd, fun g' j hj => hex g' j (key g' j hj), fun g1 g2 j h1 h2 => huq g1 g2 j (key _ _ h1) (key _ _ h2),
      hpb, fun g' j hj => hhb g' j (key g' j hj)⟩
  | copy g i inp r hc hp =>
    have hgi : (σ.pcs g).inst? = some i := by rw [hp]; rfl
    have key : ∀ g' j, (upd σ.pcs g (PC.copied i σ.freshPriv inp r) g').inst? = some j → (σ.pcs g').inst? = some j := by
      intro g' j hj
      by_cases hg : g' = g
      · subst hg; simp only [upd_same, PC.inst?] at hj; rw [hgi]; exact hj
      · simpa only [upd_other _ _ hg] using hj
    exact ⟨hnd, fun g' j hj => hex g' j (key g' j hj), fun g1 g2 j h1 h2 => huq g1 g2 j (key _ _ h1) (key _ _ h2),
      hpb, fun g' j hj => hhb g' j (key g' j hj)⟩
  | putCopied g i k inp r hp =>
    have hgi : (σ.pcs g).inst? = some i := by rw [hp]; rfl
    have key : ∀ g' j, (upd σ.pcs g (PC.released (.priv k) inp r) g').inst? = some j → g' ≠ g ∧ (σ.pcs g').inst? = some j := by
      intro g' j hj
      by_cases hg : g' = g
      · subst hg; simp only [upd_same, PC.inst?] at hj; cases hj
      · exact ⟨hg, by simpa only [upd_other _ _ hg] using hj⟩
    refine ⟨List.nodup_cons.mpr ⟨hex g i hgi, hnd⟩, ?_, fun g1 g2 j h1 h2 => huq g1 g2 j (key _ _ h1).2 (key _ _ h2).2, ?_,
      fun g' j hj => hhb g' j (key g' j hj).2⟩
    · intro g' j hj hm
      obtain ⟨hg, hj'⟩ := key g' j hj
      rcases List.mem_cons.mp hm with hm | hm
      · subst hm; exact hg (huq g' g j hj' hgi)
      · exact hex g' j hj' hm
    · intro j hj
      rcases List.mem_cons.mp hj with hj | hj
      · subst hj; exact hhb g j hgi
      · exact hpb j hj
  | putAlias g i inp r hc hp =>
    have hgi : (σ.pcs g).inst? = some i := by rw [hp]; rfl
    have key : ∀ g' j, (upd σ.pcs g (PC.released (.inst i) inp r) g').inst? = some j → g' ≠ g ∧ (σ.pcs g').inst? = some j := by
      intro g' j hj
      by_cases hg : g' = g
      · subst hg; simp only [upd_same, PC.inst?] at hj; cases hj
      · exact ⟨hg, by simpa only [upd_other _ _ hg] using hj⟩
    refine ⟨List.nodup_cons.mpr ⟨hex g i hgi, hnd⟩, ?_, fun g1 g2 j h1 h2 => huq g1 g2 j (key _ _ h1).2 (key _ _ h2).2, ?_,
      fun g' j hj => hhb g' j (key g' j hj).2⟩
    · intro g' j hj hm
      obtain ⟨hg, hj'⟩ := key g' j hj
      rcases List.mem_cons.mp hm with hm | hm
      · subst hm; exact hg (huq g' g j hj' hgi)
      · exact hex g' j hj' hm
    · intro j hj
      rcases List.mem_cons.mp hj with hj | hj
      · subst hj; exact hhb g j hgi
      · exact hpb j hj
  | ret g l inp r hp =>
    have key : ∀ g' j, (upd σ.pcs g (PC.idle : PC X R) g').inst? = some j → (σ.pcs g').inst? = some j := by
      intro g' j hj
      by_cases hg : g' = g
      · subst hg; simp only [upd_same, PC.inst?] at hj; cases hj
      · simpa only [upd_other _ _ hg] using hj
    exact ⟨hnd, fun g' j hj => hex g' j (key g' j hj), fun g1 g2 j h1 h2 => huq g1 g2 j (key _ _ h1) (key _ _ h2),
      hpb, fun g' j hj => hhb g' j (key g' j hj)⟩
  | drop i hi =>
    exact ⟨hnd.erase i, fun g' j hj hm => hex g' j hj (List.mem_of_mem_erase hm), huq,
      fun j hj => hpb j (List.mem_of_mem_erase hj), hhb⟩

theorem owner_init : Owner (init new : State X S R) := by
  refine ⟨List.nodup_nil, ?_, ?_, ?_, ?_⟩
  · intro g i h; cases h
  · intro g1 g2 i h; cases h
  · intro i h; cases h
  · intro g i h; cases h

theorem owner_reachable {σ : State X S R} (h : Reachable resetf stepf outf new copies σ) : Owner σ := by
  induction h with
  | init => exact owner_init new
  | step _ hs ih => exact owner_step resetf stepf outf new copies ih hs


/-- no instance is held by two goroutines, and a held instance is not in the pool -/
theorem owner_exclusive {σ : State X S R} (h : Reachable resetf stepf outf new copies σ) :
    (∀ g1 g2 i, (σ.pcs g1).inst? = some i → (σ.pcs g2).inst? = some i → g1 = g2) ∧
    (∀ g i, (σ.pcs g).inst? = some i → i ∉ σ.pool) :=
  ⟨(owner_reachable resetf stepf outf new copies h).uniq, (owner_reachable resetf stepf outf new copies h).excl⟩

/-! ## A returned buffer is not written again (when the API copies out) -/

structure RetInv (σ : State X S R) : Prop where
  held : ∀ l ∈ σ.held, ∃ k, l = Loc.priv k ∧ k < σ.freshPriv
  copied : ∀ g i k inp r, σ.pcs g = .copied i k inp r → k < σ.freshPriv
  released : ∀ g l inp r, σ.pcs g = .released l inp r → ∃ k, l = Loc.priv k ∧ k < σ.freshPriv

theorem ret_step (hcp : copies = true) {σ σ' : State X S R} {ev : Ev} (h : RetInv σ)
    (hs : Step resetf stepf outf new copies σ ev σ') : RetInv σ' := by
  obtain ⟨hh, hc, hr⟩ := h
  -- a goroutine whose pc becomes `pc'` (not copied / released) adds no obligation
  have plain : ∀ (g : Nat) (pc' : PC X R), (∀ i k inp r, pc' ≠ .copied i k inp r) → (∀ l inp r, pc' ≠ .released l inp r) →
      (∀ g' i k inp r, upd σ.pcs g pc' g' = .copied i k inp r → k < σ.freshPriv) ∧
      (∀ g' l inp r, upd σ.pcs g pc' g' = .released l inp r → ∃ k, l = Loc.priv k ∧ k < σ.freshPriv) := by
    intro g pc' h1 h2
    constructor
    · intro g' i k inp r hg'
      by_cases hg : g' = g
      · subst hg; simp only [upd_same] at hg'; exact absurd hg' (h1 i k inp r)
      · simp only [upd_other _ _ hg] at hg'; exact hc g' i k inp r hg'
    · intro g' l inp r hg'
      by_cases hg : g' = g
      · subst hg; simp only [upd_same] at hg'; exact absurd hg' (h2 l inp r)
      · simp only [upd_other _ _ hg] at hg'; exact hr g' l inp r hg'
  cases hs with
  | getPool g i inp hp hi =>
    obtain ⟨a, b⟩ := plain g (.run i [] inp) (by intros; intro h; cases h) (by intros; intro h; cases h)
    exact ⟨hh, a, b⟩
  | getNew g inp hp =>
    obtain ⟨a, b⟩ := plain g (.run σ.fresh [] inp) (by intros; intro h; cases h) (by intros; intro h; cases h)
    exact ⟨hh, a, b⟩
  | work g i done todo x hp =>
    obtain ⟨a, b⟩ := plain g (.run i (done ++ [x]) todo) (by intros; intro h; cases h) (by intros; intro h; cases h)
    exact ⟨hh, a, b⟩
  | finish g i done hp =>
    obtain ⟨a, b⟩ := plain g (.filled i done (outf (σ.ist i))) (by intros; intro h; cases h) (by intros; intro h; cases h)
    exact ⟨hh, a, b⟩
  | copy g i inp r hc' hp =>
    refine ⟨?_, ?_, ?_⟩
    · intro l hl
      obtain ⟨k, hk, hlt⟩ := hh l hl
      exact ⟨k, hk, Nat.lt_succ_of_lt hlt⟩
    · intro g' i' k inp' r' hg'
      by_cases hg : g' = g
      · subst hg
        simp only [upd_same] at hg'
        cases hg'
        exact Nat.lt_succ_self _
      · simp only [upd_other _ _ hg] at hg'
        exact Nat.lt_succ_of_lt (hc g' i' k inp' r' hg')
    · intro g' l inp' r' hg'
      by_cases hg : g' = g
      · subst hg; simp only [upd_same] at hg'; cases hg'
      · simp only [upd_other _ _ hg] at hg'
        obtain ⟨k, hk, hlt⟩ := hr g' l inp' r' hg'
        exact ⟨k, hk, Nat.lt_succ_of_lt hlt⟩
  | putCopied g i k inp r hp =>
    refine ⟨hh, ?_, ?_⟩
    · intro g' i' k' inp' r' hg'
      by_cases hg : g' = g
      · subst hg; simp only [upd_same] at hg'; cases hg'
      · simp only [upd_other _ _ hg] at hg'; exact hc g' i' k' inp' r' hg'
    · intro g' l inp' r' hg'
      by_cases hg : g' = g
      · subst hg
        simp only [upd_same] at hg'
        cases hg'
        exact ⟨k, rfl, hc g' i k inp r hp⟩
      · simp only [upd_other _ _ hg] at hg'; exact hr g' l inp' r' hg'
  | putAlias g i inp r hc' hp => rw [hcp] at hc'; cases hc'
  | ret g l inp r hp =>
    obtain ⟨a, b⟩ := plain g .idle (by intros; intro h; cases h) (by intros; intro h; cases h)
    refine ⟨?_, a, b⟩
    intro l' hl'
    rcases List.mem_cons.mp hl' with hl' | hl'
    · subst hl'; exact hr g l' inp r hp
    · exact hh l' hl'
  | drop i hi => exact ⟨hh, hc, hr⟩

theorem ret_reachable (hcp : copies = true) {σ : State X S R}
    (h : Reachable resetf stepf outf new copies σ) : RetInv σ := by
  induction h with
  | init =>
    refine ⟨?_, ?_, ?_⟩
    · intro l hl; cases hl
    · intro g i k inp r h; cases h
    · intro g l inp r h; cases h
  | step _ hs ih => exact ret_step resetf stepf outf new copies hcp ih hs

/-- **If the API copies out, no step of any goroutine writes a location that was returned to a
caller earlier.** -/
theorem no_write_after_return (hcp : copies = true) {σ σ' : State X S R} {l : Loc}
    (hr : Reachable resetf stepf outf new copies σ)
    (hs : Step resetf stepf outf new copies σ (.write l) σ') : l ∉ σ.held := by
  have hi := ret_reachable resetf stepf outf new copies hcp hr
  intro hl
  obtain ⟨k, hk, hlt⟩ := hi.held l hl
  cases hs with
  | work g i done todo x hp => cases hk
  | copy g i inp r hc hp =>
    cases hk
    exact Nat.lt_irrefl _ hlt

/-! ## Each call returns what it returns when run alone

`hH` is the C07 statement for the instance type: after the entry reset, the result of a call does not
depend on what the instance held before. -/

def seq (inp : List X) : R := outf (inp.foldl stepf (resetf new))

structure ResInv (σ : State X S R) : Prop where
  run : ∀ g i done todo, σ.pcs g = .run i done todo → ∃ s0, σ.ist i = done.foldl stepf (resetf s0)
  filled : ∀ g i inp r, σ.pcs g = .filled i inp r → r = seq resetf stepf outf new inp
  copied : ∀ g i k inp r, σ.pcs g = .copied i k inp r → r = seq resetf stepf outf new inp
  released : ∀ g l inp r, σ.pcs g = .released l inp r → r = seq resetf stepf outf new inp
  res : ∀ g, σ.res g = (σ.calls g).map (seq resetf stepf outf new)

theorem res_step (hH : ∀ (s : S) (inp : List X), outf (inp.foldl stepf (resetf s)) = outf (inp.foldl stepf (resetf new)))
    {σ σ' : State X S R} {ev : Ev} (ho : Owner σ) (h : ResInv resetf stepf outf new σ)
    (hs : Step resetf stepf outf new copies σ ev σ') : ResInv resetf stepf outf new σ' := by
  obtain ⟨hrun, hfil, hcop, hrel, hres⟩ := h
  cases hs with
  | getPool g i inp hp hi =>
    refine ⟨?_, ?_, ?_, ?_, hres⟩
    · intro g' i' done todo hg'
      by_cases hg : g' = g
      · subst hg
        simp only [upd_same] at hg'
        cases hg'
        exact ⟨σ.ist i, by simp⟩
      · simp only [upd_other _ _ hg] at hg'
        have hne : i' ≠ i := by
          intro he; subst he
          exact ho.excl g' i' (by rw [hg']; rfl) hi
        simp only [upd_other _ _ hne]
        exact hrun g' i' done todo hg'
    · intro g' i' inp' r hg'
      by_cases hg : g' = g
      · subst hg; simp only [upd_same] at hg'; cases hg'
      · simp only [upd_other _ _ hg] at hg'; exact hfil g' i' inp' r hg'
    · intro g' i' k inp' r hg'
      by_cases hg : g' = g
      · subst hg; simp only [upd_same] at hg'; cases hg'
      · simp only [upd_other _ _ hg] at hg'; exact hcop g' i' k inp' r hg'
    · intro g' l inp' r hg'
      by_cases hg : g' = g
      · subst hg; simp only [upd_same] at hg'; cases hg'
      · simp only [upd_other _ _ hg] at hg'; exact hrel g' l inp' r hg'
  | getNew g inp hp =>
    refine ⟨?_, ?_, ?_, ?_, hres⟩
    · intro g' i' done todo hg'
      by_cases hg : g' = g
      · subst hg
        simp only [upd_same] at hg'
        cases hg'
        exact ⟨new, by simp⟩
      · simp only [upd_other _ _ hg] at hg'
        have hne : i' ≠ σ.fresh := by
          intro he
          have := ho.heldBound g' i' (by rw [hg']; rfl)
          rw [he] at this
          exact Nat.lt_irrefl _ this
        simp only [upd_other _ _ hne]
        exact hrun g' i' done todo hg'
    · intro g' i' inp' r hg'
      by_cases hg : g' = g
      · subst hg; simp only [upd_same] at hg'; cases hg'
      · simp only [upd_other _ _ hg] at hg'; exact hfil g' i' inp' r hg'
    · intro g' i' k inp' r hg'
      by_cases hg : g' = g
      · subst hg; simp only [upd_same] at hg'; cases hg'
      · simp only [upd_other _ _ hg] at hg'; exact hcop g' i' k inp' r hg'
    · intro g' l inp' r hg'
      by_cases hg : g' = g
      · subst hg; simp only [upd_same] at hg'; cases hg'
      · simp only [upd_other _ _ hg] at hg'; exact hrel g' l inp' r hg'
  | work g i done todo x hp =>
    refine ⟨?_, ?_, ?_, ?_, hres⟩
    · intro g' i' done' todo' hg'
      by_cases hg : g' = g
      · subst hg
        simp only [upd_same] at hg'
        cases hg'
        obtain ⟨s0, hs0⟩ := hrun g' _ _ _ hp
        exact ⟨s0, by simp [hs0, List.foldl_append]⟩
      · simp only [upd_other _ _ hg] at hg'
        have hne : i' ≠ i := by
          intro he; subst he
          exact hg (ho.uniq g' g i' (by rw [hg']; rfl) (by rw [hp]; rfl))
        simp only [upd_other _ _ hne]
        exact hrun g' i' done' todo' hg'
    · intro g' i' inp' r hg'
      by_cases hg : g' = g
      · subst hg; simp only [upd_same] at hg'; cases hg'
      · simp only [upd_other _ _ hg] at hg'; exact hfil g' i' inp' r hg'
    · intro g' i' k inp' r hg'
      by_cases hg : g' = g
      · subst hg; simp only [upd_same] at hg'; cases hg'
      · simp only [upd_other _ _ hg] at hg'; exact hcop g' i' k inp' r hg'
    · intro g' l inp' r hg'
      by_cases hg : g' = g
      · subst hg; simp only [upd_same] at hg'; cases hg'
      · simp only [upd_other _ _ hg] at hg'; exact hrel g' l inp' r hg'
  | finish g i done hp =>
    refine ⟨?_, ?_, ?_, ?_, hres⟩
    · intro g' i' done' todo' hg'
      by_cases hg : g' = g
      · subst hg; simp only [upd_same] at hg'; cases hg'
      · simp only [upd_other _ _ hg] at hg'; exact hrun g' i' done' todo' hg'
    · intro g' i' inp' r hg'
      by_cases hg : g' = g
      · subst hg
        simp only [upd_same] at hg'
        cases hg'
        obtain ⟨s0, hs0⟩ := hrun g' _ _ _ hp
        rw [hs0]
        exact hH s0 _
      · simp only [upd_other _ _ hg] at hg'; exact hfil g' i' inp' r hg'
    · intro g' i' k inp' r hg'
      by_cases hg : g' = g
      · subst hg; simp only [upd_same] at hg'; cases hg'
      · simp only [upd_other _ _ hg] at hg'; exact hcop g' i' k inp' r hg'
    · intro g' l inp' r hg'
      by_cases hg : g' = g
      · subst hg; simp only [upd_same] at hg'; cases hg'
      · simp only [upd_other _ _ hg] at hg'; exact hrel g' l inp' r hg'
  | copy g i inp r hc hp =>
    refine ⟨?_, ?_, ?_, ?_, hres⟩
    · intro g' i' done' todo' hg'
      by_cases hg : g' = g
      · subst hg; simp only [upd_same] at hg'; cases hg'
      · simp only [upd_other _ _ hg] at hg'; exact hrun g' i' done' todo' hg'
    · intro g' i' inp' r' hg'
      by_cases hg : g' = g
      · subst hg; simp only [upd_same] at hg'; cases hg'
      · simp only [upd_other _ _ hg] at hg'; exact hfil g' i' inp' r' hg'
    · intro g' i' k inp' r' hg'
      by_cases hg : g' = g
      · subst hg; simp only [upd_same] at hg'; cases hg'; exact hfil g' _ _ _ hp
      · simp only [upd_other _ _ hg] at hg'; exact hcop g' i' k inp' r' hg'
    · intro g' l inp' r' hg'
      by_cases hg : g' = g
      · subst hg; simp only [upd_same] at hg'; cases hg'
      · simp only [upd_other _ _ hg] at hg'; exact hrel g' l inp' r' hg'
  | putCopied g i k inp r hp =>
    refine ⟨?_, ?_, ?_, ?_, hres⟩
    · intro g' i' done' todo' hg'
      by_cases hg : g' = g
      · subst hg; simp only [upd_same] at hg'; cases hg'
      · simp only [upd_other _ _ hg] at hg'; exact hrun g' i' done' todo' hg'
    · intro g' i' inp' r' hg'
      by_cases hg : g' = g
      · subst hg; simp only [upd_same] at hg'; cases hg'
      · simp only [upd_other _ _ hg] at hg'; exact hfil g' i' inp' r' hg'
    · intro g' i' k' inp' r' hg'
      by_cases hg : g' = g
      · subst hg; simp only [upd_same] at hg'; cases hg'
      · simp only [upd_other _ _ hg] at hg'; exact hcop g' i' k' inp' r' hg'
    · intro g' l inp' r' hg'
      by_cases hg : g' = g
      · subst hg; simp only [upd_same] at hg'; cases hg'; exact hcop g' _ _ _ _ hp
      · simp only [upd_other _ _ hg] at hg'; exact hrel g' l inp' r' hg'
  | putAlias g i inp r hc hp =>
    refine ⟨?_, ?_, ?_, ?_, hres⟩
    · intro g' i' done' todo' hg'
      by_cases hg : g' = g
      · subst hg; simp only [upd_same] at hg'; cases hg'
      · simp only [upd_other _ _ hg] at hg'; exact hrun g' i' done' todo' hg'
    · intro g' i' inp' r' hg'
      by_cases hg : g' = g
      · subst hg; simp only [upd_same] at hg'; cases hg'
      · simp only [upd_other _ _ hg] at hg'; exact hfil g' i' inp' r' hg'
    · intro g' i' k' inp' r' hg'
      by_cases hg : g' = g
      · subst hg; simp only [upd_same] at hg'; cases hg'
      · simp only [upd_other _ _ hg] at hg'; exact hcop g' i' k' inp' r' hg'
    · intro g' l inp' r' hg'
      by_cases hg : g' = g
      · subst hg; simp only [upd_same] at hg'; cases hg'; exact hfil g' _ _ _ hp
      · simp only [upd_other _ _ hg] at hg'; exact hrel g' l inp' r' hg'
  | ret g l inp r hp =>
    refine ⟨?_, ?_, ?_, ?_, ?_⟩
    · intro g' i' done' todo' hg'
      by_cases hg : g' = g
      · subst hg; simp only [upd_same] at hg'; cases hg'
      · simp only [upd_other _ _ hg] at hg'; exact hrun g' i' done' todo' hg'
    · intro g' i' inp' r' hg'
      by_cases hg : g' = g
      · subst hg; simp only [upd_same] at hg'; cases hg'
      · simp only [upd_other _ _ hg] at hg'; exact hfil g' i' inp' r' hg'
    · intro g' i' k' inp' r' hg'
      by_cases hg : g' = g
      · subst hg; simp only [upd_same] at hg'; cases hg'
      · simp only [upd_other _ _ hg] at hg'; exact hcop g' i' k' inp' r' hg'
    · intro g' l' inp' r' hg'
      by_cases hg : g' = g
      · subst hg; simp only [upd_same] at hg'; cases hg'
      · simp only [upd_other _ _ hg] at hg'; exact hrel g' l' inp' r' hg'
    · intro g'
      by_cases hg : g' = g
      · subst hg
        simp only [upd_same, List.map_cons, hres g', hrel g' l inp r hp]
      · simp only [upd_other _ _ hg]; exact hres g'
  | drop i hi => exact ⟨hrun, hfil, hcop, hrel, hres⟩

/-- **Every result a goroutine has received is the result of the same call on a fresh instance,
run alone** — for every interleaving, given non-interference (C07) for the instance type. -/
theorem results_sequential (hH : ∀ (s : S) (inp : List X), outf (inp.foldl stepf (resetf s)) = outf (inp.foldl stepf (resetf new)))
    {σ : State X S R} (h : Reachable resetf stepf outf new copies σ) (g : Nat) :
    σ.res g = (σ.calls g).map (seq resetf stepf outf new) := by
  have : ResInv resetf stepf outf new σ := by
    induction h with
    | init =>
      refine ⟨?_, ?_, ?_, ?_, ?_⟩
      · intro g i d t h; cases h
      · intro g i inp r h; cases h
      · intro g i k inp r h; cases h
      · intro g l inp r h; cases h
      · intro g; rfl
    | step hr hs ih => exact res_step resetf stepf outf new copies hH (owner_reachable resetf stepf outf new copies hr) ih hs
  exact this.res g

end
end OjgVerif.Reuse.Pool
