/-! # Shared read-only objects (C08, model level)

C08 lets callers SHARE objects that were built beforehand — a parsed `jp.Expr` / `Filter` / `Script`,
a `Recomposer` whose types are registered, a compiled `asm.Plan`, an `ojg.Options` — and use them at
the same time, each on its OWN data. The clause of the atomic-step model: an evaluator step READS
the shared object and the caller's data and WRITES only state that belongs to the calling goroutine.

An entry point is modelled by what it does to the shared object and to the caller's state:
`run : O → D → L → O × L` (`O` the shared object, `D` the caller's data, `L` the goroutine's own
state, results included). It is *read-only* if the object component comes back unchanged. A
schedule is any list of calls `(goroutine, entry point, data)` — every interleaving of the
goroutines' calls, each call one indivisible step (what happens INSIDE a step of the compiled code
is not in this model: the race detector run of the harness looks at that).

* `shared_unwritten`: after any schedule of read-only entry points the object is what it was;
* `results_alone`: every goroutine's state (its results) is what the SAME calls of that goroutine
  give when they run alone on an object nobody else has used;
* `rooting_writer_breaks`: an entry point that stores the caller's document in the shared object
  (a filter rooted in place, the shape of seeded change C08-m7) makes another caller's result
  depend on the schedule;
* `rootedInPlace_result` / `rootedInPlace_mem` / `rootedInPlace_writes_shared`: the same at the level of Go
  slices — `rx := x[:i]` + `append` returns what `make` + `copy` returns and overwrites the shared path;
* `reRegister_*`: the already-registered branch of `registerComposer` — with the guard
  `if fun != nil` a look-up with `nil` leaves the entry alone; without it the registered function
  is lost (seeded change C08-m8). -/
namespace OjgVerif.Reuse.Shared

/-- an entry point of a shared object -/
structure Entry (O D L : Type) where
  run : O → D → L → O × L

/-- the entry point gives the shared object back as it was -/
def Entry.ReadOnly {O D L : Type} (e : Entry O D L) : Prop := ∀ o d l, (e.run o d l).1 = o

/-- one call: which goroutine, which entry point, on which caller-owned data -/
structure Call (O D L : Type) where
  g : Nat
  e : Entry O D L
  d : D

/-- the shared object and every goroutine's own state -/
structure St (O L : Type) where
  obj : O
  loc : Nat → L

def step {O D L : Type} (σ : St O L) (c : Call O D L) : St O L :=
  { obj := (c.e.run σ.obj c.d (σ.loc c.g)).1
    loc := fun g => if g = c.g then (c.e.run σ.obj c.d (σ.loc c.g)).2 else σ.loc g }

/-- a schedule: the calls in the order in which their (atomic) steps happen -/
def exec {O D L : Type} (σ : St O L) (cs : List (Call O D L)) : St O L := cs.foldl step σ

@[simp] theorem exec_nil {O D L : Type} (σ : St O L) : exec σ ([] : List (Call O D L)) = σ := rfl
@[simp] theorem exec_cons {O D L : Type} (σ : St O L) (c : Call O D L) (cs : List (Call O D L)) :
    exec σ (c :: cs) = exec (step σ c) cs := rfl

theorem step_obj_of_readOnly {O D L : Type} (σ : St O L) (c : Call O D L) (h : c.e.ReadOnly) :
    (step σ c).obj = σ.obj := h _ _ _

/-- **shared objects are unwritten**: after any schedule of read-only entry points the object is what it was -/
theorem shared_unwritten {O D L : Type} (cs : List (Call O D L)) (h : ∀ c ∈ cs, c.e.ReadOnly) (σ : St O L) :
    (exec σ cs).obj = σ.obj := by
  induction cs generalizing σ with
  | nil => rfl
  | cons c cs ih =>
    rw [exec_cons, ih (fun c' hc' => h c' (List.mem_cons_of_mem _ hc'))]
    exact step_obj_of_readOnly σ c (h c (List.mem_cons_self ..))

/-- two states that agree on the object and on goroutine `g` -/
private theorem exec_loc_congr {O D L : Type} (g : Nat) (cs : List (Call O D L)) (h : ∀ c ∈ cs, c.e.ReadOnly)
    (σ τ : St O L) (ho : σ.obj = τ.obj) (hl : σ.loc g = τ.loc g) :
    (exec σ cs).loc g = (exec τ (cs.filter fun c => c.g = g)).loc g := by
  induction cs generalizing σ τ with
  | nil => simpa using hl
  | cons c cs ih =>
    have hc : c.e.ReadOnly := h c (List.mem_cons_self ..)
    have hcs : ∀ c' ∈ cs, c'.e.ReadOnly := fun c' hc' => h c' (List.mem_cons_of_mem _ hc')
    by_cases hg : c.g = g
    · have : (List.filter (fun c => decide (c.g = g)) (c :: cs)) = c :: cs.filter (fun c => decide (c.g = g)) := by
        simp [List.filter, hg]
      rw [this, exec_cons, exec_cons]
      apply ih hcs
      · rw [step_obj_of_readOnly σ c hc, step_obj_of_readOnly τ c hc, ho]
      · subst hg
        simp [step, ho, hl]
    · have : (List.filter (fun c => decide (c.g = g)) (c :: cs)) = cs.filter (fun c => decide (c.g = g)) := by
        simp [List.filter, hg]
      rw [this, exec_cons]
      apply ih hcs
      · rw [step_obj_of_readOnly σ c hc, ho]
      · have : g ≠ c.g := fun e => hg e.symm
        simp [step, this, hl]

/-- **each call returns what it returns when run alone**: after any schedule of read-only entry points
goroutine `g`'s state is what its own calls, in their order, give on the object as it was built —
the other goroutines' calls (whatever entry point, whatever data, wherever interleaved) do not show -/
theorem results_alone {O D L : Type} (cs : List (Call O D L)) (h : ∀ c ∈ cs, c.e.ReadOnly) (σ : St O L) (g : Nat) :
    (exec σ cs).loc g = (exec σ (cs.filter fun c => c.g = g)).loc g :=
  exec_loc_congr g cs h σ σ rfl rfl

/-! ## A writer: the filter rooted in place

The shared object is reduced to the one thing that matters: the document the `$` of its filter is
bound to (`none` = unbound: `rootOr` takes the caller's document). `get` evaluates `$` against
`rootOr`; `locateInPlace` is Locate with the rooted copy of the filters written over the shared
fragments (seeded change C08-m7: `rx := x[:i]` + `append`). -/

/-- Get / First: `$` is the bound root if there is one, the caller's document otherwise -/
def get : Entry (Option Nat) Nat (Option Nat) := ⟨fun o d _ => (o, some (o.getD d))⟩
/-- Locate as it is: the rooted copy is private (make + copy) -/
def locate : Entry (Option Nat) Nat (Option Nat) := ⟨fun o d _ => (o, some d)⟩
/-- Locate writing the rooted filter into the shared path -/
def locateInPlace : Entry (Option Nat) Nat (Option Nat) := ⟨fun _ d _ => (some d, some d)⟩

theorem get_readOnly : get.ReadOnly := fun _ _ _ => rfl
theorem locate_readOnly : locate.ReadOnly := fun _ _ _ => rfl
theorem locateInPlace_not_readOnly : ¬ locateInPlace.ReadOnly := fun h => by
  have := h none 1 none
  simp [locateInPlace] at this

/-- goroutine 0 locates on its document (`$.want = 1`), goroutine 1 then gets on ITS document
(`$.want = 2`): with the in-place rooting goroutine 1's `$` is goroutine 0's document -/
theorem rooting_writer_breaks :
    (exec ⟨none, fun _ => none⟩ [⟨0, locateInPlace, 1⟩, ⟨1, get, 2⟩]).loc 1 = some 1 ∧
    (exec ⟨none, fun _ => none⟩ ([⟨0, locateInPlace, 1⟩, ⟨1, get, 2⟩].filter fun c => c.g = 1)).loc 1 = some 2 := by
  constructor <;> rfl

/-- the same schedule with Locate as it is -/
example : (exec ⟨none, fun _ => none⟩ [⟨0, locate, 1⟩, ⟨1, get, 2⟩]).loc 1 = some 2 := rfl

/-! ## The registry entry of an already registered type

`registerComposer(rt, fun)` on a type that is in the registry: `if fun != nil { c.fun = fun }`.
`recomp` looks a type up again through `registerComposer(rv.Type(), nil)` when the short name belongs
to another type of the same name. -/

/-- a registry entry: the RecomposeFunc registered for the type, if any -/
structure Comp (F : Type) where
  fn : Option F
  deriving DecidableEq

/-- the already-registered branch; `guarded`: the assignment stands under `if fun != nil` -/
def reRegister {F : Type} (guarded : Bool) (f : Option F) (c : Comp F) : Comp F :=
  if guarded then (match f with
    | some x => { c with fn := some x }
    | none => c)
  else { c with fn := f }

/-- with the guard a look-up (`fun = nil`) leaves the entry alone -/
theorem reRegister_guarded_nil {F : Type} (c : Comp F) : reRegister true none c = c := rfl

/-- without it the registered function is overwritten by `nil` -/
theorem reRegister_unguarded_nil {F : Type} (x : F) : reRegister false none (Comp.mk (some x)) = Comp.mk none := rfl

/-- Recompose into a value whose type is found by its full name: the look-up, then the fill
(the caller's own value `l` is set from its data) -/
def recompInto {F : Type} (guarded : Bool) : Entry (Comp F) Nat (Option (Nat × Bool)) :=
  ⟨fun o d _ => (reRegister guarded none o, some (d, false))⟩
/-- Recompose of a map that names the type by its create key: built by the registered function if there is one -/
def recompCreate {F : Type} : Entry (Comp F) Nat (Option (Nat × Bool)) :=
  ⟨fun o d _ => (o, some (d, o.fn.isSome))⟩

theorem recompInto_readOnly {F : Type} : (recompInto (F := F) true).ReadOnly := fun _ _ _ => rfl
theorem recompCreate_readOnly {F : Type} : (recompCreate (F := F)).ReadOnly := fun _ _ _ => rfl

/-- without the guard: goroutine 0 recomposes into its own value, goroutine 1's create-keyed map is then
no longer built by the registered function (`false`), alone it is (`true`) -/
theorem unguarded_reRegister_breaks :
    (exec ⟨Comp.mk (some ()), fun _ => none⟩ [⟨0, recompInto false, 1⟩, ⟨1, recompCreate, 2⟩]).loc 1 = some (2, false) ∧
    (exec ⟨Comp.mk (some ()), fun _ => none⟩
      ([⟨0, recompInto false, 1⟩, ⟨1, recompCreate, 2⟩].filter fun c => c.g = 1)).loc 1 = some (2, true) := by
  constructor <;> rfl

/-! ## The rooted copy at the level of Go slices

`Expr.rootedFilters` hands Locate / Walk a copy of the path whose filters are bound to the document.
Here the path is a list of fragments lying at the front of its backing array `mem` (`x = mem[:n]`,
`cap(x) = len(mem)`), and the two ways of building the copy are modelled with their STORES:
`rootedCopy` (make + copy: every store goes to a new array) and `rootedInPlace` (`rx := x[:i]`, then
`append` — within capacity, so Go's append stores into `mem`). Both RETURN the same path
(`rootedInPlace_result`: no test that looks at the returned value can tell), the second leaves the
shared path itself rooted (`rootedInPlace_mem`), which is a change whenever the path has a filter not
already bound to that document (`rootedInPlace_writes_shared`). -/

/-- a path fragment: anything but a filter (`child`), or a filter with the document its `$` is bound to -/
inductive Frag where
  | child (k : Nat)
  | filter (root : Option Nat)
  deriving DecidableEq, Repr

def Frag.isFilter : Frag → Bool
  | .filter _ => true
  | .child _ => false

/-- `(*Filter).withRoot`: a filter becomes a filter bound to `d`; other fragments are kept -/
def Frag.withRoot (d : Nat) : Frag → Frag
  | .filter _ => .filter (some d)
  | f => f

/-- index of the first filter (the length if there is none) -/
def firstFilter (x : List Frag) : Nat := (x.takeWhile fun f => !f.isFilter).length

theorem firstFilter_le (x : List Frag) : firstFilter x ≤ x.length := by
  unfold firstFilter
  induction x with
  | nil => simp
  | cons f r ih =>
    simp only [List.takeWhile]
    split
    · simp only [List.length_cons]; omega
    · simp

/-- `rootedFilters` as it is: `rx := make(Expr, len(x)); copy(rx, x); for ; i < len(rx); i++ { rx[i] = withRoot }` —
every store goes to the new array; the value returned -/
def rootedCopy (d : Nat) (x : List Frag) : List Frag :=
  x.take (firstFilter x) ++ (x.drop (firstFilter x)).map (Frag.withRoot d)

/-- `for _, f = range x[i:] { rx = append(rx, withRoot f) }` with `rx := x[:i]`: `len(rx) < len(x) ≤ cap(rx)` at
every append, so Go's append stores at index `len(rx)` of the backing array of `x` (the fragments ranged
over are read before the store at the same index) -/
def appendLoop (d : Nat) : List Frag → Nat → List Frag → List Frag
  | mem, _, [] => mem
  | mem, len, f :: r => appendLoop d (mem.set len (f.withRoot d)) (len + 1) r

private theorem set_at_length (pre : List Frag) (f v : Frag) (rest : List Frag) :
    (pre ++ f :: rest).set pre.length v = pre ++ v :: rest := by
  induction pre with
  | nil => rfl
  | cons a p ih => simp [ih]

theorem appendLoop_eq (d : Nat) (todo pre post : List Frag) :
    appendLoop d (pre ++ todo ++ post) pre.length todo = pre ++ todo.map (Frag.withRoot d) ++ post := by
  induction todo generalizing pre with
  | nil => simp [appendLoop]
  | cons f r ih =>
    have h1 : pre ++ f :: r ++ post = pre ++ f :: (r ++ post) := by simp
    have h2 : (pre ++ [f.withRoot d]).length = pre.length + 1 := by simp
    simp only [appendLoop]
    rw [h1, set_at_length, ← h2]
    have h3 : pre ++ f.withRoot d :: (r ++ post) = (pre ++ [f.withRoot d]) ++ r ++ post := by simp
    rw [h3, ih]
    simp

/-- the variant of seeded change C08-m7 over the backing array `mem` of the shared path `x = mem[:n]`:
(the value returned, the backing array afterwards) -/
def rootedInPlace (d : Nat) (mem : List Frag) (n : Nat) : List Frag × List Frag :=
  let x := mem.take n
  let mem' := appendLoop d mem (firstFilter x) (x.drop (firstFilter x))
  (mem'.take n, mem')

/-- the backing array of the shared path afterwards: the ROOTED path, then whatever lay behind it -/
theorem rootedInPlace_mem (d : Nat) (mem : List Frag) (n : Nat) :
    (rootedInPlace d mem n).2 = rootedCopy d (mem.take n) ++ mem.drop n := by
  unfold rootedInPlace rootedCopy
  simp only
  have hle := firstFilter_le (mem.take n)
  have hlen : ((mem.take n).take (firstFilter (mem.take n))).length = firstFilter (mem.take n) := by
    rw [List.length_take]; omega
  have hmem : mem = (mem.take n).take (firstFilter (mem.take n)) ++ (mem.take n).drop (firstFilter (mem.take n)) ++ mem.drop n := by
    rw [List.take_append_drop, List.take_append_drop]
  conv => lhs; arg 2; rw [hmem]
  conv => lhs; arg 3; rw [← hlen]
  exact appendLoop_eq d _ _ _

/-- both variants RETURN the same path: a caller that looks only at what its own call returns cannot
tell them apart (the library's tests pass with the seeded change) -/
theorem rootedInPlace_result (d : Nat) (mem : List Frag) (n : Nat) (h : n ≤ mem.length) :
    (rootedInPlace d mem n).1 = rootedCopy d (mem.take n) := by
  have hm := rootedInPlace_mem d mem n
  have : (rootedInPlace d mem n).1 = ((rootedInPlace d mem n).2).take n := rfl
  rw [this, hm]
  have hl : (rootedCopy d (mem.take n)).length = n := by
    unfold rootedCopy
    simp only [List.length_append, List.length_map, List.length_take, List.length_drop]
    have := firstFilter_le (mem.take n)
    simp only [List.length_take] at this
    omega
  rw [List.take_append_of_le_length (by omega), List.take_of_length_le (by omega)]

/-- … but the in-place variant leaves the SHARED path rooted at the caller's document: every filter of it is
now bound to `d`, for whoever uses the path next (`rootOr` in Get / First takes the bound root) -/
theorem rootedInPlace_shared_path (d : Nat) (mem : List Frag) (n : Nat) (h : n ≤ mem.length) :
    ((rootedInPlace d mem n).2).take n = rootedCopy d (mem.take n) :=
  rootedInPlace_result d mem n h

/-- `$.items[?(@.v == $.want)].name` parsed (length 4, capacity 4), Locate on a document `7`:
returned value equal, shared path overwritten by the in-place variant only -/
example : rootedCopy 7 [.child 0, .child 1, .filter none, .child 2] = [.child 0, .child 1, .filter (some 7), .child 2] := by decide
example : rootedInPlace 7 [.child 0, .child 1, .filter none, .child 2] 4 =
    ([.child 0, .child 1, .filter (some 7), .child 2], [.child 0, .child 1, .filter (some 7), .child 2]) := by decide


private theorem map_eq_self_imp (g : Frag → Frag) : ∀ (l : List Frag), l.map g = l → ∀ a ∈ l, g a = a
  | [], _, a, ha => by cases ha
  | b :: r, h, a, ha => by
    simp only [List.map_cons, List.cons.injEq] at h
    rcases List.mem_cons.mp ha with rfl | hr
    · exact h.1
    · exact map_eq_self_imp g r h.2 a hr

private theorem mem_drop_firstFilter (x : List Frag) (f : Frag) (hf : f ∈ x) (hfil : f.isFilter = true) :
    f ∈ x.drop (firstFilter x) := by
  unfold firstFilter
  induction x with
  | nil => cases hf
  | cons a r ih =>
    simp only [List.takeWhile]
    split
    · rename_i hna
      rcases List.mem_cons.mp hf with rfl | hr
      · simp [hfil] at hna
      · simpa using ih hr
    · simpa using hf

/-- rooting changes the path whenever it holds a filter that is not already bound to that very document -/
theorem rootedCopy_ne (d : Nat) (x : List Frag) (r : Option Nat) (hr : r ≠ some d) (hf : Frag.filter r ∈ x) :
    rootedCopy d x ≠ x := by
  intro h
  have hx : x = x.take (firstFilter x) ++ x.drop (firstFilter x) := (List.take_append_drop _ _).symm
  unfold rootedCopy at h
  have h' : x.take (firstFilter x) ++ (x.drop (firstFilter x)).map (Frag.withRoot d) =
      x.take (firstFilter x) ++ x.drop (firstFilter x) := by rw [h]; exact hx
  have := map_eq_self_imp (Frag.withRoot d) _ (List.append_cancel_left h') (Frag.filter r)
    (mem_drop_firstFilter x _ hf rfl)
  simp only [Frag.withRoot, Frag.filter.injEq] at this
  exact hr this.symm

/-- so the in-place variant DOES change the shared path (same hypothesis) -/
theorem rootedInPlace_writes_shared (d : Nat) (mem : List Frag) (n : Nat) (h : n ≤ mem.length) (r : Option Nat)
    (hr : r ≠ some d) (hf : Frag.filter r ∈ mem.take n) :
    ((rootedInPlace d mem n).2).take n ≠ mem.take n := by
  rw [rootedInPlace_shared_path d mem n h]
  exact rootedCopy_ne d _ r hr hf

/-! ## The registry with short and full names

`r.composers` files an entry under the type's short name and under its full name. Two same-named types
of two packages share the short-name key (the later registration owns it); the other one is found by
its full name only: `recomp` then goes through `registerComposer(rt, nil)` and lands in the
already-registered branch. `lookup_registered`: for EVERY registry and every registered type that
look-up writes nothing; `lookup_unguarded_loses_fn`: with the unguarded assignment (seeded change
C08-m8) the function registered for the shadowed type is wiped. -/

/-- a struct type as the registry sees it: identity, short name (`rt.Name()`), full name (`PkgPath/Name`) -/
structure Ty where
  id : Nat
  short : String
  full : String

/-- `*composer`: the type it belongs to and its RecomposeFunc (by identity), if any -/
structure CompE where
  rtype : Nat
  fn : Option Nat
  deriving DecidableEq, Repr

/-- `r.composers`: names to entries BY REFERENCE (an entry is filed under its short and its full name: one
object, two keys); the most recent assignment to a key is the one found -/
structure Regy where
  names : List (String × Nat)
  ents : List CompE
  deriving DecidableEq, Repr

def Regy.find (r : Regy) (k : String) : Option Nat := r.names.lookup k

/-- the not-yet-registered branch: a new entry under both names -/
def Regy.fresh (r : Regy) (t : Ty) (f : Option Nat) : Regy × Nat :=
  ({ names := (t.short, r.ents.length) :: (t.full, r.ents.length) :: r.names, ents := r.ents ++ [⟨t.id, f⟩] },
   r.ents.length)

/-- `registerComposer(rt, fun)` without the field walk: `c := r.composers[full]; if c == nil || c.rtype != rt
{ new entry under short and full } else { if fun != nil { c.fun = fun } }` (`guarded = false`: the
assignment without its `if`) -/
def registerComposer (guarded : Bool) (r : Regy) (t : Ty) (f : Option Nat) : Regy × Nat :=
  match r.find t.full with
  | some i =>
    match r.ents[i]? with
    | some c =>
      if c.rtype = t.id then
        (if guarded then
          (match f with
            | some x => { r with ents := r.ents.set i { c with fn := some x } }
            | none => r)
         else { r with ents := r.ents.set i { c with fn := f } }, i)
      else r.fresh t f
    | none => r.fresh t f
  | none => r.fresh t f

/-- `recomp` filling a value of struct type `t`: `c := r.composers[rt.Name()]; if c == nil || c.rtype != rt
{ c, _ = r.registerComposer(rt, nil) }` -/
def lookup (guarded : Bool) (r : Regy) (t : Ty) : Regy × Nat :=
  match r.find t.short with
  | some i =>
    match r.ents[i]? with
    | some c => if c.rtype = t.id then (r, i) else registerComposer guarded r t none
    | none => registerComposer guarded r t none
  | none => registerComposer guarded r t none

/-- `t` was registered beforehand: its full name leads to an entry of that very type -/
def Regy.Registered (r : Regy) (t : Ty) : Prop :=
  ∃ i c, r.find t.full = some i ∧ r.ents[i]? = some c ∧ c.rtype = t.id

theorem registerComposer_registered_nil (r : Regy) (t : Ty) (h : r.Registered t) :
    (registerComposer true r t none).1 = r := by
  obtain ⟨i, c, hf, he, ht⟩ := h
  simp [registerComposer, hf, he, ht]

/-- **filling a value of a registered type writes nothing** — neither the map nor any entry — whoever owns
the short name (no type, this type, or a same-named type of another package registered later) -/
theorem lookup_registered (r : Regy) (t : Ty) (h : r.Registered t) : (lookup true r t).1 = r := by
  unfold lookup
  split
  · split
    · split
      · rfl
      · exact registerComposer_registered_nil r t h
    · exact registerComposer_registered_nil r t h
  · exact registerComposer_registered_nil r t h

/-- the twins: `reuse.RTwin` (type 0) registered first with function 9, `twin.RTwin` (type 1) later: it owns "RTwin" -/
def twins : Regy :=
  { names := [("RTwin", 1), ("twin/RTwin", 1), ("RTwin", 0), ("reuse/RTwin", 0)], ents := [⟨0, some 9⟩, ⟨1, none⟩] }

example : twins.Registered ⟨0, "RTwin", "reuse/RTwin"⟩ := ⟨0, ⟨0, some 9⟩, by decide, by decide, rfl⟩
example : twins.Registered ⟨1, "RTwin", "twin/RTwin"⟩ := ⟨1, ⟨1, none⟩, by decide, by decide, rfl⟩

/-- without the guard, filling a `reuse.RTwin` (found by its full name only) wipes its function -/
theorem lookup_unguarded_loses_fn :
    (lookup false twins ⟨0, "RTwin", "reuse/RTwin"⟩).1.ents = [⟨0, none⟩, ⟨1, none⟩] ∧
    (lookup true twins ⟨0, "RTwin", "reuse/RTwin"⟩).1 = twins := by decide

/-- the full name leads nowhere, or to an entry of another type -/
def Regy.Unregistered (r : Regy) (t : Ty) : Prop :=
  ∀ i c, r.find t.full = some i → r.ents[i]? = some c → c.rtype ≠ t.id

theorem registerComposer_unregistered (g : Bool) (r : Regy) (t : Ty) (f : Option Nat) (h : r.Unregistered t) :
    registerComposer g r t f = r.fresh t f := by
  unfold registerComposer
  split
  · rename_i i hi
    split
    · rename_i c hc
      have := h i c hi hc
      simp [this]
    · rfl
  · rfl

/-- **"registered beforehand" is needed**: filling a value of a type the registry does not hold (neither under its
full name nor, as this type, under its short name) WRITES the registry — a new entry and two keys — with either
form of the already-registered branch: the first `Recompose` calls of several goroutines then race on `r.composers` -/
theorem lookup_unregistered_writes (g : Bool) (r : Regy) (t : Ty) (h : r.Unregistered t)
    (hs : ∀ i c, r.find t.short = some i → r.ents[i]? = some c → c.rtype ≠ t.id) :
    (lookup g r t).1.ents.length = r.ents.length + 1 ∧ (lookup g r t).1 ≠ r := by
  have hl : lookup g r t = r.fresh t none := by
    unfold lookup
    split
    · rename_i i hi
      split
      · rename_i c hc
        have := hs i c hi hc
        simp [this, registerComposer_unregistered g r t none h]
      · exact registerComposer_unregistered g r t none h
    · exact registerComposer_unregistered g r t none h
  rw [hl]
  refine ⟨by simp [Regy.fresh], fun e => ?_⟩
  have := congrArg (fun x => x.ents.length) e
  simp [Regy.fresh] at this

example : twins.Unregistered ⟨7, "Other", "pkg/Other"⟩ := by
  intro i c hf
  simp [Regy.find, twins, List.lookup] at hf

end OjgVerif.Reuse.Shared
