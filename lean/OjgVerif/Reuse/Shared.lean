/-! # Shared read-only objects (C08, model level)

C08 lets callers SHARE objects that were built beforehand — a parsed `jp.Expr` / `Filter` / `Script`,
a `Recomposer` whose types are registered, a compiled `asm.Plan`, an `ojg.Options` — and use them at
the same time, each on its OWN data. The clause of the atomic-step model: an evaluator step READS
the shared object and the caller's data and WRITES only state that belongs to the calling goroutine.

An entry point is modelled by what it does to the shared object and to the caller's state:
`run : O → D → L → O × L` (`O` the shared object, `D` the caller's data, `L` the goroutine's own
state, results included). It is *read-only* if the object component comes back unchanged. A
schedule is any list of calls `(goroutine, entry point, data)` — every interleaving of the
goroutines' calls, each call one indivisible step (what happens INSIDE a step of the compiled code
is not in this model: the race detector run of the harness looks at that).

* `shared_unwritten`: after any schedule of read-only entry points the object is what it was;
* `results_alone`: every goroutine's state (its results) is what the SAME calls of that goroutine
  give when they run alone on an object nobody else has used;
* `rooting_writer_breaks`: an entry point that stores the caller's document in the shared object
  (a filter rooted in place, the shape of seeded change C08-m7) makes another caller's result
  depend on the schedule;
* `reRegister_*`: the already-registered branch of `registerComposer` — with the guard
  `if fun != nil` a look-up with `nil` leaves the entry alone; without it the registered function
  is lost (seeded change C08-m8). -/
namespace OjgVerif.Reuse.Shared

/-- an entry point of a shared object -/
structure Entry (O D L : Type) where
  run : O → D → L → O × L

/-- the entry point gives the shared object back as it was -/
def Entry.ReadOnly {O D L : Type} (e : Entry O D L) : Prop := ∀ o d l, (e.run o d l).1 = o

/-- one call: which goroutine, which entry point, on which caller-owned data -/
structure Call (O D L : Type) where
  g : Nat
  e : Entry O D L
  d : D

/-- the shared object and every goroutine's own state -/
structure St (O L : Type) where
  obj : O
  loc : Nat → L

def step {O D L : Type} (σ : St O L) (c : Call O D L) : St O L :=
  { obj := (c.e.run σ.obj c.d (σ.loc c.g)).1
    loc := fun g => if g = c.g then (c.e.run σ.obj c.d (σ.loc c.g)).2 else σ.loc g }

/-- a schedule: the calls in the order in which their (atomic) steps happen -/
def exec {O D L : Type} (σ : St O L) (cs : List (Call O D L)) : St O L := cs.foldl step σ

@[simp] theorem exec_nil {O D L : Type} (σ : St O L) : exec σ ([] : List (Call O D L)) = σ := rfl
@[simp] theorem exec_cons {O D L : Type} (σ : St O L) (c : Call O D L) (cs : List (Call O D L)) :
    exec σ (c :: cs) = exec (step σ c) cs := rfl

theorem step_obj_of_readOnly {O D L : Type} (σ : St O L) (c : Call O D L) (h : c.e.ReadOnly) :
    (step σ c).obj = σ.obj := h _ _ _

/-- **shared objects are unwritten**: after any schedule of read-only entry points the object is what it was -/
theorem shared_unwritten {O D L : Type} (cs : List (Call O D L)) (h : ∀ c ∈ cs, c.e.ReadOnly) (σ : St O L) :
    (exec σ cs).obj = σ.obj := by
  induction cs generalizing σ with
  | nil => rfl
  | cons c cs ih =>
    rw [exec_cons, ih (fun c' hc' => h c' (List.mem_cons_of_mem _ hc'))]
    exact step_obj_of_readOnly σ c (h c (List.mem_cons_self ..))

/-- two states that agree on the object and on goroutine `g` -/
private theorem exec_loc_congr {O D L : Type} (g : Nat) (cs : List (Call O D L)) (h : ∀ c ∈ cs, c.e.ReadOnly)
    (σ τ : St O L) (ho : σ.obj = τ.obj) (hl : σ.loc g = τ.loc g) :
    (exec σ cs).loc g = (exec τ (cs.filter fun c => c.g = g)).loc g := by
  induction cs generalizing σ τ with
  | nil => simpa using hl
  | cons c cs ih =>
    have hc : c.e.ReadOnly := h c (List.mem_cons_self ..)
    have hcs : ∀ c' ∈ cs, c'.e.ReadOnly := fun c' hc' => h c' (List.mem_cons_of_mem _ hc')
    by_cases hg : c.g = g
    · have : (List.filter (fun c => decide (c.g = g)) (c :: cs)) = c :: cs.filter (fun c => decide (c.g = g)) := by
        simp [List.filter, hg]
      rw [this, exec_cons, exec_cons]
      apply ih hcs
      · rw [step_obj_of_readOnly σ c hc, step_obj_of_readOnly τ c hc, ho]
      · subst hg
        simp [step, ho, hl]
    · have : (List.filter (fun c => decide (c.g = g)) (c :: cs)) = cs.filter (fun c => decide (c.g = g)) := by
        simp [List.filter, hg]
      rw [this, exec_cons]
      apply ih hcs
      · rw [step_obj_of_readOnly σ c hc, ho]
      · have : g ≠ c.g := fun e => hg e.symm
        simp [step, this, hl]

/-- **each call returns what it returns when run alone**: after any schedule of read-only entry points
goroutine `g`'s state is what its own calls, in their order, give on the object as it was built —
the other goroutines' calls (whatever entry point, whatever data, wherever interleaved) do not show -/
theorem results_alone {O D L : Type} (cs : List (Call O D L)) (h : ∀ c ∈ cs, c.e.ReadOnly) (σ : St O L) (g : Nat) :
    (exec σ cs).loc g = (exec σ (cs.filter fun c => c.g = g)).loc g :=
  exec_loc_congr g cs h σ σ rfl rfl

/-! ## A writer: the filter rooted in place

The shared object is reduced to the one thing that matters: the document the `$` of its filter is
bound to (`none` = unbound: `rootOr` takes the caller's document). `get` evaluates `$` against
`rootOr`; `locateInPlace` is Locate with the rooted copy of the filters written over the shared
fragments (seeded change C08-m7: `rx := x[:i]` + `append`). -/

/-- Get / First: `$` is the bound root if there is one, the caller's document otherwise -/
def get : Entry (Option Nat) Nat (Option Nat) := ⟨fun o d _ => (o, some (o.getD d))⟩
/-- Locate as it is: the rooted copy is private (make + copy) -/
def locate : Entry (Option Nat) Nat (Option Nat) := ⟨fun o d _ => (o, some d)⟩
/-- Locate writing the rooted filter into the shared path -/
def locateInPlace : Entry (Option Nat) Nat (Option Nat) := ⟨fun _ d _ => (some d, some d)⟩

theorem get_readOnly : get.ReadOnly := fun _ _ _ => rfl
theorem locate_readOnly : locate.ReadOnly := fun _ _ _ => rfl
theorem locateInPlace_not_readOnly : ¬ locateInPlace.ReadOnly := fun h => by
  have := h none 1 none
  simp [locateInPlace] at this

/-- goroutine 0 locates on its document (`$.want = 1`), goroutine 1 then gets on ITS document
(`$.want = 2`): with the in-place rooting goroutine 1's `$` is goroutine 0's document -/
theorem rooting_writer_breaks :
    (exec ⟨none, fun _ => none⟩ [⟨0, locateInPlace, 1⟩, ⟨1, get, 2⟩]).loc 1 = some 1 ∧
    (exec ⟨none, fun _ => none⟩ ([⟨0, locateInPlace, 1⟩, ⟨1, get, 2⟩].filter fun c => c.g = 1)).loc 1 = some 2 := by
  constructor <;> rfl

/-- the same schedule with Locate as it is -/
example : (exec ⟨none, fun _ => none⟩ [⟨0, locate, 1⟩, ⟨1, get, 2⟩]).loc 1 = some 2 := rfl

/-! ## The registry entry of an already registered type

`registerComposer(rt, fun)` on a type that is in the registry: `if fun != nil { c.fun = fun }`.
`recomp` looks a type up again through `registerComposer(rv.Type(), nil)` when the short name belongs
to another type of the same name. -/

/-- a registry entry: the RecomposeFunc registered for the type, if any -/
structure Comp (F : Type) where
  fn : Option F
  deriving DecidableEq

/-- the already-registered branch; `guarded`: the assignment stands under `if fun != nil` -/
def reRegister {F : Type} (guarded : Bool) (f : Option F) (c : Comp F) : Comp F :=
  if guarded then (match f with
    | some x => { c with fn := some x }
    | none => c)
  else { c with fn := f }

/-- with the guard a look-up (`fun = nil`) leaves the entry alone -/
theorem reRegister_guarded_nil {F : Type} (c : Comp F) : reRegister true none c = c := rfl

/-- without it the registered function is overwritten by `nil` -/
theorem reRegister_unguarded_nil {F : Type} (x : F) : reRegister false none (Comp.mk (some x)) = Comp.mk none := rfl

/-- Recompose into a value whose type is found by its full name: the look-up, then the fill
(the caller's own value `l` is set from its data) -/
def recompInto {F : Type} (guarded : Bool) : Entry (Comp F) Nat (Option (Nat × Bool)) :=
  ⟨fun o d _ => (reRegister guarded none o, some (d, false))⟩
/-- Recompose of a map that names the type by its create key: built by the registered function if there is one -/
def recompCreate {F : Type} : Entry (Comp F) Nat (Option (Nat × Bool)) :=
  ⟨fun o d _ => (o, some (d, o.fn.isSome))⟩

theorem recompInto_readOnly {F : Type} : (recompInto (F := F) true).ReadOnly := fun _ _ _ => rfl
theorem recompCreate_readOnly {F : Type} : (recompCreate (F := F)).ReadOnly := fun _ _ _ => rfl

/-- without the guard: goroutine 0 recomposes into its own value, goroutine 1's create-keyed map is then
no longer built by the registered function (`false`), alone it is (`true`) -/
theorem unguarded_reRegister_breaks :
    (exec ⟨Comp.mk (some ()), fun _ => none⟩ [⟨0, recompInto false, 1⟩, ⟨1, recompCreate, 2⟩]).loc 1 = some (2, false) ∧
    (exec ⟨Comp.mk (some ()), fun _ => none⟩
      ([⟨0, recompInto false, 1⟩, ⟨1, recompCreate, 2⟩].filter fun c => c.g = 1)).loc 1 = some (2, true) := by
  constructor <;> rfl

end OjgVerif.Reuse.Shared
