import OjgVerif.Match.LemmasSel
/-! What `expected` lists, said without the enumeration `locs`: a pair (path, value) is expected
iff the path exists in the document with that value, some target selects it and no target selects
a proper prefix of it (`mem_expected_iff`); no path is listed twice (`expected_nodup`). -/
namespace OjgVerif.Match
open OjgVerif

/-- paths of a list of locations -/
def pathsOf (l : List (NPath × JV)) : List NPath := l.map (·.1)

theorem pathsOf_append (a b : List (NPath × JV)) : pathsOf (a ++ b) = pathsOf a ++ pathsOf b := by
  simp [pathsOf]

mutual
  theorem locsList_first : ∀ (xs : List JV) (p : NPath) (i : Nat) (q : NPath), q ∈ pathsOf (locsList p i xs) →
      ∃ j r, i ≤ j ∧ q = p ++ .idx j :: r
    | [], _, _, _, h => by simp [locsList, pathsOf] at h
    | x :: r, p, i, q, h => by
      simp only [locsList, pathsOf_append, List.mem_append] at h
      rcases h with h | h
      · simp only [pathsOf, List.mem_map] at h
        obtain ⟨qu, hqu, rfl⟩ := h
        obtain ⟨r', hr⟩ := locs_prefix x _ qu hqu
        exact ⟨i, r', Nat.le_refl _, by simp [hr]⟩
      · obtain ⟨j, r', hj, hq⟩ := locsList_first r p (i + 1) q h
        exact ⟨j, r', by omega, hq⟩
end

theorem locsKvs_first : ∀ (kvs : List (Bytes × JV)) (p : NPath) (q : NPath), q ∈ pathsOf (locsKvs p kvs) →
    ∃ k r, (kvs.any fun kv => kv.1 == k) = true ∧ q = p ++ .key k :: r
  | [], _, _, h => by simp [locsKvs, pathsOf] at h
  | (k, v) :: r, p, q, h => by
    simp only [locsKvs, pathsOf_append, List.mem_append] at h
    rcases h with h | h
    · simp only [pathsOf, List.mem_map] at h
      obtain ⟨qu, hqu, rfl⟩ := h
      obtain ⟨r', hr⟩ := locs_prefix v _ qu hqu
      exact ⟨k, r', by simp, by simp [hr]⟩
    · obtain ⟨k', r', hk, hq⟩ := locsKvs_first r p q h
      exact ⟨k', r', by simp [hk], hq⟩

theorem append_cons_ne_self (p : NPath) (s : Seg) (r : NPath) : p ++ s :: r ≠ p := by
  intro h
  have := congrArg List.length h
  simp at this

mutual
  theorem locs_nodup : ∀ (v : JV), NoDupKeys v = true → ∀ (p : NPath), (pathsOf (locs p v)).Nodup
    | .arr xs, hv, p => by
      simp only [NoDupKeys] at hv
      simp only [locs, pathsOf, List.map_cons, List.nodup_cons]
      refine ⟨?_, locsList_nodup xs hv p 0⟩
      intro hmem
      obtain ⟨j, r, _, hq⟩ := locsList_first xs p 0 p hmem
      exact append_cons_ne_self p _ r hq.symm
    | .obj kvs, hv, p => by
      simp only [NoDupKeys, Bool.and_eq_true] at hv
      simp only [locs, pathsOf, List.map_cons, List.nodup_cons]
      refine ⟨?_, locsKvs_nodup kvs hv.1 hv.2 p⟩
      intro hmem
      obtain ⟨k, r, _, hq⟩ := locsKvs_first kvs p p hmem
      exact append_cons_ne_self p _ r hq.symm
    | .null, _, p => by simp [locs, pathsOf]
    | .bool _, _, p => by simp [locs, pathsOf]
    | .int _, _, p => by simp [locs, pathsOf]
    | .flt _, _, p => by simp [locs, pathsOf]
    | .big _, _, p => by simp [locs, pathsOf]
    | .num _, _, p => by simp [locs, pathsOf]
    | .str _, _, p => by simp [locs, pathsOf]
  theorem locsList_nodup : ∀ (xs : List JV), NoDupKeysList xs = true → ∀ (p : NPath) (i : Nat),
      (pathsOf (locsList p i xs)).Nodup
    | [], _, _, _ => by simp [locsList, pathsOf]
    | x :: r, hv, p, i => by
      simp only [NoDupKeysList, Bool.and_eq_true] at hv
      simp only [locsList, pathsOf_append, List.nodup_append]
      refine ⟨locs_nodup x hv.1 _, locsList_nodup r hv.2 p (i + 1), ?_⟩
      intro a ha b hb hab
      subst hab
      simp only [pathsOf, List.mem_map] at ha
      obtain ⟨qu, hqu, rfl⟩ := ha
      obtain ⟨r1, h1⟩ := locs_prefix x _ qu hqu
      obtain ⟨j, r2, hj, h2⟩ := locsList_first r p (i + 1) qu.1 hb
      rw [h1, List.append_assoc] at h2
      have := List.append_cancel_left h2
      simp only [List.cons_append, List.nil_append, List.cons.injEq, Seg.idx.injEq] at this
      omega
  theorem locsKvs_nodup : ∀ (kvs : List (Bytes × JV)), keysDistinct kvs = true → NoDupKeysKvs kvs = true →
      ∀ (p : NPath), (pathsOf (locsKvs p kvs)).Nodup
    | [], _, _, _ => by simp [locsKvs, pathsOf]
    | (k, v) :: r, hd, hv, p => by
      simp only [NoDupKeysKvs, Bool.and_eq_true] at hv
      simp only [keysDistinct, Bool.and_eq_true, Bool.not_eq_true'] at hd
      simp only [locsKvs, pathsOf_append, List.nodup_append]
      refine ⟨locs_nodup v hv.1 _, locsKvs_nodup r hd.2 hv.2 p, ?_⟩
      intro a ha b hb hab
      subst hab
      simp only [pathsOf, List.mem_map] at ha
      obtain ⟨qu, hqu, rfl⟩ := ha
      obtain ⟨r1, h1⟩ := locs_prefix v _ qu hqu
      obtain ⟨k', r2, hk', h2⟩ := locsKvs_first r p qu.1 hb
      rw [h1, List.append_assoc] at h2
      have := List.append_cancel_left h2
      simp only [List.cons_append, List.nil_append, List.cons.injEq, Seg.key.injEq] at this
      rw [← this.1, hd.1] at hk'
      exact absurd hk' (by simp)
end

/-- every location is expected at most once -/
theorem expected_nodup (targets : List Target) (doc : JV) (h : NoDupKeys doc = true) :
    (pathsOf (expected targets doc)).Nodup :=
  List.Nodup.sublist (List.Sublist.map _ List.filter_sublist) (locs_nodup doc h [])

mutual
  /-- a listed location exists in the tree and carries the value found there -/
  theorem locs_nav : ∀ (v : JV), NoDupKeys v = true → ∀ (p : NPath) (qu : NPath × JV), qu ∈ locs p v →
      ∃ r, qu.1 = p ++ r ∧ nav v r = some qu.2
    | .arr xs, hv, p, qu, h => by
      simp only [NoDupKeys] at hv
      simp only [locs, List.mem_cons] at h
      rcases h with h | h
      · exact ⟨[], by simp [h, nav]⟩
      · exact locsList_nav xs hv [] p qu h
    | .obj kvs, hv, p, qu, h => by
      simp only [NoDupKeys, Bool.and_eq_true] at hv
      simp only [locs, List.mem_cons] at h
      rcases h with h | h
      · exact ⟨[], by simp [h, nav]⟩
      · exact locsKvs_nav kvs hv.2 [] (by simpa using hv.1) p qu h
    | .null, _, p, qu, h => ⟨[], by simp_all [locs, nav]⟩
    | .bool _, _, p, qu, h => ⟨[], by simp_all [locs, nav]⟩
    | .int _, _, p, qu, h => ⟨[], by simp_all [locs, nav]⟩
    | .flt _, _, p, qu, h => ⟨[], by simp_all [locs, nav]⟩
    | .big _, _, p, qu, h => ⟨[], by simp_all [locs, nav]⟩
    | .num _, _, p, qu, h => ⟨[], by simp_all [locs, nav]⟩
    | .str _, _, p, qu, h => ⟨[], by simp_all [locs, nav]⟩
  theorem locsList_nav : ∀ (ys : List JV), NoDupKeysList ys = true → ∀ (pre : List JV) (p : NPath)
      (qu : NPath × JV), qu ∈ locsList p pre.length ys →
      ∃ r, qu.1 = p ++ r ∧ nav (.arr (pre ++ ys)) r = some qu.2
    | [], _, _, _, _, h => by simp [locsList] at h
    | x :: r, hv, pre, p, qu, h => by
      simp only [NoDupKeysList, Bool.and_eq_true] at hv
      simp only [locsList, List.mem_append] at h
      rcases h with h | h
      · obtain ⟨r', h1, h2⟩ := locs_nav x hv.1 _ qu h
        exact ⟨.idx pre.length :: r', by simp [h1], by simp [nav, child?, h2]⟩
      · have := locsList_nav r hv.2 (pre ++ [x]) p qu (by simpa using h)
        simpa using this
  theorem locsKvs_nav : ∀ (kvs : List (Bytes × JV)), NoDupKeysKvs kvs = true → ∀ (pre : List (Bytes × JV)),
      keysDistinct (pre ++ kvs) = true → ∀ (p : NPath) (qu : NPath × JV), qu ∈ locsKvs p kvs →
      ∃ r, qu.1 = p ++ r ∧ nav (.obj (pre ++ kvs)) r = some qu.2
    | [], _, _, _, _, _, h => by simp [locsKvs] at h
    | (k, v) :: r, hv, pre, hd, p, qu, h => by
      simp only [NoDupKeysKvs, Bool.and_eq_true] at hv
      simp only [locsKvs, List.mem_append] at h
      rcases h with h | h
      · obtain ⟨r', h1, h2⟩ := locs_nav v hv.1 _ qu h
        exact ⟨.key k :: r', by simp [h1], by
          simp [nav, child?, lookupKey_mem (pre ++ (k, v) :: r) hd k v (by simp), h2]⟩
      · have := locsKvs_nav r hv.2 (pre ++ [(k, v)]) (by simpa using hd) p qu h
        simpa using this
end

/-- every expected callback names a location of the document and carries the value found there -/
theorem expected_value (targets : List Target) (doc : JV) (h : NoDupKeys doc = true)
    (qu : NPath × JV) (hq : qu ∈ expected targets doc) : nav doc qu.1 = some qu.2 := by
  have hm : qu ∈ locs [] doc := (List.mem_filter.mp hq).1
  obtain ⟨r, h1, h2⟩ := locs_nav doc h [] qu hm
  simp only [List.nil_append] at h1
  rw [h1]
  exact h2

theorem mem_locsList (p : NPath) : ∀ (ys : List JV) (i j : Nat) (c : JV), ys[j]? = some c →
    ∀ x ∈ locs (p ++ [.idx (i + j)]) c, x ∈ locsList p i ys
  | [], _, _, _, h, _, _ => by simp at h
  | y :: r, i, 0, c, h, x, hx => by
    simp only [List.getElem?_cons_zero, Option.some.injEq] at h
    subst h
    simp only [locsList, List.mem_append]
    exact Or.inl (by simpa using hx)
  | y :: r, i, j + 1, c, h, x, hx => by
    simp only [locsList, List.mem_append]
    refine Or.inr (mem_locsList p r (i + 1) j c (by simpa using h) x ?_)
    have : i + 1 + j = i + (j + 1) := by omega
    rw [this]
    exact hx

theorem lookupKey_some_mem : ∀ (kvs : List (Bytes × JV)) (k : Bytes) (c : JV), lookupKey k kvs = some c → (k, c) ∈ kvs
  | [], _, _, h => by simp [lookupKey] at h
  | (k', v') :: r, k, c, h => by
    by_cases hk : k' = k
    · subst hk
      simp only [lookupKey, if_true, Option.some.injEq] at h
      simp [h]
    · simp only [lookupKey, hk, if_false] at h
      simp [lookupKey_some_mem r k c h]

theorem mem_locsKvs (p : NPath) : ∀ (kvs : List (Bytes × JV)) (k : Bytes) (c : JV), (k, c) ∈ kvs →
    ∀ x ∈ locs (p ++ [.key k]) c, x ∈ locsKvs p kvs
  | [], _, _, h, _, _ => by simp at h
  | (k', v') :: r, k, c, h, x, hx => by
    simp only [locsKvs, List.mem_append]
    simp only [List.mem_cons, Prod.mk.injEq] at h
    rcases h with ⟨rfl, rfl⟩ | h
    · exact Or.inl hx
    · exact Or.inr (mem_locsKvs p r k c h x hx)

theorem self_mem_locs (p : NPath) (v : JV) : (p, v) ∈ locs p v := by
  cases v <;> simp [locs]

/-- every node of the tree is listed -/
theorem locs_complete : ∀ (r : NPath) (v : JV) (p : NPath) (u : JV), nav v r = some u → (p ++ r, u) ∈ locs p v
  | [], v, p, u, h => by
    simp only [nav, Option.some.injEq] at h
    subst h
    simpa using self_mem_locs p v
  | s :: r', v, p, u, h => by
    cases hc : child? v s with
    | none => simp [nav, hc] at h
    | some c =>
      simp only [nav, hc] at h
      have ih := locs_complete r' c (p ++ [s]) u h
      simp only [List.append_assoc, List.cons_append, List.nil_append] at ih
      cases v with
      | arr xs =>
        cases s with
        | idx i =>
          simp only [child?] at hc
          simp only [locs, List.mem_cons]
          exact Or.inr (mem_locsList p xs 0 i c hc _ (by simpa using ih))
        | key k => simp [child?] at hc
      | obj kvs =>
        cases s with
        | key k =>
          simp only [child?] at hc
          simp only [locs, List.mem_cons]
          exact Or.inr (mem_locsKvs p kvs k c (lookupKey_some_mem kvs k c hc) _ ih)
        | idx i => simp [child?] at hc
      | null => simp [child?] at hc
      | bool _ => simp [child?] at hc
      | int _ => simp [child?] at hc
      | flt _ => simp [child?] at hc
      | big _ => simp [child?] at hc
      | num _ => simp [child?] at hc
      | str _ => simp [child?] at hc

/-- the expected callbacks are exactly the outermost selected locations with their values -/
theorem mem_expected_iff (targets : List Target) (doc : JV) (h : NoDupKeys doc = true) (q : NPath) (u : JV) :
    (q, u) ∈ expected targets doc ↔
      nav doc q = some u ∧ selectedBy targets doc q = true ∧
        ∀ q' ∈ properPrefixes q, selectedBy targets doc q' = false := by
  constructor
  · intro hm
    have hv := expected_value targets doc h (q, u) hm
    have hf := (List.mem_filter.mp hm).2
    simp only [Bool.and_eq_true, Bool.not_eq_true', List.any_eq_false] at hf
    exact ⟨hv, hf.1, fun q' hq' => by simpa using hf.2 q' hq'⟩
  · intro ⟨hv, hs, hp⟩
    refine List.mem_filter.mpr ⟨by simpa using locs_complete q doc [] u hv, ?_⟩
    simp only [Bool.and_eq_true, Bool.not_eq_true', List.any_eq_false]
    exact ⟨hs, fun q' hq' => by simpa using hp q' hq'⟩

end OjgVerif.Match
