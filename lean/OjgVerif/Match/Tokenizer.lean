import OjgVerif.Match.Spec
import OjgVerif.Json.Machine
/-! # The token events of `oj.Tokenizer` as a function of the byte machine's run

`oj.Tokenizer.tokenizeBuffer` (oj/tokenizer.go) is the table-driven machine of Json/Machine.lean in
the tokenizer configuration (no build stack is kept by the Go tokenizer: it calls a `TokenHandler`
instead). `emit T s b` lists the handler calls of ONE iteration of its `for` loop, read off the
`switch t.mode[b]`: one event per action that calls a handler method —

| action                          | handler call(s)                                                  |
|---------------------------------|------------------------------------------------------------------|
| `openObject` / `openArray`      | `ObjectStart()` / `ArrayStart()`                                 |
| `closeObject` / `closeArray`    | (after the depth/kind test) `handleNum()` if a number is pending, then `ObjectEnd()` / `ArrayEnd()` |
| `numComma`, `numSpc`, `numNewline` | `handleNum()` (`numComma`: BEFORE the "unexpected comma" test) |
| `strQuote`                      | `Key(tmp)` if `nextMode == colonMap`, else `String(tmp)`         |
| `tokenOk`                       | `Bool(true)` / `Bool(false)` / `Null()` when the literal is complete |
| end of input                    | `handleNum()` if a number is pending                             |

`handleNum` = `Int`/`Float`/`Number` of `t.num.AsNum()`: one `leaf` event with the machine's own
number conversion. The Go fast paths (`keyQuote`/`valQuote` string scan, literal compare of
`valNull`/`valTrue`/`valFalse`) call the same handler with the same argument as the byte-at-a-time
route modelled here; that is tied by the correspondence run (stream `tok`), as for the machine.

`tokEvents T cfg chunks` is the whole call `Tokenizer.Load` (reader entry, `cfg.reader = true`) or
`Tokenizer.Parse` (one chunk): every event handed over, ALSO those before an error.
`tokEventsIdeal` is the same for a reader entry that ignores empty reads the way `Json.run` does; the
Go code did not quite do that before fix c109a1a (`emptyFirstReadNoBom`, finding
C17-empty-first-read-bom): a FIRST `Read` that returned 0 bytes without an error made `Load` skip its
byte-order-mark handling altogether (the test `3 < len(buf) && buf[0] == 0xEF` is made on the first
buffer only, and the top-up loop needed `0 < cnt`), so a mark delivered by a later read was a syntax
error. `tokEventsWith dev` carries that deviation behind a flag (off now: `tokEvents` IS
`tokEventsIdeal`, `tokEvents_eq_ideal_now`); with the flag on the two agree on every chunking whose
first read is not empty (`tokEvents_eq_ideal`). Core Lean only (linked into the driver). -/
namespace OjgVerif.Match
open OjgVerif OjgVerif.Json

/-- `handleNum()` -/
def numEvent (s : Json.St) : Event := .leaf s.num.asNum.toJV

/-- `if 256 < len(t.mode) && t.mode[256] == 'n' { t.handleNum() }` -/
def flushEv (T : Tables) (s : Json.St) : List Event :=
  if T.fin s.mode = .n then [numEvent s] else []

/-- `case tokenOk`: the handler is called when the last byte of the literal has been compared -/
def tokenEv (T : Tables) (s : Json.St) (b : UInt8) : List Event :=
  let ri := s.ri + 1
  if T.act s.mode 114 = .tokenOk then
    if [116, 114, 117, 101].getD ri 0 = b then (if 3 ≤ ri then [.leaf (.bool true)] else []) else []
  else if T.act s.mode 97 = .tokenOk then
    if [102, 97, 108, 115, 101].getD ri 0 = b then (if 4 ≤ ri then [.leaf (.bool false)] else []) else []
  else if T.act s.mode 117 = .tokenOk && T.act s.mode 108 = .tokenOk then
    if [110, 117, 108, 108].getD ri 0 = b then (if 3 ≤ ri then [.leaf .null] else []) else []
  else []

/-- the handler calls of one iteration of the loop of `tokenizeBuffer` on byte `b` in state `s`
(whether or not the iteration ends in an error) -/
def emit (T : Tables) (s : Json.St) (b : UInt8) : List Event :=
  match T.act s.mode b with
  | .openObject => [.objStart]
  | .openArray => [.arrStart]
  | .closeObject =>
    match s.starts with
    | false :: _ => if T.fin s.mode = .v then [] else flushEv T s ++ [.objEnd]
    | _ => []
  | .closeArray =>
    match s.starts with
    | true :: _ => flushEv T s ++ [.arrEnd]
    | _ => []
  | .numComma => [numEvent s]
  | .numSpc => [numEvent s]
  | .numNewline => [numEvent s]
  | .strQuote =>
    if T.act s.nextMode 58 = .colonColon then [.key s.tmp.reverse] else [.leaf (.str s.tmp.reverse)]
  | .tokenOk => tokenEv T s b
  | _ => []

/-- the actions whose Go case calls the handler on the byte-at-a-time route -/
def _root_.OjgVerif.Json.Act.emits : Act → Bool
  | .openObject | .openArray | .closeObject | .closeArray | .numComma | .numSpc | .numNewline
  | .strQuote | .tokenOk => true
  | _ => false

/-- `if last { … if t.mode[256] == 'n' { t.handleNum() } }` -/
def finishEv (T : Tables) (s : Json.St) : List Event :=
  if !s.starts.isEmpty || T.fin s.mode = .absent then [] else flushEv T s

variable (T : Tables) (cfg : Cfg)

/-- events of one read buffer (the state runs along with `Json.step`) -/
def evBytes (s : Json.St) : Bytes → List Event
  | [] => []
  | b :: r =>
    emit T s b ++
      match Json.step T cfg s b with
      | .error _ => []
      | .ok s' => evBytes s' r

/-- events of the read buffers one after the other (as `Json.runChunks`) -/
def evChunks (s : Json.St) : List Bytes → List Event
  | [] => []
  | c :: rest =>
    evBytes T cfg s c ++
      match Json.runBytes T cfg s c with
      | .error _ => []
      | .ok s' => evChunks { s' with inFast := false } rest

/-- the buffers after the BOM decision, and the end of input -/
def evAfterBom (cs : List Bytes) : List Event :=
  evChunks T cfg {} cs ++
    match Json.runChunks T cfg {} cs with
    | .error _ => []
    | .ok s => finishEv T s

/-- every handler call of one `Tokenizer.Load` / `Tokenizer.Parse` for a reader entry that ignores
empty reads (same shape as `Json.run`) -/
def tokEventsIdeal (chunks : List Bytes) : List Event :=
  let cs := if cfg.reader then topUp (chunks.filter (!·.isEmpty)) else chunks
  match cs with
  | [] => finishEv T {}
  | c :: rest =>
    match (if cfg.reader then bomRuleReader c else bomRule c) with
    | .bad => []
    | .strip r => evAfterBom T cfg (r :: rest)
    | .keep => evAfterBom T cfg (c :: rest)

/-- Deviation of the code BEFORE fix c109a1a (finding C17-empty-first-read-bom, now fixed): an empty
FIRST read switched the byte-order-mark handling of `Tokenizer.Load` off. The flag is off for the
code as it is; `tokEventsWith true` keeps the old behaviour for the recorded witness. -/
def emptyFirstReadNoBom : Bool := false

/-- every handler call of one `Tokenizer.Load` / `Tokenizer.Parse`, with (`dev = true`) or without
the deviation -/
def tokEventsWith (dev : Bool) (chunks : List Bytes) : List Event :=
  match cfg.reader && dev, chunks with
  | true, [] :: rest => evAfterBom T cfg rest     -- the first buffer is empty: no mark is looked for
  | _, _ => tokEventsIdeal T cfg chunks

/-- every handler call of one `Tokenizer.Load` / `Tokenizer.Parse` of the code as it is -/
def tokEvents (chunks : List Bytes) : List Event := tokEventsWith T cfg emptyFirstReadNoBom chunks

/-- the outcome of the same call (`Json.run`, with the same deviation) -/
def tokRunWith (dev : Bool) (chunks : List Bytes) : Except Err (List JV) :=
  match cfg.reader && dev, chunks with
  | true, [] :: rest =>
    match Json.runChunks T cfg {} rest with
    | .error e => .error e
    | .ok s => Json.finish T s
  | _, _ => Json.run T cfg chunks

def tokRun (chunks : List Bytes) : Except Err (List JV) := tokRunWith T cfg emptyFirstReadNoBom chunks

/-- the configuration of `oj.Tokenize` / `oj.TokenizeLoad` behind `oj.Match*`: several documents
allowed (`OnlyOne` is false in the zero `Tokenizer`), no integer fast loop that changes values -/
def tokCfg (reader : Bool) : Cfg := { onlyOne := false, fastInt := false, reader := reader }

end OjgVerif.Match
