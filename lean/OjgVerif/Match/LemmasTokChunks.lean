import OjgVerif.Match.Tokenizer
import OjgVerif.Props.C03
/-! Chunk independence of the tokenizer's EVENT SEQUENCE (`tokEventsIdeal`), from the development behind
`C03.chunks_irrelevant` (which states it for the machine's result): `runBytes_append`,
`runBytes_inFast`, `runChunks_eq_join` for the buffers, `topUpAux_head`, `topUpAux_flatten`,
`bomRuleReader_append`, `flatten_filter_nonempty` for the BOM top-up of the reader entry. -/
namespace OjgVerif.Match
open OjgVerif OjgVerif.Json

variable (T : Tables) (cfg : Cfg)

theorem evBytes_append (s : Json.St) (a b : Bytes) :
    evBytes T cfg s (a ++ b) =
      evBytes T cfg s a ++
        match runBytes T cfg s a with
        | .error _ => []
        | .ok s' => evBytes T cfg s' b := by
  induction a generalizing s with
  | nil => simp [evBytes, runBytes]
  | cons x r ih =>
    simp only [List.cons_append, evBytes, runBytes]
    cases hst : Json.step T cfg s x with
    | error e => simp
    | ok s1 => simp only [ih s1, List.append_assoc]

/-- without the integer fast loop a buffer boundary is invisible in the event sequence -/
theorem evChunks_eq_join (h : cfg.fastInt = false) (cs : List Bytes) (s : Json.St) (hs : s.inFast = false) :
    evChunks T cfg s cs = evBytes T cfg s cs.flatten := by
  induction cs generalizing s with
  | nil => rfl
  | cons c r ih =>
    simp only [evChunks, List.flatten_cons, evBytes_append]
    cases h1 : runBytes T cfg s c with
    | error e => rfl
    | ok s1 =>
      simp only
      have h2 := C03.runBytes_inFast T cfg h c s s1 hs h1
      have : ({ s1 with inFast := false } : Json.St) = s1 := by
        cases s1; simp_all
      rw [this, ih s1 h2]

theorem evAfterBom_eq (h : cfg.fastInt = false) (cs : List Bytes) :
    evAfterBom T cfg cs = evAfterBom T cfg [cs.flatten] := by
  unfold evAfterBom
  rw [evChunks_eq_join T cfg h cs {} rfl, evChunks_eq_join T cfg h [cs.flatten] {} rfl,
    C03.runChunks_eq_join T cfg h cs {} rfl, C03.runChunks_eq_join T cfg h [cs.flatten] {} rfl]
  simp

/-- The BOM top-up of the reader entry points does not depend on the chunking, for ANY continuation
`F` that only depends on the concatenation of the buffers handed to it (the argument of
`C03.chunks_irrelevant`, with the same lemmas, stated once for every observation of the run). -/
theorem reader_prep_irrelevant {α : Type} (F : List Bytes → α) (hF : ∀ cs, F cs = F [cs.flatten])
    (e0 bad : α) (chunks : List Bytes) :
    (match topUp (chunks.filter (!·.isEmpty)) with
      | [] => e0
      | c :: rest =>
        match bomRuleReader c with
        | .bad => bad
        | .strip r => F (r :: rest)
        | .keep => F (c :: rest)) =
    (match topUp ([chunks.flatten].filter (!·.isEmpty)) with
      | [] => e0
      | c :: rest =>
        match bomRuleReader c with
        | .bad => bad
        | .strip r => F (r :: rest)
        | .keep => F (c :: rest)) := by
  cases hf : chunks.filter (!·.isEmpty) with
  | nil =>
    have : chunks.flatten = [] := by rw [← C03.flatten_filter_nonempty, hf]; rfl
    simp [this, topUp]
  | cons c0 cs0 =>
    have hc0 : c0 ≠ [] := C03.filter_nonempty_mem chunks c0 (by rw [hf]; exact List.mem_cons_self)
    have hfl : chunks.flatten = c0 ++ cs0.flatten := by rw [← C03.flatten_filter_nonempty, hf]; rfl
    obtain ⟨c, rest, htop, hcne, hprop⟩ := C03.topUpAux_head c0 hc0 cs0
    have hjoin : c ++ rest.flatten = chunks.flatten := by
      have := C03.topUpAux_flatten c0 cs0
      rw [htop] at this
      simpa [hfl] using this
    have hne : chunks.flatten ≠ [] := by rw [← hjoin]; simp [hcne]
    have hsingle : [chunks.flatten].filter (!·.isEmpty) = [chunks.flatten] := by
      cases hx : chunks.flatten with
      | nil => exact absurd hx hne
      | cons _ _ => rfl
    simp only [hsingle, topUp, topUpAux, htop]
    rcases hprop with hrest | hprop
    · subst hrest
      simp only [List.flatten_nil, List.append_nil] at hjoin
      rw [hjoin]
    · have hb := C03.bomRuleReader_append c rest.flatten hcne hprop
      rw [hjoin] at hb
      rw [← hb]
      cases hbr : bomRuleReader c with
      | bad => rfl
      | keep =>
        simp only
        rw [hF (c :: rest), hF [chunks.flatten]]
        simp [hjoin]
      | strip r =>
        simp only
        rw [hF (r :: rest), hF [r ++ rest.flatten]]
        simp

/-- **Chunk independence of the token-event sequence** (reader entry, no integer fast loop — the
configuration of `oj.Tokenizer.Load`): every handler call, in order, with its argument — also the
calls made before an error — depends only on the bytes delivered, not on how the reader splits them
(1-byte reads, splits inside tokens, a BOM spread over several reads). Any table set. -/
theorem tokEvents_chunks_irrelevant (h : cfg.fastInt = false) (hr : cfg.reader = true) (chunks : List Bytes) :
    tokEventsIdeal T cfg chunks = tokEventsIdeal T cfg [chunks.flatten] := by
  have hrun : ∀ cs, tokEventsIdeal T cfg cs =
      match topUp (cs.filter (!·.isEmpty)) with
      | [] => finishEv T {}
      | c :: rest =>
        match bomRuleReader c with
        | .bad => []
        | .strip r => evAfterBom T cfg (r :: rest)
        | .keep => evAfterBom T cfg (c :: rest) := by
    intro cs
    unfold tokEventsIdeal
    simp only [hr, ↓reduceIte]
    cases topUp (cs.filter (!·.isEmpty)) with
    | nil => rfl
    | cons c rest =>
      simp only
      cases bomRuleReader c <;> rfl
  rw [hrun, hrun]
  exact reader_prep_irrelevant (evAfterBom T cfg) (evAfterBom_eq T cfg h) _ _ chunks

/-- on every chunking whose first read is not empty the deviating entry is the ideal reader entry -/
theorem tokEvents_eq_ideal (dev : Bool) (chunks : List Bytes) (h : chunks.head? ≠ some []) :
    tokEventsWith T cfg dev chunks = tokEventsIdeal T cfg chunks := by
  unfold tokEventsWith
  split
  · simp at h
  · rfl

/-- the code as it is (fix c109a1a applied, flag off) is the ideal reader entry on EVERY chunking -/
theorem tokEvents_eq_ideal_now (chunks : List Bytes) : tokEvents T cfg chunks = tokEventsIdeal T cfg chunks := by
  unfold tokEvents tokEventsWith
  simp [emptyFirstReadNoBom]

/-- **Chunk independence of the token-event sequence of the code as it is**: every chunking. -/
theorem tokEvents_go_chunks_irrelevant (h : cfg.fastInt = false) (hr : cfg.reader = true) (chunks : List Bytes) :
    tokEvents T cfg chunks = tokEvents T cfg [chunks.flatten] := by
  rw [tokEvents_eq_ideal_now, tokEvents_eq_ideal_now, tokEvents_chunks_irrelevant T cfg h hr]

end OjgVerif.Match
