import OjgVerif.Match.LemmasFilterSpec
/-! One filter target `pre[?p]` with a descent-free `pre`: the specification's piece at a container
`pre` selects is every accepted element in order (`specAt_single`), the handler's report is the
last accepted path with the first accepted value (`reportAt_single`); they agree exactly when at
most one element is accepted (`agree_single_iff`). -/
namespace OjgVerif.Match
open OjgVerif
set_option linter.unusedSectionVars false

/-! ## accepted elements, with their path elements, in order -/

def acceptedFrom (p : JV → Bool) : Nat → List JV → List (Seg × JV)
  | _, [] => []
  | i, x :: r => (if p x then [(Seg.idx i, x)] else []) ++ acceptedFrom p (i + 1) r

/-- the elements (members) of a container that the filter accepts -/
def accepted (p : JV → Bool) : JV → List (Seg × JV)
  | .arr xs => acceptedFrom p 0 xs
  | .obj kvs => (kvs.filter fun kv => p kv.2).map fun kv => (Seg.key kv.1, kv.2)
  | _ => []

def rangeFM {β : Type} (G : Nat → JV → Option β) (i : Nat) (ys : List JV) : List β :=
  (List.range ys.length).filterMap fun j =>
    match ys[j]? with
    | some x => G (i + j) x
    | none => none

theorem rangeFM_nil {β : Type} (G : Nat → JV → Option β) (i : Nat) : rangeFM G i [] = [] := rfl

theorem rangeFM_cons {β : Type} (G : Nat → JV → Option β) (i : Nat) (x : JV) (r : List JV) :
    rangeFM G i (x :: r) = (G i x).toList ++ rangeFM G (i + 1) r := by
  unfold rangeFM
  rw [List.length_cons, List.range_succ_eq_map, List.filterMap_cons]
  have h0 : (match (x :: r)[0]? with | some y => G (i + 0) y | none => none) = G i x := by simp
  rw [h0, List.filterMap_map]
  have hfun : ((fun j => match (x :: r)[j]? with | some y => G (i + j) y | none => none) ∘ Nat.succ) =
      fun j => match r[j]? with | some y => G (i + 1 + j) y | none => none := by
    funext j
    simp only [Function.comp, List.getElem?_cons_succ]
    have : i + j.succ = i + 1 + j := by omega
    rw [this]
  rw [hfun]
  cases G i x <;> simp

theorem filterMap_ite {α β : Type} (l : List α) (c : α → Bool) (g : α → β) :
    l.filterMap (fun a => if c a then some (g a) else none) = (l.filter c).map g := by
  induction l with
  | nil => rfl
  | cons a r ih => by_cases h : c a = true <;> simp [h, ih]

theorem filterMap_congr_mem {α β : Type} (l : List α) (f g : α → Option β) (h : ∀ a ∈ l, f a = g a) :
    l.filterMap f = l.filterMap g := by
  induction l with
  | nil => rfl
  | cons a r ih =>
    simp only [List.filterMap_cons, h a List.mem_cons_self, ih (fun b hb => h b (List.mem_cons_of_mem _ hb))]

theorem rangeFM_all (p : JV → Bool) (q : NPath) (i : Nat) (xs : List JV) :
    rangeFM (fun k x => if p x then some (q ++ [Seg.idx k], x) else none) i xs =
      (acceptedFrom p i xs).map fun sc => (q ++ [sc.1], sc.2) := by
  induction xs generalizing i with
  | nil => rfl
  | cons x r ih =>
    rw [rangeFM_cons, ih (i + 1)]
    by_cases hp : p x = true <;> simp [acceptedFrom, hp]

theorem rangeFM_locs (p : JV → Bool) (i : Nat) (xs : List JV) :
    rangeFM (fun k x => if p x then some (Seg.idx k) else none) i xs = (acceptedFrom p i xs).map (·.1) := by
  induction xs generalizing i with
  | nil => rfl
  | cons x r ih =>
    rw [rangeFM_cons, ih (i + 1)]
    by_cases hp : p x = true <;> simp [acceptedFrom, hp]

theorem filterAll_arr (p : JV → Bool) (q : NPath) (xs : List JV) :
    filterAll p q (.arr xs) = (acceptedFrom p 0 xs).map fun sc => (q ++ [sc.1], sc.2) := by
  rw [← rangeFM_all]
  unfold filterAll rangeFM
  apply filterMap_congr_mem
  intro j _
  cases xs[j]? <;> simp

theorem filterLocs_arr (p : JV → Bool) (xs : List JV) :
    filterLocs p (.arr xs) = ((acceptedFrom p 0 xs).map (·.1)).reverse := by
  rw [← rangeFM_locs]
  simp only [filterLocs, rangeFM]
  rw [List.map_reverse]
  congr 1
  rw [← filterMap_ite]
  apply filterMap_congr_mem
  intro j _
  cases xs[j]? <;> simp

theorem find?_acceptedFrom (p : JV → Bool) (i : Nat) (xs : List JV) :
    xs.find? p = (acceptedFrom p i xs).head?.map (·.2) := by
  induction xs generalizing i with
  | nil => rfl
  | cons x r ih =>
    by_cases hp : p x = true
    · simp [acceptedFrom, hp]
    · have hp' : p x = false := by simpa using hp
      simp [acceptedFrom, hp', ih (i + 1)]

theorem filterAll_eq (p : JV → Bool) (q : NPath) (u : JV) :
    filterAll p q u = (accepted p u).map fun sc => (q ++ [sc.1], sc.2) := by
  cases u <;> simp only [filterAll, accepted, List.map_nil]
  · exact filterAll_arr p q _
  · simp [List.map_map, Function.comp_def]

theorem filterLocs_eq (p : JV → Bool) (u : JV) : filterLocs p u = ((accepted p u).map (·.1)).reverse := by
  cases u <;> simp only [filterLocs, accepted, List.map_nil, List.reverse_nil]
  · exact filterLocs_arr p _
  · simp [List.map_map, Function.comp_def]

theorem filterFirst_eq (p : JV → Bool) (u : JV) : filterFirst p u = (accepted p u).head?.map (·.2) := by
  cases u <;> simp only [filterFirst, accepted, List.head?_nil, Option.map_none]
  · exact find?_acceptedFrom p 0 _
  · rename_i kvs
    induction kvs with
    | nil => rfl
    | cons kv r ih =>
      by_cases hp : p kv.2 = true
      · simp [hp]
      · have hp' : p kv.2 = false := by simpa using hp
        simp only [List.find?_cons, hp', List.filter_cons, Bool.false_eq_true, if_false]
        exact ih

/-- `checkRest`'s report for a filter and the specification's list agree iff at most one element
is accepted -/
theorem firstOnly_eq_all_iff (p : JV → Bool) (q : NPath) (u : JV) :
    (match filterLocs p u with
      | [] => []
      | s :: _ => [(q ++ [s], (filterFirst p u).getD .null)]) = filterAll p q u ↔ (accepted p u).length ≤ 1 := by
  rw [filterLocs_eq, filterFirst_eq, filterAll_eq]
  match h : accepted p u with
  | [] => simp
  | [a] => simp
  | a :: b :: r =>
    have hl : ¬ ((a :: b :: r).length ≤ 1) := by simp
    refine iff_of_false ?_ hl
    intro he
    have := congrArg List.length he
    simp only [List.map_cons, List.reverse_cons, List.length_cons, List.length_map] at this
    split at this <;> simp at this

/-! ## the specification's piece for one filter target with a descent-free front part -/

def noDescent (t : Target) : Bool := t.all fun f => !isDescent f

theorem selects_cons_nil (f : Frag) (hd : isDescent f = false) (gs : Target) (v : JV) :
    selects (f :: gs) v [] = false := by
  cases f <;> simp [isDescent] at hd <;> simp [selects]

theorem selects_cons_none (f : Frag) (hd : isDescent f = false) (gs : Target) (v : JV) (s : Seg) (r : NPath)
    (hc : child? v s = none) : selects (f :: gs) v (s :: r) = false := by
  cases f <;> simp [isDescent] at hd <;> simp [selects, hc]

theorem selects_cons_some (f : Frag) (hd : isDescent f = false) (gs : Target) (v : JV) (s : Seg) (r : NPath) (c : JV)
    (hc : child? v s = some c) : selects (f :: gs) v (s :: r) = (fragSel f v s c && selects gs c r) := by
  cases f <;> simp [isDescent] at hd <;> simp [selects, hc]

theorem selects_len : ∀ (t : Target), noDescent t = true → ∀ (v : JV) (r : NPath), selects t v r = true →
    r.length = t.length
  | [], _, v, r, h => by
    simp only [selects, List.isEmpty_iff] at h
    simp [h]
  | f :: fs, hn, v, r, h => by
    simp only [noDescent, List.all_cons, Bool.and_eq_true, Bool.not_eq_true'] at hn
    cases r with
    | nil => rw [selects_cons_nil f hn.1] at h; cases h
    | cons s r' =>
      cases hc : child? v s with
      | none => rw [selects_cons_none f hn.1 fs v s r' hc] at h; cases h
      | some c =>
        rw [selects_cons_some f hn.1 fs v s r' c hc, Bool.and_eq_true] at h
        have := selects_len fs (by simpa [noDescent] using hn.2) c r' h.2
        simp [this]

theorem noDescent_snoc_filter (pre : Target) (p : JV → Bool) (h : noDescent pre = true) :
    noDescent (pre ++ [.filter p]) = true := by
  simp only [noDescent, List.all_append, List.all_cons, List.all_nil, Bool.and_true, Bool.and_eq_true] at h ⊢
  exact ⟨h, by simp [isDescent]⟩

/-- a location one step below a location `pre` selects is selected by `pre[?p]` iff `p` accepts it -/
theorem selects_snoc_filter (p : JV → Bool) : ∀ (pre : Target), noDescent pre = true →
    ∀ (v : JV) (q : NPath) (s : Seg) (u c : JV), selects pre v q = true → nav v q = some u → child? u s = some c →
    selects (pre ++ [.filter p]) v (q ++ [s]) = p c
  | [], _, v, q, s, u, c, hsel, hnav, hc => by
    simp only [selects, List.isEmpty_iff] at hsel
    subst hsel
    simp only [nav, Option.some.injEq] at hnav
    subst hnav
    simp [selects, hc, fragSel]
  | f :: fs, hn, v, q, s, u, c, hsel, hnav, hc => by
    simp only [noDescent, List.all_cons, Bool.and_eq_true, Bool.not_eq_true'] at hn
    cases q with
    | nil => rw [selects_cons_nil f hn.1] at hsel; cases hsel
    | cons a q' =>
      cases hca : child? v a with
      | none => rw [selects_cons_none f hn.1 fs v a q' hca] at hsel; cases hsel
      | some d =>
        rw [selects_cons_some f hn.1 fs v a q' d hca, Bool.and_eq_true] at hsel
        simp only [nav, hca] at hnav
        have ih := selects_snoc_filter p fs (by simpa [noDescent] using hn.2) d q' s u c hsel.2 hnav hc
        simp only [List.cons_append]
        rw [selects_cons_some f hn.1 _ v a _ d hca, ih, hsel.1, Bool.true_and]

theorem locs_head (p' : NPath) (x : JV) :
    ∃ rest, locs p' x = (p', x) :: rest ∧ ∀ y ∈ rest, p' ∈ properPrefixes y.1 := by
  cases x with
  | arr xs => exact ⟨_, rfl, locsList_below xs p' 0⟩
  | obj kvs => exact ⟨_, rfl, locsKvs_below kvs p'⟩
  | null => exact ⟨[], rfl, by simp⟩
  | bool _ => exact ⟨[], rfl, by simp⟩
  | int _ => exact ⟨[], rfl, by simp⟩
  | flt _ => exact ⟨[], rfl, by simp⟩
  | big _ => exact ⟨[], rfl, by simp⟩
  | num _ => exact ⟨[], rfl, by simp⟩
  | str _ => exact ⟨[], rfl, by simp⟩

theorem length_lt_of_mem_properPrefixes {a b : NPath} (h : a ∈ properPrefixes b) : a.length < b.length := by
  simp only [properPrefixes, List.mem_map, List.mem_range] at h
  obtain ⟨n, hn, rfl⟩ := h
  simp [List.length_take]; omega

section
variable (p : JV → Bool) (pre : Target) (doc : JV) (q : NPath) (u : JV)
variable (hn : noDescent pre = true) (hsel : selects pre doc q = true) (hnav : nav doc q = some u)

/-- the filter of `expected` for the single target `pre[?p]` -/
def keep1 (pv : NPath × JV) : Bool :=
  selectedBy [pre ++ [.filter p]] doc pv.1 && !(properPrefixes pv.1).any (selectedBy [pre ++ [.filter p]] doc)

include hn hsel

theorem keep1_len (r : NPath) (w : JV) (h : keep1 p pre doc (r, w) = true) : r.length = q.length + 1 := by
  simp only [keep1, selectedBy, List.any_cons, List.any_nil, Bool.or_false, Bool.and_eq_true] at h
  have h1 := selects_len _ (noDescent_snoc_filter pre p hn) doc r h.1
  have h2 := selects_len pre hn doc q hsel
  simp [h1, h2]

include hnav

theorem keep1_child (s : Seg) (c : JV) (hc : child? u s = some c) : keep1 p pre doc (q ++ [s], c) = p c := by
  simp only [keep1, selectedBy, List.any_cons, List.any_nil, Bool.or_false]
  rw [selects_snoc_filter p pre hn doc q s u c hsel hnav hc]
  have : (properPrefixes (q ++ [s])).any (selectedBy [pre ++ [.filter p]] doc) = false := by
    simp only [List.any_eq_false]
    intro x hx hs
    simp only [selectedBy, List.any_cons, List.any_nil, Bool.or_false] at hs
    have h1 := selects_len _ (noDescent_snoc_filter pre p hn) doc x hs
    have h2 := selects_len pre hn doc q hsel
    have h3 := length_lt_of_mem_properPrefixes hx
    simp at h1 h3
    omega
  simp [this]

/-- below a child only the child itself can be kept -/
theorem filter_child (s : Seg) (c : JV) (hc : child? u s = some c) :
    (locs (q ++ [s]) c).filter (keep1 p pre doc) = if p c then [(q ++ [s], c)] else [] := by
  obtain ⟨rest, hl, hrest⟩ := locs_head (q ++ [s]) c
  rw [hl, List.filter_cons, keep1_child p pre doc q u hn hsel hnav s c hc]
  have : rest.filter (keep1 p pre doc) = [] := by
    simp only [List.filter_eq_nil_iff]
    intro y hy hk
    have h1 := keep1_len p pre doc q hn hsel y.1 y.2 hk
    have h2 := length_lt_of_mem_properPrefixes (hrest y hy)
    simp at h2
    omega
  rw [this]

theorem filter_list : ∀ (ys : List JV) (i : Nat), (∀ j x, ys[j]? = some x → child? u (.idx (i + j)) = some x) →
    (locsList q i ys).filter (keep1 p pre doc) = (acceptedFrom p i ys).map fun sc => (q ++ [sc.1], sc.2)
  | [], _, _ => rfl
  | x :: r, i, hch => by
    simp only [locsList, List.filter_append, acceptedFrom, List.map_append]
    rw [filter_child p pre doc q u hn hsel hnav (.idx i) x (by simpa using hch 0 x rfl),
      filter_list r (i + 1) (by
        intro j y hy
        have := hch (j + 1) y (by simpa using hy)
        simpa [Nat.add_assoc, Nat.add_comm 1] using this)]
    by_cases hp : p x = true <;> simp [hp]

theorem filter_kvs : ∀ (kvs : List (Bytes × JV)), (∀ k v, (k, v) ∈ kvs → child? u (.key k) = some v) →
    (locsKvs q kvs).filter (keep1 p pre doc) =
      ((kvs.filter fun kv => p kv.2).map fun kv => (Seg.key kv.1, kv.2)).map fun sc => (q ++ [sc.1], sc.2)
  | [], _ => rfl
  | (k, v) :: r, hch => by
    simp only [locsKvs, List.filter_append]
    rw [filter_child p pre doc q u hn hsel hnav (.key k) v (hch k v (by simp)),
      filter_kvs r (fun k' v' h' => hch k' v' (by simp [h']))]
    by_cases hp : p v = true <;> simp [hp]

/-- **the specification's piece** at a location `pre` selects: every accepted element, in order -/
theorem spec_single (hu : NoDupKeys u = true) :
    (locs q u).filter (keep1 p pre doc) = filterAll p q u := by
  have hself : keep1 p pre doc (q, u) = false := by
    cases h : keep1 p pre doc (q, u)
    · rfl
    · have := keep1_len p pre doc q hn hsel q u h
      omega
  rw [filterAll_eq]
  cases u with
  | arr xs =>
    simp only [locs, List.filter_cons, hself, Bool.false_eq_true, if_false, accepted]
    exact filter_list p pre doc q _ hn hsel hnav xs 0 (by intro j x hx; simpa [child?] using hx)
  | obj kvs =>
    simp only [NoDupKeys, Bool.and_eq_true] at hu
    simp only [locs, List.filter_cons, hself, Bool.false_eq_true, if_false, accepted]
    exact filter_kvs p pre doc q _ hn hsel hnav kvs (by
      intro k v hkv
      simp [child?, lookupKey_mem kvs hu.1 k v hkv])
  | null => simp [locs, hself, accepted]
  | bool _ => simp [locs, hself, accepted]
  | int _ => simp [locs, hself, accepted]
  | flt _ => simp [locs, hself, accepted]
  | big _ => simp [locs, hself, accepted]
  | num _ => simp [locs, hself, accepted]
  | str _ => simp [locs, hself, accepted]
end

theorem nodup_getElem : ∀ (xs : List JV) (i : Nat) (c : JV), NoDupKeysList xs = true → xs[i]? = some c → NoDupKeys c = true
  | [], _, _, _, h => by simp at h
  | x :: r, 0, c, hv, h => by
    simp only [NoDupKeysList, Bool.and_eq_true] at hv
    simp only [List.getElem?_cons_zero, Option.some.injEq] at h
    subst h; exact hv.1
  | x :: r, i + 1, c, hv, h => by
    simp only [NoDupKeysList, Bool.and_eq_true] at hv
    exact nodup_getElem r i c hv.2 (by simpa using h)

theorem nodup_lookup : ∀ (kvs : List (Bytes × JV)) (k : Bytes) (c : JV), NoDupKeysKvs kvs = true →
    lookupKey k kvs = some c → NoDupKeys c = true
  | [], _, _, _, h => by simp [lookupKey] at h
  | (k', v) :: r, k, c, hv, h => by
    simp only [NoDupKeysKvs, Bool.and_eq_true] at hv
    simp only [lookupKey] at h
    split at h
    · simp only [Option.some.injEq] at h; subst h; exact hv.1
    · exact nodup_lookup r k c hv.2 h

theorem nodup_child (v : JV) (s : Seg) (c : JV) (hv : NoDupKeys v = true) (h : child? v s = some c) :
    NoDupKeys c = true := by
  cases v <;> cases s <;> simp only [child?] at h <;> try (cases h)
  · simp only [NoDupKeys] at hv
    exact nodup_getElem _ _ c hv h
  · simp only [NoDupKeys, Bool.and_eq_true] at hv
    exact nodup_lookup _ _ c hv.2 h

theorem nodup_nav : ∀ (q : NPath) (v u : JV), NoDupKeys v = true → nav v q = some u → NoDupKeys u = true
  | [], v, u, hv, h => by simp only [nav, Option.some.injEq] at h; subst h; exact hv
  | s :: r, v, u, hv, h => by
    simp only [nav] at h
    cases hc : child? v s with
    | none => simp [hc] at h
    | some c =>
      simp only [hc] at h
      exact nodup_nav r c u (nodup_child v s c hv hc) h

theorem splitTarget_snoc_filter (p : JV → Bool) : ∀ (pre : Target), pre.any isFilterFrag = false →
    (splitTarget (pre ++ [.filter p])).target = pre ∧ ∃ p', (splitTarget (pre ++ [.filter p])).rest = some p' ∧ p' = p
  | [], _ => ⟨rfl, p, rfl, rfl⟩
  | f :: fs, h => by
    simp only [List.any_cons, Bool.or_eq_false_iff] at h
    obtain ⟨ih1, p', ih2, ih3⟩ := splitTarget_snoc_filter p fs h.2
    cases f <;> simp [isFilterFrag] at h <;> simp only [List.cons_append, splitTarget, ih1] <;>
      exact ⟨trivial, p', ih2, ih3⟩

end OjgVerif.Match
