import OjgVerif.Match.LemmasSel
/-! Targets with a from-the-end index or a slice do not disturb the other targets of a set: for a
matcher with `sliceAll` (and a descent that matches the node itself) and a target set WITHOUT
filters, the callbacks are the specification's for the targets read the way the streaming matcher
reads them (`asStreamed`: a from-the-end index selects nothing, a slice is `[:]`) — every target
without such a construct keeps its meaning. Only a filter target collects containers and hides the
other targets. -/
namespace OjgVerif.Match
open OjgVerif

theorem any_filter_memOK (ms : List UMem) (g : UMem → Bool) (hg : ∀ m, memOK m = false → g m = false) :
    (ms.filter memOK).any g = ms.any g := by
  induction ms with
  | nil => rfl
  | cons m r ih =>
    by_cases h : memOK m = true
    · simp [h, ih]
    · have h' : memOK m = false := by simpa using h
      simp [h', ih, hg m h']

/-- the matcher cannot tell a fragment from its streamed reading -/
theorem segMatch_streamed (dv : Dev) (hs : dv.sliceAll = true) (f : Frag) (s : Seg) :
    segMatch dv (streamedFrag f) s = segMatch dv f s := by
  cases f with
  | child k => rfl
  | index i =>
    by_cases h : i < 0
    · cases s with
      | key k => simp [streamedFrag, h, segMatch]
      | idx j =>
        have : ¬ i = (j : Int) := by omega
        simp [streamedFrag, h, segMatch, this]
    · simp [streamedFrag, h]
  | wildcard => rfl
  | union ms =>
    simp only [streamedFrag, segMatch]
    apply any_filter_memOK
    intro m hm
    cases m with
    | name k => simp [memOK] at hm
    | index i =>
      simp only [memOK, decide_eq_false_iff_not] at hm
      cases s with
      | key k => rfl
      | idx j =>
        have : ¬ i = (j : Int) := by omega
        simp [this]
  | slice a b st => cases s <;> simp [streamedFrag, segMatch, hs]
  | descent => rfl
  | filter p => rfl

theorem pathMatch_streamed (dv : Dev) (hs : dv.sliceAll = true) :
    ∀ (t : Target), pathMatch dv (asStreamed t) = pathMatch dv t
  | [] => rfl
  | f :: fs => by
    have ih := pathMatch_streamed dv hs fs
    funext path
    have hcons : asStreamed (f :: fs) = streamedFrag f :: asStreamed fs := rfl
    rw [hcons]
    by_cases hd : isDescent f = true
    · cases f <;> simp [isDescent] at hd
      simp only [streamedFrag, pathMatch, ih]
    · have hd' : isDescent f = false := by simpa using hd
      have hsd : isDescent (streamedFrag f) = false := by
        cases f with
        | index i => by_cases h : i < 0 <;> simp [streamedFrag, h, isDescent]
        | descent => simp [isDescent] at hd'
        | _ => simp [streamedFrag, isDescent]
      have hnil : ∀ (g : Frag) (gs : Target), isDescent g = false → pathMatch dv (g :: gs) [] = false := by
        intro g gs hg
        cases g <;> simp [isDescent] at hg <;> simp [pathMatch]
      have hcs : ∀ (g : Frag) (gs : Target) (s : Seg) (p : NPath), isDescent g = false →
          pathMatch dv (g :: gs) (s :: p) = (segMatch dv g s && pathMatch dv gs p) := by
        intro g gs s p hg
        cases g <;> simp [isDescent] at hg <;> simp [pathMatch]
      cases path with
      | nil => rw [hnil _ _ hsd, hnil _ _ hd']
      | cons s p => rw [hcs _ _ _ _ hsd, hcs _ _ _ _ hd', ih, segMatch_streamed dv hs]

/-- the streamed reading of a target without a filter is a supported target -/
theorem fragOK_streamed (dv : Dev) (hs : dv.sliceAll = true) (f : Frag) (hf : isFilterFrag f = false) :
    fragOK dv (streamedFrag f) = true := by
  cases f with
  | child k => rfl
  | index i =>
    by_cases h : i < 0
    · simp [streamedFrag, h, fragOK]
    · have : 0 ≤ i := by omega
      simp [streamedFrag, h, fragOK, this]
  | wildcard => rfl
  | union ms => simp [streamedFrag, fragOK]
  | slice a b st => simp [streamedFrag, fragOK, hs]
  | descent => rfl
  | filter p => simp [isFilterFrag] at hf

theorem okTarget_streamed (dv : Dev) (hs : dv.sliceAll = true) (hd : dv.descentNoSelf = false) :
    ∀ (t : Target), t.any isFilterFrag = false → okTarget dv (asStreamed t) = true
  | [], _ => rfl
  | f :: fs, h => by
    simp only [List.any_cons, Bool.or_eq_false_iff] at h
    have hcons : asStreamed (f :: fs) = streamedFrag f :: asStreamed fs := rfl
    simp [hcons, okTarget, fragOK_streamed dv hs f h.1, okTarget_streamed dv hs hd fs h.2, hd]

/-- on a supported fragment the streamed reading is the fragment -/
theorem streamedFrag_ok (dv : Dev) (hs : dv.sliceAll = true) (f : Frag) (hf : fragOK dv f = true) :
    streamedFrag f = f := by
  cases f with
  | child k => rfl
  | index i =>
    simp only [fragOK, decide_eq_true_eq] at hf
    have : ¬ i < 0 := by omega
    simp [streamedFrag, this]
  | wildcard => rfl
  | union ms =>
    simp only [fragOK] at hf
    simp only [streamedFrag, Frag.union.injEq, List.filter_eq_self]
    exact List.all_eq_true.mp hf
  | slice a b st =>
    simp only [fragOK, hs, if_true, Bool.and_eq_true, decide_eq_true_eq, Option.isNone_iff_eq_none] at hf
    obtain ⟨⟨ha, hb⟩, hst⟩ := hf
    subst ha hb hst
    rfl
  | descent => rfl
  | filter p => rfl

theorem asStreamed_ok (dv : Dev) (hs : dv.sliceAll = true) : ∀ (t : Target), okTarget dv t = true → asStreamed t = t
  | [], _ => rfl
  | f :: fs, h => by
    simp only [okTarget, Bool.and_eq_true] at h
    have hcons : asStreamed (f :: fs) = streamedFrag f :: asStreamed fs := rfl
    rw [hcons, streamedFrag_ok dv hs f h.1.1, asStreamed_ok dv hs fs h.1.2]

/-- the traversal for a filter-free target set lists the outermost locations the streamed readings
of the targets select -/
theorem found_streamed (dv : Dev) (hs : dv.sliceAll = true) (hd : dv.descentNoSelf = false)
    (targets : List Target) (doc : JV) (hdoc : NoDupKeys doc = true)
    (hnf : ∀ t ∈ targets, t.any isFilterFrag = false) :
    found dv (targets.map splitTarget) [] doc = expected (targets.map asStreamed) doc := by
  have hsplit : ∀ t ∈ targets, splitTarget t = ⟨t, none⟩ := fun t ht => splitTarget_nf t (hnf t ht)
  have := found_filter dv (targets.map splitTarget) doc (fun q => targets.any fun t => pathMatch dv t q)
    (selectedBy (targets.map asStreamed) doc) (pathMatchAny_nf dv targets hsplit) (checkRest_nf dv targets hsplit)
    (by
      intro q u hq
      have : ∀ t ∈ targets, pathMatch dv t q = (prefixesIncl q).any (selects (asStreamed t) doc) := by
        intro t ht
        rw [← pathMatch_streamed dv hs t]
        exact pathMatch_prefixes dv (asStreamed t) (okTarget_streamed dv hs hd t (hnf t ht)) doc q u hq
      rw [any_congr_mem _ _ _ this]
      simp only [prefixesIncl, List.any_append, List.any_cons, List.any_nil, Bool.or_false, selectedBy, any_or,
        List.any_map, Function.comp_def]
      rw [any_swap, Bool.or_comm]
      congr 1
      apply any_congr_mem
      intro b _
      simp [selectedBy, List.any_map, Function.comp_def])
    doc hdoc [] rfl (by simp [properPrefixes])
  rw [this]
  rfl

end OjgVerif.Match
