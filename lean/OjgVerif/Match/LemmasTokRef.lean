import OjgVerif.Match.LemmasTokEvents
/-! The tokenizer's event sequence over any table set that passes `TablesOK` (the regenerated oj
tables: `C01.ojTables_ok`) is the event sequence over the reference tables. -/
namespace OjgVerif.Match
open OjgVerif OjgVerif.Json

variable {T : Tables} (hT : TablesOK T) (cfg : Cfg)
include hT

theorem emit_eq_ref (s : Json.St) (b : UInt8) : emit T s b = emit refTables s b := by
  unfold emit tokenEv flushEv
  rw [act_eq_ref hT]
  cases hact : refTables.act s.mode b <;> simp only []
  case closeObject => rw [fin_eq_ref_of_close hT s b (Or.inl hact)]
  case closeArray => rw [fin_eq_ref_of_close hT s b (Or.inr hact)]

theorem evBytes_eq_ref (bs : Bytes) (s : Json.St) : evBytes T cfg s bs = evBytes refTables cfg s bs := by
  induction bs generalizing s with
  | nil => rfl
  | cons b r ih =>
    simp only [evBytes, emit_eq_ref hT, step_eq_ref hT]
    cases Json.step refTables cfg s b with
    | error e => rfl
    | ok s' => simp only [ih s']

theorem evChunks_eq_ref (cs : List Bytes) (s : Json.St) : evChunks T cfg s cs = evChunks refTables cfg s cs := by
  induction cs generalizing s with
  | nil => rfl
  | cons c r ih =>
    simp only [evChunks, evBytes_eq_ref hT, runBytes_eq_ref hT]
    cases runBytes refTables cfg s c with
    | error e => rfl
    | ok s' => simp only [ih]

theorem finishEv_eq_ref (s : Json.St) (hi : CtlInv s) : finishEv T s = finishEv refTables s := by
  unfold finishEv flushEv
  by_cases hm : s.mode = .comma
  · have := hi.comma hm
    have he : s.starts.isEmpty = false := by
      cases hs : s.starts with
      | nil => exact absurd hs this
      | cons _ _ => rfl
    simp [he]
  · rw [hT.fin _ hm]; rfl

theorem evAfterBom_eq_ref (cs : List Bytes) : evAfterBom T cfg cs = evAfterBom refTables cfg cs := by
  unfold evAfterBom
  rw [evChunks_eq_ref hT, runChunks_eq_ref hT]
  cases hr : runChunks refTables cfg {} cs with
  | error e => rfl
  | ok s => simp only [finishEv_eq_ref hT s (runChunks_ctl cfg _ _ s CtlInv.init hr)]

theorem tokEvents_eq_ref (chunks : List Bytes) : tokEventsIdeal T cfg chunks = tokEventsIdeal refTables cfg chunks := by
  unfold tokEventsIdeal
  simp only
  split
  · exact finishEv_eq_ref hT _ CtlInv.init
  · split
    · rfl
    · exact evAfterBom_eq_ref hT cfg _
    · exact evAfterBom_eq_ref hT cfg _

end OjgVerif.Match
