import OjgVerif.Match.Tokenizer
import OjgVerif.Match.Lemmas
import OjgVerif.Json.Wf
/-! The tree of a text AS WRITTEN (`raw`: every member in the order of the text, a repeated member
name kept) against the tree a parser builds (`dd raw`: a repeated name overwrites the earlier
member, `kvInsert`), and the token events of a partly built value (`openEv` of a raw build stack).
Used by `LemmasTokEvents.lean`. -/
namespace OjgVerif.Match
open OjgVerif OjgVerif.Json

mutual
  /-- what a parser that keeps the last of repeated member names builds from the tree as written -/
  def dd : JV → JV
    | .arr xs => .arr (ddList xs)
    | .obj kvs => .obj (ddKvs [] kvs)
    | .null => .null
    | .bool b => .bool b
    | .int i => .int i
    | .flt t => .flt t
    | .big t => .big t
    | .num t => .num t
    | .str s => .str s
  def ddList : List JV → List JV
    | [] => []
    | x :: r => dd x :: ddList r
  def ddKvs (acc : List (Bytes × JV)) : List (Bytes × JV) → List (Bytes × JV)
    | [] => acc
    | (k, v) :: r => ddKvs (kvInsert k (dd v) acc) r
end

theorem ddList_eq_map (xs : List JV) : ddList xs = xs.map dd := by
  induction xs with
  | nil => rfl
  | cons x r ih => simp [ddList, ih]

theorem ddKvs_append (acc a b : List (Bytes × JV)) : ddKvs acc (a ++ b) = ddKvs (ddKvs acc a) b := by
  induction a generalizing acc with
  | nil => rfl
  | cons kv r ih =>
    obtain ⟨k, v⟩ := kv
    simp only [List.cons_append, ddKvs]
    exact ih _

theorem ddKvs_eq_insertAll (acc kvs : List (Bytes × JV)) :
    ddKvs acc kvs = insertAll acc (kvs.map fun kv => (kv.1, dd kv.2)) := by
  induction kvs generalizing acc with
  | nil => rfl
  | cons kv r ih =>
    obtain ⟨k, v⟩ := kv
    simp only [ddKvs, ih, insertAll, List.map_cons, List.foldl_cons]

theorem keysDistinct_map (kvs : List (Bytes × JV)) (g : JV → JV) :
    keysDistinct (kvs.map fun kv => (kv.1, g kv.2)) = keysDistinct kvs := by
  induction kvs with
  | nil => rfl
  | cons kv r ih =>
    obtain ⟨k, v⟩ := kv
    simp [keysDistinct, ih, List.any_map, Function.comp_def]

mutual
  /-- a tree without repeated member names is built as written -/
  theorem dd_of_nodup : ∀ (v : JV), NoDupKeys v = true → dd v = v
    | .arr xs, h => by
      simp only [NoDupKeys] at h
      simp only [dd, ddList_eq_map]
      rw [ddMap_of_nodup xs h]
    | .obj kvs, h => by
      simp only [NoDupKeys, Bool.and_eq_true] at h
      simp only [dd, ddKvs_eq_insertAll]
      rw [ddKvsMap_of_nodup kvs h.2, insertAll_nil kvs h.1]
    | .null, _ => rfl
    | .bool _, _ => rfl
    | .int _, _ => rfl
    | .flt _, _ => rfl
    | .big _, _ => rfl
    | .num _, _ => rfl
    | .str _, _ => rfl
  theorem ddMap_of_nodup : ∀ (xs : List JV), NoDupKeysList xs = true → xs.map dd = xs
    | [], _ => rfl
    | x :: r, h => by
      simp only [NoDupKeysList, Bool.and_eq_true] at h
      simp [dd_of_nodup x h.1, ddMap_of_nodup r h.2]
  theorem ddKvsMap_of_nodup : ∀ (kvs : List (Bytes × JV)), NoDupKeysKvs kvs = true →
      (kvs.map fun kv => (kv.1, dd kv.2)) = kvs
    | [], _ => rfl
    | (k, v) :: r, h => by
      simp only [NoDupKeysKvs, Bool.and_eq_true] at h
      simp [dd_of_nodup v h.1, ddKvsMap_of_nodup r h.2]
end

theorem eventsKvs_append (a b : List (Bytes × JV)) : eventsKvs (a ++ b) = eventsKvs a ++ eventsKvs b := by
  induction a with
  | nil => rfl
  | cons kv r ih =>
    obtain ⟨k, v⟩ := kv
    simp [eventsKvs, ih]

theorem eventsList_append (a b : List JV) : eventsList (a ++ b) = eventsList a ++ eventsList b := by
  induction a with
  | nil => rfl
  | cons x r ih => simp [eventsList, ih]

/-! ## raw build stack -/

/-- a raw stack item to the item the machine holds -/
def ddItem : Item → Item
  | .val v => .val (dd v)
  | .key k => .key k
  | .arrMark => .arrMark
  | .obj kvs => .obj (ddKvs [] kvs)

/-- events handed over for one item of the build stack -/
def itemEv : Item → List Event
  | .val v => events v
  | .key k => [.key k]
  | .arrMark => [.arrStart]
  | .obj kvs => .objStart :: eventsKvs kvs

/-- events handed over so far for the value under construction (stack top first) -/
def openEv : List Item → List Event
  | [] => []
  | it :: below => openEv below ++ itemEv it

/-- `add` on the raw stack: a member is appended as written -/
def rawAdd (rv : JV) : List Item → List Item
  | .key k :: .obj rkvs :: rest => .obj (rkvs ++ [(k, rv)]) :: rest
  | st => .val rv :: st

theorem addItem_raw (rv : JV) (RS : List Item) (st2 : List Item)
    (h : addItem (dd rv) (RS.map ddItem) = .ok st2) : st2 = (rawAdd rv RS).map ddItem := by
  match RS with
  | [] => simp [addItem] at h; simp [rawAdd, ddItem, ← h]
  | [it] => cases it <;> simp [addItem, ddItem] at h <;> simp [rawAdd, ddItem, ← h]
  | it1 :: it2 :: rest =>
    cases it1 <;> cases it2 <;> simp [addItem, ddItem] at h <;>
      simp [rawAdd, ddItem, ← h, ddKvs_append, ddKvs]

theorem openEv_rawAdd (rv : JV) (RS : List Item) : openEv (rawAdd rv RS) = openEv RS ++ events rv := by
  match RS with
  | [] => simp [rawAdd, openEv, itemEv]
  | [it] => cases it <;> simp [rawAdd, openEv, itemEv]
  | it1 :: it2 :: rest =>
    cases it1 <;> cases it2 <;> simp [rawAdd, openEv, itemEv, eventsKvs_append, eventsKvs]

theorem rawAdd_nil (rv : JV) : rawAdd rv [] = [.val rv] := rfl

/-- the items above the innermost array mark, raw and built -/
theorem splitAtMark_raw (RS : List Item) (acc : List JV) :
    splitAtMark (RS.map ddItem) (acc.map dd) =
      (splitAtMark RS acc).map fun p => (p.1.map dd, p.2.map ddItem) := by
  induction RS generalizing acc with
  | nil => rfl
  | cons it r ih =>
    cases it with
    | arrMark => simp [splitAtMark, ddItem]
    | val v =>
      simp only [List.map_cons, ddItem, splitAtMark, Item.toJV]
      exact ih (v :: acc)
    | key k =>
      simp only [List.map_cons, ddItem, splitAtMark, Item.toJV]
      exact ih (.str k :: acc)
    | obj kvs =>
      simp only [List.map_cons, ddItem, splitAtMark, Item.toJV]
      have := ih (.obj kvs :: acc)
      simpa [dd] using this

/-- above the mark only values: the events of the open array and its elements -/
theorem splitAtMark_vals (vals : List Item) (below : List Item) (hv : ∀ it ∈ vals, it.isVal = true) (acc : List JV) :
    ∃ elems, splitAtMark (vals ++ .arrMark :: below) acc = some (elems ++ acc, below) ∧
      openEv (vals ++ .arrMark :: below) = openEv below ++ .arrStart :: eventsList elems := by
  induction vals generalizing acc with
  | nil => exact ⟨[], by simp [splitAtMark], by simp [openEv, itemEv, eventsList]⟩
  | cons x r ih =>
    have hx := hv x List.mem_cons_self
    cases x <;> simp [Item.isVal] at hx
    rename_i v
    obtain ⟨elems, h1, h2⟩ := ih (fun it hit => hv it (List.mem_cons_of_mem _ hit)) (v :: acc)
    refine ⟨elems ++ [v], ?_, ?_⟩
    · simp only [List.cons_append, splitAtMark, Item.toJV, h1]
      simp
    · simp only [List.cons_append, openEv, h2, itemEv, eventsList_append, eventsList]
      simp

end OjgVerif.Match
