import OjgVerif.Match.Model
/-! The targets on which a matcher `dv` is claimed (and proved, Props/C17.lean) to agree with the
specification. The driver answers `ok <dev> <target>` with `okTarget`, so that the harness decides
"known deviation" with the very predicate of the theorem. -/
namespace OjgVerif.Match
open OjgVerif

def isDescent : Frag → Bool
  | .descent => true
  | _ => false

def memOK : UMem → Bool
  | .name _ => true
  | .index i => decide (0 ≤ i)

/-- fragments on which the matcher `dv` is claimed to agree with the specification -/
def fragOK (dv : Dev) : Frag → Bool
  | .child _ => true
  | .index i => decide (0 ≤ i)                 -- not counted from the end
  | .wildcard => true
  | .union ms => ms.all memOK                  -- no member counted from the end
  | .slice a b st =>
    if dv.sliceAll then                        -- every index matches: right for `[:]` only
      decide (a = 0) && b.isNone && decide (st = 1)
    else                                       -- bounds applied: bounds from the start, forward step
      decide (0 ≤ a) && decide (0 < st) &&
        (match b with
          | none => true
          | some e => decide (0 ≤ e))
  | .descent => true
  | .filter _ => false

/-- every fragment is `fragOK`, and the target does not END in a descent unless the matcher lets a
descent match the node itself -/
def okTarget (dv : Dev) : Target → Bool
  | [] => true
  | f :: fs => fragOK dv f && okTarget dv fs && !(dv.descentNoSelf && isDescent f && fs.isEmpty)

def isFilterFrag : Frag → Bool
  | .filter _ => true
  | _ => false

/-- What a fragment means to a matcher that compares a from-the-end index with the path's
non-negative index and lets a slice match every index (`Dev.sliceAll`): a negative index selects
nothing (the empty union), negative union members drop out, a slice is `[:]`. The identity on
every fragment that is `fragOK`. -/
def streamedFrag : Frag → Frag
  | .index i => if i < 0 then .union [] else .index i
  | .union ms => .union (ms.filter memOK)
  | .slice _ _ _ => .slice 0 none 1
  | f => f

def asStreamed (t : Target) : Target := t.map streamedFrag

/-- the streamed reading of one kind of construct only (`idx`: from-the-end indexes and union
members, `sl`: slices); the driver uses it to tell WHICH recorded deviation explains a case.
`streamedFragWith true true = streamedFrag` (`streamedFragWith_both`). -/
def streamedFragWith (idx sl : Bool) : Frag → Frag
  | .index i => if idx && decide (i < 0) then .union [] else .index i
  | .union ms => if idx then .union (ms.filter memOK) else .union ms
  | .slice a b st => if sl then .slice 0 none 1 else .slice a b st
  | f => f

theorem streamedFragWith_both (f : Frag) : streamedFragWith true true f = streamedFrag f := by
  cases f <;> simp [streamedFragWith, streamedFrag]

def asStreamedWith (idx sl : Bool) (t : Target) : Target := t.map (streamedFragWith idx sl)

theorem asStreamedWith_both (t : Target) : asStreamedWith true true t = asStreamed t := by
  simp [asStreamedWith, asStreamed, funext streamedFragWith_both]

end OjgVerif.Match
