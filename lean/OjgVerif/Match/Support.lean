import OjgVerif.Match.Model
/-! The targets on which a matcher `dv` is claimed (and proved, Props/C17.lean) to agree with the
specification. The driver answers `ok <dev> <target>` with `okTarget`, so that the harness decides
"known deviation" with the very predicate of the theorem. -/
namespace OjgVerif.Match
open OjgVerif

def isDescent : Frag → Bool
  | .descent => true
  | _ => false

def memOK : UMem → Bool
  | .name _ => true
  | .index i => decide (0 ≤ i)

/-- fragments on which the matcher `dv` is claimed to agree with the specification -/
def fragOK (dv : Dev) : Frag → Bool
  | .child _ => true
  | .index i => decide (0 ≤ i)                 -- not counted from the end
  | .wildcard => true
  | .union ms => ms.all memOK                  -- no member counted from the end
  | .slice a b st =>
    if dv.sliceAll then                        -- every index matches: right for `[:]` only
      decide (a = 0) && b.isNone && decide (st = 1)
    else                                       -- bounds applied: bounds from the start, forward step
      decide (0 ≤ a) && decide (0 < st) &&
        (match b with
          | none => true
          | some e => decide (0 ≤ e))
  | .descent => true
  | .filter _ => false

/-- every fragment is `fragOK`, and the target does not END in a descent unless the matcher lets a
descent match the node itself -/
def okTarget (dv : Dev) : Target → Bool
  | [] => true
  | f :: fs => fragOK dv f && okTarget dv fs && !(dv.descentNoSelf && isDescent f && fs.isEmpty)

def isFilterFrag : Frag → Bool
  | .filter _ => true
  | _ => false

/-- What a fragment means to a matcher that compares a from-the-end index with the path's
non-negative index and lets a slice match every index (`Dev.sliceAll`): a negative index selects
nothing (the empty union), negative union members drop out, a slice is `[:]`. The identity on
every fragment that is `fragOK`. -/
def streamedFrag : Frag → Frag
  | .index i => if i < 0 then .union [] else .index i
  | .union ms => .union (ms.filter memOK)
  | .slice _ _ _ => .slice 0 none 1
  | f => f

def asStreamed (t : Target) : Target := t.map streamedFrag

end OjgVerif.Match
