import OjgVerif.Match.Model
/-! The targets on which a matcher `dv` is claimed (and proved, Props/C17.lean) to agree with the
specification. The driver answers `ok <dev> <target>` with `okTarget`, so that the harness decides
"known deviation" with the very predicate of the theorem. -/
namespace OjgVerif.Match
open OjgVerif

def isDescent : Frag → Bool
  | .descent => true
  | _ => false

def memOK : UMem → Bool
  | .name _ => true
  | .index i => decide (0 ≤ i)

/-- fragments on which the matcher `dv` is claimed to agree with the specification -/
def fragOK (dv : Dev) : Frag → Bool
  | .child _ => true
  | .index i => decide (0 ≤ i)                 -- not counted from the end
  | .wildcard => true
  | .union ms => ms.all memOK                  -- no member counted from the end
  | .slice a b st =>                           -- only once the bounds are applied, and then
    !dv.sliceAll && decide (0 ≤ a) && decide (0 < st) &&   -- bounds from the start, forward step
      (match b with
        | none => true
        | some e => decide (0 ≤ e))
  | .descent => true
  | .filter _ => false

/-- every fragment is `fragOK`, and the target does not END in a descent unless the matcher lets a
descent match the node itself -/
def okTarget (dv : Dev) : Target → Bool
  | [] => true
  | f :: fs => fragOK dv f && okTarget dv fs && !(dv.descentNoSelf && isDescent f && fs.isEmpty)

end OjgVerif.Match
