import OjgVerif.Match.LemmasSel
import OjgVerif.Match.LemmasSpec
/-! Target sets WITH filter targets. The handler collects the outermost containers that the
pre-filter parts of the targets select and hands each to `checkRest`; a leaf is reported only for a
target without a filter. `found_report` states this on the specification's terms: the callbacks are
the reports (`rep`) of the outermost locations the STRIPPED targets select, in document order. -/
namespace OjgVerif.Match
open OjgVerif
set_option linter.unusedSectionVars false

def isLeafJV : JV → Bool
  | .arr _ => false
  | .obj _ => false
  | _ => true

theorem found_of_leaf (dv : Dev) (trs : List TargetRest) (p : NPath) (v : JV) (h : isLeafJV v = true) :
    found dv trs p v = foundLeaf dv trs p v := by
  cases v <;> simp [isLeafJV] at h <;> rfl

theorem locs_of_leaf (p : NPath) (v : JV) (h : isLeafJV v = true) : locs p v = [(p, v)] := by
  cases v <;> simp [isLeafJV] at h <;> rfl

section
variable (dv : Dev) (trs : List TargetRest) (doc : JV) (M Ml S Sl : NPath → Bool)
variable (hM : ∀ q, pathMatchAny dv trs q false = M q)
variable (hMl : ∀ q, pathMatchAny dv trs q true = Ml q)
variable (hrel : ∀ q u, nav doc q = some u → M q = (S q || (properPrefixes q).any S))
variable (hleaf : ∀ q u, nav doc q = some u → (properPrefixes q).any S = false → Ml q = Sl q)
variable (hsub : ∀ q, Sl q = true → S q = true)

/-- what the handler reports for an outermost collected location -/
def rep (pv : NPath × JV) : List (NPath × JV) :=
  if isLeafJV pv.2 then (if Sl pv.1 then [pv] else []) else checkRest dv trs pv.1 pv.2

include hM hMl hrel hleaf hsub

theorem found_leaf_rep (v : JV) (hv : isLeafJV v = true) (p : NPath) (hp : nav doc p = some v)
    (hpre : (properPrefixes p).any S = false) :
    foundLeaf dv trs p v = ([(p, v)].filter (outermost S)).flatMap (rep dv trs Sl) := by
  have h1 := hleaf p v hp hpre
  simp only [foundLeaf, hMl, h1, List.filter_cons, List.filter_nil, outermost, hpre, Bool.not_false, Bool.and_true]
  by_cases hs : Sl p = true
  · simp [hs, hsub p hs, rep, hv]
  · have hs' : Sl p = false := by simpa using hs
    by_cases hS : S p = true
    · simp [hs', hS, rep, hv]
    · simp [hs', hS]

mutual
  theorem found_report : ∀ (v : JV), NoDupKeys v = true → ∀ (p : NPath), nav doc p = some v →
      (properPrefixes p).any S = false →
      found dv trs p v = ((locs p v).filter (outermost S)).flatMap (rep dv trs Sl)
    | .arr xs, hv, p, hp, hpre => by
      simp only [NoDupKeys] at hv
      have hMp := hrel p _ hp
      simp only [hpre, Bool.or_false] at hMp
      simp only [found, hM, hMp, locs, List.filter_cons, outermost, hpre, Bool.not_false, Bool.and_true]
      by_cases hS : S p = true
      · simp [hS, filter_below_none S p _ hS (locsList_below xs p 0), rep, isLeafJV]
      · have hS' : S p = false := by simpa using hS
        simp only [hS', Bool.false_eq_true, if_false]
        exact foundList_report xs hv p 0 (by
          intro j x hx
          simp [nav_snoc, hp, child?, hx]) hpre hS'
    | .obj kvs, hv, p, hp, hpre => by
      simp only [NoDupKeys, Bool.and_eq_true] at hv
      have hMp := hrel p _ hp
      simp only [hpre, Bool.or_false] at hMp
      simp only [found, hM, hMp, locs, List.filter_cons, outermost, hpre, Bool.not_false, Bool.and_true]
      by_cases hS : S p = true
      · simp [hS, filter_below_none S p _ hS (locsKvs_below kvs p), rep, isLeafJV]
      · have hS' : S p = false := by simpa using hS
        simp only [hS', Bool.false_eq_true, if_false]
        exact foundKvs_report kvs hv.2 p (by
          intro k v hkv
          simp [nav_snoc, hp, child?, lookupKey_mem kvs hv.1 k v hkv]) hpre hS'
    | .null, _, p, hp, hpre => by
      rw [found_of_leaf _ _ _ _ rfl, locs_of_leaf _ _ rfl]
      exact found_leaf_rep dv trs doc M Ml S Sl hM hMl hrel hleaf hsub _ rfl p hp hpre
    | .bool _, _, p, hp, hpre => by
      rw [found_of_leaf _ _ _ _ rfl, locs_of_leaf _ _ rfl]
      exact found_leaf_rep dv trs doc M Ml S Sl hM hMl hrel hleaf hsub _ rfl p hp hpre
    | .int _, _, p, hp, hpre => by
      rw [found_of_leaf _ _ _ _ rfl, locs_of_leaf _ _ rfl]
      exact found_leaf_rep dv trs doc M Ml S Sl hM hMl hrel hleaf hsub _ rfl p hp hpre
    | .flt _, _, p, hp, hpre => by
      rw [found_of_leaf _ _ _ _ rfl, locs_of_leaf _ _ rfl]
      exact found_leaf_rep dv trs doc M Ml S Sl hM hMl hrel hleaf hsub _ rfl p hp hpre
    | .big _, _, p, hp, hpre => by
      rw [found_of_leaf _ _ _ _ rfl, locs_of_leaf _ _ rfl]
      exact found_leaf_rep dv trs doc M Ml S Sl hM hMl hrel hleaf hsub _ rfl p hp hpre
    | .num _, _, p, hp, hpre => by
      rw [found_of_leaf _ _ _ _ rfl, locs_of_leaf _ _ rfl]
      exact found_leaf_rep dv trs doc M Ml S Sl hM hMl hrel hleaf hsub _ rfl p hp hpre
    | .str _, _, p, hp, hpre => by
      rw [found_of_leaf _ _ _ _ rfl, locs_of_leaf _ _ rfl]
      exact found_leaf_rep dv trs doc M Ml S Sl hM hMl hrel hleaf hsub _ rfl p hp hpre
  theorem foundList_report : ∀ (ys : List JV), NoDupKeysList ys = true → ∀ (p : NPath) (i : Nat),
      (∀ j x, ys[j]? = some x → nav doc (p ++ [.idx (i + j)]) = some x) →
      (properPrefixes p).any S = false → S p = false →
      foundList dv trs p i ys = ((locsList p i ys).filter (outermost S)).flatMap (rep dv trs Sl)
    | [], _, _, _, _, _, _ => by simp [foundList, locsList]
    | x :: r, hv, p, i, hsub', hpre, hS => by
      simp only [NoDupKeysList, Bool.and_eq_true] at hv
      simp only [foundList, locsList, List.filter_append, List.flatMap_append]
      have h1 := found_report x hv.1 (p ++ [Seg.idx i]) (by simpa using hsub' 0 x rfl)
            (by simp [properPrefixes_snoc, hpre, hS])
      have h2 := foundList_report r hv.2 p (i + 1) (by
            intro j y hy
            have := hsub' (j + 1) y (by simpa using hy)
            simpa [Nat.add_assoc, Nat.add_comm 1] using this) hpre hS
      rw [h1, h2]
  theorem foundKvs_report : ∀ (kvs : List (Bytes × JV)), NoDupKeysKvs kvs = true → ∀ (p : NPath),
      (∀ k v, (k, v) ∈ kvs → nav doc (p ++ [.key k]) = some v) →
      (properPrefixes p).any S = false → S p = false →
      foundKvs dv trs p kvs = ((locsKvs p kvs).filter (outermost S)).flatMap (rep dv trs Sl)
    | [], _, _, _, _, _ => by simp [foundKvs, locsKvs]
    | (k, v) :: r, hv, p, hsub', hpre, hS => by
      simp only [NoDupKeysKvs, Bool.and_eq_true] at hv
      simp only [foundKvs, locsKvs, List.filter_append, List.flatMap_append]
      have h1 := found_report v hv.1 (p ++ [Seg.key k]) (hsub' k v (by simp))
            (by simp [properPrefixes_snoc, hpre, hS])
      have h2 := foundKvs_report r hv.2 p (fun k' v' h' => hsub' k' v' (by simp [h'])) hpre hS
      rw [h1, h2]
end
end

end OjgVerif.Match

namespace OjgVerif.Match
open OjgVerif

/-- the part of a target in front of its (first) filter: what the handler matches paths against -/
def stripFilter (t : Target) : Target := (splitTarget t).target

/-- the target has a filter -/
def hasRest (t : Target) : Bool := (splitTarget t).rest.isSome

theorem splitTarget_rest_none : ∀ (t : Target), (splitTarget t).rest = none → (splitTarget t).target = t
  | [], _ => rfl
  | f :: fs, h => by
    cases f <;> simp [splitTarget] at h ⊢ <;> exact splitTarget_rest_none fs h

theorem stripFilter_of_noRest (t : Target) (h : hasRest t = false) : stripFilter t = t := by
  apply splitTarget_rest_none
  simpa [hasRest] using h

/-- at a location none of whose proper prefixes is selected, `PathMatch` of a supported target is
"the target selects this location" -/
theorem pathMatch_outermost (dv : Dev) (t : Target) (ht : okTarget dv t = true) (doc : JV) (q : NPath) (u : JV)
    (hq : nav doc q = some u) (hpre : (properPrefixes q).any (selects t doc) = false) :
    pathMatch dv t q = selects t doc q := by
  rw [pathMatch_prefixes dv t ht doc q u hq]
  simp [prefixesIncl, hpre]

theorem any_false_of_selectedBy {targets : List Target} {doc : JV} {l : List NPath}
    (h : l.any (selectedBy targets doc) = false) (t : Target) (ht : t ∈ targets) :
    l.any (selects t doc) = false := by
  simp only [List.any_eq_false, selectedBy] at h ⊢
  intro x hx hsel
  exact h x hx (by simp only [List.any_eq_true]; exact ⟨t, ht, hsel⟩)

section
variable (dv : Dev) (targets : List Target) (doc : JV)
variable (hok : ∀ t ∈ targets, okTarget dv (stripFilter t) = true)

/-- the targets without a filter -/
def plainTargets (targets : List Target) : List Target := targets.filter fun t => !hasRest t

/-- what the handler reports at an outermost location `pv` that the stripped targets select, on the
specification's terms: a leaf only if a target WITHOUT a filter selects it; a container as it is if
the FIRST target (in the order given) whose stripped part selects it has no filter; otherwise what
`checkRest` makes of that target's filter — under `filterFirstOnly` ONE callback with the path of
the LAST accepted element and the value of the FIRST accepted element (none if nothing is accepted),
with the flag off every accepted element in order. -/
def reportAt (pv : NPath × JV) : List (NPath × JV) :=
  if isLeafJV pv.2 then (if selectedBy (plainTargets targets) doc pv.1 then [pv] else [])
  else
    match targets.find? fun t => selects (stripFilter t) doc pv.1 with
    | none => [pv]
    | some t =>
      match (splitTarget t).rest with
      | none => [pv]
      | some p =>
        if dv.filterFirstOnly then
          match filterLocs p pv.2 with
          | [] => []
          | s :: _ => [(pv.1 ++ [s], (filterFirst p pv.2).getD .null)]
        else filterAll p pv.1 pv.2

theorem flatMap_congr_mem {α β : Type} (l : List α) (f g : α → List β) (h : ∀ a ∈ l, f a = g a) :
    l.flatMap f = l.flatMap g := by
  induction l with
  | nil => rfl
  | cons a r ih =>
    simp only [List.flatMap_cons, h a List.mem_cons_self, ih (fun b hb => h b (List.mem_cons_of_mem _ hb))]

theorem find?_map_congr {α β : Type} (l : List α) (g : α → β) (P : β → Bool) (Q : α → Bool)
    (h : ∀ a ∈ l, P (g a) = Q a) : (l.map g).find? P = (l.find? Q).map g := by
  induction l with
  | nil => rfl
  | cons a r ih =>
    have ha := h a List.mem_cons_self
    simp only [List.map_cons, List.find?_cons, ha]
    cases Q a
    · exact ih (fun b hb => h b (List.mem_cons_of_mem _ hb))
    · rfl

include hok

theorem checkRest_outermost (q : NPath) (u : JV) (hq : nav doc q = some u) (hl : isLeafJV u = false)
    (hpre : (properPrefixes q).any (selectedBy (targets.map stripFilter) doc) = false) :
    checkRest dv (targets.map splitTarget) q u = reportAt dv targets doc (q, u) := by
  unfold checkRest reportAt
  simp only [hl, Bool.false_eq_true, if_false]
  have hfind : (targets.map splitTarget).find? (fun tr => pathMatch dv tr.target q) =
      (targets.find? fun t => selects (stripFilter t) doc q).map splitTarget := by
    apply find?_map_congr
    intro t ht
    exact pathMatch_outermost dv (stripFilter t) (hok t ht) doc q u hq
      (any_false_of_selectedBy hpre (stripFilter t) (List.mem_map.mpr ⟨t, ht, rfl⟩))
  rw [hfind]
  cases targets.find? fun t => selects (stripFilter t) doc q with
  | none => rfl
  | some t => rfl

/-- **Target sets with filter targets: the callbacks on the specification's terms.** For every
setting of the deviations, every document and every target set whose targets are supported up to
their (trailing) filter: the callbacks are, in document order, the reports (`reportAt`) of the
OUTERMOST locations that the targets WITHOUT their filters select. -/
theorem found_reportAt (hdoc : NoDupKeys doc = true) :
    found dv (targets.map splitTarget) [] doc =
      (expected (targets.map stripFilter) doc).flatMap (reportAt dv targets doc) := by
  have hMgen : ∀ (q : NPath) (leaf : Bool), pathMatchAny dv (targets.map splitTarget) q leaf =
      targets.any fun t => pathMatch dv (stripFilter t) q && (!leaf || !hasRest t) := by
    intro q leaf
    simp only [pathMatchAny, List.any_map, Function.comp_def, stripFilter, hasRest]
    apply any_congr_mem
    intro t _
    cases (splitTarget t).rest <;> simp
  have hpm : ∀ t ∈ targets, ∀ q u, nav doc q = some u →
      pathMatch dv (stripFilter t) q = (prefixesIncl q).any (selects (stripFilter t) doc) :=
    fun t ht q u hq => pathMatch_prefixes dv (stripFilter t) (hok t ht) doc q u hq
  have hmain := found_report dv (targets.map splitTarget) doc
    (fun q => targets.any fun t => pathMatch dv (stripFilter t) q)
    (fun q => targets.any fun t => pathMatch dv (stripFilter t) q && !hasRest t)
    (selectedBy (targets.map stripFilter) doc)
    (selectedBy (plainTargets targets) doc)
    (by intro q; rw [hMgen]; simp)
    (by intro q; rw [hMgen]; simp)
    (by
      intro q u hq
      rw [any_congr_mem _ _ _ (fun t ht => hpm t ht q u hq)]
      simp only [prefixesIncl, List.any_append, List.any_cons, List.any_nil, Bool.or_false, selectedBy, any_or,
        List.any_map, Function.comp_def]
      rw [any_swap, Bool.or_comm]
      congr 1
      apply any_congr_mem
      intro b _
      simp [selectedBy, List.any_map, Function.comp_def])
    (by
      intro q u hq hpre
      simp only [selectedBy, plainTargets, List.any_filter]
      apply any_congr_mem
      intro t ht
      cases hr : hasRest t
      · have hs := stripFilter_of_noRest t hr
        have := pathMatch_outermost dv (stripFilter t) (hok t ht) doc q u hq
          (any_false_of_selectedBy hpre (stripFilter t) (List.mem_map.mpr ⟨t, ht, rfl⟩))
        rw [hs] at this
        simp [hs, this]
      · simp)
    (by
      intro q hq
      simp only [selectedBy, plainTargets, List.any_filter, List.any_eq_true, Bool.and_eq_true,
        Bool.not_eq_true', List.any_map, Function.comp_def] at hq ⊢
      obtain ⟨t, ht, hr, hs⟩ := hq
      exact ⟨t, ht, by rw [stripFilter_of_noRest t hr]; exact hs⟩)
    doc hdoc [] rfl (by simp [properPrefixes])
  rw [hmain]
  -- on the outermost selected locations `rep` is `reportAt`
  have hexp : (locs [] doc).filter (outermost (selectedBy (targets.map stripFilter) doc)) =
      expected (targets.map stripFilter) doc := rfl
  rw [hexp]
  apply flatMap_congr_mem
  intro pv hpv
  obtain ⟨q, u⟩ := pv
  have hmem := (mem_expected_iff (targets.map stripFilter) doc hdoc q u).mp hpv
  have hpre : (properPrefixes q).any (selectedBy (targets.map stripFilter) doc) = false := by
    simp only [List.any_eq_false]
    intro x hx
    simpa using hmem.2.2 x hx
  unfold rep
  cases hl : isLeafJV u
  · simp only [Bool.false_eq_true, if_false]
    exact checkRest_outermost dv targets doc hok q u hmem.1 hl hpre
  · simp only [if_true, reportAt, hl]
end

end OjgVerif.Match
