import OjgVerif.Match.Spec
/-! An executable check on an event sequence for "no object repeats a member name"
(`noRepeat`), and its meaning on the events of trees: `noRepeat_events`. -/
namespace OjgVerif.Match
open OjgVerif

/-- the names seen so far in each open object (innermost first); `none`: a name was repeated (or the
sequence is not balanced) -/
def keyStep : Option (List (List Bytes)) → Event → Option (List (List Bytes))
  | none, _ => none
  | some st, .objStart => some ([] :: st)
  | some (ks :: st), .key k => if ks.contains k then none else some ((k :: ks) :: st)
  | some [], .key _ => none
  | some (_ :: st), .objEnd => some st
  | some [], .objEnd => none
  | some st, .arrStart => some st
  | some st, .arrEnd => some st
  | some st, .leaf _ => some st

/-- no object of the event sequence repeats a member name -/
def noRepeat (evs : List Event) : Bool := (evs.foldl keyStep (some [])).isSome

theorem foldl_keyStep_none (evs : List Event) : evs.foldl keyStep none = none := by
  induction evs with
  | nil => rfl
  | cons e r ih => simpa [List.foldl_cons, keyStep] using ih

/-- the names of `kvs` are pairwise different and none is in `ks` -/
def freshKeys (ks : List Bytes) : List (Bytes × JV) → Bool
  | [] => true
  | (k, _) :: r => !ks.contains k && freshKeys (k :: ks) r

theorem all_not_contains_cons (k : Bytes) (ks : List Bytes) : ∀ (r : List (Bytes × JV)),
    (r.all fun kv => !(k :: ks).contains kv.1) =
      ((!r.any fun kv => kv.1 == k) && r.all fun kv => !ks.contains kv.1)
  | [] => rfl
  | a :: t => by
    simp only [List.all_cons, List.any_cons]
    rw [all_not_contains_cons k ks t]
    simp only [List.contains_cons, Bool.not_or]
    generalize (a.1 == k) = b1
    generalize ks.contains a.1 = b2
    generalize (t.any fun kv => kv.1 == k) = b3
    generalize (t.all fun kv => !ks.contains kv.1) = b4
    cases b1 <;> cases b2 <;> cases b3 <;> cases b4 <;> rfl

theorem freshKeys_nil_eq : ∀ (kvs : List (Bytes × JV)) (ks : List Bytes),
    freshKeys ks kvs = (keysDistinct kvs && kvs.all fun kv => !ks.contains kv.1)
  | [], _ => rfl
  | (k, v) :: r, ks => by
    simp only [freshKeys, keysDistinct, freshKeys_nil_eq r (k :: ks), List.all_cons]
    rw [all_not_contains_cons k ks r]
    generalize ks.contains k = b1
    generalize (r.any fun kv => kv.1 == k) = b2
    generalize keysDistinct r = b3
    generalize (r.all fun kv => !ks.contains kv.1) = b4
    cases b1 <;> cases b2 <;> cases b3 <;> cases b4 <;> rfl

mutual
  theorem foldl_events : ∀ (v : JV) (st : List (List Bytes)),
      (events v).foldl keyStep (some st) = if NoDupKeys v then some st else none
    | .arr xs, st => by
      simp only [events, List.foldl_cons, keyStep, List.foldl_append, List.foldl_nil, NoDupKeys]
      rw [foldl_eventsList xs st]
      by_cases h : NoDupKeysList xs = true
      · simp [h, keyStep]
      · simp [h, keyStep]
    | .obj kvs, st => by
      simp only [events, List.foldl_cons, keyStep, List.foldl_append, List.foldl_nil, NoDupKeys]
      rw [foldl_eventsKvs kvs [] st, freshKeys_nil_eq]
      by_cases h1 : keysDistinct kvs = true <;> by_cases h2 : NoDupKeysKvs kvs = true <;> simp [h1, h2, keyStep]
    | .null, st => rfl
    | .bool _, st => rfl
    | .int _, st => rfl
    | .flt _, st => rfl
    | .big _, st => rfl
    | .num _, st => rfl
    | .str _, st => rfl
  theorem foldl_eventsList : ∀ (xs : List JV) (st : List (List Bytes)),
      (eventsList xs).foldl keyStep (some st) = if NoDupKeysList xs then some st else none
    | [], st => rfl
    | x :: r, st => by
      simp only [eventsList, List.foldl_append, NoDupKeysList]
      rw [foldl_events x st]
      by_cases h : NoDupKeys x = true
      · simp [h, foldl_eventsList r st]
      · simp [h, foldl_keyStep_none]
  theorem foldl_eventsKvs : ∀ (kvs : List (Bytes × JV)) (ks : List Bytes) (st : List (List Bytes)),
      (eventsKvs kvs).foldl keyStep (some (ks :: st)) =
        if freshKeys ks kvs && NoDupKeysKvs kvs then some (((kvs.map (·.1)).reverse ++ ks) :: st) else none
    | [], ks, st => rfl
    | (k, v) :: r, ks, st => by
      simp only [eventsKvs, List.foldl_cons, keyStep, List.foldl_append, freshKeys, NoDupKeysKvs]
      by_cases hc : ks.contains k = true
      · simp only [hc, if_true, foldl_keyStep_none, Bool.not_true, Bool.false_and, Bool.false_eq_true, if_false]
      · simp only [hc, Bool.false_eq_true, if_false, Bool.not_false, Bool.true_and]
        rw [foldl_events v ((k :: ks) :: st)]
        by_cases hv : NoDupKeys v = true
        · simp only [hv, if_true, Bool.true_and]
          rw [foldl_eventsKvs r (k :: ks) st]
          simp
        · simp [hv, foldl_keyStep_none]
end

/-- **Meaning of the check**: on the events of a sequence of trees, `noRepeat` says that no object of
any of them repeats a member name. -/
theorem noRepeat_events (raws : List JV) : noRepeat (raws.flatMap events) = raws.all NoDupKeys := by
  unfold noRepeat
  induction raws with
  | nil => rfl
  | cons r rs ih =>
    simp only [List.flatMap_cons, List.foldl_append, List.all_cons]
    rw [foldl_events r []]
    cases NoDupKeys r
    · simp [foldl_keyStep_none]
    · simpa using ih

end OjgVerif.Match
