import OjgVerif.Match.Spec
/-! A tree is determined by its token events: `events` is injective, even as a prefix code
(`events_prefix`), so "the tree of a text as written" is well defined by the event sequence. -/
namespace OjgVerif.Match
open OjgVerif

/-- the first event of a value opens a container or is a leaf -/
theorem events_head (v : JV) : ∃ e r, events v = e :: r ∧ e ≠ .arrEnd ∧ e ≠ .objEnd ∧ ∀ k, e ≠ .key k := by
  cases v <;> simp [events]

mutual
  theorem events_prefix : ∀ (v w : JV) (t1 t2 : List Event), events v ++ t1 = events w ++ t2 → v = w ∧ t1 = t2
    | .arr xs, w, t1, t2, h => by
      cases w <;> simp [events] at h
      rename_i ys
      have := eventsList_prefix xs ys t1 t2 (by simpa using h)
      exact ⟨by rw [this.1], this.2⟩
    | .obj kvs, w, t1, t2, h => by
      cases w <;> simp [events] at h
      rename_i kvs'
      have := eventsKvs_prefix kvs kvs' t1 t2 (by simpa using h)
      exact ⟨by rw [this.1], this.2⟩
    | .null, w, t1, t2, h => by cases w <;> simp [events] at h ⊢ <;> exact h
    | .bool b, w, t1, t2, h => by cases w <;> simp [events] at h ⊢ <;> exact h
    | .int i, w, t1, t2, h => by cases w <;> simp [events] at h ⊢ <;> exact h
    | .flt t, w, t1, t2, h => by cases w <;> simp [events] at h ⊢ <;> exact h
    | .big t, w, t1, t2, h => by cases w <;> simp [events] at h ⊢ <;> exact h
    | .num t, w, t1, t2, h => by cases w <;> simp [events] at h ⊢ <;> exact h
    | .str s, w, t1, t2, h => by cases w <;> simp [events] at h ⊢ <;> exact h
  theorem eventsList_prefix : ∀ (xs ys : List JV) (t1 t2 : List Event),
      eventsList xs ++ .arrEnd :: t1 = eventsList ys ++ .arrEnd :: t2 → xs = ys ∧ t1 = t2
    | [], [], t1, t2, h => by simpa [eventsList] using h
    | [], y :: r, t1, t2, h => by
      obtain ⟨e, r', he, h1, _, _⟩ := events_head y
      simp [eventsList, he] at h
      exact absurd h.1.symm h1
    | x :: r, [], t1, t2, h => by
      obtain ⟨e, r', he, h1, _, _⟩ := events_head x
      simp [eventsList, he] at h
      exact absurd h.1 h1
    | x :: r, y :: r', t1, t2, h => by
      simp only [eventsList, List.append_assoc] at h
      obtain ⟨h1, h2⟩ := events_prefix x y _ _ h
      obtain ⟨h3, h4⟩ := eventsList_prefix r r' t1 t2 h2
      exact ⟨by rw [h1, h3], h4⟩
  theorem eventsKvs_prefix : ∀ (kvs kvs' : List (Bytes × JV)) (t1 t2 : List Event),
      eventsKvs kvs ++ .objEnd :: t1 = eventsKvs kvs' ++ .objEnd :: t2 → kvs = kvs' ∧ t1 = t2
    | [], [], t1, t2, h => by simpa [eventsKvs] using h
    | [], (k, v) :: r, t1, t2, h => by simp [eventsKvs] at h
    | (k, v) :: r, [], t1, t2, h => by simp [eventsKvs] at h
    | (k, v) :: r, (k', v') :: r', t1, t2, h => by
      simp only [eventsKvs, List.cons_append, List.append_assoc, List.cons.injEq, Event.key.injEq] at h
      obtain ⟨h1, h2⟩ := events_prefix v v' _ _ h.2
      obtain ⟨h3, h4⟩ := eventsKvs_prefix r r' t1 t2 h2
      exact ⟨by rw [h.1, h1, h3], h4⟩
end

/-- **`events` is injective** -/
theorem events_inj (v w : JV) (h : events v = events w) : v = w :=
  (events_prefix v w [] [] (by simpa using h)).1

/-- a sequence of documents is determined by its events -/
theorem flatMap_events_inj : ∀ (a b : List JV), a.flatMap events = b.flatMap events → a = b
  | [], [], _ => rfl
  | [], y :: r, h => by
    obtain ⟨e, r', he, _⟩ := events_head y
    simp [he] at h
  | x :: r, [], h => by
    obtain ⟨e, r', he, _⟩ := events_head x
    simp [he] at h
  | x :: r, y :: r', h => by
    simp only [List.flatMap_cons] at h
    obtain ⟨h1, h2⟩ := events_prefix x y _ _ h
    rw [h1, flatMap_events_inj r r' h2]

end OjgVerif.Match
