import OjgVerif.Match.Model
/-! The handler model as a function of the document: on the events of a tree the transducer does
what the recursive traversal `found` does — report a node when `PathMatch` accepts its path (going
through `checkRest`), otherwise look at its children. (`run_events`, for every target set, with the
deviations of the model included.) -/
namespace OjgVerif.Match
open OjgVerif

/-! ## small facts -/

theorem run_append (dv trs st) (a b : List Event) :
    run dv trs st (a ++ b) = run dv trs (run dv trs st a) b := by
  simp [run, List.foldl_append]

theorem run_cons (dv trs st) (e : Event) (r : List Event) :
    run dv trs st (e :: r) = run dv trs (step dv trs st e) r := rfl

theorem run_nil (dv trs st) : run dv trs st [] = st := rfl

theorem set_length_append (xs : List JV) (a b : JV) : (xs ++ [a]).set xs.length b = xs ++ [b] := by
  induction xs with
  | nil => rfl
  | cons x r ih => simp [ih]

theorem kvInsert_kvInsert (k : Bytes) (a b : JV) (kvs : List (Bytes × JV)) :
    kvInsert k b (kvInsert k a kvs) = kvInsert k b kvs := by
  induction kvs with
  | nil => simp [kvInsert]
  | cons kv r ih =>
    obtain ⟨k', v'⟩ := kv
    by_cases h : k' = k
    · simp [kvInsert, h]
    · simp [kvInsert, h, ih]

theorem kvInsert_fresh (k : Bytes) (v : JV) (kvs : List (Bytes × JV))
    (h : (kvs.any fun kv => kv.1 == k) = false) : kvInsert k v kvs = kvs ++ [(k, v)] := by
  induction kvs with
  | nil => rfl
  | cons kv r ih =>
    obtain ⟨k', v'⟩ := kv
    simp only [List.any_cons, Bool.or_eq_false_iff] at h
    have hk : ¬ k' = k := by simpa using h.1
    simp [kvInsert, hk, ih h.2]

/-- the members of an object arriving one by one -/
def insertAll (acc : List (Bytes × JV)) (kvs : List (Bytes × JV)) : List (Bytes × JV) :=
  kvs.foldl (fun a kv => kvInsert kv.1 kv.2 a) acc

theorem insertAll_distinct : ∀ (kvs acc : List (Bytes × JV)), keysDistinct kvs = true →
    (∀ kv ∈ kvs, (acc.any fun a => a.1 == kv.1) = false) → insertAll acc kvs = acc ++ kvs
  | [], acc, _, _ => by simp [insertAll]
  | (k, v) :: r, acc, hd, hacc => by
    simp only [keysDistinct, Bool.and_eq_true, Bool.not_eq_true'] at hd
    have h1 : kvInsert k v acc = acc ++ [(k, v)] := kvInsert_fresh k v acc (hacc (k, v) (by simp))
    have := insertAll_distinct r (acc ++ [(k, v)]) hd.2 (by
      intro kv hkv
      have ha := hacc kv (by simp [hkv])
      have hr : ¬ kv.1 = k := by
        have := hd.1
        simp only [List.any_eq_false] at this
        simpa using this kv hkv
      simp only [List.any_append, ha, List.any_cons, List.any_nil, Bool.or_false, Bool.false_or]
      simpa using fun h => hr h.symm)
    simp only [insertAll, List.foldl_cons] at this ⊢
    rw [h1, this]
    simp

theorem insertAll_nil (kvs : List (Bytes × JV)) (h : keysDistinct kvs = true) : insertAll [] kvs = kvs := by
  simpa using insertAll_distinct kvs [] h (by simp)

/-! ## collecting a matched element -/

/-- the top of the stack and the last path element belong together -/
def Fits : JV → List Seg → Prop
  | .arr xs, .idx i :: _ => i = xs.length
  | .obj _, .key _ :: _ => True
  | _, _ => False

theorem setInTop_addToTop (top : JV) (rp : List Seg) (a b : JV) (h : Fits top rp) :
    setInTop (addToTop top rp.head? a) rp.head? b = addToTop top rp.head? b := by
  match top, rp, h with
  | .arr xs, .idx i :: _, h =>
    simp only [Fits] at h
    subst h
    simp [addToTop, setInTop]
  | .obj kvs, .key k :: _, _ => simp [addToTop, setInTop, kvInsert_kvInsert]

theorem leaf_collect (dv trs) (v : JV) (rp : List Seg) (top : JV) (rest : List JV) (out) :
    run dv trs ⟨rp, top :: rest, out⟩ [.leaf v] = ⟨incNth rp, addToTop top rp.head? v :: rest, out⟩ := by
  simp [run, step, addValue]

mutual
  /-- while an element is collected (`Stack` not empty) the events of a value add the value to the
  container on top and advance the index; nothing is reported -/
  theorem collect_val (dv trs) : ∀ (v : JV), NoDupKeys v = true →
      ∀ (rp : List Seg) (top : JV) (rest : List JV) (out : List (NPath × JV)), Fits top rp →
      run dv trs ⟨rp, top :: rest, out⟩ (events v) = ⟨incNth rp, addToTop top rp.head? v :: rest, out⟩
    | .arr xs, hv, rp, top, rest, out, hf => by
      simp only [NoDupKeys] at hv
      simp only [events, run_cons, run_append, run_nil]
      have h0 : step dv trs ⟨rp, top :: rest, out⟩ .arrStart
          = ⟨.idx ([] : List JV).length :: rp, .arr [] :: addToTop top rp.head? (.arr []) :: rest, out⟩ := by
        simp [step, startContainer]
      rw [h0, collect_list dv trs xs hv [] rp _ out]
      simp [step, endContainer, setInTop_addToTop top rp _ _ hf]
    | .obj kvs, hv, rp, top, rest, out, hf => by
      simp only [NoDupKeys, Bool.and_eq_true] at hv
      simp only [events, run_cons, run_append, run_nil]
      have h0 : step dv trs ⟨rp, top :: rest, out⟩ .objStart
          = ⟨.key [] :: rp, .obj [] :: addToTop top rp.head? (.obj []) :: rest, out⟩ := by
        simp [step, startContainer]
      obtain ⟨k1, h1⟩ := collect_kvs dv trs kvs hv.2 [] [] rp (addToTop top rp.head? (.obj []) :: rest) out
      rw [h0, h1, insertAll_nil kvs hv.1]
      simp [step, endContainer, setInTop_addToTop top rp _ _ hf]
    | .null, _, rp, top, rest, out, _ => by simp only [events]; exact leaf_collect ..
    | .bool _, _, rp, top, rest, out, _ => by simp only [events]; exact leaf_collect ..
    | .int _, _, rp, top, rest, out, _ => by simp only [events]; exact leaf_collect ..
    | .flt _, _, rp, top, rest, out, _ => by simp only [events]; exact leaf_collect ..
    | .big _, _, rp, top, rest, out, _ => by simp only [events]; exact leaf_collect ..
    | .num _, _, rp, top, rest, out, _ => by simp only [events]; exact leaf_collect ..
    | .str _, _, rp, top, rest, out, _ => by simp only [events]; exact leaf_collect ..
  theorem collect_list (dv trs) : ∀ (ys : List JV), NoDupKeysList ys = true →
      ∀ (acc : List JV) (rp : List Seg) (stk : List JV) (out : List (NPath × JV)),
      run dv trs ⟨.idx acc.length :: rp, .arr acc :: stk, out⟩ (eventsList ys)
        = ⟨.idx (acc ++ ys).length :: rp, .arr (acc ++ ys) :: stk, out⟩
    | [], _, acc, rp, stk, out => by simp [eventsList, run_nil]
    | x :: r, hv, acc, rp, stk, out => by
      simp only [NoDupKeysList, Bool.and_eq_true] at hv
      simp only [eventsList, run_append]
      rw [collect_val dv trs x hv.1 _ (.arr acc) stk out (by simp [Fits])]
      have := collect_list dv trs r hv.2 (acc ++ [x]) rp stk out
      simp only [List.length_append, List.length_cons, List.length_nil, List.append_assoc,
        List.cons_append, List.nil_append] at this
      simpa [incNth, addToTop] using this
  theorem collect_kvs (dv trs) : ∀ (kvs : List (Bytes × JV)), NoDupKeysKvs kvs = true →
      ∀ (acc : List (Bytes × JV)) (k0 : Bytes) (rp : List Seg) (stk : List JV) (out : List (NPath × JV)),
      ∃ k1, run dv trs ⟨.key k0 :: rp, .obj acc :: stk, out⟩ (eventsKvs kvs)
        = ⟨.key k1 :: rp, .obj (insertAll acc kvs) :: stk, out⟩
    | [], _, acc, k0, rp, stk, out => ⟨k0, by simp [eventsKvs, run_nil, insertAll]⟩
    | (k, v) :: r, hv, acc, k0, rp, stk, out => by
      simp only [NoDupKeysKvs, Bool.and_eq_true] at hv
      simp only [eventsKvs, run_cons, run_append]
      have h0 : step dv trs ⟨.key k0 :: rp, .obj acc :: stk, out⟩ (.key k) = ⟨.key k :: rp, .obj acc :: stk, out⟩ := by
        simp [step, setKey]
      rw [h0, collect_val dv trs v hv.1 _ (.obj acc) stk out (by simp [Fits])]
      obtain ⟨k1, h1⟩ := collect_kvs dv trs r hv.2 (kvInsert k v acc) k rp stk out
      refine ⟨k1, ?_⟩
      simpa [incNth, addToTop, insertAll] using h1
end

/-! ## looking for matches -/

/-- a leaf at path `p` -/
def foundLeaf (dv : Dev) (trs : List TargetRest) (p : NPath) (v : JV) : List (NPath × JV) :=
  if pathMatchAny dv trs p true then [(p, v)] else []

mutual
  /-- the callbacks for the subtree `v` at path `p`: top-down, stopping at the first match -/
  def found (dv : Dev) (trs : List TargetRest) (p : NPath) : JV → List (NPath × JV)
    | .arr xs =>
      if pathMatchAny dv trs p false then checkRest dv trs p (.arr xs)
      else foundList dv trs p 0 xs
    | .obj kvs =>
      if pathMatchAny dv trs p false then checkRest dv trs p (.obj kvs)
      else foundKvs dv trs p kvs
    | .null => foundLeaf dv trs p .null
    | .bool b => foundLeaf dv trs p (.bool b)
    | .int i => foundLeaf dv trs p (.int i)
    | .flt t => foundLeaf dv trs p (.flt t)
    | .big t => foundLeaf dv trs p (.big t)
    | .num t => foundLeaf dv trs p (.num t)
    | .str s => foundLeaf dv trs p (.str s)
  def foundList (dv : Dev) (trs : List TargetRest) (p : NPath) (i : Nat) : List JV → List (NPath × JV)
    | [] => []
    | x :: r => found dv trs (p ++ [.idx i]) x ++ foundList dv trs p (i + 1) r
  def foundKvs (dv : Dev) (trs : List TargetRest) (p : NPath) : List (Bytes × JV) → List (NPath × JV)
    | [] => []
    | (k, v) :: r => found dv trs (p ++ [.key k]) v ++ foundKvs dv trs p r
end

theorem leaf_search (dv trs) (v : JV) (rp : List Seg) (out) :
    run dv trs ⟨rp, [], out⟩ [.leaf v] = ⟨incNth rp, [], out ++ foundLeaf dv trs rp.reverse v⟩ := by
  by_cases h : pathMatchAny dv trs rp.reverse true = true <;> simp [run, step, addValue, foundLeaf, h]

mutual
  /-- with an empty `Stack` the events of a value report what `found` lists and advance the index -/
  theorem search_val (dv trs) : ∀ (v : JV), NoDupKeys v = true →
      ∀ (rp : List Seg) (out : List (NPath × JV)),
      run dv trs ⟨rp, [], out⟩ (events v) = ⟨incNth rp, [], out ++ found dv trs rp.reverse v⟩
    | .arr xs, hv, rp, out => by
      have hv' := hv
      simp only [NoDupKeys] at hv'
      simp only [events, run_cons, run_append, run_nil]
      by_cases hm : pathMatchAny dv trs rp.reverse false = true
      · have h0 : step dv trs ⟨rp, [], out⟩ .arrStart = ⟨.idx ([] : List JV).length :: rp, [.arr []], out⟩ := by
          simp [step, startContainer, hm]
        rw [h0, collect_list dv trs xs hv' [] rp [] out]
        simp [step, endContainer, found, hm]
      · have h0 : step dv trs ⟨rp, [], out⟩ .arrStart = ⟨.idx 0 :: rp, [], out⟩ := by
          simp [step, startContainer, hm]
        rw [h0, search_list dv trs xs hv' 0 rp out]
        simp [step, endContainer, found, hm]
    | .obj kvs, hv, rp, out => by
      have hv' := hv
      simp only [NoDupKeys, Bool.and_eq_true] at hv'
      simp only [events, run_cons, run_append, run_nil]
      by_cases hm : pathMatchAny dv trs rp.reverse false = true
      · have h0 : step dv trs ⟨rp, [], out⟩ .objStart = ⟨.key [] :: rp, [.obj []], out⟩ := by
          simp [step, startContainer, hm]
        obtain ⟨k1, h1⟩ := collect_kvs dv trs kvs hv'.2 [] [] rp [] out
        rw [h0, h1, insertAll_nil kvs hv'.1]
        simp [step, endContainer, found, hm]
      · have h0 : step dv trs ⟨rp, [], out⟩ .objStart = ⟨.key [] :: rp, [], out⟩ := by
          simp [step, startContainer, hm]
        obtain ⟨k1, h1⟩ := search_kvs dv trs kvs hv'.2 [] rp out
        rw [h0, h1]
        simp [step, endContainer, found, hm]
    | .null, _, rp, out => by simp only [events, found]; exact leaf_search ..
    | .bool _, _, rp, out => by simp only [events, found]; exact leaf_search ..
    | .int _, _, rp, out => by simp only [events, found]; exact leaf_search ..
    | .flt _, _, rp, out => by simp only [events, found]; exact leaf_search ..
    | .big _, _, rp, out => by simp only [events, found]; exact leaf_search ..
    | .num _, _, rp, out => by simp only [events, found]; exact leaf_search ..
    | .str _, _, rp, out => by simp only [events, found]; exact leaf_search ..
  theorem search_list (dv trs) : ∀ (ys : List JV), NoDupKeysList ys = true →
      ∀ (i : Nat) (rp : List Seg) (out : List (NPath × JV)),
      run dv trs ⟨.idx i :: rp, [], out⟩ (eventsList ys)
        = ⟨.idx (i + ys.length) :: rp, [], out ++ foundList dv trs rp.reverse i ys⟩
    | [], _, i, rp, out => by simp [eventsList, run_nil, foundList]
    | x :: r, hv, i, rp, out => by
      simp only [NoDupKeysList, Bool.and_eq_true] at hv
      simp only [eventsList, run_append]
      rw [search_val dv trs x hv.1 _ out]
      have := search_list dv trs r hv.2 (i + 1) rp (out ++ found dv trs (rp.reverse ++ [.idx i]) x)
      simp only [incNth, List.reverse_cons, foundList, List.length_cons]
      rw [this]
      simp [Nat.add_assoc, Nat.add_comm 1]
  theorem search_kvs (dv trs) : ∀ (kvs : List (Bytes × JV)), NoDupKeysKvs kvs = true →
      ∀ (k0 : Bytes) (rp : List Seg) (out : List (NPath × JV)),
      ∃ k1, run dv trs ⟨.key k0 :: rp, [], out⟩ (eventsKvs kvs)
        = ⟨.key k1 :: rp, [], out ++ foundKvs dv trs rp.reverse kvs⟩
    | [], _, k0, rp, out => ⟨k0, by simp [eventsKvs, run_nil, foundKvs]⟩
    | (k, v) :: r, hv, k0, rp, out => by
      simp only [NoDupKeysKvs, Bool.and_eq_true] at hv
      simp only [eventsKvs, run_cons, run_append]
      have h0 : step dv trs ⟨.key k0 :: rp, [], out⟩ (.key k) = ⟨.key k :: rp, [], out⟩ := by
        simp [step, setKey]
      rw [h0, search_val dv trs v hv.1 _ out]
      obtain ⟨k1, h1⟩ := search_kvs dv trs r hv.2 k rp (out ++ found dv trs (rp.reverse ++ [.key k]) v)
      refine ⟨k1, ?_⟩
      simp only [incNth, List.reverse_cons, foundKvs]
      rw [h1]
      simp
end

/-- the transducer on the events of a document = the top-down traversal with `PathMatch` -/
theorem run_events (dv : Dev) (targets : List Target) (doc : JV) (h : NoDupKeys doc = true) :
    matchRun dv targets (events doc) = found dv (targets.map splitTarget) [] doc := by
  simp [matchRun, St.init, search_val dv _ doc h [] []]

end OjgVerif.Match
