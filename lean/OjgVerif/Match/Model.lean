import OjgVerif.Match.Spec
/-! Model of `jp.MatchHandler` (jp/matchhandler.go) and `jp.PathMatch` (jp/match.go) as a transducer
over token events: one Lean branch per Go branch.

State: `rpath` is `h.Path` without the leading `Root`, REVERSED (head = last element, the one the
callbacks overwrite); `stack` is `h.Stack` with the top first (a Go `map[string]any` is an
association list with last-write-wins `kvInsert`, a `[]any` a list); `out` the `OnData` calls.

Not modelled: a `Root`/`At` fragment in front of a target or path (every target here starts with
`$`, which `PathMatch` strips), `Bracket` fragments, fragments after a filter (the property's
filters are trailing), `Number` events (a big number is a leaf like the others).

Deviations of the current code from the specification are carried explicitly:
* an index counted from the end (negative `Nth`, negative union member) is compared with the
  non-negative index of the path and so never matches (the length is not known while streaming);
* `Dev.sliceAll`: a slice matches every index, bounds and step are ignored (match.go, `case Slice`);
  with the flag off the bounds that are known while streaming are applied (proposed fix);
* `Dev.descentNoSelf`: `PathMatch` returns false on an exhausted path before it looks at the
  fragment, so a descent never matches the node itself (only visible for a target that ENDS in a
  descent, possibly followed by a filter); flag off = the repair, applied in /repo as ba8abfd;
* `Dev.filterFirstOnly`, a trailing filter: `checkRest` reports one element per collected
  container, with the path of `Locate(v, 1)` — `Filter.locate` lists matches LAST first — and the
  value of `First(v)`, the FIRST match; with the flag off every accepted element is reported with
  its own value in array order (proposed fix). Either way members of an object come in Go map
  order there (here: document order), and while a container is collected for a filter no other
  target is looked at inside it (not repaired). -/
namespace OjgVerif.Match
open OjgVerif

structure Dev where
  sliceAll : Bool
  descentNoSelf : Bool
  filterFirstOnly : Bool
  deriving DecidableEq, Repr

/-- the code as it is -/
def Dev.cur : Dev := ⟨true, false, true⟩   -- descentNoSelf repaired in /repo (ba8abfd)
/-- with the proposed fixes -/
def Dev.fixed : Dev := ⟨false, false, false⟩

/-! ## PathMatch -/

/-- the bounds of a slice that do not need the array length (proposed fix of `case Slice`) -/
def sliceCould (start : Int) (stop : Option Int) (step : Int) (j : Nat) : Bool :=
  if step = 0 then false
  else if 0 < step then
    (decide (start < 0) || decide (start ≤ j)) &&
    (match stop with
      | none => true
      | some b => decide (b < 0) || decide ((j : Int) < b)) &&
    (decide (start < 0) || decide (((j : Int) - start) % step = 0))
  else
    (decide (start < 0) || decide ((j : Int) ≤ start)) &&
    (match stop with
      | none => false          -- no end given and a negative step: the evaluator selects nothing
      | some b => decide (b < 0) || decide (b < (j : Int))) &&
    (decide (start < 0) || decide ((start - (j : Int)) % (-step) = 0))

/-- one fragment (not a descent) against one path element: the body of the `switch tf := f.(type)` -/
def segMatch (dv : Dev) (f : Frag) (s : Seg) : Bool :=
  match f with
  | .child k => s == .key k                    -- case Child, Nth: tf != path[0]
  | .index i =>
    match s with
    | .idx j => decide (i = (j : Int))         -- a negative i never equals a path index
    | .key _ => false
  | .wildcard => true
  | .union ms => ms.any fun m =>
    match m, s with
    | .name k, .key k' => k == k'              -- Child(tu) == path[0]
    | .index i, .idx j => decide (i = (j : Int))   -- Nth(tu) == path[0]
    | _, _ => false
  | .slice a b st =>
    match s with
    | .idx j => if dv.sliceAll then true else sliceCould a b st j
    | .key _ => false
  | .filter _ => true                          -- "Assume a match since there is no data"
  | .descent => false                          -- (handled in `pathMatch`)

/-- the `for 0 < len(path)` loop of `case Descent`; `incl`: also try the exhausted path -/
def anySuffix (incl : Bool) (g : NPath → Bool) : NPath → Bool
  | [] => incl && g []
  | s :: p => g (s :: p) || anySuffix incl g p

/-- `PathMatch(target, path)` with `$` already stripped from both. Note the final `return true`:
a target that is used up matches whatever is left of the path (prefix match). -/
def pathMatch (dv : Dev) : Target → NPath → Bool
  | [], _ => true
  | .descent :: fs, path =>
    if dv.descentNoSelf then
      match path with
      | [] => false                            -- `if len(path) == 0 { return false }` comes first
      | s :: p => anySuffix false (pathMatch dv fs) (s :: p)
    else anySuffix true (pathMatch dv fs) path
  | f :: fs, path =>
    match path with
    | [] => false
    | s :: p => segMatch dv f s && pathMatch dv fs p

/-! ## the handler -/

/-- `TargetRest`: the target up to its first filter, and the filter -/
structure TargetRest where
  target : Target
  rest : Option (JV → Bool)

def splitTarget : Target → TargetRest
  | [] => ⟨[], none⟩
  | .filter p :: _ => ⟨[], some p⟩
  | f :: fs => ⟨f :: (splitTarget fs).target, (splitTarget fs).rest⟩

structure St where
  rpath : List Seg
  stack : List JV
  out : List (NPath × JV)

def St.init : St := ⟨[], [], []⟩

/-- `h.pathMatch(leaf)` -/
def pathMatchAny (dv : Dev) (trs : List TargetRest) (path : NPath) (leaf : Bool) : Bool :=
  trs.any fun tr => pathMatch dv tr.target path && (!leaf || tr.rest.isNone)

/-- `ts[key] = v` / `append(ts, v)` on the top of the stack (`last` = `h.Path[len(h.Path)-1]`; the
Go type assertion `.(Child)` cannot fail on events of a document) -/
def addToTop (top : JV) (last : Option Seg) (v : JV) : JV :=
  match top with
  | .obj kvs =>
    match last with
    | some (.key k) => .obj (kvInsert k v kvs)
    | _ => top
  | .arr xs => .arr (xs ++ [v])
  | _ => top

/-- the second store when a container closes: `ts[key] = v` / `ts[nth] = v` -/
def setInTop (top : JV) (last : Option Seg) (v : JV) : JV :=
  match top with
  | .obj kvs =>
    match last with
    | some (.key k) => .obj (kvInsert k v kvs)
    | _ => top
  | .arr xs =>
    match last with
    | some (.idx i) => .arr (xs.set i v)
    | _ => top
  | _ => top

/-- `incNth` -/
def incNth : List Seg → List Seg
  | .idx i :: r => .idx (i + 1) :: r
  | p => p

/-- locations of the elements a filter accepts, in the order `Filter.locate` lists them: last
element first (for an object Go takes map order; the model takes the members last to first) -/
def filterLocs (p : JV → Bool) : JV → List Seg
  | .arr xs => ((List.range xs.length).filter fun i => match xs[i]? with | some x => p x | none => false).reverse.map Seg.idx
  | .obj kvs => ((kvs.filter fun kv => p kv.2).map fun kv => Seg.key kv.1).reverse
  | _ => []

/-- `Rest.First(v)`: the first element the filter accepts -/
def filterFirst (p : JV → Bool) : JV → Option JV
  | .arr xs => xs.find? p
  | .obj kvs => (kvs.find? fun kv => p kv.2).map (·.2)
  | _ => none

/-- every element the filter accepts, in array (member) order, with its own path and value -/
def filterAll (p : JV → Bool) (path : NPath) : JV → List (NPath × JV)
  | .arr xs => (List.range xs.length).filterMap fun i =>
      match xs[i]? with
      | some x => if p x then some (path ++ [.idx i], x) else none
      | none => none
  | .obj kvs => (kvs.filter fun kv => p kv.2).map fun kv => (path ++ [.key kv.1], kv.2)
  | _ => []

/-- `checkRest` + `OnData`: the first target that matches decides; with a filter the callback gets
the path of `Locate(v, 1)` and the value of `First(v)` -/
def checkRest (dv : Dev) (trs : List TargetRest) (path : NPath) (v : JV) : List (NPath × JV) :=
  match trs.find? fun tr => pathMatch dv tr.target path with
  | none => [(path, v)]
  | some tr =>
    match tr.rest with
    | none => [(path, v)]
    | some p =>
      if dv.filterFirstOnly then
        match filterLocs p v with
        | [] => []
        | s :: _ => [(path ++ [s], (filterFirst p v).getD .null)]
      else filterAll p path v

/-- `AddValue` -/
def addValue (dv : Dev) (trs : List TargetRest) (st : St) (v : JV) : St :=
  match st.stack with
  | top :: rest =>
    { st with stack := addToTop top st.rpath.head? v :: rest, rpath := incNth st.rpath }
  | [] =>
    if pathMatchAny dv trs st.rpath.reverse true then
      { st with out := st.out ++ [(st.rpath.reverse, v)], rpath := incNth st.rpath }
    else { st with rpath := incNth st.rpath }

/-- `objArrayStart(v, frag)` -/
def startContainer (dv : Dev) (trs : List TargetRest) (st : St) (empty : JV) (frag : Seg) : St :=
  match st.stack with
  | top :: rest =>
    { st with stack := empty :: addToTop top st.rpath.head? empty :: rest, rpath := frag :: st.rpath }
  | [] =>
    if pathMatchAny dv trs st.rpath.reverse false then
      { st with stack := [empty], rpath := frag :: st.rpath }
    else { st with rpath := frag :: st.rpath }

/-- `objArrayEnd` -/
def endContainer (dv : Dev) (trs : List TargetRest) (st : St) : St :=
  match st.stack with
  | [] => { st with rpath := incNth st.rpath.tail }
  | [v] =>                                            -- len(h.Stack) == 1: checkRest, OnData
    { st with rpath := incNth st.rpath.tail, stack := [],
              out := st.out ++ checkRest dv trs st.rpath.tail.reverse v }
  | v :: top :: rest =>
    { st with rpath := incNth st.rpath.tail, stack := setInTop top st.rpath.tail.head? v :: rest }

/-- `Key`: `h.Path[len(h.Path)-1] = Child(k)` -/
def setKey (st : St) (k : Bytes) : St :=
  match st.rpath with
  | _ :: r => { st with rpath := .key k :: r }
  | [] => st

def step (dv : Dev) (trs : List TargetRest) (st : St) : Event → St
  | .objStart => startContainer dv trs st (.obj []) (.key [])     -- Child("")
  | .arrStart => startContainer dv trs st (.arr []) (.idx 0)      -- Nth(0)
  | .objEnd => endContainer dv trs st
  | .arrEnd => endContainer dv trs st
  | .key k => setKey st k
  | .leaf v => addValue dv trs st v

def run (dv : Dev) (trs : List TargetRest) (st : St) (evs : List Event) : St :=
  evs.foldl (step dv trs) st

/-- the callbacks of `Match(doc, onData, targets…)` on a token stream -/
def matchRun (dv : Dev) (targets : List Target) (evs : List Event) : List (NPath × JV) :=
  (run dv (targets.map splitTarget) St.init evs).out

end OjgVerif.Match
