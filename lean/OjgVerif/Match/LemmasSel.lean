import OjgVerif.Match.Lemmas
import OjgVerif.Match.Support
/-! The top-down traversal with `PathMatch` against the specification: for targets without a
recorded deviation (`okTarget`), `PathMatch t q` says exactly "t selects q or one of its prefixes"
on every path `q` that exists in the document (`pathMatch_prefixes`), and a traversal that stops at
the first such path lists the outermost selected locations in document order (`found_filter`). -/
namespace OjgVerif.Match
open OjgVerif
set_option linter.unusedSectionVars false

/-! ## paths that exist -/

/-- the node at the end of a path -/
def nav : JV → NPath → Option JV
  | v, [] => some v
  | v, s :: q =>
    match child? v s with
    | none => none
    | some c => nav c q

theorem nav_snoc (v : JV) (p : NPath) (s : Seg) :
    nav v (p ++ [s]) = (nav v p).bind fun u => child? u s := by
  induction p generalizing v with
  | nil => cases h : child? v s <;> simp [nav, h]
  | cons a r ih =>
    cases h : child? v a with
    | none => simp [nav, h]
    | some c => simp [nav, h, ih]

def prefixesIncl (q : NPath) : List NPath := properPrefixes q ++ [q]

theorem properPrefixes_cons (s : Seg) (q : NPath) :
    properPrefixes (s :: q) = [] :: (properPrefixes q).map (s :: ·) := by
  simp [properPrefixes, List.range_succ_eq_map, List.map_map, Function.comp_def]

theorem prefixesIncl_cons (s : Seg) (q : NPath) :
    prefixesIncl (s :: q) = [] :: (prefixesIncl q).map (s :: ·) := by
  simp [prefixesIncl, properPrefixes_cons]

theorem properPrefixes_snoc (p : NPath) (s : Seg) : properPrefixes (p ++ [s]) = properPrefixes p ++ [p] := by
  induction p with
  | nil => simp [properPrefixes]
  | cons a r ih => simp [properPrefixes_cons, ih]

theorem mem_properPrefixes_append (p : NPath) (s : Seg) (r : NPath) : p ∈ properPrefixes (p ++ s :: r) := by
  simp only [properPrefixes, List.mem_map, List.mem_range]
  exact ⟨p.length, by simp, by simp⟩

/-! ## one fragment -/

theorem sliceCould_eq (a : Int) (b : Option Int) (st : Int) (n j : Nat) (hj : j < n)
    (ha : 0 ≤ a) (hst : 0 < st) (hb : ∀ e, b = some e → 0 ≤ e) :
    sliceCould a b st j = sliceSel a b st n j := by
  have hst0 : ¬ st = 0 := by omega
  have ha' : ¬ a < 0 := by omega
  simp only [sliceCould, sliceSel, hst0, hst, ha', if_false, if_true, decide_false, Bool.false_or]
  generalize hm : ((j : Int) - a) % st = m
  cases b with
  | none =>
    by_cases h1 : (n : Int) ≤ a
    · have : ¬ a ≤ (j : Int) := by omega
      simp [h1, this]
    · simp only [h1, if_false, Bool.and_true]
      have : ((j : Int) < (n : Int)) := by omega
      by_cases h2 : a ≤ (j : Int) <;> by_cases h3 : m = 0 <;> simp [h2, h3, this]
  | some e =>
    have he := hb e rfl
    have he' : ¬ e < 0 := by omega
    by_cases h1 : (n : Int) ≤ a
    · have : ¬ a ≤ (j : Int) := by omega
      simp [h1, this]
    · simp only [h1, if_false, he', decide_false, Bool.false_or]
      have hjn : ((j : Int) < (n : Int)) := by omega
      have hmin : ((j : Int) < min e (n : Int)) ↔ ((j : Int) < e) := by omega
      by_cases h2 : a ≤ (j : Int) <;> by_cases h3 : m = 0 <;> by_cases h4 : (j : Int) < e <;>
        simp [h2, h3, h4, hmin]

/-- `[:]` selects every index -/
theorem sliceSel_full (n j : Nat) (hj : j < n) : sliceSel 0 none 1 n j = true := by
  have h2 : (j : Int) < (n : Int) := by omega
  simp [sliceSel, h2]
  omega

theorem child_idx {v c : JV} {j : Nat} (h : child? v (.idx j) = some c) :
    ∃ xs, v = .arr xs ∧ j < xs.length := by
  cases v <;> simp [child?] at h
  rename_i xs
  exact ⟨xs, rfl, by
    have := h
    simp only [List.getElem?_eq_some_iff] at this
    exact this.1⟩

theorem child_key {v c : JV} {k : Bytes} (h : child? v (.key k) = some c) : ∃ kvs, v = .obj kvs := by
  cases v <;> simp [child?] at h
  exact ⟨_, rfl⟩

theorem any_congr_mem {α} (l : List α) (f g : α → Bool) (h : ∀ a ∈ l, f a = g a) : l.any f = l.any g := by
  induction l with
  | nil => rfl
  | cons a r ih =>
    simp only [List.any_cons, h a (by simp), ih (fun b hb => h b (by simp [hb]))]

/-- for a supported fragment the comparison `PathMatch` makes is the specification's -/
theorem segMatch_eq_fragSel (dv : Dev) (f : Frag) (hf : fragOK dv f = true) (hd : isDescent f = false)
    (v : JV) (s : Seg) (c : JV) (hc : child? v s = some c) : segMatch dv f s = fragSel f v s c := by
  cases f with
  | child k => simp [segMatch, fragSel]
  | index i =>
    simp only [fragOK, decide_eq_true_eq] at hf
    cases s with
    | key k =>
      obtain ⟨kvs, rfl⟩ := child_key hc
      simp [segMatch, fragSel]
    | idx j =>
      obtain ⟨xs, rfl, _⟩ := child_idx hc
      have : ¬ i < 0 := by omega
      simp only [segMatch, fragSel, indexSel, this, if_false]
      by_cases h : i = (j : Int)
      · simp [h]
      · have : ¬ (j : Int) = i := fun e => h e.symm
        simp [h, this]
  | wildcard => simp [segMatch, fragSel]
  | union ms =>
    simp only [fragOK, List.all_eq_true] at hf
    simp only [segMatch, fragSel]
    apply any_congr_mem
    intro m hm
    have hmo := hf m hm
    cases m with
    | name k =>
      cases s with
      | key k' =>
        rw [Bool.eq_iff_iff]
        simp only [beq_iff_eq, Seg.key.injEq]
        exact eq_comm
      | idx j => simp
    | index i =>
      simp only [memOK, decide_eq_true_eq] at hmo
      cases s with
      | key k =>
        obtain ⟨kvs, rfl⟩ := child_key hc
        simp
      | idx j =>
        obtain ⟨xs, rfl, _⟩ := child_idx hc
        have : ¬ i < 0 := by omega
        simp only [indexSel, this, if_false]
        by_cases h : i = (j : Int)
        · simp [h]
        · have : ¬ (j : Int) = i := fun e => h e.symm
          simp [h, this]
  | slice a b st =>
    cases s with
    | key k =>
      obtain ⟨kvs, rfl⟩ := child_key hc
      simp [segMatch, fragSel]
    | idx j =>
      obtain ⟨xs, rfl, hj⟩ := child_idx hc
      by_cases hs : dv.sliceAll = true
      · simp only [fragOK, hs, if_true, Bool.and_eq_true, decide_eq_true_eq, Option.isNone_iff_eq_none] at hf
        obtain ⟨⟨ha, hb⟩, hst⟩ := hf
        subst ha hb hst
        simp only [segMatch, fragSel, hs, if_true]
        exact (sliceSel_full xs.length j hj).symm
      · have hs' : dv.sliceAll = false := by simpa using hs
        simp only [fragOK, hs', Bool.false_eq_true, if_false, Bool.and_eq_true, decide_eq_true_eq] at hf
        obtain ⟨⟨ha, hst⟩, hb⟩ := hf
        simp only [segMatch, fragSel, hs']
        have := sliceCould_eq a b st xs.length j hj ha hst (by
          intro e he
          subst he
          simpa using hb)
        simpa using this
  | descent => simp [isDescent] at hd
  | filter p => simp [fragOK] at hf

/-! ## a whole target -/

theorem any_or {α} (l : List α) (f g : α → Bool) : (l.any fun x => f x || g x) = (l.any f || l.any g) := by
  induction l with
  | nil => rfl
  | cons a r ih =>
    simp only [List.any_cons, ih]
    cases f a <;> cases g a <;> cases r.any f <;> cases r.any g <;> rfl

theorem any_and_left {α} (l : List α) (b : Bool) (g : α → Bool) : (l.any fun x => b && g x) = (b && l.any g) := by
  cases b <;> simp

/-- nothing but descents selects the node itself; a supported target for a matcher without
"descent matches the node itself" contains something else -/
theorem selects_nil_false (dv : Dev) (hdv : dv.descentNoSelf = true) :
    ∀ (fs : Target), okTarget dv fs = true → fs ≠ [] → ∀ v, selects fs v [] = false
  | [], _, h, _ => absurd rfl h
  | f :: fs, hok, _, v => by
    simp only [okTarget, Bool.and_eq_true, Bool.not_eq_true', hdv, Bool.true_and] at hok
    cases f with
    | descent =>
      have hne : fs ≠ [] := by
        intro e
        subst e
        simp [isDescent] at hok
      simp only [selects, anyAlong]
      exact selects_nil_false dv hdv fs hok.1.2 hne v
    | child k => simp [selects]
    | index i => simp [selects]
    | wildcard => simp [selects]
    | union ms => simp [selects]
    | slice a b st => simp [selects]
    | filter p => simp [selects]

/-- the descent loop against "somewhere along the path" -/
theorem descent_loop (dv : Dev) (fs : Target) (incl : Bool)
    (ih : ∀ (v : JV) (q : NPath) (u : JV), nav v q = some u → pathMatch dv fs q = (prefixesIncl q).any (selects fs v))
    (hbase : incl = false → ∀ v, selects fs v [] = false) :
    ∀ (q : NPath) (v u : JV), nav v q = some u →
      anySuffix incl (pathMatch dv fs) q = (prefixesIncl q).any (anyAlong (selects fs) v)
  | [], v, u, h => by
    have := ih v [] v rfl
    simp only [prefixesIncl, properPrefixes, List.length_nil, List.range_zero, List.map_nil, List.nil_append,
      List.any_cons, List.any_nil, Bool.or_false] at this
    simp only [anySuffix, prefixesIncl, properPrefixes, List.length_nil, List.range_zero, List.map_nil,
      List.nil_append, List.any_cons, List.any_nil, Bool.or_false, anyAlong, this]
    cases incl with
    | true => simp
    | false => simp [hbase rfl v]
  | s :: q, v, u, h => by
    cases hc : child? v s with
    | none => simp [nav, hc] at h
    | some c =>
      simp only [nav, hc] at h
      have ih2 := descent_loop dv fs incl ih hbase q c u h
      have ih1 := ih v (s :: q) u (by simp [nav, hc, h])
      simp only [anySuffix, ih2, ih1]
      simp only [prefixesIncl_cons, List.any_cons, List.any_map, Function.comp_def, anyAlong, hc, any_or]
      cases selects fs v [] <;> simp

/-- `PathMatch` accepts an existing path exactly when the target selects it or one of its prefixes -/
theorem pathMatch_prefixes (dv : Dev) : ∀ (t : Target), okTarget dv t = true →
    ∀ (v : JV) (q : NPath) (u : JV), nav v q = some u →
      pathMatch dv t q = (prefixesIncl q).any (selects t v)
  | [], _, v, q, u, _ => by
    cases q with
    | nil => simp [pathMatch, prefixesIncl, properPrefixes, selects]
    | cons s q => simp [pathMatch, prefixesIncl_cons, selects]
  | f :: fs, hok, v, q, u, hq => by
    simp only [okTarget, Bool.and_eq_true, Bool.not_eq_true'] at hok
    obtain ⟨⟨hf, hfs⟩, htl⟩ := hok
    have ih := pathMatch_prefixes dv fs hfs
    by_cases hd : isDescent f = true
    · cases f <;> simp [isDescent] at hd
      -- descent
      by_cases hdv : dv.descentNoSelf = true
      · have hne : fs ≠ [] := by
          intro e
          subst e
          simp [hdv, isDescent] at htl
        have hbase : ∀ v, selects fs v [] = false := selects_nil_false dv hdv fs hfs hne
        cases q with
        | nil => simp [pathMatch, hdv, prefixesIncl, properPrefixes, selects, anyAlong, hbase v]
        | cons s p =>
          simp only [pathMatch, hdv, if_true]
          rw [descent_loop dv fs false ih (fun _ => hbase) (s :: p) v u hq]
          simp [selects]
      · have hdv' : dv.descentNoSelf = false := by simpa using hdv
        simp only [pathMatch, hdv', Bool.false_eq_true, if_false]
        rw [descent_loop dv fs true ih (by simp) q v u hq]
        simp [selects]
    · have hd' : isDescent f = false := by simpa using hd
      cases q with
      | nil =>
        cases f <;> simp [isDescent] at hd' <;> simp [pathMatch, prefixesIncl, properPrefixes, selects]
      | cons s q =>
        cases hc : child? v s with
        | none => simp [nav, hc] at hq
        | some c =>
          simp only [nav, hc] at hq
          have h1 := segMatch_eq_fragSel dv f hf hd' v s c hc
          have h2 := ih c q u hq
          have hsel : ∀ r, selects (f :: fs) v (s :: r) = (fragSel f v s c && selects fs c r) := by
            intro r
            cases f <;> simp [isDescent] at hd' <;> simp [selects, hc]
          have hnil : selects (f :: fs) v [] = false := by
            cases f <;> simp [isDescent] at hd' <;> simp [selects]
          have hpm : pathMatch dv (f :: fs) (s :: q) = (segMatch dv f s && pathMatch dv fs q) := by
            cases f <;> simp [isDescent] at hd' <;> simp [pathMatch]
          rw [hpm, h1, h2]
          simp only [prefixesIncl_cons, List.any_cons, hnil, Bool.false_or, List.any_map, Function.comp_def,
            hsel, any_and_left]

/-! ## outermost, document order -/

theorem splitTarget_ok (dv : Dev) : ∀ (t : Target), okTarget dv t = true → splitTarget t = ⟨t, none⟩
  | [], _ => rfl
  | f :: fs, h => by
    simp only [okTarget, Bool.and_eq_true] at h
    have ih := splitTarget_ok dv fs h.1.2
    cases f <;> simp [splitTarget, ih]
    simp [fragOK] at h

/-- a target without a filter is not split -/
theorem splitTarget_nf : ∀ (t : Target), t.any isFilterFrag = false → splitTarget t = ⟨t, none⟩
  | [], _ => rfl
  | f :: fs, h => by
    simp only [List.any_cons, Bool.or_eq_false_iff] at h
    have ih := splitTarget_nf fs h.2
    cases f <;> simp [splitTarget, ih]
    simp [isFilterFrag] at h

theorem pathMatchAny_nf (dv : Dev) (targets : List Target) (h : ∀ t ∈ targets, splitTarget t = ⟨t, none⟩)
    (p : NPath) (leaf : Bool) :
    pathMatchAny dv (targets.map splitTarget) p leaf = targets.any fun t => pathMatch dv t p := by
  induction targets with
  | nil => simp [pathMatchAny]
  | cons t r ih =>
    have ht := h t (by simp)
    have := ih (fun t' ht' => h t' (by simp [ht']))
    simp only [pathMatchAny, List.map_cons, List.any_cons, ht] at this ⊢
    rw [this]
    simp

theorem checkRest_nf (dv : Dev) (targets : List Target) (h : ∀ t ∈ targets, splitTarget t = ⟨t, none⟩)
    (p : NPath) (v : JV) : checkRest dv (targets.map splitTarget) p v = [(p, v)] := by
  unfold checkRest
  cases hfind : (targets.map splitTarget).find? fun tr => pathMatch dv tr.target p with
  | none => rfl
  | some tr =>
    have hmem := List.mem_of_find?_eq_some hfind
    simp only [List.mem_map] at hmem
    obtain ⟨t, ht, rfl⟩ := hmem
    simp [h t ht]

theorem pathMatchAny_ok (dv : Dev) (targets : List Target) (h : ∀ t ∈ targets, okTarget dv t = true)
    (p : NPath) (leaf : Bool) :
    pathMatchAny dv (targets.map splitTarget) p leaf = targets.any fun t => pathMatch dv t p :=
  pathMatchAny_nf dv targets (fun t ht => splitTarget_ok dv t (h t ht)) p leaf

theorem checkRest_ok (dv : Dev) (targets : List Target) (h : ∀ t ∈ targets, okTarget dv t = true)
    (p : NPath) (v : JV) : checkRest dv (targets.map splitTarget) p v = [(p, v)] :=
  checkRest_nf dv targets (fun t ht => splitTarget_ok dv t (h t ht)) p v

mutual
  theorem locs_prefix : ∀ (v : JV) (p : NPath) (qu : NPath × JV), qu ∈ locs p v → ∃ r, qu.1 = p ++ r
    | .arr xs, p, qu, h => by
      simp only [locs, List.mem_cons] at h
      rcases h with h | h
      · exact ⟨[], by simp [h]⟩
      · exact locsList_prefix xs p 0 qu h
    | .obj kvs, p, qu, h => by
      simp only [locs, List.mem_cons] at h
      rcases h with h | h
      · exact ⟨[], by simp [h]⟩
      · exact locsKvs_prefix kvs p qu h
    | .null, p, qu, h => ⟨[], by simp_all [locs]⟩
    | .bool _, p, qu, h => ⟨[], by simp_all [locs]⟩
    | .int _, p, qu, h => ⟨[], by simp_all [locs]⟩
    | .flt _, p, qu, h => ⟨[], by simp_all [locs]⟩
    | .big _, p, qu, h => ⟨[], by simp_all [locs]⟩
    | .num _, p, qu, h => ⟨[], by simp_all [locs]⟩
    | .str _, p, qu, h => ⟨[], by simp_all [locs]⟩
  theorem locsList_prefix : ∀ (xs : List JV) (p : NPath) (i : Nat) (qu : NPath × JV), qu ∈ locsList p i xs →
      ∃ r, qu.1 = p ++ r
    | [], _, _, _, h => by simp [locsList] at h
    | x :: r, p, i, qu, h => by
      simp only [locsList, List.mem_append] at h
      rcases h with h | h
      · obtain ⟨r', hr⟩ := locs_prefix x _ qu h
        exact ⟨.idx i :: r', by simp [hr]⟩
      · exact locsList_prefix r p (i + 1) qu h
  theorem locsKvs_prefix : ∀ (kvs : List (Bytes × JV)) (p : NPath) (qu : NPath × JV), qu ∈ locsKvs p kvs →
      ∃ r, qu.1 = p ++ r
    | [], _, _, h => by simp [locsKvs] at h
    | (k, v) :: r, p, qu, h => by
      simp only [locsKvs, List.mem_append] at h
      rcases h with h | h
      · obtain ⟨r', hr⟩ := locs_prefix v _ qu h
        exact ⟨.key k :: r', by simp [hr]⟩
      · exact locsKvs_prefix r p qu h
end

mutual
  /-- the locations strictly below `p` that come from children have `p` as a proper prefix -/
  theorem locsList_below : ∀ (xs : List JV) (p : NPath) (i : Nat) (qu : NPath × JV), qu ∈ locsList p i xs →
      p ∈ properPrefixes qu.1
    | [], _, _, _, h => by simp [locsList] at h
    | x :: r, p, i, qu, h => by
      simp only [locsList, List.mem_append] at h
      rcases h with h | h
      · obtain ⟨r', hr⟩ := locs_prefix x _ qu h
        rw [hr, List.append_assoc]
        exact mem_properPrefixes_append p _ _
      · exact locsList_below r p (i + 1) qu h
  theorem locsKvs_below : ∀ (kvs : List (Bytes × JV)) (p : NPath) (qu : NPath × JV), qu ∈ locsKvs p kvs →
      p ∈ properPrefixes qu.1
    | [], _, _, h => by simp [locsKvs] at h
    | (k, v) :: r, p, qu, h => by
      simp only [locsKvs, List.mem_append] at h
      rcases h with h | h
      · obtain ⟨r', hr⟩ := locs_prefix v _ qu h
        rw [hr, List.append_assoc]
        exact mem_properPrefixes_append p _ _
      · exact locsKvs_below r p qu h
end

theorem lookupKey_mem : ∀ (kvs : List (Bytes × JV)), keysDistinct kvs = true → ∀ k v, (k, v) ∈ kvs →
    lookupKey k kvs = some v
  | [], _, _, _, h => by simp at h
  | (k', v') :: r, hd, k, v, h => by
    simp only [keysDistinct, Bool.and_eq_true, Bool.not_eq_true'] at hd
    simp only [List.mem_cons, Prod.mk.injEq] at h
    rcases h with ⟨rfl, rfl⟩ | h
    · simp [lookupKey]
    · have hne : ¬ k' = k := by
        intro e
        subst e
        have := hd.1
        simp only [List.any_eq_false] at this
        simpa using this (k', v) h
      simp [lookupKey, hne, lookupKey_mem r hd.2 k v h]

/-- the filter of the specification -/
def outermost (S : NPath → Bool) (pv : NPath × JV) : Bool := S pv.1 && !(properPrefixes pv.1).any S

section
variable (dv : Dev) (trs : List TargetRest) (doc : JV) (M S : NPath → Bool)
variable (hM : ∀ q leaf, pathMatchAny dv trs q leaf = M q)
variable (hC : ∀ q v, checkRest dv trs q v = [(q, v)])
variable (hrel : ∀ q u, nav doc q = some u → M q = (S q || (properPrefixes q).any S))

omit dv trs doc M in
theorem filter_below_none (p : NPath) (l : List (NPath × JV)) (hS : S p = true)
    (hl : ∀ qu ∈ l, p ∈ properPrefixes qu.1) : l.filter (outermost S) = [] := by
  simp only [List.filter_eq_nil_iff, outermost, Bool.and_eq_true, Bool.not_eq_true', not_and]
  intro qu hqu _
  have := hl qu hqu
  simp only [Bool.not_eq_false, List.any_eq_true]
  exact ⟨p, this, hS⟩

include hM hC hrel

theorem found_leaf (v : JV) (p : NPath) (hp : nav doc p = some v) (hpre : (properPrefixes p).any S = false) :
    foundLeaf dv trs p v = [(p, v)].filter (outermost S) := by
  have := hrel p v hp
  simp only [hpre, Bool.or_false] at this
  simp only [foundLeaf, hM, this, List.filter_cons, List.filter_nil, outermost, hpre, Bool.not_false, Bool.and_true]

mutual
  theorem found_filter : ∀ (v : JV), NoDupKeys v = true → ∀ (p : NPath), nav doc p = some v →
      (properPrefixes p).any S = false → found dv trs p v = (locs p v).filter (outermost S)
    | .arr xs, hv, p, hp, hpre => by
      simp only [NoDupKeys] at hv
      have hMp := hrel p _ hp
      simp only [hpre, Bool.or_false] at hMp
      simp only [found, hM, hC, hMp, locs, List.filter_cons, outermost, hpre, Bool.not_false, Bool.and_true]
      by_cases hS : S p = true
      · simp [hS, filter_below_none S p _ hS (locsList_below xs p 0)]
      · have hS' : S p = false := by simpa using hS
        simp only [hS', Bool.false_eq_true, if_false]
        exact foundList_filter xs hv p 0 (by
          intro j x hx
          simp [nav_snoc, hp, child?, hx]) hpre hS'
    | .obj kvs, hv, p, hp, hpre => by
      simp only [NoDupKeys, Bool.and_eq_true] at hv
      have hMp := hrel p _ hp
      simp only [hpre, Bool.or_false] at hMp
      simp only [found, hM, hC, hMp, locs, List.filter_cons, outermost, hpre, Bool.not_false, Bool.and_true]
      by_cases hS : S p = true
      · simp [hS, filter_below_none S p _ hS (locsKvs_below kvs p)]
      · have hS' : S p = false := by simpa using hS
        simp only [hS', Bool.false_eq_true, if_false]
        exact foundKvs_filter kvs hv.2 p (by
          intro k v hkv
          simp [nav_snoc, hp, child?, lookupKey_mem kvs hv.1 k v hkv]) hpre hS'
    | .null, _, p, hp, hpre => by simp only [found, locs]; exact found_leaf dv trs doc M S hM hC hrel _ p hp hpre
    | .bool _, _, p, hp, hpre => by simp only [found, locs]; exact found_leaf dv trs doc M S hM hC hrel _ p hp hpre
    | .int _, _, p, hp, hpre => by simp only [found, locs]; exact found_leaf dv trs doc M S hM hC hrel _ p hp hpre
    | .flt _, _, p, hp, hpre => by simp only [found, locs]; exact found_leaf dv trs doc M S hM hC hrel _ p hp hpre
    | .big _, _, p, hp, hpre => by simp only [found, locs]; exact found_leaf dv trs doc M S hM hC hrel _ p hp hpre
    | .num _, _, p, hp, hpre => by simp only [found, locs]; exact found_leaf dv trs doc M S hM hC hrel _ p hp hpre
    | .str _, _, p, hp, hpre => by simp only [found, locs]; exact found_leaf dv trs doc M S hM hC hrel _ p hp hpre
  theorem foundList_filter : ∀ (ys : List JV), NoDupKeysList ys = true → ∀ (p : NPath) (i : Nat),
      (∀ j x, ys[j]? = some x → nav doc (p ++ [.idx (i + j)]) = some x) →
      (properPrefixes p).any S = false → S p = false →
      foundList dv trs p i ys = (locsList p i ys).filter (outermost S)
    | [], _, _, _, _, _, _ => by simp [foundList, locsList]
    | x :: r, hv, p, i, hsub, hpre, hS => by
      simp only [NoDupKeysList, Bool.and_eq_true] at hv
      simp only [foundList, locsList, List.filter_append]
      have h1 := found_filter x hv.1 (p ++ [Seg.idx i]) (by simpa using hsub 0 x rfl)
            (by simp [properPrefixes_snoc, hpre, hS])
      have h2 := foundList_filter r hv.2 p (i + 1) (by
            intro j y hy
            have := hsub (j + 1) y (by simpa using hy)
            simpa [Nat.add_assoc, Nat.add_comm 1] using this) hpre hS
      rw [h1, h2]
  theorem foundKvs_filter : ∀ (kvs : List (Bytes × JV)), NoDupKeysKvs kvs = true → ∀ (p : NPath),
      (∀ k v, (k, v) ∈ kvs → nav doc (p ++ [.key k]) = some v) →
      (properPrefixes p).any S = false → S p = false →
      foundKvs dv trs p kvs = (locsKvs p kvs).filter (outermost S)
    | [], _, _, _, _, _ => by simp [foundKvs, locsKvs]
    | (k, v) :: r, hv, p, hsub, hpre, hS => by
      simp only [NoDupKeysKvs, Bool.and_eq_true] at hv
      simp only [foundKvs, locsKvs, List.filter_append]
      have h1 := found_filter v hv.1 (p ++ [Seg.key k]) (hsub k v (by simp))
            (by simp [properPrefixes_snoc, hpre, hS])
      have h2 := foundKvs_filter r hv.2 p (fun k' v' h' => hsub k' v' (by simp [h'])) hpre hS
      rw [h1, h2]
end
end

theorem any_swap {α β} (l : List α) (m : List β) (f : α → β → Bool) :
    (l.any fun a => m.any fun b => f a b) = (m.any fun b => l.any fun a => f a b) := by
  induction l with
  | nil => simp
  | cons a r ih => simp [List.any_cons, ih, any_or]

/-- the traversal with `PathMatch` lists the outermost selected locations in document order -/
theorem found_expected (dv : Dev) (targets : List Target) (doc : JV) (hdoc : NoDupKeys doc = true)
    (hok : ∀ t ∈ targets, okTarget dv t = true) :
    found dv (targets.map splitTarget) [] doc = expected targets doc := by
  have := found_filter dv (targets.map splitTarget) doc (fun q => targets.any fun t => pathMatch dv t q)
    (selectedBy targets doc) (pathMatchAny_ok dv targets hok) (checkRest_ok dv targets hok)
    (by
      intro q u hq
      have : ∀ t ∈ targets, pathMatch dv t q = (prefixesIncl q).any (selects t doc) :=
        fun t ht => pathMatch_prefixes dv t (hok t ht) doc q u hq
      rw [any_congr_mem _ _ _ this]
      simp only [prefixesIncl, List.any_append, List.any_cons, List.any_nil, Bool.or_false, selectedBy, any_or]
      rw [any_swap, Bool.or_comm]
      rfl)
    doc hdoc [] rfl (by simp [properPrefixes])
  rw [this]
  rfl

end OjgVerif.Match
