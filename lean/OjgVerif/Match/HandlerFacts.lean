import OjgVerif.Match.Model
import OjgVerif.Gen.MatchFacts
/-! Tie between the event methods of `jp.MatchHandler` (jp/matchhandler.go) and the model of
`Match/Model.lean`, as a PROOF obligation.

What this is, honestly: a SYNTACTIC tripwire at statement level, not a semantic proof that the Go
code is the model (that tie is the correspondence run of the harness). `tools/extract/match.go`
renders, on every run of the check, the eleven TokenHandler methods of `MatchHandler` and the
helpers they call (`AddValue`, `objArrayStart`, `objArrayEnd`, `incNth`, `pathMatch`, and the
constructor `NewMatchHandler`) into `Gen/MatchFacts.lean`: the declaration (`sig_<m>`) and one
entry per statement in source order (`body_<m>`), nesting as indentation, `if`/`else if`/`switch`/
`case`/`for` headers with their conditions as entries. This file holds

1. the dispatch table of the model (`modelMethods`: which function `step` runs for which handler
   method, with which constants), PROVED from the model (`step_eq_modelMethods`, `step_objStart` …);
   the expected Go text of the eleven token methods is COMPUTED from that table (`goStmt`), so the
   start fragments `Child("")` / `Nth(0)` and the empty containers are read from the model's
   constants;
2. for the helpers, the expected rendering written next to the model branch each line stands for,
   and for each helper the effect of the model function on `rpath` / `stack` / `out` as proved
   lemmas (`addValue_rpath`, `startContainer_stack`, `endContainer_out` …) — these anchor the
   comments in the model;
3. the theorems `Gen.MatchFacts.<fact> = <expected>` (closed by `decide`), collected in
   `handler_methods_match_source`.

A dropped / reordered / re-conditioned push or pop of `h.Stack` / `h.Path`, a dropped `incNth()` or
`OnData` call, a changed start fragment, a new method on `MatchHandler` changes a generated fact
and this module stops building. A change that keeps every rendered statement (e.g. inside
`PathMatch`, `checkRest` — see `C17.dev_cur_matches_source` — or in another file) is not seen here. -/
namespace OjgVerif.Match
open OjgVerif

/-! ## 1. the dispatch table -/

/-- the methods of `oj.TokenHandler` / `sen.TokenHandler`, in the order of the interface -/
inductive Method where
  | null | bool | int | float | number | string
  | objectStart | objectEnd | key | arrayStart | arrayEnd
  deriving DecidableEq, Repr

def Method.all : List Method :=
  [.null, .bool, .int, .float, .number, .string, .objectStart, .objectEnd, .key, .arrayStart, .arrayEnd]

theorem Method.mem_all (m : Method) : m ∈ Method.all := by cases m <;> decide

/-- the Go name -/
def Method.goName : Method → String
  | .null => "Null" | .bool => "Bool" | .int => "Int" | .float => "Float"
  | .number => "Number" | .string => "String"
  | .objectStart => "ObjectStart" | .objectEnd => "ObjectEnd" | .key => "Key"
  | .arrayStart => "ArrayStart" | .arrayEnd => "ArrayEnd"

/-- the Go parameter list -/
def Method.goParams : Method → String
  | .null => "" | .bool => "v bool" | .int => "v int64" | .float => "v float64"
  | .number => "num string" | .string => "v string" | .key => "k string"
  | .objectStart | .objectEnd | .arrayStart | .arrayEnd => ""

/-- the Go expression a method hands on (the leaf value / the key) -/
def Method.goArg : Method → String
  | .null => "nil" | .number => "json.Number(num)" | .key => "k"
  | .bool | .int | .float | .string => "v"
  | .objectStart | .objectEnd | .arrayStart | .arrayEnd => ""

/-- the token event of the model a method call stands for (`v`: the leaf, `k`: the key) -/
def Method.event (v : JV) (k : Bytes) : Method → Event
  | .null | .bool | .int | .float | .number | .string => .leaf v
  | .objectStart => .objStart
  | .objectEnd => .objEnd
  | .key => .key k
  | .arrayStart => .arrStart
  | .arrayEnd => .arrEnd

/-- every event of the model is the event of a handler method -/
theorem Method.event_surjective (e : Event) : ∃ m v k, Method.event v k m = e := by
  cases e with
  | objStart => exact ⟨.objectStart, .null, [], rfl⟩
  | objEnd => exact ⟨.objectEnd, .null, [], rfl⟩
  | arrStart => exact ⟨.arrayStart, .null, [], rfl⟩
  | arrEnd => exact ⟨.arrayEnd, .null, [], rfl⟩
  | key k => exact ⟨.key, .null, k, rfl⟩
  | leaf v => exact ⟨.null, v, [], rfl⟩

/-- a function of the model with its constants: the helper a Go token method calls -/
inductive ModelCall where
  | addValue                                   -- `h.AddValue(…)`
  | startContainer (empty : JV) (frag : Seg)   -- `h.objArrayStart(v, frag)`
  | endContainer                               -- `h.objArrayEnd()`
  | setKey                                     -- `h.Path[len(h.Path)-1] = Child(k)`

def ModelCall.apply (dv : Dev) (trs : List TargetRest) (st : St) (v : JV) (k : Bytes) : ModelCall → St
  | .addValue => Match.addValue dv trs st v
  | .startContainer e f => Match.startContainer dv trs st e f
  | .endContainer => Match.endContainer dv trs st
  | .setKey => Match.setKey st k

/-- THE TABLE: which model function stands for which handler method -/
def modelMethods : Method → ModelCall
  | .null | .bool | .int | .float | .number | .string => .addValue
  | .objectStart => .startContainer (.obj []) (.key [])     -- map[string]any{}, Child("")
  | .objectEnd => .endContainer
  | .key => .setKey
  | .arrayStart => .startContainer (.arr []) (.idx 0)       -- []any{}, Nth(0)
  | .arrayEnd => .endContainer

/-- the table is what `step` does -/
theorem step_eq_modelMethods (dv : Dev) (trs : List TargetRest) (st : St) (v : JV) (k : Bytes)
    (m : Method) :
    step dv trs st (m.event v k) = (modelMethods m).apply dv trs st v k := by
  cases m <;> rfl

theorem step_objStart (dv : Dev) (trs : List TargetRest) (st : St) :
    step dv trs st .objStart = startContainer dv trs st (.obj []) (.key []) := rfl
theorem step_arrStart (dv : Dev) (trs : List TargetRest) (st : St) :
    step dv trs st .arrStart = startContainer dv trs st (.arr []) (.idx 0) := rfl
theorem step_objEnd (dv : Dev) (trs : List TargetRest) (st : St) :
    step dv trs st .objEnd = endContainer dv trs st := rfl
theorem step_arrEnd (dv : Dev) (trs : List TargetRest) (st : St) :
    step dv trs st .arrEnd = endContainer dv trs st := rfl
theorem step_key (dv : Dev) (trs : List TargetRest) (st : St) (k : Bytes) :
    step dv trs st (.key k) = setKey st k := rfl
theorem step_leaf (dv : Dev) (trs : List TargetRest) (st : St) (v : JV) :
    step dv trs st (.leaf v) = addValue dv trs st v := rfl

/-! ### the Go text of a table entry -/

/-- Go text of the empty container a start event pushes -/
def goEmpty : JV → String
  | .obj [] => "map[string]any{}"
  | .arr [] => "[]any{}"
  | _ => "<not an empty container>"

/-- Go text of the fragment a start event appends to `h.Path` -/
def goFrag : Seg → String
  | .key [] => "Child(\"\")"
  | .idx 0 => "Nth(0)"
  | _ => "<not a start fragment>"

/-- the one statement of a token method that stands for a model call -/
def ModelCall.goStmt (arg : String) : ModelCall → String
  | .addValue => "h.AddValue(" ++ arg ++ ")"
  | .startContainer e f => "h.objArrayStart(" ++ goEmpty e ++ ", " ++ goFrag f ++ ")"
  | .endContainer => "h.objArrayEnd()"
  | .setKey => "h.Path[len(h.Path)-1] = Child(" ++ arg ++ ")"

/-- what the extractor has to find for a token method: name, declaration, body -/
def Method.expected (m : Method) : String × String × List String :=
  (m.goName, "func (h *MatchHandler) " ++ m.goName ++ "(" ++ m.goParams ++ ")",
   [(modelMethods m).goStmt m.goArg])

/-- the eleven token methods of jp/matchhandler.go are, statement for statement, the calls the
table `modelMethods` (proved to be `step`: `step_eq_modelMethods`) says they are -/
theorem token_methods_match_source :
    Gen.MatchFacts.tokenMethods = Method.all.map Method.expected := by decide

/-! ## 2. the helpers, line by line -/

/-! ### `incNth` -/

/-- `incNth`: the last path element, when there is one and it is an `Nth`, is counted up. The
model's `rpath` is `h.Path` without the leading `Root` — the Go test `0 <= last` is always true
(`h.Path` starts as `R()` and only loses what `objArrayStart` appended), the `Root` at `last = 0` is
not an `Nth`: the model's `| p => p`. -/
def expected_incNth : List String := [
  "if last := len(h.Path) - 1; 0 <= last",          -- (always)
  "  if nth, ok := h.Path[last].(Nth); ok",         -- `| .idx i :: r`
  "    h.Path[last] = nth + 1"]                     -- `.idx (i + 1) :: r`

theorem incNth_idx (i : Nat) (r : List Seg) : incNth (.idx i :: r) = .idx (i + 1) :: r := rfl
theorem incNth_key (k : Bytes) (r : List Seg) : incNth (.key k :: r) = .key k :: r := rfl
theorem incNth_nil : incNth [] = [] := rfl
theorem incNth_length (p : List Seg) : (incNth p).length = p.length := by
  unfold incNth; split <;> simp

/-! ### `AddValue` -/

def expected_AddValue : List String := [
  "if 0 < len(h.Stack)",                                       -- `| top :: rest`
  "  switch ts := h.Stack[len(h.Stack)-1].(type)",             --   `addToTop top st.rpath.head? v`
  "    case map[string]any",                                   --     `| .obj kvs`
  "      ts[string(h.Path[len(h.Path)-1].(Child))] = v",       --       `.obj (kvInsert k v kvs)`
  "    case []any",                                            --     `| .arr xs`
  "      h.Stack[len(h.Stack)-1] = append(ts, v)",             --       `.arr (xs ++ [v])`
  "else if h.pathMatch(true)",                                 -- `| [] => if pathMatchAny … true`
  "  h.OnData(h.Path, v)",                                     --   `out := st.out ++ [(st.rpath.reverse, v)]`
  "h.incNth()"]                                                -- `rpath := incNth st.rpath` (every branch)

/-- `h.incNth()` is the last statement, outside the `if`: in every branch -/
theorem addValue_rpath (dv : Dev) (trs : List TargetRest) (st : St) (v : JV) :
    (addValue dv trs st v).rpath = incNth st.rpath := by
  unfold addValue; split
  · rfl
  · split <;> rfl

/-- no push, no pop; the top is replaced by `addToTop` -/
theorem addValue_stack (dv : Dev) (trs : List TargetRest) (st : St) (v : JV) :
    (addValue dv trs st v).stack =
      match st.stack with
      | top :: rest => addToTop top st.rpath.head? v :: rest
      | [] => [] := by
  unfold addValue; split
  · next h => simp [h]
  · next h => split <;> simp [h]

/-- `OnData` only with an empty stack and `h.pathMatch(true)` -/
theorem addValue_out (dv : Dev) (trs : List TargetRest) (st : St) (v : JV) :
    (addValue dv trs st v).out =
      if st.stack = [] ∧ pathMatchAny dv trs st.rpath.reverse true = true
      then st.out ++ [(st.rpath.reverse, v)] else st.out := by
  unfold addValue; split
  · next h => simp [h]
  · next h => split <;> simp_all

/-! ### `objArrayStart` -/

def expected_objArrayStart : List String := [
  "if 0 < len(h.Stack)",                                       -- `| top :: rest`
  "  switch ts := h.Stack[len(h.Stack)-1].(type)",             --   `addToTop top st.rpath.head? empty`
  "    case map[string]any",
  "      ts[string(h.Path[len(h.Path)-1].(Child))] = v",
  "    case []any",
  "      h.Stack[len(h.Stack)-1] = append(ts, v)",
  "  h.Stack = append(h.Stack, v)",                            --   `stack := empty :: … :: rest` (push)
  "else if h.pathMatch(false)",                                -- `| [] => if pathMatchAny … false`
  "  h.Stack = append(h.Stack, v)",                            --   `stack := [empty]` (push)
  "h.Path = append(h.Path, frag)"]                             -- `rpath := frag :: st.rpath` (every branch)

/-- `h.Path = append(h.Path, frag)` is the last statement, outside the `if`: in every branch -/
theorem startContainer_rpath (dv : Dev) (trs : List TargetRest) (st : St) (e : JV) (f : Seg) :
    (startContainer dv trs st e f).rpath = f :: st.rpath := by
  unfold startContainer; split
  · rfl
  · split <;> rfl

/-- the push: on a non-empty stack always (after the store into the top), on an empty one when
`h.pathMatch(false)` -/
theorem startContainer_stack (dv : Dev) (trs : List TargetRest) (st : St) (e : JV) (f : Seg) :
    (startContainer dv trs st e f).stack =
      match st.stack with
      | top :: rest => e :: addToTop top st.rpath.head? e :: rest
      | [] => if pathMatchAny dv trs st.rpath.reverse false then [e] else [] := by
  unfold startContainer; split
  · next h => simp [h]
  · next h => split <;> simp_all

/-- no `OnData` call -/
theorem startContainer_out (dv : Dev) (trs : List TargetRest) (st : St) (e : JV) (f : Seg) :
    (startContainer dv trs st e f).out = st.out := by
  unfold startContainer; split
  · rfl
  · split <;> rfl

/-! ### `objArrayEnd` -/

def expected_objArrayEnd : List String := [
  "h.Path = h.Path[:len(h.Path)-1]",                           -- `st.rpath.tail` (every branch)
  "if 0 < len(h.Stack)",                                       -- not `| []`
  "  if len(h.Stack) == 1",                                    --   `| [v]`
  "    if v, p, ok := h.checkRest(h.Stack[0]); ok",            --     `checkRest dv trs st.rpath.tail.reverse v`
  "      h.OnData(p, v)",                                      --     `out := st.out ++ checkRest …`
  "  v := h.Stack[len(h.Stack)-1]",                            --   `| v :: …`
  "  h.Stack = h.Stack[:len(h.Stack)-1]",                      --   `stack := []` / `stack := … :: rest` (pop)
  "  if 0 < len(h.Stack)",                                     --   `| v :: top :: rest`
  "    switch ts := h.Stack[len(h.Stack)-1].(type)",           --     `setInTop top st.rpath.tail.head? v`
  "      case map[string]any",                                 --       `| .obj kvs`
  "        ts[string(h.Path[len(h.Path)-1].(Child))] = v",     --         `.obj (kvInsert k v kvs)`
  "      case []any",                                          --       `| .arr xs`
  "        ts[h.Path[len(h.Path)-1].(Nth)] = v",               --         `.arr (xs.set i v)`
  "h.incNth()"]                                                -- `rpath := incNth st.rpath.tail` (every branch)

/-- the pop of `h.Path` is the first statement, `h.incNth()` the last: in every branch -/
theorem endContainer_rpath (dv : Dev) (trs : List TargetRest) (st : St) :
    (endContainer dv trs st).rpath = incNth st.rpath.tail := by
  unfold endContainer; split <;> rfl

/-- the pop of `h.Stack` (and the second store into the new top) -/
theorem endContainer_stack (dv : Dev) (trs : List TargetRest) (st : St) :
    (endContainer dv trs st).stack =
      match st.stack with
      | v :: top :: rest => setInTop top st.rpath.tail.head? v :: rest
      | _ => [] := by
  unfold endContainer; split <;> simp_all

theorem endContainer_stack_length (dv : Dev) (trs : List TargetRest) (st : St) :
    (endContainer dv trs st).stack.length = st.stack.length - 1 := by
  unfold endContainer; split <;> simp_all

/-- `OnData` exactly when the outermost collected container closes -/
theorem endContainer_out (dv : Dev) (trs : List TargetRest) (st : St) :
    (endContainer dv trs st).out =
      match st.stack with
      | [v] => st.out ++ checkRest dv trs st.rpath.tail.reverse v
      | _ => st.out := by
  unfold endContainer; split <;> simp_all

/-! ### `Key` -/

/-- `Key` overwrites the last path element and nothing else -/
theorem setKey_rpath (st : St) (k : Bytes) :
    (setKey st k).rpath = match st.rpath with | _ :: r => .key k :: r | [] => [] := by
  unfold setKey; split <;> simp_all
theorem setKey_stack (st : St) (k : Bytes) : (setKey st k).stack = st.stack := by
  unfold setKey; split <;> rfl
theorem setKey_out (st : St) (k : Bytes) : (setKey st k).out = st.out := by
  unfold setKey; split <;> rfl

/-! ### `pathMatch` (the handler's) and `NewMatchHandler` -/

def expected_pathMatch : List String := [
  "for _, tr := range h.Targets",                              -- `trs.any fun tr =>`
  "  if PathMatch(tr.Target, h.Path)",                         --   `pathMatch dv tr.target path &&`
  "    if !leaf || tr.Rest == nil",                            --   `(!leaf || tr.rest.isNone)`
  "      return true",
  "return false"]

theorem pathMatchAny_iff (dv : Dev) (trs : List TargetRest) (path : NPath) (leaf : Bool) :
    pathMatchAny dv trs path leaf = true ↔
      ∃ tr ∈ trs, pathMatch dv tr.target path = true ∧ (leaf = false ∨ tr.rest.isNone = true) := by
  unfold pathMatchAny
  simp only [List.any_eq_true, Bool.and_eq_true, Bool.or_eq_true, Bool.not_eq_true']

def expected_NewMatchHandler : List String := [
  "h := MatchHandler{ Path: R(), OnData: onData, }",           -- `St.init` (`rpath := []`: just the Root; no stack)
  "for _, target := range targets",                            -- `targets.map splitTarget` (in `matchRun`)
  "  tr := TargetRest{Target: target}",                        --   no filter: `⟨target, none⟩`
  "  for i, f := range target",
  "    if _, ok := f.(*Filter); ok",                           --   `| .filter p :: _`
  "      tr.Rest = target[i:]",                                --     `rest := some p` (trailing filter)
  "      tr.Target = target[:i]",                              --     `target :=` the fragments in front of it
  "      break",
  "  h.Targets = append(h.Targets, &tr)",
  "return &h"]

theorem St.init_eq : St.init = ⟨[], [], []⟩ := rfl
theorem matchRun_eq (dv : Dev) (targets : List Target) (evs : List Event) :
    matchRun dv targets evs = (run dv (targets.map splitTarget) St.init evs).out := rfl

/-- the methods declared on `MatchHandler`: the eleven token methods, the helpers rendered here, and
`checkRest` (read by `C17.dev_cur_matches_source`) — nothing else -/
def expected_declaredMethods : List String :=
  Method.all.map Method.goName ++
    ["AddValue", "objArrayStart", "objArrayEnd", "incNth", "checkRest", "pathMatch"]

/-! ## 3. the generated facts are the expected ones -/

theorem incNth_matches_source : Gen.MatchFacts.body_incNth = expected_incNth := by decide
theorem addValue_matches_source : Gen.MatchFacts.body_AddValue = expected_AddValue := by decide
theorem objArrayStart_matches_source :
    Gen.MatchFacts.body_objArrayStart = expected_objArrayStart := by decide
theorem objArrayEnd_matches_source :
    Gen.MatchFacts.body_objArrayEnd = expected_objArrayEnd := by decide
theorem pathMatch_matches_source : Gen.MatchFacts.body_pathMatch = expected_pathMatch := by decide
theorem newMatchHandler_matches_source :
    Gen.MatchFacts.body_NewMatchHandler = expected_NewMatchHandler := by decide
theorem declaredMethods_match_source :
    Gen.MatchFacts.declaredMethods = expected_declaredMethods := by decide

/-- the declarations of the helpers (receiver, parameters, results) -/
theorem helper_sigs_match_source :
    Gen.MatchFacts.helperMethods.map (fun m => (m.1, m.2.1)) =
      [("AddValue", "func (h *MatchHandler) AddValue(v any)"),
       ("objArrayStart", "func (h *MatchHandler) objArrayStart(v any, frag Frag)"),
       ("objArrayEnd", "func (h *MatchHandler) objArrayEnd()"),
       ("incNth", "func (h *MatchHandler) incNth()"),
       ("pathMatch", "func (h *MatchHandler) pathMatch(leaf bool) bool"),
       ("NewMatchHandler",
        "func NewMatchHandler(onData func(path Expr, data any), targets ...Expr) *MatchHandler")] := by
  decide

/-- Syntactic tripwire (NOT a proof that the Go code is the model; that tie is the correspondence
run): the event methods of `jp.MatchHandler` and the helpers they call, rendered statement by
statement from jp/matchhandler.go on every run (tools/extract/match.go), are the statements this
file lists next to the model branches they stand for; the token methods are the calls that the
dispatch table of the model (`modelMethods`, proved to be `step` by `step_eq_modelMethods`) computes.
Dropping, reordering or re-conditioning a push/pop of `h.Stack` / `h.Path`, an `incNth()` or `OnData`
call, or changing a start fragment (`Child("")`, `Nth(0)`) breaks this theorem. -/
theorem handler_methods_match_source :
    Gen.MatchFacts.tokenMethods = Method.all.map Method.expected ∧
    Gen.MatchFacts.helperMethods =
      [("AddValue", "func (h *MatchHandler) AddValue(v any)", expected_AddValue),
       ("objArrayStart", "func (h *MatchHandler) objArrayStart(v any, frag Frag)", expected_objArrayStart),
       ("objArrayEnd", "func (h *MatchHandler) objArrayEnd()", expected_objArrayEnd),
       ("incNth", "func (h *MatchHandler) incNth()", expected_incNth),
       ("pathMatch", "func (h *MatchHandler) pathMatch(leaf bool) bool", expected_pathMatch),
       ("NewMatchHandler",
        "func NewMatchHandler(onData func(path Expr, data any), targets ...Expr) *MatchHandler",
        expected_NewMatchHandler)] ∧
    Gen.MatchFacts.declaredMethods = expected_declaredMethods := by
  refine ⟨token_methods_match_source, ?_, declaredMethods_match_source⟩
  decide

end OjgVerif.Match
