import OjgVerif.Match.LemmasTokRaw
import OjgVerif.Json.Ctl
import OjgVerif.Json.SwitchFacts
/-! The handler calls of the tokenizer (`emit`, Match/Tokenizer.lean) against the build stack of the
machine: after every byte the events handed over so far are the events of the documents already
delivered followed by the events of the partly built value on the stack (`TokPre`), where the
machine's stack is the raw stack with repeated member names overwritten (`dd`). Hence for an
accepted input the event sequence is `events` of the trees as written (`tokEvents_accepted_ref`).
Uses the machine's own invariants (`WF`, `Shape`: Json/Wf.lean), its frame (`stepAct_frame`) and
control abstraction (`stepAct_ctl_eq`). -/
namespace OjgVerif.Match
open OjgVerif OjgVerif.Json

def TokCore (stack : List Item) (docs : List JV) (evs : List Event) (RS : List Item) (raws : List JV) : Prop :=
  stack = RS.map ddItem ∧ docs = (raws.map dd).reverse ∧ evs = raws.flatMap events ++ openEv RS

/-- the invariant; the last clause only matters between the action switch and the delivery test -/
def TokPre (s : Json.St) (evs : List Event) : Prop :=
  ∃ RS raws, TokCore s.stack s.docs evs RS raws ∧ (s.starts = [] → s.mode = .after → ∃ rv, RS = [.val rv])

theorem shape_nil {st : List Item} {need : Bool} (h : Shape [] st need) : st = [] := by
  simpa [Shape] using h

theorem dd_num (n : Num) : dd n.asNum.toJV = n.asNum.toJV := by
  cases n.asNum <;> rfl

theorem events_num (n : Num) : events n.asNum.toJV = [.leaf n.asNum.toJV] := by
  cases n.asNum <;> rfl

theorem core_add {s s2 : Json.St} {evs : List Event} {RS : List Item} {raws : List JV} (rv : JV)
    (hc : TokCore s.stack s.docs evs RS raws) (h : s.add (dd rv) = .ok s2) :
    TokCore s2.stack s2.docs (evs ++ events rv) (rawAdd rv RS) raws ∧
      s2.mode = s.mode ∧ s2.nextMode = s.nextMode ∧ s2.starts = s.starts := by
  unfold St.add at h
  cases ha : addItem (dd rv) s.stack with
  | error w => rw [ha] at h; cases h
  | ok st =>
    rw [ha] at h
    simp only [Except.ok.injEq] at h
    subst h
    obtain ⟨h1, h2, h3⟩ := hc
    rw [h1] at ha
    refine ⟨⟨addItem_raw rv RS st ha, h2, ?_⟩, rfl, rfl, rfl⟩
    rw [h3, openEv_rawAdd, List.append_assoc]

/-- at the top level (no container open) the stack is empty before a value and `[value]` after it -/
theorem top_after_add {s : Json.St} {evs : List Event} {RS : List Item} {raws : List JV} (rv : JV) (hw : WF s)
    (hc : TokCore s.stack s.docs evs RS raws) (hs : s.starts = []) : rawAdd rv RS = [.val rv] := by
  have h0 : s.stack = [] := shape_nil (by have := hw.shape; rw [hs] at this; exact this)
  have : RS = [] := by
    have := hc.1
    rw [h0] at this
    exact List.map_eq_nil_iff.mp this.symm
  rw [this]; rfl

theorem core_addNum {s s2 : Json.St} {evs : List Event} {RS : List Item} {raws : List JV}
    (hc : TokCore s.stack s.docs evs RS raws) (h : s.addNum = .ok s2) :
    TokCore s2.stack s2.docs (evs ++ [numEvent s]) (rawAdd s.num.asNum.toJV RS) raws ∧
      s2.mode = s.mode ∧ s2.nextMode = s.nextMode ∧ s2.starts = s.starts := by
  have h' : s.add (dd s.num.asNum.toJV) = .ok s2 := by rw [dd_num]; exact h
  have := core_add s.num.asNum.toJV hc h'
  rw [events_num] at this
  exact this

/-- `stepToken`: either the literal is not complete (nothing changes but the counter), or it is and
its value is added -/
theorem stepToken_cases (s : Json.St) (b : UInt8) (s2 : Json.St) (ht : stepToken refTables s b = .ok s2) :
    (tokenEv refTables s b = [] ∧ s2.stack = s.stack ∧ s2.docs = s.docs ∧ s2.mode = s.mode ∧ s2.starts = s.starts) ∨
    (∃ (v : JV) (s0 : Json.St), dd v = v ∧ tokenEv refTables s b = events v ∧ s0.stack = s.stack ∧ s0.docs = s.docs ∧
      s0.starts = s.starts ∧ s0.add v = .ok s2) := by
  unfold stepToken at ht
  unfold tokenEv
  simp only at ht ⊢
  split at ht
  · rename_i h1
    simp only [h1, ↓reduceIte]
    split at ht
    · rename_i h2
      simp only [h2, ↓reduceIte]
      split at ht
      · rename_i h3
        simp only [h3, ↓reduceIte]
        exact Or.inr ⟨.bool true, ({ s with ri := s.ri + 1, mode := .after } : Json.St), rfl, rfl, rfl, rfl, rfl, ht⟩
      · rename_i h3
        simp only [h3, ↓reduceIte]
        cases ht
        exact Or.inl (by simp)
    · cases ht
  · rename_i h1
    simp only [h1, ↓reduceIte]
    split at ht
    · rename_i h1'
      simp only [h1', ↓reduceIte]
      split at ht
      · rename_i h2
        simp only [h2, ↓reduceIte]
        split at ht
        · rename_i h3
          simp only [h3, ↓reduceIte]
          exact Or.inr ⟨.bool false, ({ s with ri := s.ri + 1, mode := .after } : Json.St), rfl, rfl, rfl, rfl, rfl, ht⟩
        · rename_i h3
          simp only [h3, ↓reduceIte]
          cases ht
          exact Or.inl (by simp)
      · cases ht
    · rename_i h1'
      simp only [h1', ↓reduceIte]
      split at ht
      · rename_i h1''
        simp only [h1'', ↓reduceIte]
        split at ht
        · rename_i h2
          simp only [h2, ↓reduceIte]
          split at ht
          · rename_i h3
            simp only [h3, ↓reduceIte]
            exact Or.inr ⟨.null, ({ s with ri := s.ri + 1, mode := .after } : Json.St), rfl, rfl, rfl, rfl, rfl, ht⟩
          · rename_i h3
            simp only [h3, ↓reduceIte]
            cases ht
            exact Or.inl (by simp)
        · cases ht
      · rename_i h1''
        simp only [h1'', ↓reduceIte]
        cases ht
        exact Or.inl (by simp)

theorem flush_core {s sa : Json.St} {evs : List Event} {RS : List Item} {raws : List JV}
    (hc : TokCore s.stack s.docs evs RS raws) (h : s.flushNum refTables = .ok sa) :
    ∃ RSa, TokCore sa.stack sa.docs (evs ++ flushEv refTables s) RSa raws ∧ sa.starts = s.starts ∧
      ((refTables.fin s.mode = .n ∧ RSa = rawAdd s.num.asNum.toJV RS) ∨ (refTables.fin s.mode ≠ .n ∧ RSa = RS)) := by
  unfold St.flushNum at h
  unfold flushEv
  by_cases hn : refTables.fin s.mode = .n
  · simp only [hn, ↓reduceIte] at h ⊢
    obtain ⟨hc2, _, _, hst⟩ := core_addNum hc h
    exact ⟨_, hc2, hst, Or.inl ⟨trivial, rfl⟩⟩
  · simp only [hn, ↓reduceIte, Except.ok.injEq] at h ⊢
    subst h
    exact ⟨RS, by simpa using hc, rfl, Or.inr ⟨hn, rfl⟩⟩

theorem map_ddItem_key_obj {RS : List Item} {k : Bytes} {kvs : List (Bytes × JV)} {below : List Item}
    (h : RS.map ddItem = .key k :: .obj kvs :: below) :
    ∃ rkvs rbelow, RS = .key k :: .obj rkvs :: rbelow ∧ rbelow.map ddItem = below := by
  match RS with
  | [] => simp at h
  | [it] => simp at h
  | it1 :: it2 :: r =>
    cases it1 <;> cases it2 <;> simp [ddItem] at h
    obtain ⟨rfl, _, rfl⟩ := h
    exact ⟨_, _, rfl, rfl⟩

theorem map_ddItem_obj {RS : List Item} {kvs : List (Bytes × JV)} {below : List Item}
    (h : RS.map ddItem = .obj kvs :: below) :
    ∃ rkvs rbelow, RS = .obj rkvs :: rbelow ∧ rbelow.map ddItem = below := by
  match RS with
  | [] => simp at h
  | it1 :: r =>
    cases it1 <;> simp [ddItem] at h
    obtain ⟨_, rfl⟩ := h
    exact ⟨_, _, rfl, rfl⟩

theorem map_ddItem_vals : ∀ (vals : List Item) (RS : List Item) (below : List Item),
    RS.map ddItem = vals ++ .arrMark :: below → (∀ it ∈ vals, it.isVal = true) →
    ∃ rvals rbelow, RS = rvals ++ .arrMark :: rbelow ∧ (∀ it ∈ rvals, it.isVal = true) ∧ rbelow.map ddItem = below
  | [], RS, below, h, _ => by
    match RS with
    | [] => simp at h
    | it :: r =>
      cases it <;> simp [ddItem] at h
      subst h
      exact ⟨[], r, rfl, by simp, rfl⟩
  | x :: vs, RS, below, h, hv => by
    match RS with
    | [] => simp at h
    | it :: r =>
      simp only [List.map_cons, List.cons_append, List.cons.injEq] at h
      obtain ⟨rvals, rbelow, h1, h2, h3⟩ := map_ddItem_vals vs r below h.2 (fun it hit => hv it (List.mem_cons_of_mem _ hit))
      have hx := hv x List.mem_cons_self
      have hit : it.isVal = true := by
        rw [← h.1] at hx
        cases it <;> simp [ddItem, Item.isVal] at hx ⊢
      refine ⟨it :: rvals, rbelow, by simp [h1], ?_, h3⟩
      intro y hy
      rcases List.mem_cons.mp hy with rfl | hy
      · exact hit
      · exact h2 y hy

theorem rawAdd_vals (rv : JV) (rvals rbelow : List Item) (hv : ∀ it ∈ rvals, it.isVal = true) :
    rawAdd rv (rvals ++ .arrMark :: rbelow) = .val rv :: (rvals ++ .arrMark :: rbelow) := by
  match rvals with
  | [] => rfl
  | x :: r =>
    have hx := hv x List.mem_cons_self
    cases x <;> simp [Item.isVal] at hx
    rfl

theorem fin_n_modes {m : Mode} (h : refTables.fin m = .n) : m = .zero ∨ m = .digit ∨ m = .frac ∨ m = .exp := by
  have : expectedFin m = .n := h
  cases m <;> simp [expectedFin] at this <;> simp


/-! ## the actions that call the handler -/

section
variable (cfg : Cfg) (s s1 : Json.St) (b : UInt8) (c : Bool) (evs : List Event)
variable (hw : WF s) (hp : TokPre s evs) (h : stepAct refTables cfg s b = .ok (s1, c))
include hw hp h

theorem tok_openObject (hact : Json.expected s.mode b = .openObject) : TokPre s1 (evs ++ emit refTables s b) := by
  obtain ⟨RS, raws, ⟨h1, h2, h3⟩, _⟩ := hp
  unfold stepAct at h
  simp only [show refTables.act s.mode b = .openObject from hact, Except.ok.injEq, Prod.mk.injEq] at h
  simp only [emit, show refTables.act s.mode b = .openObject from hact]
  rw [← h.1]
  refine ⟨.obj [] :: RS, raws, ⟨by simp [h1, ddItem, ddKvs], h2, ?_⟩, fun hs => by simp at hs⟩
  simp [h3, openEv, itemEv, eventsKvs]

theorem tok_openArray (hact : Json.expected s.mode b = .openArray) : TokPre s1 (evs ++ emit refTables s b) := by
  obtain ⟨RS, raws, ⟨h1, h2, h3⟩, _⟩ := hp
  unfold stepAct at h
  simp only [show refTables.act s.mode b = .openArray from hact, Except.ok.injEq, Prod.mk.injEq] at h
  simp only [emit, show refTables.act s.mode b = .openArray from hact]
  rw [← h.1]
  refine ⟨.arrMark :: RS, raws, ⟨by simp [h1, ddItem], h2, ?_⟩, fun hs => by simp at hs⟩
  simp [h3, openEv, itemEv]

theorem tok_numSpc (hact : Json.expected s.mode b = .numSpc) : TokPre s1 (evs ++ emit refTables s b) := by
  obtain ⟨RS, raws, hc, _⟩ := hp
  unfold stepAct at h
  simp only [show refTables.act s.mode b = .numSpc from hact, bind, Except.bind] at h
  simp only [emit, show refTables.act s.mode b = .numSpc from hact]
  cases ha : s.addNum with
  | error e => rw [ha] at h; cases h
  | ok s2 =>
    rw [ha] at h
    simp only [pure, Except.pure, Except.ok.injEq, Prod.mk.injEq] at h
    obtain ⟨hc2, _, _, hst⟩ := core_addNum hc ha
    rw [← h.1]
    exact ⟨_, raws, hc2, fun hs _ => ⟨_, top_after_add _ hw hc (by rw [← hst]; exact hs)⟩⟩

theorem tok_numNewline (hact : Json.expected s.mode b = .numNewline) : TokPre s1 (evs ++ emit refTables s b) := by
  obtain ⟨RS, raws, hc, _⟩ := hp
  unfold stepAct at h
  simp only [show refTables.act s.mode b = .numNewline from hact, bind, Except.bind] at h
  simp only [emit, show refTables.act s.mode b = .numNewline from hact]
  cases ha : s.addNum with
  | error e => rw [ha] at h; cases h
  | ok s2 =>
    rw [ha] at h
    simp only [pure, Except.pure, Except.ok.injEq, Prod.mk.injEq] at h
    obtain ⟨hc2, _, _, hst⟩ := core_addNum hc ha
    rw [← h.1]
    exact ⟨_, raws, hc2, fun hs _ => ⟨_, top_after_add _ hw hc (by rw [← hst]; exact hs)⟩⟩

theorem tok_numComma (hact : Json.expected s.mode b = .numComma) : TokPre s1 (evs ++ emit refTables s b) := by
  obtain ⟨RS, raws, hc, _⟩ := hp
  unfold stepAct at h
  simp only [show refTables.act s.mode b = .numComma from hact, bind, Except.bind] at h
  simp only [emit, show refTables.act s.mode b = .numComma from hact]
  cases ha : s.addNum with
  | error e => rw [ha] at h; cases h
  | ok s2 =>
    rw [ha] at h
    simp only at h
    split at h
    · cases h
    · simp only [pure, Except.pure, Except.ok.injEq, Prod.mk.injEq] at h
      obtain ⟨hc2, _, _, _⟩ := core_addNum hc ha
      rw [← h.1]
      exact ⟨_, raws, hc2, fun _ hm => absurd hm (afterCommaMode_ne_after s2)⟩

theorem tok_strQuote (hact : Json.expected s.mode b = .strQuote) : TokPre s1 (evs ++ emit refTables s b) := by
  obtain ⟨RS, raws, hc, _⟩ := hp
  unfold stepAct at h
  simp only [show refTables.act s.mode b = .strQuote from hact] at h
  simp only [emit, show refTables.act s.mode b = .strQuote from hact]
  by_cases hk : refTables.act s.nextMode 58 = .colonColon
  · simp only [hk, ↓reduceIte, Except.ok.injEq, Prod.mk.injEq] at h ⊢
    rw [← h.1]
    obtain ⟨h1, h2, h3⟩ := hc
    refine ⟨.key s.tmp.reverse :: RS, raws, ⟨by simp [h1, ddItem], h2, ?_⟩, fun _ hm => ?_⟩
    · simp [h3, openEv, itemEv]
    · exfalso
      simp only at hm
      rw [hm] at hk
      revert hk
      decide
  · simp only [hk, ↓reduceIte, bind, Except.bind] at h ⊢
    cases ha : ({ s with mode := s.nextMode } : Json.St).add (.str s.tmp.reverse) with
    | error e => rw [ha] at h; cases h
    | ok s2 =>
      rw [ha] at h
      simp only [pure, Except.pure, Except.ok.injEq, Prod.mk.injEq] at h
      have hc' : TokCore ({ s with mode := s.nextMode } : Json.St).stack ({ s with mode := s.nextMode } : Json.St).docs
          evs RS raws := hc
      obtain ⟨hc2, _, _, hst⟩ := core_add (.str s.tmp.reverse) hc' ha
      rw [← h.1]
      exact ⟨_, raws, hc2, fun hs _ => ⟨_, top_after_add _ hw hc (by rw [← hs, hst])⟩⟩

theorem tok_tokenOk (hact : Json.expected s.mode b = .tokenOk) : TokPre s1 (evs ++ emit refTables s b) := by
  have hsrc := src_ok s.mode b
  rw [hact] at hsrc
  have hm : s.mode ≠ .after := by
    intro hm
    rw [hm] at hsrc
    simp [srcModes] at hsrc
  have hcases := stepToken_cases s b
  obtain ⟨RS, raws, hc, _⟩ := hp
  unfold stepAct at h
  simp only [show refTables.act s.mode b = .tokenOk from hact, bind, Except.bind] at h
  simp only [emit, show refTables.act s.mode b = .tokenOk from hact]
  cases ht : stepToken refTables s b with
  | error e => rw [ht] at h; cases h
  | ok s2 =>
    rw [ht] at h
    simp only [pure, Except.pure, Except.ok.injEq, Prod.mk.injEq] at h
    rw [← h.1]
    rcases hcases s2 ht with ⟨e1, e2, e3, e4, _⟩ | ⟨v, s0, hv, e1, e2, e3, e4, hadd⟩
    · rw [e1, List.append_nil]
      refine ⟨RS, raws, ?_, fun _ hm' => absurd (e4 ▸ hm') hm⟩
      rw [e2, e3]; exact hc
    · rw [e1]
      have hc0 : TokCore s0.stack s0.docs evs RS raws := by rw [e2, e3]; exact hc
      rw [← hv] at hadd
      obtain ⟨hc2, _, _, hst⟩ := core_add v hc0 hadd
      refine ⟨_, raws, hc2, fun hs _ => ⟨_, top_after_add v hw hc (by rw [← e4, ← hst]; exact hs)⟩⟩

theorem tok_closeObject (hact : Json.expected s.mode b = .closeObject) : TokPre s1 (evs ++ emit refTables s b) := by
  have hsrc := src_ok s.mode b
  rw [hact] at hsrc
  obtain ⟨RS, raws, hc, _⟩ := hp
  unfold stepAct at h
  simp only [show refTables.act s.mode b = .closeObject from hact] at h
  simp only [emit, show refTables.act s.mode b = .closeObject from hact]
  split at h
  · rename_i rest hst
    simp only [hst]
    split at h
    · cases h
    · rename_i hv
      simp only [hv, ↓reduceIte]
      simp only [bind, Except.bind] at h
      cases h1 : s.flushNum refTables with
      | error e => rw [h1] at h; cases h
      | ok sa =>
        rw [h1] at h
        simp only at h
        cases h2 : sa.popObj rest with
        | error e => rw [h2] at h; cases h
        | ok sb =>
          rw [h2] at h
          simp only [pure, Except.pure, Except.ok.injEq, Prod.mk.injEq] at h
          rw [← h.1]
          obtain ⟨RSa, hca, _, hor⟩ := flush_core hc h1
          have hshape := hw.shape
          rw [hst] at hshape
          -- the raw stack after the flush has the open object on top
          have hobj : ∃ rkvs rbelow, RSa = .obj rkvs :: rbelow ∧ Shape rest (rbelow.map ddItem) true := by
            rcases hor with ⟨hn, hra⟩ | ⟨hn, hra⟩
            · have hm := fin_n_modes hn
              have hneed : needVal s.mode s.nextMode = true := by
                rcases hm with hm | hm | hm | hm <;> simp [needVal, hm]
              rw [hneed] at hshape
              simp only [Shape, ↓reduceIte] at hshape
              obtain ⟨k, kvs, below, hs, hb⟩ := hshape
              obtain ⟨rkvs, rbelow, hr, hbel⟩ := map_ddItem_key_obj (hc.1 ▸ hs)
              refine ⟨rkvs ++ [(k, s.num.asNum.toJV)], rbelow, ?_, by rw [hbel]; exact hb⟩
              rw [hra, hr]; rfl
            · have hneed : needVal s.mode s.nextMode = false := by
                simp only [srcModes, List.mem_cons, List.not_mem_nil, or_false] at hsrc
                rcases hsrc with hm | hm | hm | hm | hm | hm | hm
                · exfalso; apply hv; rw [hm]; rfl
                · simp [needVal, hm]
                · simp [needVal, hm]
                all_goals (exfalso; apply hn; rw [hm]; rfl)
              rw [hneed] at hshape
              simp only [Shape, Bool.false_eq_true, ↓reduceIte] at hshape
              obtain ⟨kvs, below, hs, hb⟩ := hshape
              obtain ⟨rkvs, rbelow, hr, hbel⟩ := map_ddItem_obj (hc.1 ▸ hs)
              exact ⟨rkvs, rbelow, by rw [hra, hr], by rw [hbel]; exact hb⟩
          obtain ⟨rkvs, rbelow, hRSa, hsh⟩ := hobj
          obtain ⟨ha1, ha2, ha3⟩ := hca
          unfold St.popObj at h2
          rw [ha1, hRSa] at h2
          simp only [List.map_cons, ddItem, Item.toJV] at h2
          have hdd : JV.obj (ddKvs [] rkvs) = dd (.obj rkvs) := by simp [dd]
          rw [hdd] at h2
          have hc0 : TokCore ({ sa with starts := rest, stack := rbelow.map ddItem } : Json.St).stack
              ({ sa with starts := rest, stack := rbelow.map ddItem } : Json.St).docs
              (raws.flatMap events ++ openEv rbelow) rbelow raws := ⟨rfl, ha2, rfl⟩
          obtain ⟨hc2, _, _, hst2⟩ := core_add (.obj rkvs) hc0 h2
          refine ⟨_, raws, ⟨hc2.1, hc2.2.1, ?_⟩, fun hs _ => ?_⟩
          · rw [← hc2.2.2, ← List.append_assoc, ha3, hRSa]
            simp [openEv, itemEv, events]
          · have hr : rest = [] := by rw [← hs]; exact hst2.symm
            rw [hr] at hsh
            have : rbelow = [] := List.map_eq_nil_iff.mp (shape_nil hsh)
            exact ⟨_, by rw [this]; rfl⟩
  · cases h

theorem tok_closeArray (hact : Json.expected s.mode b = .closeArray) : TokPre s1 (evs ++ emit refTables s b) := by
  obtain ⟨RS, raws, hc, _⟩ := hp
  unfold stepAct at h
  simp only [show refTables.act s.mode b = .closeArray from hact] at h
  simp only [emit, show refTables.act s.mode b = .closeArray from hact]
  split at h
  · rename_i rest hst
    simp only [hst]
    simp only [bind, Except.bind] at h
    cases h1 : s.flushNum refTables with
    | error e => rw [h1] at h; cases h
    | ok sa =>
      rw [h1] at h
      simp only at h
      cases h2 : sa.popArr rest with
      | error e => rw [h2] at h; cases h
      | ok sb =>
        rw [h2] at h
        simp only [pure, Except.pure, Except.ok.injEq, Prod.mk.injEq] at h
        rw [← h.1]
        obtain ⟨RSa, hca, _, hor⟩ := flush_core hc h1
        have hshape := hw.shape
        rw [hst] at hshape
        obtain ⟨vals, below, hs, hvals, hb⟩ := hshape
        obtain ⟨rvals, rbelow, hr, hrv, hbel⟩ := map_ddItem_vals vals RS below (hc.1 ▸ hs) hvals
        have harr : ∃ rvals', RSa = rvals' ++ .arrMark :: rbelow ∧ (∀ it ∈ rvals', it.isVal = true) := by
          rcases hor with ⟨_, hra⟩ | ⟨_, hra⟩
          · refine ⟨.val s.num.asNum.toJV :: rvals, ?_, ?_⟩
            · rw [hra, hr, rawAdd_vals _ _ _ hrv]; rfl
            · intro it hit
              rcases List.mem_cons.mp hit with rfl | hit
              · rfl
              · exact hrv it hit
          · exact ⟨rvals, by rw [hra, hr], hrv⟩
        obtain ⟨rvals', hRSa, hrv'⟩ := harr
        obtain ⟨relems, hsplit, hopen⟩ := splitAtMark_vals rvals' rbelow hrv' []
        obtain ⟨ha1, ha2, ha3⟩ := hca
        unfold St.popArr at h2
        have hsp : splitAtMark sa.stack [] = some (relems.map dd, rbelow.map ddItem) := by
          have := splitAtMark_raw RSa []
          rw [List.map_nil, ← ha1, hRSa, hsplit] at this
          simpa using this
        rw [hsp] at h2
        simp only at h2
        have hdd : JV.arr (relems.map dd) = dd (.arr relems) := by simp [dd, ddList_eq_map]
        rw [hdd] at h2
        have hc0 : TokCore ({ sa with starts := rest, stack := rbelow.map ddItem } : Json.St).stack
            ({ sa with starts := rest, stack := rbelow.map ddItem } : Json.St).docs
            (raws.flatMap events ++ openEv rbelow) rbelow raws := ⟨rfl, ha2, rfl⟩
        obtain ⟨hc2, _, _, hst2⟩ := core_add (.arr relems) hc0 h2
        refine ⟨_, raws, ⟨hc2.1, hc2.2.1, ?_⟩, fun hs' _ => ?_⟩
        · rw [← hc2.2.2, ← List.append_assoc, ha3, hRSa, hopen]
          simp [events]
        · have hr' : rest = [] := by rw [← hs']; exact hst2.symm
          rw [hr', ← hbel] at hb
          have : rbelow = [] := List.map_eq_nil_iff.mp (shape_nil hb)
          exact ⟨_, by rw [this]; rfl⟩
  · cases h

end

/-! ## the other actions: no handler call, the build stack is not touched -/

theorem emit_noemit (s : Json.St) (b : UInt8) (h : (Json.expected s.mode b).emits = false) : emit refTables s b = [] := by
  unfold emit
  have : refTables.act s.mode b = Json.expected s.mode b := rfl
  rw [this]
  cases hact : Json.expected s.mode b <;> rw [hact] at h <;> simp [Act.emits] at h <;> rfl

theorem noemit_stack (a : Act) (h : a.emits = false) : Fld.stack ∉ a.touches := by
  cases a <;> simp [Act.emits] at h <;> simp [Act.touches]

theorem actCtl_noemit (a : Act) (c : Ctl) (h : a.emits = false) :
    (actCtl a c).starts = c.starts ∧ ((actCtl a c).mode = .after → c.mode = .after) := by
  cases a <;> simp [Act.emits] at h <;> simp [actCtl]
  case afterComma => unfold afterCommaModeL; split <;> simp
  case uOk => split <;> simp

theorem stepAct_tok (cfg : Cfg) (s s1 : Json.St) (b : UInt8) (c : Bool) (evs : List Event)
    (hw : WF s) (hp : TokPre s evs) (h : stepAct refTables cfg s b = .ok (s1, c)) :
    TokPre s1 (evs ++ emit refTables s b) := by
  by_cases hem : (Json.expected s.mode b).emits = true
  · cases hact : Json.expected s.mode b <;> rw [hact] at hem <;> simp [Act.emits] at hem
    · exact tok_openArray cfg s s1 b c evs hw hp h hact
    · exact tok_openObject cfg s s1 b c evs hw hp h hact
    · exact tok_closeArray cfg s s1 b c evs hw hp h hact
    · exact tok_closeObject cfg s s1 b c evs hw hp h hact
    · exact tok_numSpc cfg s s1 b c evs hw hp h hact
    · exact tok_numNewline cfg s s1 b c evs hw hp h hact
    · exact tok_numComma cfg s s1 b c evs hw hp h hact
    · exact tok_strQuote cfg s s1 b c evs hw hp h hact
    · exact tok_tokenOk cfg s s1 b c evs hw hp h hact
  · have hem' : (Json.expected s.mode b).emits = false := by simpa using hem
    rw [emit_noemit s b hem', List.append_nil]
    obtain ⟨RS, raws, hc, _⟩ := hp
    have hk := stepAct_frame refTables cfg s s1 b c h
    have hstack : s1.stack = s.stack := hk.2.2.2.1 (noemit_stack _ hem')
    have hdocs : s1.docs = s.docs := hk.2.2.2.2.2.2.2.2.2.2.1
    have hctl := stepAct_ctl_eq cfg s s1 b c h
    obtain ⟨k1, k2⟩ := actCtl_noemit (Json.expected s.mode b) s.ctl hem'
    refine ⟨RS, raws, by rw [hstack, hdocs]; exact hc, fun hs hm => ?_⟩
    exfalso
    have h1 : s1.ctl.starts = s.starts := by rw [hctl]; exact k1
    have h2 : s.mode = .after := k2 (by rw [← hctl]; exact hm)
    exact hw.ctl.after h2 (by rw [← h1]; exact hs)

theorem fin_a_mode {m : Mode} (h : refTables.fin m = .a) : m = .after := by
  have : expectedFin m = .a := h
  cases m <;> simp [expectedFin] at this
  rfl

theorem deliver_tok (cfg : Cfg) (s : Json.St) (evs : List Event) (hp : TokPre s evs) :
    TokPre (deliver refTables cfg s) evs := by
  unfold deliver
  split
  · rename_i hcnd
    simp only [Bool.and_eq_true, List.isEmpty_iff, decide_eq_true_eq] at hcnd
    obtain ⟨RS, raws, ⟨h1, h2, h3⟩, htop⟩ := hp
    obtain ⟨rv, hrv⟩ := htop hcnd.1 (fin_a_mode hcnd.2)
    subst hrv
    refine ⟨[], raws ++ [rv], ⟨rfl, ?_, ?_⟩, fun _ hm => ?_⟩
    · simp [h1, h2, ddItem, Item.toJV]
    · simp [h3, openEv, itemEv]
    · exfalso
      simp only at hm
      split at hm <;> cases hm
  · exact hp

theorem step_tok (cfg : Cfg) (s s' : Json.St) (b : UInt8) (evs : List Event)
    (hw : WF s) (hp : TokPre s evs) (h : Json.step refTables cfg s b = .ok s') :
    TokPre s' (evs ++ emit refTables s b) := by
  unfold Json.step at h
  cases hst : stepAct refTables cfg s b with
  | error e => rw [hst] at h; cases h
  | ok p =>
    obtain ⟨s1, c⟩ := p
    rw [hst] at h
    simp only [Except.ok.injEq] at h
    have h1 := stepAct_tok cfg s s1 b c evs hw hp hst
    have h2 : TokPre (if c then s1 else deliver refTables cfg s1) (evs ++ emit refTables s b) := by
      cases c
      · exact deliver_tok cfg s1 _ h1
      · exact h1
    rw [← h]
    exact h2

theorem runBytes_tok (cfg : Cfg) (bs : Bytes) (s s' : Json.St) (evs : List Event)
    (hw : WF s) (hp : TokPre s evs) (h : runBytes refTables cfg s bs = .ok s') :
    TokPre s' (evs ++ evBytes refTables cfg s bs) := by
  induction bs generalizing s evs with
  | nil => cases h; simpa [evBytes] using hp
  | cons b r ih =>
    simp only [runBytes] at h
    cases hst : Json.step refTables cfg s b with
    | error e => rw [hst] at h; cases h
    | ok s2 =>
      rw [hst] at h
      have := ih s2 _ ((step_wf cfg s b hw).2 s2 hst) (step_tok cfg s s2 b evs hw hp hst) h
      simpa [evBytes, hst, List.append_assoc] using this

theorem runChunks_tok (cfg : Cfg) (cs : List Bytes) (s s' : Json.St) (evs : List Event)
    (hw : WF s) (hp : TokPre s evs) (h : runChunks refTables cfg s cs = .ok s') :
    WF s' ∧ TokPre s' (evs ++ evChunks refTables cfg s cs) := by
  induction cs generalizing s evs with
  | nil => cases h; exact ⟨hw, by simpa [evChunks] using hp⟩
  | cons c r ih =>
    simp only [runChunks] at h
    cases hst : runBytes refTables cfg s c with
    | error e => rw [hst] at h; cases h
    | ok s2 =>
      rw [hst] at h
      have hw2 := (runBytes_wf cfg c s hw).2 s2 hst
      have hp2 := runBytes_tok cfg c s s2 evs hw hp hst
      have := ih { s2 with inFast := false } _
        ⟨⟨hw2.ctl.after, hw2.ctl.comma, hw2.ctl.next⟩, hw2.obj, hw2.arr, hw2.shape⟩ hp2 h
      simpa [evChunks, hst, List.append_assoc] using this

theorem finish_tok (s : Json.St) (evs : List Event) (docs : List JV) (hw : WF s) (hp : TokPre s evs)
    (h : finish refTables s = .ok docs) :
    ∃ raws : List JV, raws.map dd = docs ∧ evs ++ finishEv refTables s = raws.flatMap events := by
  obtain ⟨RS, raws, hc, _⟩ := hp
  unfold finish at h
  unfold finishEv
  split at h
  · cases h
  · rename_i hcnd
    simp only [hcnd]
    have hs : s.starts = [] := by
      cases hst : s.starts with
      | nil => rfl
      | cons x r => simp [hst] at hcnd
    have hRS : RS = [] := by
      have h0 : s.stack = [] := shape_nil (by have := hw.shape; rw [hs] at this; exact this)
      have := hc.1
      rw [h0] at this
      exact List.map_eq_nil_iff.mp this.symm
    unfold flushEv
    split at h
    · rename_i hn
      simp only [hn, ↓reduceIte]
      cases ha : s.addNum with
      | error e => rw [ha] at h; cases h
      | ok s2 =>
        rw [ha] at h
        simp only [Except.ok.injEq] at h
        obtain ⟨⟨h1, h2, h3⟩, _, _, _⟩ := core_addNum hc ha
        rw [hRS] at h1 h3
        refine ⟨raws ++ [s.num.asNum.toJV], ?_, ?_⟩
        · rw [← h, h1, h2]
          simp [rawAdd, ddItem, Item.toJV]
        · simp only [Bool.false_eq_true, ↓reduceIte]
          rw [h3]
          simp [rawAdd, openEv, itemEv]
    · rename_i hn
      simp only [hn, ↓reduceIte, Except.ok.injEq, Bool.false_eq_true] at h ⊢
      refine ⟨raws, ?_, ?_⟩
      · rw [← h, hc.2.1]; simp
      · rw [hc.2.2, hRS]; simp [openEv]

theorem TokPre.init : TokPre {} [] :=
  ⟨[], [], ⟨rfl, rfl, rfl⟩, fun _ hm => by cases hm⟩

theorem evAfterBom_accepted (cfg : Cfg) (cs : List Bytes) (docs : List JV)
    (h : (match runChunks refTables cfg {} cs with
          | .error e => (.error e : Except Err (List JV))
          | .ok s => finish refTables s) = .ok docs) :
    ∃ raws : List JV, raws.map dd = docs ∧ evAfterBom refTables cfg cs = raws.flatMap events := by
  unfold evAfterBom
  cases hr : runChunks refTables cfg {} cs with
  | error e => rw [hr] at h; cases h
  | ok s =>
    rw [hr] at h
    simp only at h ⊢
    obtain ⟨hw, hp⟩ := runChunks_tok cfg cs {} s [] WF.init TokPre.init hr
    simpa using finish_tok s _ docs hw hp h

/-- **For an accepted input the handler calls are the events of the trees as written.** Whatever the
configuration and the chunking: if the reference machine accepts and delivers `docs`, the token
events handed over are `events` of trees `raws` (members in the order of the text, repeated names
kept) of which `docs` are what a last-name-wins parser builds. -/
theorem tokEvents_accepted_ref (cfg : Cfg) (chunks : List Bytes) (docs : List JV)
    (h : Json.run refTables cfg chunks = .ok docs) :
    ∃ raws : List JV, raws.map dd = docs ∧ tokEventsIdeal refTables cfg chunks = raws.flatMap events := by
  unfold Json.run at h
  unfold tokEventsIdeal
  simp only at h ⊢
  split at h
  · rename_i hcs
    simp only [hcs]
    simpa using finish_tok {} [] docs WF.init TokPre.init h
  · rename_i c rest hcs
    simp only [hcs]
    split at h
    · cases h
    · rename_i r hb
      simp only [hb]
      exact evAfterBom_accepted cfg (r :: rest) docs h
    · rename_i hb
      simp only [hb]
      exact evAfterBom_accepted cfg (c :: rest) docs h

end OjgVerif.Match
