import OjgVerif.Common.Driver
import OjgVerif.Match.Model
import OjgVerif.Match.Support
import OjgVerif.Match.Tokenizer
import OjgVerif.Json.Tables
/-! Driver ops of the `match` family (line protocol, see `Common/Driver.lean`).

A document travels in the text of `JV.render` with the members in DOCUMENT order (floats:
`F(<hex of decimal text>)`). A target is its fragments joined by `/` (`-` for the bare `$`):
`c:<hex>` child, `n:<int>` index, `w` wildcard, `u:<m>,<m>…` union (`s<hex>` name, `i<int>` index),
`s:<start>:<end|_>:<step>` slice, `d` descent, `f:<hex>:<int>` the filter `(@.<name> == <int>)`,
`f:@:<int>` the filter `(@ == <int>)`; a filter must be the last fragment. Targets are joined by a
blank. A normalized path is `$` followed by `.K(<hex>)` and `[<n>]`.

* `run <dev> <targets> <doc>` — callbacks of the model on `events doc`: `<path>|<value>` joined by
  `;` (`-` if none). `<dev>`: `cur` (`Dev.cur`), `fixed`, or the letters `s` (sliceAll) `d`
  (descentNoSelf) `f` (filterFirstOnly), `-` for none
* `spec <targets> <doc>` — `expected targets doc` in the same form
* `pm <dev> <target> <path>` — `pathMatch` (`t`/`f`); here a filter may stand anywhere
* `ok <dev> <targets>` — one letter per target: `t` if `okTarget dev target` (the hypothesis of the
  C17 theorems), else `f`
* `streamed <dev> <i|s|is> <targets> <doc>` — what the recorded deviations predict for a target set
  without filters: `expected (targets.map (asStreamedWith idx sl)) doc` (`i`: from-the-end indexes and
  union members select nothing, `s`: a slice selects every index; `is` is `C17_streamed`'s right-hand
  side). `n/a` for a set with a filter, and for `s` under a matcher that applies slice bounds
* `tok <0|1> <chunks>` — the token events of the tokenizer model (`tokEvents ojTables (tokCfg reader)`,
  Match/Tokenizer.lean) on the read results `<chunks>` (hex, joined by `,`, `-` an empty read; `_` for no read at all;
  `1`: `Tokenizer.Load`, `0`: `Tokenizer.Parse` on the first chunk): the events joined by a blank
  (`{` `}` `[` `]` `K(<hex>)` `L<value>`; `-` if none), then `|ok <number of documents>` or `|err` -/
namespace OjgVerif.Match
open OjgVerif

/-! ## reading values -/

def spanClose : List Char → List Char → Option (List Char × List Char)
  | [], _ => none
  | c :: r, acc => if c = ')' then some (acc.reverse, r) else spanClose r (c :: acc)

def readNat (cs : List Char) : Option Nat :=
  if cs.isEmpty then none else (String.ofList cs).toNat?

def readInt (cs : List Char) : Option Int :=
  match cs with
  | '-' :: r => (readNat r).map (fun n => - (n : Int))
  | _ => (readNat cs).map (fun n => (n : Int))

def readHex (cs : List Char) : Option Bytes := ofHex (String.ofList cs)

def pElems (p : List Char → Option (JV × List Char)) : Nat → List Char → List JV → Option (List JV × List Char)
  | 0, _, _ => none
  | n + 1, cs, acc =>
    match p cs with
    | none => none
    | some (v, ',' :: r) => pElems p n r (v :: acc)
    | some (v, ']' :: r) => some ((v :: acc).reverse, r)
    | some _ => none

def pMembers (p : List Char → Option (JV × List Char)) : Nat → List Char → List (Bytes × JV) → Option (List (Bytes × JV) × List Char)
  | 0, _, _ => none
  | n + 1, cs, acc =>
    match cs with
    | 'K' :: '(' :: r =>
      match spanClose r [] with
      | none => none
      | some (hx, r2) =>
        match readHex hx, p r2 with
        | some k, some (v, ',' :: r3) => pMembers p n r3 ((k, v) :: acc)
        | some k, some (v, '}' :: r3) => some (((k, v) :: acc).reverse, r3)
        | _, _ => none
    | _ => none

def pVal : Nat → List Char → Option (JV × List Char)
  | 0, _ => none
  | n + 1, cs =>
    match cs with
    | 'n' :: r => some (.null, r)
    | 't' :: r => some (.bool true, r)
    | 'f' :: r => some (.bool false, r)
    | '[' :: ']' :: r => some (.arr [], r)
    | '[' :: r => (pElems (pVal n) cs.length r []).map (fun (xs, r2) => (.arr xs, r2))
    | '{' :: '}' :: r => some (.obj [], r)
    | '{' :: r => (pMembers (pVal n) cs.length r []).map (fun (m, r2) => (.obj m, r2))
    | c :: '(' :: r =>
      match spanClose r [] with
      | none => none
      | some (body, r2) =>
        if c = 'I' then (readInt body).map (fun i => (.int i, r2))
        else if c = 'F' then (readHex body).map (fun t => (.flt t, r2))
        else if c = 'B' then (readHex body).map (fun t => (.big t, r2))
        else if c = 'S' then (readHex body).map (fun t => (.str t, r2))
        else none
    | _ => none

def readJV (s : String) : Option JV :=
  match pVal (s.length + 1) s.toList with
  | some (v, []) => some v
  | _ => none

/-! ## targets and paths -/

def isIntJV (n : Int) : JV → Bool
  | .int m => m == n
  | _ => false

/-- the filter `(@.<k> == <n>)` -/
def memberEq (k : Bytes) (n : Int) : JV → Bool
  | .obj kvs =>
    match lookupKey k kvs with
    | some v => isIntJV n v
    | none => false
  | _ => false

def readUMem (s : String) : Option UMem :=
  match s.toList with
  | 's' :: r => (readHex r).map UMem.name
  | 'i' :: r => (readInt r).map UMem.index
  | _ => none

def readFrag (s : String) : Option Frag :=
  match s.splitOn ":" with
  | ["c", k] => (readHex k.toList).map Frag.child
  | ["n", i] => (readInt i.toList).map Frag.index
  | ["w"] => some .wildcard
  | ["d"] => some .descent
  | ["u", ms] => ((ms.splitOn ",").mapM readUMem).map Frag.union
  | ["s", a, b, c] =>
    match readInt a.toList, readInt c.toList with
    | some a', some c' =>
      if b = "_" then some (.slice a' none c')
      else (readInt b.toList).map fun b' => .slice a' (some b') c'
    | _, _ => none
  | ["f", k, n] =>
    match readInt n.toList with
    | none => none
    | some n' =>
      if k = "@" then some (.filter (isIntJV n'))
      else (readHex k.toList).map fun k' => .filter (memberEq k' n')
  | _ => none

def isFilter : Frag → Bool
  | .filter _ => true
  | _ => false

def readTargetAny (s : String) : Option Target :=
  if s = "-" then some [] else (s.splitOn "/").mapM readFrag

/-- a filter only as the last fragment -/
def readTarget (s : String) : Option Target :=
  match readTargetAny s with
  | none => none
  | some t => if (t.dropLast.any isFilter) then none else some t

def readTargets (s : String) : Option (List Target) :=
  ((s.splitOn " ").filter (· ≠ "")).mapM readTarget

def pSegs : Nat → List Char → List Seg → Option NPath
  | 0, _, _ => none
  | n + 1, cs, acc =>
    match cs with
    | [] => some acc.reverse
    | '.' :: 'K' :: '(' :: r =>
      match spanClose r [] with
      | none => none
      | some (hx, r2) =>
        match readHex hx with
        | some k => pSegs n r2 (.key k :: acc)
        | none => none
    | '[' :: r =>
      match (r.span (· ≠ ']')) with
      | (ds, ']' :: r2) =>
        match readNat ds with
        | some i => pSegs n r2 (.idx i :: acc)
        | none => none
      | _ => none
    | _ => none

def readPath (s : String) : Option NPath :=
  match s.toList with
  | '$' :: r => pSegs (r.length + 1) r []
  | _ => none

def readDev (s : String) : Option Dev :=
  if s = "cur" then some Dev.cur
  else if s = "fixed" then some Dev.fixed
  else if s.toList.all (fun c => c = 's' || c = 'd' || c = 'f' || c = '-') then
    some ⟨s.contains 's', s.contains 'd', s.contains 'f'⟩
  else none

/-! ## writing -/

def segText : Seg → String
  | .key k => ".K(" ++ toHexF k ++ ")"
  | .idx i => "[" ++ toString i ++ "]"

def pathText (p : NPath) : String := "$" ++ String.join (p.map segText)

def callbacksText (cs : List (NPath × JV)) : String :=
  if cs.isEmpty then "-" else String.intercalate ";" (cs.map fun c => pathText c.1 ++ "|" ++ c.2.render)

def eventText : Event → String
  | .objStart => "{"
  | .objEnd => "}"
  | .arrStart => "["
  | .arrEnd => "]"
  | .key k => "K(" ++ toHexF k ++ ")"
  | .leaf v => "L" ++ v.render

def readChunks (s : String) : Option (List Bytes) :=
  if s = "_" then some [] else (s.splitOn ",").mapM ofHex

def tokText (reader : Bool) (chunks : List Bytes) : String :=
  let evs := tokEvents Json.ojTables (tokCfg reader) chunks
  let out := match tokRun Json.ojTables (tokCfg reader) chunks with
    | .ok docs => "ok " ++ toString docs.length
    | .error _ => "err"
  (if evs.isEmpty then "-" else String.intercalate " " (evs.map eventText)) ++ "|" ++ out

def handle : List String → String
  | ["tok", rd, chunks] =>
    match readChunks chunks with
    | some cs =>
      if rd = "1" then tokText true cs
      else if rd = "0" then tokText false cs
      else "bad-op"
    | none => "bad-op"
  | ["run", dev, tgs, doc] =>
    match readDev dev, readTargets tgs, readJV doc with
    | some dv, some ts, some d => callbacksText (matchRun dv ts (events d))
    | _, _, _ => "bad-op"
  | ["spec", tgs, doc] =>
    match readTargets tgs, readJV doc with
    | some ts, some d => callbacksText (expected ts d)
    | _, _ => "bad-op"
  | ["pm", dev, tg, path] =>
    match readDev dev, readTargetAny tg, readPath path with
    | some dv, some t, some p => if pathMatch dv t p then "t" else "f"
    | _, _, _ => "bad-op"
  | ["streamed", dev, mode, tgs, doc] =>
    match readDev dev, readTargets tgs, readJV doc with
    | some dv, some ts, some d =>
      let idx := mode.contains 'i'
      let sl := mode.contains 's'
      if !(mode = "i" || mode = "s" || mode = "is") then "bad-op"
      else if ts.any (fun t => t.any isFilterFrag) || (sl && !dv.sliceAll) then "n/a"
      else callbacksText (expected (ts.map (asStreamedWith idx sl)) d)
    | _, _, _ => "bad-op"
  | ["ok", dev, tgs] =>
    match readDev dev, readTargets tgs with
    | some dv, some ts => String.ofList (ts.map fun t => if okTarget dv t then 't' else 'f')
    | _, _ => "bad-op"
  | _ => "bad-op"

end OjgVerif.Match
