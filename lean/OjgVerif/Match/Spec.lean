import OjgVerif.Common.Bytes
/-! Specification for "streaming match equals parse-then-locate" (property C17).

A document is a tree (`JV`; member order = order in the text). `events` is what a tokenizer hands
to a token handler for it. A target path is `$` followed by fragments; `selects` says which
locations (normalized paths: member names and non-negative indexes) of a document it selects, and
`expected targets doc` lists the locations a streaming matcher has to report: the OUTERMOST
selected ones (no proper prefix is selected by any target), each once, in document order
(pre-order of the tree), paired with the value found there.

Formalisation choices (the property's words do not settle them; the evaluators of the library
agree on them):
* a document's objects have pairwise different member names (`NoDupKeys`); a text that repeats a
  name has no single tree (a parser keeps the last member, a stream shows both);
* a slice selects by the rules of the path evaluator: negative bounds count from the end, a start
  at or beyond the length selects nothing, step 0 selects nothing, an omitted end is the length;
  the ORDER in which an evaluator lists a slice or a union is irrelevant here (document order);
* a descent selects the node itself and everything below it; the library's evaluators do the same
  except that they do not enter a descent at a SCALAR that an earlier fragment reached (`$.a..` on
  `{"a":1}` selects nothing, although `$..` on `1` selects `$` and `$.a..` on `{"a":[1]}` selects
  `$.a[0]`); the specification does not copy that irregularity;
* a filter is an abstract predicate on the candidate element; it is the LAST fragment of a target
  and applies to the elements of an array and to the member values of an object. -/
namespace OjgVerif.Match
open OjgVerif

/-- one element of a normalized path -/
inductive Seg where
  | key (k : Bytes)
  | idx (i : Nat)
  deriving DecidableEq, Repr, Inhabited

/-- normalized path, root first, without the `$` -/
abbrev NPath := List Seg

/-- union member -/
inductive UMem where
  | name (k : Bytes)
  | index (i : Int)
  deriving DecidableEq, Repr

/-- fragment of a target path -/
inductive Frag where
  | child (k : Bytes)
  | index (i : Int)                                     -- negative: from the end
  | wildcard
  | union (ms : List UMem)
  | slice (start : Int) (stop : Option Int) (step : Int) -- `stop = none`: no end given
  | descent
  | filter (p : JV → Bool)

abbrev Target := List Frag

/-! ## events -/

inductive Event where
  | objStart | objEnd | arrStart | arrEnd
  | key (k : Bytes)
  | leaf (v : JV)      -- null, true/false, a number, a string
  deriving Inhabited

mutual
  def events : JV → List Event
    | .arr xs => .arrStart :: (eventsList xs ++ [.arrEnd])
    | .obj kvs => .objStart :: (eventsKvs kvs ++ [.objEnd])
    | .null => [.leaf .null]
    | .bool b => [.leaf (.bool b)]
    | .int i => [.leaf (.int i)]
    | .flt t => [.leaf (.flt t)]
    | .big t => [.leaf (.big t)]
    | .num t => [.leaf (.num t)]
    | .str s => [.leaf (.str s)]
  def eventsList : List JV → List Event
    | [] => []
    | x :: r => events x ++ eventsList r
  def eventsKvs : List (Bytes × JV) → List Event
    | [] => []
    | (k, v) :: r => .key k :: (events v ++ eventsKvs r)
end

/-! ## documents -/

def keysDistinct : List (Bytes × JV) → Bool
  | [] => true
  | (k, _) :: r => !(r.any fun kv => kv.1 == k) && keysDistinct r

mutual
  /-- every object of the tree has pairwise different member names -/
  def NoDupKeys : JV → Bool
    | .arr xs => NoDupKeysList xs
    | .obj kvs => keysDistinct kvs && NoDupKeysKvs kvs
    | _ => true
  def NoDupKeysList : List JV → Bool
    | [] => true
    | x :: r => NoDupKeys x && NoDupKeysList r
  def NoDupKeysKvs : List (Bytes × JV) → Bool
    | [] => true
    | (_, v) :: r => NoDupKeys v && NoDupKeysKvs r
end

def lookupKey (k : Bytes) : List (Bytes × JV) → Option JV
  | [] => none
  | (k', v) :: r => if k' = k then some v else lookupKey k r

/-- the child of a node along one path element -/
def child? : JV → Seg → Option JV
  | .arr xs, .idx i => xs[i]?
  | .obj kvs, .key k => lookupKey k kvs
  | _, _ => none

mutual
  /-- all locations below (and including) a node in document order, `p` = the node's own path -/
  def locs (p : NPath) : JV → List (NPath × JV)
    | .arr xs => (p, .arr xs) :: locsList p 0 xs
    | .obj kvs => (p, .obj kvs) :: locsKvs p kvs
    | .null => [(p, .null)]
    | .bool b => [(p, .bool b)]
    | .int i => [(p, .int i)]
    | .flt t => [(p, .flt t)]
    | .big t => [(p, .big t)]
    | .num t => [(p, .num t)]
    | .str s => [(p, .str s)]
  def locsList (p : NPath) (i : Nat) : List JV → List (NPath × JV)
    | [] => []
    | x :: r => locs (p ++ [.idx i]) x ++ locsList p (i + 1) r
  def locsKvs (p : NPath) : List (Bytes × JV) → List (NPath × JV)
    | [] => []
    | (k, v) :: r => locs (p ++ [.key k]) v ++ locsKvs p r
end

/-! ## what a target selects -/

/-- does the slice `[start:stop:step]` select index `j` of an array of `n` elements -/
def sliceSel (start : Int) (stop : Option Int) (step : Int) (n : Nat) (j : Nat) : Bool :=
  let s : Int := if start < 0 then max (start + n) 0 else start
  let e : Int := match stop with
    | none => n
    | some b => if b < 0 then b + n else min b n
  if step = 0 then false
  else if (n : Int) ≤ s then false
  else if 0 < step then decide (s ≤ j ∧ (j : Int) < e ∧ ((j : Int) - s) % step = 0)
  else decide (max e (-1) < (j : Int) ∧ (j : Int) ≤ s ∧ (s - (j : Int)) % (-step) = 0)

/-- the index fragment `i` (negative: from the end) names element `j` of an array of `n` elements -/
def indexSel (i : Int) (n : Nat) (j : Nat) : Bool :=
  if i < 0 then decide ((j : Int) = n + i) else decide ((j : Int) = i)

/-- fragment `f` (not a descent) leads from node `v` along `s` to the child `c` -/
def fragSel (f : Frag) (v : JV) (s : Seg) (c : JV) : Bool :=
  match f with
  | .child k => s == .key k
  | .index i =>
    match v, s with
    | .arr xs, .idx j => indexSel i xs.length j
    | _, _ => false
  | .wildcard => true
  | .union ms => ms.any fun m =>
    match m with
    | .name k => s == .key k
    | .index i =>
      match v, s with
      | .arr xs, .idx j => indexSel i xs.length j
      | _, _ => false
  | .slice a b st =>
    match v, s with
    | .arr xs, .idx j => sliceSel a b st xs.length j
    | _, _ => false
  | .descent => false
  | .filter p => p c

/-- `g` holds for the rest of the path at the node itself or at some node further along the path -/
def anyAlong (g : JV → NPath → Bool) : JV → NPath → Bool
  | v, [] => g v []
  | v, s :: q => g v (s :: q) ||
    match child? v s with
    | none => false
    | some c => anyAlong g c q

/-- `selects t v p`: evaluated at node `v`, the fragments `t` select the location `p` below `v` -/
def selects : Target → JV → NPath → Bool
  | [], _, p => p.isEmpty
  | .descent :: fs, v, p => anyAlong (selects fs) v p
  | f :: fs, v, p =>
    match p with
    | [] => false
    | s :: q =>
      match child? v s with
      | none => false
      | some c => fragSel f v s c && selects fs c q

def selectedBy (targets : List Target) (doc : JV) (p : NPath) : Bool :=
  targets.any fun t => selects t doc p

def properPrefixes (p : NPath) : List NPath := (List.range p.length).map fun n => p.take n

/-- the callbacks the property demands: outermost selected locations, document order -/
def expected (targets : List Target) (doc : JV) : List (NPath × JV) :=
  (locs [] doc).filter fun pv =>
    selectedBy targets doc pv.1 && !(properPrefixes pv.1).any (selectedBy targets doc)

end OjgVerif.Match
