import OjgVerif.Match.LemmasFilter
/-! The specification side for target sets with filter targets: every location a target selects
lies at or (for a filter target: one step) below a location its stripped part selects
(`selects_strip`), so `expected targets doc` splits along the outermost locations the stripped
targets select (`expected_decompose`) — the same skeleton `found_reportAt` gives the callbacks. -/
namespace OjgVerif.Match
open OjgVerif
set_option linter.unusedSectionVars false

section
variable (doc : JV) (S : NPath → Bool) (K : NPath × JV → Bool)
variable (hK : ∀ q u, K (q, u) = true → (prefixesIncl q).any S = true)

include hK

theorem K_false (p : NPath) (v : JV) (hpre : (properPrefixes p).any S = false) (hS : S p = false) : K (p, v) = false := by
  cases h : K (p, v)
  · rfl
  · have := hK p v h
    simp [prefixesIncl, hpre, hS] at this

mutual
  theorem locs_decompose : ∀ (v : JV) (p : NPath), (properPrefixes p).any S = false →
      (locs p v).filter K = ((locs p v).filter (outermost S)).flatMap fun qu => (locs qu.1 qu.2).filter K
    | .arr xs, p, hpre => by
      by_cases hS : S p = true
      · have : (locs p (.arr xs)).filter (outermost S) = [(p, .arr xs)] := by
          simp only [locs, List.filter_cons, outermost, hpre, hS, Bool.not_false, Bool.and_true, if_true]
          rw [filter_below_none S p _ hS (locsList_below xs p 0)]
        rw [this]; simp
      · have hS' : S p = false := by simpa using hS
        simp only [locs, List.filter_cons, outermost, hS', Bool.false_and, Bool.false_eq_true, if_false,
          K_false S K hK p _ hpre hS']
        exact locsList_decompose xs p 0 hpre hS'
    | .obj kvs, p, hpre => by
      by_cases hS : S p = true
      · have : (locs p (.obj kvs)).filter (outermost S) = [(p, .obj kvs)] := by
          simp only [locs, List.filter_cons, outermost, hpre, hS, Bool.not_false, Bool.and_true, if_true]
          rw [filter_below_none S p _ hS (locsKvs_below kvs p)]
        rw [this]; simp
      · have hS' : S p = false := by simpa using hS
        simp only [locs, List.filter_cons, outermost, hS', Bool.false_and, Bool.false_eq_true, if_false,
          K_false S K hK p _ hpre hS']
        exact locsKvs_decompose kvs p hpre hS'
    | .null, p, hpre => by
      by_cases hS : S p = true
      · simp [locs, outermost, hpre, hS]
      · have hS' : S p = false := by simpa using hS
        simp [locs, outermost, hS', K_false S K hK p _ hpre hS']
    | .bool _, p, hpre => by
      by_cases hS : S p = true
      · simp [locs, outermost, hpre, hS]
      · have hS' : S p = false := by simpa using hS
        simp [locs, outermost, hS', K_false S K hK p _ hpre hS']
    | .int _, p, hpre => by
      by_cases hS : S p = true
      · simp [locs, outermost, hpre, hS]
      · have hS' : S p = false := by simpa using hS
        simp [locs, outermost, hS', K_false S K hK p _ hpre hS']
    | .flt _, p, hpre => by
      by_cases hS : S p = true
      · simp [locs, outermost, hpre, hS]
      · have hS' : S p = false := by simpa using hS
        simp [locs, outermost, hS', K_false S K hK p _ hpre hS']
    | .big _, p, hpre => by
      by_cases hS : S p = true
      · simp [locs, outermost, hpre, hS]
      · have hS' : S p = false := by simpa using hS
        simp [locs, outermost, hS', K_false S K hK p _ hpre hS']
    | .num _, p, hpre => by
      by_cases hS : S p = true
      · simp [locs, outermost, hpre, hS]
      · have hS' : S p = false := by simpa using hS
        simp [locs, outermost, hS', K_false S K hK p _ hpre hS']
    | .str _, p, hpre => by
      by_cases hS : S p = true
      · simp [locs, outermost, hpre, hS]
      · have hS' : S p = false := by simpa using hS
        simp [locs, outermost, hS', K_false S K hK p _ hpre hS']
  theorem locsList_decompose : ∀ (ys : List JV) (p : NPath) (i : Nat),
      (properPrefixes p).any S = false → S p = false →
      (locsList p i ys).filter K = ((locsList p i ys).filter (outermost S)).flatMap fun qu => (locs qu.1 qu.2).filter K
    | [], _, _, _, _ => by simp [locsList]
    | x :: r, p, i, hpre, hS => by
      simp only [locsList, List.filter_append, List.flatMap_append]
      rw [locs_decompose x (p ++ [Seg.idx i]) (by simp [properPrefixes_snoc, hpre, hS]),
        locsList_decompose r p (i + 1) hpre hS]
  theorem locsKvs_decompose : ∀ (kvs : List (Bytes × JV)) (p : NPath),
      (properPrefixes p).any S = false → S p = false →
      (locsKvs p kvs).filter K = ((locsKvs p kvs).filter (outermost S)).flatMap fun qu => (locs qu.1 qu.2).filter K
    | [], _, _, _ => by simp [locsKvs]
    | (k, v) :: r, p, hpre, hS => by
      simp only [locsKvs, List.filter_append, List.flatMap_append]
      rw [locs_decompose v (p ++ [Seg.key k]) (by simp [properPrefixes_snoc, hpre, hS]),
        locsKvs_decompose r p hpre hS]
end
end

/-! ## a selected location lies at or below one its stripped target selects -/

theorem nil_mem_prefixesIncl (q : NPath) : [] ∈ prefixesIncl q := by
  cases q with
  | nil => simp [prefixesIncl, properPrefixes]
  | cons s r => simp [prefixesIncl_cons]

theorem stripFilter_cons (f : Frag) (fs : Target) (hf : isFilterFrag f = false) :
    stripFilter (f :: fs) = f :: stripFilter fs := by
  cases f <;> simp [isFilterFrag] at hf <;> rfl

theorem stripFilter_filter (p : JV → Bool) (fs : Target) : stripFilter (.filter p :: fs) = [] := rfl

theorem any_prefixesIncl_cons (s : Seg) (r : NPath) (g : NPath → Bool) :
    (prefixesIncl (s :: r)).any g = (g [] || (prefixesIncl r).any fun x => g (s :: x)) := by
  simp [prefixesIncl_cons, List.any_map, Function.comp_def]

/-- a descent in front: some node along the path starts a selection of a prefix -/
theorem anyAlong_strip (g g' : JV → NPath → Bool)
    (h : ∀ v q, g v q = true → (prefixesIncl q).any (g' v) = true) :
    ∀ (q : NPath) (v : JV), anyAlong g v q = true → (prefixesIncl q).any (anyAlong g' v) = true
  | [], v, ha => by
    simp only [anyAlong] at ha
    have := h v [] ha
    simpa [prefixesIncl, properPrefixes, anyAlong] using this
  | s :: r, v, ha => by
    simp only [anyAlong, Bool.or_eq_true] at ha
    rcases ha with ha | ha
    · -- the rest of the target starts at `v`
      have := h v (s :: r) ha
      simp only [List.any_eq_true] at this ⊢
      obtain ⟨x, hx, hg⟩ := this
      refine ⟨x, hx, ?_⟩
      cases x with
      | nil => simpa [anyAlong] using hg
      | cons a b => simp [anyAlong, hg]
    · cases hc : child? v s with
      | none => simp [hc] at ha
      | some c =>
        simp only [hc] at ha
        have ih := anyAlong_strip g g' h r c ha
        rw [any_prefixesIncl_cons]
        simp only [Bool.or_eq_true, List.any_eq_true] at ih ⊢
        obtain ⟨x, hx, hg⟩ := ih
        exact Or.inr ⟨x, hx, by simp [anyAlong, hc, hg]⟩

theorem selects_strip : ∀ (t : Target) (v : JV) (q : NPath), selects t v q = true →
    (prefixesIncl q).any (selects (stripFilter t) v) = true
  | [], v, q, h => by
    simp only [selects, List.isEmpty_iff] at h
    subst h
    simp [prefixesIncl, properPrefixes, stripFilter, splitTarget, selects]
  | f :: fs, v, q, h => by
    by_cases hf : isFilterFrag f = true
    · cases f <;> simp [isFilterFrag] at hf
      rw [stripFilter_filter]
      simp only [List.any_eq_true]
      exact ⟨[], nil_mem_prefixesIncl q, by simp [selects]⟩
    · have hf' : isFilterFrag f = false := by simpa using hf
      rw [stripFilter_cons f fs hf']
      by_cases hd : isDescent f = true
      · cases f <;> simp [isDescent] at hd
        simp only [selects] at h ⊢
        exact anyAlong_strip (selects fs) (selects (stripFilter fs)) (fun v q hq => selects_strip fs v q hq) q v h
      · have hd' : isDescent f = false := by simpa using hd
        have hnil : ∀ (gs : Target), selects (f :: gs) v [] = false := by
          intro gs
          cases f <;> simp [isDescent] at hd' <;> simp [selects]
        have hnone : ∀ (gs : Target) (s : Seg) (r : NPath), child? v s = none → selects (f :: gs) v (s :: r) = false := by
          intro gs s r hc
          cases f <;> simp [isDescent] at hd' <;> simp [selects, hc]
        have hcons : ∀ (gs : Target) (s : Seg) (r : NPath) (c : JV), child? v s = some c →
            selects (f :: gs) v (s :: r) = (fragSel f v s c && selects gs c r) := by
          intro gs s r c hc
          cases f <;> simp [isDescent] at hd' <;> simp [selects, hc]
        cases q with
        | nil => rw [hnil] at h; cases h
        | cons s r =>
          cases hc : child? v s with
          | none => rw [hnone fs s r hc] at h; cases h
          | some c =>
            rw [hcons fs s r c hc] at h
            simp only [Bool.and_eq_true] at h
            have ih := selects_strip fs c r h.2
            rw [any_prefixesIncl_cons]
            simp only [Bool.or_eq_true, List.any_eq_true] at ih ⊢
            obtain ⟨x, hx, hg⟩ := ih
            refine Or.inr ⟨x, hx, ?_⟩
            rw [hcons (stripFilter fs) s x c hc]
            simp [h.1, hg]

/-- **The specification splits along the outermost locations of the stripped targets**: every
location `targets` select lies at or below a location the targets without their filters select. -/
theorem expected_decompose (targets : List Target) (doc : JV) :
    expected targets doc =
      (expected (targets.map stripFilter) doc).flatMap fun qu =>
        (locs qu.1 qu.2).filter fun pv =>
          selectedBy targets doc pv.1 && !(properPrefixes pv.1).any (selectedBy targets doc) := by
  have := locs_decompose (selectedBy (targets.map stripFilter) doc)
    (fun pv => selectedBy targets doc pv.1 && !(properPrefixes pv.1).any (selectedBy targets doc))
    (by
      intro q u hk
      simp only [Bool.and_eq_true, selectedBy, List.any_eq_true] at hk
      obtain ⟨⟨t, ht, hs⟩, _⟩ := hk
      have := selects_strip t doc q hs
      simp only [List.any_eq_true] at this ⊢
      obtain ⟨x, hx, hg⟩ := this
      exact ⟨x, hx, by simp only [selectedBy, List.any_map, Function.comp_def, List.any_eq_true]; exact ⟨t, ht, hg⟩⟩)
    doc [] (by simp [properPrefixes])
  exact this

/-! ## the pieces of a concatenation over incomparable locations can be read back -/

section
variable {l : List (NPath × JV)} (a : NPath × JV)

theorem filter_pieces_none (fn : NPath × JV → List (NPath × JV)) (r : List (NPath × JV))
    (hfn : ∀ c ∈ r, ∀ x ∈ fn c, c.1 <+: x.1)
    (hinc : ∀ c ∈ r, ¬ (c.1 <+: a.1 ∨ a.1 <+: c.1)) :
    (r.flatMap fn).filter (fun x => decide (a.1 <+: x.1)) = [] := by
  simp only [List.filter_eq_nil_iff, List.mem_flatMap, decide_eq_true_eq]
  rintro x ⟨c, hc, hx⟩ hax
  exact hinc c hc (List.prefix_or_prefix_of_prefix (hfn c hc x hx) hax)

theorem filter_pieces (fn : NPath × JV → List (NPath × JV)) : ∀ (r : List (NPath × JV)),
    (r.map (·.1)).Nodup → a ∈ r →
    (∀ c ∈ r, ∀ x ∈ fn c, c.1 <+: x.1) →
    (∀ c ∈ r, c.1 ≠ a.1 → ¬ (c.1 <+: a.1 ∨ a.1 <+: c.1)) →
    (r.flatMap fn).filter (fun x => decide (a.1 <+: x.1)) = fn a
  | [], _, ha, _, _ => by simp at ha
  | b :: r, hnd, ha, hfn, hinc => by
    simp only [List.map_cons, List.nodup_cons] at hnd
    simp only [List.flatMap_cons, List.filter_append]
    by_cases hba : b.1 = a.1
    · have hab : a = b := by
        rcases List.mem_cons.mp ha with h | h
        · exact h
        · exact absurd (List.mem_map.mpr ⟨a, h, hba.symm⟩) hnd.1
      subst hab
      have h1 : (fn a).filter (fun x => decide (a.1 <+: x.1)) = fn a := by
        rw [List.filter_eq_self]
        intro x hx
        simpa using hfn a List.mem_cons_self x hx
      have h2 := filter_pieces_none a fn r (fun c hc => hfn c (List.mem_cons_of_mem _ hc))
        (fun c hc => hinc c (List.mem_cons_of_mem _ hc) (by
          intro e
          exact hnd.1 (List.mem_map.mpr ⟨c, hc, e⟩)))
      rw [h1, h2, List.append_nil]
    · have har : a ∈ r := by
        rcases List.mem_cons.mp ha with h | h
        · exact absurd (by rw [h]) hba
        · exact h
      have h1 := filter_pieces_none a fn [b] (fun c hc => by
          simp only [List.mem_singleton] at hc; subst hc; exact hfn c List.mem_cons_self)
        (fun c hc => by
          simp only [List.mem_singleton] at hc; subst hc; exact hinc c List.mem_cons_self hba)
      simp only [List.flatMap_cons, List.flatMap_nil, List.append_nil] at h1
      rw [h1, List.nil_append]
      exact filter_pieces fn r hnd.2 har (fun c hc => hfn c (List.mem_cons_of_mem _ hc))
        (fun c hc => hinc c (List.mem_cons_of_mem _ hc))
end

theorem mem_properPrefixes_of_prefix {q r : NPath} (h : q <+: r) (hne : q ≠ r) : q ∈ properPrefixes r := by
  have hlen := h.length_le
  have hlt : q.length < r.length := by
    rcases Nat.lt_or_ge q.length r.length with hl | hl
    · exact hl
    · exfalso
      apply hne
      exact List.IsPrefix.eq_of_length_le h hl
  simp only [properPrefixes, List.mem_map, List.mem_range]
  exact ⟨q.length, hlt, (List.prefix_iff_eq_take.mp h).symm⟩

/-- two expected locations are never one above the other -/
theorem expected_incomparable (targets : List Target) (doc : JV) (hdoc : NoDupKeys doc = true)
    (a b : NPath × JV) (ha : a ∈ expected targets doc) (hb : b ∈ expected targets doc) (hne : b.1 ≠ a.1) :
    ¬ (b.1 <+: a.1 ∨ a.1 <+: b.1) := by
  obtain ⟨qa, ua⟩ := a
  obtain ⟨qb, ub⟩ := b
  have ma := (mem_expected_iff targets doc hdoc qa ua).mp ha
  have mb := (mem_expected_iff targets doc hdoc qb ub).mp hb
  rintro (h | h)
  · have := ma.2.2 qb (mem_properPrefixes_of_prefix h hne)
    rw [mb.2.1] at this; cases this
  · have := mb.2.2 qa (mem_properPrefixes_of_prefix h (fun e => hne e.symm))
    rw [ma.2.1] at this; cases this

end OjgVerif.Match
