import OjgVerif.Asm.Data
/-! # What the `asm` functions are documented to compute (repo-independent)

Each function below gives the documented result as a function of the EVALUATED arguments (values, and
the heap where a function reads or writes data). "An error is raised" is `raise`. The texts of the
descriptions themselves are recorded in `fnTable` (compared with the source on every run).

Formalisation choices (the descriptions are silent; the reading the code implements is taken):
* arguments are evaluated from left to right and a function stops at the first argument that decides
  its result (`and`, `or`, the comparison chains, `equal`): a later argument of the wrong kind is then
  not an error;
* int64 arithmetic wraps around; integer `/` and `mod` truncate toward zero; a float anywhere makes the
  running result a float from that argument on (the integers before it are combined as int64 first);
* `sum`: from the first string on the result is text; numbers met later are appended one by one in
  `%d`/`%g` form, the numeric sum accumulated before the first string is printed once;
* the empty `sum`, `dif`, `product`, `quotient` are the integer 0; a single argument is returned as it
  is (a float is returned as `0.0 + f` by `sum`);
* `lt lte gt gte` compare neighbours ("each argument is less than any subsequent argument" follows by
  transitivity, see `Props/C20.lean`); when the first argument is a string every later argument that
  is not a string counts as the empty string; when it is a number a later non-number is an error;
* `equal` compares every argument with the first; numbers compare by value across int/float, arrays
  element-wise (same length), maps by the SAME KEY SET with equal values under each key (same number of
  members and every key of the one present in the other: an absent key is not a null member); a
  jp.Expr value equals nothing;
* `cond`: a condition that is not the boolean `true` counts as false;
* `each` (its description is just "Each ."): for every element `e` of the array, in order, the
  function is evaluated with the local data `{src: e}`; the results are the members named by the
  third argument (default `asm`) of those local maps;
* `root` forms a path starting with `$` (its description says `@`: copied from `at`);
* `del`/`delall` on an array element set it to null (jp's behaviour), on a map member remove it. -/
namespace OjgVerif.Asm.Spec
open OjgVerif OjgVerif.Asm

abbrev R := Except Stop Val

/-- "an error is raised" -/
def raise : Except Stop α := .error .panic

/-! ## arithmetic -/

/-- `%g` text of a float (`unmodelled` for floats whose shortest text is outside `fmtG`) -/
def gText (f : Flt) : Except Stop Bytes :=
  match fmtG f with
  | some t => .ok t
  | none => .error .unmodelled

/-- the sum of two values: numbers add, text concatenates, a number next to text is written out -/
def add2 : Val → Val → R
  | .int x, .int y => .ok (.int (wrap64 (x + y)))
  | .int x, .flt g => .ok (.flt (Flt.add (Flt.ofInt x) g))
  | .flt f, .int y => .ok (.flt (Flt.add f (Flt.ofInt y)))
  | .flt f, .flt g => .ok (.flt (Flt.add f g))
  | .str s, .str t => .ok (.str (s ++ t))
  | .str s, .int y => .ok (.str (s ++ fmtD y))
  | .str s, .flt g => (gText g).map (fun t => .str (s ++ t))
  | .int x, .str t => .ok (.str (fmtD x ++ t))
  | .flt f, .str t => (gText f).map (fun s => .str (s ++ t))
  | _, _ => raise

def foldM' (f : Val → Val → R) : Val → List Val → R
  | acc, [] => .ok acc
  | acc, v :: r => match f acc v with
    | .ok acc' => foldM' f acc' r
    | .error e => .error e

/-- `sum`/`+` -/
def sum : List Val → R
  | [] => .ok (.int 0)
  | .int x :: r => foldM' add2 (.int x) r
  | .flt f :: r => foldM' add2 (.flt (Flt.add (.fin false 0 0) f)) r
  | .str s :: r => foldM' add2 (.str s) r
  | _ :: _ => raise

inductive Arith where
  | dif | product | quotient
  deriving DecidableEq

def Arith.onInt : Arith → Int → Int → R
  | .dif, x, y => .ok (.int (wrap64 (x - y)))
  | .product, x, y => .ok (.int (wrap64 (x * y)))
  | .quotient, x, y => if y = 0 then raise else .ok (.int (wrap64 (Int.tdiv x y)))

/-- float operation. Documented: "If an attempt is made to divide by zero an error will be raised";
with `dev.divZeroInf` (the code before e5d206a) a float division by zero returns ±Inf/NaN. -/
def Arith.onFlt (dev : Dev) : Arith → Flt → Flt → R
  | .dif, x, y => .ok (.flt (Flt.sub x y))
  | .product, x, y => .ok (.flt (Flt.mul x y))
  | .quotient, x, y => if y.isZero && !dev.divZeroInf then raise else .ok (.flt (Flt.div x y))

def arith2 (dev : Dev) (op : Arith) : Val → Val → R
  | .int x, .int y => op.onInt x y
  | .int x, .flt g => op.onFlt dev (Flt.ofInt x) g
  | .flt f, .int y => op.onFlt dev f (Flt.ofInt y)
  | .flt f, .flt g => op.onFlt dev f g
  | _, _ => raise

/-- `dif`/`-`, `product`/`*`, `quotient`/`/`: the first argument combined with each later one in turn -/
def arith (dev : Dev) (op : Arith) : List Val → R
  | [] => .ok (.int 0)
  | v :: r => if v.isNum then foldM' (arith2 dev op) v r else raise

/-- `mod`: exactly two integers -/
def mod : List Val → R
  | [.int a, .int b] => if b = 0 then raise else .ok (.int (Int.tmod a b))
  | _ => raise

/-! ## comparison -/

/-- a number as a float for comparison: exactly (documented), or rounded to float64 first
(`dev.cmpFloat`, the code as it is: integers above 2^53 lose their low bits) -/
def numOf (dev : Dev) (v : Val) : Option Flt := asFloat (!dev.cmpFloat) v

def numChain (dev : Dev) (op : CmpOp) (x : Flt) : List Val → R
  | [] => .ok (.bool true)
  | v :: r =>
    match numOf dev v with
    | none => raise
    | some y => if op.fHolds x y then numChain dev op y r else .ok (.bool false)

def strChain (op : CmpOp) (x : Bytes) : List Val → R
  | [] => .ok (.bool true)
  | v :: r => if op.sHolds x v.strOrEmpty then strChain op v.strOrEmpty r else .ok (.bool false)

/-- `lt lte gt gte` on evaluated arguments -/
def cmp (dev : Dev) (op : CmpOp) : List Val → R
  | [] => .ok (.bool true)
  | .str s :: r => strChain op s r
  | v :: r =>
    match numOf dev v with
    | some x => numChain dev op x r
    | none => raise

/-- `equal`: every argument equals the first (`eqVals`: by value, structurally; two maps are equal when
they have the same key set and equal values under each key — `Props/C20.lean`, `equal_maps_same_keys`) -/
def equalTo (dev : Dev) (h : Heap) (v0 : Val) : List Val → Except Stop Bool
  | [] => .ok true
  | v :: r =>
    match eqVals dev h (eqFuel h) [] v0 v with
    | .yes => equalTo dev h v0 r
    | .no => .ok false
    | .cyc => .error .diverge     -- cyclic data: the comparison does not end
    | .amb => .error .enum        -- depends on the order in which a map is visited

def equal (dev : Dev) (h : Heap) : List Val → Except Stop Bool
  | [] => .ok true
  | v0 :: r => equalTo dev h v0 r

/-! ## logic -/

def land : List Val → R
  | [] => .ok (.bool true)
  | .bool true :: r => land r
  | .bool false :: _ => .ok (.bool false)
  | .null :: _ => .ok (.bool false)
  | _ :: _ => raise

def lor : List Val → R
  | [] => .ok (.bool false)
  | .bool true :: _ => .ok (.bool true)
  | .bool false :: r => lor r
  | .null :: r => lor r
  | _ :: _ => raise

def lnot : List Val → R
  | [.bool b] => .ok (.bool (!b))
  | _ => raise

/-! ## data access

DISCLOSURE: for the path-taking functions the specification is NOT independent of the model. `get`,
`getall`, `setOrDel` below are thin wrappers around `pathFirst`/`pathGet`/`pathSet` of `Asm/Data.lean` —
the same definitions the model evaluates — so `get_spec … del_spec` (Props/C20.lean) say that the asm
functions pass the right path, data and value to jp and return what they should (null for no match, the
local data after a write), not that `pathFirst`/`pathSet` are what jp.First/jp.SetOne compute. That tie is
(a) the JSONPath families of this repository (C05/C11 for reading, C13 for jp.Set/Del), which specify and
check the jp engine itself, and (b) this family's correspondence run (model = implementation on every
case, simple paths). -/

/-- `get`: the first value the path selects in the data, null when there is none -/
def get (env : Env) (h : Heap) (p : Path) (data : Val) : R :=
  (pathFirst env h data p.frags).map (·.getD .null)

/-- `getall`: a new array of all the values the path selects -/
def getall (env : Env) (p : Path) (data : Val) : M Val := fun h =>
  match pathGet env h data p.frags with
  | .ok vs => (.ok (.aref h.length), h ++ [.arr vs])
  | .error e => (.error e, h)

/-- `set`/`setall` (`value = some v`) and `del`/`delall` (`none`) at a path; the local data is returned -/
def setOrDel (value : Option Val) (p : Path) (data at_ : Val) : M Val := fun h =>
  if p.frags.isEmpty then (raise, h)
  else match pathSet value data p.frags h with
    | (.ok _, h') => (.ok at_, h')
    | (.error e, h') => (.error e, h')

/-- `nth`: element `i` of an array (from the end when negative), null outside -/
def nth (h : Heap) : List Val → R
  | [.aref a, .int i] =>
    match normIdx i (h.arrAt a).length with
    | some j => .ok ((h.arrAt a).getD j .null)
    | none => .ok .null
  | _ => raise

def size (h : Heap) : List Val → R
  | [.str s] => .ok (.int s.length)
  | [.aref a] => .ok (.int (h.arrAt a).length)
  | [.mref a] => .ok (.int (h.mapAt a).length)
  | [_] => .ok (.int 0)
  | _ => raise

def pred (p : Val → Bool) : List Val → R
  | [v] => .ok (.bool (p v))
  | _ => raise

/-- `list`: a new array of the arguments -/
def list (vs : List Val) : M Val := fun h => (.ok (.aref h.length), h ++ [.arr vs])

/-- the arguments of `at`/`root` joined with `.` -/
def joined : List Val → Bool → Bytes → Except Stop Bytes
  | [], _, acc => .ok acc
  | .str s :: r, first, acc => joined r false (if first then acc ++ s else acc ++ 46 :: s)
  | _ :: _, _, _ => raise

/-- `at` (`isAt`) / `root`: the path `@.<joined>` / `$.<joined>` -/
def pathOf (isAt : Bool) (vs : List Val) : R :=
  match joined vs true [] with
  | .ok b =>
    match parseRel b with
    | some fs => .ok (.path ⟨isAt, fs⟩)
    | none => .error .unmodelled
  | .error e => .error e


/-! ## text, conversion and list functions

DISCLOSURE: for `tolower toupper title trim replace split substr join int float string` the specification is
the record of the function (`ScalarFn`, Asm/Data.lean: the accepted argument counts, the assertion made on
each argument, the result as a function of the asserted values) applied to the evaluated arguments. The
model evaluates the same record, so `evalFn_describe_text` (Props/C20.lean) says that the evaluator makes
the assertions in the order of the Go code, stops at the first that fails and hands the asserted values on
unchanged — what the result functions compute is stated function by function, independently of the
records, by the closed forms `tolower_spec … string_spec` (Props/C20.lean) and compared with the
implementation by the run. `reverse`, `append` and `include` are specified here directly.

Formalisation choices: `include` compares with Go's `==` on interface values (numbers of different kinds are
different, comparing two lists/maps is an error, reached only if no earlier element matched); `substr`
with a start beyond the end is an error; `int` of a float truncates toward zero. -/

/-- the assertions `ws` applied to the values `vs` in order; the first failure decides -/
def acceptAll (h : Heap) : List Want → List Val → List Tree → Except Stop (List Tree)
  | w :: ws, v :: vs, acc =>
    match w.accept h v with
    | .ok xs => acceptAll h ws vs (acc ++ xs)
    | .error e => .error e
  | _, _, acc => .ok acc

/-- a text/conversion function on evaluated arguments -/
def scalar (g : ScalarFn) (vs : List Val) : M Val := fun h =>
  if !g.arity vs.length then (raise, h)
  else match acceptAll h (g.wants vs.length) (if g.swap then vs.reverse else vs) [] with
    | .error e => (.error e, h)
    | .ok acc =>
      match g.fin vs.length acc with
      | .error e => (.error e, h)
      | .ok (.arr xs) => (.ok (.aref h.length), h ++ [.arr (xs.map Tree.toVal)])
      | .ok t => (.ok t.toVal, h)

/-- `reverse`: a new array with the elements in reverse order -/
def reverse (vs : List Val) : M Val := fun h =>
  match vs with
  | [.aref a] => (.ok (.aref h.length), h ++ [.arr (h.arrAt a).reverse])
  | _ => (raise, h)

/-- `append`: a new array, the second argument after the elements of the first -/
def append (vs : List Val) : M Val := fun h =>
  match vs with
  | [.aref a, v] => (.ok (.aref h.length), h ++ [.arr (h.arrAt a ++ [v])])
  | _ => (raise, h)

/-- is `v1` among `xs` (Go `==`; an element of the same uncomparable kind as `v1` met before a match is an error) -/
def includes (v1 : Val) : List Val → R
  | [] => .ok (.bool false)
  | m :: r =>
    match goEq m v1 with
    | some true => .ok (.bool true)
    | some false => includes v1 r
    | none => raise

/-- `include`: membership in a list, or substring of a string -/
def includ (h : Heap) : List Val → R
  | [.aref a, v1] => includes v1 (h.arrAt a)
  | [.str s, .str t] => .ok (.bool (containsSub s t))
  | _ => raise

/-! ## control -/

/-- `cond`: the value of the first pair whose condition evaluates to `true`; `none` stands for an
argument that is not a two-element array -/
def cond : List (Option (M Val × M Val)) → M Val
  | [] => pure .null
  | none :: _ => stop .panic
  | some (c, v) :: r => do
    let b ← c
    if b = .bool true then v else cond r

/-- `asm`: each step gets the result of the previous one as its local data -/
def asm (steps : List (Val → M Val)) (at_ : Val) : M Val :=
  match steps with
  | [] => pure at_
  | s :: r => do
    let v ← s at_
    asm r v

/-- `each` over the array cell `a` (its `n` elements from index `i`): `body` runs on the local data
`{src: element}`, the member `key` of that map is collected -/
def eachFrom (body : Val → M Val) (key : Bytes) (a : Nat) : Nat → Nat → M (List Val)
  | 0, _ => pure []
  | n + 1, i => do
    let h ← getHeap
    let m ← alloc (.map [(b!"src", (h.arrAt a).getD i .null)])
    let _ ← body (.mref m)
    let h2 ← getHeap
    let rest ← eachFrom body key a n (i + 1)
    pure ((kvGet key (h2.mapAt m)).getD .null :: rest)

def each (body : Val → M Val) (key : Bytes) (a : Nat) : M Val := do
  let h ← getHeap
  let rs ← eachFrom body key a (h.arrAt a).length 0
  let c ← alloc (.arr rs)
  pure (.aref c)

/-! ## one table for the functions whose arguments are all evaluated values -/

/-- the documented result of `f` on evaluated arguments `vs` (functions that take a path, a body or
unevaluated pairs are specified by `get … each` above) -/
def describe (dev : Dev) (f : Bytes) (vs : List Val) : M Val := fun h =>
  if f = b!"sum" || f = b!"+" then (sum vs, h)
  else if f = b!"dif" || f = b!"-" then (arith dev .dif vs, h)
  else if f = b!"product" || f = b!"*" then (arith dev .product vs, h)
  else if f = b!"quotient" || f = b!"/" then (arith dev .quotient vs, h)
  else if f = b!"mod" then (mod vs, h)
  else if f = b!"lt" || f = b!"<" then (cmp dev .lt vs, h)
  else if f = b!"lte" || f = b!"<=" then (cmp dev .lte vs, h)
  else if f = b!"gt" || f = b!">" then (cmp dev .gt vs, h)
  else if f = b!"gte" || f = b!">=" then (cmp dev .gte vs, h)
  else if f = b!"equal" || f = b!"eq" || f = b!"==" then ((equal dev h vs).map .bool, h)
  else if f = b!"neq" || f = b!"!=" then ((equal dev h vs).map (fun b => .bool (!b)), h)
  else if f = b!"and" then (land vs, h)
  else if f = b!"or" then (lor vs, h)
  else if f = b!"not" then (lnot vs, h)
  else if f = b!"at" then (pathOf true vs, h)
  else if f = b!"root" then (pathOf false vs, h)
  else if f = b!"list" then list vs h
  else if f = b!"nth" then (nth h vs, h)
  else if f = b!"size" then (size h vs, h)
  else if f = b!"array?" then (pred Val.isArr vs, h)
  else if f = b!"bool?" then (pred Val.isBool vs, h)
  else if f = b!"map?" then (pred Val.isMap vs, h)
  else if f = b!"nil?" || f = b!"null?" then (pred Val.isNull vs, h)
  else if f = b!"num?" then (pred Val.isNum vs, h)
  else if f = b!"string?" then (pred Val.isStr vs, h)
  else if f = b!"tolower" then scalar (sfCase lowerB) vs h
  else if f = b!"toupper" then scalar (sfCase upperB) vs h
  else if f = b!"title" then scalar sfTitle vs h
  else if f = b!"trim" then scalar sfTrim vs h
  else if f = b!"replace" then scalar sfReplace vs h
  else if f = b!"split" then scalar sfSplit vs h
  else if f = b!"substr" then scalar sfSubstr vs h
  else if f = b!"join" then scalar sfJoin vs h
  else if f = b!"int" then scalar sfInt vs h
  else if f = b!"float" then scalar sfFloat vs h
  else if f = b!"string" then scalar sfString vs h
  else if f = b!"reverse" then reverse vs h
  else if f = b!"append" then append vs h
  else if f = b!"include" then (includ h vs, h)
  else (.error .unmodelled, h)

/-! ## the registry as documented

Every registered function: name (bytes), the Go function that evaluates it (aliases share one), whether
arguments are left uncompiled (`quote`), and its description — the text `asm.FnDocs()` returns and
asm/doc.go repeats. `Props/C20.lean` proves this table equal to the one regenerated from the source on
every run, so a new, removed, re-pointed or re-documented function breaks the proof. -/
def fnTable : List (Bytes × String × Bool × String) := [
  ([33, 61], "neq", false, "Returns true if any the argument are not equal. An alias is !==."),
  ([42], "product", false, "Returns the product of all arguments. All arguments must be\nnumbers. If any of the arguments are not a number an error is\nraised."),
  ([43], "sum", false, "Returns the sum of all arguments. All arguments must be numbers\nor strings. If any argument is a string then the result will be\na string otherwise the result will be a number. If any of the\narguments are not a number or a string an error is raised."),
  ([45], "dif", false, "Returns the difference of all arguments. All arguments must be\nnumbers. If any of the arguments are not a number an error is\nraised."),
  ([47], "quotient", false, "Returns the quotient of all arguments. All arguments must be\nnumbers. If any of the arguments are not a number an error is\nraised. If an attempt is made to divide by zero and error will\nbe raised."),
  ([60], "lt", false, "Returns true if each argument is less than any subsequent\nargument. An alias is lt."),
  ([60, 61], "lte", false, "Returns true if each argument is less than or equal to any\nsubsequent argument. An alias is lte."),
  ([61, 61], "equal", false, "Returns true if all the argument are equal. Aliases are eq, ==,\nand equal."),
  ([62], "gt", false, "Returns true if each argument is greater than any subsequent\nargument. An alias is gt."),
  ([62, 61], "gte", false, "Returns true if each argument is greater than or equal to any\nsubsequent argument. An alias is gte."),
  ([97, 110, 100], "and", false, "Returns true if all argument evaluate to true. Any arguments\nthat do not evaluate to a boolean or null (false) raise an error."),
  ([97, 112, 112, 101, 110, 100], "appendEval", false, "Appends the second argument to the first argument which must be\nan array."),
  ([97, 114, 114, 97, 121, 63], "arrayEval", false, "Returns true if the single required argumement is an array\notherwise false is returned."),
  ([97, 115, 109], "asmEval", false, "Processes all arguments in order using the return of each as\ninput for the next."),
  ([97, 116], "at", false, "Forms a path starting with @. The remaining string arguments are\njoined with a '.' and parsed to form a jp.Expr."),
  ([98, 111, 111, 108, 63], "boolEval", false, "Returns true if the single required argumement is a boolean\notherwise false is returned."),
  ([99, 111, 110, 100], "cond", false, "A conditional construct modeled after the LISP cond. All\narguments must be array of two elements. The first element must\nevaluate to a boolean and the second can be any value. The value\nof the first true first argument is returned. If none match nil\nis returned."),
  ([100, 101, 108], "delEval", false, "Deletes the first matching value in either the root ($) or\nlocal (@) data. Exactly one argument is required and it must be\na path. The jp.DelOne() function is used to delete the value.\nThe local (@) value is returned."),
  ([100, 101, 108, 97, 108, 108], "delall", false, "Deletes the all matching values in either the root ($) or\nlocal (@) data. Exactly one argument is required and it must be\na path. The jp.DelOne() function is used to delete the value.\nThe local (@) value is returned."),
  ([100, 105, 102], "dif", false, "Returns the difference of all arguments. All arguments must be\nnumbers. If any of the arguments are not a number an error is\nraised."),
  ([101, 97, 99, 104], "each", false, "Each ."),
  ([101, 113], "equal", false, "Returns true if all the argument are equal. Aliases are eq, ==,\nand equal."),
  ([101, 113, 117, 97, 108], "equal", false, "Returns true if all the argument are equal. Aliases are eq, ==,\nand equal."),
  ([102, 108, 111, 97, 116], "floatEval", false, "Converts a value into a float if possible. I no conversion is\npossible nil is returned."),
  ([103, 101, 116], "get", false, "Gets the first matching value in either the root ($), local (@),\nor if present, the second argument. The required first argument\nmust be a path and the option second argument is the\ndata to apply the path to. The jp.First() function is used to\nget the results"),
  ([103, 101, 116, 97, 108, 108], "getall", false, "Gets all matching values in either the root ($), or local (@),\nor if present, the second argument. The required first argument\nmust be a path and the option second argument is the\ndata to apply the path to. The jp.Get() function is used to get\nthe results"),
  ([103, 116], "gt", false, "Returns true if each argument is greater than any subsequent\nargument. An alias is >."),
  ([103, 116, 101], "gte", false, "Returns true if each argument is greater than or equal to any\nsubsequent argument. An alias is >=."),
  ([105, 110, 99, 108, 117, 100, 101], "include", false, "Returns true if a list first argument includes the second\nargument. It will also return true if the first argument is a\nstring and the second string argument is included in the first."),
  ([105, 110, 115, 112, 101, 99, 116], "inspect", false, "Print the arguments as JSON unless the argument is an integer.\nIntegers are assumed to be the indentation for the arguments\nthat follow."),
  ([105, 110, 116], "intEval", false, "Converts a value into a integer if possible. I no conversion is\npossible nil is returned."),
  ([106, 111, 105, 110], "join", false, "Join an array of strings with the provided separator. If a\nseparator is not provided as the second argument then an empty\nstring is used."),
  ([108, 105, 115, 116], "list", false, "Creates a list from all the argument and return that list."),
  ([108, 116], "lt", false, "Returns true if each argument is less than any subsequent\nargument. An alias is <."),
  ([108, 116, 101], "lte", false, "Returns true if each argument is less than or equal to any\nsubsequent argument. An alias is <=."),
  ([109, 97, 112, 63], "mapEval", false, "Returns true if the single required argumement is a map\notherwise false is returned."),
  ([109, 111, 100], "mod", false, "Returns the remainer of a modulo operation on the first two\nargument. Both arguments must be integers and are both required.\nAn error is raised if the wrong argument types are given."),
  ([110, 101, 113], "neq", false, "Returns true if any the argument are not equal. An alias is !==."),
  ([110, 105, 108, 63], "null", false, "Returns true if the single required argumement is null (JSON)\nor nil (golang) otherwise false is returned."),
  ([110, 111, 116], "not", false, "Returns the boolean NOT of the argument. Exactly one argument\nis expected and it must be a boolean."),
  ([110, 116, 104], "nth", false, "Returns a nth element of an array. The second argument must be\nan integer that indicates the element of the array to return.\nIf the index is less than 0 then the index is from the end of\nthe array."),
  ([110, 117, 108, 108, 63], "null", false, "Returns true if the single required argumement is null (JSON)\nor nil (golang) otherwise false is returned."),
  ([110, 117, 109, 63], "num", false, "Returns true if the single required argumement is number\notherwise false is returned."),
  ([111, 114], "or", false, "Returns true if any of the argument evaluate to true. Any\narguments that do not evaluate to a boolean or null (false)\nraise an error."),
  ([112, 114, 111, 100, 117, 99, 116], "product", false, "Returns the product of all arguments. All arguments must be\nnumbers. If any of the arguments are not a number an error is\nraised."),
  ([113, 117, 111, 116, 101], "quote", true, "Does not evaluate arguments. One argument is expected. Null is\nreturned if no arguments are given while any arguments other\nthan the first are ignored. An example for use would be to\ntreats \"@.x\" as a string instead of as a path."),
  ([113, 117, 111, 116, 105, 101, 110, 116], "quotient", false, "Returns the quotient of all arguments. All arguments must be\nnumbers. If any of the arguments are not a number an error is\nraised. If an attempt is made to divide by zero and error will\nbe raised."),
  ([114, 101, 112, 108, 97, 99, 101], "replace", false, "Replace an occurrences the second argument with the third\nargument. All three arguments must be strings."),
  ([114, 101, 118, 101, 114, 115, 101], "reverse", false, "Reverse the items in an array and return a copy of it."),
  ([114, 111, 111, 116], "root", false, "Forms a path starting with @. The remaining string arguments are\njoined with a '.' and parsed to form a jp.Expr."),
  ([115, 101, 116], "set", false, "Sets a single value in either the root ($) or local (@) data. Two\narguments are required, the first must be a path and the second\nargument is evaluate to a value and inserted using the\njp.SetOne() function."),
  ([115, 101, 116, 97, 108, 108], "setall", false, "Sets multiple values in either the root ($) or local (@) data.\nTwo arguments are required, the first must be a path and the\nsecond argument is evaluate to a value and inserted using the\njp.Set() function."),
  ([115, 105, 122, 101], "size", false, "Returns the size or length of a string, array, or object (map).\nFor all other types zero is returned"),
  ([115, 111, 114, 116], "sortEval", false, "Sort the items in an array and return a copy of the array. Valid\ntypes for comparison are strings, numbers, and times. Any other\ntype returned or a type mismatch will raise an error."),
  ([115, 112, 108, 105, 116], "split", false, "Split a string on using a specified separator."),
  ([115, 116, 114, 105, 110, 103], "stringConv", false, "Converts a value into a string."),
  ([115, 116, 114, 105, 110, 103, 63], "stringCheck", false, "Returns true if the single required argumement is a string\notherwise false is returned."),
  ([115, 117, 98, 115, 116, 114], "substr", false, "Returns a substring of the input string. The second argument\nmust be an integer that marks the start of the substring. The\nthird integer argument indicates the length of the substring\nif provided. If the length argument is not provided the end of\nthe substring is the end of the input string."),
  ([115, 117, 109], "sum", false, "Returns the sum of all arguments. All arguments must be numbers\nor strings. If any argument is a string then the result will be\na string otherwise the result will be a number. If any of the\narguments are not a number or a string an error is raised."),
  ([116, 105, 109, 101], "timeConv", false, "Converts the first argument to a time if possible otherwise\nan error is raised. The first argument can be a integer, float,\nor string and are converted as follows:\n  integer < 10^10:  time in seconds since 1970-01-01 UTC\n  integer >= 10^10: time in nanoseconds 1970-01-01 UTC\n  decimal (float):  time in seconds 1970-01-01 UTC\n  string:           assumed to be formated as RFC3339 unless a\n                    format argument is provided"),
  ([116, 105, 109, 101, 63], "timeCheck", false, "Returns true if the single required argumement is a time\notherwise false is returned."),
  ([116, 105, 116, 108, 101], "title", false, "Convert a string to capitalized string. There must be exactly\none string argument."),
  ([116, 111, 108, 111, 119, 101, 114], "tolower", false, "Convert a string to lowercase. There must be exactly one\nstring argument."),
  ([116, 111, 117, 112, 112, 101, 114], "toupper", false, "Convert a string to uppercase. There must be exactly one\nstring argument."),
  ([116, 114, 105, 109], "trim", false, "Trim white space from both ends of a string unless a second\nargument provides an alternative cut set."),
  ([122, 111, 110, 101], "zone", false, "Changes the timezone on a time to the location specified in the\nsecond argument. Raises an error if the first argument does not\nevaluate to a time or the location can not be determined.\nLocation can be either a string or the number of minutes offset\nfrom UTC.")
]

end OjgVerif.Asm.Spec
