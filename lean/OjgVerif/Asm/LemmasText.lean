import OjgVerif.Asm.Lemmas
/-! Model = specification for the text, conversion and list functions of the `asm` family: on arguments that
evaluate without effect the evaluator of a `ScalarFn` record makes the assertions of the record in order and
returns what `Spec.scalar` says; `reverse`, `append`, `include` return what `Spec.reverse/append/includ` say. -/
set_option linter.unusedSimpArgs false
set_option linter.unusedVariables false
namespace OjgVerif.Asm
open OjgVerif

theorem wantLoop_pure (e : Arg → M Val) (h : Heap) :
    ∀ (args : List Arg) (vs : List Val) (ws : List Want) (acc : List Tree), PureArgs e h args vs →
      wantLoop e args ws acc h =
        (match Spec.acceptAll h ws vs acc with | .ok r => (.ok r, h) | .error er => (.error er, h))
  | [], [], ws, acc, _ => by cases ws <;> simp [wantLoop, Spec.acceptAll]
  | a :: as, v :: vs, [], acc, hp => by simp [wantLoop, Spec.acceptAll]
  | a :: as, v :: vs, w :: ws, acc, hp => by
    simp only [wantLoop, bind_apply, hp.1, getHeap_apply, liftE_apply, Spec.acceptAll]
    cases w.accept h v with
    | error er => simp
    | ok xs => simp only []; exact wantLoop_pure e h as vs ws _ hp.2
  | [], _ :: _, _, _, hp => by simp [PureArgs] at hp
  | _ :: _, [], _, _, hp => by simp [PureArgs] at hp

theorem PureArgs.append {e : Arg → M Val} {h : Heap} : ∀ {as bs : List Arg} {vs ws : List Val},
    PureArgs e h as vs → PureArgs e h bs ws → PureArgs e h (as ++ bs) (vs ++ ws)
  | [], _, [], _, _, hb => by simpa using hb
  | a :: as, _, v :: vs, _, ha, hb => by
    simp only [List.cons_append, PureArgs]
    exact ⟨ha.1, PureArgs.append ha.2 hb⟩
  | [], _, _ :: _, _, ha, _ => by simp [PureArgs] at ha
  | _ :: _, _, [], _, ha, _ => by simp [PureArgs] at ha

theorem PureArgs.reverse {e : Arg → M Val} {h : Heap} : ∀ {as : List Arg} {vs : List Val},
    PureArgs e h as vs → PureArgs e h as.reverse vs.reverse
  | [], [], _ => by simp [PureArgs]
  | a :: as, v :: vs, hp => by
    simp only [List.reverse_cons]
    exact PureArgs.append (PureArgs.reverse hp.2) ⟨hp.1, by simp [PureArgs]⟩
  | [], _ :: _, hp => by simp [PureArgs] at hp
  | _ :: _, [], hp => by simp [PureArgs] at hp

theorem retTree_apply (t : Tree) (h : Heap) :
    retTree t h = (match t with
      | .arr xs => (.ok (.aref h.length), h ++ [.arr (xs.map Tree.toVal)])
      | t => (.ok t.toVal, h)) := by
  cases t <;> simp [retTree]

theorem fnScalar_spec (g : ScalarFn) (e : Arg → M Val) (h : Heap) (args : List Arg) (vs : List Val)
    (hp : PureArgs e h args vs) : fnScalar g e args h = Spec.scalar g vs h := by
  have hl := hp.length
  have hp' : PureArgs e h (if g.swap = true then args.reverse else args) (if g.swap = true then vs.reverse else vs) := by
    split
    · exact PureArgs.reverse hp
    · exact hp
  unfold fnScalar Spec.scalar
  rw [hl]
  split
  · simp [Spec.raise]
  · simp only [bind_apply, wantLoop_pure e h _ _ _ _ hp', liftE_apply]
    cases Spec.acceptAll h (g.wants vs.length) (if g.swap = true then vs.reverse else vs) [] with
    | error er => simp
    | ok acc =>
      simp only []
      cases g.fin vs.length acc with
      | error er => simp
      | ok t => simp only [retTree_apply]; cases t <;> rfl

theorem fnReverse_spec (e : Arg → M Val) (h : Heap) (args : List Arg) (vs : List Val)
    (hp : PureArgs e h args vs) : fnReverse e args h = Spec.reverse vs h := by
  match args, vs, hp with
  | [], [], _ => simp [fnReverse, Spec.reverse, Spec.raise]
  | [a], [v], hp =>
    have h1 := hp.1
    cases v <;> simp [fnReverse, Spec.reverse, Spec.raise, h1]
  | a :: b :: r, v :: w :: vs, hp => simp [fnReverse, Spec.reverse, Spec.raise]
  | [], _ :: _, hp => simp [PureArgs] at hp
  | _ :: _, [], hp => simp [PureArgs] at hp
  | [_], _ :: _ :: _, hp => simp [PureArgs] at hp
  | _ :: _ :: _, [_], hp => simp [PureArgs] at hp

theorem fnAppend_spec (e : Arg → M Val) (h : Heap) (args : List Arg) (vs : List Val)
    (hp : PureArgs e h args vs) : fnAppend e args h = Spec.append vs h := by
  match args, vs, hp with
  | [], [], _ => simp [fnAppend, Spec.append, Spec.raise]
  | [a], [v], hp => simp [fnAppend, Spec.append, Spec.raise]
  | [a, b], [v, w], hp =>
    have h1 := hp.1
    have h2 := hp.2.1
    cases v <;> simp [fnAppend, Spec.append, Spec.raise, h1, h2]
  | a :: b :: c :: r, v :: w :: x :: vs, hp => simp [fnAppend, Spec.append, Spec.raise]
  | [], _ :: _, hp => simp [PureArgs] at hp
  | _ :: _, [], hp => simp [PureArgs] at hp
  | [_], _ :: _ :: _, hp => simp [PureArgs] at hp
  | _ :: _ :: _, [_], hp => simp [PureArgs] at hp
  | [_, _], _ :: _ :: _ :: _, hp => simp [PureArgs] at hp
  | _ :: _ :: _ :: _, [_, _], hp => simp [PureArgs] at hp

theorem includeLoop_spec (v1 : Val) : ∀ (xs : List Val), includeLoop v1 xs = Spec.includes v1 xs
  | [] => rfl
  | m :: r => by
    simp only [includeLoop, Spec.includes]
    cases goEq m v1 with
    | none => rfl
    | some b => cases b <;> simp only [] <;> first | rfl | exact includeLoop_spec v1 r

theorem fnInclude_spec (e : Arg → M Val) (h : Heap) (args : List Arg) (vs : List Val)
    (hp : PureArgs e h args vs) : fnInclude e args h = (Spec.includ h vs, h) := by
  match args, vs, hp with
  | [], [], _ => simp [fnInclude, Spec.includ, Spec.raise]
  | [a], [v], hp => simp [fnInclude, Spec.includ, Spec.raise]
  | [a, b], [v, w], hp =>
    have h1 := hp.1
    have h2 := hp.2.1
    cases v <;> cases w <;> simp [fnInclude, Spec.includ, Spec.raise, h1, h2, includeLoop_spec]
  | a :: b :: c :: r, v :: w :: x :: vs, hp => simp [fnInclude, Spec.includ, Spec.raise]
  | [], _ :: _, hp => simp [PureArgs] at hp
  | _ :: _, [], hp => simp [PureArgs] at hp
  | [_], _ :: _ :: _, hp => simp [PureArgs] at hp
  | _ :: _ :: _, [_], hp => simp [PureArgs] at hp
  | [_, _], _ :: _ :: _ :: _, hp => simp [PureArgs] at hp
  | _ :: _ :: _ :: _, [_, _], hp => simp [PureArgs] at hp

end OjgVerif.Asm
