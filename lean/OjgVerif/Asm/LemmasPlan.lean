import OjgVerif.Asm.LemmasFrame
/-! Plan-separation lemmas of the `asm` family: when literals are copied (the code since 52cf3c4 and
9281d31) no value the evaluator produces or stores refers to a cell of the plan, so no mutator can reach
one: the cells below the boundary `k` (the plan) are never written, the cells from `k` on (the data)
never point below `k` (`Safe`). -/
set_option linter.unusedSimpArgs false
set_option linter.unusedVariables false
namespace OjgVerif.Asm
open OjgVerif

/-! ## the plan's cells are never handed to the data -/

/-- a value that does not point below address `k` (the plan's cells are the cells below `k`) -/
def Val.hi (k : Nat) : Val → Prop
  | .aref a => k ≤ a
  | .mref a => k ≤ a
  | _ => True

def Cell.hi (k : Nat) : Cell → Prop
  | .arr xs => ∀ v ∈ xs, v.hi k
  | .map kvs => ∀ kv ∈ kvs, kv.2.hi k

/-- every cell from `k` on only points to cells from `k` on: the data never refers to the plan -/
def HeapHi (k : Nat) (h : Heap) : Prop := ∀ i c, k ≤ i → h[i]? = some c → c.hi k

/-- what "does not refer to the plan" means for each kind of intermediate result -/
class HasHi (α : Type) where
  hi : Nat → α → Prop

instance : HasHi Val := ⟨Val.hi⟩
instance : HasHi Bool := ⟨fun _ _ => True⟩
instance : HasHi Unit := ⟨fun _ _ => True⟩
instance : HasHi Bytes := ⟨fun _ _ => True⟩
instance : HasHi Path := ⟨fun _ _ => True⟩
instance : HasHi SumAcc := ⟨fun _ _ => True⟩
instance : HasHi NumAcc := ⟨fun _ _ => True⟩
instance : HasHi Nat := ⟨fun k a => k ≤ a⟩
instance : HasHi (List Val) := ⟨fun k vs => ∀ v ∈ vs, v.hi k⟩
instance : HasHi (List (Bytes × Val)) := ⟨fun k vs => ∀ kv ∈ vs, kv.2.hi k⟩
instance : HasHi (Bytes × Val) := ⟨fun k kv => kv.2.hi k⟩
instance : HasHi (Option Val) := ⟨fun k o => ∀ v, o = some v → v.hi k⟩
instance : HasHi Heap := ⟨fun k h => HeapHi k h ∧ k ≤ h.length⟩
instance : HasHi Tree := ⟨fun _ _ => True⟩
instance : HasHi (List Tree) := ⟨fun _ _ => True⟩

/-- from a heap whose data does not refer to the plan, `m` leaves the plan's cells as they are, keeps
the data free of references to the plan, only grows the heap, and returns a result free of them -/
structure Safe (k : Nat) [HasHi α] (m : M α) : Prop where
  run : ∀ h, HeapHi k h → k ≤ h.length →
    (∀ i, i < k → (m h).2[i]? = h[i]?) ∧ HeapHi k (m h).2 ∧ h.length ≤ (m h).2.length ∧
    ∀ a, (m h).1 = .ok a → HasHi.hi k a

variable {k : Nat}

theorem Safe.pure [HasHi α] {a : α} (ha : HasHi.hi k a) : Safe k (pure a : M α) :=
  ⟨fun h hh hk => ⟨fun _ _ => rfl, hh, Nat.le_refl _, fun b hb => by simp at hb; subst hb; exact ha⟩⟩

theorem Safe.stop [HasHi α] (s : Stop) : Safe k (stop s : M α) :=
  ⟨fun h hh hk => ⟨fun _ _ => rfl, hh, Nat.le_refl _, fun b hb => by simp at hb⟩⟩

theorem Safe.liftE [HasHi α] {e : Except Stop α} (he : ∀ a, e = .ok a → HasHi.hi k a) : Safe k (liftE e) :=
  ⟨fun h hh hk => ⟨fun _ _ => rfl, hh, Nat.le_refl _, fun b hb => by simp at hb; exact he b hb⟩⟩

theorem Safe.getHeap : Safe k getHeap :=
  ⟨fun h hh hk => ⟨fun _ _ => rfl, hh, Nat.le_refl _, fun b hb => by simp at hb; subst hb; exact ⟨hh, hk⟩⟩⟩

theorem HeapHi.append {h : Heap} {c : Cell} (hh : HeapHi k h) (hc : c.hi k) : HeapHi k (h ++ [c]) := by
  intro i c' hi hget
  by_cases hlt : i < h.length
  · rw [List.getElem?_append_left hlt] at hget
    exact hh i c' hi hget
  · have : i - h.length = 0 ∨ 0 < i - h.length := by omega
    rw [List.getElem?_append_right (by omega)] at hget
    rcases this with h0 | h0
    · simp [h0] at hget; subst hget; exact hc
    · have : ([c] : List Cell)[i - h.length]? = none := by
        apply List.getElem?_eq_none; simp; omega
      simp [this] at hget

theorem Safe.alloc {c : Cell} (hc : c.hi k) : Safe k (alloc c) :=
  ⟨fun h hh hk => ⟨fun i hi => by simp [List.getElem?_append_left (by omega : i < h.length)],
    by simpa using hh.append hc, by simp, fun b hb => by simp at hb; subst hb; exact hk⟩⟩

theorem Safe.bind [HasHi α] [HasHi β] {m : M α} {f : α → M β} (hm : Safe k m)
    (hf : ∀ a, HasHi.hi k a → Safe k (f a)) : Safe k (m >>= f) := by
  constructor
  intro h hh hk
  obtain ⟨h1, h2, h3, h4⟩ := hm.run h hh hk
  simp only [bind_apply]
  cases hmh : m h with
  | mk r h' =>
    rw [hmh] at h1 h2 h3 h4
    simp only at h1 h2 h3 h4
    cases r with
    | error e => exact ⟨h1, h2, h3, fun a ha => by simp at ha⟩
    | ok a =>
      obtain ⟨g1, g2, g3, g4⟩ := (hf a (h4 a rfl)).run h' h2 (by omega)
      exact ⟨fun i hi => (g1 i hi).trans (h1 i hi), g2, Nat.le_trans h3 g3, g4⟩

theorem Safe.ite [HasHi α] {c : Prop} [Decidable c] {m1 m2 : M α} (h1 : Safe k m1) (h2 : Safe k m2) :
    Safe k (if c then m1 else m2) := by
  split <;> assumption

macro "hi_tac" : tactic =>
  `(tactic| first | trivial | assumption | (simp_all [HasHi.hi, Val.hi, Cell.hi]; done))

macro "safe_step" : tactic =>
  `(tactic| first
    | exact Safe.stop _ | exact Safe.getHeap
    | assumption
    | (refine Safe.pure ?_; hi_tac)
    | (refine Safe.liftE ?_; hi_tac)
    | apply Safe.bind
    | apply Safe.ite
    | intro _
    | split)

macro "safe" : tactic => `(tactic| repeat' safe_step)

/-! ### reading -/

theorem arrAt_hi {h : Heap} {a : Nat} (hh : HeapHi k h) (ha : k ≤ a) : ∀ v ∈ h.arrAt a, v.hi k := by
  unfold Heap.arrAt
  cases hg : h[a]? with
  | none => simp
  | some c =>
    cases c with
    | arr xs => exact hh a _ ha hg
    | map kvs => simp

theorem mapAt_hi {h : Heap} {a : Nat} (hh : HeapHi k h) (ha : k ≤ a) : ∀ kv ∈ h.mapAt a, kv.2.hi k := by
  unfold Heap.mapAt
  cases hg : h[a]? with
  | none => simp
  | some c =>
    cases c with
    | arr xs => simp
    | map kvs => exact hh a _ ha hg

theorem kvGet_mem {k' : Bytes} {v : α} : ∀ {kvs : List (Bytes × α)}, kvGet k' kvs = some v → (k', v) ∈ kvs
  | [], h => by simp [kvGet] at h
  | (k2, v2) :: r, h => by
    simp only [kvGet] at h
    by_cases hk : k2 = k'
    · simp [hk] at h; simp [hk, h]
    · simp [hk] at h; exact List.mem_cons_of_mem _ (kvGet_mem h)

theorem getD_hi {xs : List Val} (hx : ∀ v ∈ xs, v.hi k) (j : Nat) : (xs.getD j .null).hi k := by
  rw [List.getD_eq_getElem?_getD]
  cases hg : xs[j]? with
  | none => simp [Val.hi]
  | some v => simpa using hx v (List.mem_of_getElem? hg)

theorem head?_mem' {xs : List α} {x : α} (h : xs.head? = some x) : x ∈ xs := by
  cases xs with
  | nil => simp at h
  | cons a r => simp at h; simp [h]

theorem pathFirst_hi (dev : Dev) {h : Heap} (hh : HeapHi k h) :
    ∀ (fs : List Frag) (v : Val), v.hi k → ∀ w, pathFirst ⟨dev, none⟩ h v fs = .ok (some w) → w.hi k
  | [], v, hv, w, hr => by simp [pathFirst] at hr; subst hr; exact hv
  | f :: rest, v, hv, w, hr => by
    have ih := pathFirst_hi dev hh rest
    cases v with
    | aref a =>
      have ha : k ≤ a := hv
      cases f with
      | child k' => simp [pathFirst] at hr
      | nth i =>
        simp only [pathFirst] at hr
        split at hr
        · exact ih _ (getD_hi (arrAt_hi hh ha) _) w hr
        · simp at hr
      | wild =>
        simp only [pathFirst] at hr
        split at hr
        · simp at hr
        · simp at hr
          exact arrAt_hi hh ha w (head?_mem' hr)
    | mref a =>
      have ha : k ≤ a := hv
      cases f with
      | nth i => simp [pathFirst] at hr
      | child k' =>
        simp only [pathFirst] at hr
        split at hr
        · rename_i c hc
          exact ih c (mapAt_hi hh ha _ (kvGet_mem hc)) w hr
        · simp at hr
      | wild =>
        simp only [pathFirst] at hr
        split at hr
        · simp at hr
        · split at hr
          · simp at hr
          · rename_i kv hkv
            simp at hr
            subst hr
            exact mapAt_hi hh ha kv (by rw [hkv]; simp)
          · simp at hr
    | path p => cases f <;> simp [pathFirst] at hr
    | null => cases f <;> simp [pathFirst] at hr <;> (split at hr <;> simp at hr)
    | bool b => cases f <;> simp [pathFirst] at hr <;> (split at hr <;> simp at hr)
    | int n => cases f <;> simp [pathFirst] at hr <;> (split at hr <;> simp at hr)
    | flt x => cases f <;> simp [pathFirst] at hr <;> (split at hr <;> simp at hr)
    | str s => cases f <;> simp [pathFirst] at hr <;> (split at hr <;> simp at hr)

theorem pathGet_hi (dev : Dev) {h : Heap} (hh : HeapHi k h) :
    ∀ (fs : List Frag) (v : Val), v.hi k → ∀ ws, pathGet ⟨dev, none⟩ h v fs = .ok ws → ∀ w ∈ ws, w.hi k
  | [], v, hv, ws, hr => by simp [pathGet] at hr; subst hr; simpa using hv
  | f :: rest, v, hv, ws, hr => by
    have ih := pathGet_hi dev hh rest
    cases v with
    | aref a =>
      have ha : k ≤ a := hv
      cases f with
      | child k' => simp [pathGet] at hr; subst hr; simp
      | nth i =>
        simp only [pathGet] at hr
        split at hr
        · exact ih _ (getD_hi (arrAt_hi hh ha) _) ws hr
        · simp at hr; subst hr; simp
      | wild =>
        simp only [pathGet] at hr
        split at hr
        · simp at hr
        · simp at hr
          subst hr
          exact arrAt_hi hh ha
    | mref a =>
      have ha : k ≤ a := hv
      cases f with
      | nth i => simp [pathGet] at hr; subst hr; simp
      | child k' =>
        simp only [pathGet] at hr
        split at hr
        · rename_i c hc
          exact ih c (mapAt_hi hh ha _ (kvGet_mem hc)) ws hr
        · simp at hr; subst hr; simp
      | wild =>
        simp only [pathGet] at hr
        split at hr
        · simp at hr
        · split at hr
          · simp at hr; subst hr; simp
          · rename_i kv hkv
            simp at hr
            subst hr
            simpa using mapAt_hi hh ha kv (by rw [hkv]; simp)
          · simp at hr
    | path p => cases f <;> simp [pathGet] at hr
    | null => cases f <;> simp [pathGet] at hr <;> (first | (subst hr; simp) | (split at hr <;> simp at hr <;> (subst hr; simp)))
    | bool b => cases f <;> simp [pathGet] at hr <;> (first | (subst hr; simp) | (split at hr <;> simp at hr <;> (subst hr; simp)))
    | int n => cases f <;> simp [pathGet] at hr <;> (first | (subst hr; simp) | (split at hr <;> simp at hr <;> (subst hr; simp)))
    | flt x => cases f <;> simp [pathGet] at hr <;> (first | (subst hr; simp) | (split at hr <;> simp at hr <;> (subst hr; simp)))
    | str s => cases f <;> simp [pathGet] at hr <;> (first | (subst hr; simp) | (split at hr <;> simp at hr <;> (subst hr; simp)))

/-! ### writing -/

theorem HeapHi.set {h : Heap} {a : Nat} {c : Cell} (hh : HeapHi k h) (hc : c.hi k) : HeapHi k (h.set a c) := by
  intro i c' hi hget
  by_cases hia : i = a
  · subst hia
    by_cases hlt : i < h.length
    · simp [List.getElem?_set, hlt] at hget; subst hget; exact hc
    · simp [List.getElem?_set, hlt] at hget
  · rw [getElem?_set_ne' hia] at hget
    exact hh i c' hi hget

theorem kvSet_hi {k' : Bytes} {v : Val} (hv : v.hi k) : ∀ {kvs : List (Bytes × Val)}, (∀ kv ∈ kvs, kv.2.hi k) →
    ∀ kv ∈ kvSet k' v kvs, kv.2.hi k
  | [], _, kv, hm => by simp [kvSet] at hm; subst hm; exact hv
  | (k2, v2) :: r, hall, kv, hm => by
    simp only [kvSet] at hm
    by_cases hk : k2 = k'
    · simp [hk] at hm
      rcases hm with hm | hm
      · subst hm; exact hv
      · exact hall kv (List.mem_cons_of_mem _ hm)
    · simp [hk] at hm
      rcases hm with hm | hm
      · subst hm; exact hall (k2, v2) (List.mem_cons_self ..)
      · exact kvSet_hi hv (fun x hx => hall x (List.mem_cons_of_mem _ hx)) kv hm

theorem kvDel_hi {k' : Bytes} : ∀ {kvs : List (Bytes × Val)}, (∀ kv ∈ kvs, kv.2.hi k) →
    ∀ kv ∈ kvDel k' kvs, kv.2.hi k
  | [], _, kv, hm => by simp [kvDel] at hm
  | (k2, v2) :: r, hall, kv, hm => by
    simp only [kvDel] at hm
    by_cases hk : k2 = k'
    · simp [hk] at hm
      exact hall kv (List.mem_cons_of_mem _ hm)
    · simp [hk] at hm
      rcases hm with hm | hm
      · subst hm; exact hall (k2, v2) (List.mem_cons_self ..)
      · exact kvDel_hi (fun x hx => hall x (List.mem_cons_of_mem _ hx)) kv hm

theorem listSet_hi {xs : List Val} {j : Nat} {v : Val} (hx : ∀ w ∈ xs, w.hi k) (hv : v.hi k) :
    ∀ w ∈ xs.set j v, w.hi k := by
  intro w hw
  rcases List.mem_or_eq_of_mem_set hw with h1 | h1
  · exact hx w h1
  · subst h1; exact hv

/-- the four facts of `Safe.run` for a heap that is left as it is -/
theorem safe_same {h : Heap} (hh : HeapHi k h) (r : Except Stop Unit) :
    (∀ i, i < k → ((r, h) : Except Stop Unit × Heap).2[i]? = h[i]?) ∧ HeapHi k ((r, h) : Except Stop Unit × Heap).2 ∧
      h.length ≤ ((r, h) : Except Stop Unit × Heap).2.length ∧
      ∀ a, ((r, h) : Except Stop Unit × Heap).1 = .ok a → HasHi.hi k a :=
  ⟨fun _ _ => rfl, hh, Nat.le_refl _, fun _ _ => trivial⟩

theorem safe_set {h : Heap} {a : Nat} {c : Cell} (hh : HeapHi k h) (ha : k ≤ a) (hc : c.hi k) :
    (∀ i, i < k → (((.ok (), h.set a c)) : Except Stop Unit × Heap).2[i]? = h[i]?) ∧
      HeapHi k (((.ok (), h.set a c)) : Except Stop Unit × Heap).2 ∧
      h.length ≤ (((.ok (), h.set a c)) : Except Stop Unit × Heap).2.length ∧
      ∀ u, (((.ok (), h.set a c)) : Except Stop Unit × Heap).1 = .ok u → HasHi.hi k u :=
  ⟨fun i hi => getElem?_set_ne' (by omega), hh.set hc, by simp, fun _ _ => trivial⟩

macro "same_tac" : tactic =>
  `(tactic| first | exact safe_same ‹HeapHi _ _› _ | (refine ⟨?_, ‹HeapHi _ _›, ?_, ?_⟩ <;> simp [HasHi.hi]))

theorem pathSet_safe (value : Option Val) (hval : ∀ v, value = some v → v.hi k) :
    ∀ (fs : List Frag) (cur : Val), cur.hi k → Safe k (pathSet value cur fs)
  | [], cur, _ => by simp only [pathSet]; exact Safe.pure trivial
  | f :: rest, cur, hcur => by
    constructor
    intro h hh hk
    cases cur with
    | null => cases f <;> cases rest <;> simp only [pathSet] <;> same_tac
    | bool b => cases f <;> cases rest <;> simp only [pathSet] <;> same_tac
    | int n => cases f <;> cases rest <;> simp only [pathSet] <;> same_tac
    | flt x => cases f <;> cases rest <;> simp only [pathSet] <;> same_tac
    | str s => cases f <;> cases rest <;> simp only [pathSet] <;> same_tac
    | path p => cases f <;> cases rest <;> simp only [pathSet] <;> same_tac
    | aref a =>
      have ha : k ≤ a := hcur
      cases f with
      | wild => simp only [pathSet]; same_tac
      | child k' => cases rest <;> simp only [pathSet] <;> same_tac
      | nth j =>
        cases rest with
        | nil =>
          simp only [pathSet]
          cases normIdx j (h.arrAt a).length with
          | none => same_tac
          | some jj =>
            refine safe_set hh ha ?_
            apply listSet_hi (arrAt_hi hh ha)
            cases value with
            | none => simp [Val.hi]
            | some v => simpa using hval v rfl
        | cons g r =>
          simp only [pathSet]
          cases normIdx j (h.arrAt a).length with
          | none => same_tac
          | some jj =>
            simp only
            by_cases hs : ((h.arrAt a).getD jj Val.null).isScalar = true
            · simp only [hs, if_true]; same_tac
            · simp only [hs]
              exact (pathSet_safe value hval (g :: r) _ (getD_hi (arrAt_hi hh ha) _)).run h hh hk
    | mref a =>
      have ha : k ≤ a := hcur
      cases f with
      | wild => simp only [pathSet]; same_tac
      | nth j => cases rest <;> simp only [pathSet] <;> same_tac
      | child k' =>
        cases rest with
        | nil =>
          simp only [pathSet]
          cases value with
          | none => exact safe_set hh ha (kvDel_hi (mapAt_hi hh ha))
          | some v => exact safe_set hh ha (kvSet_hi (hval v rfl) (mapAt_hi hh ha))
        | cons g r =>
          simp only [pathSet]
          cases hkg : kvGet k' (h.mapAt a) with
          | some c =>
            simp only
            by_cases hs : c.isScalar = true
            · simp only [hs, if_true]; same_tac
            · simp only [hs]
              exact (pathSet_safe value hval (g :: r) c (mapAt_hi hh ha _ (kvGet_mem hkg))).run h hh hk
          | none =>
            simp only
            cases value with
            | none => same_tac
            | some v =>
              simp only
              by_cases hal : h.length ≤ a
              · simp only [hal, if_true]; same_tac
              · simp only [hal, if_false]
                cases g with
                | wild => same_tac
                | child k2 =>
                  simp only
                  have hh1 : HeapHi k (h ++ [Cell.map []]) := hh.append (by simp [Cell.hi])
                  have hma : ∀ kv ∈ (h ++ [Cell.map []]).mapAt a, kv.2.hi k := mapAt_hi hh1 ha
                  have hh2 := hh1.set (a := a) (c := Cell.map (kvSet k' (Val.mref h.length) ((h ++ [Cell.map []]).mapAt a))) (kvSet_hi (show Val.hi k (Val.mref h.length) from hk) hma)
                  obtain ⟨g1, g2, g3, g4⟩ := (pathSet_safe (some v) hval (Frag.child k2 :: r) (.mref h.length) (show Val.hi k (Val.mref h.length) from hk)).run _ hh2 (by simp; omega)
                  refine ⟨fun i hi => ?_, g2, ?_, g4⟩
                  · rw [g1 i hi, getElem?_set_ne' (by omega), List.getElem?_append_left (by omega)]
                  · have : h.length ≤ ((h ++ [Cell.map []]).set a (Cell.map (kvSet k' (Val.mref h.length) ((h ++ [Cell.map []]).mapAt a)))).length := by simp
                    exact Nat.le_trans this g3
                | nth j =>
                  simp only
                  by_cases hj : j < 0
                  · simp only [hj, if_true]; same_tac
                  · simp only [hj, if_false]
                    have hc : Cell.hi k (Cell.arr (List.replicate (j.toNat + 1) Val.null)) := by
                      intro v hv; rw [(List.mem_replicate.mp hv).2]; trivial
                    have hh1 : HeapHi k (h ++ [Cell.arr (List.replicate (j.toNat + 1) Val.null)]) := hh.append hc
                    have hma := mapAt_hi hh1 ha
                    have hh2 := hh1.set (a := a) (c := Cell.map (kvSet k' (Val.aref h.length) ((h ++ [Cell.arr (List.replicate (j.toNat + 1) Val.null)]).mapAt a))) (kvSet_hi (show Val.hi k (Val.aref h.length) from hk) hma)
                    obtain ⟨g1, g2, g3, g4⟩ := (pathSet_safe (some v) hval (Frag.nth j :: r) (.aref h.length) (show Val.hi k (Val.aref h.length) from hk)).run _ hh2 (by simp; omega)
                    refine ⟨fun i hi => ?_, g2, ?_, g4⟩
                    · rw [g1 i hi, getElem?_set_ne' (by omega), List.getElem?_append_left (by omega)]
                    · have : h.length ≤ ((h ++ [Cell.arr (List.replicate (j.toNat + 1) Val.null)]).set a (Cell.map (kvSet k' (Val.aref h.length) ((h ++ [Cell.arr (List.replicate (j.toNat + 1) Val.null)]).mapAt a)))).length := by simp
                      exact Nat.le_trans this g3

/-! ### the functions -/

theorem mapM'_safe_vals {α : Type} (f : α → M Val) :
    ∀ (xs : List α), (∀ x ∈ xs, Safe k (f x)) → Safe k (mapM' f xs)
  | [], _ => by simp only [mapM']; exact Safe.pure (fun v hv => by simp at hv)
  | a :: r, he => by
    have h1 := he a (List.mem_cons_self ..)
    have ih := mapM'_safe_vals f r (fun x hx => he x (List.mem_cons_of_mem _ hx))
    simp only [mapM']
    apply Safe.bind h1
    intro b hb
    apply Safe.bind ih
    intro bs hbs
    refine Safe.pure (fun v hv => ?_)
    rcases List.mem_cons.mp hv with h | h
    · subst h; exact hb
    · exact hbs v h

theorem mapM'_safe_kvs {α : Type} (f : α → M (Bytes × Val)) :
    ∀ (xs : List α), (∀ x ∈ xs, Safe k (f x)) → Safe k (mapM' f xs)
  | [], _ => by simp only [mapM']; exact Safe.pure (fun v hv => by simp at hv)
  | a :: r, he => by
    have h1 := he a (List.mem_cons_self ..)
    have ih := mapM'_safe_kvs f r (fun x hx => he x (List.mem_cons_of_mem _ hx))
    simp only [mapM']
    apply Safe.bind h1
    intro b hb
    apply Safe.bind ih
    intro bs hbs
    refine Safe.pure (fun v hv => ?_)
    rcases List.mem_cons.mp hv with h | h
    · subst h; exact hb
    · exact hbs v h

theorem copyVal_safe : ∀ (n : Nat) (v : Val), Safe k (copyVal n v)
  | 0, v => by simp only [copyVal]; exact Safe.stop _
  | n + 1, v => by
    have ih : ∀ v, Safe k (copyVal n v) := fun v => copyVal_safe n v
    cases v with
    | aref a =>
      simp only [copyVal]
      apply Safe.bind Safe.getHeap
      intro h _
      apply Safe.bind (mapM'_safe_vals _ _ (fun x _ => ih x))
      intro vs hvs
      apply Safe.bind (Safe.alloc (show Cell.hi k (Cell.arr vs) from hvs))
      intro c hc
      exact Safe.pure (show Val.hi k (Val.aref c) from hc)
    | mref a =>
      simp only [copyVal]
      apply Safe.bind Safe.getHeap
      intro h _
      apply Safe.bind (mapM'_safe_kvs _ _ (fun kv _ => Safe.bind (ih kv.2) (fun v hv => Safe.pure (show Val.hi k v from hv))))
      intro vs hvs
      apply Safe.bind (Safe.alloc (show Cell.hi k (Cell.map vs) from hvs))
      intro c hc
      exact Safe.pure (show Val.hi k (Val.mref c) from hc)
    | null => simp only [copyVal]; exact Safe.pure trivial
    | bool b => simp only [copyVal]; exact Safe.pure trivial
    | int i => simp only [copyVal]; exact Safe.pure trivial
    | flt f => simp only [copyVal]; exact Safe.pure trivial
    | str s => simp only [copyVal]; exact Safe.pure trivial
    | path p => simp only [copyVal]; exact Safe.pure trivial

/-- evaluating a literal of the plan gives a value that does not refer to the plan — provided literals are
copied (`litAlias = false`, the code since 52cf3c4) -/
theorem evalLit_safe (dev : Dev) (hd : dev.litAlias = false) (v : Val) : Safe k (evalLit dev v) := by
  unfold evalLit
  simp only [hd, Bool.false_or]
  by_cases hs : v.isScalar = true
  · simp only [hs, if_true]
    cases v <;> simp [Val.isScalar] at hs <;> exact Safe.pure trivial
  · simp only [hs]
    exact Safe.bind Safe.getHeap (fun h _ => copyVal_safe _ v)

theorem sumLoop_safe (e : Arg → M Val) : ∀ (args : List Arg) (acc : SumAcc), (∀ a ∈ args, Safe k (e a)) → Safe k (sumLoop e acc args)
  | [], acc, _ => by
    simp only [sumLoop]
    cases acc <;> exact Safe.pure trivial
  | a :: r, acc, he => by
    have h1 := he a (List.mem_cons_self ..)
    have ih := fun acc' => sumLoop_safe e r acc' (mem_tail he)
    simp only [sumLoop]
    safe
    all_goals exact ih _

theorem fnSum_safe (e : Arg → M Val) (args : List Arg) (he : ∀ a ∈ args, Safe k (e a)) : Safe k (fnSum e args) := by
  cases args with
  | nil => simp only [fnSum]; safe
  | cons a r =>
    have h1 := he a (List.mem_cons_self ..)
    simp only [fnSum]
    safe
    all_goals exact sumLoop_safe e r _ (mem_tail he)

theorem arithLoop_safe (dev : Dev) (op : ArithOp) (e : Arg → M Val) :
    ∀ (args : List Arg) (acc : NumAcc), (∀ a ∈ args, Safe k (e a)) → Safe k (arithLoop dev op e acc args)
  | [], acc, _ => by
    simp only [arithLoop]
    cases acc <;> exact Safe.pure trivial
  | a :: r, acc, he => by
    have h1 := he a (List.mem_cons_self ..)
    have ih := fun acc' => arithLoop_safe dev op e r acc' (mem_tail he)
    simp only [arithLoop]
    safe
    all_goals exact ih _

theorem fnArith_safe (dev : Dev) (op : ArithOp) (e : Arg → M Val) (args : List Arg) (he : ∀ a ∈ args, Safe k (e a)) :
    Safe k (fnArith dev op e args) := by
  cases args with
  | nil => simp only [fnArith]; safe
  | cons a r =>
    have h1 := he a (List.mem_cons_self ..)
    simp only [fnArith]
    safe
    all_goals exact arithLoop_safe dev op e r _ (mem_tail he)

theorem fnMod_safe (e : Arg → M Val) (args : List Arg) (he : ∀ a ∈ args, Safe k (e a)) : Safe k (fnMod e args) := by
  match args with
  | [] => simp only [fnMod]; safe
  | [a] => simp only [fnMod]; safe
  | [a, b] =>
    have h1 := he a (by simp)
    have h2 := he b (by simp)
    simp only [fnMod]
    safe
  | _ :: _ :: _ :: _ => simp only [fnMod]; safe

theorem cmpNumLoop_safe (dev : Dev) (op : CmpOp) (e : Arg → M Val) :
    ∀ (args : List Arg) (x : Flt), (∀ a ∈ args, Safe k (e a)) → Safe k (cmpNumLoop dev op e x args)
  | [], x, _ => by simp only [cmpNumLoop]; safe
  | a :: r, x, he => by
    have h1 := he a (List.mem_cons_self ..)
    have ih := fun x' => cmpNumLoop_safe dev op e r x' (mem_tail he)
    simp only [cmpNumLoop]
    safe
    all_goals exact ih _

theorem cmpStrLoop_safe (op : CmpOp) (e : Arg → M Val) :
    ∀ (args : List Arg) (x : Bytes), (∀ a ∈ args, Safe k (e a)) → Safe k (cmpStrLoop op e x args)
  | [], x, _ => by simp only [cmpStrLoop]; safe
  | a :: r, x, he => by
    have h1 := he a (List.mem_cons_self ..)
    have ih := fun x' => cmpStrLoop_safe op e r x' (mem_tail he)
    simp only [cmpStrLoop]
    safe
    all_goals exact ih _

theorem fnCmp_safe (dev : Dev) (hd : dev.cmpUneval = false) (op : CmpOp) (e : Arg → M Val) (args : List Arg)
    (he : ∀ a ∈ args, Safe k (e a)) : Safe k (fnCmp dev op e args) := by
  cases args with
  | nil => simp only [fnCmp]; safe
  | cons a r =>
    have h1 := he a (List.mem_cons_self ..)
    have hn := fun x => cmpNumLoop_safe dev op e r x (mem_tail he)
    have hs := fun x => cmpStrLoop_safe op e r x (mem_tail he)
    simp only [fnCmp, cmpHead, hd, Bool.false_eq_true, if_false]
    safe
    all_goals first | exact hn _ | exact hs _

theorem equalM_safe (dev : Dev) (v0 v1 : Val) : Safe k (equalM dev v0 v1) := by
  constructor
  intro h hh hk
  simp only [equalM]
  split <;> exact ⟨fun _ _ => rfl, hh, Nat.le_refl _, fun _ _ => trivial⟩

theorem eqLoop_safe (dev : Dev) (e : Arg → M Val) (v0 : Val) :
    ∀ (args : List Arg), (∀ a ∈ args, Safe k (e a)) → Safe k (eqLoop dev e v0 args)
  | [], _ => by simp only [eqLoop]; safe
  | a :: r, he => by
    have h1 := he a (List.mem_cons_self ..)
    have ih := eqLoop_safe dev e v0 r (mem_tail he)
    have hq : ∀ v, Safe k (equalM dev v0 v) := fun v => equalM_safe dev v0 v
    simp only [eqLoop]
    safe
    all_goals exact hq _

theorem fnEqual_safe (dev : Dev) (e : Arg → M Val) (args : List Arg) (he : ∀ a ∈ args, Safe k (e a)) :
    Safe k (fnEqual dev e args) := by
  cases args with
  | nil => simp only [fnEqual]; safe
  | cons a r =>
    have h1 := he a (List.mem_cons_self ..)
    simp only [fnEqual]
    safe
    all_goals exact eqLoop_safe dev e _ r (mem_tail he)

theorem fnAnd_safe (e : Arg → M Val) : ∀ (args : List Arg), (∀ a ∈ args, Safe k (e a)) → Safe k (fnAnd e args)
  | [], _ => by simp only [fnAnd]; safe
  | a :: r, he => by
    have h1 := he a (List.mem_cons_self ..)
    have ih := fnAnd_safe e r (mem_tail he)
    simp only [fnAnd]
    safe

theorem fnOr_safe (e : Arg → M Val) : ∀ (args : List Arg), (∀ a ∈ args, Safe k (e a)) → Safe k (fnOr e args)
  | [], _ => by simp only [fnOr]; safe
  | a :: r, he => by
    have h1 := he a (List.mem_cons_self ..)
    have ih := fnOr_safe e r (mem_tail he)
    simp only [fnOr]
    safe

theorem fnNot_safe (e : Arg → M Val) (args : List Arg) (he : ∀ a ∈ args, Safe k (e a)) : Safe k (fnNot e args) := by
  match args with
  | [] => simp only [fnNot]; safe
  | [a] =>
    have h1 := he a (by simp)
    simp only [fnNot]
    safe
  | _ :: _ :: _ => simp only [fnNot]; safe

theorem evalValue_safe (dev : Dev) (hd : dev.condListAlias = false) (e : Arg → M Val) (a : Arg) (ha : Safe k (e a)) :
    Safe k (evalValue dev e a) := by
  unfold evalValue
  cases a <;> simp only [hd, Bool.false_eq_true, if_false] <;> safe

theorem fnCond_safe (dev : Dev) (hd : dev.condListAlias = false) (e : Arg → M Val) :
    ∀ (args : List Arg), (∀ a ∈ args, ∀ c ∈ condKids a, Safe k (e c)) → Safe k (fnCond dev e args)
  | [], _ => by simp only [fnCond]; safe
  | a :: r, he => by
    have ih := fnCond_safe dev hd e r (fun x hx => he x (List.mem_cons_of_mem _ hx))
    have ha := he a (List.mem_cons_self ..)
    cases a with
    | raw l es =>
      match es with
      | [c, v] =>
        have hc := evalValue_safe dev hd e c (ha c (by simp [condKids]))
        have hv := evalValue_safe dev hd e v (ha v (by simp [condKids]))
        simp only [fnCond]
        safe
      | [] => simp only [fnCond]; safe
      | [_] => simp only [fnCond]; safe
      | _ :: _ :: _ :: _ => simp only [fnCond]; safe
    | lit v => cases v <;> (simp only [fnCond]; safe)
    | path p => simp only [fnCond]; safe
    | call f as => simp only [fnCond]; safe
    | unk => simp only [fnCond]; safe

theorem pathArg_safe (e : Arg → M Val) (a : Arg) (ha : Safe k (e a)) : Safe k (pathArg e a) := by
  unfold pathArg
  safe

theorem first_safe (dev : Dev) (h : Heap) (hh : HasHi.hi k h) (base : Val) (hb : base.hi k) (fs : List Frag) :
    Safe k (liftE (pathFirst ⟨dev, none⟩ h base fs)) :=
  Safe.liftE (fun r hr v hv => by subst hv; exact pathFirst_hi dev hh.1 fs base hb v hr)

theorem getD_null_hi {r : Option Val} (hr : HasHi.hi k r) : Val.hi k (r.getD .null) := by
  cases r with
  | none => trivial
  | some v => exact hr v rfl

theorem fnGet_safe (dev : Dev) (e : Arg → M Val) (root at_ : Val) (hroot : root.hi k) (hat : at_.hi k) (args : List Arg)
    (he : ∀ a ∈ args, Safe k (e a)) : Safe k (fnGet ⟨dev, none⟩ e root at_ args) := by
  match args with
  | [] => simp only [fnGet]; safe
  | [a] =>
    simp only [fnGet]
    apply Safe.bind (pathArg_safe e a (he a (by simp)))
    intro p _
    apply Safe.bind Safe.getHeap
    intro h hh
    apply Safe.bind (first_safe dev h hh _ (by split <;> assumption) _)
    intro r hr
    exact Safe.pure (getD_null_hi hr)
  | [a, d] =>
    simp only [fnGet]
    apply Safe.bind (pathArg_safe e a (he a (by simp)))
    intro p _
    apply Safe.bind (he d (by simp))
    intro data hdata
    apply Safe.bind Safe.getHeap
    intro h hh
    apply Safe.bind (first_safe dev h hh _ hdata _)
    intro r hr
    exact Safe.pure (getD_null_hi hr)
  | _ :: _ :: _ :: _ => simp only [fnGet]; safe

theorem getall_tail (dev : Dev) (h : Heap) (hh : HasHi.hi k h) (base : Val) (hb : base.hi k) (fs : List Frag) :
    Safe k (liftE (pathGet ⟨dev, none⟩ h base fs) >>= fun r => alloc (.arr r) >>= fun c => pure (Val.aref c)) := by
  apply Safe.bind (Safe.liftE (fun r hr => pathGet_hi dev hh.1 fs base hb r hr))
  intro r hr
  apply Safe.bind (Safe.alloc (show Cell.hi k (Cell.arr r) from hr))
  intro c hc
  exact Safe.pure (show Val.hi k (Val.aref c) from hc)

theorem fnGetall_safe (dev : Dev) (e : Arg → M Val) (root at_ : Val) (hroot : root.hi k) (hat : at_.hi k) (args : List Arg)
    (he : ∀ a ∈ args, Safe k (e a)) : Safe k (fnGetall ⟨dev, none⟩ e root at_ args) := by
  match args with
  | [] => simp only [fnGetall]; safe
  | [a] =>
    simp only [fnGetall]
    apply Safe.bind (pathArg_safe e a (he a (by simp)))
    intro p _
    apply Safe.bind Safe.getHeap
    intro h hh
    exact getall_tail dev h hh _ (by split <;> assumption) _
  | [a, d] =>
    simp only [fnGetall]
    apply Safe.bind (pathArg_safe e a (he a (by simp)))
    intro p _
    apply Safe.bind (he d (by simp))
    intro data hdata
    apply Safe.bind Safe.getHeap
    intro h hh
    exact getall_tail dev h hh _ hdata _
  | _ :: _ :: _ :: _ => simp only [fnGetall]; safe

theorem setAt_safe (value : Option Val) (hval : ∀ v, value = some v → v.hi k) (p : Path) (root at_ : Val)
    (hroot : root.hi k) (hat : at_.hi k) : Safe k (setAt value p root at_) := by
  unfold setAt
  split
  · exact Safe.stop _
  · exact pathSet_safe value hval _ _ (by split <;> assumption)

theorem fnSet_safe (e : Arg → M Val) (root at_ : Val) (hroot : root.hi k) (hat : at_.hi k) (args : List Arg)
    (he : ∀ a ∈ args, Safe k (e a)) : Safe k (fnSet e root at_ args) := by
  match args with
  | [] => simp only [fnSet]; safe
  | [_] => simp only [fnSet]; safe
  | [a, b] =>
    simp only [fnSet]
    apply Safe.bind (pathArg_safe e a (he a (by simp)))
    intro p _
    apply Safe.bind (he b (by simp))
    intro v hv
    apply Safe.bind (setAt_safe (some v) (fun w hw => by simp at hw; subst hw; exact hv) p root at_ hroot hat)
    intro _ _
    exact Safe.pure hat
  | _ :: _ :: _ :: _ => simp only [fnSet]; safe

theorem fnDel_safe (root at_ : Val) (hroot : root.hi k) (hat : at_.hi k) (args : List Arg) : Safe k (fnDel root at_ args) := by
  match args with
  | [] => simp only [fnDel]; safe
  | [a] =>
    simp only [fnDel]
    cases a with
    | path p =>
      simp only
      apply Safe.bind (setAt_safe none (fun w hw => by simp at hw) p root at_ hroot hat)
      intro _ _
      exact Safe.pure hat
    | lit v => exact Safe.stop _
    | raw v es => exact Safe.stop _
    | call f as => exact Safe.stop _
    | unk => exact Safe.stop _
  | _ :: _ :: _ => simp only [fnDel]; safe

theorem eachLoop_safe (ev : Arg → Val → M Val) (fn : Arg) (key : Bytes) (a : Nat) (ha : k ≤ a)
    (hfn : ∀ at_, at_.hi k → Safe k (ev fn at_)) :
    ∀ (n i : Nat) (acc : List Val), (∀ v ∈ acc, v.hi k) → Safe k (eachLoop ev fn key a n i acc)
  | 0, i, acc, hacc => by
    simp only [eachLoop]
    exact Safe.pure (fun v hv => hacc v (by simpa using hv))
  | n + 1, i, acc, hacc => by
    simp only [eachLoop]
    apply Safe.bind Safe.getHeap
    intro h hh
    have hsrc : Val.hi k ((h.arrAt a).getD i .null) := getD_hi (arrAt_hi hh.1 ha) _
    apply Safe.bind (Safe.alloc (show Cell.hi k (Cell.map [(b!"src", (h.arrAt a).getD i .null)]) from by
      intro kv hkv; simp at hkv; subst hkv; exact hsrc))
    intro m hm
    apply Safe.bind (hfn (.mref m) hm)
    intro _ _
    apply Safe.bind Safe.getHeap
    intro h2 hh2
    apply eachLoop_safe ev fn key a ha hfn n (i + 1)
    intro v hv
    rcases List.mem_cons.mp hv with h1 | h1
    · subst h1
      cases hg : kvGet key (h2.mapAt m) with
      | none => trivial
      | some w => exact mapAt_hi hh2.1 hm _ (kvGet_mem hg)
    · exact hacc v h1

theorem fnEach_safe (ev : Arg → Val → M Val) (at_ : Val) (hat : at_.hi k) (args : List Arg)
    (he : ∀ a ∈ args, ∀ at', at'.hi k → Safe k (ev a at')) : Safe k (fnEach ev at_ args) := by
  have tail : ∀ (fn : Arg) (key : Bytes) (a : Nat), k ≤ a → fn ∈ args →
      Safe k (getHeap >>= fun h => eachLoop ev fn key a (h.arrAt a).length 0 [] >>= fun rs =>
        alloc (.arr rs) >>= fun c => pure (Val.aref c)) := by
    intro fn key a ha hmem
    apply Safe.bind Safe.getHeap
    intro h _
    apply Safe.bind (eachLoop_safe ev fn key a ha (he fn hmem) _ _ _ (by simp))
    intro rs hrs
    apply Safe.bind (Safe.alloc (show Cell.hi k (Cell.arr rs) from hrs))
    intro c hc
    exact Safe.pure (show Val.hi k (Val.aref c) from hc)
  match args, he, tail with
  | [], _, _ => simp only [fnEach]; safe
  | [_], _, _ => simp only [fnEach]; safe
  | [a0, fn], he, tail =>
    simp only [fnEach]
    apply Safe.bind (he a0 (by simp) at_ hat)
    intro v hv
    cases v <;> try exact Safe.stop _
    rename_i a
    cases fn <;> try exact Safe.stop _
    rename_i f fargs
    simp only [bind_assoc, pure_bind]
    exact tail (.call f fargs) b!"asm" a hv (by simp)
  | [a0, fn, kk], he, tail =>
    simp only [fnEach]
    apply Safe.bind (he a0 (by simp) at_ hat)
    intro v hv
    cases v <;> try exact Safe.stop _
    rename_i a
    cases fn <;> try exact Safe.stop _
    rename_i f fargs
    simp only
    apply Safe.bind
    · apply Safe.bind (he kk (by simp) at_ hat)
      intro kv _
      cases kv <;> first | exact Safe.stop _ | exact Safe.pure trivial
    · intro key _
      exact tail (.call f fargs) key a hv (by simp)
  | _ :: _ :: _ :: _ :: _, _, _ => simp only [fnEach]; safe

theorem joinLoop_safe (e : Arg → M Val) :
    ∀ (args : List Arg) (first : Bool) (acc : Bytes), (∀ a ∈ args, Safe k (e a)) → Safe k (joinLoop e args first acc)
  | [], _, _, _ => by simp only [joinLoop]; safe
  | a :: r, first, acc, he => by
    have h1 := he a (List.mem_cons_self ..)
    have ih := fun f' acc' => joinLoop_safe e r f' acc' (mem_tail he)
    simp only [joinLoop]
    safe
    all_goals exact ih _ _

theorem fnPathOf_safe (isAt : Bool) (e : Arg → M Val) (args : List Arg) (he : ∀ a ∈ args, Safe k (e a)) :
    Safe k (fnPathOf isAt e args) := by
  have hj := joinLoop_safe e args true [] he
  simp only [fnPathOf]
  safe

theorem fnAsm_safe (ev : Arg → Val → M Val) :
    ∀ (args : List Arg) (at_ : Val), at_.hi k → (∀ a ∈ args, ∀ at', at'.hi k → Safe k (ev a at')) → Safe k (fnAsm ev args at_)
  | [], at_, hat, _ => by simp only [fnAsm]; exact Safe.pure hat
  | a :: r, at_, hat, he => by
    simp only [fnAsm]
    apply Safe.bind (he a (List.mem_cons_self ..) at_ hat)
    intro v hv
    exact fnAsm_safe ev r v hv (mem_tail he)

theorem fnQuote_evalLit_safe (dev : Dev) (hd : dev.litAlias = false) (args : List Arg) :
    Safe k (fnQuote args >>= fun v => evalLit dev v) := by
  constructor
  intro h hh hk
  simp only [bind_apply]
  cases args with
  | nil => simpa [fnQuote] using (evalLit_safe dev hd .null).run h hh hk
  | cons a r =>
    cases a with
    | lit v => simpa [fnQuote] using (evalLit_safe dev hd v).run h hh hk
    | raw v es => simpa [fnQuote] using (evalLit_safe dev hd v).run h hh hk
    | path p => simp [fnQuote]; exact hh
    | call f as => simp [fnQuote]; exact hh
    | unk => simp [fnQuote]; exact hh

theorem fnList_safe (e : Arg → M Val) (args : List Arg) (he : ∀ a ∈ args, Safe k (e a)) : Safe k (fnList e args) := by
  unfold fnList
  apply Safe.bind (mapM'_safe_vals e args he)
  intro vs hvs
  apply Safe.bind (Safe.alloc (show Cell.hi k (Cell.arr vs) from hvs))
  intro c hc
  exact Safe.pure (show Val.hi k (Val.aref c) from hc)

theorem fnNth_safe (e : Arg → M Val) (args : List Arg) (he : ∀ a ∈ args, Safe k (e a)) : Safe k (fnNth e args) := by
  match args with
  | [] => simp only [fnNth]; safe
  | [a] => simp only [fnNth]; safe
  | [a, b] =>
    simp only [fnNth]
    apply Safe.bind (he a (by simp))
    intro v hv
    cases v <;> try exact Safe.stop _
    rename_i c
    simp only
    apply Safe.bind (he b (by simp))
    intro iv _
    cases asInt iv with
    | none => exact Safe.stop _
    | some i =>
      simp only
      apply Safe.bind Safe.getHeap
      intro h hh
      cases normIdx i (h.arrAt c).length with
      | none => exact Safe.pure trivial
      | some j => exact Safe.pure (getD_hi (arrAt_hi hh.1 hv) j)
  | _ :: _ :: _ :: _ => simp only [fnNth]; safe

theorem fnSize_safe (e : Arg → M Val) (args : List Arg) (he : ∀ a ∈ args, Safe k (e a)) : Safe k (fnSize e args) := by
  match args with
  | [] => simp only [fnSize]; safe
  | [a] =>
    have h1 := he a (by simp)
    simp only [fnSize]
    safe
  | _ :: _ :: _ => simp only [fnSize]; safe

theorem fnPred_safe (p : Val → Bool) (e : Arg → M Val) (args : List Arg) (he : ∀ a ∈ args, Safe k (e a)) :
    Safe k (fnPred p e args) := by
  match args with
  | [] => simp only [fnPred]; safe
  | [a] =>
    have h1 := he a (by simp)
    simp only [fnPred]
    safe
  | _ :: _ :: _ => simp only [fnPred]; safe


/-! ### text, conversion and list functions -/

theorem wantLoop_safe (e : Arg → M Val) :
    ∀ (args : List Arg) (ws : List Want) (acc : List Tree), (∀ a ∈ args, Safe k (e a)) → Safe k (wantLoop e args ws acc)
  | [], _, _, _ => by simp only [wantLoop]; safe
  | _ :: _, [], _, _ => by simp only [wantLoop]; safe
  | a :: r, w :: ws, acc, he => by
    have h1 := he a (List.mem_cons_self ..)
    have ih := fun acc' => wantLoop_safe e r ws acc' (mem_tail he)
    simp only [wantLoop]
    safe
    all_goals exact ih _

theorem toVal_hi (t : Tree) : (Tree.toVal t).hi k := by cases t <;> simp [Tree.toVal, Val.hi]

theorem retTree_safe (t : Tree) : Safe k (retTree t) := by
  cases t with
  | arr xs =>
    simp only [retTree]
    apply Safe.bind (Safe.alloc (show Cell.hi k (Cell.arr (xs.map Tree.toVal)) from by
      intro v hv
      obtain ⟨t, _, rfl⟩ := List.mem_map.mp hv
      exact toVal_hi t))
    intro c hc
    exact Safe.pure (show Val.hi k (Val.aref c) from hc)
  | null => exact Safe.pure (toVal_hi _)
  | bool b => exact Safe.pure (toVal_hi _)
  | int i => exact Safe.pure (toVal_hi _)
  | flt f => exact Safe.pure (toVal_hi _)
  | str x => exact Safe.pure (toVal_hi _)
  | obj kvs => exact Safe.pure (toVal_hi _)

theorem fnScalar_safe (g : ScalarFn) (e : Arg → M Val) (args : List Arg) (he : ∀ a ∈ args, Safe k (e a)) :
    Safe k (fnScalar g e args) := by
  have hw := wantLoop_safe e _ (g.wants args.length) [] (swapArgs_mem (b := g.swap) he)
  unfold fnScalar
  split
  · exact Safe.stop _
  · apply Safe.bind hw
    intro acc _
    apply Safe.bind (Safe.liftE (fun _ _ => trivial))
    intro t _
    exact retTree_safe t

theorem fnReverse_safe (e : Arg → M Val) (args : List Arg) (he : ∀ a ∈ args, Safe k (e a)) : Safe k (fnReverse e args) := by
  match args with
  | [] => simp only [fnReverse]; safe
  | [a] =>
    simp only [fnReverse]
    apply Safe.bind (he a (by simp))
    intro v hv
    cases v <;> try exact Safe.stop _
    rename_i c
    simp only
    apply Safe.bind Safe.getHeap
    intro h hh
    apply Safe.bind (Safe.alloc (show Cell.hi k (Cell.arr (h.arrAt c).reverse) from by
      intro v hv'
      exact arrAt_hi hh.1 hv v (by simpa using hv')))
    intro c' hc'
    exact Safe.pure (show Val.hi k (Val.aref c') from hc')
  | _ :: _ :: _ => simp only [fnReverse]; safe

theorem fnAppend_safe (e : Arg → M Val) (args : List Arg) (he : ∀ a ∈ args, Safe k (e a)) : Safe k (fnAppend e args) := by
  match args with
  | [] => simp only [fnAppend]; safe
  | [_] => simp only [fnAppend]; safe
  | [a, b] =>
    simp only [fnAppend]
    apply Safe.bind (he a (by simp))
    intro v hv
    cases v <;> try exact Safe.stop _
    rename_i c
    simp only
    apply Safe.bind (he b (by simp))
    intro w hw
    apply Safe.bind Safe.getHeap
    intro h hh
    apply Safe.bind (Safe.alloc (show Cell.hi k (Cell.arr (h.arrAt c ++ [w])) from by
      intro x hx
      rcases List.mem_append.mp hx with h1 | h1
      · exact arrAt_hi hh.1 hv x h1
      · simp at h1; subst h1; exact hw))
    intro c' hc'
    exact Safe.pure (show Val.hi k (Val.aref c') from hc')
  | _ :: _ :: _ :: _ => simp only [fnAppend]; safe

theorem includeLoop_hi (v1 : Val) : ∀ (xs : List Val) (r : Val), includeLoop v1 xs = .ok r → r.hi k
  | [], r, h => by simp [includeLoop] at h; subst h; trivial
  | m :: rest, r, h => by
    simp only [includeLoop] at h
    split at h
    · cases h
    · simp at h; subst h; trivial
    · exact includeLoop_hi v1 rest r h

theorem fnInclude_safe (e : Arg → M Val) (args : List Arg) (he : ∀ a ∈ args, Safe k (e a)) : Safe k (fnInclude e args) := by
  match args with
  | [] => simp only [fnInclude]; safe
  | [_] => simp only [fnInclude]; safe
  | [a, b] =>
    simp only [fnInclude]
    apply Safe.bind (he b (by simp))
    intro v1 _
    apply Safe.bind (he a (by simp))
    intro v _
    cases v <;> try exact Safe.stop _
    · cases v1 <;> first | exact Safe.stop _ | exact Safe.pure trivial
    · rename_i c
      simp only
      apply Safe.bind Safe.getHeap
      intro h _
      exact Safe.liftE (fun r hr => includeLoop_hi v1 _ r hr)
  | _ :: _ :: _ :: _ => simp only [fnInclude]; safe

theorem sortInsert_mem (x : Option Val × Val) : ∀ (pre l : List (Option Val × Val)), sortInsert x pre = .ok l →
    ∀ y ∈ l, y = x ∨ y ∈ pre
  | [], l, h, y, hy => by simp [sortInsert] at h; subst h; simp at hy; exact Or.inl hy
  | p :: r, l, h, y, hy => by
    simp only [sortInsert] at h
    split at h
    · cases h
    · cases hr : sortInsert x r with
      | error e => simp [hr] at h
      | ok l' =>
        simp [hr] at h
        subst h
        rcases List.mem_cons.mp hy with h1 | h1
        · exact Or.inr (by simp [h1])
        · rcases sortInsert_mem x r l' hr y h1 with h2 | h2
          · exact Or.inl h2
          · exact Or.inr (List.mem_cons_of_mem _ h2)
    · simp at h; subst h
      rcases List.mem_cons.mp hy with h1 | h1
      · exact Or.inl h1
      · exact Or.inr h1

theorem sortRun_mem : ∀ (xs pre l : List (Option Val × Val)), sortRun xs pre = .ok l → ∀ y ∈ l, y ∈ xs ∨ y ∈ pre
  | [], pre, l, h, y, hy => by simp [sortRun] at h; subst h; exact Or.inr hy
  | x :: r, pre, l, h, y, hy => by
    simp only [sortRun] at h
    cases hi : sortInsert x pre with
    | error e => simp [hi] at h
    | ok pre' =>
      simp only [hi] at h
      rcases sortRun_mem r pre' l h y hy with h1 | h1
      · exact Or.inl (List.mem_cons_of_mem _ h1)
      · rcases sortInsert_mem x pre pre' hi y h1 with h2 | h2
        · exact Or.inl (by simp [h2])
        · exact Or.inr h2

theorem sortKeys_mem (env : Env) (h : Heap) (fs : List Frag) : ∀ (xs : List Val) (ks : List (Option Val × Val)),
    sortKeys env h fs xs = .ok ks → ∀ p ∈ ks, p.2 ∈ xs
  | [], ks, hk, p, hp => by simp [sortKeys] at hk; subst hk; simp at hp
  | x :: r, ks, hk, p, hp => by
    simp only [sortKeys] at hk
    cases hf : pathFirst env h x fs with
    | error e => simp [hf] at hk
    | ok kx =>
      simp only [hf] at hk
      cases hr : sortKeys env h fs r with
      | error e => simp [hr] at hk
      | ok l =>
        simp [hr] at hk
        subst hk
        rcases List.mem_cons.mp hp with h1 | h1
        · subst h1; simp
        · exact List.mem_cons_of_mem _ (sortKeys_mem env h fs r l hr p h1)

/-- what `sort` returns are the elements it was given -/
theorem sortList_mem (env : Env) (h : Heap) (fs : List Frag) (xs r : List Val) (hs : sortList env h fs xs = .ok r) :
    ∀ v ∈ r, v ∈ xs := by
  unfold sortList at hs
  split at hs
  · cases hs
  · cases hk : sortKeys env h fs xs with
    | error e => simp [hk] at hs
    | ok ks =>
      simp only [hk] at hs
      cases hr : sortRun ks [] with
      | error e => simp [hr] at hs
      | ok l =>
        simp [hr] at hs
        subst hs
        intro v hv
        simp only [List.mem_reverse, List.mem_map] at hv
        obtain ⟨p, hp, rfl⟩ := hv
        rcases sortRun_mem ks [] l hr p hp with h1 | h1
        · exact sortKeys_mem env h fs xs ks hk p h1
        · simp at h1

theorem fnSort_safe (env : Env) (e : Arg → M Val) (args : List Arg) (he : ∀ a ∈ args, Safe k (e a)) : Safe k (fnSort env e args) := by
  match args with
  | [] => simp only [fnSort]; safe
  | [_] => simp only [fnSort]; safe
  | [a, b] =>
    simp only [fnSort]
    apply Safe.bind (he a (by simp))
    intro v hv
    cases v <;> try exact Safe.stop _
    rename_i c
    cases b <;> try exact Safe.stop _
    rename_i p
    simp only
    apply Safe.bind Safe.getHeap
    intro h hh
    apply Safe.bind (Safe.liftE (α := List Val) (fun r hr v hv' => arrAt_hi hh.1 hv v (sortList_mem env h p.frags _ r hr v hv')))
    intro r hr
    apply Safe.bind (Safe.alloc (show Cell.hi k (Cell.arr r) from hr))
    intro c' hc'
    exact Safe.pure (show Val.hi k (Val.aref c') from hc')
  | _ :: _ :: _ :: _ => simp only [fnSort]; safe

/-- the deviations under which a plan's literals are never handed out by reference: the code since
312106f (first argument of a comparison evaluated), 52cf3c4 (literals copied) and 9281d31 (list value
of `cond` copied) -/
def Dev.copies (dev : Dev) : Prop := dev.cmpUneval = false ∧ dev.litAlias = false ∧ dev.condListAlias = false

theorem evalFn_safe (dev : Dev) (hd : dev.copies) (ev : Arg → Val → M Val) (root at_ : Val) (hroot : root.hi k)
    (hat : at_.hi k) (f : Bytes) (args : List Arg)
    (hev : ∀ a at', at'.hi k → Safe k (ev a at')) :
    Safe k (evalFn ⟨dev, none⟩ ev root at_ f args) := by
  have he : ∀ a ∈ args, Safe k (ev a at_) := fun a _ => hev a at_ hat
  have he' : ∀ a ∈ args, ∀ at', at'.hi k → Safe k (ev a at') := fun a _ => hev a
  have hk : ∀ a ∈ args, ∀ c ∈ condKids a, Safe k (ev c at_) := fun _ _ c _ => hev c at_ hat
  unfold evalFn
  cases hkf : fnKind f with
  | none => exact Safe.stop _
  | some kd =>
    simp only []
    cases kd <;> simp only [evalKind]
    case sum => exact fnSum_safe _ _ he
    case arith op => exact fnArith_safe _ _ _ _ he
    case mod => exact fnMod_safe _ _ he
    case cmp op => exact fnCmp_safe _ hd.1 _ _ _ he
    case equal => exact Safe.bind (fnEqual_safe _ _ _ he) (fun _ _ => Safe.pure trivial)
    case neq => exact Safe.bind (fnEqual_safe _ _ _ he) (fun _ _ => Safe.pure trivial)
    case and => exact fnAnd_safe _ _ he
    case or => exact fnOr_safe _ _ he
    case not => exact fnNot_safe _ _ he
    case cond => exact fnCond_safe _ hd.2.2 _ _ hk
    case get => exact fnGet_safe _ _ _ _ hroot hat _ he
    case getall => exact fnGetall_safe _ _ _ _ hroot hat _ he
    case set => exact fnSet_safe _ _ _ hroot hat _ he
    case del => exact fnDel_safe _ _ hroot hat _
    case each => exact fnEach_safe _ _ hat _ he'
    case pathOf isAt => exact fnPathOf_safe _ _ _ he
    case asm => exact fnAsm_safe _ _ _ hat he'
    case quote => exact fnQuote_evalLit_safe _ hd.2.1 _
    case list => exact fnList_safe _ _ he
    case nth => exact fnNth_safe _ _ he
    case size => exact fnSize_safe _ _ he
    case pred p => exact fnPred_safe _ _ _ he
    case scalar g => exact fnScalar_safe _ _ _ he
    case reverse => exact fnReverse_safe _ _ he
    case append => exact fnAppend_safe _ _ he
    case incl => exact fnInclude_safe _ _ he
    case sort => exact fnSort_safe _ _ _ he

theorem eval_safe (dev : Dev) (hd : dev.copies) (root : Val) (hroot : root.hi k) :
    ∀ (n : Nat) (a : Arg) (at_ : Val), at_.hi k → Safe k (eval ⟨dev, none⟩ root n a at_)
  | n, .lit v, at_, _ => by simp only [eval]; exact evalLit_safe dev hd.2.1 v
  | n, .raw v es, at_, _ => by simp only [eval]; exact evalLit_safe dev hd.2.1 v
  | n, .path p, at_, hat => by
    simp only [eval]
    apply Safe.bind Safe.getHeap
    intro h hh
    apply Safe.bind (first_safe dev h hh _ (by split <;> assumption) _)
    intro r hr
    exact Safe.pure (getD_null_hi hr)
  | n, .unk, at_, _ => by simp only [eval]; exact Safe.stop _
  | 0, .call f args, at_, _ => by simp only [eval]; exact Safe.stop _
  | n + 1, .call f args, at_, hat => by
    simp only [eval]
    exact evalFn_safe dev hd _ root at_ hroot hat f args (fun a at' hat' => eval_safe dev hd root hroot n a at' hat')

end OjgVerif.Asm
