import OjgVerif.Asm.Num
/-! # Data of `asm` plans shared by the specification and the model (repo-independent)

Go data is a graph: maps and slices are references, `set` stores the reference it is given, and the
literals of a plan are handed out by reference too. Values therefore point into a HEAP of cells
(`Cell.arr`, `Cell.map`, addressed by `Val.aref`, `Val.mref`); aliasing, cyclic data and the mutation
of plan literals are all expressible.

JSONPath: ONLY `$`/`@` followed by member names (`.name`), indexes (`[n]`) and a final wildcard (`.*`,
for reading only) are described here (`pathFirst`, `pathGet`, `pathSet` = jp.First/Get/SetOne…DelOne on
such paths over `map[string]any`/`[]any` data). The general JSONPath engine is outside this family. -/
namespace OjgVerif.Asm
open OjgVerif

open Lean in
/-- `b!"sum"` is the byte list of the text (names and keys are byte strings throughout, so that
kernel evaluation never has to convert a `String`) -/
macro:max "b!" s:str : term => do
  let bytes := s.getString.toUTF8.toList
  let elems ← bytes.mapM (fun b => pure (Syntax.mkNumLit (toString b.toNat)))
  `(([$(elems.toArray),*] : List UInt8))

/-! ## data -/

inductive Frag where
  | child (k : Bytes)
  | nth (i : Int)
  | wild
  deriving DecidableEq, Inhabited

/-- a simple path: `@` (`isAt`) or `$`, then fragments -/
structure Path where
  isAt : Bool
  frags : List Frag
  deriving DecidableEq, Inhabited

/-- plain trees: the plan source and root documents as the harness sends them -/
inductive Tree where
  | null
  | bool (b : Bool)
  | int (i : Int)
  | flt (f : Flt)
  | str (s : Bytes)
  | arr (xs : List Tree)
  | obj (kvs : List (Bytes × Tree))
  deriving Inhabited

/-- run-time values: scalars, references to heap cells, and `jp.Expr` values (made by `at`/`root`) -/
inductive Val where
  | null
  | bool (b : Bool)
  | int (i : Int)
  | flt (f : Flt)
  | str (s : Bytes)
  | aref (a : Nat)
  | mref (a : Nat)
  | path (p : Path)
  deriving DecidableEq, Inhabited

inductive Cell where
  | arr (xs : List Val)
  | map (kvs : List (Bytes × Val))
  deriving DecidableEq, Inhabited

abbrev Heap := List Cell

def Heap.arrAt (h : Heap) (a : Nat) : List Val :=
  match h[a]? with
  | some (.arr xs) => xs
  | _ => []

def Heap.mapAt (h : Heap) (a : Nat) : List (Bytes × Val) :=
  match h[a]? with
  | some (.map kvs) => kvs
  | _ => []

/-- why a run stops early. `panic`: a Go panic (caught by `Execute`'s recover); `diverge`: unbounded Go
recursion over cyclic data (a fatal stack overflow that recover cannot catch); `unmodelled`: outside
the modelled subset; `enum`: the result depends on the iteration order of a Go map and no order was
supplied; `fuel`: the evaluator's fuel (nesting depth of the plan) was too small -/
inductive Stop where
  | panic | diverge | unmodelled | enum | fuel
  deriving DecidableEq, Inhabited, Repr

deriving instance DecidableEq for Except

/-- heap-state computations; the heap survives a `Stop` (what was written before a panic stays) -/
abbrev M (α : Type) := Heap → Except Stop α × Heap

@[inline] def M.pure (a : α) : M α := fun h => (.ok a, h)
@[inline] def M.bind (m : M α) (f : α → M β) : M β := fun h =>
  match m h with
  | (.ok a, h') => f a h'
  | (.error e, h') => (.error e, h')

instance : Monad M where
  pure := M.pure
  bind := M.bind

def stop (s : Stop) : M α := fun h => (.error s, h)
def getHeap : M Heap := fun h => (.ok h, h)
def alloc (c : Cell) : M Nat := fun h => (.ok h.length, h ++ [c])
def writeCell (a : Nat) (c : Cell) : M Unit := fun h => (.ok (), h.set a c)
def liftE (e : Except Stop α) : M α := fun h => (e, h)

/-- deviations of the code from its documentation (`true` = the code's behaviour) -/
structure Dev where
  /-- `lt lte gt gte` switch on the UNEVALUATED first argument: a path or call there is an error -/
  cmpUneval : Bool
  /-- float division by zero gives ±Inf/NaN and no error -/
  divZeroInf : Bool
  /-- `cond`/`evalValue`: a list value that is not a function call evaluates to nil -/
  condListNil : Bool
  /-- literal maps/arrays of the plan are handed out by reference (a later `set` edits the plan) -/
  litAlias : Bool
  /-- int/float comparisons convert the int to float64 first (rounds above 2^53) -/
  cmpFloat : Bool
  /-- `cond`/`evalValue`: a list value that is not a function call is handed out by reference (the plan's
  own list), also where other literals are copied -/
  condListAlias : Bool
  deriving DecidableEq, Inhabited

/-- the code as it is: 312106f, e5d206a, fb1d065, 52cf3c4, 9281d31 and 54cf01b repaired every deviation: the
code is the documented behaviour (`Dev.current = Dev.none`) -/
def Dev.current : Dev := ⟨false, false, false, false, false, false⟩
/-- the code before those commits -/
def Dev.before : Dev := ⟨true, true, true, true, true, true⟩
/-- the code after the first four and before 9281d31: a list value of `cond` was the plan's own list -/
def Dev.beforeCondCopy : Dev := ⟨false, false, false, false, true, true⟩
/-- the code before 54cf01b (after the other five): numbers were compared through float64 -/
def Dev.beforeCmpExact : Dev := ⟨false, false, false, false, true, false⟩
def Dev.none : Dev := ⟨false, false, false, false, false, false⟩

/-- iteration order of a Go map: how the members are visited -/
abbrev MapOrd := List (Bytes × Val) → List (Bytes × Val)

structure Env where
  dev : Dev
  ord : Option MapOrd


/-! ### path text (the simple subset) -/

def isIdentStart (c : UInt8) : Bool := (65 ≤ c && c ≤ 90) || (97 ≤ c && c ≤ 122) || c = 95
def isIdentChar (c : UInt8) : Bool := isIdentStart c || (48 ≤ c && c ≤ 57)
def isDigit (c : UInt8) : Bool := 48 ≤ c && c ≤ 57

def spanP (p : UInt8 → Bool) : Bytes → Bytes × Bytes
  | [] => ([], [])
  | c :: r => if p c then let q := spanP p r; (c :: q.1, q.2) else ([], c :: r)

def natOfDigits (ds : Bytes) : Nat := ds.foldl (fun n d => n * 10 + (d.toNat - 48)) 0

/-- `[n]` / `[-n]` index body up to `]`; at most 9 digits, no leading zeros -/
def parseIndex (bs : Bytes) : Option (Int × Bytes) :=
  let negp := match bs with | 45 :: _ => true | _ => false
  let r0 := if negp then bs.drop 1 else bs
  let q := spanP isDigit r0
  if q.1.isEmpty || q.1.length > 9 || (q.1.length > 1 && q.1.head? = some 48) then none
  else if negp && q.1 = [48] then none
  else match q.2 with
    | 93 :: r => some (if negp then -(natOfDigits q.1 : Int) else (natOfDigits q.1 : Int), r)
    | _ => none

/-- fragments `.name`, `[n]`, `.*`; `first` = a leading name may come without the dot (at/root) -/
def parseFrags : Nat → Bool → Bytes → Option (List Frag)
  | 0, _, _ => none
  | _ + 1, _, [] => some []
  | n + 1, first, c :: r =>
    if c = 46 then  -- '.'
      match r with
      | 42 :: r2 => (parseFrags n false r2).map (fun fs => Frag.wild :: fs)
      | d :: _ =>
        if isIdentStart d then
          let q := spanP isIdentChar r
          (parseFrags n false q.2).map (fun fs => Frag.child q.1 :: fs)
        else none
      | [] => none
    else if c = 91 then  -- '['
      match parseIndex r with
      | some (i, r2) => (parseFrags n false r2).map (fun fs => Frag.nth i :: fs)
      | none => none
    else if first && c = 42 then (parseFrags n false r).map (fun fs => Frag.wild :: fs)
    else if first && isIdentStart c then
      let q := spanP isIdentChar (c :: r)
      (parseFrags n false q.2).map (fun fs => Frag.child q.1 :: fs)
    else none

/-- a wildcard is modelled only as the last fragment -/
def wildOK : List Frag → Bool
  | [] => true
  | [_] => true
  | f :: r => f != Frag.wild && wildOK r

/-- a plan string `$…`/`@…` as a simple path -/
def parsePath (s : Bytes) : Option Path :=
  match s with
  | 36 :: r => (parseFrags (r.length + 1) false r).bind (fun fs => if wildOK fs then some ⟨false, fs⟩ else none)
  | 64 :: r => (parseFrags (r.length + 1) false r).bind (fun fs => if wildOK fs then some ⟨true, fs⟩ else none)
  | _ => none

/-- the text `at`/`root` parse (no leading `$`/`@`) -/
def parseRel (s : Bytes) : Option (List Frag) :=
  (parseFrags (s.length + 1) true s).bind (fun fs => if wildOK fs then some fs else none)

def fragText : Frag → Bytes
  | .child k => 46 :: k
  | .nth i => 91 :: (fmtD i ++ [93])
  | .wild => [46, 42]

/-- `jp.Expr.String()` of a simple path -/
def pathText (p : Path) : Bytes :=
  (if p.isAt then 64 else 36) :: (p.frags.map fragText).flatten


/-! ## association lists, heap helpers -/


def kvGet (k : Bytes) : List (Bytes × α) → Option α
  | [] => none
  | (k', v) :: r => if k' = k then some v else kvGet k r

def kvSet (k : Bytes) (v : α) : List (Bytes × α) → List (Bytes × α)
  | [] => [(k, v)]
  | (k', v') :: r => if k' = k then (k, v) :: r else (k', v') :: kvSet k v r

def kvDel (k : Bytes) : List (Bytes × α) → List (Bytes × α)
  | [] => []
  | (k', v') :: r => if k' = k then r else (k', v') :: kvDel k r

def mapM' (f : α → M β) : List α → M (List β)
  | [] => pure []
  | a :: r => do
    let b ← f a
    let bs ← mapM' f r
    pure (b :: bs)


/-! ## JSONPath over the heap (simple paths) -/

/-- `i`, or `len + i` when negative, if inside the array -/
def normIdx (i : Int) (len : Nat) : Option Nat :=
  let j := if i < 0 then (len : Int) + i else i
  if 0 ≤ j ∧ j < (len : Int) then some j.toNat else none

/-- jp.Expr.First from `v`: `none` = nothing found -/
def pathFirst (env : Env) (h : Heap) : Val → List Frag → Except Stop (Option Val)
  | v, [] => .ok (some v)
  | .path _, _ :: _ => .error .unmodelled      -- reflection into a jp.Expr value
  | v, .child k :: rest =>
    match v with
    | .mref a =>
      match kvGet k (h.mapAt a) with
      | some c => pathFirst env h c rest
      | none => .ok none
    | _ => .ok none
  | v, .nth i :: rest =>
    match v with
    | .aref a =>
      match normIdx i (h.arrAt a).length with
      | some j => pathFirst env h ((h.arrAt a).getD j .null) rest
      | none => .ok none
    | _ => .ok none
  | v, .wild :: rest =>
    if !rest.isEmpty then .error .unmodelled
    else match v with
      | .aref a => .ok (h.arrAt a).head?
      | .mref a =>
        match h.mapAt a with
        | [] => .ok none
        | [kv] => .ok (some kv.2)
        | kvs =>
          match env.ord with
          | none => .error .enum
          | some o => .ok ((o kvs).head?.map (·.2))
      | _ => .ok none

/-- jp.Expr.Get from `v` -/
def pathGet (env : Env) (h : Heap) : Val → List Frag → Except Stop (List Val)
  | v, [] => .ok [v]
  | .path _, _ :: _ => .error .unmodelled
  | v, .child k :: rest =>
    match v with
    | .mref a =>
      match kvGet k (h.mapAt a) with
      | some c => pathGet env h c rest
      | none => .ok []
    | _ => .ok []
  | v, .nth i :: rest =>
    match v with
    | .aref a =>
      match normIdx i (h.arrAt a).length with
      | some j => pathGet env h ((h.arrAt a).getD j .null) rest
      | none => .ok []
    | _ => .ok []
  | v, .wild :: rest =>
    if !rest.isEmpty then .error .unmodelled
    else match v with
      | .aref a => .ok (h.arrAt a)
      | .mref a =>
        match h.mapAt a with
        | [] => .ok []
        | [kv] => .ok [kv.2]
        | kvs =>
          match env.ord with
          | none => .error .enum
          | some o => .ok ((o kvs).map (·.2))
      | _ => .ok []

def Val.isScalar : Val → Bool
  | .null | .bool _ | .int _ | .flt _ | .str _ => true
  | _ => false

/-- jp.Expr.set (SetOne/Set/DelOne/Del agree on simple paths): `value = none` deletes. A jp error is a
panic of the calling asm function. -/
def pathSet (value : Option Val) : Val → List Frag → M Unit
  | _, [] => pure ()
  | _, .wild :: _ => stop .unmodelled
  | .path _, _ :: _ => stop .unmodelled
  | cur, [.child k] =>
    match cur with
    | .mref a => fun h =>
      match value with
      | some v => (.ok (), h.set a (.map (kvSet k v (h.mapAt a))))
      | none => (.ok (), h.set a (.map (kvDel k (h.mapAt a))))
    | _ => pure ()            -- reflectSetChild on a non-map: nothing happens, no error
  | cur, [.nth i] =>
    match cur with
    | .aref a => fun h =>
      match normIdx i (h.arrAt a).length with
      | some j => (.ok (), h.set a (.arr ((h.arrAt a).set j (value.getD .null))))   -- delete = set to nil
      | none => (.error .panic, h)  -- "can not follow out of bounds array index"
    | _ => pure ()
  | cur, .child k :: next :: rest =>
    match cur with
    | .mref a => fun h =>
      match kvGet k (h.mapAt a) with
      | some c =>
        if c.isScalar then (.error .panic, h)    -- "can not follow a %T"
        else pathSet value c (next :: rest) h
      | none =>
        match value with
        | none => (.ok (), h)                    -- nothing to delete
        | some _ =>
          if h.length ≤ a then (.ok (), h)         -- a dangling reference (never built): nothing to write into
          else match next with
          | .child _ =>
            let b := h.length
            let h1 := h ++ [Cell.map []]
            pathSet value (.mref b) (next :: rest) (h1.set a (.map (kvSet k (.mref b) (h1.mapAt a))))
          | .nth j =>
            if j < 0 then (.error .panic, h)     -- "can not deduce the length of the array"
            else
              let b := h.length
              let h1 := h ++ [Cell.arr (List.replicate (j.toNat + 1) Val.null)]
              pathSet value (.aref b) (next :: rest) (h1.set a (.map (kvSet k (.aref b) (h1.mapAt a))))
          | .wild => (.error .unmodelled, h)
    | _ => pure ()
  | cur, .nth i :: next :: rest =>
    match cur with
    | .aref a => fun h =>
      match normIdx i (h.arrAt a).length with
      | some j =>
        let c := (h.arrAt a).getD j .null
        if c.isScalar then (.error .panic, h)
        else pathSet value c (next :: rest) h
      | none => (.error .panic, h)
    | _ => pure ()


/-! ## numbers and comparison of values -/


def asInt : Val → Option Int
  | .int i => some i
  | _ => none

/-- `asFloat`; with `exact` the integer is not rounded (the documented comparison) -/
def asFloat (exact : Bool) : Val → Option Flt
  | .int i => some (if exact then .fin (decide (i < 0)) i.natAbs 0 else Flt.ofInt i)
  | .flt f => some f
  | _ => none


def Val.isArr : Val → Bool | .aref _ => true | _ => false
def Val.isBool : Val → Bool | .bool _ => true | _ => false
def Val.isMap : Val → Bool | .mref _ => true | _ => false
def Val.isStr : Val → Bool | .str _ => true | _ => false
def Val.isNum : Val → Bool | .int _ | .flt _ => true | _ => false
def Val.isNull : Val → Bool | .null => true | _ => false

/-- Go's `s, _ := v.(string)`: the string, or "" for any other kind -/
def Val.strOrEmpty : Val → Bytes
  | .str s => s
  | _ => []

inductive CmpOp where
  | lt | lte | gt | gte
  deriving DecidableEq

/-- does the chain hold between neighbours `x` `y` (the Go loops test the negation) -/
def CmpOp.fHolds : CmpOp → Flt → Flt → Bool
  | .lt, x, y => !(Flt.le y x)      -- fails when x >= y
  | .lte, x, y => !(Flt.lt y x)     -- fails when x > y
  | .gt, x, y => !(Flt.le x y)      -- fails when x <= y
  | .gte, x, y => !(Flt.lt x y)     -- fails when x < y

def bytesLe (a b : Bytes) : Bool := !(bytesLt b a)

def CmpOp.sHolds : CmpOp → Bytes → Bytes → Bool
  | .lt, x, y => bytesLt x y
  | .lte, x, y => bytesLe x y
  | .gt, x, y => bytesLt y x
  | .gte, x, y => bytesLe y x


inductive EqRes where
  | yes | no | cyc | amb
  deriving DecidableEq

/-- members of a map comparison may be visited in any order; the loop stops at the first `no` -/
def eqCombine (rs : List EqRes) : EqRes :=
  if rs.contains .amb then .amb
  else if rs.contains .no then (if rs.contains .cyc then .amb else .no)
  else if rs.contains .cyc then .cyc
  else .yes

/-- elements of an array comparison are visited in order -/
def eqSeq : List EqRes → EqRes
  | [] => .yes
  | .yes :: r => eqSeq r
  | x :: _ => x

/-- `equalVals` over the heap. `seen` = the container pairs being compared on the current path. -/
def eqVals (dev : Dev) (h : Heap) : Nat → List (Nat × Nat) → Val → Val → EqRes
  | 0, _, _, _ => .cyc
  | n + 1, seen, v0, v1 =>
    let ofB (b : Bool) : EqRes := if b then .yes else .no
    match v0, v1 with
    | .null, v1 => ofB (v1 = .null)
    | .bool a, .bool b => ofB (a = b)
    | .int x, .int y => ofB (x = y)
    | .int x, .flt f => ofB (Flt.eq (if dev.cmpFloat then Flt.ofInt x else .fin (decide (x < 0)) x.natAbs 0) f)
    | .flt f, .int x => ofB (Flt.eq f (if dev.cmpFloat then Flt.ofInt x else .fin (decide (x < 0)) x.natAbs 0))
    | .flt f, .flt g => ofB (Flt.eq f g)
    | .str a, .str b => ofB (a = b)
    | .aref a, .aref b =>
      let xs := h.arrAt a
      let ys := h.arrAt b
      if xs.length ≠ ys.length then .no
      else if seen.contains (a, b) then .cyc
      else eqSeq ((xs.zip ys).map (fun p => eqVals dev h n ((a, b) :: seen) p.1 p.2))
    | .mref a, .mref b =>
      let xs := h.mapAt a
      let ys := h.mapAt b
      if xs.length ≠ ys.length then .no
      else if seen.contains (a, b) then .cyc
      else eqCombine (xs.map (fun kv =>
        match kvGet kv.1 ys with
        | some w => eqVals dev h n ((a, b) :: seen) kv.2 w
        | none => .no))
    | _, _ => .no

def eqFuel (h : Heap) : Nat := h.length * h.length + 2

/-- a fresh deep copy (the documented behaviour of evaluating a literal: the plan is not shared) -/
def copyVal : Nat → Val → M Val
  | 0, _ => stop .diverge
  | n + 1, .aref a => do
    let h ← getHeap
    let vs ← mapM' (copyVal n) (h.arrAt a)
    let c ← alloc (.arr vs)
    pure (.aref c)
  | n + 1, .mref a => do
    let h ← getHeap
    let vs ← mapM' (fun (kv : Bytes × Val) => do
      let v ← copyVal n kv.2
      pure (kv.1, v)) (h.mapAt a)
    let c ← alloc (.map vs)
    pure (.mref c)
  | _ + 1, v => pure v

/-! ## text functions (Go `strings`, `strconv`) on ASCII text

`strings.ToLower/ToUpper/TrimSpace/Trim/Contains/Split/ReplaceAll/Join`, `strconv.ParseInt(s, 10, 64)` and the
conversion `[]rune(s)` transcribed for texts whose bytes are all below 0x80 (there bytes = runes); a text with
a byte from 0x80 on makes the run `unmodelled` (Unicode case tables, U+0085/U+00A0 as white space, invalid
UTF-8 replaced by U+FFFD are outside this model). -/

def isAscii (s : Bytes) : Bool := s.all (fun c => c < 128)

def lowerB (c : UInt8) : UInt8 := if 65 ≤ c && c ≤ 90 then c + 32 else c
def upperB (c : UInt8) : UInt8 := if 97 ≤ c && c ≤ 122 then c - 32 else c

/-- `unicode.IsSpace` below 0x80: `\t \n \v \f \r` and the space -/
def isSpaceB (c : UInt8) : Bool := c = 32 || (9 ≤ c && c ≤ 13)

/-- is `p` a prefix of `s` -/
def hasPrefix : Bytes → Bytes → Bool
  | [], _ => true
  | _ :: _, [] => false
  | a :: p, b :: s => a = b && hasPrefix p s

/-- `strings.Contains(s, t)` -/
def containsSub : Bytes → Bytes → Bool
  | [], t => t.isEmpty
  | c :: r, t => hasPrefix t (c :: r) || containsSub r t

/-- `strings.Split(s, sep)` for a non-empty `sep`: cut at the occurrences found from left to right -/
def splitAux (sep : Bytes) : Nat → Bytes → Bytes → List Bytes
  | 0, s, cur => [cur.reverse ++ s]
  | _ + 1, [], cur => [cur.reverse]
  | f + 1, c :: r, cur =>
    if hasPrefix sep (c :: r) then cur.reverse :: splitAux sep f ((c :: r).drop sep.length) []
    else splitAux sep f r (c :: cur)

/-- `strings.Split`: an empty separator cuts after every character (no piece for the empty text) -/
def splitOn (s sep : Bytes) : List Bytes :=
  if sep.isEmpty then s.map (fun c => [c]) else splitAux sep (s.length + 1) s []

/-- `strings.ReplaceAll(s, old, new)` for a non-empty `old` -/
def replAux (old new : Bytes) : Nat → Bytes → Bytes
  | 0, s => s
  | _ + 1, [] => []
  | f + 1, c :: r =>
    if hasPrefix old (c :: r) then new ++ replAux old new f ((c :: r).drop old.length)
    else c :: replAux old new f r

/-- `strings.ReplaceAll`: an empty `old` matches before every character and at the end -/
def replaceAll (s old new : Bytes) : Bytes :=
  if old.isEmpty then new ++ (s.map (fun c => c :: new)).flatten else replAux old new (s.length + 1) s

def dropWhileB (p : UInt8 → Bool) : Bytes → Bytes
  | [] => []
  | c :: r => if p c then dropWhileB p r else c :: r

/-- `strings.TrimFunc` on both ends -/
def trimBoth (p : UInt8 → Bool) (s : Bytes) : Bytes :=
  (dropWhileB p (dropWhileB p s).reverse).reverse

/-- `strings.Join` -/
def joinWith (sep : Bytes) : List Bytes → Bytes
  | [] => []
  | [x] => x
  | x :: r => x ++ sep ++ joinWith sep r

/-- `strconv.ParseInt(s, 10, 64)`: an optional sign, then decimal digits only, the value inside int64 -/
def parseIntText (s : Bytes) : Option Int :=
  let signed := s.head? = some 45 || s.head? = some 43
  let body := if signed then s.drop 1 else s
  if body.isEmpty || !body.all isDigit then none
  else
    let i : Int := if s.head? = some 45 then -(natOfDigits body : Int) else (natOfDigits body : Int)
    if minInt64 ≤ i ∧ i ≤ maxInt64 then some i else none

/-- `int64(f)` for a float inside the int64 range (truncation toward zero); `none` outside it and for
NaN/±Inf, where Go's result depends on the processor -/
def Flt.trunc : Flt → Option Int
  | .fin neg m e =>
    let mag : Nat := if e ≥ 0 then m * 2 ^ e.toNat else m / 2 ^ (-e).toNat
    let i : Int := if neg then -(mag : Int) else (mag : Int)
    if minInt64 ≤ i ∧ i ≤ maxInt64 then some i else none
  | _ => none

/-- `m == v1` on two interface values (`include`): `none` = both hold the same uncomparable type (slice, map,
jp.Expr): a run-time panic; values of different kinds are different; floats compare as IEEE -/
def goEq : Val → Val → Option Bool
  | .null, .null => some true
  | .bool a, .bool b => some (a = b)
  | .int a, .int b => some (a = b)
  | .flt a, .flt b => some (Flt.eq a b)
  | .str a, .str b => some (a = b)
  | .aref _, .aref _ => none
  | .mref _, .mref _ => none
  | .path _, .path _ => none
  | _, _ => some false


/-! ## text and conversion functions: assertions and result functions (shared by Spec and Model)

`tolower toupper title trim replace split substr join int float string`: the Go type assertion made on each
evaluated argument (`Want`), and the result as a function of the asserted values (`ScalarFn.fin`). -/

/-- the type assertion on an evaluated argument -/
inductive Want where
  /-- `v.(string)`, else a panic -/
  | str
  /-- `asInt(v)`, else a panic -/
  | int
  /-- `v.([]any)` all of whose elements are strings, else a panic (`join`); the strings are read at once -/
  | strs
  /-- `string`'s format: a non-empty string, else a panic -/
  | fmt
  /-- any value (`int`, `float`): a list, map or path converts like nil (no conversion: nil) -/
  | conv
  /-- any value (`string`): a path prints as its text; a list or a map is printed by the SEN writer, which is
  outside this model -/
  | show
  deriving DecidableEq

def Val.toTreeS : Val → Tree
  | .str s => .str s
  | _ => .null

def Want.accept (h : Heap) : Want → Val → Except Stop (List Tree)
  | .str, .str s => .ok [.str s]
  | .str, _ => .error .panic
  | .int, .int i => .ok [.int i]
  | .int, _ => .error .panic
  | .strs, .aref a => if (h.arrAt a).all Val.isStr then .ok ((h.arrAt a).map Val.toTreeS) else .error .panic
  | .strs, _ => .error .panic
  | .fmt, .str s => if s.isEmpty then .error .panic else .ok [.str s]
  | .fmt, _ => .error .panic
  | .conv, .bool b => .ok [.bool b]
  | .conv, .int i => .ok [.int i]
  | .conv, .flt f => .ok [.flt f]
  | .conv, .str s => .ok [.str s]
  | .conv, _ => .ok [.null]
  | .show, .null => .ok [.null]
  | .show, .bool b => .ok [.bool b]
  | .show, .int i => .ok [.int i]
  | .show, .flt f => .ok [.flt f]
  | .show, .str s => .ok [.str s]
  | .show, .path p => .ok [.str (pathText p)]
  | .show, .aref _ => .error .unmodelled
  | .show, .mref _ => .error .unmodelled

structure ScalarFn where
  /-- the accepted numbers of arguments (any other: a panic before anything is evaluated) -/
  arity : Nat → Bool
  /-- the arguments are evaluated last first (`string` evaluates its format before its value) -/
  swap : Bool
  /-- the assertions, in evaluation order, for a call with `n` arguments -/
  wants : Nat → List Want
  /-- the result from the number of arguments and the asserted values; an array of texts for `split` -/
  fin : Nat → List Tree → Except Stop Tree

def Tree.toVal : Tree → Val
  | .null => .null
  | .bool b => .bool b
  | .int i => .int i
  | .flt f => .flt f
  | .str s => .str s
  | _ => .null

def asciiOr (s : Bytes) (r : Except Stop Tree) : Except Stop Tree :=
  if isAscii s then r else .error .unmodelled

/-- asm/tolower.go, asm/toupper.go -/
def sfCase (f : UInt8 → UInt8) : ScalarFn :=
  { arity := fun n => n == 1, swap := false, wants := fun _ => [.str],
    fin := fun _ acc => match acc with
      | [.str s] => asciiOr s (.ok (.str (s.map f)))
      | _ => .error .unmodelled }

/-- asm/title.go: `[]rune(s)`, the first rune to upper case -/
def sfTitle : ScalarFn :=
  { arity := fun n => n == 1, swap := false, wants := fun _ => [.str],
    fin := fun _ acc => match acc with
      | [.str []] => .ok (.str [])
      | [.str (c :: r)] => asciiOr (c :: r) (.ok (.str (upperB c :: r)))
      | _ => .error .unmodelled }

/-- asm/trim.go -/
def sfTrim : ScalarFn :=
  { arity := fun n => n == 1 || n == 2, swap := false, wants := fun _ => [.str, .str],
    fin := fun _ acc => match acc with
      | [.str s] => asciiOr s (.ok (.str (trimBoth isSpaceB s)))
      | [.str s, .str cut] => asciiOr (s ++ cut) (.ok (.str (trimBoth (fun c => cut.contains c) s)))
      | _ => .error .unmodelled }

/-- asm/replace.go -/
def sfReplace : ScalarFn :=
  { arity := fun n => n == 3, swap := false, wants := fun _ => [.str, .str, .str],
    fin := fun _ acc => match acc with
      | [.str s, .str old, .str new] =>
        if old.isEmpty then asciiOr s (.ok (.str (replaceAll s old new))) else .ok (.str (replaceAll s old new))
      | _ => .error .unmodelled }

/-- asm/split.go -/
def sfSplit : ScalarFn :=
  { arity := fun n => n == 2, swap := false, wants := fun _ => [.str, .str],
    fin := fun _ acc => match acc with
      | [.str s, .str sep] =>
        if sep.isEmpty then asciiOr s (.ok (.arr ((splitOn s sep).map .str))) else .ok (.arr ((splitOn s sep).map .str))
      | _ => .error .unmodelled }

/-- `s[a:b]` on bytes: a panic unless `0 ≤ a ≤ b ≤ len` -/
def sliceStr (s : Bytes) (a b : Int) : Except Stop Tree :=
  if 0 ≤ a ∧ a ≤ b ∧ b ≤ (s.length : Int) then .ok (.str ((s.drop a.toNat).take (b - a).toNat)) else .error .panic

/-- asm/substr.go: a negative start counts from the end (not before the beginning); one to three arguments pass
the arity test although the second is always used (`args[1]`: index out of range with one argument) -/
def sfSubstr : ScalarFn :=
  { arity := fun n => 1 ≤ n && n ≤ 3, swap := false, wants := fun _ => [.str, .int, .int],
    fin := fun _ acc =>
      let start (s : Bytes) (i : Int) : Int :=
        if i < 0 then (if wrap64 ((s.length : Int) + i) < 0 then 0 else wrap64 ((s.length : Int) + i)) else i
      match acc with
      | [.str _] => .error .panic
      | [.str s, .int i] => sliceStr s (start s i) s.length
      | [.str s, .int i, .int count] =>
        if count < 0 then .ok (.str [])
        else if (s.length : Int) < wrap64 (start s i + count) then sliceStr s (start s i) s.length
        else sliceStr s (start s i) (wrap64 (start s i + count))
      | _ => .error .unmodelled }

def treeStrs : List Tree → List Bytes
  | [] => []
  | .str s :: r => s :: treeStrs r
  | _ :: r => treeStrs r

/-- asm/join.go: the strings of the list (read when the list has been evaluated), then the separator -/
def sfJoin : ScalarFn :=
  { arity := fun n => n == 1 || n == 2, swap := false, wants := fun _ => [.strs, .str],
    fin := fun n acc =>
      if n == 1 then .ok (.str (joinWith [] (treeStrs acc)))
      else match acc.getLast? with
        | some (.str sep) => .ok (.str (joinWith sep (treeStrs acc.dropLast)))
        | _ => .error .unmodelled }

/-- asm/int.go: an integer as it is, a float truncated, a text read by `strconv.ParseInt(s, 10, 64)`;
anything else (and a text that is not an integer) gives nil -/
def sfInt : ScalarFn :=
  { arity := fun n => n == 1, swap := false, wants := fun _ => [.conv],
    fin := fun _ acc => match acc with
      | [.int i] => .ok (.int i)
      | [.flt f] => (match f.trunc with | some i => .ok (.int i) | none => .error .unmodelled)
      | [.str s] => (match parseIntText s with | some i => .ok (.int i) | none => .ok .null)
      | _ => .ok .null }

/-- a decimal float text as `strconv.ParseFloat` reads it: an optional sign, digits with an optional point (at
least one digit), an optional exponent `e`/`E` with an optional sign and at least one digit, nothing else -/
structure DecText where
  neg : Bool
  digits : Bytes
  fracLen : Nat
  exp : Int

def parseDecText (s : Bytes) : Option DecText :=
  let signed := s.head? = some 45 || s.head? = some 43
  let r0 := if signed then s.drop 1 else s
  let ip := spanP isDigit r0
  let fp : Bytes × Bytes := match ip.2 with
    | 46 :: r => spanP isDigit r
    | r => ([], r)
  let mant := ip.1 ++ fp.1
  if mant.isEmpty then none
  else match fp.2 with
    | [] => some ⟨s.head? = some 45, mant, fp.1.length, 0⟩
    | c :: r =>
      if c = 101 || c = 69 then
        let esigned := r.head? = some 45 || r.head? = some 43
        let r1 := if esigned then r.drop 1 else r
        let ep := spanP isDigit r1
        if ep.1.isEmpty || !ep.2.isEmpty then none
        else some ⟨s.head? = some 45, mant, fp.1.length,
          if r.head? = some 45 then -(natOfDigits ep.1 : Int) else (natOfDigits ep.1 : Int)⟩
      else none

/-- `strconv.ParseFloat(s, 64)` as `float` uses it (an error gives nil): a decimal text is the binary64 nearest to
its exact value (one rounding: `Flt.round` / `Flt.div` of exact operands; underflow gives ±0), a value beyond the
largest float is an error (nil), a text that is not a decimal number is an error (nil). Outside the model: more
than 40 digits or an exponent beyond ±400 (only to bound the arithmetic), and texts that may spell an infinity, a
NaN, a hexadecimal float or use digit separators (any of the letters i n x p or an underscore). -/
def floatOfText (s : Bytes) : Except Stop Tree :=
  match parseDecText s with
  | some d =>
    if d.digits.length > 40 || d.exp.natAbs > 400 then .error .unmodelled
    else
      let D := natOfDigits d.digits
      let x : Int := d.exp - (d.fracLen : Int)
      let f : Flt :=
        if D = 0 then .fin d.neg 0 0
        else if x ≥ 0 then Flt.round d.neg (D * 10 ^ x.toNat) 0
        else Flt.div (.fin d.neg D 0) (.fin false (10 ^ (-x).toNat) 0)
      match f with
      | .inf _ => .ok .null
      | f => .ok (.flt f)
  | none =>
    if s.any (fun c => c = 105 || c = 73 || c = 110 || c = 78 || c = 120 || c = 88 || c = 112 || c = 80 || c = 95) then
      .error .unmodelled
    else .ok .null

/-- asm/float.go -/
def sfFloat : ScalarFn :=
  { arity := fun n => n == 1, swap := false, wants := fun _ => [.conv],
    fin := fun _ acc => match acc with
      | [.int i] => .ok (.flt (Flt.ofInt i))
      | [.flt f] => .ok (.flt f)
      | [.str s] => floatOfText s
      | _ => .ok .null }

/-- asm/string.go: `%d`, `%g`, the string itself, `%v` of nil, a boolean or a path; with a format argument
(`fmt.Sprintf` with any format) the result is outside the model -/
def sfString : ScalarFn :=
  { arity := fun n => n == 1 || n == 2, swap := true,
    wants := fun n => if n == 1 then [.show] else [.fmt, .show],
    fin := fun n acc =>
      if n != 1 then .error .unmodelled
      else match acc with
        | [.null] => .ok (.str b!"<nil>")
        | [.bool true] => .ok (.str b!"true")
        | [.bool false] => .ok (.str b!"false")
        | [.int i] => .ok (.str (fmtD i))
        | [.flt f] => (match fmtG f with | some t => .ok (.str t) | none => .error .unmodelled)
        | [.str s] => .ok (.str s)
        | _ => .error .unmodelled }


end OjgVerif.Asm
