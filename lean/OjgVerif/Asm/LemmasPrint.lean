import OjgVerif.Asm.Model
/-! Print lemmas of the `asm` family: compiling the Simplify form of a compiled argument gives the
argument back. -/
namespace OjgVerif.Asm
open OjgVerif

theorem map_congr_mem {f g : α → β} : ∀ {xs : List α}, (∀ x ∈ xs, f x = g x) → xs.map f = xs.map g
  | [], _ => rfl
  | a :: r, h => by
    simp only [List.map]
    rw [h a (List.mem_cons_self ..), map_congr_mem (fun x hx => h x (List.mem_cons_of_mem _ hx))]

theorem pathText_head (p : Path) : ∃ c r, pathText p = c :: r ∧ (c = 36 ∨ c = 64) := by
  refine ⟨_, _, rfl, ?_⟩
  cases p.isAt <;> simp

theorem compile_simplify : ∀ (n : Nat) (t : Tree), pathsRoundTrip n (compileArg n t) = true →
    compileArg n (simplify n (compileArg n t)) = compileArg n t
  | 0, t, h => by simp [compileArg, pathsRoundTrip] at h
  | n + 1, t, h => by
    cases t with
    | null => simp [compileArg, simplify]
    | bool b => simp [compileArg, simplify]
    | int i => simp [compileArg, simplify]
    | flt f => simp [compileArg, simplify]
    | obj kvs => simp [compileArg, simplify]
    | str s =>
      cases s with
      | nil => simp [compileArg, simplify]
      | cons c r =>
        by_cases hc : (c = 36 || c = 64) = true
        · simp only [compileArg, hc, if_true] at h ⊢
          cases hp : parsePath (c :: r) with
          | none => simp [hp, pathsRoundTrip] at h
          | some p =>
            simp only [hp, pathsRoundTrip, beq_iff_eq] at h
            simp only [simplify]
            obtain ⟨c', r', htext, hc'⟩ := pathText_head p
            have hc'' : (c' = 36 || c' = 64) = true := by rcases hc' with h1 | h1 <;> simp [h1]
            rw [htext] at h ⊢
            simp only [compileArg, hc'', if_true, h]
        · simp only [compileArg, hc]
          simp [simplify, compileArg, hc]
    | arr xs =>
      simp only [compileArg] at h ⊢
      cases hcf : callForm xs with
      | none =>
        simp only [simplify, compileArg, hcf]
      | some nr =>
        obtain ⟨name, rest⟩ := nr
        simp only [hcf] at h ⊢
        have hreg : isRegistered name = true := by
          cases xs with
          | nil => simp [callForm] at hcf
          | cons x r =>
            cases x <;> simp only [callForm] at hcf <;> try (simp at hcf)
            rename_i s
            by_cases hr : isRegistered s = true
            · simp [hr] at hcf
              rw [← hcf.1]; exact hr
            · simp [hr] at hcf
        have hcf' : ∀ ys, callForm (.str name :: ys) = some (name, ys) := by
          intro ys; simp [callForm, hreg]
        by_cases hm : isModelled name = true
        · simp only [hm, Bool.not_true, Bool.false_eq_true, if_false] at h ⊢
          by_cases hq : name = b!"quote"
          · simp only [hq, if_true] at h ⊢
            simp only [simplify, List.map_map]
            have hid : ∀ (ys : List Tree), (List.map (simplify n ∘ ArgG.lit) ys) = ys := by
              intro ys
              induction ys with
              | nil => rfl
              | cons a r ih => simp [simplify, Function.comp] at ih ⊢; exact ih
            rw [hid]
            have := hcf' rest
            rw [hq] at this hm
            simp only [compileArg, this, hm, Bool.not_true, Bool.false_eq_true, if_false, if_true]
          · simp only [hq, if_false] at h ⊢
            simp only [simplify, List.map_map]
            simp only [compileArg, hcf', hm, Bool.not_true, Bool.false_eq_true, if_false, hq, List.map_map]
            congr 1
            apply map_congr_mem
            intro x hx
            simp only [pathsRoundTrip, List.all_eq_true, List.mem_map] at h
            exact compile_simplify n x (h _ ⟨x, hx, rfl⟩)
        · simp [hm, pathsRoundTrip] at h

end OjgVerif.Asm
