import OjgVerif.Asm.LemmasText
/-! What `sort` returns (the `asm` family): a permutation of the array it is given (the very elements, same
references) in which no element is less than its predecessor under the documented comparison (`sortLess`:
strings with strings, numbers with numbers by exact value) — what an insertion sort guarantees whether or not
the comparison is transitive (a NaN key is less than nothing, so a list with NaN keys is left locally ordered
only). -/
set_option linter.unusedSimpArgs false
set_option linter.unusedVariables false
namespace OjgVerif.Asm
open OjgVerif

/-! ## permutation -/

theorem sortInsert_perm (x : Option Val × Val) : ∀ (pre l : List (Option Val × Val)), sortInsert x pre = .ok l →
    List.Perm l (x :: pre)
  | [], l, h => by simp [sortInsert] at h; subst h; exact List.Perm.refl _
  | p :: r, l, h => by
    simp only [sortInsert] at h
    split at h
    · cases h
    · cases hr : sortInsert x r with
      | error e => simp [hr] at h
      | ok l' =>
        simp [hr] at h
        subst h
        exact ((sortInsert_perm x r l' hr).cons p).trans (List.Perm.swap x p r)
    · simp at h; subst h; exact List.Perm.refl _

theorem sortRun_perm : ∀ (xs pre l : List (Option Val × Val)), sortRun xs pre = .ok l → List.Perm l (xs ++ pre)
  | [], pre, l, h => by simp [sortRun] at h; subst h; exact List.Perm.refl _
  | x :: r, pre, l, h => by
    simp only [sortRun] at h
    cases hi : sortInsert x pre with
    | error e => simp [hi] at h
    | ok pre' =>
      simp only [hi] at h
      have h1 := sortRun_perm r pre' l h
      have h2 := sortInsert_perm x pre pre' hi
      refine h1.trans ?_
      refine (List.Perm.append_left r h2).trans ?_
      simp only [List.cons_append]
      exact List.perm_middle

theorem sortKeys_snd (env : Env) (h : Heap) (fs : List Frag) : ∀ (xs : List Val) (ks : List (Option Val × Val)),
    sortKeys env h fs xs = .ok ks → ks.map (·.2) = xs
  | [], ks, hk => by simp [sortKeys] at hk; subst hk; rfl
  | x :: r, ks, hk => by
    simp only [sortKeys] at hk
    cases hf : pathFirst env h x fs with
    | error e => simp [hf] at hk
    | ok kx =>
      simp only [hf] at hk
      cases hr : sortKeys env h fs r with
      | error e => simp [hr] at hk
      | ok l =>
        simp [hr] at hk
        subst hk
        simp [sortKeys_snd env h fs r l hr]

/-- the keys `sortKeys` pairs the elements with are what the path selects in them -/
theorem sortKeys_fst (env : Env) (h : Heap) (fs : List Frag) : ∀ (xs : List Val) (ks : List (Option Val × Val)),
    sortKeys env h fs xs = .ok ks → ∀ p ∈ ks, pathFirst env h p.2 fs = .ok p.1
  | [], ks, hk, p, hp => by simp [sortKeys] at hk; subst hk; simp at hp
  | x :: r, ks, hk, p, hp => by
    simp only [sortKeys] at hk
    cases hf : pathFirst env h x fs with
    | error e => simp [hf] at hk
    | ok kx =>
      simp only [hf] at hk
      cases hr : sortKeys env h fs r with
      | error e => simp [hr] at hk
      | ok l =>
        simp [hr] at hk
        subst hk
        rcases List.mem_cons.mp hp with h1 | h1
        · subst h1; exact hf
        · exact sortKeys_fst env h fs r l hr p h1

/-- `sort` returns a permutation of the elements it is given -/
theorem sortList_perm (env : Env) (h : Heap) (fs : List Frag) (xs r : List Val) (hs : sortList env h fs xs = .ok r) :
    List.Perm r xs := by
  unfold sortList at hs
  split at hs
  · cases hs
  · cases hk : sortKeys env h fs xs with
    | error e => simp [hk] at hs
    | ok ks =>
      simp only [hk] at hs
      cases hr : sortRun ks [] with
      | error e => simp [hr] at hs
      | ok l =>
        simp [hr] at hs
        subst hs
        have hp := sortRun_perm ks [] l hr
        simp only [List.append_nil] at hp
        have := (hp.map (·.2))
        rw [sortKeys_snd env h fs xs ks hk] at this
        exact (List.reverse_perm _).trans this

/-! ## order -/

theorem bytesLt_asymm : ∀ (a b : Bytes), bytesLt a b = true → bytesLt b a = false
  | [], [], h => by simp [bytesLt] at h
  | [], _ :: _, _ => by simp [bytesLt]
  | _ :: _, [], h => by simp [bytesLt] at h
  | x :: r, y :: s, h => by
    simp only [bytesLt] at h ⊢
    by_cases h1 : x < y
    · have h2 : ¬ (y < x) := fun hc => by
        have := UInt8.lt_asymm h1; exact this hc
      simp [h2, h1]
    · simp only [h1, if_false] at h
      by_cases h2 : y < x
      · simp [h2] at h
      · simp only [h2, if_false] at h
        simp [h1, h2, bytesLt_asymm r s h]

theorem Flt.lt_asymm (a b : Flt) (h : Flt.lt a b = true) : Flt.lt b a = false := by
  cases a <;> cases b <;> simp_all [Flt.lt]
  · omega

/-- the comparison of `sort` is asymmetric -/
theorem sortLess_asymm (ki kj : Option Val) (h : sortLess ki kj = .ok true) : sortLess kj ki = .ok false := by
  cases ki with
  | none => simp [sortLess] at h
  | some vi =>
    cases kj with
    | none => cases vi <;> simp [sortLess] at h
    | some vj =>
      cases vi <;> cases vj <;> simp [sortLess, asFloat] at h ⊢
      all_goals first
        | exact Flt.lt_asymm _ _ h
        | exact bytesLt_asymm _ _ h

/-- reversed prefix in order: every element is not less than the one before it (the list is kept last first) -/
def RevOrdered : List (Option Val × Val) → Prop
  | [] => True
  | [_] => True
  | a :: b :: r => sortLess a.1 b.1 = .ok false ∧ RevOrdered (b :: r)

theorem sortInsert_head (x : Option Val × Val) : ∀ (pre l : List (Option Val × Val)), sortInsert x pre = .ok l →
    l.head? = some x ∨ (l.head? = pre.head? ∧ ∃ p r, pre = p :: r ∧ sortLess x.1 p.1 = .ok true)
  | [], l, h => by simp [sortInsert] at h; subst h; simp
  | p :: r, l, h => by
    simp only [sortInsert] at h
    split at h
    · cases h
    · rename_i ht
      cases hr : sortInsert x r with
      | error e => simp [hr] at h
      | ok l' => simp [hr] at h; subst h; exact Or.inr ⟨rfl, p, r, rfl, ht⟩
    · simp at h; subst h; simp

theorem sortInsert_ordered (x : Option Val × Val) : ∀ (pre l : List (Option Val × Val)), RevOrdered pre →
    sortInsert x pre = .ok l → RevOrdered l
  | [], l, _, h => by simp [sortInsert] at h; subst h; trivial
  | p :: r, l, ho, h => by
    simp only [sortInsert] at h
    cases hl : sortLess x.1 p.1 with
    | error e => simp [hl] at h
    | ok b =>
      cases b with
      | false => simp [hl] at h; subst h; exact ⟨hl, ho⟩
      | true =>
        simp only [hl] at h
        cases hr : sortInsert x r with
        | error e => simp [hr] at h
        | ok l' =>
          simp [hr] at h
          subst h
          have hor : RevOrdered r := by
            cases r with
            | nil => trivial
            | cons q r' => exact ho.2
          have ih := sortInsert_ordered x r l' hor hr
          cases l' with
          | nil => trivial
          | cons a l'' =>
            refine ⟨?_, ih⟩
            rcases sortInsert_head x r (a :: l'') hr with h1 | ⟨h1, q, r', hq, _⟩
            · simp at h1; subst h1; exact sortLess_asymm _ _ hl
            · subst hq; simp at h1; subst h1; exact ho.1

theorem sortRun_ordered : ∀ (xs pre l : List (Option Val × Val)), RevOrdered pre → sortRun xs pre = .ok l → RevOrdered l
  | [], pre, l, ho, h => by simp [sortRun] at h; subst h; exact ho
  | x :: r, pre, l, ho, h => by
    simp only [sortRun] at h
    cases hi : sortInsert x pre with
    | error e => simp [hi] at h
    | ok pre' =>
      simp only [hi] at h
      exact sortRun_ordered r pre' l (sortInsert_ordered x pre pre' ho hi) h

/-- in order, first first: no element is less than the one before it -/
def FwdOrdered : List (Option Val × Val) → Prop
  | [] => True
  | [_] => True
  | a :: b :: r => sortLess b.1 a.1 = .ok false ∧ FwdOrdered (b :: r)

theorem fwd_snoc (a : Option Val × Val) : ∀ (m : List (Option Val × Val)), FwdOrdered m →
    (∀ b, m.getLast? = some b → sortLess a.1 b.1 = .ok false) → FwdOrdered (m ++ [a])
  | [], _, _ => trivial
  | [b], _, hl => ⟨hl b rfl, trivial⟩
  | b :: c :: r, hm, hl => by
    refine ⟨hm.1, ?_⟩
    exact fwd_snoc a (c :: r) hm.2 (fun d hd => hl d (by simpa [List.getLast?_cons_cons] using hd))

theorem rev_fwd : ∀ (l : List (Option Val × Val)), RevOrdered l → FwdOrdered l.reverse
  | [], _ => trivial
  | [a], _ => trivial
  | a :: b :: r, ho => by
    have ih := rev_fwd (b :: r) ho.2
    rw [List.reverse_cons]
    refine fwd_snoc a _ ih ?_
    intro d hd
    rw [List.getLast?_reverse] at hd
    simp at hd
    subst hd
    exact ho.1

/-- the array is in order by the key the path selects in each element: no element's key is less than the key of
the element before it -/
def SortedBy (env : Env) (h : Heap) (fs : List Frag) : List Val → Prop
  | [] => True
  | [_] => True
  | u :: v :: r =>
    (∃ ku kv, pathFirst env h u fs = .ok ku ∧ pathFirst env h v fs = .ok kv ∧ sortLess kv ku = .ok false) ∧
      SortedBy env h fs (v :: r)

theorem sortedBy_of_fwd (env : Env) (h : Heap) (fs : List Frag) : ∀ (l : List (Option Val × Val)),
    (∀ p ∈ l, pathFirst env h p.2 fs = .ok p.1) → FwdOrdered l → SortedBy env h fs (l.map (·.2))
  | [], _, _ => trivial
  | [a], _, _ => trivial
  | a :: b :: r, hk, ho => by
    refine ⟨⟨a.1, b.1, hk a (by simp), hk b (by simp), ho.1⟩, ?_⟩
    exact sortedBy_of_fwd env h fs (b :: r) (fun p hp => hk p (List.mem_cons_of_mem _ hp)) ho.2

/-- what `sort` returns is in order -/
theorem sortList_sorted (env : Env) (h : Heap) (fs : List Frag) (xs r : List Val) (hs : sortList env h fs xs = .ok r) :
    SortedBy env h fs r := by
  unfold sortList at hs
  split at hs
  · cases hs
  · cases hk : sortKeys env h fs xs with
    | error e => simp [hk] at hs
    | ok ks =>
      simp only [hk] at hs
      cases hr : sortRun ks [] with
      | error e => simp [hr] at hs
      | ok l =>
        simp [hr] at hs
        subst hs
        rw [← List.map_reverse]
        apply sortedBy_of_fwd
        · intro p hp
          have hp' : p ∈ l := by simpa using hp
          have hperm := sortRun_perm ks [] l hr
          simp only [List.append_nil] at hperm
          exact sortKeys_fst env h fs xs ks hk p (hperm.mem_iff.mp hp')
        · exact rev_fwd l (sortRun_ordered ks [] l trivial hr)


end OjgVerif.Asm
