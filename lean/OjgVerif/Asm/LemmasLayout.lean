import OjgVerif.Asm.LemmasTotal
/-! Layout lemmas of the `asm` family: the driver's check `layoutOK` implies the hypotheses of the general
re-run and no-fault theorems about how the heap is laid out. -/
set_option linter.unusedSimpArgs false
namespace OjgVerif.Asm
open OjgVerif

theorem hiB_sound {k : Nat} {v : Val} (h : v.hiB k = true) : v.hi k := by
  cases v <;> simp [Val.hiB, Val.hi] at h ⊢ <;> exact h

theorem belowB_sound {i : Nat} {v : Val} (h : v.belowB i = true) : v.below i := by
  cases v <;> simp [Val.belowB, Val.below] at h ⊢ <;> exact h

theorem belowB_lo {k : Nat} {v : Val} (h : v.belowB k = true) : v.lo k := by
  cases v <;> simp [Val.belowB, Val.lo] at h ⊢ <;> exact h

theorem allB_hi {k : Nat} {c : Cell} (h : c.allB (Val.hiB k) = true) : c.hi k := by
  cases c with
  | arr xs => intro v hv; exact hiB_sound (by simpa [Cell.allB] using (List.all_eq_true.mp h) v hv)
  | map kvs => intro kv hkv; exact hiB_sound (by simpa [Cell.allB] using (List.all_eq_true.mp h) kv hkv)

theorem allB_below {i : Nat} {c : Cell} (h : c.allB (Val.belowB i) = true) : Cell.below i c := by
  cases c with
  | arr xs => intro v hv; exact belowB_sound (by simpa [Cell.allB] using (List.all_eq_true.mp h) v hv)
  | map kvs => intro kv hkv; exact belowB_sound (by simpa [Cell.allB] using (List.all_eq_true.mp h) kv hkv)

theorem heapLayoutB_sound (k : Nat) : ∀ (r : Heap) (i : Nat), heapLayoutB k i r = true →
    ∀ j c, r[j]? = some c → (i + j < k → Cell.below (i + j) c) ∧ (k ≤ i + j → c.hi k)
  | [], _, _, j, c, hg => by simp at hg
  | c0 :: r, i, h, j, c, hg => by
    simp only [heapLayoutB, Bool.and_eq_true] at h
    cases j with
    | zero =>
      simp at hg; subst hg
      constructor
      · intro hlt; have := h.1; simp only [show i < k from by omega, if_true] at this; simpa using allB_below this
      · intro hge; have := h.1; simp only [show ¬ i < k from by omega, if_false] at this; exact allB_hi this
    | succ j' =>
      simp at hg
      have := heapLayoutB_sound k r (i + 1) h.2 j' c hg
      have e : i + (j' + 1) = i + 1 + j' := by omega
      rw [e]; exact this

theorem argLoB_sound (k : Nat) : ∀ (n : Nat) (a : Arg), argLoB k n a = true → ArgLo k a
  | n, .lit v, h => by
    cases n <;> exact .lit v (belowB_lo (by simpa [argLoB] using h))
  | n, .path p, _ => .path p
  | n, .unk, _ => .unk
  | 0, .raw v es, h => by simp [argLoB] at h
  | 0, .call f args, h => by simp [argLoB] at h
  | n + 1, .raw v es, h => by
    simp only [argLoB, Bool.and_eq_true, List.all_eq_true] at h
    exact .raw v es (belowB_lo h.1) (fun e he => argLoB_sound k n e (h.2 e he))
  | n + 1, .call f args, h => by
    simp only [argLoB, List.all_eq_true] at h
    exact .call f args (fun a ha => argLoB_sound k n a (h a ha))

end OjgVerif.Asm
