import OjgVerif.Asm.Model
import OjgVerif.Asm.Spec
/-! Helper lemmas of the `asm` family: the state-and-stop monad, and "the evaluator's loop computes the
specification's function of the evaluated arguments" for each modelled function. -/
namespace OjgVerif.Asm
open OjgVerif

/-! ## the monad -/

@[simp] theorem pure_apply (a : α) (h : Heap) : (pure a : M α) h = (.ok a, h) := rfl

@[simp] theorem bind_apply (m : M α) (f : α → M β) (h : Heap) :
    (m >>= f) h = (match m h with
      | (.ok a, h') => f a h'
      | (.error e, h') => (.error e, h')) := rfl

@[simp] theorem stop_apply (s : Stop) (h : Heap) : (stop s : M α) h = (.error s, h) := rfl
@[simp] theorem getHeap_apply (h : Heap) : getHeap h = (.ok h, h) := rfl
@[simp] theorem alloc_apply (c : Cell) (h : Heap) : alloc c h = (.ok h.length, h ++ [c]) := rfl
@[simp] theorem liftE_apply (e : Except Stop α) (h : Heap) : liftE e h = (e, h) := rfl

theorem bind_ok {m : M α} {f : α → M β} {h h' : Heap} {a : α} (hm : m h = (.ok a, h')) :
    (m >>= f) h = f a h' := by simp [hm]

theorem bind_err {m : M α} {f : α → M β} {h h' : Heap} {e : Stop} (hm : m h = (.error e, h')) :
    (m >>= f) h = (.error e, h') := by simp [hm]

/-! ## arguments that evaluate without effect

`PureArgs e h args vs`: evaluated in the heap `h`, argument `i` gives the value `vs[i]` and leaves the
heap as it is (literals, paths, calls of functions that only read). -/

def PureArgs (e : Arg → M Val) (h : Heap) : List Arg → List Val → Prop
  | [], [] => True
  | a :: as, v :: vs => e a h = (.ok v, h) ∧ PureArgs e h as vs
  | _, _ => False

theorem PureArgs.length {e : Arg → M Val} {h : Heap} : ∀ {args vs}, PureArgs e h args vs → args.length = vs.length
  | [], [], _ => rfl
  | _ :: as, _ :: vs, hp => by simp [PureArgs.length (args := as) (vs := vs) hp.2]
  | [], _ :: _, hp => by simp [PureArgs] at hp
  | _ :: _, [], hp => by simp [PureArgs] at hp

/-! ## sum -/

theorem sumStep_add2 (acc : SumAcc) (v : Val) :
    (sumStep acc v).map SumAcc.val = Spec.add2 acc.val v := by
  cases acc <;> cases v <;> simp [sumStep, Spec.add2, SumAcc.val, Spec.raise, Spec.gText, Except.map] <;>
    (generalize fmtG _ = o; cases o <;> rfl)

theorem sumLoop_spec (e : Arg → M Val) (h : Heap) :
    ∀ (args : List Arg) (vs : List Val) (acc : SumAcc), PureArgs e h args vs →
      sumLoop e acc args h = (Spec.foldM' Spec.add2 acc.val vs, h)
  | [], [], acc, _ => by simp [sumLoop, Spec.foldM']
  | a :: as, v :: vs, acc, hp => by
    have h1 := hp.1
    have ih := sumLoop_spec e h as vs
    have hs := sumStep_add2 acc v
    simp only [sumLoop, bind_apply, h1, liftE_apply, Spec.foldM']
    cases hst : sumStep acc v with
    | ok acc' =>
      simp [hst, Except.map] at hs
      simp [← hs, ih acc' hp.2]
    | error er =>
      simp [hst, Except.map] at hs
      simp [← hs]
  | [], _ :: _, _, hp => by simp [PureArgs] at hp
  | _ :: _, [], _, hp => by simp [PureArgs] at hp

theorem fnSum_spec (e : Arg → M Val) (h : Heap) (args : List Arg) (vs : List Val)
    (hp : PureArgs e h args vs) : fnSum e args h = (Spec.sum vs, h) := by
  match args, vs, hp with
  | [], [], _ => simp [fnSum, Spec.sum]
  | a :: as, v :: vs, hp =>
    have h1 := hp.1
    simp only [fnSum, bind_apply, h1, liftE_apply]
    cases v <;> simp [sumFirst, Spec.sum, Spec.raise] <;>
      (first | exact sumLoop_spec e h as vs (.i _) hp.2 | exact sumLoop_spec e h as vs (.f _) hp.2 | exact sumLoop_spec e h as vs (.s _) hp.2)
  | [], _ :: _, hp => simp [PureArgs] at hp
  | _ :: _, [], hp => simp [PureArgs] at hp
end OjgVerif.Asm
