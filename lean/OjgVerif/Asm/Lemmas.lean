import OjgVerif.Asm.Model
import OjgVerif.Asm.Spec
/-! Helper lemmas of the `asm` family: the state-and-stop monad, and "the evaluator's loop computes the
specification's function of the evaluated arguments" for each modelled function. -/
namespace OjgVerif.Asm
open OjgVerif

/-! ## the monad -/

@[simp] theorem pure_apply (a : α) (h : Heap) : (pure a : M α) h = (.ok a, h) := rfl

@[simp] theorem bind_apply (m : M α) (f : α → M β) (h : Heap) :
    (m >>= f) h = (match m h with
      | (.ok a, h') => f a h'
      | (.error e, h') => (.error e, h')) := rfl

@[simp] theorem stop_apply (s : Stop) (h : Heap) : (stop s : M α) h = (.error s, h) := rfl
@[simp] theorem getHeap_apply (h : Heap) : getHeap h = (.ok h, h) := rfl
@[simp] theorem alloc_apply (c : Cell) (h : Heap) : alloc c h = (.ok h.length, h ++ [c]) := rfl
@[simp] theorem liftE_apply (e : Except Stop α) (h : Heap) : liftE e h = (e, h) := rfl

theorem bind_ok {m : M α} {f : α → M β} {h h' : Heap} {a : α} (hm : m h = (.ok a, h')) :
    (m >>= f) h = f a h' := by simp [hm]

theorem bind_err {m : M α} {f : α → M β} {h h' : Heap} {e : Stop} (hm : m h = (.error e, h')) :
    (m >>= f) h = (.error e, h') := by simp [hm]

/-! ## arguments that evaluate without effect

`PureArgs e h args vs`: evaluated in the heap `h`, argument `i` gives the value `vs[i]` and leaves the
heap as it is (literals, paths, calls of functions that only read). -/

def PureArgs (e : Arg → M Val) (h : Heap) : List Arg → List Val → Prop
  | [], [] => True
  | a :: as, v :: vs => e a h = (.ok v, h) ∧ PureArgs e h as vs
  | _, _ => False

instance (e : Arg → M Val) (h : Heap) : ∀ (args : List Arg) (vs : List Val), Decidable (PureArgs e h args vs)
  | [], [] => isTrue trivial
  | a :: as, v :: vs =>
    have := instDecidablePureArgs e h as vs
    inferInstanceAs (Decidable (e a h = (.ok v, h) ∧ PureArgs e h as vs))
  | [], _ :: _ => isFalse (by simp [PureArgs])
  | _ :: _, [] => isFalse (by simp [PureArgs])

theorem PureArgs.length {e : Arg → M Val} {h : Heap} : ∀ {args vs}, PureArgs e h args vs → args.length = vs.length
  | [], [], _ => rfl
  | _ :: as, _ :: vs, hp => by simp [PureArgs.length (args := as) (vs := vs) hp.2]
  | [], _ :: _, hp => by simp [PureArgs] at hp
  | _ :: _, [], hp => by simp [PureArgs] at hp

/-! ## sum -/

theorem sumStep_add2 (acc : SumAcc) (v : Val) :
    (sumStep acc v).map SumAcc.val = Spec.add2 acc.val v := by
  cases acc <;> cases v <;> simp [sumStep, Spec.add2, SumAcc.val, Spec.raise, Spec.gText, Except.map] <;>
    (generalize fmtG _ = o; cases o <;> rfl)

theorem sumLoop_spec (e : Arg → M Val) (h : Heap) :
    ∀ (args : List Arg) (vs : List Val) (acc : SumAcc), PureArgs e h args vs →
      sumLoop e acc args h = (Spec.foldM' Spec.add2 acc.val vs, h)
  | [], [], acc, _ => by simp [sumLoop, Spec.foldM']
  | a :: as, v :: vs, acc, hp => by
    have h1 := hp.1
    have ih := sumLoop_spec e h as vs
    have hs := sumStep_add2 acc v
    simp only [sumLoop, bind_apply, h1, liftE_apply, Spec.foldM']
    cases hst : sumStep acc v with
    | ok acc' =>
      simp [hst, Except.map] at hs
      simp [← hs, ih acc' hp.2]
    | error er =>
      simp [hst, Except.map] at hs
      simp [← hs]
  | [], _ :: _, _, hp => by simp [PureArgs] at hp
  | _ :: _, [], _, hp => by simp [PureArgs] at hp

theorem fnSum_spec (e : Arg → M Val) (h : Heap) (args : List Arg) (vs : List Val)
    (hp : PureArgs e h args vs) : fnSum e args h = (Spec.sum vs, h) := by
  match args, vs, hp with
  | [], [], _ => simp [fnSum, Spec.sum]
  | a :: as, v :: vs, hp =>
    have h1 := hp.1
    simp only [fnSum, bind_apply, h1, liftE_apply]
    cases v <;> simp [sumFirst, Spec.sum, Spec.raise] <;>
      (first | exact sumLoop_spec e h as vs (.i _) hp.2 | exact sumLoop_spec e h as vs (.f _) hp.2 | exact sumLoop_spec e h as vs (.s _) hp.2)
  | [], _ :: _, hp => simp [PureArgs] at hp
  | _ :: _, [], hp => simp [PureArgs] at hp
/-! ## dif product quotient mod -/

@[simp] theorem exceptMap_ok (f : α → β) (a : α) : (Except.ok a : Except ε α).map f = .ok (f a) := rfl
@[simp] theorem exceptMap_error (f : α → β) (e : ε) : (Except.error e : Except ε α).map f = .error e := rfl

def ArithOp.spec : ArithOp → Spec.Arith
  | .dif => .dif | .product => .product | .quotient => .quotient

theorem arithStep_arith2 (dev : Dev) (op : ArithOp) (acc : NumAcc) (v : Val) :
    (arithStep dev op acc v).map NumAcc.val = Spec.arith2 dev op.spec acc.val v := by
  cases acc <;> cases v <;> cases op <;>
    simp [arithStep, Spec.arith2, NumAcc.val, Spec.raise, ArithOp.spec, ArithOp.iop, Spec.Arith.onInt,
      arithF, Spec.Arith.onFlt, ArithOp.fop, apply_ite (Except.map NumAcc.val)] <;>
    (split <;> simp_all [NumAcc.val])

theorem arithLoop_spec (dev : Dev) (op : ArithOp) (e : Arg → M Val) (h : Heap) :
    ∀ (args : List Arg) (vs : List Val) (acc : NumAcc), PureArgs e h args vs →
      arithLoop dev op e acc args h = (Spec.foldM' (Spec.arith2 dev op.spec) acc.val vs, h)
  | [], [], acc, _ => by simp [arithLoop, Spec.foldM']
  | a :: as, v :: vs, acc, hp => by
    have h1 := hp.1
    have ih := arithLoop_spec dev op e h as vs
    have hs := arithStep_arith2 dev op acc v
    simp only [arithLoop, bind_apply, h1, liftE_apply, Spec.foldM']
    cases hst : arithStep dev op acc v with
    | ok acc' =>
      simp [hst, Except.map] at hs
      simp [← hs, ih acc' hp.2]
    | error er =>
      simp [hst, Except.map] at hs
      simp [← hs]
  | [], _ :: _, _, hp => by simp [PureArgs] at hp
  | _ :: _, [], _, hp => by simp [PureArgs] at hp

theorem fnArith_spec (dev : Dev) (op : ArithOp) (e : Arg → M Val) (h : Heap) (args : List Arg) (vs : List Val)
    (hp : PureArgs e h args vs) : fnArith dev op e args h = (Spec.arith dev op.spec vs, h) := by
  match args, vs, hp with
  | [], [], _ => simp [fnArith, Spec.arith]
  | a :: as, v :: vs, hp =>
    have h1 := hp.1
    simp only [fnArith, bind_apply, h1, liftE_apply]
    cases v <;> simp [arithFirst, Spec.arith, Spec.raise, Val.isNum] <;>
      (first | exact arithLoop_spec dev op e h as vs (.i _) hp.2 | exact arithLoop_spec dev op e h as vs (.f _) hp.2)
  | [], _ :: _, hp => simp [PureArgs] at hp
  | _ :: _, [], hp => simp [PureArgs] at hp

theorem fnMod_spec (e : Arg → M Val) (h : Heap) (args : List Arg) (vs : List Val)
    (hp : PureArgs e h args vs) : fnMod e args h = (Spec.mod vs, h) := by
  match args, vs, hp with
  | [], [], _ => simp [fnMod, Spec.mod, Spec.raise]
  | [a], [v], hp => simp [fnMod, Spec.mod, Spec.raise]
  | [a, b], [v, w], hp =>
    have h1 := hp.1
    have h2 := hp.2.1
    cases v <;> cases w <;> simp [fnMod, Spec.mod, Spec.raise, h1, h2, asInt] <;> (split <;> simp_all)
  | a :: b :: c :: r, v :: w :: x :: vs, hp => simp [fnMod, Spec.mod, Spec.raise]
  | [], _ :: _, hp => simp [PureArgs] at hp
  | _ :: _, [], hp => simp [PureArgs] at hp
  | [_], _ :: _ :: _, hp => simp [PureArgs] at hp
  | _ :: _ :: _, [_], hp => simp [PureArgs] at hp
  | [_, _], _ :: _ :: _ :: _, hp => simp [PureArgs] at hp
  | _ :: _ :: _ :: _, [_, _], hp => simp [PureArgs] at hp

/-! ## comparison chains -/

theorem cmpNumLoop_spec (dev : Dev) (op : CmpOp) (e : Arg → M Val) (h : Heap) :
    ∀ (args : List Arg) (vs : List Val) (x : Flt), PureArgs e h args vs →
      cmpNumLoop dev op e x args h = (Spec.numChain dev op x vs, h)
  | [], [], x, _ => by simp [cmpNumLoop, Spec.numChain]
  | a :: as, v :: vs, x, hp => by
    have h1 := hp.1
    have ih := cmpNumLoop_spec dev op e h as vs
    simp only [cmpNumLoop, bind_apply, h1, Spec.numChain, Spec.numOf]
    cases hf : asFloat (!dev.cmpFloat) v with
    | none => simp [Spec.raise]
    | some y =>
      by_cases hh : op.fHolds x y = true
      · simp [hh, ih y hp.2]
      · simp [hh]
  | [], _ :: _, _, hp => by simp [PureArgs] at hp
  | _ :: _, [], _, hp => by simp [PureArgs] at hp

theorem cmpStrLoop_spec (op : CmpOp) (e : Arg → M Val) (h : Heap) :
    ∀ (args : List Arg) (vs : List Val) (x : Bytes), PureArgs e h args vs →
      cmpStrLoop op e x args h = (Spec.strChain op x vs, h)
  | [], [], x, _ => by simp [cmpStrLoop, Spec.strChain]
  | a :: as, v :: vs, x, hp => by
    have h1 := hp.1
    have ih := cmpStrLoop_spec op e h as vs
    simp only [cmpStrLoop, bind_apply, h1, Spec.strChain]
    by_cases hh : op.sHolds x v.strOrEmpty = true
    · simp [hh, ih _ hp.2]
    · simp [hh]
  | [], _ :: _, _, hp => by simp [PureArgs] at hp
  | _ :: _, [], _, hp => by simp [PureArgs] at hp

/-- the comparison functions compute the documented chain whenever the first argument is what the code
looks at: always when the first argument is evaluated (`cmpUneval = false`), and for a literal first
argument in the code as it is -/
theorem fnCmp_spec (dev : Dev) (op : CmpOp) (e : Arg → M Val) (h : Heap) (args : List Arg) (vs : List Val)
    (hp : PureArgs e h args vs)
    (hfirst : dev.cmpUneval = false ∨ ∃ v r, args = .lit v :: r ∧ vs.head? = some v) :
    fnCmp dev op e args h = (Spec.cmp dev op vs, h) := by
  match args, vs, hp with
  | [], [], _ => simp [fnCmp, Spec.cmp]
  | a :: as, v :: vs, hp =>
    have h1 := hp.1
    have hhead : cmpHead dev e a h = (.ok v, h) := by
      rcases hfirst with hu | ⟨v', r, ha, hv⟩
      · simp [cmpHead, hu, h1]
      · simp at ha hv
        subst hv
        by_cases hu : dev.cmpUneval = true
        · simp [cmpHead, hu, ha.1]
        · simp [cmpHead, hu, h1]
    simp only [fnCmp, bind_apply, hhead]
    cases v <;> simp [Spec.cmp, Spec.numOf, asFloat, Spec.raise] <;>
      (first | exact cmpNumLoop_spec dev op e h as vs _ hp.2 | exact cmpStrLoop_spec op e h as vs _ hp.2)
  | [], _ :: _, hp => simp [PureArgs] at hp
  | _ :: _, [], hp => simp [PureArgs] at hp

/-! ## equal / neq -/

theorem equalM_apply (dev : Dev) (v0 v1 : Val) (h : Heap) :
    equalM dev v0 v1 h = (match eqVals dev h (eqFuel h) [] v0 v1 with
      | .yes => (.ok true, h)
      | .no => (.ok false, h)
      | .cyc => (.error .diverge, h)
      | .amb => (.error .enum, h)) := rfl

theorem eqLoop_spec (dev : Dev) (e : Arg → M Val) (h : Heap) (v0 : Val) :
    ∀ (args : List Arg) (vs : List Val), PureArgs e h args vs →
      eqLoop dev e v0 args h = (Spec.equalTo dev h v0 vs, h)
  | [], [], _ => by simp [eqLoop, Spec.equalTo]
  | a :: as, v :: vs, hp => by
    have h1 := hp.1
    have ih := eqLoop_spec dev e h v0 as vs hp.2
    simp only [eqLoop, bind_apply, h1, Spec.equalTo, equalM_apply]
    cases eqVals dev h (eqFuel h) [] v0 v <;> simp [ih]
  | [], _ :: _, hp => by simp [PureArgs] at hp
  | _ :: _, [], hp => by simp [PureArgs] at hp

theorem fnEqual_spec (dev : Dev) (e : Arg → M Val) (h : Heap) (args : List Arg) (vs : List Val)
    (hp : PureArgs e h args vs) : fnEqual dev e args h = (Spec.equal dev h vs, h) := by
  match args, vs, hp with
  | [], [], _ => simp [fnEqual, Spec.equal]
  | a :: as, v :: vs, hp =>
    have h1 := hp.1
    simp only [fnEqual, bind_apply, h1, Spec.equal]
    exact eqLoop_spec dev e h v as vs hp.2
  | [], _ :: _, hp => simp [PureArgs] at hp
  | _ :: _, [], hp => simp [PureArgs] at hp

/-! ## logic -/

theorem fnAnd_spec (e : Arg → M Val) (h : Heap) :
    ∀ (args : List Arg) (vs : List Val), PureArgs e h args vs → fnAnd e args h = (Spec.land vs, h)
  | [], [], _ => by simp [fnAnd, Spec.land]
  | a :: as, v :: vs, hp => by
    have h1 := hp.1
    have ih := fnAnd_spec e h as vs hp.2
    simp only [fnAnd, bind_apply, h1]
    cases v <;> simp [Spec.land, Spec.raise]
    rename_i b
    cases b <;> simp [Spec.land, ih]
  | [], _ :: _, hp => by simp [PureArgs] at hp
  | _ :: _, [], hp => by simp [PureArgs] at hp

theorem fnOr_spec (e : Arg → M Val) (h : Heap) :
    ∀ (args : List Arg) (vs : List Val), PureArgs e h args vs → fnOr e args h = (Spec.lor vs, h)
  | [], [], _ => by simp [fnOr, Spec.lor]
  | a :: as, v :: vs, hp => by
    have h1 := hp.1
    have ih := fnOr_spec e h as vs hp.2
    simp only [fnOr, bind_apply, h1]
    cases v <;> simp [Spec.lor, Spec.raise, ih]
    rename_i b
    cases b <;> simp [Spec.lor, ih]
  | [], _ :: _, hp => by simp [PureArgs] at hp
  | _ :: _, [], hp => by simp [PureArgs] at hp

theorem fnNot_spec (e : Arg → M Val) (h : Heap) (args : List Arg) (vs : List Val)
    (hp : PureArgs e h args vs) : fnNot e args h = (Spec.lnot vs, h) := by
  match args, vs, hp with
  | [], [], _ => simp [fnNot, Spec.lnot, Spec.raise]
  | [a], [v], hp =>
    have h1 := hp.1
    cases v <;> simp [fnNot, Spec.lnot, Spec.raise, h1]
  | a :: b :: r, v :: w :: vs, hp => simp [fnNot, Spec.lnot, Spec.raise]
  | [], _ :: _, hp => simp [PureArgs] at hp
  | _ :: _, [], hp => simp [PureArgs] at hp
  | [_], _ :: _ :: _, hp => simp [PureArgs] at hp
  | _ :: _ :: _, [_], hp => simp [PureArgs] at hp

/-! ## list nth size predicates at root -/

theorem mapM'_pure (e : Arg → M Val) (h : Heap) :
    ∀ (args : List Arg) (vs : List Val), PureArgs e h args vs → mapM' e args h = (.ok vs, h)
  | [], [], _ => by simp [mapM']
  | a :: as, v :: vs, hp => by
    simp [mapM', hp.1, mapM'_pure e h as vs hp.2]
  | [], _ :: _, hp => by simp [PureArgs] at hp
  | _ :: _, [], hp => by simp [PureArgs] at hp

theorem fnList_spec (e : Arg → M Val) (h : Heap) (args : List Arg) (vs : List Val)
    (hp : PureArgs e h args vs) : fnList e args h = Spec.list vs h := by
  simp [fnList, Spec.list, mapM'_pure e h args vs hp]

theorem fnNth_spec (e : Arg → M Val) (h : Heap) (args : List Arg) (vs : List Val)
    (hp : PureArgs e h args vs) : fnNth e args h = (Spec.nth h vs, h) := by
  match args, vs, hp with
  | [], [], _ => simp [fnNth, Spec.nth, Spec.raise]
  | [a], [v], hp => simp [fnNth, Spec.nth, Spec.raise]
  | [a, b], [v, w], hp =>
    have h1 := hp.1
    have h2 := hp.2.1
    cases v <;> cases w <;> simp [fnNth, Spec.nth, Spec.raise, h1, h2, asInt] <;> (split <;> simp_all)
  | a :: b :: c :: r, v :: w :: x :: vs, hp => simp [fnNth, Spec.nth, Spec.raise]
  | [], _ :: _, hp => simp [PureArgs] at hp
  | _ :: _, [], hp => simp [PureArgs] at hp
  | [_], _ :: _ :: _, hp => simp [PureArgs] at hp
  | _ :: _ :: _, [_], hp => simp [PureArgs] at hp
  | [_, _], _ :: _ :: _ :: _, hp => simp [PureArgs] at hp
  | _ :: _ :: _ :: _, [_, _], hp => simp [PureArgs] at hp

theorem fnSize_spec (e : Arg → M Val) (h : Heap) (args : List Arg) (vs : List Val)
    (hp : PureArgs e h args vs) : fnSize e args h = (Spec.size h vs, h) := by
  match args, vs, hp with
  | [], [], _ => simp [fnSize, Spec.size, Spec.raise]
  | [a], [v], hp =>
    have h1 := hp.1
    cases v <;> simp [fnSize, Spec.size, h1]
  | a :: b :: r, v :: w :: vs, hp => simp [fnSize, Spec.size, Spec.raise]
  | [], _ :: _, hp => simp [PureArgs] at hp
  | _ :: _, [], hp => simp [PureArgs] at hp
  | [_], _ :: _ :: _, hp => simp [PureArgs] at hp
  | _ :: _ :: _, [_], hp => simp [PureArgs] at hp

theorem fnPred_spec (p : Val → Bool) (e : Arg → M Val) (h : Heap) (args : List Arg) (vs : List Val)
    (hp : PureArgs e h args vs) : fnPred p e args h = (Spec.pred p vs, h) := by
  match args, vs, hp with
  | [], [], _ => simp [fnPred, Spec.pred, Spec.raise]
  | [a], [v], hp => simp [fnPred, Spec.pred, hp.1]
  | a :: b :: r, v :: w :: vs, hp => simp [fnPred, Spec.pred, Spec.raise]
  | [], _ :: _, hp => simp [PureArgs] at hp
  | _ :: _, [], hp => simp [PureArgs] at hp
  | [_], _ :: _ :: _, hp => simp [PureArgs] at hp
  | _ :: _ :: _, [_], hp => simp [PureArgs] at hp

theorem joinLoop_spec (e : Arg → M Val) (h : Heap) :
    ∀ (args : List Arg) (vs : List Val) (first : Bool) (acc : Bytes), PureArgs e h args vs →
      joinLoop e args first acc h = (Spec.joined vs first acc, h)
  | [], [], _, _, _ => by simp [joinLoop, Spec.joined]
  | a :: as, v :: vs, first, acc, hp => by
    have h1 := hp.1
    simp only [joinLoop, bind_apply, h1]
    cases v <;> simp [Spec.joined, Spec.raise]
    exact joinLoop_spec e h as vs _ _ hp.2
  | [], _ :: _, _, _, hp => by simp [PureArgs] at hp
  | _ :: _, [], _, _, hp => by simp [PureArgs] at hp

theorem fnPathOf_spec (isAt : Bool) (e : Arg → M Val) (h : Heap) (args : List Arg) (vs : List Val)
    (hp : PureArgs e h args vs) : fnPathOf isAt e args h = (Spec.pathOf isAt vs, h) := by
  simp only [fnPathOf, bind_apply, joinLoop_spec e h args vs true [] hp, Spec.pathOf]
  cases Spec.joined vs true [] with
  | error er => simp
  | ok b =>
    simp only []
    cases hp' : parseRel b <;> simp

/-! ## get getall set del -/

theorem fnGet_path (env : Env) (e : Arg → M Val) (root at_ : Val) (p : Path) (h : Heap) :
    fnGet env e root at_ [.path p] h = (Spec.get env h p (if p.isAt then at_ else root), h) := by
  simp only [fnGet, pathArg, bind_apply, pure_apply, getHeap_apply, liftE_apply, Spec.get]
  cases pathFirst env h (if p.isAt then at_ else root) p.frags <;> rfl

theorem fnGet_data (env : Env) (e : Arg → M Val) (root at_ : Val) (p : Path) (d : Arg) (data : Val) (h : Heap)
    (hd : e d h = (.ok data, h)) :
    fnGet env e root at_ [.path p, d] h = (Spec.get env h p data, h) := by
  simp only [fnGet, pathArg, bind_apply, pure_apply, getHeap_apply, liftE_apply, Spec.get, hd]
  cases pathFirst env h data p.frags <;> rfl

theorem fnGetall_path (env : Env) (e : Arg → M Val) (root at_ : Val) (p : Path) (h : Heap) :
    fnGetall env e root at_ [.path p] h = Spec.getall env p (if p.isAt then at_ else root) h := by
  simp only [fnGetall, pathArg, bind_apply, pure_apply, getHeap_apply, liftE_apply, Spec.getall]
  cases pathGet env h (if p.isAt then at_ else root) p.frags <;> rfl

theorem fnGetall_data (env : Env) (e : Arg → M Val) (root at_ : Val) (p : Path) (d : Arg) (data : Val) (h : Heap)
    (hd : e d h = (.ok data, h)) :
    fnGetall env e root at_ [.path p, d] h = Spec.getall env p data h := by
  simp only [fnGetall, pathArg, bind_apply, pure_apply, getHeap_apply, liftE_apply, Spec.getall, hd]
  cases pathGet env h data p.frags <;> rfl

theorem fnSet_path (e : Arg → M Val) (root at_ : Val) (p : Path) (b : Arg) (v : Val) (h : Heap)
    (hb : e b h = (.ok v, h)) :
    fnSet e root at_ [.path p, b] h = Spec.setOrDel (some v) p (if p.isAt then at_ else root) at_ h := by
  simp only [fnSet, pathArg, bind_apply, pure_apply, hb, setAt, Spec.setOrDel]
  by_cases hf : p.frags.isEmpty = true
  · simp [hf, Spec.raise]
  · simp [hf]
    cases hps : pathSet (some v) (if p.isAt then at_ else root) p.frags h with
    | mk r h' => cases r <;> simp

theorem fnDel_path (root at_ : Val) (p : Path) (h : Heap) :
    fnDel root at_ [.path p] h = Spec.setOrDel none p (if p.isAt then at_ else root) at_ h := by
  simp only [fnDel, bind_apply, pure_apply, setAt, Spec.setOrDel]
  by_cases hf : p.frags.isEmpty = true
  · simp [hf, Spec.raise]
  · simp [hf]
    cases hps : pathSet none (if p.isAt then at_ else root) p.frags h with
    | mk r h' => cases r <;> simp

/-! ## asm cond each -/

theorem fnAsm_spec (ev : Arg → Val → M Val) :
    ∀ (args : List Arg) (at_ : Val), fnAsm ev args at_ = Spec.asm (args.map (fun a => ev a)) at_
  | [], at_ => by simp [fnAsm, Spec.asm]
  | a :: r, at_ => by
    simp only [fnAsm, Spec.asm, List.map]
    congr 1
    funext v
    exact fnAsm_spec ev r v

/-- a `cond` argument as the specification sees it: the two computations of a two-element list -/
def condPair (dev : Dev) (e : Arg → M Val) : Arg → Option (M Val × M Val)
  | .raw _ [c, v] => some (evalValue dev e c, evalValue dev e v)
  | _ => none

theorem fnCond_spec (dev : Dev) (e : Arg → M Val) :
    ∀ (args : List Arg), (∀ a ∈ args, ∀ r, a ≠ .lit (.aref r)) →
      fnCond dev e args = Spec.cond (args.map (condPair dev e))
  | [], _ => by simp [fnCond, Spec.cond]
  | a :: r, hno => by
    have ih := fnCond_spec dev e r (fun x hx => hno x (List.mem_cons_of_mem _ hx))
    have ha := hno a (List.mem_cons_self ..)
    cases a with
    | raw l es =>
      match es with
      | [c, v] => simp [fnCond, Spec.cond, condPair, ih]
      | [] => simp [fnCond, Spec.cond, condPair]
      | [_] => simp [fnCond, Spec.cond, condPair]
      | _ :: _ :: _ :: _ => simp [fnCond, Spec.cond, condPair]
    | lit v =>
      cases v <;> simp [fnCond, Spec.cond, condPair]
      exact absurd rfl (ha _)
    | path p => simp [fnCond, Spec.cond, condPair]
    | call f as => simp [fnCond, Spec.cond, condPair]
    | unk => simp [fnCond, Spec.cond, condPair]

theorem eachLoop_spec (ev : Arg → Val → M Val) (fn : Arg) (key : Bytes) (a : Nat) :
    ∀ (n i : Nat) (acc : List Val) (h : Heap),
      eachLoop ev fn key a n i acc h =
        (match Spec.eachFrom (fun at' => ev fn at') key a n i h with
         | (.ok rs, h') => (.ok (acc.reverse ++ rs), h')
         | (.error er, h') => (.error er, h'))
  | 0, i, acc, h => by simp [eachLoop, Spec.eachFrom]
  | n + 1, i, acc, h => by
    simp only [eachLoop, Spec.eachFrom, bind_apply, getHeap_apply, alloc_apply, pure_apply]
    cases hb : ev fn (Val.mref h.length) (h ++ [Cell.map [(b!"src", (h.arrAt a).getD i Val.null)]]) with
    | mk r h1 =>
      cases r with
      | error er => simp
      | ok w =>
        simp only []
        rw [eachLoop_spec ev fn key a n (i + 1)]
        cases Spec.eachFrom (fun at' => ev fn at') key a n (i + 1) h1 with
        | mk r2 h2 => cases r2 <;> simp

theorem fnEach_spec (ev : Arg → Val → M Val) (at_ : Val) (a0 : Arg) (f : Bytes) (fargs : List Arg) (a : Nat) (h : Heap)
    (h0 : ev a0 at_ h = (.ok (.aref a), h)) :
    fnEach ev at_ [a0, .call f fargs] h = Spec.each (fun at' => ev (.call f fargs) at') b!"asm" a h := by
  simp only [fnEach, bind_apply, h0, pure_apply, getHeap_apply, Spec.each, eachLoop_spec]
  cases Spec.eachFrom (fun at' => ev (.call f fargs) at') b!"asm" a (h.arrAt a).length 0 h with
  | mk r h' => cases r <;> simp

theorem fnEach_key_spec (ev : Arg → Val → M Val) (at_ : Val) (a0 k : Arg) (f : Bytes) (fargs : List Arg) (a : Nat)
    (key : Bytes) (h : Heap)
    (h0 : ev a0 at_ h = (.ok (.aref a), h)) (hk : ev k at_ h = (.ok (.str key), h)) :
    fnEach ev at_ [a0, .call f fargs, k] h = Spec.each (fun at' => ev (.call f fargs) at') key a h := by
  simp only [fnEach, bind_apply, h0, hk, pure_apply, getHeap_apply, Spec.each, eachLoop_spec]
  cases Spec.eachFrom (fun at' => ev (.call f fargs) at') key a (h.arrAt a).length 0 h with
  | mk r h' => cases r <;> simp

end OjgVerif.Asm
