import OjgVerif.Asm.Lemmas
/-! Frame lemmas of the `asm` family: every modelled function other than the mutators only ever ADDS
cells to the heap (`Pres`), whatever its arguments are, as long as evaluating the arguments does. -/
namespace OjgVerif.Asm
open OjgVerif

/-! ## computations that only add cells to the heap -/

/-- `m` never changes an existing cell: the heap after is the heap before plus new cells -/
structure Pres (m : M α) : Prop where
  ext : ∀ h, ∃ t, (m h).2 = h ++ t

theorem Pres.pure (a : α) : Pres (pure a : M α) := ⟨fun h => ⟨[], by simp⟩⟩
theorem Pres.stop (s : Stop) : Pres (stop s : M α) := ⟨fun h => ⟨[], by simp⟩⟩
theorem Pres.liftE (e : Except Stop α) : Pres (liftE e) := ⟨fun h => ⟨[], by simp⟩⟩
theorem Pres.getHeap : Pres getHeap := ⟨fun h => ⟨[], by simp⟩⟩
theorem Pres.alloc (c : Cell) : Pres (alloc c) := ⟨fun h => ⟨[c], by simp⟩⟩

theorem Pres.bind {m : M α} {f : α → M β} (hm : Pres m) (hf : ∀ a, Pres (f a)) : Pres (m >>= f) := by
  constructor
  intro h
  obtain ⟨t1, h1⟩ := hm.ext h
  simp only [bind_apply]
  cases hmh : m h with
  | mk r h' =>
    rw [hmh] at h1
    simp only at h1
    subst h1
    cases r with
    | error e => exact ⟨t1, rfl⟩
    | ok a =>
      obtain ⟨t2, h2⟩ := (hf a).ext (h ++ t1)
      exact ⟨t1 ++ t2, by simp [h2]⟩

theorem Pres.ite {c : Prop} [Decidable c] {m1 m2 : M α} (h1 : Pres m1) (h2 : Pres m2) : Pres (if c then m1 else m2) := by
  split <;> assumption

/-- step through the monadic structure -/
macro "pres_step" : tactic =>
  `(tactic| first
    | exact Pres.pure _ | exact Pres.stop _ | exact Pres.liftE _ | exact Pres.getHeap | exact Pres.alloc _
    | assumption
    | apply Pres.bind
    | apply Pres.ite
    | intro _
    | split)

macro "pres" : tactic => `(tactic| repeat' pres_step)

theorem mem_tail {a : Arg} {r : List Arg} {P : Arg → Prop} (he : ∀ x ∈ a :: r, P x) : ∀ x ∈ r, P x :=
  fun x hx => he x (List.mem_cons_of_mem _ hx)

theorem sumLoop_pres (e : Arg → M Val) : ∀ (args : List Arg) (acc : SumAcc), (∀ a ∈ args, Pres (e a)) → Pres (sumLoop e acc args)
  | [], acc, _ => by simp only [sumLoop]; pres
  | a :: r, acc, he => by
    have h1 := he a (List.mem_cons_self ..)
    have ih := fun acc' => sumLoop_pres e r acc' (mem_tail he)
    simp only [sumLoop]
    pres
    all_goals exact ih _

theorem fnSum_pres (e : Arg → M Val) (args : List Arg) (he : ∀ a ∈ args, Pres (e a)) : Pres (fnSum e args) := by
  cases args with
  | nil => simp only [fnSum]; pres
  | cons a r =>
    have h1 := he a (List.mem_cons_self ..)
    simp only [fnSum]
    pres
    all_goals exact sumLoop_pres e r _ (mem_tail he)

theorem arithLoop_pres (dev : Dev) (op : ArithOp) (e : Arg → M Val) :
    ∀ (args : List Arg) (acc : NumAcc), (∀ a ∈ args, Pres (e a)) → Pres (arithLoop dev op e acc args)
  | [], acc, _ => by simp only [arithLoop]; pres
  | a :: r, acc, he => by
    have h1 := he a (List.mem_cons_self ..)
    have ih := fun acc' => arithLoop_pres dev op e r acc' (mem_tail he)
    simp only [arithLoop]
    pres
    all_goals exact ih _

theorem fnArith_pres (dev : Dev) (op : ArithOp) (e : Arg → M Val) (args : List Arg) (he : ∀ a ∈ args, Pres (e a)) :
    Pres (fnArith dev op e args) := by
  cases args with
  | nil => simp only [fnArith]; pres
  | cons a r =>
    have h1 := he a (List.mem_cons_self ..)
    simp only [fnArith]
    pres
    all_goals exact arithLoop_pres dev op e r _ (mem_tail he)

theorem fnMod_pres (e : Arg → M Val) (args : List Arg) (he : ∀ a ∈ args, Pres (e a)) : Pres (fnMod e args) := by
  match args with
  | [] => simp only [fnMod]; pres
  | [a] => simp only [fnMod]; pres
  | [a, b] =>
    have h1 := he a (by simp)
    have h2 := he b (by simp)
    simp only [fnMod]
    pres
  | _ :: _ :: _ :: _ => simp only [fnMod]; pres

theorem cmpNumLoop_pres (dev : Dev) (op : CmpOp) (e : Arg → M Val) :
    ∀ (args : List Arg) (x : Flt), (∀ a ∈ args, Pres (e a)) → Pres (cmpNumLoop dev op e x args)
  | [], x, _ => by simp only [cmpNumLoop]; pres
  | a :: r, x, he => by
    have h1 := he a (List.mem_cons_self ..)
    have ih := fun x' => cmpNumLoop_pres dev op e r x' (mem_tail he)
    simp only [cmpNumLoop]
    pres
    all_goals exact ih _

theorem cmpStrLoop_pres (op : CmpOp) (e : Arg → M Val) :
    ∀ (args : List Arg) (x : Bytes), (∀ a ∈ args, Pres (e a)) → Pres (cmpStrLoop op e x args)
  | [], x, _ => by simp only [cmpStrLoop]; pres
  | a :: r, x, he => by
    have h1 := he a (List.mem_cons_self ..)
    have ih := fun x' => cmpStrLoop_pres op e r x' (mem_tail he)
    simp only [cmpStrLoop]
    pres
    all_goals exact ih _

theorem fnCmp_pres (dev : Dev) (op : CmpOp) (e : Arg → M Val) (args : List Arg) (he : ∀ a ∈ args, Pres (e a)) :
    Pres (fnCmp dev op e args) := by
  cases args with
  | nil => simp only [fnCmp]; pres
  | cons a r =>
    have h1 := he a (List.mem_cons_self ..)
    have hn := fun x => cmpNumLoop_pres dev op e r x (mem_tail he)
    have hs := fun x => cmpStrLoop_pres op e r x (mem_tail he)
    simp only [fnCmp, cmpHead]
    pres
    all_goals first | exact hn _ | exact hs _

theorem equalM_pres (dev : Dev) (v0 v1 : Val) : Pres (equalM dev v0 v1) := by
  constructor
  intro h
  refine ⟨[], ?_⟩
  simp only [equalM]
  split <;> simp

theorem eqLoop_pres (dev : Dev) (e : Arg → M Val) (v0 : Val) :
    ∀ (args : List Arg), (∀ a ∈ args, Pres (e a)) → Pres (eqLoop dev e v0 args)
  | [], _ => by simp only [eqLoop]; pres
  | a :: r, he => by
    have h1 := he a (List.mem_cons_self ..)
    have ih := eqLoop_pres dev e v0 r (mem_tail he)
    have hq := equalM_pres dev v0
    simp only [eqLoop]
    pres
    all_goals exact hq _

theorem fnEqual_pres (dev : Dev) (e : Arg → M Val) (args : List Arg) (he : ∀ a ∈ args, Pres (e a)) :
    Pres (fnEqual dev e args) := by
  cases args with
  | nil => simp only [fnEqual]; pres
  | cons a r =>
    have h1 := he a (List.mem_cons_self ..)
    simp only [fnEqual]
    pres
    all_goals exact eqLoop_pres dev e _ r (mem_tail he)

theorem fnAnd_pres (e : Arg → M Val) : ∀ (args : List Arg), (∀ a ∈ args, Pres (e a)) → Pres (fnAnd e args)
  | [], _ => by simp only [fnAnd]; pres
  | a :: r, he => by
    have h1 := he a (List.mem_cons_self ..)
    have ih := fnAnd_pres e r (mem_tail he)
    simp only [fnAnd]
    pres

theorem fnOr_pres (e : Arg → M Val) : ∀ (args : List Arg), (∀ a ∈ args, Pres (e a)) → Pres (fnOr e args)
  | [], _ => by simp only [fnOr]; pres
  | a :: r, he => by
    have h1 := he a (List.mem_cons_self ..)
    have ih := fnOr_pres e r (mem_tail he)
    simp only [fnOr]
    pres

theorem fnNot_pres (e : Arg → M Val) (args : List Arg) (he : ∀ a ∈ args, Pres (e a)) : Pres (fnNot e args) := by
  match args with
  | [] => simp only [fnNot]; pres
  | [a] =>
    have h1 := he a (by simp)
    simp only [fnNot]
    pres
  | _ :: _ :: _ => simp only [fnNot]; pres

theorem mapM'_pres {β : Type} (f : α → M β) : ∀ (xs : List α), (∀ x ∈ xs, Pres (f x)) → Pres (mapM' f xs)
  | [], _ => by simp only [mapM']; pres
  | a :: r, he => by
    have h1 := he a (List.mem_cons_self ..)
    have ih := mapM'_pres f r (fun x hx => he x (List.mem_cons_of_mem _ hx))
    simp only [mapM']
    pres

theorem evalValue_pres (dev : Dev) (e : Arg → M Val) (a : Arg) (ha : Pres (e a)) : Pres (evalValue dev e a) := by
  unfold evalValue
  pres

/-- the sub-plans a `cond` evaluates inside one argument -/
def condKids : Arg → List Arg
  | .raw _ es => es
  | _ => []

theorem fnCond_pres (dev : Dev) (e : Arg → M Val) :
    ∀ (args : List Arg), (∀ a ∈ args, ∀ c ∈ condKids a, Pres (e c)) → Pres (fnCond dev e args)
  | [], _ => by simp only [fnCond]; pres
  | a :: r, he => by
    have ih := fnCond_pres dev e r (fun x hx => he x (List.mem_cons_of_mem _ hx))
    have ha := he a (List.mem_cons_self ..)
    cases a with
    | raw l es =>
      match es with
      | [c, v] =>
        have hc := evalValue_pres dev e c (ha c (by simp [condKids]))
        have hv := evalValue_pres dev e v (ha v (by simp [condKids]))
        simp only [fnCond]
        pres
      | [] => simp only [fnCond]; pres
      | [_] => simp only [fnCond]; pres
      | _ :: _ :: _ :: _ => simp only [fnCond]; pres
    | lit v => cases v <;> (simp only [fnCond]; pres)
    | path p => simp only [fnCond]; pres
    | call f as => simp only [fnCond]; pres
    | unk => simp only [fnCond]; pres

theorem pathArg_pres (e : Arg → M Val) (a : Arg) (ha : Pres (e a)) : Pres (pathArg e a) := by
  unfold pathArg
  pres

theorem fnGet_pres (env : Env) (e : Arg → M Val) (root at_ : Val) (args : List Arg) (he : ∀ a ∈ args, Pres (e a)) :
    Pres (fnGet env e root at_ args) := by
  match args with
  | [] => simp only [fnGet]; pres
  | [a] =>
    have h1 := pathArg_pres e a (he a (by simp))
    simp only [fnGet]
    pres
  | [a, d] =>
    have h1 := pathArg_pres e a (he a (by simp))
    have h2 := he d (by simp)
    simp only [fnGet]
    pres
  | _ :: _ :: _ :: _ => simp only [fnGet]; pres

theorem fnGetall_pres (env : Env) (e : Arg → M Val) (root at_ : Val) (args : List Arg) (he : ∀ a ∈ args, Pres (e a)) :
    Pres (fnGetall env e root at_ args) := by
  match args with
  | [] => simp only [fnGetall]; pres
  | [a] =>
    have h1 := pathArg_pres e a (he a (by simp))
    simp only [fnGetall]
    pres
  | [a, d] =>
    have h1 := pathArg_pres e a (he a (by simp))
    have h2 := he d (by simp)
    simp only [fnGetall]
    pres
  | _ :: _ :: _ :: _ => simp only [fnGetall]; pres

theorem eachLoop_pres (ev : Arg → Val → M Val) (fn : Arg) (key : Bytes) (a : Nat) (hfn : ∀ at_, Pres (ev fn at_)) :
    ∀ (n i : Nat) (acc : List Val), Pres (eachLoop ev fn key a n i acc)
  | 0, i, acc => by simp only [eachLoop]; pres
  | n + 1, i, acc => by
    have ih := fun i' acc' => eachLoop_pres ev fn key a hfn n i' acc'
    simp only [eachLoop]
    pres
    all_goals first | exact hfn _ | exact ih _ _

theorem fnEach_pres (ev : Arg → Val → M Val) (at_ : Val) (args : List Arg) (he : ∀ a ∈ args, ∀ at', Pres (ev a at')) :
    Pres (fnEach ev at_ args) := by
  match args with
  | [] => simp only [fnEach]; pres
  | [_] => simp only [fnEach]; pres
  | [a0, fn] =>
    have h0 := he a0 (by simp) at_
    have hl := eachLoop_pres ev fn
    have hfn := he fn (by simp)
    simp only [fnEach]
    pres
    all_goals exact hl _ _ hfn _ _ _
  | [a0, fn, k] =>
    have h0 := he a0 (by simp) at_
    have hk := he k (by simp) at_
    have hl := eachLoop_pres ev fn
    have hfn := he fn (by simp)
    simp only [fnEach]
    pres
    all_goals exact hl _ _ hfn _ _ _
  | _ :: _ :: _ :: _ :: _ => simp only [fnEach]; pres

theorem joinLoop_pres (e : Arg → M Val) :
    ∀ (args : List Arg) (first : Bool) (acc : Bytes), (∀ a ∈ args, Pres (e a)) → Pres (joinLoop e args first acc)
  | [], _, _, _ => by simp only [joinLoop]; pres
  | a :: r, first, acc, he => by
    have h1 := he a (List.mem_cons_self ..)
    have ih := fun f' acc' => joinLoop_pres e r f' acc' (mem_tail he)
    simp only [joinLoop]
    pres
    all_goals exact ih _ _

theorem fnPathOf_pres (isAt : Bool) (e : Arg → M Val) (args : List Arg) (he : ∀ a ∈ args, Pres (e a)) :
    Pres (fnPathOf isAt e args) := by
  have hj := joinLoop_pres e args true [] he
  simp only [fnPathOf]
  pres

theorem fnAsm_pres (ev : Arg → Val → M Val) :
    ∀ (args : List Arg) (at_ : Val), (∀ a ∈ args, ∀ at', Pres (ev a at')) → Pres (fnAsm ev args at_)
  | [], _, _ => by simp only [fnAsm]; pres
  | a :: r, at_, he => by
    have h1 := he a (List.mem_cons_self ..) at_
    have ih := fun v => fnAsm_pres ev r v (mem_tail he)
    simp only [fnAsm]
    pres
    all_goals exact ih _

theorem copyVal_pres : ∀ (n : Nat) (v : Val), Pres (copyVal n v)
  | 0, v => by simp only [copyVal]; pres
  | n + 1, v => by
    have ih := copyVal_pres n
    cases v <;> simp only [copyVal]
    all_goals first
      | exact Pres.pure _
      | (have hm := fun xs => mapM'_pres (copyVal n) xs (fun x _ => ih x)
         pres
         all_goals first | exact hm _ | skip)
    all_goals (apply mapM'_pres; intro kv _; have := ih kv.2; pres)

theorem evalLit_pres (dev : Dev) (v : Val) : Pres (evalLit dev v) := by
  have hc := fun n => copyVal_pres n v
  unfold evalLit
  pres
  all_goals exact hc _

theorem fnQuote_pres (args : List Arg) : Pres (fnQuote args) := by
  unfold fnQuote
  pres

theorem fnList_pres (e : Arg → M Val) (args : List Arg) (he : ∀ a ∈ args, Pres (e a)) : Pres (fnList e args) := by
  have hm := mapM'_pres e args he
  unfold fnList
  pres

theorem fnNth_pres (e : Arg → M Val) (args : List Arg) (he : ∀ a ∈ args, Pres (e a)) : Pres (fnNth e args) := by
  match args with
  | [] => simp only [fnNth]; pres
  | [a] => simp only [fnNth]; pres
  | [a, b] =>
    have h1 := he a (by simp)
    have h2 := he b (by simp)
    simp only [fnNth]
    pres
  | _ :: _ :: _ :: _ => simp only [fnNth]; pres

theorem fnSize_pres (e : Arg → M Val) (args : List Arg) (he : ∀ a ∈ args, Pres (e a)) : Pres (fnSize e args) := by
  match args with
  | [] => simp only [fnSize]; pres
  | [a] =>
    have h1 := he a (by simp)
    simp only [fnSize]
    pres
  | _ :: _ :: _ => simp only [fnSize]; pres

theorem fnPred_pres (p : Val → Bool) (e : Arg → M Val) (args : List Arg) (he : ∀ a ∈ args, Pres (e a)) :
    Pres (fnPred p e args) := by
  match args with
  | [] => simp only [fnPred]; pres
  | [a] =>
    have h1 := he a (by simp)
    simp only [fnPred]
    pres
  | _ :: _ :: _ => simp only [fnPred]; pres


/-! ### text, conversion and list functions -/

theorem wantLoop_pres (e : Arg → M Val) :
    ∀ (args : List Arg) (ws : List Want) (acc : List Tree), (∀ a ∈ args, Pres (e a)) → Pres (wantLoop e args ws acc)
  | [], _, _, _ => by simp only [wantLoop]; pres
  | _ :: _, [], _, _ => by simp only [wantLoop]; pres
  | a :: r, w :: ws, acc, he => by
    have h1 := he a (List.mem_cons_self ..)
    have ih := fun acc' => wantLoop_pres e r ws acc' (mem_tail he)
    simp only [wantLoop]
    pres
    all_goals exact ih _

theorem retTree_pres (t : Tree) : Pres (retTree t) := by
  cases t <;> simp only [retTree] <;> pres

theorem swapArgs_mem {P : Arg → Prop} {b : Bool} {args : List Arg} (he : ∀ a ∈ args, P a) :
    ∀ a ∈ (if b = true then args.reverse else args), P a := by
  intro a ha
  split at ha
  · exact he a (by simpa using ha)
  · exact he a ha

theorem fnScalar_pres (g : ScalarFn) (e : Arg → M Val) (args : List Arg) (he : ∀ a ∈ args, Pres (e a)) :
    Pres (fnScalar g e args) := by
  have hw := wantLoop_pres e _ (g.wants args.length) [] (swapArgs_mem (b := g.swap) he)
  have hr := retTree_pres
  unfold fnScalar
  pres
  all_goals exact hr _

theorem fnReverse_pres (e : Arg → M Val) (args : List Arg) (he : ∀ a ∈ args, Pres (e a)) : Pres (fnReverse e args) := by
  match args with
  | [] => simp only [fnReverse]; pres
  | [a] =>
    have h1 := he a (by simp)
    simp only [fnReverse]
    pres
  | _ :: _ :: _ => simp only [fnReverse]; pres

theorem fnAppend_pres (e : Arg → M Val) (args : List Arg) (he : ∀ a ∈ args, Pres (e a)) : Pres (fnAppend e args) := by
  match args with
  | [] => simp only [fnAppend]; pres
  | [_] => simp only [fnAppend]; pres
  | [a, b] =>
    have h1 := he a (by simp)
    have h2 := he b (by simp)
    simp only [fnAppend]
    pres
  | _ :: _ :: _ :: _ => simp only [fnAppend]; pres

theorem fnInclude_pres (e : Arg → M Val) (args : List Arg) (he : ∀ a ∈ args, Pres (e a)) : Pres (fnInclude e args) := by
  match args with
  | [] => simp only [fnInclude]; pres
  | [_] => simp only [fnInclude]; pres
  | [a, b] =>
    have h1 := he a (by simp)
    have h2 := he b (by simp)
    simp only [fnInclude]
    pres
  | _ :: _ :: _ :: _ => simp only [fnInclude]; pres

/-- `sort` only allocates: the array it is given is not touched (the copy is the documented behaviour) -/
theorem fnSort_pres (env : Env) (e : Arg → M Val) (args : List Arg) (he : ∀ a ∈ args, Pres (e a)) : Pres (fnSort env e args) := by
  match args with
  | [] => simp only [fnSort]; pres
  | [_] => simp only [fnSort]; pres
  | [a, b] =>
    have h1 := he a (by simp)
    simp only [fnSort]
    pres
  | _ :: _ :: _ :: _ => simp only [fnSort]; pres

/-- the functions documented to modify the data their path argument names -/
def mutatorFns : List Bytes := [b!"set", b!"setall", b!"del", b!"delall"]

theorem lookupKind_mem {f : Bytes} {k : FnKind} : ∀ {t : List (Bytes × FnKind)}, lookupKind t f = some k → (f, k) ∈ t
  | [], h => by simp [lookupKind] at h
  | (n, k') :: r, h => by
    simp only [lookupKind] at h
    by_cases hf : f = n
    · simp [hf] at h
      simp [hf, h]
    · simp [hf] at h
      exact List.mem_cons_of_mem _ (lookupKind_mem h)

theorem fnKind_set {f : Bytes} (h : fnKind f = some .set) : f ∈ mutatorFns := by
  have hm := lookupKind_mem h
  simp [fnTable] at hm
  rcases hm with hm | hm <;> simp [hm, mutatorFns]

theorem fnKind_del {f : Bytes} (h : fnKind f = some .del) : f ∈ mutatorFns := by
  have hm := lookupKind_mem h
  simp [fnTable] at hm
  rcases hm with hm | hm <;> simp [hm, mutatorFns]

/-- no call of a mutator anywhere in the plan (the elements of list literals included: `cond` evaluates them) -/
inductive NoMut : Arg → Prop where
  | lit (v : Val) : NoMut (.lit v)
  | raw (v : Val) (es : List Arg) : (∀ e ∈ es, NoMut e) → NoMut (.raw v es)
  | path (p : Path) : NoMut (.path p)
  | call (f : Bytes) (args : List Arg) : f ∉ mutatorFns → (∀ a ∈ args, NoMut a) → NoMut (.call f args)
  | unk : NoMut .unk

theorem evalFn_pres (env : Env) (ev : Arg → Val → M Val) (root at_ : Val) (f : Bytes) (args : List Arg)
    (hf : f ∉ mutatorFns) (hev : ∀ a, NoMut a → ∀ at', Pres (ev a at')) (hargs : ∀ a ∈ args, NoMut a) :
    Pres (evalFn env ev root at_ f args) := by
  have he : ∀ a ∈ args, Pres (ev a at_) := fun a ha => hev a (hargs a ha) at_
  have he' : ∀ a ∈ args, ∀ at', Pres (ev a at') := fun a ha => hev a (hargs a ha)
  have hk : ∀ a ∈ args, ∀ c ∈ condKids a, Pres (ev c at_) := by
    intro a ha c hc
    have hn := hargs a ha
    cases a <;> simp [condKids] at hc
    cases hn with
    | raw _ _ hes => exact hev c (hes c hc) at_
  unfold evalFn
  cases hkf : fnKind f with
  | none => exact Pres.stop _
  | some k =>
    simp only []
    cases k <;> simp only [evalKind]
    case sum => exact fnSum_pres _ _ he
    case arith op => exact fnArith_pres _ _ _ _ he
    case mod => exact fnMod_pres _ _ he
    case cmp op => exact fnCmp_pres _ _ _ _ he
    case equal => exact Pres.bind (fnEqual_pres _ _ _ he) (fun _ => Pres.pure _)
    case neq => exact Pres.bind (fnEqual_pres _ _ _ he) (fun _ => Pres.pure _)
    case and => exact fnAnd_pres _ _ he
    case or => exact fnOr_pres _ _ he
    case not => exact fnNot_pres _ _ he
    case cond => exact fnCond_pres _ _ _ hk
    case get => exact fnGet_pres _ _ _ _ _ he
    case getall => exact fnGetall_pres _ _ _ _ _ he
    case set => exact absurd (fnKind_set hkf) hf
    case del => exact absurd (fnKind_del hkf) hf
    case each => exact fnEach_pres _ _ _ he'
    case pathOf isAt => exact fnPathOf_pres _ _ _ he
    case asm => exact fnAsm_pres _ _ _ he'
    case quote => exact Pres.bind (fnQuote_pres _) (fun _ => evalLit_pres _ _)
    case list => exact fnList_pres _ _ he
    case nth => exact fnNth_pres _ _ he
    case size => exact fnSize_pres _ _ he
    case pred p => exact fnPred_pres _ _ _ he
    case scalar g => exact fnScalar_pres _ _ _ he
    case reverse => exact fnReverse_pres _ _ he
    case append => exact fnAppend_pres _ _ he
    case incl => exact fnInclude_pres _ _ he
    case sort => exact fnSort_pres _ _ _ he

theorem eval_pres (env : Env) (root : Val) : ∀ (n : Nat) (a : Arg), NoMut a → ∀ at_, Pres (eval env root n a at_)
  | n, .lit v, _, at_ => by simp only [eval]; exact evalLit_pres _ _
  | n, .raw v es, _, at_ => by simp only [eval]; exact evalLit_pres _ _
  | n, .path p, _, at_ => by simp only [eval]; pres
  | n, .unk, _, at_ => by simp only [eval]; pres
  | 0, .call f args, _, at_ => by simp only [eval]; pres
  | n + 1, .call f args, hn, at_ => by
    simp only [eval]
    cases hn with
    | call _ _ hf hargs => exact evalFn_pres env _ root at_ f args hf (fun a ha at' => eval_pres env root n a ha at') hargs

/-! ## a mutator changes at most one existing cell -/

theorem getElem?_set_ne' {h : Heap} {a i : Nat} {c : Cell} (hne : i ≠ a) : (h.set a c)[i]? = h[i]? := by
  simp [Ne.symm hne]

/-- cell `b` was just created by jp's set: an empty map or an array of nils -/
def FreshAt (h : Heap) (b : Nat) : Prop :=
  h[b]? = some (Cell.map []) ∨ ∃ n, h[b]? = some (Cell.arr (List.replicate n Val.null))

theorem mapAt_of_get {h : Heap} {b : Nat} {kvs} (hb : h[b]? = some (Cell.map kvs)) : h.mapAt b = kvs := by
  simp [Heap.mapAt, hb]

theorem arrAt_of_get {h : Heap} {b : Nat} {xs} (hb : h[b]? = some (Cell.arr xs)) : h.arrAt b = xs := by
  simp [Heap.arrAt, hb]

/-- writing below a fresh cell touches no cell before it -/
theorem pathSet_fresh (value : Option Val) : ∀ (fs : List Frag) (h : Heap) (b : Nat) (cur : Val),
    (cur = .mref b ∨ cur = .aref b) → FreshAt h b → b < h.length →
    ∀ i, i < b → (pathSet value cur fs h).2[i]? = h[i]?
  | [], h, b, cur, _, _, _, i, _ => by simp [pathSet]
  | f :: rest, h, b, cur, hcur, hfresh, hlen, i, hi => by
    have hne : i ≠ b := by omega
    rcases hcur with hc | hc <;> subst hc
    · -- a map reference
      cases f with
      | wild => simp [pathSet]
      | nth j =>
        cases rest with
        | nil => simp [pathSet]
        | cons g r => simp [pathSet]
      | child k =>
        cases rest with
        | nil =>
          simp only [pathSet]
          cases value <;> simp [getElem?_set_ne' hne]
        | cons g r =>
          rcases hfresh with hm | ⟨n, ha⟩
          · have hmap := mapAt_of_get hm
            simp only [pathSet, hmap, kvGet]
            cases value with
            | none => simp
            | some v =>
              simp only [show ¬ h.length ≤ b by omega, if_false]
              cases g with
              | wild => simp
              | child k2 =>
                simp only
                apply (pathSet_fresh (some v) (Frag.child k2 :: r) _ h.length (.mref h.length) (Or.inl rfl) ?_ ?_ i (by omega)).trans
                · rw [getElem?_set_ne' hne, List.getElem?_append_left (by omega)]
                · left
                  rw [getElem?_set_ne' (by omega)]
                  simp
                · simp
              | nth j =>
                simp only
                by_cases hj : j < 0
                · simp [hj]
                · simp only [hj, if_false]
                  apply (pathSet_fresh (some v) (Frag.nth j :: r) _ h.length (.aref h.length) (Or.inr rfl) ?_ ?_ i (by omega)).trans
                  · rw [getElem?_set_ne' hne, List.getElem?_append_left (by omega)]
                  · right
                    refine ⟨j.toNat + 1, ?_⟩
                    rw [getElem?_set_ne' (by omega)]
                    simp
                  · simp
          · have : h.mapAt b = [] := by simp [Heap.mapAt, ha]
            simp only [pathSet, this, kvGet]
            cases value with
            | none => simp
            | some v =>
              simp only [show ¬ h.length ≤ b by omega, if_false]
              cases g with
              | wild => simp
              | child k2 =>
                simp only
                apply (pathSet_fresh (some v) (Frag.child k2 :: r) _ h.length (.mref h.length) (Or.inl rfl) ?_ ?_ i (by omega)).trans
                · rw [getElem?_set_ne' hne, List.getElem?_append_left (by omega)]
                · left
                  rw [getElem?_set_ne' (by omega)]
                  simp
                · simp
              | nth j =>
                simp only
                by_cases hj : j < 0
                · simp [hj]
                · simp only [hj, if_false]
                  apply (pathSet_fresh (some v) (Frag.nth j :: r) _ h.length (.aref h.length) (Or.inr rfl) ?_ ?_ i (by omega)).trans
                  · rw [getElem?_set_ne' hne, List.getElem?_append_left (by omega)]
                  · right
                    refine ⟨j.toNat + 1, ?_⟩
                    rw [getElem?_set_ne' (by omega)]
                    simp
                  · simp
    · -- an array reference
      cases f with
      | wild => simp [pathSet]
      | child k =>
        cases rest with
        | nil => simp [pathSet]
        | cons g r => simp [pathSet]
      | nth j =>
        cases rest with
        | nil =>
          simp only [pathSet]
          cases normIdx j (h.arrAt b).length <;> simp [getElem?_set_ne' hne]
        | cons g r =>
          simp only [pathSet]
          cases hn : normIdx j (h.arrAt b).length with
          | none => simp
          | some jj =>
            simp only
            have hscalar : ((h.arrAt b).getD jj Val.null).isScalar = true := by
              rcases hfresh with hm | ⟨n, ha⟩
              · simp [Heap.arrAt, hm, Val.isScalar]
              · simp [arrAt_of_get ha, List.getD, Val.isScalar]
                cases hx : (List.replicate n Val.null)[jj]? with
                | none => simp
                | some x =>
                  have := List.mem_replicate.mp (List.mem_of_getElem? hx)
                  simp [this.2]
            simp only [List.getD_eq_getElem?_getD] at hscalar ⊢
            simp [hscalar]

/-- jp's set along a simple path changes at most ONE cell that existed before: the container the last
fragment names an element of (or, when the path has to be created, the container that receives the
first new element); everything else it writes is new -/
theorem pathSet_one_cell (value : Option Val) : ∀ (fs : List Frag) (cur : Val) (h : Heap),
    ∃ a, ∀ i, i < h.length → i ≠ a → (pathSet value cur fs h).2[i]? = h[i]?
  | [], cur, h => ⟨0, by simp [pathSet]⟩
  | f :: rest, cur, h => by
    cases cur with
    | null => refine ⟨0, ?_⟩; cases f <;> cases rest <;> simp [pathSet]
    | bool b => refine ⟨0, ?_⟩; cases f <;> cases rest <;> simp [pathSet]
    | int n => refine ⟨0, ?_⟩; cases f <;> cases rest <;> simp [pathSet]
    | flt x => refine ⟨0, ?_⟩; cases f <;> cases rest <;> simp [pathSet]
    | str s => refine ⟨0, ?_⟩; cases f <;> cases rest <;> simp [pathSet]
    | path p => refine ⟨0, ?_⟩; cases f <;> cases rest <;> simp [pathSet]
    | aref a =>
      cases f with
      | wild => exact ⟨0, by simp [pathSet]⟩
      | child k => refine ⟨0, ?_⟩; cases rest <;> simp [pathSet]
      | nth j =>
        cases rest with
        | nil =>
          refine ⟨a, ?_⟩
          intro i _ hne
          simp only [pathSet]
          cases normIdx j (h.arrAt a).length <;> simp [getElem?_set_ne' hne]
        | cons g r =>
          simp only [pathSet]
          cases hn : normIdx j (h.arrAt a).length with
          | none => exact ⟨0, by simp⟩
          | some jj =>
            simp only
            by_cases hs : ((h.arrAt a).getD jj Val.null).isScalar = true
            · simp only [hs, if_true]
              exact ⟨0, by simp⟩
            · simp only [hs]
              exact pathSet_one_cell value (g :: r) _ h
    | mref a =>
      cases f with
      | wild => exact ⟨0, by simp [pathSet]⟩
      | nth j => refine ⟨0, ?_⟩; cases rest <;> simp [pathSet]
      | child k =>
        cases rest with
        | nil =>
          refine ⟨a, ?_⟩
          intro i _ hne
          simp only [pathSet]
          cases value <;> simp [getElem?_set_ne' hne]
        | cons g r =>
          simp only [pathSet]
          cases hk : kvGet k (h.mapAt a) with
          | some c =>
            simp only
            by_cases hs : c.isScalar = true
            · simp only [hs, if_true]
              exact ⟨0, by simp⟩
            · simp only [hs]
              exact pathSet_one_cell value (g :: r) c h
          | none =>
            simp only
            cases value with
            | none => exact ⟨0, by simp⟩
            | some v =>
              simp only
              by_cases hal : h.length ≤ a
              · simp only [hal, if_true]
                exact ⟨0, by simp⟩
              · simp only [hal, if_false]
                cases g with
                | wild => exact ⟨0, by simp⟩
                | child k2 =>
                  refine ⟨a, ?_⟩
                  intro i hi hne
                  simp only
                  apply (pathSet_fresh (some v) (Frag.child k2 :: r) _ h.length (.mref h.length) (Or.inl rfl) ?_ ?_ i hi).trans
                  · rw [getElem?_set_ne' hne, List.getElem?_append_left hi]
                  · left
                    rw [getElem?_set_ne' (by omega)]
                    simp
                  · simp
                | nth j =>
                  simp only
                  by_cases hj : j < 0
                  · simp only [hj, if_true]
                    exact ⟨0, by simp⟩
                  · simp only [hj, if_false]
                    refine ⟨a, ?_⟩
                    intro i hi hne
                    apply (pathSet_fresh (some v) (Frag.nth j :: r) _ h.length (.aref h.length) (Or.inr rfl) ?_ ?_ i hi).trans
                    · rw [getElem?_set_ne' hne, List.getElem?_append_left hi]
                    · right
                      refine ⟨j.toNat + 1, ?_⟩
                      rw [getElem?_set_ne' (by omega)]
                      simp
                    · simp

end OjgVerif.Asm
