import OjgVerif.Common.Driver
import OjgVerif.Asm.Model
import OjgVerif.Asm.Spec
/-! Driver ops of the `asm` family (line protocol, see `Common/Driver.lean`).

Trees travel as text: `n t f I(<int>) F(<+|-><mant>p<exp>) F(+inf) F(-inf) F(nan) S(<hex>) [a,b]
{K(<hex>)v,…}`; the model's answers also use `P(<hex of path text>)` (a jp.Expr value stored in the
data) and `C` (a reference back to a container that is being printed: cyclic data).

* `run <dev> <n> <plan> <root>` — NewPlan, then `n` (1 or 2) executions of the SAME plan on fresh
  copies of the root: `<outcome> <root after>` per run, joined by `;` (before each execution the heap
  layout assumed by `rerun_general`/`execute_total` is checked: `layout` if it does not hold; a run that ends `diverge`,
  `unmodelled`, `enum` or `fuel` ends the answer). `<dev>`: `cur` (`Dev.current`), `-` (`Dev.none`)
  or a subset of the letters `c d n l f a` (`cmpUneval divZeroInf condListNil litAlias cmpFloat
  condListAlias`).
* `simp <plan>` — `Fn.Simplify` of the compiled plan (tree level), `unmodelled` outside the model
* `fns` — the modelled and the unmodelled function names (hex, comma separated, `;` between the lists)
* `spec <fn hex> <dev> <args>` — the documented result of one function on literal arguments (`<args>`
  is an array tree): `ok <value>`, `err`, `unmodelled` -/
namespace OjgVerif.Asm
open OjgVerif

/-! ## reading trees -/

def spanClose : List Char → List Char → Option (List Char × List Char)
  | [], _ => none
  | c :: r, acc => if c = ')' then some (acc.reverse, r) else spanClose r (c :: acc)

def readInt (cs : List Char) : Option Int :=
  match cs with
  | '-' :: r => (String.ofList r).toNat?.map (fun n => - (n : Int))
  | '+' :: r => (String.ofList r).toNat?.map (fun n => (n : Int))
  | _ => (String.ofList cs).toNat?.map (fun n => (n : Int))

def readFlt (cs : List Char) : Option Flt :=
  let s := String.ofList cs
  if s = "+inf" then some (.inf false)
  else if s = "-inf" then some (.inf true)
  else if s = "nan" then some .nan
  else
    match cs with
    | sg :: r =>
      if sg ≠ '+' && sg ≠ '-' then none
      else match (String.ofList r).splitOn "p" with
        | [m, e] =>
          match m.toNat?, readInt e.toList with
          | some mm, some ee => some (.fin (sg = '-') mm ee)
          | _, _ => none
        | _ => none
    | [] => none

def pElems (p : List Char → Option (Tree × List Char)) : Nat → List Char → List Tree → Option (List Tree × List Char)
  | 0, _, _ => none
  | n + 1, cs, acc =>
    match p cs with
    | none => none
    | some (v, ',' :: r) => pElems p n r (v :: acc)
    | some (v, ']' :: r) => some ((v :: acc).reverse, r)
    | some _ => none

def pMembers (p : List Char → Option (Tree × List Char)) : Nat → List Char → List (Bytes × Tree) → Option (List (Bytes × Tree) × List Char)
  | 0, _, _ => none
  | n + 1, cs, acc =>
    match cs with
    | 'K' :: '(' :: r =>
      match spanClose r [] with
      | none => none
      | some (hx, r2) =>
        match ofHex (String.ofList hx), p r2 with
        | some k, some (v, ',' :: r3) => pMembers p n r3 ((k, v) :: acc)
        | some k, some (v, '}' :: r3) => some (((k, v) :: acc).reverse, r3)
        | _, _ => none
    | _ => none

def pTree : Nat → List Char → Option (Tree × List Char)
  | 0, _ => none
  | n + 1, cs =>
    match cs with
    | 'n' :: r => some (.null, r)
    | 't' :: r => some (.bool true, r)
    | 'f' :: r => some (.bool false, r)
    | '[' :: ']' :: r => some (.arr [], r)
    | '[' :: r => (pElems (pTree n) cs.length r []).map (fun (xs, r2) => (.arr xs, r2))
    | '{' :: '}' :: r => some (.obj [], r)
    | '{' :: r => (pMembers (pTree n) cs.length r []).map (fun (m, r2) => (.obj m, r2))
    | c :: '(' :: r =>
      match spanClose r [] with
      | none => none
      | some (body, r2) =>
        if c = 'I' then (readInt body).map (fun i => (.int i, r2))
        else if c = 'F' then (readFlt body).map (fun f => (.flt f, r2))
        else if c = 'S' then (ofHex (String.ofList body)).map (fun t => (.str t, r2))
        else none
    | _ => none

def readTree (s : String) : Option Tree :=
  match pTree (s.length + 1) s.toList with
  | some (v, []) => some v
  | _ => none

/-! ## writing -/

def fltText : Flt → String
  | .nan => "F(nan)"
  | .inf false => "F(+inf)"
  | .inf true => "F(-inf)"
  | .fin neg m e => "F(" ++ (if neg then "-" else "+") ++ toString m ++ "p" ++ toString e ++ ")"

def renderVal (h : Heap) : Nat → List Nat → Val → String
  | 0, _, _ => "C"
  | _ + 1, _, .null => "n"
  | _ + 1, _, .bool true => "t"
  | _ + 1, _, .bool false => "f"
  | _ + 1, _, .int i => "I(" ++ toString i ++ ")"
  | _ + 1, _, .flt f => fltText f
  | _ + 1, _, .str s => "S(" ++ toHexF s ++ ")"
  | _ + 1, _, .path p => "P(" ++ toHexF (pathText p) ++ ")"
  | n + 1, on, .aref a =>
    if on.contains a then "C"
    else "[" ++ String.intercalate "," ((h.arrAt a).map (renderVal h n (a :: on))) ++ "]"
  | n + 1, on, .mref a =>
    if on.contains a then "C"
    else
      let ms := (h.mapAt a).foldl (fun acc kv => insertSorted kv.1 (renderVal h n (a :: on) kv.2) acc) []
      "{" ++ String.intercalate "," (ms.map fun (k, v) => "K(" ++ toHexF k ++ ")" ++ v) ++ "}"

def renderRoot (h : Heap) (v : Val) : String := renderVal h (h.length + 2) [] v

def renderTree : Nat → Tree → String
  | 0, _ => "?"
  | _ + 1, .null => "n"
  | _ + 1, .bool true => "t"
  | _ + 1, .bool false => "f"
  | _ + 1, .int i => "I(" ++ toString i ++ ")"
  | _ + 1, .flt f => fltText f
  | _ + 1, .str s => "S(" ++ toHexF s ++ ")"
  | n + 1, .arr xs => "[" ++ String.intercalate "," (xs.map (renderTree n)) ++ "]"
  | n + 1, .obj kvs =>
    let ms := kvs.foldl (fun acc kv => insertSorted kv.1 (renderTree n kv.2) acc) []
    "{" ++ String.intercalate "," (ms.map fun (k, v) => "K(" ++ toHexF k ++ ")" ++ v) ++ "}"

def Outcome.text : Outcome → String
  | .ok => "ok" | .err => "err" | .panic => "panic" | .diverge => "diverge"
  | .unmodelled => "unmodelled" | .enum => "enum" | .fuel => "fuel"

def readDev (s : String) : Option Dev :=
  if s = "cur" then some Dev.current
  else if s = "-" then some Dev.none
  else if s.toList.all (fun c => c = 'c' || c = 'd' || c = 'n' || c = 'l' || c = 'f' || c = 'a') then
    some ⟨s.contains 'c', s.contains 'd', s.contains 'n', s.contains 'l', s.contains 'f', s.contains 'a'⟩
  else none

def treeDepth : Nat → Tree → Nat
  | 0, _ => 0
  | n + 1, .arr xs => 1 + (xs.map (treeDepth n)).foldl max 0
  | n + 1, .obj kvs => 1 + (kvs.map (fun kv => treeDepth n kv.2)).foldl max 0
  | _ + 1, _ => 1

/-- NewPlan + `n` executions on fresh copies of `root` -/
def runPlan (dev : Dev) (n : Nat) (planT rootT : Tree) : String :=
  match planT with
  | .arr xs =>
    let fuel := 200
    let env : Env := { dev := dev, ord := none }
    -- the plan is loaded once: its literals live in the heap across the runs
    let (pl, h0) : Except Stop (Option Arg) × Heap :=
      match newPlan fuel xs with
      | none => (.ok none, [])
      | some a =>
        match loadArg fuel a [] with
        | (.ok a', h) => (.ok (some a'), h)
        | (.error e, h) => (.error e, h)
    match pl with
    | .error _ => "bad-op"
    | .ok plan =>
      let rec go : Nat → Heap → List String → List String
        | 0, _, acc => acc.reverse
        | k + 1, h, acc =>
          match loadTree fuel rootT h with
          | (.error _, _) => ("fuel" :: acc).reverse
          | (.ok root, h1) =>
            -- the layout the general theorems assume (plan cells = the cells loaded for the plan)
            if !layoutOK h0.length h1 root plan then ("layout" :: acc).reverse else
            let (o, h2) := execute env true fuel plan root h1
            let line := o.text ++ " " ++ renderRoot h2 root
            match o with
            | .ok => go k h2 (line :: acc)
            | .err => go k h2 (line :: acc)
            | _ => (o.text :: acc).reverse
      String.intercalate ";" (go n h0 [])
  | _ => "bad-op"

/-- the documented result of one function on literal arguments -/
def specText (dev : Dev) (f : Bytes) (xs : List Tree) : String :=
  match mapM' (loadTree 200) xs [] with
  | (.error _, _) => "bad-op"
  | (.ok vs, h) =>
    match Spec.describe dev f vs h with
    | (.ok v, h') => "ok " ++ renderRoot h' v
    | (.error .panic, _) => "err"
    | (.error .diverge, _) => "diverge"
    | (.error .unmodelled, _) => "unmodelled"
    | (.error .enum, _) => "enum"
    | (.error .fuel, _) => "fuel"

def handle : List String → String
  | ["run", devS, nS, planS, rootS] =>
    match readDev devS, nS.toNat?, readTree planS, readTree rootS with
    | some dev, some n, some p, some r => if n = 0 || n > 2 then "bad-op" else runPlan dev n p r
    | _, _, _, _ => "bad-op"
  | ["simp", planS] =>
    match readTree planS with
    | some (.arr xs) =>
      match newPlan 200 xs with
      | none => "nil"
      | some a =>
        if a.hasUnk 200 then "unmodelled"
        else if !pathsRoundTrip 201 a then "paths-do-not-round-trip"
        else renderTree 400 (simplify 201 a)
    | _ => "bad-op"
  | ["fns"] => String.intercalate "," (modelledFns.map toHexF) ++ ";" ++ String.intercalate "," (unmodelledFns.map toHexF)
  | ["spec", fnS, devS, argsS] =>
    match ofHex fnS, readDev devS, readTree argsS with
    | some f, some dev, some (.arr xs) => specText dev f xs
    | _, _, _ => "bad-op"
  | _ => "bad-op"

end OjgVerif.Asm
