import OjgVerif.Asm.LemmasFrame
/-! Order lemmas of the `asm` family: a run that never asks for a map iteration order (`ord = none`
and no `enum` stop) is reproduced exactly under every order (`Sim`). -/
namespace OjgVerif.Asm
open OjgVerif

/-! ## independence of the map iteration order -/

/-- `m2` does what `m1` does wherever `m1` does not stop for want of a map order -/
structure Sim (m1 m2 : M α) : Prop where
  same : ∀ h, (m1 h).1 ≠ .error .enum → m2 h = m1 h

theorem Sim.refl (m : M α) : Sim m m := ⟨fun _ _ => rfl⟩

theorem Sim.bind {m1 m2 : M α} {f1 f2 : α → M β} (hm : Sim m1 m2) (hf : ∀ a, Sim (f1 a) (f2 a)) :
    Sim (m1 >>= f1) (m2 >>= f2) := by
  constructor
  intro h hne
  simp only [bind_apply] at hne ⊢
  cases hmh : m1 h with
  | mk r h' =>
    rw [hmh] at hne
    cases r with
    | error e =>
      simp only at hne
      have := hm.same h (by rw [hmh]; simpa using hne)
      rw [this, hmh]
    | ok a =>
      simp only at hne
      have := hm.same h (by rw [hmh]; simp)
      rw [this, hmh]
      exact (hf a).same h' hne

theorem Sim.ite {c : Prop} [Decidable c] {m1 m2 n1 n2 : M α} (h1 : Sim m1 m2) (h2 : Sim n1 n2) :
    Sim (if c then m1 else n1) (if c then m2 else n2) := by
  split <;> assumption

theorem Sim.liftE {e1 e2 : Except Stop α} (h : e1 ≠ .error .enum → e2 = e1) : Sim (liftE e1) (liftE e2) := by
  constructor
  intro hp hne
  simp only [liftE_apply] at hne ⊢
  rw [h hne]

macro "sim_step" : tactic =>
  `(tactic| first
    | exact Sim.refl _
    | assumption
    | apply Sim.bind
    | apply Sim.ite
    | intro _
    | split)

macro "sim" : tactic => `(tactic| repeat' sim_step)

theorem pathFirst_sim (dev : Dev) (o : MapOrd) (h : Heap) :
    ∀ (fs : List Frag) (v : Val), pathFirst ⟨dev, none⟩ h v fs ≠ .error .enum →
      pathFirst ⟨dev, some o⟩ h v fs = pathFirst ⟨dev, none⟩ h v fs
  | [], v, _ => by simp [pathFirst]
  | f :: rest, v, hne => by
    have ih := pathFirst_sim dev o h rest
    cases v <;> cases f <;> simp only [pathFirst] at hne ⊢
    all_goals first
      | rfl
      | (split <;> first
          | rfl
          | (rename_i heq; apply ih; simp only [heq] at hne; exact hne)
          | (split <;> simp_all))

theorem pathGet_sim (dev : Dev) (o : MapOrd) (h : Heap) :
    ∀ (fs : List Frag) (v : Val), pathGet ⟨dev, none⟩ h v fs ≠ .error .enum →
      pathGet ⟨dev, some o⟩ h v fs = pathGet ⟨dev, none⟩ h v fs
  | [], v, _ => by simp [pathGet]
  | f :: rest, v, hne => by
    have ih := pathGet_sim dev o h rest
    cases v <;> cases f <;> simp only [pathGet] at hne ⊢
    all_goals first
      | rfl
      | (split <;> first
          | rfl
          | (rename_i heq; apply ih; simp only [heq] at hne; exact hne)
          | (split <;> simp_all))

theorem mem_tail2 {a : Arg} {r : List Arg} {P : Arg → Prop} (he : ∀ x ∈ a :: r, P x) : ∀ x ∈ r, P x :=
  fun x hx => he x (List.mem_cons_of_mem _ hx)

variable (e1 e2 : Arg → M Val)

theorem sumLoop_sim : ∀ (args : List Arg) (acc : SumAcc), (∀ a ∈ args, Sim (e1 a) (e2 a)) →
    Sim (sumLoop e1 acc args) (sumLoop e2 acc args)
  | [], acc, _ => by simp only [sumLoop]; sim
  | a :: r, acc, he => by
    have h1 := he a (List.mem_cons_self ..)
    have ih := fun acc' => sumLoop_sim r acc' (mem_tail2 he)
    simp only [sumLoop]
    sim
    all_goals exact ih _

theorem fnSum_sim (args : List Arg) (he : ∀ a ∈ args, Sim (e1 a) (e2 a)) : Sim (fnSum e1 args) (fnSum e2 args) := by
  cases args with
  | nil => simp only [fnSum]; sim
  | cons a r =>
    have h1 := he a (List.mem_cons_self ..)
    simp only [fnSum]
    sim
    all_goals exact sumLoop_sim e1 e2 r _ (mem_tail2 he)

theorem arithLoop_sim (dev : Dev) (op : ArithOp) : ∀ (args : List Arg) (acc : NumAcc), (∀ a ∈ args, Sim (e1 a) (e2 a)) →
    Sim (arithLoop dev op e1 acc args) (arithLoop dev op e2 acc args)
  | [], acc, _ => by simp only [arithLoop]; sim
  | a :: r, acc, he => by
    have h1 := he a (List.mem_cons_self ..)
    have ih := fun acc' => arithLoop_sim dev op r acc' (mem_tail2 he)
    simp only [arithLoop]
    sim
    all_goals exact ih _

theorem fnArith_sim (dev : Dev) (op : ArithOp) (args : List Arg) (he : ∀ a ∈ args, Sim (e1 a) (e2 a)) :
    Sim (fnArith dev op e1 args) (fnArith dev op e2 args) := by
  cases args with
  | nil => simp only [fnArith]; sim
  | cons a r =>
    have h1 := he a (List.mem_cons_self ..)
    simp only [fnArith]
    sim
    all_goals exact arithLoop_sim e1 e2 dev op r _ (mem_tail2 he)

theorem fnMod_sim (args : List Arg) (he : ∀ a ∈ args, Sim (e1 a) (e2 a)) : Sim (fnMod e1 args) (fnMod e2 args) := by
  match args with
  | [] => simp only [fnMod]; sim
  | [a] => simp only [fnMod]; sim
  | [a, b] =>
    have h1 := he a (by simp)
    have h2 := he b (by simp)
    simp only [fnMod]
    sim
  | _ :: _ :: _ :: _ => simp only [fnMod]; sim

theorem cmpNumLoop_sim (dev : Dev) (op : CmpOp) : ∀ (args : List Arg) (x : Flt), (∀ a ∈ args, Sim (e1 a) (e2 a)) →
    Sim (cmpNumLoop dev op e1 x args) (cmpNumLoop dev op e2 x args)
  | [], x, _ => by simp only [cmpNumLoop]; sim
  | a :: r, x, he => by
    have h1 := he a (List.mem_cons_self ..)
    have ih := fun x' => cmpNumLoop_sim dev op r x' (mem_tail2 he)
    simp only [cmpNumLoop]
    sim
    all_goals exact ih _

theorem cmpStrLoop_sim (op : CmpOp) : ∀ (args : List Arg) (x : Bytes), (∀ a ∈ args, Sim (e1 a) (e2 a)) →
    Sim (cmpStrLoop op e1 x args) (cmpStrLoop op e2 x args)
  | [], x, _ => by simp only [cmpStrLoop]; sim
  | a :: r, x, he => by
    have h1 := he a (List.mem_cons_self ..)
    have ih := fun x' => cmpStrLoop_sim op r x' (mem_tail2 he)
    simp only [cmpStrLoop]
    sim
    all_goals exact ih _

theorem fnCmp_sim (dev : Dev) (op : CmpOp) (args : List Arg) (he : ∀ a ∈ args, Sim (e1 a) (e2 a)) :
    Sim (fnCmp dev op e1 args) (fnCmp dev op e2 args) := by
  cases args with
  | nil => simp only [fnCmp]; sim
  | cons a r =>
    have h1 := he a (List.mem_cons_self ..)
    have hn := fun x => cmpNumLoop_sim e1 e2 dev op r x (mem_tail2 he)
    have hs := fun x => cmpStrLoop_sim e1 e2 op r x (mem_tail2 he)
    simp only [fnCmp, cmpHead]
    sim
    all_goals first | exact hn _ | exact hs _

theorem eqLoop_sim (dev : Dev) (v0 : Val) : ∀ (args : List Arg), (∀ a ∈ args, Sim (e1 a) (e2 a)) →
    Sim (eqLoop dev e1 v0 args) (eqLoop dev e2 v0 args)
  | [], _ => by simp only [eqLoop]; sim
  | a :: r, he => by
    have h1 := he a (List.mem_cons_self ..)
    have ih := eqLoop_sim dev v0 r (mem_tail2 he)
    simp only [eqLoop]
    sim

theorem fnEqual_sim (dev : Dev) (args : List Arg) (he : ∀ a ∈ args, Sim (e1 a) (e2 a)) :
    Sim (fnEqual dev e1 args) (fnEqual dev e2 args) := by
  cases args with
  | nil => simp only [fnEqual]; sim
  | cons a r =>
    have h1 := he a (List.mem_cons_self ..)
    simp only [fnEqual]
    sim
    all_goals exact eqLoop_sim e1 e2 dev _ r (mem_tail2 he)

theorem fnAnd_sim : ∀ (args : List Arg), (∀ a ∈ args, Sim (e1 a) (e2 a)) → Sim (fnAnd e1 args) (fnAnd e2 args)
  | [], _ => by simp only [fnAnd]; sim
  | a :: r, he => by
    have h1 := he a (List.mem_cons_self ..)
    have ih := fnAnd_sim r (mem_tail2 he)
    simp only [fnAnd]
    sim

theorem fnOr_sim : ∀ (args : List Arg), (∀ a ∈ args, Sim (e1 a) (e2 a)) → Sim (fnOr e1 args) (fnOr e2 args)
  | [], _ => by simp only [fnOr]; sim
  | a :: r, he => by
    have h1 := he a (List.mem_cons_self ..)
    have ih := fnOr_sim r (mem_tail2 he)
    simp only [fnOr]
    sim

theorem fnNot_sim (args : List Arg) (he : ∀ a ∈ args, Sim (e1 a) (e2 a)) : Sim (fnNot e1 args) (fnNot e2 args) := by
  match args with
  | [] => simp only [fnNot]; sim
  | [a] =>
    have h1 := he a (by simp)
    simp only [fnNot]
    sim
  | _ :: _ :: _ => simp only [fnNot]; sim

theorem mapM'_sim {β : Type} (f1 f2 : α → M β) : ∀ (xs : List α), (∀ x ∈ xs, Sim (f1 x) (f2 x)) →
    Sim (mapM' f1 xs) (mapM' f2 xs)
  | [], _ => by simp only [mapM']; sim
  | a :: r, he => by
    have h1 := he a (List.mem_cons_self ..)
    have ih := mapM'_sim f1 f2 r (fun x hx => he x (List.mem_cons_of_mem _ hx))
    simp only [mapM']
    sim

theorem evalValue_sim (dev : Dev) (a : Arg) (ha : Sim (e1 a) (e2 a)) : Sim (evalValue dev e1 a) (evalValue dev e2 a) := by
  unfold evalValue
  sim

theorem fnCond_sim (dev : Dev) :
    ∀ (args : List Arg), (∀ a ∈ args, ∀ c ∈ condKids a, Sim (e1 c) (e2 c)) → Sim (fnCond dev e1 args) (fnCond dev e2 args)
  | [], _ => by simp only [fnCond]; sim
  | a :: r, he => by
    have ih := fnCond_sim dev r (fun x hx => he x (List.mem_cons_of_mem _ hx))
    have ha := he a (List.mem_cons_self ..)
    cases a with
    | raw l es =>
      match es with
      | [c, v] =>
        have hc := evalValue_sim e1 e2 dev c (ha c (by simp [condKids]))
        have hv := evalValue_sim e1 e2 dev v (ha v (by simp [condKids]))
        simp only [fnCond]
        sim
      | [] => simp only [fnCond]; sim
      | [_] => simp only [fnCond]; sim
      | _ :: _ :: _ :: _ => simp only [fnCond]; sim
    | lit v => cases v <;> (simp only [fnCond]; sim)
    | path p => simp only [fnCond]; sim
    | call f as => simp only [fnCond]; sim
    | unk => simp only [fnCond]; sim

theorem pathArg_sim (a : Arg) (ha : Sim (e1 a) (e2 a)) : Sim (pathArg e1 a) (pathArg e2 a) := by
  unfold pathArg
  sim

theorem liftFirst_sim (dev : Dev) (o : MapOrd) (h : Heap) (v : Val) (fs : List Frag) :
    Sim (liftE (pathFirst ⟨dev, none⟩ h v fs)) (liftE (pathFirst ⟨dev, some o⟩ h v fs)) :=
  Sim.liftE (pathFirst_sim dev o h fs v)

theorem liftGet_sim (dev : Dev) (o : MapOrd) (h : Heap) (v : Val) (fs : List Frag) :
    Sim (liftE (pathGet ⟨dev, none⟩ h v fs)) (liftE (pathGet ⟨dev, some o⟩ h v fs)) :=
  Sim.liftE (pathGet_sim dev o h fs v)

theorem fnGet_sim (dev : Dev) (o : MapOrd) (root at_ : Val) (args : List Arg) (he : ∀ a ∈ args, Sim (e1 a) (e2 a)) :
    Sim (fnGet ⟨dev, none⟩ e1 root at_ args) (fnGet ⟨dev, some o⟩ e2 root at_ args) := by
  have hl := liftFirst_sim dev o
  match args with
  | [] => simp only [fnGet]; sim
  | [a] =>
    have h1 := pathArg_sim e1 e2 a (he a (by simp))
    simp only [fnGet]
    sim
    all_goals exact hl _ _ _
  | [a, d] =>
    have h1 := pathArg_sim e1 e2 a (he a (by simp))
    have h2 := he d (by simp)
    simp only [fnGet]
    sim
    all_goals exact hl _ _ _
  | _ :: _ :: _ :: _ => simp only [fnGet]; sim

theorem fnGetall_sim (dev : Dev) (o : MapOrd) (root at_ : Val) (args : List Arg) (he : ∀ a ∈ args, Sim (e1 a) (e2 a)) :
    Sim (fnGetall ⟨dev, none⟩ e1 root at_ args) (fnGetall ⟨dev, some o⟩ e2 root at_ args) := by
  have hl := liftGet_sim dev o
  match args with
  | [] => simp only [fnGetall]; sim
  | [a] =>
    have h1 := pathArg_sim e1 e2 a (he a (by simp))
    simp only [fnGetall]
    sim
    all_goals exact hl _ _ _
  | [a, d] =>
    have h1 := pathArg_sim e1 e2 a (he a (by simp))
    have h2 := he d (by simp)
    simp only [fnGetall]
    sim
    all_goals exact hl _ _ _
  | _ :: _ :: _ :: _ => simp only [fnGetall]; sim

theorem fnSet_sim (root at_ : Val) (args : List Arg) (he : ∀ a ∈ args, Sim (e1 a) (e2 a)) :
    Sim (fnSet e1 root at_ args) (fnSet e2 root at_ args) := by
  match args with
  | [] => simp only [fnSet]; sim
  | [_] => simp only [fnSet]; sim
  | [a, b] =>
    have h1 := pathArg_sim e1 e2 a (he a (by simp))
    have h2 := he b (by simp)
    simp only [fnSet]
    sim
  | _ :: _ :: _ :: _ => simp only [fnSet]; sim

theorem joinLoop_sim : ∀ (args : List Arg) (first : Bool) (acc : Bytes), (∀ a ∈ args, Sim (e1 a) (e2 a)) →
    Sim (joinLoop e1 args first acc) (joinLoop e2 args first acc)
  | [], _, _, _ => by simp only [joinLoop]; sim
  | a :: r, first, acc, he => by
    have h1 := he a (List.mem_cons_self ..)
    have ih := fun f' acc' => joinLoop_sim r f' acc' (mem_tail2 he)
    simp only [joinLoop]
    sim
    all_goals exact ih _ _

theorem fnPathOf_sim (isAt : Bool) (args : List Arg) (he : ∀ a ∈ args, Sim (e1 a) (e2 a)) :
    Sim (fnPathOf isAt e1 args) (fnPathOf isAt e2 args) := by
  have hj := joinLoop_sim e1 e2 args true [] he
  simp only [fnPathOf]
  sim

theorem fnList_sim (args : List Arg) (he : ∀ a ∈ args, Sim (e1 a) (e2 a)) : Sim (fnList e1 args) (fnList e2 args) := by
  have hm := mapM'_sim e1 e2 args he
  unfold fnList
  sim

theorem fnNth_sim (args : List Arg) (he : ∀ a ∈ args, Sim (e1 a) (e2 a)) : Sim (fnNth e1 args) (fnNth e2 args) := by
  match args with
  | [] => simp only [fnNth]; sim
  | [a] => simp only [fnNth]; sim
  | [a, b] =>
    have h1 := he a (by simp)
    have h2 := he b (by simp)
    simp only [fnNth]
    sim
  | _ :: _ :: _ :: _ => simp only [fnNth]; sim

theorem fnSize_sim (args : List Arg) (he : ∀ a ∈ args, Sim (e1 a) (e2 a)) : Sim (fnSize e1 args) (fnSize e2 args) := by
  match args with
  | [] => simp only [fnSize]; sim
  | [a] =>
    have h1 := he a (by simp)
    simp only [fnSize]
    sim
  | _ :: _ :: _ => simp only [fnSize]; sim

theorem fnPred_sim (p : Val → Bool) (args : List Arg) (he : ∀ a ∈ args, Sim (e1 a) (e2 a)) :
    Sim (fnPred p e1 args) (fnPred p e2 args) := by
  match args with
  | [] => simp only [fnPred]; sim
  | [a] =>
    have h1 := he a (by simp)
    simp only [fnPred]
    sim
  | _ :: _ :: _ => simp only [fnPred]; sim

variable (ev1 ev2 : Arg → Val → M Val)


/-! ### text, conversion and list functions -/

theorem wantLoop_sim : ∀ (args : List Arg) (ws : List Want) (acc : List Tree), (∀ a ∈ args, Sim (e1 a) (e2 a)) →
    Sim (wantLoop e1 args ws acc) (wantLoop e2 args ws acc)
  | [], _, _, _ => by simp only [wantLoop]; sim
  | _ :: _, [], _, _ => by simp only [wantLoop]; sim
  | a :: r, w :: ws, acc, he => by
    have h1 := he a (List.mem_cons_self ..)
    have ih := fun acc' => wantLoop_sim r ws acc' (mem_tail2 he)
    simp only [wantLoop]
    sim
    all_goals exact ih _

theorem fnScalar_sim (g : ScalarFn) (args : List Arg) (he : ∀ a ∈ args, Sim (e1 a) (e2 a)) :
    Sim (fnScalar g e1 args) (fnScalar g e2 args) := by
  have hw := wantLoop_sim e1 e2 _ (g.wants args.length) [] (swapArgs_mem (b := g.swap) he)
  unfold fnScalar
  sim

theorem fnReverse_sim (args : List Arg) (he : ∀ a ∈ args, Sim (e1 a) (e2 a)) : Sim (fnReverse e1 args) (fnReverse e2 args) := by
  match args with
  | [] => simp only [fnReverse]; sim
  | [a] =>
    have h1 := he a (by simp)
    simp only [fnReverse]
    sim
  | _ :: _ :: _ => simp only [fnReverse]; sim

theorem fnAppend_sim (args : List Arg) (he : ∀ a ∈ args, Sim (e1 a) (e2 a)) : Sim (fnAppend e1 args) (fnAppend e2 args) := by
  match args with
  | [] => simp only [fnAppend]; sim
  | [_] => simp only [fnAppend]; sim
  | [a, b] =>
    have h1 := he a (by simp)
    have h2 := he b (by simp)
    simp only [fnAppend]
    sim
  | _ :: _ :: _ :: _ => simp only [fnAppend]; sim

theorem fnInclude_sim (args : List Arg) (he : ∀ a ∈ args, Sim (e1 a) (e2 a)) : Sim (fnInclude e1 args) (fnInclude e2 args) := by
  match args with
  | [] => simp only [fnInclude]; sim
  | [_] => simp only [fnInclude]; sim
  | [a, b] =>
    have h1 := he a (by simp)
    have h2 := he b (by simp)
    simp only [fnInclude]
    sim
  | _ :: _ :: _ :: _ => simp only [fnInclude]; sim

theorem sortKeys_sim (dev : Dev) (o : MapOrd) (h : Heap) (fs : List Frag) :
    ∀ (xs : List Val), sortKeys ⟨dev, none⟩ h fs xs ≠ .error .enum →
      sortKeys ⟨dev, some o⟩ h fs xs = sortKeys ⟨dev, none⟩ h fs xs
  | [], _ => by simp [sortKeys]
  | x :: r, hne => by
    simp only [sortKeys] at hne ⊢
    have hp : pathFirst ⟨dev, none⟩ h x fs ≠ .error .enum := by
      intro hc; rw [hc] at hne; exact hne rfl
    rw [pathFirst_sim dev o h fs x hp]
    cases hpf : pathFirst ⟨dev, none⟩ h x fs with
    | error e => rfl
    | ok k =>
      rw [hpf] at hne
      simp only at hne ⊢
      rw [sortKeys_sim dev o h fs r (by intro hc; rw [hc] at hne; exact hne rfl)]

theorem sortList_sim (dev : Dev) (o : MapOrd) (h : Heap) (fs : List Frag) (xs : List Val)
    (hne : sortList ⟨dev, none⟩ h fs xs ≠ .error .enum) :
    sortList ⟨dev, some o⟩ h fs xs = sortList ⟨dev, none⟩ h fs xs := by
  unfold sortList at hne ⊢
  split
  · rfl
  · rename_i hlen
    simp only [hlen, if_false] at hne
    rw [sortKeys_sim dev o h fs xs (by intro hc; rw [hc] at hne; exact hne rfl)]

theorem fnSort_sim (dev : Dev) (o : MapOrd) (args : List Arg) (he : ∀ a ∈ args, Sim (e1 a) (e2 a)) :
    Sim (fnSort ⟨dev, none⟩ e1 args) (fnSort ⟨dev, some o⟩ e2 args) := by
  match args with
  | [] => simp only [fnSort]; sim
  | [_] => simp only [fnSort]; sim
  | [a, b] =>
    have h1 := he a (by simp)
    have hl : ∀ h fs xs, Sim (liftE (sortList ⟨dev, none⟩ h fs xs)) (liftE (sortList ⟨dev, some o⟩ h fs xs)) :=
      fun h fs xs => Sim.liftE (sortList_sim dev o h fs xs)
    simp only [fnSort]
    sim
    all_goals exact hl _ _ _
  | _ :: _ :: _ :: _ => simp only [fnSort]; sim

theorem eachLoop_sim (fn : Arg) (key : Bytes) (a : Nat) (hfn : ∀ at_, Sim (ev1 fn at_) (ev2 fn at_)) :
    ∀ (n i : Nat) (acc : List Val), Sim (eachLoop ev1 fn key a n i acc) (eachLoop ev2 fn key a n i acc)
  | 0, i, acc => by simp only [eachLoop]; sim
  | n + 1, i, acc => by
    have ih := fun i' acc' => eachLoop_sim fn key a hfn n i' acc'
    simp only [eachLoop]
    sim
    all_goals first | exact hfn _ | exact ih _ _

theorem fnEach_sim (at_ : Val) (args : List Arg) (he : ∀ a ∈ args, ∀ at', Sim (ev1 a at') (ev2 a at')) :
    Sim (fnEach ev1 at_ args) (fnEach ev2 at_ args) := by
  match args with
  | [] => simp only [fnEach]; sim
  | [_] => simp only [fnEach]; sim
  | [a0, fn] =>
    have h0 := he a0 (by simp) at_
    have hl := eachLoop_sim ev1 ev2 fn
    have hfn := he fn (by simp)
    simp only [fnEach]
    sim
    all_goals exact hl _ _ hfn _ _ _
  | [a0, fn, k] =>
    have h0 := he a0 (by simp) at_
    have hk := he k (by simp) at_
    have hl := eachLoop_sim ev1 ev2 fn
    have hfn := he fn (by simp)
    simp only [fnEach]
    sim
    all_goals exact hl _ _ hfn _ _ _
  | _ :: _ :: _ :: _ :: _ => simp only [fnEach]; sim

theorem fnAsm_sim : ∀ (args : List Arg) (at_ : Val), (∀ a ∈ args, ∀ at', Sim (ev1 a at') (ev2 a at')) →
    Sim (fnAsm ev1 args at_) (fnAsm ev2 args at_)
  | [], _, _ => by simp only [fnAsm]; sim
  | a :: r, at_, he => by
    have h1 := he a (List.mem_cons_self ..) at_
    have ih := fun v => fnAsm_sim r v (mem_tail2 he)
    simp only [fnAsm]
    sim
    all_goals exact ih _

/-- every argument the function may evaluate, the elements of list literals included -/
def subArgs : List Arg → List Arg
  | [] => []
  | a :: r => a :: (condKids a ++ subArgs r)

theorem mem_subArgs_self {a : Arg} : ∀ {args : List Arg}, a ∈ args → a ∈ subArgs args
  | _ :: r, h => by
    simp only [subArgs, List.mem_cons, List.mem_append]
    rcases List.mem_cons.mp h with h | h
    · exact Or.inl h
    · exact Or.inr (Or.inr (mem_subArgs_self h))

theorem mem_subArgs_kid {a c : Arg} : ∀ {args : List Arg}, a ∈ args → c ∈ condKids a → c ∈ subArgs args
  | _ :: r, h, hc => by
    simp only [subArgs, List.mem_cons, List.mem_append]
    rcases List.mem_cons.mp h with h | h
    · subst h; exact Or.inr (Or.inl hc)
    · exact Or.inr (Or.inr (mem_subArgs_kid h hc))

theorem evalFn_sim (dev : Dev) (o : MapOrd) (root at_ : Val) (f : Bytes) (args : List Arg)
    (hev : ∀ a ∈ subArgs args, ∀ at', Sim (ev1 a at') (ev2 a at')) :
    Sim (evalFn ⟨dev, none⟩ ev1 root at_ f args) (evalFn ⟨dev, some o⟩ ev2 root at_ f args) := by
  have he' : ∀ a ∈ args, ∀ at', Sim (ev1 a at') (ev2 a at') := fun a ha => hev a (mem_subArgs_self ha)
  have he : ∀ a ∈ args, Sim (ev1 a at_) (ev2 a at_) := fun a ha => he' a ha at_
  have hk : ∀ a ∈ args, ∀ c ∈ condKids a, Sim (ev1 c at_) (ev2 c at_) :=
    fun a ha c hc => hev c (mem_subArgs_kid ha hc) at_
  unfold evalFn
  cases hkf : fnKind f with
  | none => exact Sim.refl _
  | some k =>
    simp only []
    cases k <;> simp only [evalKind]
    case sum => exact fnSum_sim _ _ _ he
    case arith op => exact fnArith_sim _ _ _ _ _ he
    case mod => exact fnMod_sim _ _ _ he
    case cmp op => exact fnCmp_sim _ _ _ _ _ he
    case equal => exact Sim.bind (fnEqual_sim _ _ _ _ he) (fun _ => Sim.refl _)
    case neq => exact Sim.bind (fnEqual_sim _ _ _ _ he) (fun _ => Sim.refl _)
    case and => exact fnAnd_sim _ _ _ he
    case or => exact fnOr_sim _ _ _ he
    case not => exact fnNot_sim _ _ _ he
    case cond => exact fnCond_sim _ _ _ _ hk
    case get => exact fnGet_sim _ _ _ _ _ _ _ he
    case getall => exact fnGetall_sim _ _ _ _ _ _ _ he
    case set => exact fnSet_sim _ _ _ _ _ he
    case del => exact Sim.refl _
    case each => exact fnEach_sim _ _ _ _ he'
    case pathOf isAt => exact fnPathOf_sim _ _ _ _ he
    case asm => exact fnAsm_sim _ _ _ _ he'
    case quote => exact Sim.refl _
    case list => exact fnList_sim _ _ _ he
    case nth => exact fnNth_sim _ _ _ he
    case size => exact fnSize_sim _ _ _ he
    case pred p => exact fnPred_sim _ _ _ _ he
    case scalar g => exact fnScalar_sim _ _ _ _ he
    case reverse => exact fnReverse_sim _ _ _ he
    case append => exact fnAppend_sim _ _ _ he
    case incl => exact fnInclude_sim _ _ _ he
    case sort => exact fnSort_sim _ _ _ _ _ he

theorem eval_sim (dev : Dev) (o : MapOrd) (root : Val) :
    ∀ (n : Nat) (a : Arg) (at_ : Val), Sim (eval ⟨dev, none⟩ root n a at_) (eval ⟨dev, some o⟩ root n a at_)
  | n, .lit v, at_ => by simp only [eval]; exact Sim.refl _
  | n, .raw v es, at_ => by simp only [eval]; exact Sim.refl _
  | n, .path p, at_ => by
    have hl := liftFirst_sim dev o
    simp only [eval]
    sim
    all_goals exact hl _ _ _
  | n, .unk, at_ => by simp only [eval]; exact Sim.refl _
  | 0, .call f args, at_ => by simp only [eval]; exact Sim.refl _
  | n + 1, .call f args, at_ => by
    simp only [eval]
    exact evalFn_sim _ _ dev o root at_ f args (fun a _ at' => eval_sim dev o root n a at')

end OjgVerif.Asm
