import OjgVerif.Asm.LemmasRerun
/-! No-fault lemmas of the `asm` family: on top of the plan-separation invariant (`Safe`), a plan whose
literals are finite trees laid out in order (`PlanOrd`), that never compares containers structurally and
whose calls nest no deeper than the fuel (`Fit`) is evaluated without fault: every modelled function ends
`ok` or in a mild stop (an error, "outside the model", "needs a map order") — never out of fuel, never
diverging (`ST` = `Safe` + `Tot`). -/
set_option linter.unusedSimpArgs false
set_option linter.unusedVariables false
namespace OjgVerif.Asm
open OjgVerif

/-! ## no fault: the evaluator never runs out of fuel and never diverges (outside deep comparison) -/

/-- a stop that is a verdict about the plan and the data, not a limit of the evaluation: what a modelled
function may legitimately end in -/
def Stop.mild (e : Stop) : Prop := e = .panic ∨ e = .unmodelled ∨ e = .enum

def Mild (r : Except Stop α) : Prop := ∀ e, r = .error e → e.mild

theorem mild_ok (a : α) : Mild (.ok a : Except Stop α) := fun _ h => by cases h
theorem mild_panic : Mild (.error .panic : Except Stop α) := fun _ h => by cases h; exact Or.inl rfl
theorem mild_unmodelled : Mild (.error .unmodelled : Except Stop α) := fun _ h => by cases h; exact Or.inr (Or.inl rfl)
theorem mild_enum : Mild (.error .enum : Except Stop α) := fun _ h => by cases h; exact Or.inr (Or.inr rfl)

macro "mild_tac" : tactic =>
  `(tactic| first | exact mild_ok _ | exact mild_panic | exact mild_unmodelled | exact mild_enum)

theorem sumStep_mild (acc : SumAcc) (v : Val) : Mild (sumStep acc v) := by
  cases acc <;> cases v <;> simp only [sumStep] <;> first | mild_tac | (split <;> mild_tac)
theorem sumFirst_mild (v : Val) : Mild (sumFirst v) := by cases v <;> simp only [sumFirst] <;> mild_tac
theorem arithStep_mild (dev : Dev) (op : ArithOp) (acc : NumAcc) (v : Val) : Mild (arithStep dev op acc v) := by
  cases acc <;> cases v <;> simp only [arithStep, arithF] <;> first | mild_tac | (split <;> mild_tac)
theorem arithFirst_mild (v : Val) : Mild (arithFirst v) := by cases v <;> simp only [arithFirst] <;> mild_tac

theorem pathFirst_mild (env : Env) (h : Heap) : ∀ (fs : List Frag) (v : Val), Mild (pathFirst env h v fs)
  | [], v => by simp only [pathFirst]; mild_tac
  | f :: rest, v => by
    have ih := pathFirst_mild env h rest
    cases v <;> cases f <;> simp only [pathFirst] <;>
      first
        | mild_tac
        | (split <;> first | mild_tac | exact ih _ | (split <;> first | mild_tac | (split <;> mild_tac)))

theorem pathGet_mild (env : Env) (h : Heap) : ∀ (fs : List Frag) (v : Val), Mild (pathGet env h v fs)
  | [], v => by simp only [pathGet]; mild_tac
  | f :: rest, v => by
    have ih := pathGet_mild env h rest
    cases v <;> cases f <;> simp only [pathGet] <;>
      first
        | mild_tac
        | (split <;> first | mild_tac | exact ih _ | (split <;> first | mild_tac | (split <;> mild_tac)))

theorem pathSet_mild (value : Option Val) : ∀ (fs : List Frag) (cur : Val) (h : Heap), Mild (pathSet value cur fs h).1
  | [], cur, h => by simp only [pathSet, pure_apply]; mild_tac
  | f :: rest, cur, h => by
    cases cur with
    | null => cases f <;> cases rest <;> simp only [pathSet, pure_apply, stop_apply] <;> mild_tac
    | bool b => cases f <;> cases rest <;> simp only [pathSet, pure_apply, stop_apply] <;> mild_tac
    | int n => cases f <;> cases rest <;> simp only [pathSet, pure_apply, stop_apply] <;> mild_tac
    | flt x => cases f <;> cases rest <;> simp only [pathSet, pure_apply, stop_apply] <;> mild_tac
    | str x => cases f <;> cases rest <;> simp only [pathSet, pure_apply, stop_apply] <;> mild_tac
    | path p => cases f <;> cases rest <;> simp only [pathSet, pure_apply, stop_apply] <;> mild_tac
    | aref a =>
      cases f with
      | wild => simp only [pathSet, stop_apply]; mild_tac
      | child k' => cases rest <;> simp only [pathSet, pure_apply] <;> mild_tac
      | nth j =>
        cases rest with
        | nil => simp only [pathSet]; split <;> mild_tac
        | cons g r =>
          simp only [pathSet]
          split
          · split
            · mild_tac
            · exact pathSet_mild value (g :: r) _ h
          · mild_tac
    | mref a =>
      cases f with
      | wild => simp only [pathSet, stop_apply]; mild_tac
      | nth j => cases rest <;> simp only [pathSet, pure_apply] <;> mild_tac
      | child k' =>
        cases rest with
        | nil => simp only [pathSet]; split <;> mild_tac
        | cons g r =>
          simp only [pathSet]
          split
          · split
            · mild_tac
            · exact pathSet_mild value (g :: r) _ h
          · split
            · mild_tac
            · split
              · mild_tac
              · split
                · exact pathSet_mild _ (_ :: r) _ _
                · split
                  · mild_tac
                  · exact pathSet_mild _ (_ :: r) _ _
                · mild_tac


/-! ### the invariant with "no fault" added -/

/-- a value of the plan that refers (if at all) to a cell before cell `i` -/
def Val.below (i : Nat) : Val → Prop
  | .aref a => a < i
  | .mref a => a < i
  | _ => True

def Cell.below (i : Nat) : Cell → Prop
  | .arr xs => ∀ v ∈ xs, v.below i
  | .map kvs => ∀ kv ∈ kvs, kv.2.below i

/-- the plan's cells are laid out children first (as loading a tree lays them out): a cell only refers to
earlier cells — the literals are finite trees -/
def PlanOrd (k : Nat) (h : Heap) : Prop := ∀ i c, i < k → h[i]? = some c → Cell.below i c

theorem PlanOrd.same {k : Nat} {h h' : Heap} (hp : PlanOrd k h) (hs : ∀ i, i < k → h'[i]? = h[i]?) : PlanOrd k h' :=
  fun i c hi hg => hp i c hi (by rw [← hs i hi]; exact hg)

/-- from a heap in the invariant whose plan is laid out in order, `m` ends `ok` or in a mild stop: never
out of fuel, never diverging -/
structure Tot (k : Nat) (m : M α) : Prop where
  run : ∀ h, HeapHi k h → k ≤ h.length → PlanOrd k h → Mild (m h).1

/-- `Safe` and `Tot` together -/
structure ST (k : Nat) [HasHi α] (m : M α) : Prop where
  safe : Safe k m
  tot : Tot k m

variable {k : Nat}

theorem ST.ret [HasHi α] {a : α} (ha : HasHi.hi k a) : ST k (pure a : M α) :=
  ⟨Safe.pure ha, ⟨fun h _ _ _ => by simp; exact mild_ok a⟩⟩

theorem ST.stop [HasHi α] (s : Stop)
    (hs : s.mild := by first | exact Or.inl rfl | exact Or.inr (Or.inl rfl) | exact Or.inr (Or.inr rfl)) : ST k (stop s : M α) :=
  ⟨Safe.stop s, ⟨fun h _ _ _ e he => by simp at he; subst he; exact hs⟩⟩

theorem ST.liftE [HasHi α] {e : Except Stop α} (he : ∀ a, e = .ok a → HasHi.hi k a) (hm : Mild e) : ST k (liftE e) :=
  ⟨Safe.liftE he, ⟨fun h _ _ _ => by simpa using hm⟩⟩

theorem ST.getH : ST k Asm.getHeap := ⟨Safe.getHeap, ⟨fun h _ _ _ => by simp; exact mild_ok h⟩⟩

theorem ST.alloc {c : Cell} (hc : c.hi k) : ST k (alloc c) := ⟨Safe.alloc hc, ⟨fun h _ _ _ => by simp; exact mild_ok _⟩⟩

theorem ST.bind [HasHi α] [HasHi β] {m : M α} {f : α → M β} (hm : ST k m)
    (hf : ∀ a, HasHi.hi k a → ST k (f a)) : ST k (m >>= f) := by
  refine ⟨Safe.bind hm.safe (fun a ha => (hf a ha).safe), ⟨?_⟩⟩
  intro h hh hk hp
  obtain ⟨s1, s2, s3, s4⟩ := hm.safe.run h hh hk
  have t1 := hm.tot.run h hh hk hp
  simp only [bind_apply]
  cases hmh : m h with
  | mk r h' =>
    rw [hmh] at s1 s2 s3 s4 t1
    cases r with
    | error e => intro e' he'; simp at he'; subst he'; exact t1 e rfl
    | ok a => exact (hf a (s4 a rfl)).tot.run h' s2 (Nat.le_trans hk s3) (hp.same s1)

/-- the heap read by `getHeap` is in the invariant, its plan in order -/
theorem ST.bind_getHeap [HasHi β] {f : Heap → M β}
    (hf : ∀ h0, HeapHi k h0 → k ≤ h0.length → PlanOrd k h0 → ST k (f h0))
    (hsafe : ∀ h0, HasHi.hi k h0 → Safe k (f h0)) : ST k (Asm.getHeap >>= f) := by
  refine ⟨Safe.bind Safe.getHeap hsafe, ⟨?_⟩⟩
  intro h hh hk hp
  simp only [bind_apply, getHeap_apply]
  exact (hf h hh hk hp).tot.run h hh hk hp

theorem ST.ite [HasHi α] {c : Prop} [Decidable c] {m1 m2 : M α} (h1 : ST k m1) (h2 : ST k m2) :
    ST k (if c then m1 else m2) := by
  split <;> assumption

macro "mild_side" : tactic =>
  `(tactic| first
    | exact sumStep_mild _ _ | exact sumFirst_mild _ | exact arithStep_mild _ _ _ _ | exact arithFirst_mild _
    | exact pathFirst_mild _ _ _ _ | exact pathGet_mild _ _ _ _ | mild_tac)

macro "st_step" : tactic =>
  `(tactic| first
    | exact ST.stop _ | exact ST.getH
    | assumption
    | (refine ST.ret ?_; hi_tac)
    | (refine ST.liftE ?_ ?_ <;> first | hi_tac | mild_side)
    | apply ST.bind
    | apply ST.ite
    | intro _
    | split)

macro "st" : tactic => `(tactic| repeat' st_step)

theorem mapM'_st_vals {α : Type} (f : α → M Val) :
    ∀ (xs : List α), (∀ x ∈ xs, ST k (f x)) → ST k (mapM' f xs)
  | [], _ => by simp only [mapM']; exact ST.ret (fun v hv => by simp at hv)
  | a :: r, he => by
    have h1 := he a (List.mem_cons_self ..)
    have ih := mapM'_st_vals f r (fun x hx => he x (List.mem_cons_of_mem _ hx))
    simp only [mapM']
    apply ST.bind h1
    intro b hb
    apply ST.bind ih
    intro bs hbs
    refine ST.ret (fun v hv => ?_)
    rcases List.mem_cons.mp hv with h | h
    · subst h; exact hb
    · exact hbs v h

theorem mapM'_st_kvs {α : Type} (f : α → M (Bytes × Val)) :
    ∀ (xs : List α), (∀ x ∈ xs, ST k (f x)) → ST k (mapM' f xs)
  | [], _ => by simp only [mapM']; exact ST.ret (fun v hv => by simp at hv)
  | a :: r, he => by
    have h1 := he a (List.mem_cons_self ..)
    have ih := mapM'_st_kvs f r (fun x hx => he x (List.mem_cons_of_mem _ hx))
    simp only [mapM']
    apply ST.bind h1
    intro b hb
    apply ST.bind ih
    intro bs hbs
    refine ST.ret (fun v hv => ?_)
    rcases List.mem_cons.mp hv with h | h
    · subst h; exact hb
    · exact hbs v h

theorem sumLoop_st (e : Arg → M Val) : ∀ (args : List Arg) (acc : SumAcc), (∀ a ∈ args, ST k (e a)) → ST k (sumLoop e acc args)
  | [], acc, _ => by
    simp only [sumLoop]
    cases acc <;> exact ST.ret trivial
  | a :: r, acc, he => by
    have h1 := he a (List.mem_cons_self ..)
    have ih := fun acc' => sumLoop_st e r acc' (mem_tail he)
    simp only [sumLoop]
    st
    all_goals exact ih _

theorem fnSum_st (e : Arg → M Val) (args : List Arg) (he : ∀ a ∈ args, ST k (e a)) : ST k (fnSum e args) := by
  cases args with
  | nil => simp only [fnSum]; st
  | cons a r =>
    have h1 := he a (List.mem_cons_self ..)
    simp only [fnSum]
    st
    all_goals exact sumLoop_st e r _ (mem_tail he)

theorem arithLoop_st (dev : Dev) (op : ArithOp) (e : Arg → M Val) :
    ∀ (args : List Arg) (acc : NumAcc), (∀ a ∈ args, ST k (e a)) → ST k (arithLoop dev op e acc args)
  | [], acc, _ => by
    simp only [arithLoop]
    cases acc <;> exact ST.ret trivial
  | a :: r, acc, he => by
    have h1 := he a (List.mem_cons_self ..)
    have ih := fun acc' => arithLoop_st dev op e r acc' (mem_tail he)
    simp only [arithLoop]
    st
    all_goals exact ih _

theorem fnArith_st (dev : Dev) (op : ArithOp) (e : Arg → M Val) (args : List Arg) (he : ∀ a ∈ args, ST k (e a)) :
    ST k (fnArith dev op e args) := by
  cases args with
  | nil => simp only [fnArith]; st
  | cons a r =>
    have h1 := he a (List.mem_cons_self ..)
    simp only [fnArith]
    st
    all_goals exact arithLoop_st dev op e r _ (mem_tail he)

theorem fnMod_st (e : Arg → M Val) (args : List Arg) (he : ∀ a ∈ args, ST k (e a)) : ST k (fnMod e args) := by
  match args with
  | [] => simp only [fnMod]; st
  | [a] => simp only [fnMod]; st
  | [a, b] =>
    have h1 := he a (by simp)
    have h2 := he b (by simp)
    simp only [fnMod]
    st
  | _ :: _ :: _ :: _ => simp only [fnMod]; st

theorem cmpNumLoop_st (dev : Dev) (op : CmpOp) (e : Arg → M Val) :
    ∀ (args : List Arg) (x : Flt), (∀ a ∈ args, ST k (e a)) → ST k (cmpNumLoop dev op e x args)
  | [], x, _ => by simp only [cmpNumLoop]; st
  | a :: r, x, he => by
    have h1 := he a (List.mem_cons_self ..)
    have ih := fun x' => cmpNumLoop_st dev op e r x' (mem_tail he)
    simp only [cmpNumLoop]
    st
    all_goals exact ih _

theorem cmpStrLoop_st (op : CmpOp) (e : Arg → M Val) :
    ∀ (args : List Arg) (x : Bytes), (∀ a ∈ args, ST k (e a)) → ST k (cmpStrLoop op e x args)
  | [], x, _ => by simp only [cmpStrLoop]; st
  | a :: r, x, he => by
    have h1 := he a (List.mem_cons_self ..)
    have ih := fun x' => cmpStrLoop_st op e r x' (mem_tail he)
    simp only [cmpStrLoop]
    st
    all_goals exact ih _

theorem fnCmp_st (dev : Dev) (hd : dev.cmpUneval = false) (op : CmpOp) (e : Arg → M Val) (args : List Arg)
    (he : ∀ a ∈ args, ST k (e a)) : ST k (fnCmp dev op e args) := by
  cases args with
  | nil => simp only [fnCmp]; st
  | cons a r =>
    have h1 := he a (List.mem_cons_self ..)
    have hn := fun x => cmpNumLoop_st dev op e r x (mem_tail he)
    have hs := fun x => cmpStrLoop_st op e r x (mem_tail he)
    simp only [fnCmp, cmpHead, hd, Bool.false_eq_true, if_false]
    st
    all_goals first | exact hn _ | exact hs _

theorem fnAnd_st (e : Arg → M Val) : ∀ (args : List Arg), (∀ a ∈ args, ST k (e a)) → ST k (fnAnd e args)
  | [], _ => by simp only [fnAnd]; st
  | a :: r, he => by
    have h1 := he a (List.mem_cons_self ..)
    have ih := fnAnd_st e r (mem_tail he)
    simp only [fnAnd]
    st

theorem fnOr_st (e : Arg → M Val) : ∀ (args : List Arg), (∀ a ∈ args, ST k (e a)) → ST k (fnOr e args)
  | [], _ => by simp only [fnOr]; st
  | a :: r, he => by
    have h1 := he a (List.mem_cons_self ..)
    have ih := fnOr_st e r (mem_tail he)
    simp only [fnOr]
    st

theorem fnNot_st (e : Arg → M Val) (args : List Arg) (he : ∀ a ∈ args, ST k (e a)) : ST k (fnNot e args) := by
  match args with
  | [] => simp only [fnNot]; st
  | [a] =>
    have h1 := he a (by simp)
    simp only [fnNot]
    st
  | _ :: _ :: _ => simp only [fnNot]; st

theorem arrAt_below {h : Heap} {a : Nat} (hp : PlanOrd k h) (ha : a < k) : ∀ v ∈ h.arrAt a, v.below a := by
  unfold Heap.arrAt
  cases hg : h[a]? with
  | none => simp
  | some c =>
    cases c with
    | arr xs => exact hp a _ ha hg
    | map kvs => simp

theorem mapAt_below {h : Heap} {a : Nat} (hp : PlanOrd k h) (ha : a < k) : ∀ kv ∈ h.mapAt a, kv.2.below a := by
  unfold Heap.mapAt
  cases hg : h[a]? with
  | none => simp
  | some c =>
    cases c with
    | arr xs => simp
    | map kvs => exact hp a _ ha hg

theorem below_mono {v : Val} {a n : Nat} (hv : v.below a) (han : a ≤ n) : v.below n := by
  cases v <;> simp [Val.below] at hv ⊢ <;> omega

theorem below_lo {v : Val} {a : Nat} (hv : v.below a) (hak : a ≤ k) : v.lo k := by
  cases v <;> simp [Val.below, Val.lo] at hv ⊢ <;> omega

/-- enough fuel for copying `v`: more than its address plus one (its cell and the scalars in it) -/
def Val.fits (n : Nat) : Val → Prop
  | .aref a => a + 1 < n
  | .mref a => a + 1 < n
  | _ => 0 < n

theorem fits_of_below {v : Val} {a n : Nat} (hv : v.below a) (han : a < n) : v.fits n := by
  cases v <;> simp [Val.below, Val.fits] at hv ⊢ <;> omega

/-- copying a literal of an ordered plan never runs out of fuel once the fuel exceeds its address by two -/
theorem copyVal_st : ∀ (n : Nat) (v : Val), v.fits n → v.lo k → ST k (copyVal n v)
  | 0, v, hb, _ => by cases v <;> simp [Val.fits] at hb
  | n + 1, v, hb, hlo => by
    have ih : ∀ x, x.fits n → x.lo k → ST k (copyVal n x) := fun x hx hx' => copyVal_st n x hx hx'
    cases v with
    | aref a =>
      have ha : a < n := by simp [Val.fits] at hb; omega
      have hak : a < k := hlo
      simp only [copyVal]
      apply ST.bind_getHeap
      · intro h0 hh0 hk0 hp0
        have hel := arrAt_below hp0 hak
        apply ST.bind (mapM'_st_vals _ _ (fun x hx => ih x (fits_of_below (hel x hx) ha) (below_lo (hel x hx) (by omega))))
        intro vs hvs
        apply ST.bind (ST.alloc (show Cell.hi k (Cell.arr vs) from hvs))
        intro c hc
        exact ST.ret (show Val.hi k (Val.aref c) from hc)
      · intro h0 _
        apply Safe.bind (mapM'_safe_vals _ _ (fun x _ => copyVal_safe n x))
        intro vs hvs
        apply Safe.bind (Safe.alloc (show Cell.hi k (Cell.arr vs) from hvs))
        intro c hc
        exact Safe.pure (show Val.hi k (Val.aref c) from hc)
    | mref a =>
      have ha : a < n := by simp [Val.fits] at hb; omega
      have hak : a < k := hlo
      simp only [copyVal]
      apply ST.bind_getHeap
      · intro h0 hh0 hk0 hp0
        have hel := mapAt_below hp0 hak
        apply ST.bind (mapM'_st_kvs _ _ (fun kv hkv => ST.bind (ih kv.2 (fits_of_below (hel kv hkv) ha) (below_lo (hel kv hkv) (by omega)))
          (fun v hv => ST.ret (show Val.hi k v from hv))))
        intro vs hvs
        apply ST.bind (ST.alloc (show Cell.hi k (Cell.map vs) from hvs))
        intro c hc
        exact ST.ret (show Val.hi k (Val.mref c) from hc)
      · intro h0 _
        apply Safe.bind (mapM'_safe_kvs _ _ (fun kv _ => Safe.bind (copyVal_safe n kv.2) (fun v hv => Safe.pure (show Val.hi k v from hv))))
        intro vs hvs
        apply Safe.bind (Safe.alloc (show Cell.hi k (Cell.map vs) from hvs))
        intro c hc
        exact Safe.pure (show Val.hi k (Val.mref c) from hc)
    | null => simp only [copyVal]; exact ST.ret trivial
    | bool b => simp only [copyVal]; exact ST.ret trivial
    | int i => simp only [copyVal]; exact ST.ret trivial
    | flt f => simp only [copyVal]; exact ST.ret trivial
    | str x => simp only [copyVal]; exact ST.ret trivial
    | path p => simp only [copyVal]; exact ST.ret trivial

/-- evaluating a literal of the plan (a value that lives in the plan's cells) -/
theorem evalLit_st (dev : Dev) (hd : dev.litAlias = false) (v : Val) (hlo : v.lo k) : ST k (evalLit dev v) := by
  refine ⟨evalLit_safe dev hd v, ⟨?_⟩⟩
  intro h hh hk hp
  unfold evalLit
  simp only [hd, Bool.false_or]
  by_cases hs : v.isScalar = true
  · simp only [hs, if_true, pure_apply]; exact mild_ok v
  · simp only [hs, bind_apply, getHeap_apply]
    have hb : v.fits (h.length + 1) := by cases v <;> simp [Val.fits, Val.lo] at hlo ⊢ <;> omega
    exact (copyVal_st (h.length + 1) v hb hlo).tot.run h hh hk hp

theorem evalValue_st (dev : Dev) (hd : dev.condListAlias = false) (e : Arg → M Val) (a : Arg) (ha : ST k (e a)) :
    ST k (evalValue dev e a) := by
  unfold evalValue
  cases a <;> simp only [hd, Bool.false_eq_true, if_false] <;> st

theorem fnCond_st (dev : Dev) (hd : dev.condListAlias = false) (e : Arg → M Val) :
    ∀ (args : List Arg), (∀ a ∈ args, ∀ c ∈ condKids a, ST k (e c)) → ST k (fnCond dev e args)
  | [], _ => by simp only [fnCond]; st
  | a :: r, he => by
    have ih := fnCond_st dev hd e r (fun x hx => he x (List.mem_cons_of_mem _ hx))
    have ha := he a (List.mem_cons_self ..)
    cases a with
    | raw l es =>
      match es with
      | [c, v] =>
        have hc := evalValue_st dev hd e c (ha c (by simp [condKids]))
        have hv := evalValue_st dev hd e v (ha v (by simp [condKids]))
        simp only [fnCond]
        st
      | [] => simp only [fnCond]; st
      | [_] => simp only [fnCond]; st
      | _ :: _ :: _ :: _ => simp only [fnCond]; st
    | lit v => cases v <;> (simp only [fnCond]; st)
    | path p => simp only [fnCond]; st
    | call f as => simp only [fnCond]; st
    | unk => simp only [fnCond]; st

theorem pathArg_st (e : Arg → M Val) (a : Arg) (ha : ST k (e a)) : ST k (pathArg e a) := by
  unfold pathArg
  st

theorem first_st (dev : Dev) (h : Heap) (hh : HasHi.hi k h) (base : Val) (hb : base.hi k) (fs : List Frag) :
    ST k (liftE (pathFirst ⟨dev, none⟩ h base fs)) :=
  ST.liftE (fun r hr v hv => by subst hv; exact pathFirst_hi dev hh.1 fs base hb v hr) (pathFirst_mild _ _ _ _)

theorem fnGet_st (dev : Dev) (e : Arg → M Val) (root at_ : Val) (hroot : root.hi k) (hat : at_.hi k) (args : List Arg)
    (he : ∀ a ∈ args, ST k (e a)) : ST k (fnGet ⟨dev, none⟩ e root at_ args) := by
  match args with
  | [] => simp only [fnGet]; st
  | [a] =>
    simp only [fnGet]
    apply ST.bind (pathArg_st e a (he a (by simp)))
    intro p _
    apply ST.bind ST.getH
    intro h hh
    apply ST.bind (first_st dev h hh _ (by split <;> assumption) _)
    intro r hr
    exact ST.ret (getD_null_hi hr)
  | [a, d] =>
    simp only [fnGet]
    apply ST.bind (pathArg_st e a (he a (by simp)))
    intro p _
    apply ST.bind (he d (by simp))
    intro data hdata
    apply ST.bind ST.getH
    intro h hh
    apply ST.bind (first_st dev h hh _ hdata _)
    intro r hr
    exact ST.ret (getD_null_hi hr)
  | _ :: _ :: _ :: _ => simp only [fnGet]; st

theorem getall_tail_st (dev : Dev) (h : Heap) (hh : HasHi.hi k h) (base : Val) (hb : base.hi k) (fs : List Frag) :
    ST k (liftE (pathGet ⟨dev, none⟩ h base fs) >>= fun r => alloc (.arr r) >>= fun c => pure (Val.aref c)) := by
  apply ST.bind (ST.liftE (fun r hr => pathGet_hi dev hh.1 fs base hb r hr) (pathGet_mild _ _ _ _))
  intro r hr
  apply ST.bind (ST.alloc (show Cell.hi k (Cell.arr r) from hr))
  intro c hc
  exact ST.ret (show Val.hi k (Val.aref c) from hc)

theorem pathSet_st (value : Option Val) (hval : ∀ v, value = some v → v.hi k) (fs : List Frag) (cur : Val) (hcur : cur.hi k) :
    ST k (pathSet value cur fs) :=
  ⟨pathSet_safe value hval fs cur hcur, ⟨fun h _ _ _ => pathSet_mild value fs cur h⟩⟩

theorem fnGetall_st (dev : Dev) (e : Arg → M Val) (root at_ : Val) (hroot : root.hi k) (hat : at_.hi k) (args : List Arg)
    (he : ∀ a ∈ args, ST k (e a)) : ST k (fnGetall ⟨dev, none⟩ e root at_ args) := by
  match args with
  | [] => simp only [fnGetall]; st
  | [a] =>
    simp only [fnGetall]
    apply ST.bind (pathArg_st e a (he a (by simp)))
    intro p _
    apply ST.bind ST.getH
    intro h hh
    exact getall_tail_st dev h hh _ (by split <;> assumption) _
  | [a, d] =>
    simp only [fnGetall]
    apply ST.bind (pathArg_st e a (he a (by simp)))
    intro p _
    apply ST.bind (he d (by simp))
    intro data hdata
    apply ST.bind ST.getH
    intro h hh
    exact getall_tail_st dev h hh _ hdata _
  | _ :: _ :: _ :: _ => simp only [fnGetall]; st

theorem setAt_st (value : Option Val) (hval : ∀ v, value = some v → v.hi k) (p : Path) (root at_ : Val)
    (hroot : root.hi k) (hat : at_.hi k) : ST k (setAt value p root at_) := by
  unfold setAt
  split
  · exact ST.stop _
  · exact pathSet_st value hval _ _ (by split <;> assumption)

theorem fnSet_st (e : Arg → M Val) (root at_ : Val) (hroot : root.hi k) (hat : at_.hi k) (args : List Arg)
    (he : ∀ a ∈ args, ST k (e a)) : ST k (fnSet e root at_ args) := by
  match args with
  | [] => simp only [fnSet]; st
  | [_] => simp only [fnSet]; st
  | [a, b] =>
    simp only [fnSet]
    apply ST.bind (pathArg_st e a (he a (by simp)))
    intro p _
    apply ST.bind (he b (by simp))
    intro v hv
    apply ST.bind (setAt_st (some v) (fun w hw => by simp at hw; subst hw; exact hv) p root at_ hroot hat)
    intro _ _
    exact ST.ret hat
  | _ :: _ :: _ :: _ => simp only [fnSet]; st

theorem fnDel_st (root at_ : Val) (hroot : root.hi k) (hat : at_.hi k) (args : List Arg) : ST k (fnDel root at_ args) := by
  match args with
  | [] => simp only [fnDel]; st
  | [a] =>
    simp only [fnDel]
    cases a with
    | path p =>
      simp only
      apply ST.bind (setAt_st none (fun w hw => by simp at hw) p root at_ hroot hat)
      intro _ _
      exact ST.ret hat
    | lit v => exact ST.stop _
    | raw v es => exact ST.stop _
    | call f as => exact ST.stop _
    | unk => exact ST.stop _
  | _ :: _ :: _ => simp only [fnDel]; st

theorem eachLoop_st (ev : Arg → Val → M Val) (fn : Arg) (key : Bytes) (a : Nat) (ha : k ≤ a)
    (hfn : ∀ at_, at_.hi k → ST k (ev fn at_)) :
    ∀ (n i : Nat) (acc : List Val), (∀ v ∈ acc, v.hi k) → ST k (eachLoop ev fn key a n i acc)
  | 0, i, acc, hacc => by
    simp only [eachLoop]
    exact ST.ret (fun v hv => hacc v (by simpa using hv))
  | n + 1, i, acc, hacc => by
    simp only [eachLoop]
    apply ST.bind ST.getH
    intro h hh
    have hsrc : Val.hi k ((h.arrAt a).getD i .null) := getD_hi (arrAt_hi hh.1 ha) _
    apply ST.bind (ST.alloc (show Cell.hi k (Cell.map [(b!"src", (h.arrAt a).getD i .null)]) from by
      intro kv hkv; simp at hkv; subst hkv; exact hsrc))
    intro m hm
    apply ST.bind (hfn (.mref m) hm)
    intro _ _
    apply ST.bind ST.getH
    intro h2 hh2
    apply eachLoop_st ev fn key a ha hfn n (i + 1)
    intro v hv
    rcases List.mem_cons.mp hv with h1 | h1
    · subst h1
      cases hg : kvGet key (h2.mapAt m) with
      | none => trivial
      | some w => exact mapAt_hi hh2.1 hm _ (kvGet_mem hg)
    · exact hacc v h1

theorem fnEach_st (ev : Arg → Val → M Val) (at_ : Val) (hat : at_.hi k) (args : List Arg)
    (he : ∀ a ∈ args, ∀ at', at'.hi k → ST k (ev a at')) : ST k (fnEach ev at_ args) := by
  have tail : ∀ (fn : Arg) (key : Bytes) (a : Nat), k ≤ a → fn ∈ args →
      ST k (getHeap >>= fun h => eachLoop ev fn key a (h.arrAt a).length 0 [] >>= fun rs =>
        alloc (.arr rs) >>= fun c => pure (Val.aref c)) := by
    intro fn key a ha hmem
    apply ST.bind ST.getH
    intro h _
    apply ST.bind (eachLoop_st ev fn key a ha (he fn hmem) _ _ _ (by simp))
    intro rs hrs
    apply ST.bind (ST.alloc (show Cell.hi k (Cell.arr rs) from hrs))
    intro c hc
    exact ST.ret (show Val.hi k (Val.aref c) from hc)
  match args, he, tail with
  | [], _, _ => simp only [fnEach]; st
  | [_], _, _ => simp only [fnEach]; st
  | [a0, fn], he, tail =>
    simp only [fnEach]
    apply ST.bind (he a0 (by simp) at_ hat)
    intro v hv
    cases v <;> try exact ST.stop _
    rename_i a
    cases fn <;> try exact ST.stop _
    rename_i f fargs
    simp only [bind_assoc, pure_bind]
    exact tail (.call f fargs) b!"asm" a hv (by simp)
  | [a0, fn, kk], he, tail =>
    simp only [fnEach]
    apply ST.bind (he a0 (by simp) at_ hat)
    intro v hv
    cases v <;> try exact ST.stop _
    rename_i a
    cases fn <;> try exact ST.stop _
    rename_i f fargs
    simp only
    apply ST.bind
    · apply ST.bind (he kk (by simp) at_ hat)
      intro kv _
      cases kv <;> first | exact ST.stop _ | exact ST.ret trivial
    · intro key _
      exact tail (.call f fargs) key a hv (by simp)
  | _ :: _ :: _ :: _ :: _, _, _ => simp only [fnEach]; st

theorem joinLoop_st (e : Arg → M Val) :
    ∀ (args : List Arg) (first : Bool) (acc : Bytes), (∀ a ∈ args, ST k (e a)) → ST k (joinLoop e args first acc)
  | [], _, _, _ => by simp only [joinLoop]; st
  | a :: r, first, acc, he => by
    have h1 := he a (List.mem_cons_self ..)
    have ih := fun f' acc' => joinLoop_st e r f' acc' (mem_tail he)
    simp only [joinLoop]
    st
    all_goals exact ih _ _

theorem fnPathOf_st (isAt : Bool) (e : Arg → M Val) (args : List Arg) (he : ∀ a ∈ args, ST k (e a)) :
    ST k (fnPathOf isAt e args) := by
  have hj := joinLoop_st e args true [] he
  simp only [fnPathOf]
  st

theorem fnAsm_st (ev : Arg → Val → M Val) :
    ∀ (args : List Arg) (at_ : Val), at_.hi k → (∀ a ∈ args, ∀ at', at'.hi k → ST k (ev a at')) → ST k (fnAsm ev args at_)
  | [], at_, hat, _ => by simp only [fnAsm]; exact ST.ret hat
  | a :: r, at_, hat, he => by
    simp only [fnAsm]
    apply ST.bind (he a (List.mem_cons_self ..) at_ hat)
    intro v hv
    exact fnAsm_st ev r v hv (mem_tail he)

theorem fnList_st (e : Arg → M Val) (args : List Arg) (he : ∀ a ∈ args, ST k (e a)) : ST k (fnList e args) := by
  unfold fnList
  apply ST.bind (mapM'_st_vals e args he)
  intro vs hvs
  apply ST.bind (ST.alloc (show Cell.hi k (Cell.arr vs) from hvs))
  intro c hc
  exact ST.ret (show Val.hi k (Val.aref c) from hc)

theorem fnNth_st (e : Arg → M Val) (args : List Arg) (he : ∀ a ∈ args, ST k (e a)) : ST k (fnNth e args) := by
  match args with
  | [] => simp only [fnNth]; st
  | [a] => simp only [fnNth]; st
  | [a, b] =>
    simp only [fnNth]
    apply ST.bind (he a (by simp))
    intro v hv
    cases v <;> try exact ST.stop _
    rename_i c
    simp only
    apply ST.bind (he b (by simp))
    intro iv _
    cases asInt iv with
    | none => exact ST.stop _
    | some i =>
      simp only
      apply ST.bind ST.getH
      intro h hh
      cases normIdx i (h.arrAt c).length with
      | none => exact ST.ret trivial
      | some j => exact ST.ret (getD_hi (arrAt_hi hh.1 hv) j)
  | _ :: _ :: _ :: _ => simp only [fnNth]; st

theorem fnSize_st (e : Arg → M Val) (args : List Arg) (he : ∀ a ∈ args, ST k (e a)) : ST k (fnSize e args) := by
  match args with
  | [] => simp only [fnSize]; st
  | [a] =>
    have h1 := he a (by simp)
    simp only [fnSize]
    st
  | _ :: _ :: _ => simp only [fnSize]; st

theorem fnPred_st (p : Val → Bool) (e : Arg → M Val) (args : List Arg) (he : ∀ a ∈ args, ST k (e a)) :
    ST k (fnPred p e args) := by
  match args with
  | [] => simp only [fnPred]; st
  | [a] =>
    have h1 := he a (by simp)
    simp only [fnPred]
    st
  | _ :: _ :: _ => simp only [fnPred]; st

theorem fnQuote_evalLit_st (dev : Dev) (hd : dev.litAlias = false) (args : List Arg) (hlo : ∀ a ∈ args, ArgLo k a) :
    ST k (fnQuote args >>= fun v => evalLit dev v) := by
  refine ⟨fnQuote_evalLit_safe dev hd args, ⟨?_⟩⟩
  intro h hh hk hp
  simp only [bind_apply]
  cases args with
  | nil => simpa [fnQuote] using (evalLit_st dev hd .null trivial).tot.run h hh hk hp
  | cons a r =>
    have hlo' := hlo a (List.mem_cons_self ..)
    cases a with
    | lit v =>
      cases hlo' with
      | lit _ hv => simpa [fnQuote] using (evalLit_st dev hd v hv).tot.run h hh hk hp
    | raw v es =>
      cases hlo' with
      | raw _ _ hv _ => simpa [fnQuote] using (evalLit_st dev hd v hv).tot.run h hh hk hp
    | path p => simp [fnQuote]; exact mild_unmodelled
    | call f as => simp [fnQuote]; exact mild_unmodelled
    | unk => simp [fnQuote]; exact mild_unmodelled


/-! ### text, conversion and list functions -/

theorem accept_mild (h : Heap) (w : Want) (v : Val) : Mild (w.accept h v) := by
  cases w <;> cases v <;> simp only [Want.accept] <;> first | mild_tac | (split <;> mild_tac)

theorem wantLoop_st (e : Arg → M Val) :
    ∀ (args : List Arg) (ws : List Want) (acc : List Tree), (∀ a ∈ args, ST k (e a)) → ST k (wantLoop e args ws acc)
  | [], _, _, _ => by simp only [wantLoop]; exact ST.ret trivial
  | _ :: _, [], _, _ => by simp only [wantLoop]; exact ST.ret trivial
  | a :: r, w :: ws, acc, he => by
    simp only [wantLoop]
    apply ST.bind (he a (List.mem_cons_self ..))
    intro v _
    apply ST.bind ST.getH
    intro h _
    apply ST.bind (ST.liftE (fun _ _ => trivial) (accept_mild h w v))
    intro xs _
    exact wantLoop_st e r ws _ (mem_tail he)

theorem retTree_st (t : Tree) : ST k (retTree t) := by
  cases t with
  | arr xs =>
    simp only [retTree]
    apply ST.bind (ST.alloc (show Cell.hi k (Cell.arr (xs.map Tree.toVal)) from by
      intro v hv
      obtain ⟨t, _, rfl⟩ := List.mem_map.mp hv
      exact toVal_hi t))
    intro c hc
    exact ST.ret (show Val.hi k (Val.aref c) from hc)
  | null => exact ST.ret (toVal_hi _)
  | bool b => exact ST.ret (toVal_hi _)
  | int i => exact ST.ret (toVal_hi _)
  | flt f => exact ST.ret (toVal_hi _)
  | str x => exact ST.ret (toVal_hi _)
  | obj kvs => exact ST.ret (toVal_hi _)

/-- the result function of a text/conversion function ends in a value or a mild stop -/
def ScalarFn.MildFin (g : ScalarFn) : Prop := ∀ n acc, Mild (g.fin n acc)

theorem fnScalar_st (g : ScalarFn) (hg : g.MildFin) (e : Arg → M Val) (args : List Arg) (he : ∀ a ∈ args, ST k (e a)) :
    ST k (fnScalar g e args) := by
  have hw := wantLoop_st e _ (g.wants args.length) [] (swapArgs_mem (b := g.swap) he)
  unfold fnScalar
  split
  · exact ST.stop _
  · apply ST.bind hw
    intro acc _
    apply ST.bind (ST.liftE (fun _ _ => trivial) (hg _ _))
    intro t _
    exact retTree_st t

theorem asciiOr_mild {s : Bytes} {r : Except Stop Tree} (hr : Mild r) : Mild (asciiOr s r) := by
  unfold asciiOr; split <;> first | exact hr | mild_tac

theorem sliceStr_mild (s : Bytes) (a b : Int) : Mild (sliceStr s a b) := by
  unfold sliceStr; split <;> mild_tac

macro "fin_mild" : tactic =>
  `(tactic| repeat' (first
      | mild_tac
      | exact sliceStr_mild _ _ _
      | (apply asciiOr_mild)
      | split))

theorem sfCase_mild (f : UInt8 → UInt8) : (sfCase f).MildFin := by
  intro n acc; simp only [sfCase]; fin_mild
theorem sfTitle_mild : sfTitle.MildFin := by
  intro n acc; simp only [sfTitle]; fin_mild
theorem sfTrim_mild : sfTrim.MildFin := by
  intro n acc; simp only [sfTrim]; fin_mild
theorem sfReplace_mild : sfReplace.MildFin := by
  intro n acc; simp only [sfReplace]; fin_mild
theorem sfSplit_mild : sfSplit.MildFin := by
  intro n acc; simp only [sfSplit]; fin_mild
theorem sfSubstr_mild : sfSubstr.MildFin := by
  intro n acc; simp only [sfSubstr]; fin_mild
theorem sfJoin_mild : sfJoin.MildFin := by
  intro n acc; simp only [sfJoin]; fin_mild
theorem sfInt_mild : sfInt.MildFin := by
  intro n acc; simp only [sfInt]; fin_mild
theorem sfFloat_mild : sfFloat.MildFin := by
  intro n acc; simp only [sfFloat, floatOfText]; fin_mild
theorem sfString_mild : sfString.MildFin := by
  intro n acc; simp only [sfString]; fin_mild

theorem fnTable_mildFin {f : Bytes} {g : ScalarFn} (h : fnKind f = some (.scalar g)) : g.MildFin := by
  have hm := lookupKind_mem h
  simp [fnTable] at hm
  rcases hm with ⟨_, hm⟩ | ⟨_, hm⟩ | ⟨_, hm⟩ | ⟨_, hm⟩ | ⟨_, hm⟩ | ⟨_, hm⟩ | ⟨_, hm⟩ | ⟨_, hm⟩ | ⟨_, hm⟩ | ⟨_, hm⟩ | ⟨_, hm⟩ <;> subst hm
  · exact sfCase_mild _
  · exact sfCase_mild _
  · exact sfTitle_mild
  · exact sfTrim_mild
  · exact sfReplace_mild
  · exact sfSplit_mild
  · exact sfSubstr_mild
  · exact sfJoin_mild
  · exact sfInt_mild
  · exact sfFloat_mild
  · exact sfString_mild

theorem fnReverse_st (e : Arg → M Val) (args : List Arg) (he : ∀ a ∈ args, ST k (e a)) : ST k (fnReverse e args) := by
  match args with
  | [] => simp only [fnReverse]; st
  | [a] =>
    simp only [fnReverse]
    apply ST.bind (he a (by simp))
    intro v hv
    cases v <;> try exact ST.stop _
    rename_i c
    simp only
    apply ST.bind ST.getH
    intro h hh
    apply ST.bind (ST.alloc (show Cell.hi k (Cell.arr (h.arrAt c).reverse) from by
      intro v hv'
      exact arrAt_hi hh.1 hv v (by simpa using hv')))
    intro c' hc'
    exact ST.ret (show Val.hi k (Val.aref c') from hc')
  | _ :: _ :: _ => simp only [fnReverse]; st

theorem fnAppend_st (e : Arg → M Val) (args : List Arg) (he : ∀ a ∈ args, ST k (e a)) : ST k (fnAppend e args) := by
  match args with
  | [] => simp only [fnAppend]; st
  | [_] => simp only [fnAppend]; st
  | [a, b] =>
    simp only [fnAppend]
    apply ST.bind (he a (by simp))
    intro v hv
    cases v <;> try exact ST.stop _
    rename_i c
    simp only
    apply ST.bind (he b (by simp))
    intro w hw
    apply ST.bind ST.getH
    intro h hh
    apply ST.bind (ST.alloc (show Cell.hi k (Cell.arr (h.arrAt c ++ [w])) from by
      intro x hx
      rcases List.mem_append.mp hx with h1 | h1
      · exact arrAt_hi hh.1 hv x h1
      · simp at h1; subst h1; exact hw))
    intro c' hc'
    exact ST.ret (show Val.hi k (Val.aref c') from hc')
  | _ :: _ :: _ :: _ => simp only [fnAppend]; st

theorem includeLoop_mild (v1 : Val) : ∀ (xs : List Val), Mild (includeLoop v1 xs)
  | [] => by simp only [includeLoop]; mild_tac
  | m :: r => by
    simp only [includeLoop]
    split
    · mild_tac
    · mild_tac
    · exact includeLoop_mild v1 r

theorem fnInclude_st (e : Arg → M Val) (args : List Arg) (he : ∀ a ∈ args, ST k (e a)) : ST k (fnInclude e args) := by
  match args with
  | [] => simp only [fnInclude]; st
  | [_] => simp only [fnInclude]; st
  | [a, b] =>
    simp only [fnInclude]
    apply ST.bind (he b (by simp))
    intro v1 _
    apply ST.bind (he a (by simp))
    intro v _
    cases v <;> try exact ST.stop _
    · cases v1 <;> first | exact ST.stop _ | exact ST.ret trivial
    · rename_i c
      simp only
      apply ST.bind ST.getH
      intro h _
      exact ST.liftE (fun r hr => includeLoop_hi v1 _ r hr) (includeLoop_mild v1 _)
  | _ :: _ :: _ :: _ => simp only [fnInclude]; st

theorem mild_error_cast {α β : Type} {e : Stop} (h : Mild (.error e : Except Stop α)) : Mild (.error e : Except Stop β) :=
  fun e' he' => by cases he'; exact h e rfl

theorem sortLess_mild (ki kj : Option Val) : Mild (sortLess ki kj) := by
  unfold sortLess
  repeat' (first | mild_tac | split)

theorem sortInsert_mild (x : Option Val × Val) : ∀ (pre : List (Option Val × Val)), Mild (sortInsert x pre)
  | [] => by simp only [sortInsert]; mild_tac
  | p :: r => by
    have hl := sortLess_mild x.1 p.1
    have ih := sortInsert_mild x r
    simp only [sortInsert]
    split
    · rename_i e he; rw [he] at hl; exact mild_error_cast hl
    · cases hr : sortInsert x r with
      | error e => rw [hr] at ih; simpa using ih
      | ok l => simp; mild_tac
    · mild_tac

theorem sortRun_mild : ∀ (xs pre : List (Option Val × Val)), Mild (sortRun xs pre)
  | [], pre => by simp only [sortRun]; mild_tac
  | x :: r, pre => by
    have hi := sortInsert_mild x pre
    simp only [sortRun]
    split
    · rename_i e he; rw [he] at hi; exact hi
    · exact sortRun_mild r _

theorem sortKeys_mild (env : Env) (h : Heap) (fs : List Frag) : ∀ (xs : List Val), Mild (sortKeys env h fs xs)
  | [] => by simp only [sortKeys]; mild_tac
  | x :: r => by
    have hp := pathFirst_mild env h fs x
    have ih := sortKeys_mild env h fs r
    simp only [sortKeys]
    split
    · rename_i e he; rw [he] at hp; exact mild_error_cast hp
    · cases hr : sortKeys env h fs r with
      | error e => rw [hr] at ih; simpa using ih
      | ok l => simp; mild_tac

theorem sortList_mild (env : Env) (h : Heap) (fs : List Frag) (xs : List Val) : Mild (sortList env h fs xs) := by
  have hk := sortKeys_mild env h fs xs
  unfold sortList
  split
  · mild_tac
  · split
    · rename_i e he; rw [he] at hk; exact mild_error_cast hk
    · rename_i ks _
      have hr := sortRun_mild ks []
      cases hrr : sortRun ks [] with
      | error e => rw [hrr] at hr; simpa using mild_error_cast (β := List Val) hr
      | ok l => simp; mild_tac

theorem fnSort_st (env : Env) (e : Arg → M Val) (args : List Arg) (he : ∀ a ∈ args, ST k (e a)) : ST k (fnSort env e args) := by
  match args with
  | [] => simp only [fnSort]; st
  | [_] => simp only [fnSort]; st
  | [a, b] =>
    simp only [fnSort]
    apply ST.bind (he a (by simp))
    intro v hv
    cases v <;> try exact ST.stop _
    rename_i c
    cases b <;> try exact ST.stop _
    rename_i p
    simp only
    apply ST.bind ST.getH
    intro h hh
    apply ST.bind (ST.liftE (α := List Val) (fun r hr v hv' => arrAt_hi hh.1 hv v (sortList_mem env h p.frags _ r hr v hv'))
      (sortList_mild env h p.frags _))
    intro r hr
    apply ST.bind (ST.alloc (show Cell.hi k (Cell.arr r) from hr))
    intro c' hc'
    exact ST.ret (show Val.hi k (Val.aref c') from hc')
  | _ :: _ :: _ :: _ => simp only [fnSort]; st

/-- the functions that compare containers structurally (the only modelled traversal that can fail to end,
on cyclic data) -/
def deepCmpFns : List Bytes := [b!"equal", b!"eq", b!"==", b!"neq", b!"!="]

theorem fnKind_equal {f : Bytes} (h : fnKind f = some .equal) : f ∈ deepCmpFns := by
  have hm := lookupKind_mem h
  simp [fnTable] at hm
  rcases hm with hm | hm | hm <;> simp [hm, deepCmpFns]

theorem fnKind_neq {f : Bytes} (h : fnKind f = some .neq) : f ∈ deepCmpFns := by
  have hm := lookupKind_mem h
  simp [fnTable] at hm
  rcases hm with hm | hm <;> simp [hm, deepCmpFns]

/-- `Fit k n a`: the plan `a` can be evaluated with fuel `n` without fault — its literals live in the plan's
cells (below `k`), it never calls `equal`/`neq` (a plan that cannot diverge), and its calls nest at most
`n` deep (the elements of a list literal count at the level of the list: `cond` evaluates them) -/
inductive Fit (k : Nat) : Nat → Arg → Prop where
  | lit (n : Nat) (v : Val) : v.lo k → Fit k n (.lit v)
  | raw (n : Nat) (v : Val) (es : List Arg) : v.lo k → (∀ e ∈ es, Fit k n e) → Fit k n (.raw v es)
  | path (n : Nat) (p : Path) : Fit k n (.path p)
  | unk (n : Nat) : Fit k n .unk
  | call (n : Nat) (f : Bytes) (args : List Arg) : f ∉ deepCmpFns → (∀ a ∈ args, Fit k n a) → Fit k (n + 1) (.call f args)

theorem Fit.argLo {n : Nat} {a : Arg} (h : Fit k n a) : ArgLo k a := by
  induction h with
  | lit n v hv => exact .lit v hv
  | raw n v es hv _ ih => exact .raw v es hv ih
  | path n p => exact .path p
  | unk n => exact .unk
  | call n f args _ _ ih => exact .call f args ih

theorem evalFn_st (dev : Dev) (hd : dev.copies) (ev : Arg → Val → M Val) (root at_ : Val) (hroot : root.hi k)
    (hat : at_.hi k) (f : Bytes) (hf : f ∉ deepCmpFns) (args : List Arg) (hlo : ∀ a ∈ args, ArgLo k a)
    (hev : ∀ a ∈ args, ∀ at', at'.hi k → ST k (ev a at'))
    (hkid : ∀ a ∈ args, ∀ c ∈ condKids a, ∀ at', at'.hi k → ST k (ev c at')) :
    ST k (evalFn ⟨dev, none⟩ ev root at_ f args) := by
  have he : ∀ a ∈ args, ST k (ev a at_) := fun a ha => hev a ha at_ hat
  have hk : ∀ a ∈ args, ∀ c ∈ condKids a, ST k (ev c at_) := fun a ha c hc => hkid a ha c hc at_ hat
  unfold evalFn
  cases hkf : fnKind f with
  | none => exact ST.stop _
  | some kd =>
    simp only []
    cases kd <;> simp only [evalKind]
    case sum => exact fnSum_st _ _ he
    case arith op => exact fnArith_st _ _ _ _ he
    case mod => exact fnMod_st _ _ he
    case cmp op => exact fnCmp_st _ hd.1 _ _ _ he
    case equal => exact absurd (fnKind_equal hkf) hf
    case neq => exact absurd (fnKind_neq hkf) hf
    case and => exact fnAnd_st _ _ he
    case or => exact fnOr_st _ _ he
    case not => exact fnNot_st _ _ he
    case cond => exact fnCond_st _ hd.2.2 _ _ hk
    case get => exact fnGet_st _ _ _ _ hroot hat _ he
    case getall => exact fnGetall_st _ _ _ _ hroot hat _ he
    case set => exact fnSet_st _ _ _ hroot hat _ he
    case del => exact fnDel_st _ _ hroot hat _
    case each => exact fnEach_st _ _ hat _ hev
    case pathOf isAt => exact fnPathOf_st _ _ _ he
    case asm => exact fnAsm_st _ _ _ hat hev
    case quote => exact fnQuote_evalLit_st _ hd.2.1 _ hlo
    case list => exact fnList_st _ _ he
    case nth => exact fnNth_st _ _ he
    case size => exact fnSize_st _ _ he
    case pred p => exact fnPred_st _ _ _ he
    case scalar g => exact fnScalar_st _ (fnTable_mildFin hkf) _ _ he
    case reverse => exact fnReverse_st _ _ he
    case append => exact fnAppend_st _ _ he
    case incl => exact fnInclude_st _ _ he
    case sort => exact fnSort_st _ _ _ he

theorem eval_st (dev : Dev) (hd : dev.copies) (root : Val) (hroot : root.hi k) :
    ∀ (n : Nat) (a : Arg), Fit k n a → ∀ at_, at_.hi k → ST k (eval ⟨dev, none⟩ root n a at_)
  | n, .lit v, hfit, at_, _ => by
    simp only [eval]
    cases hfit with
    | lit _ _ hv => exact evalLit_st dev hd.2.1 v hv
  | n, .raw v es, hfit, at_, _ => by
    simp only [eval]
    cases hfit with
    | raw _ _ _ hv _ => exact evalLit_st dev hd.2.1 v hv
  | n, .path p, _, at_, hat => by
    simp only [eval]
    apply ST.bind ST.getH
    intro h hh
    apply ST.bind (first_st dev h hh _ (by split <;> assumption) _)
    intro r hr
    exact ST.ret (getD_null_hi hr)
  | n, .unk, _, at_, _ => by simp only [eval]; exact ST.stop _
  | 0, .call f args, hfit, at_, _ => by cases hfit
  | n + 1, .call f args, hfit, at_, hat => by
    simp only [eval]
    cases hfit with
    | call _ _ _ hf hargs =>
      refine evalFn_st dev hd _ root at_ hroot hat f hf args (fun a ha => (hargs a ha).argLo)
        (fun a ha at' hat' => eval_st dev hd root hroot n a (hargs a ha) at' hat') ?_
      intro a ha c hc at' hat'
      have hfa := hargs a ha
      cases a <;> simp [condKids] at hc
      cases hfa with
      | raw _ _ _ _ hes => exact eval_st dev hd root hroot n c (hes c hc) at' hat'

end OjgVerif.Asm
