import OjgVerif.Asm.Lemmas
/-! Number lemmas of the `asm` family: int64 wrap-around is a ring homomorphism for + and −, exact
comparison of integers, neighbour chains versus all pairs. -/
namespace OjgVerif.Asm
open OjgVerif

/-! ## closed forms -/

theorem wrap64_add_left (a b : Int) : wrap64 (wrap64 a + b) = wrap64 (a + b) := by unfold wrap64; omega
theorem wrap64_sub_left (a b : Int) : wrap64 (wrap64 a - b) = wrap64 (a - b) := by unfold wrap64; omega

def inInt64 (i : Int) : Prop := minInt64 ≤ i ∧ i ≤ maxInt64

theorem wrap64_of_inInt64 {i : Int} (h : inInt64 i) : wrap64 i = i := by
  unfold inInt64 minInt64 maxInt64 at h
  unfold wrap64
  omega

theorem foldAdd_ints : ∀ (xs : List Int) (a : Int),
    Spec.foldM' Spec.add2 (.int (wrap64 a)) (xs.map .int) = .ok (.int (wrap64 (a + xs.sum)))
  | [], a => by simp [Spec.foldM']
  | y :: ys, a => by
    simp only [List.map, Spec.foldM', Spec.add2, wrap64_add_left, List.sum_cons]
    rw [foldAdd_ints ys (a + y), Int.add_assoc]

theorem foldDif_ints (dev : Dev) : ∀ (xs : List Int) (a : Int),
    Spec.foldM' (Spec.arith2 dev .dif) (.int (wrap64 a)) (xs.map .int) = .ok (.int (wrap64 (a - xs.sum)))
  | [], a => by simp [Spec.foldM']
  | y :: ys, a => by
    simp only [List.map, Spec.foldM', Spec.arith2, Spec.Arith.onInt, wrap64_sub_left, List.sum_cons]
    rw [foldDif_ints dev ys (a - y)]
    congr 3
    omega

theorem smant_natAbs (i : Int) : Flt.smant (decide (i < 0)) i.natAbs = i := by
  unfold Flt.smant
  by_cases h : i < 0 <;> simp [h] <;> omega

def exactFlt (i : Int) : Flt := .fin (decide (i < 0)) i.natAbs 0

theorem exactFlt_lt (x y : Int) : Flt.lt (exactFlt x) (exactFlt y) = decide (x < y) := by
  simp [exactFlt, Flt.lt, Flt.align, smant_natAbs]

theorem exactFlt_eq (x y : Int) : Flt.eq (exactFlt x) (exactFlt y) = decide (x = y) := by
  simp [exactFlt, Flt.eq, Flt.align, smant_natAbs]

theorem fHolds_lt_exact (x y : Int) : CmpOp.fHolds .lt (exactFlt x) (exactFlt y) = decide (x < y) := by
  simp only [CmpOp.fHolds, Flt.le, exactFlt_lt, exactFlt_eq]
  by_cases h : x < y
  · have h1 : ¬ y < x := by omega
    have h2 : ¬ y = x := by omega
    simp [h, h1, h2]
  · by_cases h3 : y < x
    · simp [h, h3]
    · have : y = x := by omega
      simp [this]

/-- neighbours in order -/
def intChain : Int → List Int → Bool
  | _, [] => true
  | a, b :: r => decide (a < b) && intChain b r

theorem numChain_lt_ints (dev : Dev) (hd : dev.cmpFloat = false) : ∀ (ys : List Int) (x : Int),
    Spec.numChain dev .lt (exactFlt x) (ys.map .int) = .ok (.bool (intChain x ys))
  | [], x => by simp [Spec.numChain, intChain]
  | y :: r, x => by
    have hy : Spec.numOf dev (.int y) = some (exactFlt y) := by simp [Spec.numOf, asFloat, hd, exactFlt]
    simp only [List.map, Spec.numChain, hy, fHolds_lt_exact, intChain]
    by_cases h : x < y
    · simp [h, numChain_lt_ints dev hd r y]
    · simp [h]

theorem intChain_pairwise : ∀ (ys : List Int) (x : Int), intChain x ys = true ↔ (x :: ys).Pairwise (· < ·)
  | [], x => by simp [intChain]
  | y :: r, x => by
    have ih := intChain_pairwise r y
    simp only [intChain, Bool.and_eq_true, decide_eq_true_eq, ih, List.pairwise_cons]
    constructor
    · rintro ⟨hxy, hall, hp⟩
      refine ⟨?_, hall, hp⟩
      intro z hz
      rcases List.mem_cons.mp hz with hz | hz
      · subst hz; exact hxy
      · exact Int.lt_trans hxy (hall z hz)
    · rintro ⟨hx, hall, hp⟩
      exact ⟨hx y (List.mem_cons_self ..), hall, hp⟩

end OjgVerif.Asm
