import OjgVerif.Asm.Data
/-! # Executable model of `asm` plans (asm/plan.go, asm/fn.go and the function files)

Go data is a graph: maps and slices are references, `set` stores the reference it is given, and the
literals of a plan are handed out by reference too. The model therefore keeps a HEAP of cells
(`Cell.arr`, `Cell.map`) and values that point into it (`Val.aref`, `Val.mref`); aliasing, cyclic data
and the mutation of plan literals are all expressible. One Lean branch per Go branch.

What is modelled
* `NewPlan`/`Fn.compile`/`evalValue` (`newPlan`, `compileArg`), `evalArg` (`eval`), `Plan.Execute` with
  its deferred `recover` (`execute`), `Fn.Simplify` (`simplify`);
* the functions of `modelledFns` (arithmetic, comparison, logic, `cond`, get/set/del, `each`, `at`,
  `root`, `asm`, `quote`, `list`, `nth`, `size`, the type predicates; since round 3 the text and conversion
  functions `tolower toupper title trim replace split substr join int float string` — one evaluator
  `fnScalar` over per-function records, Asm/Data.lean — and the list functions `reverse append include
  sort`); a call of one of the four other registered functions (`unmodelledFns`: `inspect`, `time`,
  `time?`, `zone` — stdout, the clock, the zone database) makes the whole run `unmodelled`; so do, inside
  the modelled functions: non-ASCII text, `string` with a format or of a list/map, `float` of a text with more than 40 digits or that may spell an infinity, NaN or hexadecimal float, `int` of a float outside int64, `sort` of more than 12 elements;
* JSONPath arguments: ONLY `$`/`@` followed by member names (`.name`), indexes (`[n]`) and a final
  wildcard (`.*`, for reading only). Any other path text makes the run `unmodelled`; the general
  JSONPath engine (jp.Get/First/Set) is outside this model.
* numbers: int64 with Go's wrap-around, binary64 exactly (`Num.lean`).

Deviations of the pinned code from its documentation are carried explicitly as `Dev` flags
(`Dev.current` = the code as it is, `Dev.none` = the documented behaviour), see `known_findings.json`
and `notes/proposed_fixes/C20_*.md`. -/
namespace OjgVerif.Asm
open OjgVerif

/-! ## plans -/

/-- compiled arguments; `L` is the type of literals (`Tree` before loading, `Val` after) -/
inductive ArgG (L : Type) where
  /-- anything `Fn.compile` leaves alone: scalars, maps, strings that are not paths -/
  | lit (l : L)
  /-- a list that does not start with a function name: stays a literal list; `elems` are its elements
  as `evalValue` (cond) compiles them -/
  | raw (l : L) (elems : List (ArgG L))
  | path (p : Path)
  | call (f : Bytes) (args : List (ArgG L))
  /-- outside the model: unmodelled function, or a `$…`/`@…` string that is not a simple path -/
  | unk
  deriving Inhabited

abbrev ArgT := ArgG Tree
abbrev Arg := ArgG Val

def modelledFns : List Bytes :=
  [b!"sum", b!"+", b!"dif", b!"-", b!"product", b!"*", b!"quotient", b!"/", b!"mod",
   b!"lt", b!"<", b!"lte", b!"<=", b!"gt", b!">", b!"gte", b!">=", b!"equal", b!"eq", b!"==", b!"neq", b!"!=",
   b!"and", b!"or", b!"not", b!"cond",
   b!"get", b!"getall", b!"set", b!"setall", b!"del", b!"delall", b!"each", b!"at", b!"root", b!"asm",
   b!"quote", b!"list", b!"nth", b!"size", b!"array?", b!"bool?", b!"map?", b!"nil?", b!"null?", b!"num?", b!"string?",
   b!"append", b!"float", b!"include", b!"int", b!"join", b!"replace", b!"reverse", b!"sort", b!"split",
   b!"string", b!"substr", b!"title", b!"tolower", b!"toupper", b!"trim"]

/-- the clock, the time zone database and the printer to stdout are outside the model -/
def unmodelledFns : List Bytes :=
  [b!"inspect", b!"time", b!"time?", b!"zone"]

def isModelled (f : Bytes) : Bool := modelledFns.contains f
def isRegistered (f : Bytes) : Bool := modelledFns.contains f || unmodelledFns.contains f

/-! ### NewPlan / Fn.compile / evalValue -/

/-- `name :: rest` when the list starts with the name of a registered function -/
def callForm : List Tree → Option (Bytes × List Tree)
  | .str name :: rest => if isRegistered name then some (name, rest) else none
  | _ => none

/-- one argument as `Fn.compile` leaves it (and as `evalValue` reads a `cond` element) -/
def compileArg : Nat → Tree → ArgT
  | 0, _ => .unk
  | n + 1, .arr xs =>
    match callForm xs with
    | some (name, rest) =>
      if !isModelled name then .unk
      else if name = b!"quote" then .call name (rest.map .lit)   -- quote has an empty Compile
      else .call name (rest.map (compileArg n))
    | none => .raw (.arr xs) (xs.map (compileArg n))
  | _ + 1, .str s =>
    match s with
    | c :: _ =>
      if c = 36 || c = 64 then
        match parsePath s with
        | some p => .path p
        | none => .unk          -- jp.Parse may or may not accept it: outside the model
      else .lit (.str s)
    | [] => .lit (.str s)
  | _ + 1, t => .lit t

/-- `NewPlan`: `none` is the nil plan (empty array); otherwise the top function and its arguments -/
def newPlan (fuel : Nat) : List Tree → Option ArgT
  | [] => none
  | xs =>
    match callForm xs with
    | some (name, rest) =>
      if !isModelled name then some .unk
      else if name = b!"quote" then some (.call name (rest.map .lit))
      else some (.call name (rest.map (compileArg fuel)))
    | none => some (.call b!"asm" (xs.map (compileArg fuel)))

/-- `Fn.Simplify` (tree level); fuel bounds the nesting of calls -/
def simplify : Nat → ArgT → Tree
  | _, .lit t => t
  | _, .raw t _ => t
  | _, .path p => .str (pathText p)
  | _, .unk => .null
  | 0, .call _ _ => .null
  | n + 1, .call f args => .arr (.str f :: args.map (simplify n))

/-- every path of the compiled plan prints to a text that parses back to it (decidable; the driver
evaluates it on every case) -/
def pathsRoundTrip : Nat → ArgT → Bool
  | _, .lit _ => true
  | _, .path p => parsePath (pathText p) == some p
  | _, .unk => false
  | 0, .raw _ _ => false
  | 0, .call _ _ => false
  | n + 1, .raw _ es => es.all (pathsRoundTrip n)
  | n + 1, .call _ args => args.all (pathsRoundTrip n)

/-- does the compiled plan leave the model anywhere -/
def ArgG.hasUnk : Nat → ArgG L → Bool
  | 0, _ => true
  | _ + 1, .lit _ => false
  | n + 1, .raw _ es => es.any (ArgG.hasUnk n)
  | _ + 1, .path _ => false
  | n + 1, .call _ args => args.any (ArgG.hasUnk n)
  | _ + 1, .unk => true

/-! ### loading trees into the heap -/

def loadTree : Nat → Tree → M Val
  | 0, _ => stop .fuel
  | _ + 1, .null => pure .null
  | _ + 1, .bool b => pure (.bool b)
  | _ + 1, .int i => pure (.int i)
  | _ + 1, .flt f => pure (.flt f)
  | _ + 1, .str s => pure (.str s)
  | n + 1, .arr xs => do
    let vs ← mapM' (loadTree n) xs
    let a ← alloc (.arr vs)
    pure (.aref a)
  | n + 1, .obj kvs => do
    let vs ← mapM' (fun (kv : Bytes × Tree) => do
      let v ← loadTree n kv.2
      pure (kv.1, v)) kvs
    -- a later duplicate key wins, as in a Go map literal built by a parser
    let a ← alloc (.map (vs.foldl (fun acc kv => kvSet kv.1 kv.2 acc) []))
    pure (.mref a)

def loadArg : Nat → ArgT → M Arg
  | 0, _ => stop .fuel
  | n + 1, .lit t => do
    let v ← loadTree (n + 1) t
    pure (.lit v)
  | n + 1, .raw t elems => do
    let v ← loadTree (n + 1) t
    let es ← mapM' (loadArg n) elems
    pure (.raw v es)
  | _ + 1, .path p => pure (.path p)
  | n + 1, .call f args => do
    let as ← mapM' (loadArg n) args
    pure (.call f as)
  | _ + 1, .unk => pure .unk

/-! ## the functions -/

inductive SumAcc where
  | i (x : Int) | f (x : Flt) | s (x : Bytes)

/-- one step of `sum` after the first argument -/
def sumStep (acc : SumAcc) (v : Val) : Except Stop SumAcc :=
  match v, acc with
  | .int ii, .i x => .ok (.i (wrap64 (x + ii)))
  | .int ii, .f x => .ok (.f (Flt.add x (Flt.ofInt ii)))
  | .int ii, .s x => .ok (.s (x ++ fmtD ii))
  | .flt f, .i x => .ok (.f (Flt.add (Flt.ofInt x) f))
  | .flt f, .f x => .ok (.f (Flt.add x f))
  | .flt f, .s x => match fmtG f with | some t => .ok (.s (x ++ t)) | none => .error .unmodelled
  | .str s, .i x => .ok (.s (fmtD x ++ s))
  | .str s, .f x => match fmtG x with | some t => .ok (.s (t ++ s)) | none => .error .unmodelled
  | .str s, .s x => .ok (.s (x ++ s))
  | _, _ => .error .panic

/-- the first argument of `sum` decides the kind -/
def sumFirst (v : Val) : Except Stop SumAcc :=
  match v with
  | .int ii => .ok (.i ii)
  | .flt f => .ok (.f (Flt.add (.fin false 0 0) f))
  | .str s => .ok (.s s)
  | _ => .error .panic

def SumAcc.val : SumAcc → Val
  | .i x => .int x | .f x => .flt x | .s x => .str x

def sumLoop (ev : Arg → M Val) (acc : SumAcc) : List Arg → M Val
  | [] => pure acc.val
  | a :: r => do
    let v ← ev a
    let acc' ← liftE (sumStep acc v)
    sumLoop ev acc' r

def fnSum (ev : Arg → M Val) : List Arg → M Val
  | [] => pure (.int 0)
  | a :: r => do
    let v ← ev a
    let acc ← liftE (sumFirst v)
    sumLoop ev acc r

inductive NumAcc where
  | i (x : Int) | f (x : Flt)

def NumAcc.val : NumAcc → Val
  | .i x => .int x | .f x => .flt x

inductive ArithOp where
  | dif | product | quotient
  deriving DecidableEq

def ArithOp.fop : ArithOp → Flt → Flt → Flt
  | .dif => Flt.sub | .product => Flt.mul | .quotient => Flt.div

/-- int64 operation; `none` = run-time panic (integer divide by zero) -/
def ArithOp.iop : ArithOp → Int → Int → Option Int
  | .dif, x, y => some (wrap64 (x - y))
  | .product, x, y => some (wrap64 (x * y))
  | .quotient, x, y => if y = 0 then none else some (wrap64 (Int.tdiv x y))

/-- float step; a zero divisor is an error only in the documented behaviour -/
def arithF (dev : Dev) (op : ArithOp) (x y : Flt) : Except Stop NumAcc :=
  if op = .quotient && y.isZero && !dev.divZeroInf then .error .panic
  else .ok (.f (op.fop x y))

def arithStep (dev : Dev) (op : ArithOp) (acc : NumAcc) (v : Val) : Except Stop NumAcc :=
  match v, acc with
  | .int ii, .i x => match op.iop x ii with | some r => .ok (.i r) | none => .error .panic
  | .int ii, .f x => arithF dev op x (Flt.ofInt ii)
  | .flt f, .i x => arithF dev op (Flt.ofInt x) f
  | .flt f, .f x => arithF dev op x f
  | _, _ => .error .panic

def arithFirst (v : Val) : Except Stop NumAcc :=
  match v with
  | .int ii => .ok (.i ii)
  | .flt f => .ok (.f f)
  | _ => .error .panic

def arithLoop (dev : Dev) (op : ArithOp) (ev : Arg → M Val) (acc : NumAcc) : List Arg → M Val
  | [] => pure acc.val
  | a :: r => do
    let v ← ev a
    let acc' ← liftE (arithStep dev op acc v)
    arithLoop dev op ev acc' r

def fnArith (dev : Dev) (op : ArithOp) (ev : Arg → M Val) : List Arg → M Val
  | [] => pure (.int 0)
  | a :: r => do
    let v ← ev a
    let acc ← liftE (arithFirst v)
    arithLoop dev op ev acc r

def fnMod (ev : Arg → M Val) : List Arg → M Val
  | [a, b] => do
    let v0 ← ev a
    match asInt v0 with
    | none => stop .panic
    | some n0 => do
      let v1 ← ev b
      match asInt v1 with
      | none => stop .panic
      | some n1 => if n1 = 0 then stop .panic else pure (.int (Int.tmod n0 n1))
  | _ => stop .panic

def cmpNumLoop (dev : Dev) (op : CmpOp) (ev : Arg → M Val) (f0 : Flt) : List Arg → M Val
  | [] => pure (.bool true)
  | a :: r => do
    let v ← ev a
    match asFloat (!dev.cmpFloat) v with
    | none => stop .panic
    | some f => if op.fHolds f0 f then cmpNumLoop dev op ev f r else pure (.bool false)

def cmpStrLoop (op : CmpOp) (ev : Arg → M Val) (s0 : Bytes) : List Arg → M Val
  | [] => pure (.bool true)
  | a :: r => do
    let v ← ev a
    if op.sHolds s0 v.strOrEmpty then cmpStrLoop op ev v.strOrEmpty r else pure (.bool false)

/-- the value the type switch of `lt`… looks at: the evaluated first argument in the documented
behaviour; in the code the argument itself (a literal number or string, anything else is an error) -/
def cmpHead (dev : Dev) (ev : Arg → M Val) (a : Arg) : M Val :=
  if dev.cmpUneval then
    match a with
    | .lit v => pure v
    | .unk => stop .unmodelled      -- may be a string jp.Parse rejects: a string literal after all
    | _ => stop .panic
  else ev a

def fnCmp (dev : Dev) (op : CmpOp) (ev : Arg → M Val) : List Arg → M Val
  | [] => pure (.bool true)
  | a :: r => do
    let t0 ← cmpHead dev ev a
    match t0 with
    | .str s => cmpStrLoop op ev s r
    | v =>
      match asFloat (!dev.cmpFloat) v with
      | some f => cmpNumLoop dev op ev f r
      | none => stop .panic

/-- outcome of `equalVals`: `cyc` = the comparison re-enters a pair of containers it is already
comparing (Go recurses for ever), `amb` = true/false/cyc depends on the map iteration order -/
def equalM (dev : Dev) (v0 v1 : Val) : M Bool := fun h =>
  match eqVals dev h (eqFuel h) [] v0 v1 with
  | .yes => (.ok true, h)
  | .no => (.ok false, h)
  | .cyc => (.error .diverge, h)
  | .amb => (.error .enum, h)

def eqLoop (dev : Dev) (ev : Arg → M Val) (v0 : Val) : List Arg → M Bool
  | [] => pure true
  | a :: r => do
    let v ← ev a
    let e ← equalM dev v0 v
    if e then eqLoop dev ev v0 r else pure false

def fnEqual (dev : Dev) (ev : Arg → M Val) : List Arg → M Bool
  | [] => pure true
  | a :: r => do
    let v0 ← ev a
    eqLoop dev ev v0 r

def fnAnd (ev : Arg → M Val) : List Arg → M Val
  | [] => pure (.bool true)
  | a :: r => do
    let v ← ev a
    match v with
    | .null => pure (.bool false)
    | .bool false => pure (.bool false)
    | .bool true => fnAnd ev r
    | _ => stop .panic

def fnOr (ev : Arg → M Val) : List Arg → M Val
  | [] => pure (.bool false)
  | a :: r => do
    let v ← ev a
    match v with
    | .null => fnOr ev r
    | .bool false => fnOr ev r
    | .bool true => pure (.bool true)
    | _ => stop .panic

def fnNot (ev : Arg → M Val) : List Arg → M Val
  | [a] => do
    let v ← ev a
    match v with
    | .bool b => pure (.bool (!b))
    | _ => stop .panic
  | _ => stop .panic

/-- `evalValue` of one element of a `cond` pair -/
def evalValue (dev : Dev) (ev : Arg → M Val) (a : Arg) : M Val :=
  match a with
  | .raw v _ =>
    if dev.condListNil then pure .null
    else if dev.condListAlias then pure v      -- `result = tv`: the plan's list itself
    else ev a
  | _ => ev a

def fnCond (dev : Dev) (ev : Arg → M Val) : List Arg → M Val
  | [] => pure .null
  | a :: r =>
    match a with
    | .raw _ [c, v] => do
      let b ← evalValue dev ev c
      if b = .bool true then evalValue dev ev v else fnCond dev ev r
    | .lit (.aref _) => stop .unmodelled     -- not produced by compile
    | _ => stop .panic

/-- the path argument of get/getall/set/setall: a path, or a call that returns one -/
def pathArg (ev : Arg → M Val) (a : Arg) : M Path :=
  match a with
  | .path p => pure p
  | .call _ _ => do
    let v ← ev a
    match v with
    | .path p => pure p
    | _ => stop .panic
  | .unk => stop .unmodelled
  | _ => stop .panic

def fnGet (env : Env) (ev : Arg → M Val) (root at_ : Val) (args : List Arg) : M Val :=
  match args with
  | [a] => do
    let p ← pathArg ev a
    let h ← getHeap
    let r ← liftE (pathFirst env h (if p.isAt then at_ else root) p.frags)
    pure (r.getD .null)
  | [a, d] => do
    let p ← pathArg ev a
    let data ← ev d
    let h ← getHeap
    let r ← liftE (pathFirst env h data p.frags)
    pure (r.getD .null)
  | _ => stop .panic

def fnGetall (env : Env) (ev : Arg → M Val) (root at_ : Val) (args : List Arg) : M Val :=
  match args with
  | [a] => do
    let p ← pathArg ev a
    let h ← getHeap
    let r ← liftE (pathGet env h (if p.isAt then at_ else root) p.frags)
    let c ← alloc (.arr r)
    pure (.aref c)
  | [a, d] => do
    let p ← pathArg ev a
    let data ← ev d
    let h ← getHeap
    let r ← liftE (pathGet env h data p.frags)
    let c ← alloc (.arr r)
    pure (.aref c)
  | _ => stop .panic

/-- jp refuses an expression that ends with `$`/`@` -/
def setAt (value : Option Val) (p : Path) (root at_ : Val) : M Unit :=
  if p.frags.isEmpty then stop .panic
  else pathSet value (if p.isAt then at_ else root) p.frags

def fnSet (ev : Arg → M Val) (root at_ : Val) (args : List Arg) : M Val :=
  match args with
  | [a, b] => do
    let p ← pathArg ev a
    let v ← ev b
    setAt (some v) p root at_
    pure at_
  | _ => stop .panic

def fnDel (root at_ : Val) (args : List Arg) : M Val :=
  match args with
  | [a] =>
    match a with
    | .path p => do
      setAt none p root at_
      pure at_
    | .unk => stop .unmodelled
    | _ => stop .panic
  | _ => stop .panic

def eachLoop (ev : Arg → Val → M Val) (fn : Arg) (key : Bytes) (a : Nat) : Nat → Nat → List Val → M (List Val)
  | 0, _, acc => pure acc.reverse
  | k + 1, i, acc => do
    let h ← getHeap
    let src := (h.arrAt a).getD i .null      -- read when the iteration reaches it
    let m ← alloc (.map [(b!"src", src)])
    let _ ← ev fn (.mref m)
    let h2 ← getHeap
    eachLoop ev fn key a k (i + 1) ((kvGet key (h2.mapAt m)).getD .null :: acc)

def fnEach (ev : Arg → Val → M Val) (at_ : Val) (args : List Arg) : M Val :=
  let go (a0 fn : Arg) (k : Option Arg) : M Val := do
    let v ← ev a0 at_
    match v with
    | .aref a =>
      match fn with
      | .call _ _ => do
        let key ← (match k with
          | none => pure b!"asm"
          | some ka => do
            let kv ← ev ka at_
            match kv with
            | .str s => pure s
            | _ => stop .panic)
        let h ← getHeap
        let rs ← eachLoop ev fn key a (h.arrAt a).length 0 []
        let c ← alloc (.arr rs)
        pure (.aref c)
      | .unk => stop .unmodelled
      | _ => stop .panic
    | _ => stop .panic
  match args with
  | [a0, fn] => go a0 fn none
  | [a0, fn, k] => go a0 fn (some k)
  | _ => stop .panic

/-- the arguments of `at`/`root` joined with `.` -/
def joinLoop (ev : Arg → M Val) : List Arg → Bool → Bytes → M Bytes
  | [], _, acc => pure acc
  | a :: r, first, acc => do
    let v ← ev a
    match v with
    | .str s => joinLoop ev r false (if first then acc ++ s else acc ++ 46 :: s)
    | _ => stop .panic

def fnPathOf (isAt : Bool) (ev : Arg → M Val) (args : List Arg) : M Val := do
  let b ← joinLoop ev args true []
  match parseRel b with
  | some fs => pure (.path ⟨isAt, fs⟩)
  | none => stop .unmodelled      -- jp.Parse error (a panic) or a path outside the model

def fnAsm (ev : Arg → Val → M Val) : List Arg → Val → M Val
  | [], at_ => pure at_
  | a :: r, at_ => do
    let v ← ev a at_
    fnAsm ev r v

def fnQuote : List Arg → M Val
  | [] => pure .null
  | .lit v :: _ => pure v
  | .raw v _ :: _ => pure v
  | _ => stop .unmodelled           -- not produced by compile

def fnList (ev : Arg → M Val) (args : List Arg) : M Val := do
  let vs ← mapM' ev args
  let c ← alloc (.arr vs)
  pure (.aref c)

def fnNth (ev : Arg → M Val) : List Arg → M Val
  | [a, b] => do
    let v ← ev a
    match v with
    | .aref c => do
      let iv ← ev b
      match asInt iv with
      | none => stop .panic
      | some i => do
        let h ← getHeap
        match normIdx i (h.arrAt c).length with
        | some j => pure ((h.arrAt c).getD j .null)
        | none => pure .null
    | _ => stop .panic
  | _ => stop .panic

def fnSize (ev : Arg → M Val) : List Arg → M Val
  | [a] => do
    let v ← ev a
    let h ← getHeap
    match v with
    | .str s => pure (.int s.length)
    | .aref c => pure (.int (h.arrAt c).length)
    | .mref c => pure (.int (h.mapAt c).length)
    | _ => pure (.int 0)
  | _ => stop .panic

def fnPred (p : Val → Bool) (ev : Arg → M Val) : List Arg → M Val
  | [a] => do
    let v ← ev a
    pure (.bool (p v))
  | _ => stop .panic


/-! ## text and conversion functions: one shape

`tolower toupper title trim replace split substr join int float string` all work the same way: check the
number of arguments, evaluate the arguments one after the other, each followed by the type assertion the Go
code makes on it (a failed assertion is a panic BEFORE the next argument is evaluated), then compute the
result from the asserted values. The values that pass an assertion are scalars (or, for `join`, the strings
of the list): they are kept as `Tree`s, which cannot hold an address. One record per function
(`ScalarFn`), one evaluator (`fnScalar`). -/

def wantLoop (ev : Arg → M Val) : List Arg → List Want → List Tree → M (List Tree)
  | a :: r, w :: ws, acc => do
    let v ← ev a
    let h ← getHeap
    let xs ← liftE (w.accept h v)
    wantLoop ev r ws (acc ++ xs)
  | _, _, acc => pure acc

/-- a scalar result as it is, an array result as a new array -/
def retTree (t : Tree) : M Val :=
  match t with
  | .arr xs => do
    let c ← alloc (.arr (xs.map Tree.toVal))
    pure (.aref c)
  | t => pure t.toVal

def fnScalar (g : ScalarFn) (ev : Arg → M Val) (args : List Arg) : M Val :=
  if !g.arity args.length then stop .panic
  else do
    let acc ← wantLoop ev (if g.swap then args.reverse else args) (g.wants args.length) []
    let t ← liftE (g.fin args.length acc)
    retTree t

/-! ## list functions -/

/-- asm/reverse.go: a new array -/
def fnReverse (ev : Arg → M Val) : List Arg → M Val
  | [a] => do
    let v ← ev a
    match v with
    | .aref c => do
      let h ← getHeap
      let c' ← alloc (.arr (h.arrAt c).reverse)
      pure (.aref c')
    | _ => stop .panic
  | _ => stop .panic

/-- asm/append.go: a new array (since de3017e the code builds one with `make`/`copy`; before, Go's built-in `append`
reused spare capacity of the argument's backing array: finding C20-append-shares-backing, fixed) -/
def fnAppend (ev : Arg → M Val) : List Arg → M Val
  | [a, b] => do
    let v ← ev a
    match v with
    | .aref c => do
      let w ← ev b
      let h ← getHeap
      let c' ← alloc (.arr (h.arrAt c ++ [w]))
      pure (.aref c')
    | _ => stop .panic
  | _ => stop .panic

/-- the loop of `include` over a list: `m == v1` in order; comparing two lists, two maps or two paths panics -/
def includeLoop (v1 : Val) : List Val → Except Stop Val
  | [] => .ok (.bool false)
  | m :: r =>
    match goEq m v1 with
    | none => .error .panic
    | some true => .ok (.bool true)
    | some false => includeLoop v1 r

/-- asm/include.go: the SECOND argument is evaluated first -/
def fnInclude (ev : Arg → M Val) : List Arg → M Val
  | [a, b] => do
    let v1 ← ev b
    let v ← ev a
    match v with
    | .aref c => do
      let h ← getHeap
      liftE (includeLoop v1 (h.arrAt c))
    | .str s =>
      match v1 with
      | .str t => pure (.bool (containsSub s t))
      | _ => stop .panic
    | _ => stop .panic
  | _ => stop .panic

/-- the `less` of `sort` on two keys (`none` = the path selects nothing = nil): strings with strings, numbers
with numbers by their exact values (a NaN is less than nothing), anything else is an error -/
def sortLess (ki kj : Option Val) : Except Stop Bool :=
  match ki with
  | some (.str a) => (match kj with | some (.str b) => .ok (bytesLt a b) | _ => .error .panic)
  | some (.int a) =>
    (match kj.bind (asFloat true) with | some g => .ok (Flt.lt (.fin (decide (a < 0)) a.natAbs 0) g) | none => .error .panic)
  | some (.flt f) =>
    (match kj.bind (asFloat true) with | some g => .ok (Flt.lt f g) | none => .error .panic)
  | _ => .error .panic

/-- insert `x` into the sorted prefix `pre` (kept REVERSED: its head is the element just before `x`), as
`insertionSortLessFunc` does: swap down while `less(x, previous)` -/
def sortInsert (x : Option Val × Val) : List (Option Val × Val) → Except Stop (List (Option Val × Val))
  | [] => .ok [x]
  | p :: r =>
    match sortLess x.1 p.1 with
    | .error e => .error e
    | .ok true => (sortInsert x r).map (fun l => p :: l)
    | .ok false => .ok (x :: p :: r)

def sortRun : List (Option Val × Val) → List (Option Val × Val) → Except Stop (List (Option Val × Val))
  | [], pre => .ok pre
  | x :: r, pre =>
    match sortInsert x pre with
    | .error e => .error e
    | .ok pre' => sortRun r pre'

def sortKeys (env : Env) (h : Heap) (fs : List Frag) : List Val → Except Stop (List (Option Val × Val))
  | [] => .ok []
  | x :: r =>
    match pathFirst env h x fs with
    | .error e => .error e
    | .ok k => (sortKeys env h fs r).map (fun l => (k, x) :: l)

/-- `sort.Slice` on at most 12 elements is an insertion sort (Go's pdqsort switches to it below 13): exactly
the comparisons modelled here are made, so exactly these panics occur; longer lists are outside the model -/
def sortList (env : Env) (h : Heap) (fs : List Frag) (xs : List Val) : Except Stop (List Val) :=
  if xs.length > 12 then .error .unmodelled
  else match sortKeys env h fs xs with
    | .error e => .error e
    | .ok ks => (sortRun ks []).map (fun l => (l.map (·.2)).reverse)

/-- asm/sort.go: a sorted copy; the second argument must be a path as it stands in the plan (it is applied to
each element: `$` and `@` both mean the element) -/
def fnSort (env : Env) (ev : Arg → M Val) : List Arg → M Val
  | [a, b] => do
    let v ← ev a
    match v with
    | .aref c =>
      match b with
      | .path p => do
        let h ← getHeap
        let r ← liftE (sortList env h p.frags (h.arrAt c))
        let c' ← alloc (.arr r)
        pure (.aref c')
      | .unk => stop .unmodelled
      | _ => stop .panic
    | _ => stop .panic
  | _ => stop .panic

/-- evaluating a literal: the object itself (code), or a copy of it (documented) -/
def evalLit (dev : Dev) (v : Val) : M Val :=
  if dev.litAlias || v.isScalar then pure v
  else do
    let h ← getHeap
    copyVal (h.length + 1) v

/-- what a registered name stands for (aliases share a kind, as they share a Go function; `set`/`setall`
and `del`/`delall` are different Go functions — jp.SetOne/Set, jp.DelOne/Del — that agree on the
simple paths of this model) -/
inductive FnKind where
  | sum | arith (op : ArithOp) | mod | cmp (op : CmpOp) | equal | neq | and | or | not | cond
  | get | getall | set | del | each | pathOf (isAt : Bool) | asm | quote | list | nth | size
  | pred (p : Val → Bool)
  | scalar (g : ScalarFn) | reverse | append | incl | sort

/-- the modelled names -/
def fnTable : List (Bytes × FnKind) :=
  [(b!"sum", .sum), (b!"+", .sum),
   (b!"dif", .arith .dif), (b!"-", .arith .dif),
   (b!"product", .arith .product), (b!"*", .arith .product),
   (b!"quotient", .arith .quotient), (b!"/", .arith .quotient),
   (b!"mod", .mod),
   (b!"lt", .cmp .lt), (b!"<", .cmp .lt), (b!"lte", .cmp .lte), (b!"<=", .cmp .lte),
   (b!"gt", .cmp .gt), (b!">", .cmp .gt), (b!"gte", .cmp .gte), (b!">=", .cmp .gte),
   (b!"equal", .equal), (b!"eq", .equal), (b!"==", .equal), (b!"neq", .neq), (b!"!=", .neq),
   (b!"and", .and), (b!"or", .or), (b!"not", .not), (b!"cond", .cond),
   (b!"get", .get), (b!"getall", .getall), (b!"set", .set), (b!"setall", .set),
   (b!"del", .del), (b!"delall", .del), (b!"each", .each),
   (b!"at", .pathOf true), (b!"root", .pathOf false), (b!"asm", .asm),
   (b!"quote", .quote), (b!"list", .list), (b!"nth", .nth), (b!"size", .size),
   (b!"array?", .pred Val.isArr), (b!"bool?", .pred Val.isBool), (b!"map?", .pred Val.isMap),
   (b!"nil?", .pred Val.isNull), (b!"null?", .pred Val.isNull), (b!"num?", .pred Val.isNum),
   (b!"string?", .pred Val.isStr),
   (b!"tolower", .scalar (sfCase lowerB)), (b!"toupper", .scalar (sfCase upperB)), (b!"title", .scalar sfTitle),
   (b!"trim", .scalar sfTrim), (b!"replace", .scalar sfReplace), (b!"split", .scalar sfSplit),
   (b!"substr", .scalar sfSubstr), (b!"join", .scalar sfJoin), (b!"int", .scalar sfInt),
   (b!"float", .scalar sfFloat), (b!"string", .scalar sfString),
   (b!"reverse", .reverse), (b!"append", .append), (b!"include", .incl), (b!"sort", .sort)]

def lookupKind : List (Bytes × FnKind) → Bytes → Option FnKind
  | [], _ => none
  | (n, k) :: r, f => if f = n then some k else lookupKind r f

def fnKind (f : Bytes) : Option FnKind := lookupKind fnTable f

/-- one modelled function applied to its (unevaluated) arguments; `ev a at` evaluates an argument -/
def evalKind (env : Env) (ev : Arg → Val → M Val) (root at_ : Val) (k : FnKind) (args : List Arg) : M Val :=
  let e := fun a => ev a at_
  match k with
  | .sum => fnSum e args
  | .arith op => fnArith env.dev op e args
  | .mod => fnMod e args
  | .cmp op => fnCmp env.dev op e args
  | .equal => do
    let b ← fnEqual env.dev e args
    pure (.bool b)
  | .neq => do
    let b ← fnEqual env.dev e args
    pure (.bool (!b))
  | .and => fnAnd e args
  | .or => fnOr e args
  | .not => fnNot e args
  | .cond => fnCond env.dev e args
  | .get => fnGet env e root at_ args
  | .getall => fnGetall env e root at_ args
  | .set => fnSet e root at_ args
  | .del => fnDel root at_ args
  | .each => fnEach ev at_ args
  | .pathOf isAt => fnPathOf isAt e args
  | .asm => fnAsm ev args at_
  | .quote => do
    let v ← fnQuote args
    evalLit env.dev v
  | .list => fnList e args
  | .nth => fnNth e args
  | .size => fnSize e args
  | .pred p => fnPred p e args
  | .scalar g => fnScalar g e args
  | .reverse => fnReverse e args
  | .append => fnAppend e args
  | .incl => fnInclude e args
  | .sort => fnSort env e args

/-- dispatch by name -/
def evalFn (env : Env) (ev : Arg → Val → M Val) (root at_ : Val) (f : Bytes) (args : List Arg) : M Val :=
  match fnKind f with
  | some k => evalKind env ev root at_ k args
  | none => stop .unmodelled

/-- `evalArg`: fuel bounds the nesting depth of calls -/
def eval (env : Env) (root : Val) : Nat → Arg → Val → M Val
  | _, .lit v, _ => evalLit env.dev v
  | _, .raw v _, _ => evalLit env.dev v
  | _, .path p, at_ => do
    let h ← getHeap
    let r ← liftE (pathFirst env h (if p.isAt then at_ else root) p.frags)
    pure (r.getD .null)
  | _, .unk, _ => stop .unmodelled
  | 0, .call _ _, _ => stop .fuel
  | n + 1, .call f args, at_ => evalFn env (eval env root n) root at_ f args

/-! ## Execute -/

inductive Outcome where
  | ok          -- Execute returned nil
  | err         -- Execute returned an error
  | panic       -- a panic left Execute
  | diverge | unmodelled | enum | fuel
  deriving DecidableEq, Inhabited, Repr

/-- `Plan.Execute(root)`; `plan = none` is the nil plan (`p.Eval` dereferences nil: a panic).
`hasRecover` says whether `Execute` runs the evaluation under a deferred `recover()`. -/
def execute (env : Env) (hasRecover : Bool) (fuel : Nat) (plan : Option Arg) (root : Val) : Heap → Outcome × Heap :=
  fun h =>
    let r : Except Stop Val × Heap :=
      match plan with
      | none => (.error .panic, h)
      | some (.call f args) => evalFn env (eval env root fuel) root root f args h
      | some .unk => (.error .unmodelled, h)
      | some _ => (.error .unmodelled, h)      -- not produced by newPlan
    match r with
    | (.ok _, h') => (.ok, h')
    | (.error .panic, h') => (if hasRecover then .err else .panic, h')
    | (.error .diverge, h') => (.diverge, h')
    | (.error .unmodelled, h') => (.unmodelled, h')
    | (.error .enum, h') => (.enum, h')
    | (.error .fuel, h') => (.fuel, h')

/-! ## the heap layout the general theorems assume, as a check

`rerun_general` and `execute_total` (Props/C20.lean) assume: the plan's cells are the first `k` cells, laid
out children first; the cells from `k` on (the data) only refer to cells from `k` on; the root is in the
data; the plan's literals are cells below `k`. The driver evaluates `layoutOK` on the heap it has built
before every execution (`layoutOK_sound`: the check implies the hypotheses). -/

def Val.hiB (k : Nat) : Val → Bool
  | .aref a => decide (k ≤ a)
  | .mref a => decide (k ≤ a)
  | _ => true

def Val.belowB (i : Nat) : Val → Bool
  | .aref a => decide (a < i)
  | .mref a => decide (a < i)
  | _ => true

def Cell.allB (p : Val → Bool) : Cell → Bool
  | .arr xs => xs.all p
  | .map kvs => kvs.all (fun kv => p kv.2)

/-- cells `i, i+1, …`: a plan cell (index below `k`) refers to earlier cells only, a data cell to data only -/
def heapLayoutB (k : Nat) : Nat → Heap → Bool
  | _, [] => true
  | i, c :: r => (if i < k then c.allB (Val.belowB i) else c.allB (Val.hiB k)) && heapLayoutB k (i + 1) r

/-- every literal of the plan is a scalar or a cell below `k` -/
def argLoB (k : Nat) : Nat → Arg → Bool
  | _, .lit v => v.belowB k
  | _, .path _ => true
  | _, .unk => true
  | 0, .raw _ _ => false
  | 0, .call _ _ => false
  | n + 1, .raw v es => v.belowB k && es.all (argLoB k n)
  | n + 1, .call _ args => args.all (argLoB k n)

def layoutOK (k : Nat) (h : Heap) (root : Val) (plan : Option Arg) : Bool :=
  decide (k ≤ h.length) && heapLayoutB k 0 h && root.hiB k &&
    (match plan with
     | none => true
     | some a => argLoB k 400 a)

end OjgVerif.Asm
