import OjgVerif.Asm.LemmasPlan
/-! Re-run lemmas of the `asm` family: evaluation commutes with inserting cells between the plan and the
data (`Sh`, `Eqv`): run in the heap with the cells inserted and the data moved up, every modelled
function does what it does without them, moved. With `LemmasPlan` (the plan is never edited) this is
the general re-run theorem: the second execution of a plan, on an equal root placed after whatever the
first execution left, is the image of the first. Fuel that depends on the heap size (structural
comparison, copying a literal) is handled by monotonicity: more fuel does not change an answer. -/
set_option linter.unusedSimpArgs false
set_option linter.unusedVariables false
namespace OjgVerif.Asm
open OjgVerif

/-! ## inserting cells between the plan and the data

`s.k` cells of plan, then `s.G` (cells nothing refers to: what an earlier run left behind), then the
data: every address from `s.k` on moves up by `s.G.length`. -/

structure Sh where
  k : Nat
  G : List Cell

namespace Sh
variable (s : Sh)

def ad (a : Nat) : Nat := if a < s.k then a else a + s.G.length

def val : Val → Val
  | .aref a => .aref (s.ad a)
  | .mref a => .mref (s.ad a)
  | v => v

def cell : Cell → Cell
  | .arr xs => .arr (xs.map s.val)
  | .map kvs => .map (kvs.map fun kv => (kv.1, s.val kv.2))

def heap (h : Heap) : Heap := (h.take s.k).map s.cell ++ s.G ++ (h.drop s.k).map s.cell

theorem ad_inj {a b : Nat} (h : s.ad a = s.ad b) : a = b := by
  unfold ad at h
  split at h <;> split at h <;> omega

theorem heap_length (h : Heap) (hk : s.k ≤ h.length) : (s.heap h).length = h.length + s.G.length := by
  simp [heap, List.length_take, List.length_drop]; omega

theorem ad_length (h : Heap) (hk : s.k ≤ h.length) : s.ad h.length = (s.heap h).length := by
  rw [heap_length s h hk]; unfold ad; split <;> omega

theorem heap_get (h : Heap) (hk : s.k ≤ h.length) (a : Nat) : (s.heap h)[s.ad a]? = (h[a]?).map s.cell := by
  unfold heap ad
  by_cases ha : a < s.k
  · simp only [ha, if_true]
    rw [List.append_assoc, List.getElem?_append_left (by simp [List.length_take]; omega)]
    simp [List.getElem?_map, List.getElem?_take, ha]
  · simp only [ha, if_false]
    rw [List.getElem?_append_right (by simp [List.length_take]; omega)]
    simp only [List.length_append, List.length_map, List.length_take, Nat.min_eq_left hk]
    have : a + s.G.length - (s.k + s.G.length) = a - s.k := by omega
    rw [this, List.getElem?_map, List.getElem?_drop]
    have : s.k + (a - s.k) = a := by omega
    rw [this]

theorem heap_getG (h : Heap) (hk : s.k ≤ h.length) (i : Nat) (h1 : s.k ≤ i) (h2 : i < s.k + s.G.length) :
    (s.heap h)[i]? = s.G[i - s.k]? := by
  unfold heap
  rw [List.append_assoc, List.getElem?_append_right (by simp [List.length_take]; omega)]
  simp only [List.length_map, List.length_take, Nat.min_eq_left hk]
  rw [List.getElem?_append_left (by omega)]

theorem arrAt_sh (h : Heap) (hk : s.k ≤ h.length) (a : Nat) : (s.heap h).arrAt (s.ad a) = (h.arrAt a).map s.val := by
  unfold Heap.arrAt
  rw [heap_get s h hk a]
  cases h[a]? with
  | none => simp
  | some c => cases c <;> simp [cell]

theorem mapAt_sh (h : Heap) (hk : s.k ≤ h.length) (a : Nat) :
    (s.heap h).mapAt (s.ad a) = (h.mapAt a).map fun kv => (kv.1, s.val kv.2) := by
  unfold Heap.mapAt
  rw [heap_get s h hk a]
  cases h[a]? with
  | none => simp
  | some c => cases c <;> simp [cell]

theorem heap_append (h : Heap) (hk : s.k ≤ h.length) (c : Cell) : s.heap (h ++ [c]) = s.heap h ++ [s.cell c] := by
  unfold heap
  rw [List.take_append_of_le_length hk, List.drop_append_of_le_length hk]
  simp

theorem heap_set (h : Heap) (hk : s.k ≤ h.length) (a : Nat) (c : Cell) :
    s.heap (h.set a c) = (s.heap h).set (s.ad a) (s.cell c) := by
  apply List.ext_getElem?
  intro i
  have hk' : s.k ≤ (h.set a c).length := by simpa using hk
  -- every index is either the image of an address or inside G
  by_cases hi : i < s.k
  · have hia : s.ad i = i := by simp [ad, hi]
    rw [← hia, heap_get s _ hk' i]
    by_cases hia2 : i = a
    · subst hia2
      rw [List.getElem?_set_self' ]
      simp [List.getElem?_set, heap_get s h hk i]
      by_cases hl : i < h.length
      · simp [hl, heap_length s h hk]; omega
      · omega
    · rw [getElem?_set_ne' hia2, getElem?_set_ne' (fun hx => hia2 (s.ad_inj hx)), heap_get s h hk i]
  · by_cases hg : i < s.k + s.G.length
    · -- inside G: untouched on both sides
      have hne : i ≠ s.ad a := by unfold ad; split <;> omega
      rw [getElem?_set_ne' hne, heap_getG s _ hk' i (by omega) hg, heap_getG s h hk i (by omega) hg]
    · have hia : s.ad (i - s.G.length) = i := by unfold ad; split <;> omega
      rw [← hia, heap_get s _ hk' _]
      by_cases hia2 : i - s.G.length = a
      · subst hia2
        simp [List.getElem?_set, heap_get s h hk]
        by_cases hl : i - s.G.length < h.length
        · simp [hl, heap_length s h hk]; omega
        · simp [hl, heap_length s h hk]; omega
      · rw [getElem?_set_ne' hia2, getElem?_set_ne' (fun hx => hia2 (s.ad_inj hx)), heap_get s h hk _]

@[simp] theorem val_aref (a : Nat) : s.val (.aref a) = .aref (s.ad a) := rfl
@[simp] theorem val_mref (a : Nat) : s.val (.mref a) = .mref (s.ad a) := rfl
@[simp] theorem val_null : s.val .null = .null := rfl
@[simp] theorem val_bool (b : Bool) : s.val (.bool b) = .bool b := rfl
@[simp] theorem val_int (i : Int) : s.val (.int i) = .int i := rfl
@[simp] theorem val_flt (f : Flt) : s.val (.flt f) = .flt f := rfl
@[simp] theorem val_str (x : Bytes) : s.val (.str x) = .str x := rfl
@[simp] theorem val_path (p : Path) : s.val (.path p) = .path p := rfl

@[simp] theorem val_isScalar (v : Val) : (s.val v).isScalar = v.isScalar := by cases v <;> rfl

theorem kvGet_map (k' : Bytes) : ∀ (kvs : List (Bytes × Val)),
    kvGet k' (kvs.map fun kv => (kv.1, s.val kv.2)) = (kvGet k' kvs).map s.val
  | [] => rfl
  | (k2, v2) :: r => by
    simp only [List.map, kvGet]
    by_cases hk : k2 = k'
    · simp [hk]
    · simp [hk, kvGet_map k' r]

theorem kvSet_map (k' : Bytes) (v : Val) : ∀ (kvs : List (Bytes × Val)),
    kvSet k' (s.val v) (kvs.map fun kv => (kv.1, s.val kv.2)) = (kvSet k' v kvs).map fun kv => (kv.1, s.val kv.2)
  | [] => rfl
  | (k2, v2) :: r => by
    simp only [List.map, kvSet]
    by_cases hk : k2 = k'
    · simp [hk]
    · simp [hk, kvSet_map k' v r]

theorem kvDel_map (k' : Bytes) : ∀ (kvs : List (Bytes × Val)),
    kvDel k' (kvs.map fun kv => (kv.1, s.val kv.2)) = (kvDel k' kvs).map fun kv => (kv.1, s.val kv.2)
  | [] => rfl
  | (k2, v2) :: r => by
    simp only [List.map, kvDel]
    by_cases hk : k2 = k'
    · simp [hk]
    · simp [hk, kvDel_map k' r]

theorem getD_map (xs : List Val) (j : Nat) : (xs.map s.val).getD j .null = s.val (xs.getD j .null) := by
  simp only [List.getD_eq_getElem?_getD, List.getElem?_map]
  cases xs[j]? <;> rfl

theorem pathFirst_sh (dev : Dev) (h : Heap) (hk : s.k ≤ h.length) :
    ∀ (fs : List Frag) (v : Val),
      pathFirst ⟨dev, none⟩ (s.heap h) (s.val v) fs = (pathFirst ⟨dev, none⟩ h v fs).map (Option.map s.val)
  | [], v => by simp [pathFirst, Except.map]
  | f :: rest, v => by
    have ih := pathFirst_sh dev h hk rest
    cases v with
    | aref a =>
      cases f with
      | child k' => simp [pathFirst, Except.map]
      | nth i =>
        simp only [pathFirst, val_aref, arrAt_sh s h hk, List.length_map]
        cases normIdx i (h.arrAt a).length with
        | none => simp [Except.map]
        | some j => simp only; rw [getD_map, ih]
      | wild =>
        simp only [pathFirst, val_aref, arrAt_sh s h hk]
        split
        · simp [Except.map]
        · simp [Except.map, List.head?_map]
    | mref a =>
      cases f with
      | nth i => simp [pathFirst, Except.map]
      | child k' =>
        simp only [pathFirst, val_mref, mapAt_sh s h hk, kvGet_map]
        cases kvGet k' (h.mapAt a) with
        | none => simp [Except.map]
        | some c => simp only [Option.map]; rw [ih]
      | wild =>
        simp only [pathFirst, val_mref, mapAt_sh s h hk]
        split
        · simp [Except.map]
        · cases hm : h.mapAt a with
          | nil => simp [Except.map]
          | cons kv r =>
            cases r with
            | nil => simp [Except.map]
            | cons kv2 r2 => simp [Except.map]
    | path p => cases f <;> simp [pathFirst, Except.map]
    | null => cases f <;> simp [pathFirst, Except.map] <;> (split <;> simp)
    | bool b => cases f <;> simp [pathFirst, Except.map] <;> (split <;> simp)
    | int n => cases f <;> simp [pathFirst, Except.map] <;> (split <;> simp)
    | flt x => cases f <;> simp [pathFirst, Except.map] <;> (split <;> simp)
    | str x => cases f <;> simp [pathFirst, Except.map] <;> (split <;> simp)

theorem pathGet_sh (dev : Dev) (h : Heap) (hk : s.k ≤ h.length) :
    ∀ (fs : List Frag) (v : Val),
      pathGet ⟨dev, none⟩ (s.heap h) (s.val v) fs = (pathGet ⟨dev, none⟩ h v fs).map (List.map s.val)
  | [], v => by simp [pathGet, Except.map]
  | f :: rest, v => by
    have ih := pathGet_sh dev h hk rest
    cases v with
    | aref a =>
      cases f with
      | child k' => simp [pathGet, Except.map]
      | nth i =>
        simp only [pathGet, val_aref, arrAt_sh s h hk, List.length_map]
        cases normIdx i (h.arrAt a).length with
        | none => simp [Except.map]
        | some j => simp only; rw [getD_map, ih]
      | wild =>
        simp only [pathGet, val_aref, arrAt_sh s h hk]
        split
        · simp [Except.map]
        · simp [Except.map]
    | mref a =>
      cases f with
      | nth i => simp [pathGet, Except.map]
      | child k' =>
        simp only [pathGet, val_mref, mapAt_sh s h hk, kvGet_map]
        cases kvGet k' (h.mapAt a) with
        | none => simp [Except.map]
        | some c => simp only [Option.map]; rw [ih]
      | wild =>
        simp only [pathGet, val_mref, mapAt_sh s h hk]
        split
        · simp [Except.map]
        · cases hm : h.mapAt a with
          | nil => simp [Except.map]
          | cons kv r =>
            cases r with
            | nil => simp [Except.map]
            | cons kv2 r2 => simp [Except.map]
    | path p => cases f <;> simp [pathGet, Except.map]
    | null => cases f <;> simp [pathGet, Except.map] <;> (split <;> simp)
    | bool b => cases f <;> simp [pathGet, Except.map] <;> (split <;> simp)
    | int n => cases f <;> simp [pathGet, Except.map] <;> (split <;> simp)
    | flt x => cases f <;> simp [pathGet, Except.map] <;> (split <;> simp)
    | str x => cases f <;> simp [pathGet, Except.map] <;> (split <;> simp)

theorem ad_ge (h : Heap) (hk : s.k ≤ h.length) (a : Nat) : (s.heap h).length ≤ s.ad a ↔ h.length ≤ a := by
  rw [heap_length s h hk]; unfold ad; split <;> omega

theorem set_map (xs : List Val) (j : Nat) (v : Val) : (xs.map s.val).set j (s.val v) = (xs.set j v).map s.val := by
  simp [List.map_set]

theorem optGetD (value : Option Val) : (value.map s.val).getD .null = s.val (value.getD .null) := by
  cases value <;> rfl

/-- jp's set commutes with the insertion: same outcome, the heap after is the insertion of the heap after -/
theorem pathSet_sh (value : Option Val) : ∀ (fs : List Frag) (cur : Val) (h : Heap), s.k ≤ h.length →
    pathSet (value.map s.val) (s.val cur) fs (s.heap h) = ((pathSet value cur fs h).1, s.heap (pathSet value cur fs h).2) ∧
    h.length ≤ (pathSet value cur fs h).2.length
  | [], cur, h, hk => by simp [pathSet]
  | f :: rest, cur, h, hk => by
    cases cur with
    | null => cases f <;> cases rest <;> simp [pathSet]
    | bool b => cases f <;> cases rest <;> simp [pathSet]
    | int n => cases f <;> cases rest <;> simp [pathSet]
    | flt x => cases f <;> cases rest <;> simp [pathSet]
    | str x => cases f <;> cases rest <;> simp [pathSet]
    | path p => cases f <;> cases rest <;> simp [pathSet]
    | aref a =>
      cases f with
      | wild => simp [pathSet]
      | child k' => cases rest <;> simp [pathSet]
      | nth j =>
        cases rest with
        | nil =>
          simp only [pathSet, val_aref, arrAt_sh s h hk, List.length_map]
          cases normIdx j (h.arrAt a).length with
          | none => simp
          | some jj =>
            simp only [optGetD, set_map]
            rw [heap_set s h hk]
            simp [cell]
        | cons g r =>
          simp only [pathSet, val_aref, arrAt_sh s h hk, List.length_map]
          cases normIdx j (h.arrAt a).length with
          | none => simp
          | some jj =>
            simp only [getD_map, val_isScalar]
            by_cases hs : ((h.arrAt a).getD jj Val.null).isScalar = true
            · simp only [hs, if_true]
              exact ⟨trivial, Nat.le_refl _⟩
            · simp only [hs]
              exact pathSet_sh value (g :: r) _ h hk
    | mref a =>
      cases f with
      | wild => simp [pathSet]
      | nth j => cases rest <;> simp [pathSet]
      | child k' =>
        cases rest with
        | nil =>
          simp only [pathSet, val_mref, mapAt_sh s h hk]
          cases value with
          | none =>
            simp only [Option.map, kvDel_map]
            rw [heap_set s h hk]
            simp [cell]
          | some v =>
            simp only [Option.map, kvSet_map]
            rw [heap_set s h hk]
            simp [cell]
        | cons g r =>
          simp only [pathSet, val_mref, mapAt_sh s h hk, kvGet_map]
          cases hkg : kvGet k' (h.mapAt a) with
          | some c =>
            simp only [Option.map, val_isScalar]
            by_cases hs : c.isScalar = true
            · simp only [hs, if_true]
              exact ⟨trivial, Nat.le_refl _⟩
            · simp only [hs]
              exact pathSet_sh value (g :: r) c h hk
          | none =>
            simp only [Option.map]
            cases value with
            | none => simp
            | some v =>
              simp only [Option.map]
              by_cases hal : h.length ≤ a
              · simp [hal, (ad_ge s h hk a).mpr hal]
              · have hal' : ¬ (s.heap h).length ≤ s.ad a := fun hx => hal ((ad_ge s h hk a).mp hx)
                simp only [hal, hal', if_false]
                cases g with
                | wild => simp
                | child k2 =>
                  simp only
                  have hk1 : s.k ≤ (h ++ [Cell.map []]).length := by simp; omega
                  have e1 : s.heap h ++ [Cell.map []] = s.heap (h ++ [Cell.map []]) := by
                    rw [heap_append s h hk]; simp [cell]
                  have e2 : Val.mref (s.heap h).length = s.val (Val.mref h.length) := by
                    simp [ad_length s h hk]
                  rw [e1, e2, mapAt_sh s _ hk1, kvSet_map]
                  have e3 : ∀ kvs, Cell.map (List.map (fun kv => (kv.1, s.val kv.2)) kvs) = s.cell (Cell.map kvs) := fun _ => rfl
                  rw [e3, ← heap_set s _ hk1]
                  obtain ⟨r1, r2⟩ := pathSet_sh (some v) (Frag.child k2 :: r) (.mref h.length)
                    ((h ++ [Cell.map []]).set a (Cell.map (kvSet k' (Val.mref h.length) ((h ++ [Cell.map []]).mapAt a)))) (by simp; omega)
                  refine ⟨r1, ?_⟩
                  have : h.length ≤ ((h ++ [Cell.map []]).set a (Cell.map (kvSet k' (Val.mref h.length) ((h ++ [Cell.map []]).mapAt a)))).length := by simp
                  exact Nat.le_trans this r2
                | nth j =>
                  simp only
                  by_cases hj : j < 0
                  · simp [hj]
                  · simp only [hj, if_false]
                    have hk1 : s.k ≤ (h ++ [Cell.arr (List.replicate (j.toNat + 1) Val.null)]).length := by simp; omega
                    have e1 : s.heap h ++ [Cell.arr (List.replicate (j.toNat + 1) Val.null)] = s.heap (h ++ [Cell.arr (List.replicate (j.toNat + 1) Val.null)]) := by
                      rw [heap_append s h hk]; simp [cell]
                    have e2 : Val.aref (s.heap h).length = s.val (Val.aref h.length) := by
                      simp [ad_length s h hk]
                    rw [e1, e2, mapAt_sh s _ hk1, kvSet_map]
                    have e3 : ∀ kvs, Cell.map (List.map (fun kv => (kv.1, s.val kv.2)) kvs) = s.cell (Cell.map kvs) := fun _ => rfl
                    rw [e3, ← heap_set s _ hk1]
                    obtain ⟨r1, r2⟩ := pathSet_sh (some v) (Frag.nth j :: r) (.aref h.length)
                      ((h ++ [Cell.arr (List.replicate (j.toNat + 1) Val.null)]).set a (Cell.map (kvSet k' (Val.aref h.length) ((h ++ [Cell.arr (List.replicate (j.toNat + 1) Val.null)]).mapAt a)))) (by simp; omega)
                    refine ⟨r1, ?_⟩
                    have : h.length ≤ ((h ++ [Cell.arr (List.replicate (j.toNat + 1) Val.null)]).set a (Cell.map (kvSet k' (Val.aref h.length) ((h ++ [Cell.arr (List.replicate (j.toNat + 1) Val.null)]).mapAt a)))).length := by simp
                    exact Nat.le_trans this r2

theorem ad_eq_iff (a b : Nat) : s.ad a = s.ad b ↔ a = b := ⟨s.ad_inj, fun h => by rw [h]⟩

theorem contains_ad (a b : Nat) : ∀ (seen : List (Nat × Nat)),
    (seen.map fun p => (s.ad p.1, s.ad p.2)).contains (s.ad a, s.ad b) = seen.contains (a, b)
  | [] => rfl
  | (x, y) :: r => by
    have ih := contains_ad a b r
    simp only [List.contains_eq_mem, List.map, List.mem_cons, Prod.mk.injEq, ad_eq_iff] at ih ⊢
    simp only [decide_eq_decide] at ih ⊢
    rw [ih]

theorem val_eq_null (v : Val) : (s.val v = .null) ↔ v = .null := by cases v <;> simp

/-- structural comparison is blind to the insertion (same fuel) -/
theorem eqVals_sh (dev : Dev) (h : Heap) (hk : s.k ≤ h.length) : ∀ (n : Nat) (seen : List (Nat × Nat)) (v0 v1 : Val),
    eqVals dev (s.heap h) n (seen.map fun p => (s.ad p.1, s.ad p.2)) (s.val v0) (s.val v1) = eqVals dev h n seen v0 v1
  | 0, _, _, _ => by simp [eqVals]
  | n + 1, seen, v0, v1 => by
    have ih := eqVals_sh dev h hk n
    cases v0 with
    | aref a =>
      cases v1 with
      | aref b =>
        simp only [eqVals, val_aref, arrAt_sh s h hk, List.length_map, contains_ad]
        split
        · rfl
        · split
          · rfl
          · congr 1
            rw [List.zip_map, List.map_map]
            apply List.map_congr_left
            intro p _
            have := ih ((a, b) :: seen) p.1 p.2
            simpa using this
      | null => simp [eqVals] | bool x => simp [eqVals] | int x => simp [eqVals] | flt x => simp [eqVals]
      | str x => simp [eqVals] | mref x => simp [eqVals] | path x => simp [eqVals]
    | mref a =>
      cases v1 with
      | mref b =>
        simp only [eqVals, val_mref, mapAt_sh s h hk, List.length_map, contains_ad]
        split
        · rfl
        · split
          · rfl
          · congr 1
            rw [List.map_map]
            apply List.map_congr_left
            intro kv _
            simp only [Function.comp, kvGet_map]
            cases kvGet kv.1 (h.mapAt b) with
            | none => rfl
            | some w =>
              have := ih ((a, b) :: seen) kv.2 w
              simpa using this
      | null => simp [eqVals] | bool x => simp [eqVals] | int x => simp [eqVals] | flt x => simp [eqVals]
      | str x => simp [eqVals] | aref x => simp [eqVals] | path x => simp [eqVals]
    | null => cases v1 <;> simp [eqVals]
    | bool x => cases v1 <;> simp [eqVals]
    | int x => cases v1 <;> simp [eqVals]
    | flt x => cases v1 <;> simp [eqVals]
    | str x => cases v1 <;> simp [eqVals]
    | path x => cases v1 <;> simp [eqVals]

end Sh

/-! ### more fuel does not change an answer -/

def EqRes.final (r : EqRes) : Prop := r = .yes ∨ r = .no

theorem eqSeq_mono {α : Type} (f g : α → EqRes) : ∀ (zs : List α) (r : EqRes), eqSeq (zs.map f) = r → r.final →
    (∀ z ∈ zs, (f z).final → g z = f z) → eqSeq (zs.map g) = r
  | [], r, h, _, _ => h
  | z :: zs, r, h, hr, hfg => by
    simp only [List.map, eqSeq] at h ⊢
    cases hf : f z with
    | yes =>
      rw [hfg z (List.mem_cons_self ..) (by rw [hf]; exact Or.inl rfl), hf]
      rw [hf] at h
      simp only [eqSeq] at h ⊢
      exact eqSeq_mono f g zs r h hr (fun x hx => hfg x (List.mem_cons_of_mem _ hx))
    | no =>
      rw [hfg z (List.mem_cons_self ..) (by rw [hf]; exact Or.inr rfl), hf]
      rw [hf] at h
      simpa [eqSeq] using h
    | cyc => rw [hf] at h; simp [eqSeq] at h; subst h; rcases hr with h | h <;> cases h
    | amb => rw [hf] at h; simp [eqSeq] at h; subst h; rcases hr with h | h <;> cases h

theorem eqCombine_final {rs : List EqRes} {r : EqRes} (h : eqCombine rs = r) (hr : r.final) : ∀ x ∈ rs, x.final := by
  intro x hx
  unfold eqCombine at h
  simp only [List.contains_iff_mem] at h
  by_cases h1 : EqRes.amb ∈ rs
  · simp [h1] at h; subst h; rcases hr with h | h <;> cases h
  · by_cases h2 : EqRes.cyc ∈ rs
    · by_cases h3 : EqRes.no ∈ rs
      · simp [h1, h2, h3] at h; subst h; rcases hr with h | h <;> cases h
      · simp [h1, h2, h3] at h; subst h; rcases hr with h | h <;> cases h
    · cases x with
      | yes => exact Or.inl rfl
      | no => exact Or.inr rfl
      | cyc => exact absurd hx h2
      | amb => exact absurd hx h1

theorem eqVals_aref (dev : Dev) (h : Heap) (n : Nat) (seen : List (Nat × Nat)) (a b : Nat) :
    eqVals dev h (n + 1) seen (.aref a) (.aref b) =
      if (h.arrAt a).length ≠ (h.arrAt b).length then .no
      else if seen.contains (a, b) then .cyc
      else eqSeq (((h.arrAt a).zip (h.arrAt b)).map (fun p => eqVals dev h n ((a, b) :: seen) p.1 p.2)) := by
  simp only [eqVals]

theorem eqVals_mref (dev : Dev) (h : Heap) (n : Nat) (seen : List (Nat × Nat)) (a b : Nat) :
    eqVals dev h (n + 1) seen (.mref a) (.mref b) =
      if (h.mapAt a).length ≠ (h.mapAt b).length then .no
      else if seen.contains (a, b) then .cyc
      else eqCombine ((h.mapAt a).map (fun kv =>
        match kvGet kv.1 (h.mapAt b) with
        | some w => eqVals dev h n ((a, b) :: seen) kv.2 w
        | none => .no)) := by
  simp only [eqVals]
  rfl

theorem eqVals_mono1 (dev : Dev) (h : Heap) : ∀ (n : Nat) (seen : List (Nat × Nat)) (v0 v1 : Val) (r : EqRes),
    eqVals dev h n seen v0 v1 = r → r.final → eqVals dev h (n + 1) seen v0 v1 = r
  | 0, _, _, _, r, hr, hf => by simp [eqVals] at hr; subst hr; rcases hf with h | h <;> cases h
  | n + 1, seen, v0, v1, r, hr, hf => by
    have ih := eqVals_mono1 dev h n
    cases v0 with
    | aref a =>
      cases v1 with
      | aref b =>
        rw [eqVals_aref] at hr ⊢
        split
        · rename_i hl; rw [if_pos hl] at hr; exact hr
        · rename_i hl
          rw [if_neg hl] at hr
          split
          · rename_i hs; rw [if_pos hs] at hr; exact hr
          · rename_i hs
            rw [if_neg hs] at hr
            exact eqSeq_mono _ _ _ r hr hf (fun z _ hz => ih _ _ _ _ rfl hz)
      | null => simpa [eqVals] using hr | bool x => simpa [eqVals] using hr | int x => simpa [eqVals] using hr
      | flt x => simpa [eqVals] using hr | str x => simpa [eqVals] using hr | mref x => simpa [eqVals] using hr
      | path x => simpa [eqVals] using hr
    | mref a =>
      cases v1 with
      | mref b =>
        rw [eqVals_mref] at hr ⊢
        split
        · rename_i hl; rw [if_pos hl] at hr; exact hr
        · rename_i hl
          rw [if_neg hl] at hr
          split
          · rename_i hs; rw [if_pos hs] at hr; exact hr
          · rename_i hs
            rw [if_neg hs] at hr
            have hall := eqCombine_final hr hf
            have : (h.mapAt a).map (fun kv => match kvGet kv.1 (h.mapAt b) with
                | some w => eqVals dev h (n + 1) ((a, b) :: seen) kv.2 w
                | none => EqRes.no) =
              (h.mapAt a).map (fun kv => match kvGet kv.1 (h.mapAt b) with
                | some w => eqVals dev h n ((a, b) :: seen) kv.2 w
                | none => EqRes.no) := by
              apply List.map_congr_left
              intro kv hkv
              have hx := hall _ (List.mem_map.mpr ⟨kv, hkv, rfl⟩)
              cases hg : kvGet kv.1 (h.mapAt b) with
              | none => rfl
              | some w =>
                simp only [hg] at hx ⊢
                exact ih _ _ _ _ rfl hx
            rw [this]; exact hr
      | null => simpa [eqVals] using hr | bool x => simpa [eqVals] using hr | int x => simpa [eqVals] using hr
      | flt x => simpa [eqVals] using hr | str x => simpa [eqVals] using hr | aref x => simpa [eqVals] using hr
      | path x => simpa [eqVals] using hr
    | null => cases v1 <;> simpa [eqVals] using hr
    | bool x => cases v1 <;> simpa [eqVals] using hr
    | int x => cases v1 <;> simpa [eqVals] using hr
    | flt x => cases v1 <;> simpa [eqVals] using hr
    | str x => cases v1 <;> simpa [eqVals] using hr
    | path x => cases v1 <;> simpa [eqVals] using hr

theorem eqVals_mono (dev : Dev) (h : Heap) (n : Nat) (seen : List (Nat × Nat)) (v0 v1 : Val) (r : EqRes)
    (hr : eqVals dev h n seen v0 v1 = r) (hf : r.final) : ∀ m, eqVals dev h (n + m) seen v0 v1 = r
  | 0 => hr
  | m + 1 => eqVals_mono1 dev h (n + m) seen v0 v1 r (eqVals_mono dev h n seen v0 v1 r hr hf m) hf

/-! ### computations that commute with the insertion -/

class ShOf (α : Type) where
  sh : Sh → α → α

instance : ShOf Val := ⟨Sh.val⟩
instance : ShOf Bool := ⟨fun _ b => b⟩
instance : ShOf Unit := ⟨fun _ u => u⟩
instance : ShOf Bytes := ⟨fun _ b => b⟩
instance : ShOf Path := ⟨fun _ p => p⟩
instance : ShOf SumAcc := ⟨fun _ a => a⟩
instance : ShOf NumAcc := ⟨fun _ a => a⟩
instance : ShOf Nat := ⟨Sh.ad⟩
instance : ShOf (List Val) := ⟨fun s vs => vs.map s.val⟩
instance : ShOf (Bytes × Val) := ⟨fun s kv => (kv.1, s.val kv.2)⟩
instance : ShOf (List (Bytes × Val)) := ⟨fun s kvs => kvs.map fun kv => (kv.1, s.val kv.2)⟩
instance : ShOf (Option Val) := ⟨fun s o => o.map s.val⟩
instance : ShOf Heap := ⟨Sh.heap⟩
instance : ShOf Tree := ⟨fun _ t => t⟩
instance : ShOf (List Tree) := ⟨fun _ ts => ts⟩

/-- a stop whose occurrence may depend on how much fuel the heap size grants -/
def Stop.soft (e : Stop) : Prop := e = .diverge ∨ e = .enum

/-- the result does not end in a soft stop -/
def Firm (r : Except Stop α) : Prop := ∀ e, r = .error e → ¬ e.soft

/-- `m2`, run in the heap with the cells inserted, does what `m1` does in the heap without them, moved:
same outcome, the value and the heap after are the images — wherever `m1` does not end in a soft stop -/
structure Eqv (s : Sh) [ShOf α] (m1 m2 : M α) : Prop where
  eq : ∀ h, s.k ≤ h.length → Firm (m1 h).1 →
    m2 (s.heap h) = (((m1 h).1).map (ShOf.sh s), s.heap (m1 h).2) ∧ h.length ≤ (m1 h).2.length

variable {s : Sh}

theorem Eqv.ret [ShOf α] (a : α) : Eqv s (pure a : M α) (pure (ShOf.sh s a)) :=
  ⟨fun h _ _ => ⟨by simp, by simp⟩⟩

theorem Eqv.ret' [ShOf α] {a b : α} (hb : b = ShOf.sh s a) : Eqv s (pure a : M α) (pure b) := by
  subst hb; exact Eqv.ret a

theorem Eqv.stop [ShOf α] (e : Stop) : Eqv s (stop e : M α) (stop e) :=
  ⟨fun h _ _ => ⟨by simp, by simp⟩⟩

theorem Eqv.liftE [ShOf α] {e1 e2 : Except Stop α} (he : e2 = e1.map (ShOf.sh s)) : Eqv s (liftE e1) (liftE e2) :=
  ⟨fun h _ _ => ⟨by simp [he], by simp⟩⟩

theorem Eqv.alloc {c c' : Cell} (hc : c' = s.cell c) : Eqv s (alloc c) (alloc c') := by
  subst hc
  exact ⟨fun h hk _ => ⟨by simp [Sh.heap_append s h hk, ShOf.sh, Sh.ad_length s h hk], by simp⟩⟩

theorem Eqv.bind [ShOf α] [ShOf β] {m1 m2 : M α} {f1 f2 : α → M β} (hm : Eqv s m1 m2)
    (hf : ∀ a, Eqv s (f1 a) (f2 (ShOf.sh s a))) : Eqv s (m1 >>= f1) (m2 >>= f2) := by
  constructor
  intro h hk hfirm
  simp only [bind_apply] at hfirm ⊢
  cases hmh : m1 h with
  | mk r h' =>
    rw [hmh] at hfirm
    cases r with
    | error e =>
      simp only at hfirm
      obtain ⟨e1, e2⟩ := hm.eq h hk (by rw [hmh]; intro e' he'; simp at he'; subst he'; exact hfirm e rfl)
      rw [hmh] at e1 e2
      simp only [e1, exceptMap_error]
      exact ⟨trivial, e2⟩
    | ok a =>
      simp only at hfirm
      obtain ⟨e1, e2⟩ := hm.eq h hk (by rw [hmh]; intro e he; cases he)
      rw [hmh] at e1 e2
      simp only [e1, exceptMap_ok]
      obtain ⟨g1, g2⟩ := (hf a).eq h' (Nat.le_trans hk e2) hfirm
      exact ⟨g1, Nat.le_trans e2 g2⟩

/-- the heap read by `getHeap` is a heap the insertion applies to -/
theorem Eqv.bind_getHeap [ShOf β] {f1 f2 : Heap → M β}
    (hf : ∀ h0, s.k ≤ h0.length → Eqv s (f1 h0) (f2 (s.heap h0))) : Eqv s (getHeap >>= f1) (getHeap >>= f2) := by
  constructor
  intro h hk hfirm
  simp only [bind_apply, getHeap_apply] at hfirm ⊢
  exact (hf h hk).eq h hk hfirm

theorem Eqv.ite [ShOf α] {c : Prop} [Decidable c] {m1 m2 n1 n2 : M α} (h1 : Eqv s m1 m2) (h2 : Eqv s n1 n2) :
    Eqv s (if c then m1 else n1) (if c then m2 else n2) := by
  split <;> assumption

theorem mapM'_eqv {α β : Type} [ShOf β] [ShOf (List β)] (g : α → α) (f1 f2 : α → M β)
    (hcons : ∀ (b : β) (bs : List β), ShOf.sh s (b :: bs) = ShOf.sh s b :: ShOf.sh s bs)
    (hnil : ShOf.sh s ([] : List β) = []) :
    ∀ (xs : List α), (∀ x ∈ xs, Eqv s (f1 x) (f2 (g x))) → Eqv s (mapM' f1 xs) (mapM' f2 (xs.map g))
  | [], _ => by simp only [mapM', List.map]; exact Eqv.ret' hnil.symm
  | a :: r, he => by
    simp only [mapM', List.map]
    apply Eqv.bind (he a (List.mem_cons_self ..))
    intro b
    apply Eqv.bind (mapM'_eqv g f1 f2 hcons hnil r (fun x hx => he x (List.mem_cons_of_mem _ hx)))
    intro bs
    exact Eqv.ret' (hcons b bs).symm

theorem mapM'_congr_firm {α β : Type} (f g : α → M β) : ∀ (xs : List α) (h : Heap), Firm (mapM' f xs h).1 →
    (∀ x ∈ xs, ∀ h', Firm (f x h').1 → g x h' = f x h') → mapM' g xs h = mapM' f xs h
  | [], h, _, _ => rfl
  | a :: r, h, hfirm, hfg => by
    simp only [mapM', bind_apply] at hfirm ⊢
    cases hfa : f a h with
    | mk ra h1 =>
      rw [hfa] at hfirm
      cases ra with
      | error e =>
        simp only at hfirm
        rw [hfg a (List.mem_cons_self ..) h (by rw [hfa]; intro e' he'; simp at he'; subst he'; exact hfirm e rfl), hfa]
      | ok b =>
        simp only at hfirm
        rw [hfg a (List.mem_cons_self ..) h (by rw [hfa]; intro e he; cases he), hfa]
        simp only
        have hfirm2 : Firm (mapM' f r h1).1 := by
          intro e he
          cases hm : mapM' f r h1 with
          | mk rr h2 =>
            rw [hm] at he hfirm
            simp only at he
            subst he
            exact hfirm e rfl
        rw [mapM'_congr_firm f g r h1 hfirm2 (fun x hx => hfg x (List.mem_cons_of_mem _ hx))]

theorem copyVal_mono1 : ∀ (n : Nat) (v : Val) (h : Heap), Firm (copyVal n v h).1 → copyVal (n + 1) v h = copyVal n v h
  | 0, v, h, hfirm => by
    simp [copyVal] at hfirm
    exact absurd (Or.inl rfl) (hfirm .diverge rfl)
  | n + 1, v, h, hfirm => by
    cases v with
    | aref a =>
      simp only [copyVal, bind_apply, getHeap_apply] at hfirm ⊢
      have hf2 : Firm (mapM' (copyVal n) (h.arrAt a) h).1 := by
        intro e he
        cases hm : mapM' (copyVal n) (h.arrAt a) h with
        | mk rr h2 =>
          rw [hm] at he hfirm; simp only at he; subst he; exact hfirm e rfl
      rw [mapM'_congr_firm (copyVal n) (copyVal (n + 1)) _ h hf2 (fun x _ h' hx => copyVal_mono1 n x h' hx)]
    | mref a =>
      simp only [copyVal, bind_apply, getHeap_apply] at hfirm ⊢
      have hf2 : Firm (mapM' (fun (kv : Bytes × Val) => copyVal n kv.2 >>= fun v => (pure (kv.1, v) : M (Bytes × Val))) (h.mapAt a) h).1 := by
        intro e he
        cases hm : mapM' (fun (kv : Bytes × Val) => copyVal n kv.2 >>= fun v => (pure (kv.1, v) : M (Bytes × Val))) (h.mapAt a) h with
        | mk rr h2 =>
          rw [hm] at he hfirm; simp only at he; subst he; exact hfirm e rfl
      rw [mapM'_congr_firm _ (fun (kv : Bytes × Val) => copyVal (n + 1) kv.2 >>= fun v => (pure (kv.1, v) : M (Bytes × Val))) _ h hf2
        (fun kv _ h' hx => by
          simp only [bind_apply] at hx ⊢
          have : Firm (copyVal n kv.2 h').1 := by
            intro e he
            cases hm : copyVal n kv.2 h' with
            | mk rr h2 => rw [hm] at he hx; simp only at he; subst he; exact hx e rfl
          rw [copyVal_mono1 n kv.2 h' this])]
    | null => rfl
    | bool b => rfl
    | int i => rfl
    | flt f => rfl
    | str x => rfl
    | path p => rfl

theorem copyVal_mono (n : Nat) (v : Val) (h : Heap) (hf : Firm (copyVal n v h).1) : ∀ m, copyVal (n + m) v h = copyVal n v h
  | 0 => rfl
  | m + 1 => by
    have ih := copyVal_mono n v h hf m
    rw [← Nat.add_assoc, copyVal_mono1 (n + m) v h (by rw [ih]; exact hf), ih]

theorem copyVal_eqv : ∀ (n : Nat) (v : Val), Eqv s (copyVal n v) (copyVal n (s.val v))
  | 0, v => by simp only [copyVal]; exact Eqv.stop _
  | n + 1, v => by
    have ih : ∀ x, Eqv s (copyVal n x) (copyVal n (s.val x)) := fun x => copyVal_eqv n x
    cases v with
    | aref a =>
      simp only [copyVal, Sh.val_aref]
      apply Eqv.bind_getHeap
      intro h0 hk0
      rw [Sh.arrAt_sh s h0 hk0]
      apply Eqv.bind (mapM'_eqv s.val _ _ (fun _ _ => rfl) rfl _ (fun x _ => ih x))
      intro vs
      apply Eqv.bind (Eqv.alloc (show Cell.arr (ShOf.sh s vs) = s.cell (Cell.arr vs) from rfl))
      intro c
      exact Eqv.ret' rfl
    | mref a =>
      simp only [copyVal, Sh.val_mref]
      apply Eqv.bind_getHeap
      intro h0 hk0
      rw [Sh.mapAt_sh s h0 hk0]
      apply Eqv.bind (mapM'_eqv (fun kv => (kv.1, s.val kv.2)) _ _ (fun _ _ => rfl) rfl _
        (fun kv _ => Eqv.bind (α := Val) (β := Bytes × Val) (ih kv.2) (fun v => Eqv.ret' (α := Bytes × Val) rfl)))
      intro vs
      apply Eqv.bind (Eqv.alloc (show Cell.map (ShOf.sh s vs) = s.cell (Cell.map vs) from rfl))
      intro c
      exact Eqv.ret' rfl
    | null => simp only [copyVal, Sh.val_null]; exact Eqv.ret' rfl
    | bool b => simp only [copyVal, Sh.val_bool]; exact Eqv.ret' rfl
    | int i => simp only [copyVal, Sh.val_int]; exact Eqv.ret' rfl
    | flt f => simp only [copyVal, Sh.val_flt]; exact Eqv.ret' rfl
    | str x => simp only [copyVal, Sh.val_str]; exact Eqv.ret' rfl
    | path p => simp only [copyVal, Sh.val_path]; exact Eqv.ret' rfl

theorem evalLit_eqv (dev : Dev) (v : Val) : Eqv s (evalLit dev v) (evalLit dev (s.val v)) := by
  unfold evalLit
  simp only [Sh.val_isScalar]
  by_cases hc : (dev.litAlias || v.isScalar) = true
  · rw [if_pos hc, if_pos hc]; exact Eqv.ret' rfl
  · rw [if_neg hc, if_neg hc]
    constructor
    intro h hk hfirm
    simp only [bind_apply, getHeap_apply] at hfirm ⊢
    have hm := copyVal_mono (h.length + 1) v h hfirm s.G.length
    have hfirm' : Firm (copyVal (h.length + 1 + s.G.length) v h).1 := by rw [hm]; exact hfirm
    have := (copyVal_eqv (s := s) (h.length + 1 + s.G.length) v).eq h hk hfirm'
    rw [hm] at this
    have hl : (s.heap h).length + 1 = h.length + 1 + s.G.length := by rw [Sh.heap_length s h hk]; omega
    rw [hl]
    exact this

theorem equalM_eqv (dev : Dev) (v0 v1 : Val) : Eqv s (equalM dev v0 v1) (equalM dev (s.val v0) (s.val v1)) := by
  constructor
  intro h hk hfirm
  simp only [equalM] at hfirm ⊢
  have hfuel : eqFuel (s.heap h) = eqFuel h + (eqFuel (s.heap h) - eqFuel h) := by
    have : eqFuel h ≤ eqFuel (s.heap h) := by
      unfold eqFuel; rw [Sh.heap_length s h hk]
      have := Nat.mul_le_mul (Nat.le_add_right h.length s.G.length) (Nat.le_add_right h.length s.G.length)
      omega
    omega
  have hsh := Sh.eqVals_sh s dev h hk (eqFuel (s.heap h)) [] v0 v1
  simp only [List.map] at hsh
  cases hr : eqVals dev h (eqFuel h) [] v0 v1 with
  | yes =>
    have := eqVals_mono dev h _ [] v0 v1 _ hr (Or.inl rfl) (eqFuel (s.heap h) - eqFuel h)
    rw [← hfuel] at this
    rw [hsh, this]
    exact ⟨rfl, Nat.le_refl _⟩
  | no =>
    have := eqVals_mono dev h _ [] v0 v1 _ hr (Or.inr rfl) (eqFuel (s.heap h) - eqFuel h)
    rw [← hfuel] at this
    rw [hsh, this]
    exact ⟨rfl, Nat.le_refl _⟩
  | cyc => rw [hr] at hfirm; exact absurd (Or.inl rfl) (hfirm .diverge rfl)
  | amb => rw [hr] at hfirm; exact absurd (Or.inr rfl) (hfirm .enum rfl)

/-! ### the functions commute with the insertion -/

@[simp] theorem exceptMap_id' (e : Except Stop α) : e.map (fun a => a) = e := by cases e <;> rfl

section views
variable (s)
@[simp] theorem sumStep_sh (acc : SumAcc) (v : Val) : sumStep acc (s.val v) = sumStep acc v := by cases v <;> cases acc <;> rfl
@[simp] theorem sumFirst_sh (v : Val) : sumFirst (s.val v) = sumFirst v := by cases v <;> rfl
@[simp] theorem arithStep_sh (dev : Dev) (op : ArithOp) (acc : NumAcc) (v : Val) : arithStep dev op acc (s.val v) = arithStep dev op acc v := by
  cases v <;> cases acc <;> rfl
@[simp] theorem arithFirst_sh (v : Val) : arithFirst (s.val v) = arithFirst v := by cases v <;> rfl
@[simp] theorem asInt_sh (v : Val) : asInt (s.val v) = asInt v := by cases v <;> rfl
@[simp] theorem asFloat_sh (b : Bool) (v : Val) : asFloat b (s.val v) = asFloat b v := by cases v <;> rfl
@[simp] theorem strOrEmpty_sh (v : Val) : (s.val v).strOrEmpty = v.strOrEmpty := by cases v <;> rfl
@[simp] theorem isArr_sh (v : Val) : (s.val v).isArr = v.isArr := by cases v <;> rfl
@[simp] theorem isBool_sh (v : Val) : (s.val v).isBool = v.isBool := by cases v <;> rfl
@[simp] theorem isMap_sh (v : Val) : (s.val v).isMap = v.isMap := by cases v <;> rfl
@[simp] theorem isStr_sh (v : Val) : (s.val v).isStr = v.isStr := by cases v <;> rfl
@[simp] theorem isNum_sh (v : Val) : (s.val v).isNum = v.isNum := by cases v <;> rfl
@[simp] theorem isNull_sh (v : Val) : (s.val v).isNull = v.isNull := by cases v <;> rfl
theorem sumAcc_val_sh (acc : SumAcc) : s.val acc.val = acc.val := by cases acc <;> rfl
theorem numAcc_val_sh (acc : NumAcc) : s.val acc.val = acc.val := by cases acc <;> rfl
end views

theorem mem_tail3 {a : Arg} {r : List Arg} {P : Arg → Prop} (he : ∀ x ∈ a :: r, P x) : ∀ x ∈ r, P x :=
  fun x hx => he x (List.mem_cons_of_mem _ hx)

variable (e1 e2 : Arg → M Val)

theorem sumLoop_eqv : ∀ (args : List Arg) (acc : SumAcc), (∀ a ∈ args, Eqv s (e1 a) (e2 a)) →
    Eqv s (sumLoop e1 acc args) (sumLoop e2 acc args)
  | [], acc, _ => by simp only [sumLoop]; exact Eqv.ret' (sumAcc_val_sh s acc).symm
  | a :: r, acc, he => by
    simp only [sumLoop]
    apply Eqv.bind (he a (List.mem_cons_self ..))
    intro v
    apply Eqv.bind (Eqv.liftE (by simp [ShOf.sh]))
    intro acc'
    exact sumLoop_eqv r acc' (mem_tail3 he)

theorem fnSum_eqv (args : List Arg) (he : ∀ a ∈ args, Eqv s (e1 a) (e2 a)) : Eqv s (fnSum e1 args) (fnSum e2 args) := by
  cases args with
  | nil => simp only [fnSum]; exact Eqv.ret' rfl
  | cons a r =>
    simp only [fnSum]
    apply Eqv.bind (he a (List.mem_cons_self ..))
    intro v
    apply Eqv.bind (Eqv.liftE (by simp [ShOf.sh]))
    intro acc
    exact sumLoop_eqv e1 e2 r acc (mem_tail3 he)

theorem arithLoop_eqv (dev : Dev) (op : ArithOp) : ∀ (args : List Arg) (acc : NumAcc), (∀ a ∈ args, Eqv s (e1 a) (e2 a)) →
    Eqv s (arithLoop dev op e1 acc args) (arithLoop dev op e2 acc args)
  | [], acc, _ => by simp only [arithLoop]; exact Eqv.ret' (numAcc_val_sh s acc).symm
  | a :: r, acc, he => by
    simp only [arithLoop]
    apply Eqv.bind (he a (List.mem_cons_self ..))
    intro v
    apply Eqv.bind (Eqv.liftE (by simp [ShOf.sh]))
    intro acc'
    exact arithLoop_eqv dev op r acc' (mem_tail3 he)

theorem fnArith_eqv (dev : Dev) (op : ArithOp) (args : List Arg) (he : ∀ a ∈ args, Eqv s (e1 a) (e2 a)) :
    Eqv s (fnArith dev op e1 args) (fnArith dev op e2 args) := by
  cases args with
  | nil => simp only [fnArith]; exact Eqv.ret' rfl
  | cons a r =>
    simp only [fnArith]
    apply Eqv.bind (he a (List.mem_cons_self ..))
    intro v
    apply Eqv.bind (Eqv.liftE (by simp [ShOf.sh]))
    intro acc
    exact arithLoop_eqv e1 e2 dev op r acc (mem_tail3 he)

theorem fnMod_eqv (args : List Arg) (he : ∀ a ∈ args, Eqv s (e1 a) (e2 a)) : Eqv s (fnMod e1 args) (fnMod e2 args) := by
  match args with
  | [] => simp only [fnMod]; exact Eqv.stop _
  | [a] => simp only [fnMod]; exact Eqv.stop _
  | [a, b] =>
    simp only [fnMod]
    apply Eqv.bind (he a (by simp))
    intro v0
    simp only [ShOf.sh, asInt_sh]
    cases asInt v0 with
    | none => exact Eqv.stop _
    | some n0 =>
      simp only
      apply Eqv.bind (he b (by simp))
      intro v1
      simp only [ShOf.sh, asInt_sh]
      cases asInt v1 with
      | none => exact Eqv.stop _
      | some n1 =>
        simp only
        split
        · exact Eqv.stop _
        · exact Eqv.ret' rfl
  | _ :: _ :: _ :: _ => simp only [fnMod]; exact Eqv.stop _

theorem cmpNumLoop_eqv (dev : Dev) (op : CmpOp) : ∀ (args : List Arg) (x : Flt), (∀ a ∈ args, Eqv s (e1 a) (e2 a)) →
    Eqv s (cmpNumLoop dev op e1 x args) (cmpNumLoop dev op e2 x args)
  | [], x, _ => by simp only [cmpNumLoop]; exact Eqv.ret' rfl
  | a :: r, x, he => by
    simp only [cmpNumLoop]
    apply Eqv.bind (he a (List.mem_cons_self ..))
    intro v
    simp only [ShOf.sh, asFloat_sh]
    cases asFloat (!dev.cmpFloat) v with
    | none => exact Eqv.stop _
    | some f =>
      simp only
      split
      · exact cmpNumLoop_eqv dev op r f (mem_tail3 he)
      · exact Eqv.ret' rfl

theorem cmpStrLoop_eqv (op : CmpOp) : ∀ (args : List Arg) (x : Bytes), (∀ a ∈ args, Eqv s (e1 a) (e2 a)) →
    Eqv s (cmpStrLoop op e1 x args) (cmpStrLoop op e2 x args)
  | [], x, _ => by simp only [cmpStrLoop]; exact Eqv.ret' rfl
  | a :: r, x, he => by
    simp only [cmpStrLoop]
    apply Eqv.bind (he a (List.mem_cons_self ..))
    intro v
    simp only [ShOf.sh, strOrEmpty_sh]
    split
    · exact cmpStrLoop_eqv op r _ (mem_tail3 he)
    · exact Eqv.ret' rfl

theorem fnCmp_eqv (dev : Dev) (hd : dev.cmpUneval = false) (op : CmpOp) (args : List Arg)
    (he : ∀ a ∈ args, Eqv s (e1 a) (e2 a)) : Eqv s (fnCmp dev op e1 args) (fnCmp dev op e2 args) := by
  cases args with
  | nil => simp only [fnCmp]; exact Eqv.ret' rfl
  | cons a r =>
    simp only [fnCmp, cmpHead, hd, Bool.false_eq_true, if_false]
    apply Eqv.bind (he a (List.mem_cons_self ..))
    intro t0
    cases t0 with
    | str x => simp only [ShOf.sh, Sh.val_str]; exact cmpStrLoop_eqv e1 e2 op r x (mem_tail3 he)
    | null => simp only [ShOf.sh, Sh.val_null, asFloat]; exact Eqv.stop _
    | bool b => simp only [ShOf.sh, Sh.val_bool, asFloat]; exact Eqv.stop _
    | int i => simp only [ShOf.sh, Sh.val_int, asFloat]; exact cmpNumLoop_eqv e1 e2 dev op r _ (mem_tail3 he)
    | flt f => simp only [ShOf.sh, Sh.val_flt, asFloat]; exact cmpNumLoop_eqv e1 e2 dev op r _ (mem_tail3 he)
    | aref x => simp only [ShOf.sh, Sh.val_aref, asFloat]; exact Eqv.stop _
    | mref x => simp only [ShOf.sh, Sh.val_mref, asFloat]; exact Eqv.stop _
    | path p => simp only [ShOf.sh, Sh.val_path, asFloat]; exact Eqv.stop _

theorem eqLoop_eqv (dev : Dev) (v0 : Val) : ∀ (args : List Arg), (∀ a ∈ args, Eqv s (e1 a) (e2 a)) →
    Eqv s (eqLoop dev e1 v0 args) (eqLoop dev e2 (s.val v0) args)
  | [], _ => by simp only [eqLoop]; exact Eqv.ret' rfl
  | a :: r, he => by
    simp only [eqLoop]
    apply Eqv.bind (he a (List.mem_cons_self ..))
    intro v
    apply Eqv.bind (equalM_eqv dev v0 v)
    intro b
    simp only [ShOf.sh]
    split
    · exact eqLoop_eqv dev v0 r (mem_tail3 he)
    · exact Eqv.ret' rfl

theorem fnEqual_eqv (dev : Dev) (args : List Arg) (he : ∀ a ∈ args, Eqv s (e1 a) (e2 a)) :
    Eqv s (fnEqual dev e1 args) (fnEqual dev e2 args) := by
  cases args with
  | nil => simp only [fnEqual]; exact Eqv.ret' rfl
  | cons a r =>
    simp only [fnEqual]
    apply Eqv.bind (he a (List.mem_cons_self ..))
    intro v0
    exact eqLoop_eqv e1 e2 dev v0 r (mem_tail3 he)

theorem fnAnd_eqv : ∀ (args : List Arg), (∀ a ∈ args, Eqv s (e1 a) (e2 a)) → Eqv s (fnAnd e1 args) (fnAnd e2 args)
  | [], _ => by simp only [fnAnd]; exact Eqv.ret' rfl
  | a :: r, he => by
    simp only [fnAnd]
    apply Eqv.bind (he a (List.mem_cons_self ..))
    intro v
    cases v with
    | bool b => cases b <;> simp only [ShOf.sh, Sh.val_bool] <;> first | exact Eqv.ret' rfl | exact fnAnd_eqv r (mem_tail3 he)
    | null => simp only [ShOf.sh, Sh.val_null]; exact Eqv.ret' rfl
    | int i => exact Eqv.stop _
    | flt f => exact Eqv.stop _
    | str x => exact Eqv.stop _
    | aref x => exact Eqv.stop _
    | mref x => exact Eqv.stop _
    | path p => exact Eqv.stop _

theorem fnOr_eqv : ∀ (args : List Arg), (∀ a ∈ args, Eqv s (e1 a) (e2 a)) → Eqv s (fnOr e1 args) (fnOr e2 args)
  | [], _ => by simp only [fnOr]; exact Eqv.ret' rfl
  | a :: r, he => by
    simp only [fnOr]
    apply Eqv.bind (he a (List.mem_cons_self ..))
    intro v
    cases v with
    | bool b => cases b <;> simp only [ShOf.sh, Sh.val_bool] <;> first | exact Eqv.ret' rfl | exact fnOr_eqv r (mem_tail3 he)
    | null => simp only [ShOf.sh, Sh.val_null]; exact fnOr_eqv r (mem_tail3 he)
    | int i => exact Eqv.stop _
    | flt f => exact Eqv.stop _
    | str x => exact Eqv.stop _
    | aref x => exact Eqv.stop _
    | mref x => exact Eqv.stop _
    | path p => exact Eqv.stop _

theorem fnNot_eqv (args : List Arg) (he : ∀ a ∈ args, Eqv s (e1 a) (e2 a)) : Eqv s (fnNot e1 args) (fnNot e2 args) := by
  match args with
  | [] => simp only [fnNot]; exact Eqv.stop _
  | [a] =>
    simp only [fnNot]
    apply Eqv.bind (he a (by simp))
    intro v
    cases v <;> first | exact Eqv.stop _ | exact Eqv.ret' rfl
  | _ :: _ :: _ => simp only [fnNot]; exact Eqv.stop _

/-- a value of the plan: a scalar, or a reference below the boundary — the insertion leaves it alone -/
def Val.lo (k : Nat) : Val → Prop
  | .aref a => a < k
  | .mref a => a < k
  | _ => True

theorem Sh.val_lo {v : Val} (h : v.lo s.k) : s.val v = v := by
  cases v <;> simp [Val.lo, Sh.ad] at h ⊢ <;> omega

/-- every literal of the plan lives in the plan's cells -/
inductive ArgLo (k : Nat) : Arg → Prop where
  | lit (v : Val) : v.lo k → ArgLo k (.lit v)
  | raw (v : Val) (es : List Arg) : v.lo k → (∀ e ∈ es, ArgLo k e) → ArgLo k (.raw v es)
  | path (p : Path) : ArgLo k (.path p)
  | call (f : Bytes) (args : List Arg) : (∀ a ∈ args, ArgLo k a) → ArgLo k (.call f args)
  | unk : ArgLo k .unk

theorem evalValue_eqv (dev : Dev) (hd : dev.condListAlias = false) (a : Arg) (ha : Eqv s (e1 a) (e2 a)) :
    Eqv s (evalValue dev e1 a) (evalValue dev e2 a) := by
  unfold evalValue
  cases a <;> simp only [hd, Bool.false_eq_true, if_false] <;> first | exact ha | skip
  split
  · exact Eqv.ret' rfl
  · exact ha

theorem fnCond_eqv (dev : Dev) (hd : dev.condListAlias = false) :
    ∀ (args : List Arg), (∀ a ∈ args, ∀ c ∈ condKids a, Eqv s (e1 c) (e2 c)) → Eqv s (fnCond dev e1 args) (fnCond dev e2 args)
  | [], _ => by simp only [fnCond]; exact Eqv.ret' rfl
  | a :: r, he => by
    have ih := fnCond_eqv dev hd r (fun x hx => he x (List.mem_cons_of_mem _ hx))
    have ha := he a (List.mem_cons_self ..)
    cases a with
    | raw l es =>
      match es with
      | [c, v] =>
        have hc := evalValue_eqv e1 e2 dev hd c (ha c (by simp [condKids]))
        have hv := evalValue_eqv e1 e2 dev hd v (ha v (by simp [condKids]))
        simp only [fnCond]
        apply Eqv.bind hc
        intro b
        have hb : (ShOf.sh s b = Val.bool true) ↔ (b = Val.bool true) := by cases b <;> simp [ShOf.sh]
        simp only [hb]
        split
        · exact hv
        · exact ih
      | [] => simp only [fnCond]; exact Eqv.stop _
      | [_] => simp only [fnCond]; exact Eqv.stop _
      | _ :: _ :: _ :: _ => simp only [fnCond]; exact Eqv.stop _
    | lit v => cases v <;> (simp only [fnCond]; exact Eqv.stop _)
    | path p => simp only [fnCond]; exact Eqv.stop _
    | call f as => simp only [fnCond]; exact Eqv.stop _
    | unk => simp only [fnCond]; exact Eqv.stop _

theorem pathArg_eqv (a : Arg) (ha : Eqv s (e1 a) (e2 a)) : Eqv s (pathArg e1 a) (pathArg e2 a) := by
  unfold pathArg
  cases a with
  | path p => exact Eqv.ret' rfl
  | call f as =>
    simp only
    apply Eqv.bind ha
    intro v
    cases v <;> first | exact Eqv.stop _ | exact Eqv.ret' rfl
  | lit v => exact Eqv.stop _
  | raw v es => exact Eqv.stop _
  | unk => exact Eqv.stop _

theorem first_tail_eqv (dev : Dev) (base : Val) (fs : List Frag) :
    Eqv s (getHeap >>= fun h => liftE (pathFirst ⟨dev, none⟩ h base fs) >>= fun r => pure (r.getD .null))
      (getHeap >>= fun h => liftE (pathFirst ⟨dev, none⟩ h (s.val base) fs) >>= fun r => pure (r.getD .null)) := by
  apply Eqv.bind_getHeap
  intro h0 hk0
  apply Eqv.bind (Eqv.liftE (Sh.pathFirst_sh s dev h0 hk0 fs base))
  intro r
  exact Eqv.ret' (by cases r <;> rfl)

theorem getall_tail_eqv (dev : Dev) (base : Val) (fs : List Frag) :
    Eqv s (getHeap >>= fun h => liftE (pathGet ⟨dev, none⟩ h base fs) >>= fun r => alloc (.arr r) >>= fun c => pure (Val.aref c))
      (getHeap >>= fun h => liftE (pathGet ⟨dev, none⟩ h (s.val base) fs) >>= fun r => alloc (.arr r) >>= fun c => pure (Val.aref c)) := by
  apply Eqv.bind_getHeap
  intro h0 hk0
  apply Eqv.bind (Eqv.liftE (Sh.pathGet_sh s dev h0 hk0 fs base))
  intro r
  apply Eqv.bind (Eqv.alloc (show Cell.arr (ShOf.sh s r) = s.cell (Cell.arr r) from rfl))
  intro c
  exact Eqv.ret' rfl

theorem ite_val (c : Bool) (a b : Val) : (if c = true then s.val a else s.val b) = s.val (if c = true then a else b) := by
  cases c <;> rfl

theorem fnGet_eqv (dev : Dev) (root at_ : Val) (args : List Arg) (he : ∀ a ∈ args, Eqv s (e1 a) (e2 a)) :
    Eqv s (fnGet ⟨dev, none⟩ e1 root at_ args) (fnGet ⟨dev, none⟩ e2 (s.val root) (s.val at_) args) := by
  match args with
  | [] => simp only [fnGet]; exact Eqv.stop _
  | [a] =>
    simp only [fnGet]
    apply Eqv.bind (pathArg_eqv e1 e2 a (he a (by simp)))
    intro p
    simp only [ShOf.sh, ite_val]
    exact first_tail_eqv dev _ _
  | [a, d] =>
    simp only [fnGet]
    apply Eqv.bind (pathArg_eqv e1 e2 a (he a (by simp)))
    intro p
    apply Eqv.bind (he d (by simp))
    intro data
    exact first_tail_eqv dev _ _
  | _ :: _ :: _ :: _ => simp only [fnGet]; exact Eqv.stop _

theorem fnGetall_eqv (dev : Dev) (root at_ : Val) (args : List Arg) (he : ∀ a ∈ args, Eqv s (e1 a) (e2 a)) :
    Eqv s (fnGetall ⟨dev, none⟩ e1 root at_ args) (fnGetall ⟨dev, none⟩ e2 (s.val root) (s.val at_) args) := by
  match args with
  | [] => simp only [fnGetall]; exact Eqv.stop _
  | [a] =>
    simp only [fnGetall]
    apply Eqv.bind (pathArg_eqv e1 e2 a (he a (by simp)))
    intro p
    simp only [ShOf.sh, ite_val]
    exact getall_tail_eqv dev _ _
  | [a, d] =>
    simp only [fnGetall]
    apply Eqv.bind (pathArg_eqv e1 e2 a (he a (by simp)))
    intro p
    apply Eqv.bind (he d (by simp))
    intro data
    exact getall_tail_eqv dev _ _
  | _ :: _ :: _ :: _ => simp only [fnGetall]; exact Eqv.stop _

theorem pathSet_eqv (value : Option Val) (cur : Val) (fs : List Frag) :
    Eqv s (pathSet value cur fs) (pathSet (value.map s.val) (s.val cur) fs) := by
  constructor
  intro h hk _
  obtain ⟨r1, r2⟩ := Sh.pathSet_sh s value fs cur h hk
  refine ⟨?_, r2⟩
  rw [r1]
  cases (pathSet value cur fs h).1 <;> rfl

theorem setAt_eqv (value : Option Val) (p : Path) (root at_ : Val) :
    Eqv s (setAt value p root at_) (setAt (value.map s.val) p (s.val root) (s.val at_)) := by
  unfold setAt
  split
  · exact Eqv.stop _
  · rw [ite_val]; exact pathSet_eqv _ _ _

theorem fnSet_eqv (root at_ : Val) (args : List Arg) (he : ∀ a ∈ args, Eqv s (e1 a) (e2 a)) :
    Eqv s (fnSet e1 root at_ args) (fnSet e2 (s.val root) (s.val at_) args) := by
  match args with
  | [] => simp only [fnSet]; exact Eqv.stop _
  | [_] => simp only [fnSet]; exact Eqv.stop _
  | [a, b] =>
    simp only [fnSet]
    apply Eqv.bind (pathArg_eqv e1 e2 a (he a (by simp)))
    intro p
    apply Eqv.bind (he b (by simp))
    intro v
    apply Eqv.bind (setAt_eqv (some v) p root at_)
    intro _
    exact Eqv.ret' rfl
  | _ :: _ :: _ :: _ => simp only [fnSet]; exact Eqv.stop _

theorem fnDel_eqv (root at_ : Val) (args : List Arg) : Eqv s (fnDel root at_ args) (fnDel (s.val root) (s.val at_) args) := by
  match args with
  | [] => simp only [fnDel]; exact Eqv.stop _
  | [a] =>
    simp only [fnDel]
    cases a with
    | path p =>
      simp only
      apply Eqv.bind (setAt_eqv none p root at_)
      intro _
      exact Eqv.ret' rfl
    | lit v => exact Eqv.stop _
    | raw v es => exact Eqv.stop _
    | call f as => exact Eqv.stop _
    | unk => exact Eqv.stop _
  | _ :: _ :: _ => simp only [fnDel]; exact Eqv.stop _

variable (ev1 ev2 : Arg → Val → M Val)

theorem eachLoop_eqv (fn : Arg) (key : Bytes) (a : Nat) (hfn : ∀ at_, Eqv s (ev1 fn at_) (ev2 fn (s.val at_))) :
    ∀ (n i : Nat) (acc : List Val),
      Eqv s (eachLoop ev1 fn key a n i acc) (eachLoop ev2 fn key (s.ad a) n i (acc.map s.val))
  | 0, i, acc => by
    simp only [eachLoop]
    exact Eqv.ret' (by simp [ShOf.sh, List.map_reverse])
  | n + 1, i, acc => by
    simp only [eachLoop]
    apply Eqv.bind_getHeap
    intro h0 hk0
    rw [Sh.arrAt_sh s h0 hk0, Sh.getD_map]
    apply Eqv.bind (Eqv.alloc (show Cell.map [(b!"src", s.val ((h0.arrAt a).getD i .null))] =
      s.cell (Cell.map [(b!"src", (h0.arrAt a).getD i .null)]) from rfl))
    intro m
    apply Eqv.bind (hfn (.mref m))
    intro _
    apply Eqv.bind_getHeap
    intro h2 hk2
    have : (ShOf.sh s m : Nat) = s.ad m := rfl
    rw [this, Sh.mapAt_sh s h2 hk2, Sh.kvGet_map]
    have e : ((kvGet key (h2.mapAt m)).map s.val).getD .null :: acc.map s.val =
        (((kvGet key (h2.mapAt m)).getD .null) :: acc).map s.val := by
      cases kvGet key (h2.mapAt m) <;> rfl
    rw [e]
    exact eachLoop_eqv fn key a hfn n (i + 1) _

theorem each_tail_eqv (fn : Arg) (key : Bytes) (a : Nat) (hfn : ∀ at_, Eqv s (ev1 fn at_) (ev2 fn (s.val at_))) :
    Eqv s (getHeap >>= fun h => eachLoop ev1 fn key a (h.arrAt a).length 0 [] >>= fun rs =>
        alloc (.arr rs) >>= fun c => pure (Val.aref c))
      (getHeap >>= fun h => eachLoop ev2 fn key (s.ad a) (h.arrAt (s.ad a)).length 0 [] >>= fun rs =>
        alloc (.arr rs) >>= fun c => pure (Val.aref c)) := by
  apply Eqv.bind_getHeap
  intro h0 hk0
  rw [Sh.arrAt_sh s h0 hk0, List.length_map]
  apply Eqv.bind (eachLoop_eqv ev1 ev2 fn key a hfn _ 0 [])
  intro rs
  apply Eqv.bind (Eqv.alloc (show Cell.arr (ShOf.sh s rs) = s.cell (Cell.arr rs) from rfl))
  intro c
  exact Eqv.ret' rfl

theorem fnEach_eqv (at_ : Val) (args : List Arg) (he : ∀ a ∈ args, ∀ at', Eqv s (ev1 a at') (ev2 a (s.val at'))) :
    Eqv s (fnEach ev1 at_ args) (fnEach ev2 (s.val at_) args) := by
  match args, he with
  | [], _ => simp only [fnEach]; exact Eqv.stop _
  | [_], _ => simp only [fnEach]; exact Eqv.stop _
  | [a0, fn], he =>
    simp only [fnEach]
    apply Eqv.bind (he a0 (by simp) at_)
    intro v
    cases v <;> try exact Eqv.stop _
    rename_i a
    cases fn <;> try exact Eqv.stop _
    rename_i f fargs
    simp only [ShOf.sh, Sh.val_aref, bind_assoc, pure_bind]
    exact each_tail_eqv ev1 ev2 (.call f fargs) b!"asm" a (he _ (by simp))
  | [a0, fn, kk], he =>
    simp only [fnEach]
    apply Eqv.bind (he a0 (by simp) at_)
    intro v
    cases v <;> try exact Eqv.stop _
    rename_i a
    cases fn <;> try exact Eqv.stop _
    rename_i f fargs
    simp only [ShOf.sh, Sh.val_aref]
    apply Eqv.bind (α := Bytes)
    · apply Eqv.bind (he kk (by simp) at_)
      intro kv
      cases kv <;> first | exact Eqv.stop _ | exact Eqv.ret' rfl
    · intro key
      exact each_tail_eqv ev1 ev2 (.call f fargs) key a (he _ (by simp))
  | _ :: _ :: _ :: _ :: _, _ => simp only [fnEach]; exact Eqv.stop _

theorem joinLoop_eqv : ∀ (args : List Arg) (first : Bool) (acc : Bytes), (∀ a ∈ args, Eqv s (e1 a) (e2 a)) →
    Eqv s (joinLoop e1 args first acc) (joinLoop e2 args first acc)
  | [], _, _, _ => by simp only [joinLoop]; exact Eqv.ret' rfl
  | a :: r, first, acc, he => by
    simp only [joinLoop]
    apply Eqv.bind (he a (List.mem_cons_self ..))
    intro v
    cases v <;> first | exact Eqv.stop _ | exact joinLoop_eqv r _ _ (mem_tail3 he)

theorem fnPathOf_eqv (isAt : Bool) (args : List Arg) (he : ∀ a ∈ args, Eqv s (e1 a) (e2 a)) :
    Eqv s (fnPathOf isAt e1 args) (fnPathOf isAt e2 args) := by
  simp only [fnPathOf]
  apply Eqv.bind (joinLoop_eqv e1 e2 args true [] he)
  intro b
  simp only [ShOf.sh]
  cases parseRel b with
  | none => exact Eqv.stop _
  | some fs => exact Eqv.ret' rfl

theorem fnAsm_eqv : ∀ (args : List Arg) (at_ : Val), (∀ a ∈ args, ∀ at', Eqv s (ev1 a at') (ev2 a (s.val at'))) →
    Eqv s (fnAsm ev1 args at_) (fnAsm ev2 args (s.val at_))
  | [], at_, _ => by simp only [fnAsm]; exact Eqv.ret' rfl
  | a :: r, at_, he => by
    simp only [fnAsm]
    apply Eqv.bind (he a (List.mem_cons_self ..) at_)
    intro v
    exact fnAsm_eqv r v (mem_tail3 he)

theorem fnQuote_evalLit_eqv (dev : Dev) (args : List Arg) (hlo : ∀ a ∈ args, ArgLo s.k a) :
    Eqv s (fnQuote args >>= fun v => evalLit dev v) (fnQuote args >>= fun v => evalLit dev v) := by
  cases args with
  | nil =>
    have := evalLit_eqv (s := s) dev .null
    constructor
    intro h hk hf
    simpa [fnQuote] using this.eq h hk (by simpa [fnQuote] using hf)
  | cons a r =>
    have hlo' := hlo a (List.mem_cons_self ..)
    cases a with
    | lit v =>
      cases hlo' with
      | lit _ hv =>
        have := evalLit_eqv (s := s) dev v
        rw [Sh.val_lo hv] at this
        constructor
        intro h hk hf
        simpa [fnQuote] using this.eq h hk (by simpa [fnQuote] using hf)
    | raw v es =>
      cases hlo' with
      | raw _ _ hv _ =>
        have := evalLit_eqv (s := s) dev v
        rw [Sh.val_lo hv] at this
        constructor
        intro h hk hf
        simpa [fnQuote] using this.eq h hk (by simpa [fnQuote] using hf)
    | path p => exact ⟨fun h hk _ => ⟨by simp [fnQuote], by simp [fnQuote]⟩⟩
    | call f as => exact ⟨fun h hk _ => ⟨by simp [fnQuote], by simp [fnQuote]⟩⟩
    | unk => exact ⟨fun h hk _ => ⟨by simp [fnQuote], by simp [fnQuote]⟩⟩

theorem mapM'_eqv_args : ∀ (args : List Arg), (∀ a ∈ args, Eqv s (e1 a) (e2 a)) → Eqv s (mapM' e1 args) (mapM' e2 args)
  | [], _ => by simp only [mapM']; exact Eqv.ret' rfl
  | a :: r, he => by
    simp only [mapM']
    apply Eqv.bind (he a (List.mem_cons_self ..))
    intro b
    apply Eqv.bind (mapM'_eqv_args r (mem_tail3 he))
    intro bs
    exact Eqv.ret' rfl

theorem fnList_eqv (args : List Arg) (he : ∀ a ∈ args, Eqv s (e1 a) (e2 a)) : Eqv s (fnList e1 args) (fnList e2 args) := by
  unfold fnList
  apply Eqv.bind (mapM'_eqv_args e1 e2 args he)
  intro vs
  apply Eqv.bind (Eqv.alloc (show Cell.arr (ShOf.sh s vs) = s.cell (Cell.arr vs) from rfl))
  intro c
  exact Eqv.ret' rfl

theorem fnNth_eqv (args : List Arg) (he : ∀ a ∈ args, Eqv s (e1 a) (e2 a)) : Eqv s (fnNth e1 args) (fnNth e2 args) := by
  match args with
  | [] => simp only [fnNth]; exact Eqv.stop _
  | [a] => simp only [fnNth]; exact Eqv.stop _
  | [a, b] =>
    simp only [fnNth]
    apply Eqv.bind (he a (by simp))
    intro v
    cases v <;> try exact Eqv.stop _
    rename_i c
    simp only [ShOf.sh, Sh.val_aref]
    apply Eqv.bind (he b (by simp))
    intro iv
    simp only [ShOf.sh, asInt_sh]
    cases asInt iv with
    | none => exact Eqv.stop _
    | some i =>
      simp only
      apply Eqv.bind_getHeap
      intro h0 hk0
      rw [Sh.arrAt_sh s h0 hk0, List.length_map]
      cases normIdx i (h0.arrAt c).length with
      | none => exact Eqv.ret' rfl
      | some j => simp only; rw [Sh.getD_map]; exact Eqv.ret' rfl
  | _ :: _ :: _ :: _ => simp only [fnNth]; exact Eqv.stop _

theorem fnSize_eqv (args : List Arg) (he : ∀ a ∈ args, Eqv s (e1 a) (e2 a)) : Eqv s (fnSize e1 args) (fnSize e2 args) := by
  match args with
  | [] => simp only [fnSize]; exact Eqv.stop _
  | [a] =>
    simp only [fnSize]
    apply Eqv.bind (he a (by simp))
    intro v
    apply Eqv.bind_getHeap
    intro h0 hk0
    cases v with
    | aref c => simp only [ShOf.sh, Sh.val_aref, Sh.arrAt_sh s h0 hk0, List.length_map]; exact Eqv.ret' rfl
    | mref c => simp only [ShOf.sh, Sh.val_mref, Sh.mapAt_sh s h0 hk0, List.length_map]; exact Eqv.ret' rfl
    | null => exact Eqv.ret' rfl
    | bool b => exact Eqv.ret' rfl
    | int i => exact Eqv.ret' rfl
    | flt f => exact Eqv.ret' rfl
    | str x => exact Eqv.ret' rfl
    | path p => exact Eqv.ret' rfl
  | _ :: _ :: _ => simp only [fnSize]; exact Eqv.stop _


/-! ### text, conversion and list functions -/

@[simp] theorem toTreeS_sh (v : Val) : (s.val v).toTreeS = v.toTreeS := by cases v <;> rfl
@[simp] theorem toVal_sh (t : Tree) : s.val t.toVal = t.toVal := by cases t <;> rfl

theorem accept_sh (h : Heap) (hk : s.k ≤ h.length) (w : Want) (v : Val) :
    w.accept (s.heap h) (s.val v) = w.accept h v := by
  cases w <;> cases v <;> try rfl
  rename_i a
  simp only [Sh.val_aref, Want.accept, Sh.arrAt_sh s h hk, List.all_map, List.map_map]
  have h1 : (Val.isStr ∘ s.val) = Val.isStr := by funext v; simp
  have h2 : (Val.toTreeS ∘ s.val) = Val.toTreeS := by funext v; simp
  rw [h1, h2]

theorem wantLoop_eqv : ∀ (args : List Arg) (ws : List Want) (acc : List Tree), (∀ a ∈ args, Eqv s (e1 a) (e2 a)) →
    Eqv s (wantLoop e1 args ws acc) (wantLoop e2 args ws acc)
  | [], _, _, _ => by simp only [wantLoop]; exact Eqv.ret' rfl
  | _ :: _, [], _, _ => by simp only [wantLoop]; exact Eqv.ret' rfl
  | a :: r, w :: ws, acc, he => by
    simp only [wantLoop]
    apply Eqv.bind (he a (List.mem_cons_self ..))
    intro v
    apply Eqv.bind_getHeap
    intro h0 hk0
    apply Eqv.bind (Eqv.liftE (show w.accept (s.heap h0) (ShOf.sh s v) = (w.accept h0 v).map (ShOf.sh s) from by
      simp only [ShOf.sh]
      rw [accept_sh h0 hk0]
      cases w.accept h0 v <;> rfl))
    intro xs
    exact wantLoop_eqv r ws _ (mem_tail3 he)

theorem retTree_eqv (t : Tree) : Eqv s (retTree t) (retTree t) := by
  cases t with
  | arr xs =>
    simp only [retTree]
    apply Eqv.bind (Eqv.alloc (show Cell.arr (xs.map Tree.toVal) = s.cell (Cell.arr (xs.map Tree.toVal)) from by
      simp only [Sh.cell, List.map_map]
      congr 1
      apply List.map_congr_left
      intro t _
      simp))
    intro c
    exact Eqv.ret' rfl
  | null => exact Eqv.ret' rfl
  | bool b => exact Eqv.ret' rfl
  | int i => exact Eqv.ret' rfl
  | flt f => exact Eqv.ret' rfl
  | str x => exact Eqv.ret' rfl
  | obj kvs => exact Eqv.ret' rfl

theorem fnScalar_eqv (g : ScalarFn) (args : List Arg) (he : ∀ a ∈ args, Eqv s (e1 a) (e2 a)) :
    Eqv s (fnScalar g e1 args) (fnScalar g e2 args) := by
  have hw := wantLoop_eqv e1 e2 _ (g.wants args.length) [] (swapArgs_mem (b := g.swap) he)
  unfold fnScalar
  split
  · exact Eqv.stop _
  · apply Eqv.bind hw
    intro acc
    apply Eqv.bind (Eqv.liftE (show g.fin args.length (ShOf.sh s acc) = (g.fin args.length acc).map (ShOf.sh s) from by
      simp only [ShOf.sh]
      cases g.fin args.length acc <;> rfl))
    intro t
    exact retTree_eqv t

theorem fnReverse_eqv (args : List Arg) (he : ∀ a ∈ args, Eqv s (e1 a) (e2 a)) : Eqv s (fnReverse e1 args) (fnReverse e2 args) := by
  match args with
  | [] => simp only [fnReverse]; exact Eqv.stop _
  | [a] =>
    simp only [fnReverse]
    apply Eqv.bind (he a (by simp))
    intro v
    cases v <;> try exact Eqv.stop _
    rename_i c
    simp only [ShOf.sh, Sh.val_aref]
    apply Eqv.bind_getHeap
    intro h0 hk0
    rw [Sh.arrAt_sh s h0 hk0]
    apply Eqv.bind (Eqv.alloc (show Cell.arr ((h0.arrAt c).map s.val).reverse = s.cell (Cell.arr (h0.arrAt c).reverse) from by
      simp [Sh.cell, List.map_reverse]))
    intro c'
    exact Eqv.ret' rfl
  | _ :: _ :: _ => simp only [fnReverse]; exact Eqv.stop _

theorem fnAppend_eqv (args : List Arg) (he : ∀ a ∈ args, Eqv s (e1 a) (e2 a)) : Eqv s (fnAppend e1 args) (fnAppend e2 args) := by
  match args with
  | [] => simp only [fnAppend]; exact Eqv.stop _
  | [_] => simp only [fnAppend]; exact Eqv.stop _
  | [a, b] =>
    simp only [fnAppend]
    apply Eqv.bind (he a (by simp))
    intro v
    cases v <;> try exact Eqv.stop _
    rename_i c
    simp only [ShOf.sh, Sh.val_aref]
    apply Eqv.bind (he b (by simp))
    intro w
    apply Eqv.bind_getHeap
    intro h0 hk0
    rw [Sh.arrAt_sh s h0 hk0]
    apply Eqv.bind (Eqv.alloc (show Cell.arr ((h0.arrAt c).map s.val ++ [ShOf.sh s w]) = s.cell (Cell.arr (h0.arrAt c ++ [w])) from by
      simp [Sh.cell, ShOf.sh]))
    intro c'
    exact Eqv.ret' rfl
  | _ :: _ :: _ :: _ => simp only [fnAppend]; exact Eqv.stop _

theorem goEq_sh (m v : Val) : goEq (s.val m) (s.val v) = goEq m v := by cases m <;> cases v <;> rfl

theorem includeLoop_sh (v1 : Val) : ∀ (xs : List Val),
    includeLoop (s.val v1) (xs.map s.val) = (includeLoop v1 xs).map s.val
  | [] => rfl
  | m :: r => by
    simp only [List.map, includeLoop, goEq_sh]
    cases goEq m v1 with
    | none => rfl
    | some b => cases b <;> simp only [] <;> first | rfl | exact includeLoop_sh v1 r

theorem fnInclude_eqv (args : List Arg) (he : ∀ a ∈ args, Eqv s (e1 a) (e2 a)) : Eqv s (fnInclude e1 args) (fnInclude e2 args) := by
  match args with
  | [] => simp only [fnInclude]; exact Eqv.stop _
  | [_] => simp only [fnInclude]; exact Eqv.stop _
  | [a, b] =>
    simp only [fnInclude]
    apply Eqv.bind (he b (by simp))
    intro v1
    apply Eqv.bind (he a (by simp))
    intro v
    cases v <;> try exact Eqv.stop _
    · cases v1 <;> first | exact Eqv.stop _ | exact Eqv.ret' rfl
    · rename_i c
      simp only [ShOf.sh, Sh.val_aref]
      apply Eqv.bind_getHeap
      intro h0 hk0
      rw [Sh.arrAt_sh s h0 hk0]
      exact Eqv.liftE (includeLoop_sh v1 _)
  | _ :: _ :: _ :: _ => simp only [fnInclude]; exact Eqv.stop _

/-- a (key, element) pair of `sort` under the address shift -/
def Sh.pair (s : Sh) (p : Option Val × Val) : Option Val × Val := (p.1.map s.val, s.val p.2)

theorem sortLess_sh (ki kj : Option Val) : sortLess (ki.map s.val) (kj.map s.val) = sortLess ki kj := by
  cases ki with
  | none => rfl
  | some vi =>
    cases kj with
    | none => cases vi <;> rfl
    | some vj => cases vi <;> cases vj <;> rfl

theorem sortInsert_sh (x : Option Val × Val) : ∀ (pre : List (Option Val × Val)),
    sortInsert (s.pair x) (pre.map s.pair) = (sortInsert x pre).map (List.map s.pair)
  | [] => rfl
  | p :: r => by
    simp only [List.map, sortInsert, Sh.pair, sortLess_sh]
    cases sortLess x.1 p.1 with
    | error e => rfl
    | ok b =>
      cases b
      · rfl
      · simp only []
        have ih := sortInsert_sh x r
        simp only [Sh.pair] at ih
        rw [ih]
        cases sortInsert x r <;> rfl

theorem sortRun_sh : ∀ (xs pre : List (Option Val × Val)),
    sortRun (xs.map s.pair) (pre.map s.pair) = (sortRun xs pre).map (List.map s.pair)
  | [], pre => rfl
  | x :: r, pre => by
    simp only [List.map, sortRun, sortInsert_sh]
    cases sortInsert x pre with
    | error e => rfl
    | ok pre' => exact sortRun_sh r pre'

theorem sortKeys_sh (dev : Dev) (h : Heap) (hk : s.k ≤ h.length) (fs : List Frag) : ∀ (xs : List Val),
    sortKeys ⟨dev, none⟩ (s.heap h) fs (xs.map s.val) = (sortKeys ⟨dev, none⟩ h fs xs).map (List.map s.pair)
  | [] => rfl
  | x :: r => by
    simp only [List.map, sortKeys, Sh.pathFirst_sh s dev h hk fs x, sortKeys_sh dev h hk fs r]
    cases pathFirst ⟨dev, none⟩ h x fs with
    | error e => rfl
    | ok kx => cases sortKeys ⟨dev, none⟩ h fs r <;> rfl

theorem sortList_sh (dev : Dev) (h : Heap) (hk : s.k ≤ h.length) (fs : List Frag) (xs : List Val) :
    sortList ⟨dev, none⟩ (s.heap h) fs (xs.map s.val) = (sortList ⟨dev, none⟩ h fs xs).map (List.map s.val) := by
  unfold sortList
  simp only [List.length_map, sortKeys_sh dev h hk fs xs]
  split
  · rfl
  · cases sortKeys ⟨dev, none⟩ h fs xs with
    | error e => rfl
    | ok ks =>
      have hr := sortRun_sh (s := s) ks []
      simp only [List.map] at hr
      simp only [exceptMap_ok, hr]
      cases sortRun ks [] with
      | error e => rfl
      | ok l =>
        simp only [exceptMap_ok, List.map_map, List.map_reverse]
        rfl

theorem fnSort_eqv (dev : Dev) (args : List Arg) (he : ∀ a ∈ args, Eqv s (e1 a) (e2 a)) :
    Eqv s (fnSort ⟨dev, none⟩ e1 args) (fnSort ⟨dev, none⟩ e2 args) := by
  match args with
  | [] => simp only [fnSort]; exact Eqv.stop _
  | [_] => simp only [fnSort]; exact Eqv.stop _
  | [a, b] =>
    simp only [fnSort]
    apply Eqv.bind (he a (by simp))
    intro v
    cases v <;> try exact Eqv.stop _
    rename_i c
    simp only [ShOf.sh, Sh.val_aref]
    cases b <;> try exact Eqv.stop _
    rename_i p
    simp only
    apply Eqv.bind_getHeap
    intro h0 hk0
    rw [Sh.arrAt_sh s h0 hk0]
    apply Eqv.bind (Eqv.liftE (sortList_sh dev h0 hk0 p.frags _))
    intro r
    apply Eqv.bind (Eqv.alloc (show Cell.arr (ShOf.sh s r) = s.cell (Cell.arr r) from rfl))
    intro c'
    exact Eqv.ret' rfl
  | _ :: _ :: _ :: _ => simp only [fnSort]; exact Eqv.stop _

/-- a predicate on values that does not look at addresses -/
def ShBlind (s : Sh) (p : Val → Bool) : Prop := ∀ v, p (s.val v) = p v

theorem fnPred_eqv (p : Val → Bool) (hp : ShBlind s p) (args : List Arg) (he : ∀ a ∈ args, Eqv s (e1 a) (e2 a)) :
    Eqv s (fnPred p e1 args) (fnPred p e2 args) := by
  match args with
  | [] => simp only [fnPred]; exact Eqv.stop _
  | [a] =>
    simp only [fnPred]
    apply Eqv.bind (he a (by simp))
    intro v
    exact Eqv.ret' (by simp [ShOf.sh, hp v])
  | _ :: _ :: _ => simp only [fnPred]; exact Eqv.stop _

theorem fnTable_blind {f : Bytes} {p : Val → Bool} (h : fnKind f = some (.pred p)) : ShBlind s p := by
  have hm := lookupKind_mem h
  simp [fnTable] at hm
  rcases hm with ⟨_, hm⟩ | ⟨_, hm⟩ | ⟨_, hm⟩ | ⟨_, hm⟩ | ⟨_, hm⟩ | ⟨_, hm⟩ | ⟨_, hm⟩ <;> subst hm <;> intro v <;> simp

theorem evalFn_eqv (dev : Dev) (hd : dev.copies) (root at_ : Val) (f : Bytes) (args : List Arg)
    (hlo : ∀ a ∈ args, ArgLo s.k a)
    (hev : ∀ a, ArgLo s.k a → ∀ at', Eqv s (ev1 a at') (ev2 a (s.val at'))) :
    Eqv s (evalFn ⟨dev, none⟩ ev1 root at_ f args) (evalFn ⟨dev, none⟩ ev2 (s.val root) (s.val at_) f args) := by
  have he' : ∀ a ∈ args, ∀ at', Eqv s (ev1 a at') (ev2 a (s.val at')) := fun a ha => hev a (hlo a ha)
  have he : ∀ a ∈ args, Eqv s (ev1 a at_) (ev2 a (s.val at_)) := fun a ha => he' a ha at_
  have hk : ∀ a ∈ args, ∀ c ∈ condKids a, Eqv s (ev1 c at_) (ev2 c (s.val at_)) := by
    intro a ha c hc
    have hn := hlo a ha
    cases a <;> simp [condKids] at hc
    cases hn with
    | raw _ _ _ hes => exact hev c (hes c hc) at_
  unfold evalFn
  cases hkf : fnKind f with
  | none => exact Eqv.stop _
  | some kd =>
    simp only []
    cases kd <;> simp only [evalKind]
    case sum => exact fnSum_eqv _ _ _ he
    case arith op => exact fnArith_eqv _ _ _ _ _ he
    case mod => exact fnMod_eqv _ _ _ he
    case cmp op => exact fnCmp_eqv _ _ _ hd.1 _ _ he
    case equal => exact Eqv.bind (fnEqual_eqv _ _ _ _ he) (fun _ => Eqv.ret' rfl)
    case neq => exact Eqv.bind (fnEqual_eqv _ _ _ _ he) (fun _ => Eqv.ret' rfl)
    case and => exact fnAnd_eqv _ _ _ he
    case or => exact fnOr_eqv _ _ _ he
    case not => exact fnNot_eqv _ _ _ he
    case cond => exact fnCond_eqv _ _ _ hd.2.2 _ hk
    case get => exact fnGet_eqv _ _ _ _ _ _ he
    case getall => exact fnGetall_eqv _ _ _ _ _ _ he
    case set => exact fnSet_eqv _ _ _ _ _ he
    case del => exact fnDel_eqv _ _ _
    case each => exact fnEach_eqv _ _ _ _ he'
    case pathOf isAt => exact fnPathOf_eqv _ _ _ _ he
    case asm => exact fnAsm_eqv _ _ _ _ he'
    case quote => exact fnQuote_evalLit_eqv _ _ hlo
    case list => exact fnList_eqv _ _ _ he
    case nth => exact fnNth_eqv _ _ _ he
    case size => exact fnSize_eqv _ _ _ he
    case pred p => exact fnPred_eqv _ _ p (fnTable_blind hkf) _ he
    case scalar g => exact fnScalar_eqv _ _ _ _ he
    case reverse => exact fnReverse_eqv _ _ _ he
    case append => exact fnAppend_eqv _ _ _ he
    case incl => exact fnInclude_eqv _ _ _ he
    case sort => exact fnSort_eqv _ _ _ _ he

theorem eval_eqv (dev : Dev) (hd : dev.copies) (root : Val) :
    ∀ (n : Nat) (a : Arg), ArgLo s.k a → ∀ at_,
      Eqv s (eval ⟨dev, none⟩ root n a at_) (eval ⟨dev, none⟩ (s.val root) n a (s.val at_))
  | n, .lit v, hlo, at_ => by
    simp only [eval]
    cases hlo with
    | lit _ hv => have := evalLit_eqv (s := s) dev v; rwa [Sh.val_lo hv] at this
  | n, .raw v es, hlo, at_ => by
    simp only [eval]
    cases hlo with
    | raw _ _ hv _ => have := evalLit_eqv (s := s) dev v; rwa [Sh.val_lo hv] at this
  | n, .path p, _, at_ => by
    simp only [eval, ite_val]
    exact first_tail_eqv dev _ _
  | n, .unk, _, at_ => by simp only [eval]; exact Eqv.stop _
  | 0, .call f args, _, at_ => by simp only [eval]; exact Eqv.stop _
  | n + 1, .call f args, hlo, at_ => by
    simp only [eval]
    cases hlo with
    | call _ _ hargs =>
      exact evalFn_eqv _ _ dev hd root at_ f args hargs (fun a ha at' => eval_eqv dev hd root n a ha at')

end OjgVerif.Asm
