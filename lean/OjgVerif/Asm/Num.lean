import OjgVerif.Common.Bytes
/-! # Numbers of assembly plans (shared by Spec and Model; repo-independent)

`int64` arithmetic wraps (`wrap64`), integer division and remainder truncate toward zero (Go).
A `float64` is modelled EXACTLY as sign · `m · 2^e` (`Flt.fin neg m e`, `m : Nat`, any `e`), `±Inf` or
`NaN`; Lean's native `Float` is not used anywhere. Every finite binary64 is such a triple (the sign of
zero is kept: `[* -1.5 0]` is `-0`, which `+` prints as `-0`). `round` is IEEE-754
round-to-nearest-even to 53 bits with gradual underflow and overflow to infinity, so
`add/sub/mul/div/ofInt` ARE the binary64 operations (exact integer arithmetic, then one rounding).
`fmtG` is `fmt.Sprintf("%g", f)` for the floats whose exact decimal expansion has at most 15
significant digits (for those the expansion is the shortest text that reads back as the same float);
for other floats it answers `none` and the model says "unmodelled". -/
namespace OjgVerif.Asm
open OjgVerif

/-- two's-complement wrap-around of a mathematical integer to int64 -/
def wrap64 (i : Int) : Int :=
  (i + 9223372036854775808) % 18446744073709551616 - 9223372036854775808

def minInt64 : Int := -9223372036854775808
def maxInt64 : Int := 9223372036854775807

inductive Flt where
  | fin (neg : Bool) (m : Nat) (e : Int)
  | inf (neg : Bool)
  | nan
  deriving DecidableEq, Inhabited

namespace Flt

def bitLen (n : Nat) : Nat := if n = 0 then 0 else n.log2 + 1

/-- signed mantissa -/
def smant (neg : Bool) (m : Nat) : Int := if neg then -(m : Int) else (m : Int)

/-- signed mantissa of `±m · 2^e` at the common exponent `min e e'` -/
def align (neg : Bool) (m : Nat) (e e' : Int) : Int := smant neg m * 2 ^ (e - min e e').toNat

/-- IEEE `<` (false when either side is NaN; `-0 < +0` is false) -/
def lt : Flt → Flt → Bool
  | fin s1 m1 e1, fin s2 m2 e2 => decide (align s1 m1 e1 e2 < align s2 m2 e2 e1)
  | fin _ _ _, inf n => !n
  | inf n, fin _ _ _ => n
  | inf a, inf b => a && !b
  | nan, _ => false
  | fin _ _ _, nan => false
  | inf _, nan => false

/-- IEEE `==` (false when either side is NaN; `-0 == +0`) -/
def eq : Flt → Flt → Bool
  | fin s1 m1 e1, fin s2 m2 e2 => decide (align s1 m1 e1 e2 = align s2 m2 e2 e1)
  | inf a, inf b => a == b
  | fin _ _ _, inf _ => false
  | inf _, fin _ _ _ => false
  | nan, _ => false
  | fin _ _ _, nan => false
  | inf _, nan => false

/-- IEEE `<=` -/
def le (a b : Flt) : Bool := lt a b || eq a b

/-- nearest multiple of `2^e'`, `e' = max (e + bitLen n − 53) (−1074)`, of `n · 2^e`; ties to even -/
def roundMag (n : Nat) (e : Int) : Nat × Int :=
  let e' := max (e + (bitLen n : Int) - 53) (-1074)
  if e' ≤ e then (n, e)
  else
    let s := (e' - e).toNat
    let q := n / 2 ^ s
    let r := n % 2 ^ s
    let half := 2 ^ (s - 1)
    (if half < r || (r == half && q % 2 == 1) then q + 1 else q, e')

/-- the binary64 nearest to `± n · 2^e` -/
def round (neg : Bool) (n : Nat) (e : Int) : Flt :=
  if n = 0 then fin neg 0 0
  else
    let p := roundMag n e
    if p.1 = 0 then fin neg 0 0
    else if 1024 < (bitLen p.1 : Int) + p.2 then inf neg
    else fin neg p.1 p.2

/-- `float64(i)` for an int64 `i` -/
def ofInt (i : Int) : Flt := round (decide (i < 0)) i.natAbs 0

def neg : Flt → Flt
  | fin s m e => fin (!s) m e
  | inf n => inf (!n)
  | nan => nan

/-- binary64 `+`: an exact zero sum is `+0` unless both operands are `-0` -/
def add : Flt → Flt → Flt
  | fin s1 m1 e1, fin s2 m2 e2 =>
    let s := align s1 m1 e1 e2 + align s2 m2 e2 e1
    if s = 0 then fin (m1 == 0 && m2 == 0 && s1 && s2) 0 0
    else round (decide (s < 0)) s.natAbs (min e1 e2)
  | fin _ _ _, inf b => inf b
  | inf a, fin _ _ _ => inf a
  | inf a, inf b => if a = b then inf a else nan
  | nan, _ => nan
  | fin _ _ _, nan => nan
  | inf _, nan => nan

def sub (a b : Flt) : Flt := add a (neg b)

def mul : Flt → Flt → Flt
  | fin s1 m1 e1, fin s2 m2 e2 => round (s1 != s2) (m1 * m2) (e1 + e2)
  | fin s m _, inf b => if m = 0 then nan else inf (s != b)
  | inf a, fin s m _ => if m = 0 then nan else inf (a != s)
  | inf a, inf b => inf (a != b)
  | nan, _ => nan
  | fin _ _ _, nan => nan
  | inf _, nan => nan

/-- binary64 `/`: quotient with at least 56 significant bits and a sticky bit, then rounded once;
`x/0` is `±Inf`, `0/0` is `NaN` (no error) -/
def div : Flt → Flt → Flt
  | fin s1 m1 e1, fin s2 m2 e2 =>
    if m2 = 0 then (if m1 = 0 then nan else inf (s1 != s2))
    else if m1 = 0 then fin (s1 != s2) 0 0
    else
      let s := (bitLen m2 + 56 - bitLen m1 : Nat)
      let q := m1 * 2 ^ s / m2
      let r := m1 * 2 ^ s % m2
      let n : Nat := 2 * q + (if r = 0 then 0 else 1)
      round (s1 != s2) n (e1 - e2 - (s : Int) - 1)
  | fin s _ _, inf b => fin (s != b) 0 0
  | inf a, fin s _ _ => inf (a != s)
  | inf _, inf _ => nan
  | nan, _ => nan
  | fin _ _ _, nan => nan
  | inf _, nan => nan

def isZero : Flt → Bool
  | fin _ m _ => m == 0
  | _ => false

end Flt

/-! ## text of numbers (`%d`, `%g`) -/

def digitsOf (n : Nat) : Bytes := (Nat.toDigits 10 n).map (fun c => UInt8.ofNat c.toNat)

/-- `fmt.Sprintf("%d", i)` -/
def fmtD (i : Int) : Bytes := if i < 0 then 45 :: digitsOf i.natAbs else digitsOf i.natAbs

/-- drop trailing `0` digits (the list is reversed: least significant first); returns the count -/
def stripZeros : List UInt8 → Nat → List UInt8 × Nat
  | [], k => ([], k)
  | d :: r, k => if d = 48 then stripZeros r (k + 1) else (d :: r, k)

def zeros (n : Nat) : Bytes := List.replicate n 48

/-- exponent part of `%e`: sign and at least two digits -/
def fmtExp (x : Int) : Bytes :=
  let d := digitsOf x.natAbs
  101 :: (if x < 0 then 45 else 43) :: (if d.length < 2 then 48 :: d else d)

/-- `%g` (shortest) of a positive number with significant digits `ds` (no trailing zeros, non-empty)
and decimal exponent `x` (value = d.ddd · 10^x): the `%e` style when `x < -4` or `x ≥ 6`
(strconv/ftoa.go `formatDigits`: "if precision was the shortest possible, use precision 6 for this
decision"), else plain digits -/
def fmtGDigits (ds : Bytes) (x : Int) : Bytes :=
  let nd := ds.length
  if x < -4 || x ≥ 6 then
    -- d[.ddd]e±xx
    (match ds with
     | [] => []
     | d :: r => if r.isEmpty then [d] else d :: 46 :: r) ++ fmtExp x
  else if x < 0 then
    48 :: 46 :: (zeros (-x - 1).toNat ++ ds)
  else
    let ip := (x + 1).toNat
    if nd ≤ ip then ds ++ zeros (ip - nd)
    else ds.take ip ++ 46 :: ds.drop ip

/-- `fmt.Sprintf("%g", f)`; `none` when the exact expansion has more than 15 significant digits -/
def fmtG : Flt → Option Bytes
  | .nan => some [78, 97, 78]
  | .inf false => some [43, 73, 110, 102]
  | .inf true => some [45, 73, 110, 102]
  | .fin neg m e =>
    let sign : Bytes := if neg then [45] else []
    if m = 0 then some (sign ++ [48])
    else
      -- value = N / 10^scale
      let N : Nat := if e ≥ 0 then m * 2 ^ e.toNat else m * 5 ^ (-e).toNat
      let scale : Nat := if e ≥ 0 then 0 else (-e).toNat
      let all := digitsOf N
      let p := stripZeros all.reverse 0
      let ds := p.1.reverse
      -- value = ds · 10^(p.2 - scale); scientific exponent:
      let x : Int := (ds.length : Int) - 1 + (p.2 : Int) - (scale : Int)
      if ds.length > 15 then none else some (sign ++ fmtGDigits ds x)

end OjgVerif.Asm
