import OjgVerif.JPMut.LemmasDescent
/-! # Remove through ONE recursive descent = `remAll` at the locations of the full path

`removeM_descent_eq` (LemmasDescent.lean) gives: Remove on `pre ++ [..] ++ rest ++ [f]` returns the input with `f`'s remover
applied, inner first, at the parents the path without `f` selects. Here that tree is identified with the specification's
`remAll (locsG σ (pre ++ [..] ++ rest ++ [f]) d) d` (`upd_rem_desc`), for a last fragment that is not a filter: removals
below a node lie too deep to change what `rest ++ [f]` selects from the node (`remAll_shape`), and deeper removals followed
by shallower ones compose (`remAll_seq`). -/
set_option linter.unusedSimpArgs false
set_option linter.unusedSectionVars false
set_option linter.unusedVariables false

namespace OjgVerif.JPMut
open OjgVerif OjgVerif.JPath

variable {σ : SliceFn} [NodupSlice σ]

/-! ## `remAll` looks at its location set through `contains [l]` and `strip l` only -/

theorem remArr_of_strip (T T' : List Path) (hc : ∀ l, T.contains [l] = T'.contains [l]) (hs : ∀ l, strip l T = strip l T') :
    ∀ (xs : List JV) (i : Nat), remArr T i xs = remArr T' i xs
  | [], _ => rfl
  | x :: r, i => by simp only [remArr, hc, hs, remArr_of_strip T T' hc hs r (i + 1)]

theorem remObj_of_strip (T T' : List Path) (hc : ∀ l, T.contains [l] = T'.contains [l]) (hs : ∀ l, strip l T = strip l T') :
    ∀ (kvs : List (Bytes × JV)), remObj T kvs = remObj T' kvs
  | [] => rfl
  | kv :: r => by simp only [remObj, hc, hs, remObj_of_strip T T' hc hs r]

theorem remAll_of_strip (T T' : List Path) (hc : ∀ l, T.contains [l] = T'.contains [l]) (hs : ∀ l, strip l T = strip l T') (d : JV) :
    remAll T d = remAll T' d := by
  cases d <;> simp [remAll, remArr_of_strip T T' hc hs, remObj_of_strip T T' hc hs]

theorem strip_all_nil (l : Loc) (B : List Path) (h : ∀ b ∈ B, b = []) : strip l B = [] := by
  cases hs : strip l B with
  | nil => rfl
  | cons q r =>
    have hq : q ∈ strip l B := by rw [hs]; simp
    have := h _ ((mem_strip l B q).1 hq)
    cases this

theorem contains_append_right (A B : List Path) (p : Path) (h : p ∉ A) : (A ++ B).contains p = B.contains p := by
  cases hb : B.contains p with
  | true =>
    apply (contains_iff _ _).2
    exact List.mem_append_right _ ((contains_iff _ _).1 hb)
  | false =>
    cases ha : (A ++ B).contains p with
    | false => rfl
    | true =>
      rcases List.mem_append.1 ((contains_iff _ _).1 ha) with h' | h'
      · exact absurd h' h
      · rw [(contains_iff _ _).2 h'] at hb; cases hb

theorem contains_append_left (A B : List Path) (p : Path) (h : p ∉ B) : (A ++ B).contains p = A.contains p := by
  cases ha : A.contains p with
  | true =>
    apply (contains_iff _ _).2
    exact List.mem_append_left _ ((contains_iff _ _).1 ha)
  | false =>
    cases hab : (A ++ B).contains p with
    | false => rfl
    | true =>
      rcases List.mem_append.1 ((contains_iff _ _).1 hab) with h' | h'
      · rw [(contains_iff _ _).2 h'] at ha; cases ha
      · exact absurd h' h

/-! ## deeper removals first, then the shallower ones -/

theorem remArr_seq (A B : List Path) (hA : ∀ l, [l] ∉ A)
    (hk : ∀ l c, remAll (strip l (A ++ B)) c = remAll (strip l B) (remAll (strip l A) c)) : ∀ (xs : List JV) (i : Nat),
    remArr (A ++ B) i xs = remArr B i (mapArr (fun l c => remAll (strip l A) c) i xs)
  | [], _ => rfl
  | x :: r, i => by
    simp only [remArr, mapArr, contains_append_right A B _ (hA _), hk, remArr_seq A B hA hk r (i + 1)]

theorem remObj_seq (A B : List Path) (hA : ∀ l, [l] ∉ A)
    (hk : ∀ l c, remAll (strip l (A ++ B)) c = remAll (strip l B) (remAll (strip l A) c)) : ∀ (kvs : List (Bytes × JV)),
    remObj (A ++ B) kvs = remObj B (kvs.map fun kv => (kv.1, remAll (strip (.key kv.1) A) kv.2))
  | [] => rfl
  | kv :: r => by
    simp only [remObj, List.map_cons, contains_append_right A B _ (hA _), hk, remObj_seq A B hA hk r]

/-- when every location of `A` is longer than every location of `B`, the removal at `A ++ B` is the removal at `A` followed
by the removal at `B` (positions are those of the input: the removals of `A` lie below the containers `B` removes from) -/
theorem remAll_seq : ∀ (N : Nat) (A B : List Path) (d : JV), (∀ b ∈ B, b.length < N) →
    (∀ a ∈ A, ∀ b ∈ B, b.length < a.length) → remAll (A ++ B) d = remAll B (remAll A d)
  | 0, A, B, d, hN, _ => by
    have : B = [] := by
      cases B with
      | nil => rfl
      | cons b r => exact absurd (hN b (by simp)) (by omega)
    subst this
    simp [remAll_nil]
  | N + 1, A, B, d, hN, hlt => by
    by_cases hall : ∀ b ∈ B, b = []
    · -- `B` names nothing `remAll` looks at
      have e1 : remAll (A ++ B) d = remAll A d := by
        apply remAll_of_strip
        · intro l
          exact contains_append_left A B [l] (fun h => by have := hall _ h; cases this)
        · intro l; rw [strip_append, strip_all_nil l B hall, List.append_nil]
      have e2 : ∀ x, remAll B x = x := by
        intro x
        rw [remAll_of_strip B [] (fun l => by
          cases hc : B.contains [l] with
          | false => rfl
          | true => have := hall _ ((contains_iff _ _).1 hc); cases this) (fun l => strip_all_nil l B hall) x, remAll_nil]
      rw [e1, e2]
    · -- some location of `B` is at least one step long: those of `A` are at least two
      have hex : ∃ b ∈ B, 1 ≤ b.length := by
        apply Classical.byContradiction
        intro hne
        apply hall
        intro b hb
        cases b with
        | nil => rfl
        | cons l q => exact absurd ⟨l :: q, hb, by simp⟩ hne
      obtain ⟨b0, hb0, hl0⟩ := hex
      have hA : ∀ l, [l] ∉ A := by
        intro l h
        have := hlt [l] h b0 hb0
        simp only [List.length_cons, List.length_nil] at this; omega
      have hk : ∀ l c, remAll (strip l (A ++ B)) c = remAll (strip l B) (remAll (strip l A) c) := by
        intro l c
        rw [strip_append]
        apply remAll_seq N
        · intro b hb
          obtain ⟨p, hp, hl⟩ := strip_length l B b hb
          have := hN p hp
          omega
        · intro a ha b hb
          obtain ⟨p, hp, hl⟩ := strip_length l A a ha
          obtain ⟨p', hp', hl'⟩ := strip_length l B b hb
          have := hlt p hp p' hp'
          omega
      rw [remAll_inner A hA d]
      cases d with
      | arr xs => simp only [remAll, mapKids, remArr_seq A B hA hk xs 0]
      | obj kvs => simp only [remAll, mapKids, remObj_seq A B hA hk kvs]
      | _ => rfl

/-! ## removals deep enough leave the shape alone; removals keep values well-formed -/

theorem remAll_shape : ∀ (N : Nat) (T : List Path) (d : JV), (∀ p ∈ T, N + 1 ≤ p.length) → ShapeEq N d (remAll T d)
  | 0, _, _, _ => trivial
  | N + 1, T, d, h => by
    have hno : ∀ l, [l] ∉ T := by
      intro l hl
      have := h [l] hl
      simp only [List.length_cons, List.length_nil] at this; omega
    rw [remAll_inner T hno d]
    refine ⟨(topShape_mapKids _ d).symm, ?_⟩
    intro l c c' hc hc'
    rw [child?_mapKids, hc] at hc'
    simp only [Option.map_some, Option.some.injEq] at hc'
    rw [← hc']
    apply remAll_shape N
    intro q hq
    obtain ⟨p, hp, hl⟩ := strip_length l T q hq
    have := h p hp
    omega

theorem keysOf_remObj_sublist (T : List Path) : ∀ (kvs : List (Bytes × JV)), (keysOf (remObj T kvs)).Sublist (keysOf kvs)
  | [] => List.Sublist.slnil
  | kv :: r => by
    simp only [remObj]
    split
    · exact List.Sublist.cons _ (keysOf_remObj_sublist T r)
    · exact List.Sublist.cons₂ _ (keysOf_remObj_sublist T r)

mutual
  theorem WF_remAll : ∀ (d : JV) (T : List Path), WF d → WF (remAll T d)
    | .arr xs, T, hw => by simp only [remAll, WF]; exact WFL_remArr xs T 0 (by simpa [WF] using hw)
    | .obj kvs, T, hw => by
      simp only [WF] at hw
      simp only [remAll, WF]
      exact ⟨List.Nodup.sublist (keysOf_remObj_sublist T kvs) hw.1, WFK_remObj kvs T hw.2⟩
    | .null, _, hw => hw
    | .bool _, _, hw => hw
    | .int _, _, hw => hw
    | .flt _, _, hw => hw
    | .big _, _, hw => hw
    | .num _, _, hw => hw
    | .str _, _, hw => hw
  theorem WFL_remArr : ∀ (xs : List JV) (T : List Path) (i : Nat), WFL xs → WFL (remArr T i xs)
    | [], _, _, _ => trivial
    | x :: r, T, i, hw => by
      simp only [WFL] at hw
      simp only [remArr]
      split
      · exact WFL_remArr r T (i + 1) hw.2
      · exact ⟨WF_remAll x _ hw.1, WFL_remArr r T (i + 1) hw.2⟩
  theorem WFK_remObj : ∀ (kvs : List (Bytes × JV)) (T : List Path), WFK kvs → WFK (remObj T kvs)
    | [], _, _ => trivial
    | kv :: r, T, hw => by
      simp only [WFK] at hw
      simp only [remObj]
      split
      · exact WFK_remObj r T hw.2
      · exact ⟨WF_remAll kv.2 _ hw.1, WFK_remObj r T hw.2⟩
end

theorem remPath_of_all (dev : Dev) (f : Frag) (h : ∀ c, RemGood σ dev f c) : ∀ (sx : List Frag) (d : JV), RemPath σ dev f sx d
  | [], d => h d
  | _ :: r, _ => fun m _ => remPath_of_all dev f h r m.2

/-! ## one node of the descent, on the specification's side -/

/-- the edit at everything `..rest` selects in a node = the edit at what `rest` selects from the node, made on the node whose
members have been edited at everything `..rest` selects in them -/
theorem updAll_locsD_node (g : JV → JV) (rest : List Frag) (hne : rest ≠ []) (hnd : NoDescent rest) (d : JV) (hw : WF d) :
    updAll g (locsD σ rest d) d = updAll g (locsG σ rest d) (mapKids (fun _ c => updAll g (locsD σ rest c) c) d) := by
  have hn : 1 ≤ rest.length := by cases rest with | nil => exact absurd rfl hne | cons g r => simp
  have hnilB : hasNil (locsG σ rest d) = false := by
    cases h : hasNil (locsG σ rest d) with
    | false => rfl
    | true => exact absurd ((hasNil_iff _).1 h) (locs_no_nil (σ := σ) rest hne hnd d (WF_top d hw))
  have hnilD : hasNil (locsD σ rest d) = false := by
    cases h : hasNil (locsD σ rest d) with
    | false => rfl
    | true =>
      have := locsD_len (σ := σ) rest hnd d hw [] ((hasNil_iff _).1 h)
      simp only [List.length_nil] at this; omega
  rw [updAll_eq g (locsG σ rest d), hnilB, updAll_eq g (locsD σ rest d), hnilD]
  simp only [Bool.false_eq_true, if_false, mapKids_comp]
  apply mapKids_congr d (WF_top d hw)
  intro l c hc
  rw [updAll_congr g c _ _ (strip_locsD (σ := σ) rest d c l (WF_top d hw) hc)]
  apply updAll_seq g rest.length
  · intro b hb
    obtain ⟨p, hp, hl⟩ := strip_length l _ b hb
    have := locs_len (σ := σ) rest hnd d hw p hp
    omega
  · intro a ha b hb
    obtain ⟨p, hp, hl⟩ := strip_length l _ b hb
    have h1 := locs_len (σ := σ) rest hnd d hw p hp
    have h2 := locsD_len (σ := σ) rest hnd c (WF_child l d c hw hc) a ha
    omega

/-- the same for removals -/
theorem remAll_locsD_node (rest : List Frag) (hn : 2 ≤ rest.length) (hnd : NoDescent rest) (d : JV) (hw : WF d) :
    remAll (locsD σ rest d) d = remAll (locsG σ rest d) (mapKids (fun _ c => remAll (locsD σ rest c) c) d) := by
  have hno1 : ∀ l, [l] ∉ locsD σ rest d := by
    intro l hl
    have := locsD_len (σ := σ) rest hnd d hw [l] hl
    simp only [List.length_cons, List.length_nil] at this; omega
  have hno2 : ∀ l, [l] ∉ locsG σ rest d := by
    intro l hl
    have := locs_len (σ := σ) rest hnd d hw [l] hl
    simp only [List.length_cons, List.length_nil] at this; omega
  rw [remAll_inner _ hno1 d, remAll_inner _ hno2, mapKids_comp]
  apply mapKids_congr d (WF_top d hw)
  intro l c hc
  rw [remAll_congr c _ _ (strip_locsD (σ := σ) rest d c l (WF_top d hw) hc)]
  apply remAll_seq rest.length
  · intro b hb
    obtain ⟨p, hp, hl⟩ := strip_length l _ b hb
    have := locs_len (σ := σ) rest hnd d hw p hp
    omega
  · intro a ha b hb
    obtain ⟨p, hp, hl⟩ := strip_length l _ b hb
    have h1 := locs_len (σ := σ) rest hnd d hw p hp
    have h2 := locsD_len (σ := σ) rest hnd c (WF_child l d c hw hc) a ha
    omega

/-! ## the remover at the selected parents = `remAll` at the selected members, through a descent -/

theorem noDescent_snoc (rest : List Frag) (f : Frag) (hnd : NoDescent rest) (hf : isDescentF f = false) : NoDescent (rest ++ [f]) := by
  intro g hg
  rcases List.mem_append.1 hg with h | h
  · exact hnd g h
  · simp only [List.mem_singleton] at h; rw [h]; exact hf

theorem noFilter_snoc (rest : List Frag) (f : Frag) (hnf : NoFilter rest) (hf : isFilterF f = false) : NoFilter (rest ++ [f]) := by
  intro g hg
  rcases List.mem_append.1 hg with h | h
  · exact hnf g h
  · simp only [List.mem_singleton] at h; rw [h]; exact hf

theorem upd_rem_scalar (dev : Dev) (f : Frag) (hf : isDescentF f = false) (rest : List Frag) (hne : rest ≠ []) (hnd : NoDescent rest)
    (m : Modifier) (d : JV) (hd : isContainer d = false) :
    updAll m.eff (locsD σ rest d) d = remAll (locsD σ (rest ++ [f]) d) d := by
  obtain ⟨g, r, hr⟩ : ∃ g r, rest = g :: r := by cases rest with | nil => exact absurd rfl hne | cons g r => exact ⟨g, r, rfl⟩
  have hg : isDescentF g = false := hnd g (by rw [hr]; simp)
  rw [locsD_scalar (σ := σ) rest g r hr hg d hd, updAll_nil,
    locsD_scalar (σ := σ) (rest ++ [f]) g (r ++ [f]) (by rw [hr]; rfl) hg d hd, remAll_nil]

/-- one node, given the statement for its members -/
theorem upd_rem_node (dev : Dev) (f : Frag) (m : Modifier) (hm : removeAllOf dev f = some m) (hf : isDescentF f = false)
    (hff : isFilterF f = false) (hrg : ∀ c, RemGood σ dev f c) (rest : List Frag) (hne : rest ≠ []) (hnd : NoDescent rest)
    (hnf : NoFilter rest) (d : JV) (hw : WF d) (hg : GoodPath σ dev rest d) (hg' : GoodPath σ dev (rest ++ [f]) d)
    (ih : ∀ l c, child? l d = some c → updAll m.eff (locsD σ rest c) c = remAll (locsD σ (rest ++ [f]) c) c) :
    updAll m.eff (locsD σ rest d) d = remAll (locsD σ (rest ++ [f]) d) d := by
  have hnd' := noDescent_snoc rest f hnd hf
  have hnf' := noFilter_snoc rest f hnf hff
  have hn1 : 1 ≤ rest.length := by cases rest with | nil => exact absurd rfl hne | cons g r => simp
  have hlen' : (rest ++ [f]).length = rest.length + 1 := by simp
  rw [updAll_locsD_node (σ := σ) m.eff rest hne hnd d hw,
    remAll_locsD_node (σ := σ) (rest ++ [f]) (by omega) hnd' d hw]
  have hkids : mapKids (fun _ c => updAll m.eff (locsD σ rest c) c) d = mapKids (fun _ c => remAll (locsD σ (rest ++ [f]) c) c) d :=
    mapKids_congr d (WF_top d hw) (fun l c hc => ih l c hc)
  rw [hkids]
  -- the node after the removals below it
  have hw2 : WF (mapKids (fun _ c => remAll (locsD σ (rest ++ [f]) c) c) d) :=
    WF_mapKids _ d hw (fun l c hc => WF_remAll c _ (WF_child l d c hw hc))
  have hshape : ShapeEq (rest.length + 1) d (mapKids (fun _ c => remAll (locsD σ (rest ++ [f]) c) c) d) := by
    refine ⟨(topShape_mapKids _ d).symm, ?_⟩
    intro l c c' hc hc'
    rw [child?_mapKids, hc] at hc'
    simp only [Option.map_some, Option.some.injEq] at hc'
    rw [← hc']
    apply remAll_shape rest.length
    intro p hp
    have := locsD_len (σ := σ) (rest ++ [f]) hnd' c (WF_child l d c hw hc) p hp
    omega
  obtain ⟨hsame, hg2⟩ := locs_shape (σ := σ) dev rest hnd hnf d _ hw hw2 hg (ShapeEq.mono _ _ _ hshape)
  obtain ⟨hsame', _⟩ := locs_shape (σ := σ) dev (rest ++ [f]) hnd' hnf' d _ hw hw2 hg' (by rw [hlen']; exact hshape)
  rw [updAll_congr m.eff _ _ _ hsame, remAll_congr _ _ _ hsame']
  exact upd_rem (σ := σ) dev f m hm hf rest hnd _ hw2 (remPath_of_all dev f hrg rest _)

mutual
  theorem upd_rem_desc (dev : Dev) (f : Frag) (m : Modifier) (hm : removeAllOf dev f = some m) (hf : isDescentF f = false)
      (hff : isFilterF f = false) (hrg : ∀ c, RemGood σ dev f c) (rest : List Frag) (hne : rest ≠ []) (hnd : NoDescent rest)
      (hnf : NoFilter rest) : ∀ (d : JV), WF d → GoodD σ dev rest d → GoodD σ dev (rest ++ [f]) d →
      updAll m.eff (locsD σ rest d) d = remAll (locsD σ (rest ++ [f]) d) d
    | .arr xs, hw, hg, hg' => by
      simp only [GoodD] at hg hg'
      apply upd_rem_node dev f m hm hf hff hrg rest hne hnd hnf (.arr xs) hw hg.1 hg'.1
      intro l c hc
      obtain ⟨j, _, hj⟩ := child?_arr_inv l xs c hc
      exact upd_rem_descL dev f m hm hf hff hrg rest hne hnd hnf xs (by simpa [WF] using hw) hg.2 hg'.2 c (List.mem_of_getElem? hj)
    | .obj kvs, hw, hg, hg' => by
      simp only [GoodD] at hg hg'
      apply upd_rem_node dev f m hm hf hff hrg rest hne hnd hnf (.obj kvs) hw hg.1 hg'.1
      intro l c hc
      obtain ⟨k, _, hk⟩ := child?_obj_inv l kvs c hc
      exact upd_rem_descK dev f m hm hf hff hrg rest hne hnd hnf kvs (by simp only [WF] at hw; exact hw.2) hg.2 hg'.2 (k, c)
        (lookup_mem kvs k c hk)
    | .null, _, _, _ => upd_rem_scalar dev f hf rest hne hnd m .null rfl
    | .bool _, _, _, _ => upd_rem_scalar dev f hf rest hne hnd m _ rfl
    | .int _, _, _, _ => upd_rem_scalar dev f hf rest hne hnd m _ rfl
    | .flt _, _, _, _ => upd_rem_scalar dev f hf rest hne hnd m _ rfl
    | .big _, _, _, _ => upd_rem_scalar dev f hf rest hne hnd m _ rfl
    | .num _, _, _, _ => upd_rem_scalar dev f hf rest hne hnd m _ rfl
    | .str _, _, _, _ => upd_rem_scalar dev f hf rest hne hnd m _ rfl
  theorem upd_rem_descL (dev : Dev) (f : Frag) (m : Modifier) (hm : removeAllOf dev f = some m) (hf : isDescentF f = false)
      (hff : isFilterF f = false) (hrg : ∀ c, RemGood σ dev f c) (rest : List Frag) (hne : rest ≠ []) (hnd : NoDescent rest)
      (hnf : NoFilter rest) : ∀ (xs : List JV), WFL xs → GoodDL σ dev rest xs → GoodDL σ dev (rest ++ [f]) xs →
      ∀ x ∈ xs, updAll m.eff (locsD σ rest x) x = remAll (locsD σ (rest ++ [f]) x) x
    | [], _, _, _, _, h => by cases h
    | y :: r, hw, hg, hg', x, h => by
      simp only [WFL] at hw
      simp only [GoodDL] at hg hg'
      rcases List.mem_cons.1 h with e | h'
      · rw [e]; exact upd_rem_desc dev f m hm hf hff hrg rest hne hnd hnf y hw.1 hg.1 hg'.1
      · exact upd_rem_descL dev f m hm hf hff hrg rest hne hnd hnf r hw.2 hg.2 hg'.2 x h'
  theorem upd_rem_descK (dev : Dev) (f : Frag) (m : Modifier) (hm : removeAllOf dev f = some m) (hf : isDescentF f = false)
      (hff : isFilterF f = false) (hrg : ∀ c, RemGood σ dev f c) (rest : List Frag) (hne : rest ≠ []) (hnd : NoDescent rest)
      (hnf : NoFilter rest) : ∀ (kvs : List (Bytes × JV)), WFK kvs → GoodDK σ dev rest kvs → GoodDK σ dev (rest ++ [f]) kvs →
      ∀ kv ∈ kvs, updAll m.eff (locsD σ rest kv.2) kv.2 = remAll (locsD σ (rest ++ [f]) kv.2) kv.2
    | [], _, _, _, _, h => by cases h
    | y :: r, hw, hg, hg', kv, h => by
      simp only [WFK] at hw
      simp only [GoodDK] at hg hg'
      rcases List.mem_cons.1 h with e | h'
      · rw [e]; exact upd_rem_desc dev f m hm hf hff hrg rest hne hnd hnf y.2 hw.1 hg.1 hg'.1
      · exact upd_rem_descK dev f m hm hf hff hrg rest hne hnd hnf r hw.2 hg.2 hg'.2 kv h'
end

/-! ## the path before the descent -/

theorem locs_tail_no_nil (rest : List Frag) (hne : rest ≠ []) (hnd : NoDescent rest) : ∀ (pre : List Frag), NoDescent pre →
    ∀ (c : JV), WF c → [] ∉ locsG σ (pre ++ .descent :: rest) c
  | [], _, c, hw => by
    intro h
    have := locsD_len (σ := σ) rest hnd c hw [] h
    have hn : 1 ≤ rest.length := by cases rest with | nil => exact absurd rfl hne | cons g r => simp
    simp only [List.length_nil] at this; omega
  | g :: p, hp, c, hw => by
    intro h
    have := hasNil_locs_cons (σ := σ) g (p ++ .descent :: rest) c (Shape_of (σ := σ) g c (hp g (by simp)) (WF_top c hw))
    rw [List.cons_append] at h
    rw [(hasNil_iff _).2 h] at this
    cases this

theorem upd_rem_pre (dev : Dev) (f : Frag) (m : Modifier) (hm : removeAllOf dev f = some m) (hf : isDescentF f = false)
    (hff : isFilterF f = false) (hrg : ∀ c, RemGood σ dev f c) (rest : List Frag) (hne : rest ≠ []) (hnd : NoDescent rest)
    (hnf : NoFilter rest) : ∀ (pre : List Frag), NoDescent pre → ∀ (d : JV), WF d → GoodPre σ dev rest pre d →
    GoodPre σ dev (rest ++ [f]) pre d →
    updAll m.eff (locsG σ (pre ++ .descent :: rest) d) d = remAll (locsG σ (pre ++ .descent :: rest ++ [f]) d) d
  | [], _, d, hw, hg, hg' => upd_rem_desc dev f m hm hf hff hrg rest hne hnd hnf d hw hg hg'
  | h :: p, hp, d, hw, hg, hg' => by
    have hh : isDescentF h = false := hp h (by simp)
    have hs := Shape_of (σ := σ) h d hh (WF_top d hw)
    have hpp : NoDescent p := fun g hg => hp g (List.mem_cons_of_mem _ hg)
    have hne' : rest ++ [f] ≠ [] := by simp
    have hnd' := noDescent_snoc rest f hnd hf
    have e : (h :: p) ++ .descent :: rest ++ [f] = h :: (p ++ .descent :: (rest ++ [f])) := by simp
    have e2 : ∀ q : List Frag, q ++ .descent :: rest ++ [f] = q ++ .descent :: (rest ++ [f]) := by intro q; simp
    rw [e, List.cons_append, updAll_eq, hasNil_locs_cons (σ := σ) h _ d hs]
    simp only [Bool.false_eq_true, if_false]
    have hno : ∀ l, [l] ∉ locsG σ (h :: (p ++ .descent :: (rest ++ [f]))) d := by
      intro l hl
      obtain ⟨m', hm', q, hq, e'⟩ := (mem_locs_cons (σ := σ) h _ d [l]).1 hl
      obtain ⟨l', hl', hc'⟩ := hs m' hm'
      rw [hl'] at e'
      simp only [List.singleton_append, List.cons.injEq] at e'
      obtain ⟨_, rfl⟩ := e'
      exact locs_tail_no_nil (σ := σ) (rest ++ [f]) hne' hnd' p hpp m'.2 (WF_child l' d m'.2 hw hc') hq
    rw [remAll_inner _ hno d]
    apply mapKids_congr d (WF_top d hw)
    intro l c hc
    by_cases hsel : ([l], c) ∈ selG σ h d
    · rw [updAll_congr m.eff c _ _ (strip_locs_sel (σ := σ) h _ d hs l c hc hsel),
        remAll_congr c _ _ (strip_locs_sel (σ := σ) h _ d hs l c hc hsel)]
      have := upd_rem_pre dev f m hm hf hff hrg rest hne hnd hnf p hpp c (WF_child l d c hw hc) (hg.2 ([l], c) hsel) (hg'.2 ([l], c) hsel)
      rw [e2] at this
      exact this
    · rw [updAll_congr m.eff c _ _ (strip_locs_not (σ := σ) h _ d hs l c hc hsel), updAll_nil,
        remAll_congr c _ _ (strip_locs_not (σ := σ) h _ d hs l c hc hsel), remAll_nil]

/-- REMOVE THROUGH A DESCENT = THE SPECIFICATION (all matches, simple data): for `pre ++ [..] ++ rest ++ [f]` with ONE descent,
`rest` non-empty, no filter and no further descent in `rest ++ [f]`: the returned tree is the input with exactly the
members the path selects (`JPath.eval` with its descent clause) removed — `remAll (locsG σ x d) d` -/
theorem removeM_descent_spec (dev : Dev) (hsib : dev.descentSiblings = false) (pre rest : List Frag) (f : Frag) (m : Modifier)
    (hm : removeAllOf dev f = some m) (hf : isDescentF f = false) (hff : isFilterF f = false) (hrg : ∀ c, RemGood σ dev f c)
    (hp : NoDescent pre) (hne : rest ≠ []) (hnd : NoDescent rest) (hnf : NoFilter rest) (d : JV) (hw : WF d)
    (hg : GoodPre σ dev rest pre d) (hg' : GoodPre σ dev (rest ++ [f]) pre d) :
    removeM false dev false (pre ++ .descent :: rest ++ [f]) d = .ok (removeSpecG σ (pre ++ .descent :: rest ++ [f]) d) := by
  rw [removeM_descent_eq (σ := σ) dev hsib pre rest f m hm hf hrg hp hne hnd hnf d hw hg,
    upd_rem_pre (σ := σ) dev f m hm hf hff hrg rest hne hnd hnf pre hp d hw hg hg']
  rfl

end OjgVerif.JPMut
