import OjgVerif.JPMut.LemmasSet
/-! # The One forms change at most one member (every path, every deviation set, simple and gen data)

`OneChange Q d d'`: the tree `d'` is `d` with one member of one container written, added or deleted.
`setOne_atMost`, `modifyOne_atMost`, `removeOne_atMost`: whatever SetOne/DelOne/ModifyOne/RemoveOne report — a
result or an error — the data afterwards is the data before or differs from it by one such change (for
RemoveOne: one container has lost one member). Proved by an invariant of the traversal: as long as the status is
`go` nothing has changed (`Inv`). -/
namespace OjgVerif.JPMut
open OjgVerif OjgVerif.JPath

/-- one member of one container of the tree is written (`put*`: its new content is related to the old one by `Q`),
added (`ins`) or deleted (`eraseKey`, `eraseAt`); `in*`: the change is inside a member -/
inductive OneChange (Q : JV → JV → Prop) : JV → JV → Prop
  | putA (i : Nat) (v : JV) (xs : List JV) (c : JV) : xs[i]? = some c → Q c v → OneChange Q (.arr xs) (.arr (xs.set i v))
  | putO (j : Nat) (k : Bytes) (v : JV) (kvs : List (Bytes × JV)) (c : JV) : kvs[j]? = some (k, c) → Q c v →
      OneChange Q (.obj kvs) (.obj (kvs.set j (k, v)))
  | ins (k : Bytes) (v : JV) (kvs : List (Bytes × JV)) : OneChange Q (.obj kvs) (.obj (kvs ++ [(k, v)]))
  | eraseKey (k : Bytes) (kvs : List (Bytes × JV)) : OneChange Q (.obj kvs) (.obj (kvErase k kvs))
  | eraseAt (j : Nat) (kvs : List (Bytes × JV)) : OneChange Q (.obj kvs) (.obj (kvs.eraseIdx j))
  | inA (i : Nat) (xs : List JV) (c c' : JV) : xs[i]? = some c → OneChange Q c c' → OneChange Q (.arr xs) (.arr (xs.set i c'))
  | inO (j : Nat) (k : Bytes) (kvs : List (Bytes × JV)) (c c' : JV) : kvs[j]? = some (k, c) → OneChange Q c c' →
      OneChange Q (.obj kvs) (.obj (kvs.set j (k, c')))

/-- nothing changed, or one member of one container -/
def AtMostOne (Q : JV → JV → Prop) (d d' : JV) : Prop := d' = d ∨ OneChange Q d d'

/-- the invariant of a One form: as long as the traversal goes on nothing has changed, and whatever the status at
most one member has -/
def Inv (Q : JV → JV → Prop) (d : JV) (r : R) : Prop := (r.st = .go → r.d = d) ∧ AtMostOne Q d r.d

theorem inv_same (Q : JV → JV → Prop) (d : JV) (s : St) : Inv Q d ⟨d, s⟩ := ⟨fun _ => rfl, Or.inl rfl⟩

theorem kvInsert_set (k : Bytes) (v : JV) : ∀ (kvs : List (Bytes × JV)) (c : JV), lookup k kvs = some c →
    ∃ j, kvs[j]? = some (k, c) ∧ kvInsert k v kvs = kvs.set j (k, v)
  | [], _, h => by simp [lookup] at h
  | m :: r, c, h => by
    cases m with
    | mk k' v' =>
    simp only [lookup] at h
    by_cases e : k' = k
    · simp only [e, if_true, Option.some.injEq] at h
      subst e; subst h
      exact ⟨0, by simp, by simp [kvInsert]⟩
    · simp only [e, if_false] at h
      obtain ⟨j, h1, h2⟩ := kvInsert_set k v r c h
      exact ⟨j + 1, by simpa using h1, by simp [kvInsert, e, h2]⟩

/-- a change inside an existing member is a change of the container -/
theorem putChild_in (Q : JV → JV → Prop) (l : Loc) (d c c' : JV) (h : child? l d = some c) (hc : OneChange Q c c') :
    OneChange Q d (putChild l c' d) := by
  cases d with
  | arr xs =>
    cases l with
    | idx i => exact OneChange.inA i xs c c' h hc
    | key k => simp [child?] at h
  | obj kvs =>
    cases l with
    | idx i => simp [child?] at h
    | key k =>
      obtain ⟨j, h1, h2⟩ := kvInsert_set k c' kvs c h
      simp only [putChild, h2]
      exact OneChange.inO j k kvs c c' h1 hc
  | _ => cases l <;> simp [child?] at h

/-- writing an existing member is one change -/
theorem putChild_put (Q : JV → JV → Prop) (l : Loc) (d c v : JV) (h : child? l d = some c) (hq : Q c v) :
    OneChange Q d (putChild l v d) := by
  cases d with
  | arr xs =>
    cases l with
    | idx i => exact OneChange.putA i v xs c h hq
    | key k => simp [child?] at h
  | obj kvs =>
    cases l with
    | idx i => simp [child?] at h
    | key k =>
      obtain ⟨j, h1, h2⟩ := kvInsert_set k v kvs c h
      simp only [putChild, h2]
      exact OneChange.putO j k v kvs c h1 hq
  | _ => cases l <;> simp [child?] at h

theorem inv_put (Q : JV → JV → Prop) (l : Loc) (d c : JV) (r : R) (h : child? l d = some c) (hr : Inv Q c r) :
    Inv Q d ⟨putChild l r.d d, r.st⟩ := by
  refine ⟨?_, ?_⟩
  · intro hgo
    simp only at hgo ⊢
    rw [hr.1 hgo, putChild_self l d c h]
  · rcases hr.2 with e | hc
    · left; simp only; rw [e, putChild_self l d c h]
    · right; exact putChild_in Q l d c r.d h hc

theorem visitD_inv (Q : JV → JV → Prop) (cont sib : Bool) (k : Bool → JV → R) (hk : ∀ fl c, Inv Q c (k fl c)) :
    ∀ (steps : List Loc) (fl : Bool) (d : JV), Inv Q d (visitD cont sib k fl steps d)
  | [], _, d => inv_same Q d .go
  | l :: ls, fl, d => by
    simp only [visitD]
    cases hc : child? l d with
    | none => exact visitD_inv Q cont sib k hk ls fl d
    | some c =>
      by_cases hp : (cont && !isContainer c) = true
      · simp only [hp, if_true]; exact visitD_inv Q cont sib k hk ls fl d
      · simp only [hp, Bool.false_eq_true, if_false]
        have hi := hk (fl && sib) c
        have hput := inv_put Q l d c _ hc hi
        cases hst : (k (fl && sib) c).st with
        | go =>
          simp only
          rw [hi.1 hst, putChild_self l d c hc]
          exact visitD_inv Q cont sib k hk ls _ d
        | stop => rw [hst] at hput; exact hput
        | err e => rw [hst] at hput; exact hput
        | fault => rw [hst] at hput; exact hput
        | stale => rw [hst] at hput; exact hput

/-- the invariant for the element loop of a descent: nothing changed, or one element changed inside -/
def InvL (Q : JV → JV → Prop) (xs : List JV) (r : RL) : Prop :=
  (r.st = .go → r.xs = xs) ∧ (r.xs = xs ∨ ∃ i c c', xs[i]? = some c ∧ OneChange Q c c' ∧ r.xs = xs.set i c')

def InvO (Q : JV → JV → Prop) (kvs : List (Bytes × JV)) (r : RO) : Prop :=
  (r.st = .go → r.kvs = kvs) ∧
    (r.kvs = kvs ∨ ∃ j k c c', kvs[j]? = some (k, c) ∧ OneChange Q c c' ∧ r.kvs = kvs.set j (k, c'))

theorem inv_of_L (Q : JV → JV → Prop) (xs : List JV) (r : RL) (s : St) (hs : s ≠ .go) (hl : InvL Q xs r) :
    Inv Q (.arr xs) ⟨.arr r.xs, s⟩ := by
  refine ⟨fun h => absurd h hs, ?_⟩
  rcases hl.2 with e | ⟨i, c, c', h1, h2, h3⟩
  · left; simp only; rw [e]
  · right; simp only; rw [h3]; exact OneChange.inA i xs c c' h1 h2

theorem inv_of_O (Q : JV → JV → Prop) (kvs : List (Bytes × JV)) (r : RO) (s : St) (hs : s ≠ .go) (hl : InvO Q kvs r) :
    Inv Q (.obj kvs) ⟨.obj r.kvs, s⟩ := by
  refine ⟨fun h => absurd h hs, ?_⟩
  rcases hl.2 with e | ⟨j, k', c, c', h1, h2, h3⟩
  · left; simp only; rw [e]
  · right; simp only; rw [h3]; exact OneChange.inO j k' kvs c c' h1 h2

theorem invL_head (Q : JV → JV → Prop) (x : JV) (r : List JV) (rx : R) (s : St) (hs : s ≠ .go) (hx : Inv Q x rx) :
    InvL Q (x :: r) ⟨rx.d :: r, s⟩ := by
  refine ⟨fun h => absurd h hs, ?_⟩
  rcases hx.2 with e | hc
  · left; simp only; rw [e]
  · right; exact ⟨0, x, _, rfl, hc, rfl⟩

theorem invO_head (Q : JV → JV → Prop) (m : Bytes × JV) (r : List (Bytes × JV)) (rx : R) (s : St) (hs : s ≠ .go) (hx : Inv Q m.2 rx) :
    InvO Q (m :: r) ⟨(m.1, rx.d) :: r, s⟩ := by
  refine ⟨fun h => absurd h hs, ?_⟩
  rcases hx.2 with e | hc
  · left; simp only; rw [e]
  · right; exact ⟨0, m.1, m.2, _, rfl, hc, rfl⟩

theorem invL_tail (Q : JV → JV → Prop) (x : JV) (r : List JV) (rr : RL) (hr : InvL Q r rr) : InvL Q (x :: r) ⟨x :: rr.xs, rr.st⟩ := by
  refine ⟨fun h => by simp only at h ⊢; rw [hr.1 h], ?_⟩
  rcases hr.2 with e | ⟨i, c, c', h1, h2, h3⟩
  · left; simp only; rw [e]
  · right; exact ⟨i + 1, c, c', by simpa using h1, h2, by simp only; rw [h3]; rfl⟩

theorem invO_tail (Q : JV → JV → Prop) (m : Bytes × JV) (r : List (Bytes × JV)) (rr : RO) (hr : InvO Q r rr) :
    InvO Q (m :: r) ⟨m :: rr.kvs, rr.st⟩ := by
  refine ⟨fun h => by simp only at h ⊢; rw [hr.1 h], ?_⟩
  rcases hr.2 with e | ⟨j, k', c, c', h1, h2, h3⟩
  · left; simp only; rw [e]
  · right; exact ⟨j + 1, k', c, c', by simpa using h1, h2, by simp only; rw [h3]; rfl⟩

mutual
  theorem descGo_inv (Q : JV → JV → Prop) (k : JV → R) (hk : ∀ c, Inv Q c (k c)) : ∀ (d : JV), Inv Q d (descGo k d)
    | .arr xs => by
      simp only [descGo]
      have hl := descArr_inv Q k hk xs
      cases hst : (descArr k xs).st with
      | go => simp only; rw [hl.1 hst]; exact hk _
      | stop => exact inv_of_L Q xs _ _ (by simp) hl
      | err e' => exact inv_of_L Q xs _ _ (by simp) hl
      | fault => exact inv_of_L Q xs _ _ (by simp) hl
      | stale => exact inv_of_L Q xs _ _ (by simp) hl
    | .obj kvs => by
      simp only [descGo]
      have hl := descObj_inv Q k hk kvs
      cases hst : (descObj k kvs).st with
      | go => simp only; rw [hl.1 hst]; exact hk _
      | stop => exact inv_of_O Q kvs _ _ (by simp) hl
      | err e' => exact inv_of_O Q kvs _ _ (by simp) hl
      | fault => exact inv_of_O Q kvs _ _ (by simp) hl
      | stale => exact inv_of_O Q kvs _ _ (by simp) hl
    | .null => inv_same Q _ .go
    | .bool _ => inv_same Q _ .go
    | .int _ => inv_same Q _ .go
    | .flt _ => inv_same Q _ .go
    | .big _ => inv_same Q _ .go
    | .num _ => inv_same Q _ .go
    | .str _ => inv_same Q _ .go
  theorem descArr_inv (Q : JV → JV → Prop) (k : JV → R) (hk : ∀ c, Inv Q c (k c)) : ∀ (xs : List JV), InvL Q xs (descArr k xs)
    | [] => ⟨fun _ => rfl, Or.inl rfl⟩
    | x :: r => by
      simp only [descArr]
      have hx := descGo_inv Q k hk x
      have hr := descArr_inv Q k hk r
      cases hst : (descGo k x).st with
      | go => simp only; rw [hx.1 hst]; exact invL_tail Q x r _ hr
      | stop => exact invL_head Q x r _ _ (by simp) hx
      | err e' => exact invL_head Q x r _ _ (by simp) hx
      | fault => exact invL_head Q x r _ _ (by simp) hx
      | stale => exact invL_head Q x r _ _ (by simp) hx
  theorem descObj_inv (Q : JV → JV → Prop) (k : JV → R) (hk : ∀ c, Inv Q c (k c)) : ∀ (kvs : List (Bytes × JV)), InvO Q kvs (descObj k kvs)
    | [] => ⟨fun _ => rfl, Or.inl rfl⟩
    | m :: r => by
      simp only [descObj]
      have hx := descGo_inv Q k hk m.2
      have hr := descObj_inv Q k hk r
      cases hst : (descGo k m.2).st with
      | go =>
        simp only
        rw [hx.1 hst]
        have := invO_tail Q m r _ hr
        simpa using this
      | stop => exact invO_head Q m r _ _ (by simp) hx
      | err e' => exact invO_head Q m r _ _ (by simp) hx
      | fault => exact invO_head Q m r _ _ (by simp) hx
      | stale => exact invO_head Q m r _ _ (by simp) hx
end

/-- for Set/Del every new content is allowed -/
def QAny : JV → JV → Prop := fun _ _ => True

/-! ## SetOne / DelOne -/

theorem writeKey_one (a : SetArg) (k : Bytes) (kvs : List (Bytes × JV)) : AtMostOne QAny (.obj kvs) (.obj (writeKey a k kvs)) := by
  cases a with
  | del => right; exact OneChange.eraseKey k kvs
  | val v =>
    simp only [writeKey]
    cases hl : lookup k kvs with
    | none =>
      right
      have : ∀ (kvs : List (Bytes × JV)), lookup k kvs = none → kvInsert k v kvs = kvs ++ [(k, v)] := by
        intro kvs
        induction kvs with
        | nil => intro _; rfl
        | cons m r ih =>
          intro h
          cases m with
          | mk k' v' =>
          simp only [lookup] at h
          by_cases e : k' = k
          · simp [e] at h
          · simp only [e, if_false] at h
            simp [kvInsert, e, ih h]
      rw [this kvs hl]; exact OneChange.ins k v kvs
    | some c =>
      right
      obtain ⟨j, h1, h2⟩ := kvInsert_set k v kvs c hl
      rw [h2]; exact OneChange.putO j k v kvs c h1 trivial

/-- DelOne that does not stop at a name (the delOneAbsent deviation off): the member is absent, nothing is deleted -/
theorem oneKey_false (dev : Dev) (a : SetArg) (k : Bytes) (kvs : List (Bytes × JV)) (h : oneKey dev true a k kvs = false) :
    writeKey a k kvs = kvs := by
  simp only [oneKey, Bool.true_and, Bool.not_eq_false', Bool.and_eq_true, Bool.not_eq_true', Option.isNone_iff_eq_none] at h
  obtain ⟨⟨h1, _⟩, h3⟩ := h
  cases a with
  | val v => simp [SetArg.isDel] at h1
  | del => simp only [writeKey]; exact kvErase_absent k kvs h3

theorem setLastUnion_inv (gen : Bool) (dev : Dev) (a : SetArg) : ∀ (ms : List Member) (d : JV),
    Inv QAny d (setLastUnion gen dev true a ms d)
  | [], d => inv_same QAny d .go
  | m :: ms, d => by
    cases m with
    | key k =>
      cases d with
      | obj kvs =>
        simp only [setLastUnion]
        cases hk : oneKey dev true a k kvs with
        | true => simp only [if_true]; exact ⟨fun h => (by cases h), writeKey_one a k kvs⟩
        | false =>
          simp only [Bool.false_eq_true, if_false]
          rw [oneKey_false dev a k kvs hk]
          exact setLastUnion_inv gen dev a ms _
      | _ => simp only [setLastUnion]; exact setLastUnion_inv gen dev a ms _
    | idx i =>
      cases d with
      | arr xs =>
        simp only [setLastUnion]
        cases ha : absIdx xs.length i with
        | some j =>
          simp only [if_true]
          refine ⟨fun h => (by cases h), Or.inr ?_⟩
          have hj := absIdx_lt _ _ _ ha
          exact OneChange.putA j a.elem xs xs[j] (by simp [hj]) trivial
        | none =>
          simp only
          split
          · exact inv_same QAny _ .fault
          · exact setLastUnion_inv gen dev a ms _
      | _ => simp only [setLastUnion]; exact setLastUnion_inv gen dev a ms _

theorem setLast_inv (gen : Bool) (dev : Dev) (a : SetArg) (f : Frag) (d : JV) : Inv QAny d (setLast gen dev true a f d) := by
  cases f with
  | child k =>
    cases d with
    | obj kvs =>
      simp only [setLast, stopIf]
      cases hk : oneKey dev true a k kvs with
      | true => simp only [if_true]; exact ⟨fun h => (by cases h), writeKey_one a k kvs⟩
      | false =>
        simp only [Bool.false_eq_true, if_false]
        rw [oneKey_false dev a k kvs hk]
        exact inv_same QAny _ .go
    | _ => exact inv_same QAny _ .go
  | nth i =>
    cases d with
    | arr xs =>
      simp only [setLast]
      cases ha : absIdx xs.length i with
      | some j =>
        simp only [stopIf, if_true]
        refine ⟨fun h => (by cases h), Or.inr ?_⟩
        have hj := absIdx_lt _ _ _ ha
        exact OneChange.putA j a.elem xs xs[j] (by simp [hj]) trivial
      | none => exact inv_same QAny _ _
    | _ => exact inv_same QAny _ .go
  | wild =>
    cases d with
    | obj kvs =>
      simp only [setLast, if_true]
      cases kvs with
      | nil => exact inv_same QAny _ .go
      | cons m r =>
        refine ⟨fun h => (by cases h), Or.inr ?_⟩
        simp only
        cases hd : a.isDel with
        | true =>
          simp only [if_true]
          have := OneChange.eraseAt (Q := QAny) 0 (m :: r)
          simpa using this
        | false =>
          simp only [Bool.false_eq_true, if_false]
          have := OneChange.putO (Q := QAny) 0 m.1 a.elem (m :: r) m.2 (by simp) trivial
          simpa using this
    | arr xs =>
      simp only [setLast, if_true]
      cases xs with
      | nil => exact inv_same QAny _ .go
      | cons x r =>
        refine ⟨fun h => (by cases h), Or.inr ?_⟩
        have := OneChange.putA (Q := QAny) 0 a.elem (x :: r) x (by simp) trivial
        simpa using this
    | _ => exact inv_same QAny _ .go
  | union ms => exact setLastUnion_inv gen dev a ms d
  | descent => exact inv_same QAny _ .go
  | slice s e t => exact inv_same QAny _ .go
  | filter p => exact inv_same QAny _ .go

theorem setFollow_inv (l : Loc) (c : JV) (k : Bool → JV → R) (hk : ∀ fl c, Inv QAny c (k fl c)) (d : JV)
    (hc : child? l d = some c) : Inv QAny d (setFollow l c k d) := by
  simp only [setFollow]
  cases isContainer c with
  | false => exact inv_same QAny _ _
  | true => simp only [if_true]; exact inv_put QAny l d c _ hc (hk false c)

/-- in a One form the chain of created containers always ends in the write (or in an error): it never just goes on -/
theorem chain_arr_nogo (gen : Bool) (dev : Dev) (v : JV) (i : Int) (r : List Frag) (fl : Bool) (hi : 0 ≤ i) :
    (setF gen dev true (.val v) (.nth i :: r) fl (.arr (List.replicate (i.toNat + 1) .null))).st ≠ .go := by
  cases r with
  | nil =>
    rw [setF_single_eq _ _ _ _ _ rfl]
    simp [setLast, absIdx_replicate i hi, stopIf]
  | cons g r' =>
    rw [setF_nth_eq]
    simp only [List.length_replicate, absIdx_replicate i hi]
    have : (List.replicate (i.toNat + 1) JV.null)[i.toNat]? = some JV.null := by simp
    simp [this, setFollow, isContainer]

theorem chain_obj_nogo (gen : Bool) (dev : Dev) (v : JV) : ∀ (rest : List Frag) (k : Bytes) (fl : Bool),
    (setF gen dev true (.val v) (.child k :: rest) fl (.obj [])).st ≠ .go
  | [], k, fl => by
    rw [setF_single_eq _ _ _ _ _ rfl]
    simp [setLast, stopIf, oneKey, SetArg.isDel]
  | g :: r, k, fl => by
    rw [setF_child_eq]
    simp only [lookup, setCreate, List.head?_cons]
    cases g with
    | child k' => exact chain_obj_nogo gen dev v r k' false
    | nth i =>
      simp only
      by_cases hi : i < 0
      · simp [hi]
      · simp only [hi, if_false]; exact chain_arr_nogo gen dev v i r false (by omega)
    | wild => simp
    | descent => simp
    | union ms => simp
    | slice s e t => simp
    | filter p => simp

theorem setCreate_inv (gen : Bool) (dev : Dev) (a : SetArg) (key : Bytes) (g : Frag) (r : List Frag) (kvs : List (Bytes × JV)) :
    Inv QAny (.obj kvs) (setCreate a key (g :: r) (setF gen dev true a (g :: r)) kvs) := by
  cases a with
  | del => exact inv_same QAny _ .go
  | val v =>
    simp only [setCreate, List.head?_cons]
    have hins : ∀ (c : JV), AtMostOne QAny (.obj kvs) (.obj (kvInsert key c kvs)) := fun c => writeKey_one (.val c) key kvs
    cases g with
    | child k' =>
      simp only
      exact ⟨fun h => absurd h (chain_obj_nogo gen dev v r k' false), hins _⟩
    | nth i =>
      simp only
      by_cases hi : i < 0
      · simp only [hi, if_true]; exact inv_same QAny _ _
      · simp only [hi, if_false]
        exact ⟨fun h => absurd h (chain_arr_nogo gen dev v i r false (by omega)), hins _⟩
    | wild => exact inv_same QAny _ _
    | descent => exact inv_same QAny _ _
    | union ms => exact inv_same QAny _ _
    | slice s e t => exact inv_same QAny _ _
    | filter p => exact inv_same QAny _ _

/-- SetOne / DelOne: the invariant of the traversal -/
theorem setF_inv (gen : Bool) (dev : Dev) (a : SetArg) : ∀ (x : List Frag) (fl : Bool) (d : JV),
    Inv QAny d (setF gen dev true a x fl d)
  | [], _, d => inv_same QAny d .go
  | f :: rest, fl, d => by
    have ih := setF_inv gen dev a rest
    cases f with
    | descent =>
      simp only [setF]
      by_cases h1 : rest.isEmpty = true
      · simp only [h1, if_true]; exact inv_same QAny d .go
      · by_cases h2 : fl = true
        · simp only [h1, h2, Bool.false_eq_true, if_false, if_true]; exact ih false d
        · simp only [h1, h2, Bool.false_eq_true, if_false]; exact descGo_inv QAny _ (fun c => ih false c) d
    | child key =>
      cases rest with
      | nil => rw [setF_single_eq _ _ _ _ _ rfl]; exact setLast_inv gen dev a _ d
      | cons g r =>
        cases d with
        | obj kvs =>
          rw [setF_child_eq]
          cases hl : lookup key kvs with
          | some c => simp only; exact setFollow_inv _ c _ ih _ hl
          | none => simp only; exact setCreate_inv gen dev a key g r kvs
        | _ => exact inv_same QAny _ .go
    | nth i =>
      cases rest with
      | nil => rw [setF_single_eq _ _ _ _ _ rfl]; exact setLast_inv gen dev a _ d
      | cons g r =>
        cases d with
        | arr xs =>
          rw [setF_nth_eq]
          cases ha : absIdx xs.length i with
          | none => exact inv_same QAny _ _
          | some j =>
            simp only
            cases hx : xs[j]? with
            | none => exact inv_same QAny _ _
            | some c => simp only; exact setFollow_inv _ c _ ih _ hx
        | _ => exact inv_same QAny _ .go
    | union ms =>
      simp only [setF]
      by_cases h1 : rest.isEmpty = true
      · simp only [h1, if_true]; exact setLast_inv gen dev a _ d
      · simp only [h1, Bool.false_eq_true, if_false]
        split
        · exact inv_same QAny _ _
        · exact visitD_inv QAny _ _ _ ih _ _ _
    | wild =>
      simp only [setF]
      by_cases h1 : rest.isEmpty = true
      · simp only [h1, if_true]; exact setLast_inv gen dev a _ d
      · simp only [h1, Bool.false_eq_true, if_false]; exact visitD_inv QAny _ _ _ ih _ _ _
    | slice s e t =>
      simp only [setF]
      by_cases h1 : rest.isEmpty = true
      · simp only [h1, if_true]; exact setLast_inv gen dev a _ d
      · simp only [h1, Bool.false_eq_true, if_false]; exact visitD_inv QAny _ _ _ ih _ _ _
    | filter p =>
      simp only [setF]
      by_cases h1 : rest.isEmpty = true
      · simp only [h1, if_true]; exact setLast_inv gen dev a _ d
      · simp only [h1, Bool.false_eq_true, if_false]; exact visitD_inv QAny _ _ _ ih _ _ _

/-- the data an outcome carries -/
def Out.data (d : JV) : Out → JV
  | .ok d' => d'
  | .err _ d' => d'
  | .fault d' => d'
  | .unmodelled => d

/-- SetOne / DelOne (every path, every deviation set, simple and gen data): whatever is reported, the data
afterwards is the data before or differs from it by one member of one container written, added or deleted -/
theorem setOne_atMost (gen : Bool) (dev : Dev) (a : SetArg) (x : List Frag) (d : JV) :
    AtMostOne QAny d ((setM gen dev true a x d).data d) := by
  simp only [setM]
  split
  · left; rfl
  · have := setF_inv gen dev a x false d
    cases hv : setF gen dev true a x false d with
    | mk dd ss =>
      rw [hv] at this
      cases ss <;> simp only [R.out, Out.data] <;> first | exact this.2 | (left; rfl)

/-! ## ModifyOne / RemoveOne -/

theorem eraseChild_one (Q : JV → JV → Prop) (l : Loc) (d : JV) : AtMostOne Q d (eraseChild l d) := by
  cases l with
  | idx i => left; cases d <;> rfl
  | key k =>
    cases d with
    | obj kvs => right; exact OneChange.eraseKey k kvs
    | _ => left; rfl

/-- the last fragment of a One form of `modify`: the modifier's first change is the only one -/
theorem modSeq_inv (Q : JV → JV → Prop) (gen : Bool) (dev : Dev) (m : Modifier) (hm : ∀ c, (m c).2 = true → Q c (m c).1) (nd : Bool) :
    ∀ (steps : List Loc) (d : JV), Inv Q d (modSeq gen dev true m nd steps d)
  | [], d => inv_same Q d .go
  | l :: ls, d => by
    simp only [modSeq]
    cases hc : child? l d with
    | none => exact modSeq_inv Q gen dev m hm nd ls d
    | some c =>
      simp only
      cases hap : ap gen dev m c with
      | same => exact modSeq_inv Q gen dev m hm nd ls d
      | bad => exact inv_same Q _ _
      | new v =>
        simp only [if_true]
        refine ⟨fun h => (by cases h), ?_⟩
        simp only
        have hq : Q c v := by
          simp only [ap] at hap
          by_cases h2 : (m c).2 = true
          · simp only [h2, if_true] at hap
            split at hap
            · cases hap
            · injection hap with hap; rw [← hap]; exact hm c h2
          · simp [h2] at hap
        split
        · exact eraseChild_one Q l d
        · right; exact putChild_put Q l d c v hc hq

theorem modLast_inv (Q : JV → JV → Prop) (gen : Bool) (dev : Dev) (m : Modifier) (hm : ∀ c, (m c).2 = true → Q c (m c).1)
    (f : Frag) (d : JV) : Inv Q d (modLast gen dev true m f d) := by
  simp only [modLast]
  split <;> exact modSeq_inv Q _ dev m hm _ _ d

/-- ModifyOne / RemoveOne: the invariant of the traversal -/
theorem modF_inv (Q : JV → JV → Prop) (gen : Bool) (dev : Dev) (m : Modifier) (hm : ∀ c, (m c).2 = true → Q c (m c).1) :
    ∀ (x : List Frag) (fl : Bool) (d : JV), Inv Q d (modF gen dev true m x fl d)
  | [], _, d => inv_same Q d .go
  | f :: rest, fl, d => by
    have ih := modF_inv Q gen dev m hm rest
    cases f with
    | descent =>
      simp only [modF]
      by_cases h1 : rest.isEmpty = true
      · simp only [h1, if_true]; exact inv_same Q d .go
      · by_cases h2 : fl = true
        · simp only [h1, h2, Bool.false_eq_true, if_false, if_true]; exact ih false d
        · simp only [h1, h2, Bool.false_eq_true, if_false]; exact descGo_inv Q _ (fun c => ih false c) d
    | child k =>
      simp only [modF]
      by_cases h1 : rest.isEmpty = true
      · simp only [h1, if_true]; exact modLast_inv Q gen dev m hm _ d
      · simp only [h1, Bool.false_eq_true, if_false]; exact visitD_inv Q _ _ _ ih _ _ _
    | nth i =>
      simp only [modF]
      by_cases h1 : rest.isEmpty = true
      · simp only [h1, if_true]; exact modLast_inv Q gen dev m hm _ d
      · simp only [h1, Bool.false_eq_true, if_false]; exact visitD_inv Q _ _ _ ih _ _ _
    | wild =>
      simp only [modF]
      by_cases h1 : rest.isEmpty = true
      · simp only [h1, if_true]; exact modLast_inv Q gen dev m hm _ d
      · simp only [h1, Bool.false_eq_true, if_false]; exact visitD_inv Q _ _ _ ih _ _ _
    | union ms =>
      simp only [modF]
      by_cases h1 : rest.isEmpty = true
      · simp only [h1, if_true]; exact modLast_inv Q gen dev m hm _ d
      · simp only [h1, Bool.false_eq_true, if_false]; exact visitD_inv Q _ _ _ ih _ _ _
    | slice s e t =>
      simp only [modF]
      by_cases h1 : rest.isEmpty = true
      · simp only [h1, if_true]; exact modLast_inv Q gen dev m hm _ d
      · simp only [h1, Bool.false_eq_true, if_false]; exact visitD_inv Q _ _ _ ih _ _ _
    | filter p =>
      simp only [modF]
      by_cases h1 : rest.isEmpty = true
      · simp only [h1, if_true]; exact modLast_inv Q gen dev m hm _ d
      · simp only [h1, Bool.false_eq_true, if_false]; exact visitD_inv Q _ _ _ ih _ _ _

/-- a change of the one-element wrapper is a change of its element -/
theorem oneChange_wrap (Q : JV → JV → Prop) (d y : JV) (h : OneChange Q (.arr [d]) y) :
    ∃ d', y = .arr [d'] ∧ (Q d d' ∨ OneChange Q d d') := by
  cases h with
  | putA i v xs c hx hq =>
    cases i with
    | zero => simp only [List.getElem?_cons_zero, Option.some.injEq] at hx; subst hx; exact ⟨v, by simp, Or.inl hq⟩
    | succ n => simp at hx
  | inA i xs c c' hx hc =>
    cases i with
    | zero => simp only [List.getElem?_cons_zero, Option.some.injEq] at hx; subst hx; exact ⟨c', by simp, Or.inr hc⟩
    | succ n => simp at hx

/-- what `modify` returns in a One form: the root as it was, the root replaced by a modifier result (the path `$`),
or the root with one member of one container changed -/
def RootOne (Q : JV → JV → Prop) (d d' : JV) : Prop := d' = d ∨ Q d d' ∨ OneChange Q d d'

theorem modifyCore_one (Q : JV → JV → Prop) (gen : Bool) (dev : Dev) (m : Modifier) (hm : ∀ c, (m c).2 = true → Q c (m c).1)
    (x : List Frag) (d : JV) : RootOne Q d ((modifyCore gen dev true m x d).data d) := by
  simp only [modifyCore]
  split
  · left; rfl
  · split
    · left; rfl
    · have hi := modF_inv Q (gen && !x.isEmpty) dev m hm (.nth 0 :: x) false (.arr [d])
      have hun : RootOne Q d (unwrap d (modF (gen && !x.isEmpty) dev true m (.nth 0 :: x) false (.arr [d])).d) := by
        rcases hi.2 with e | hc
        · left; rw [e]; rfl
        · obtain ⟨d', hy, hq⟩ := oneChange_wrap Q d _ hc
          rw [hy]
          right; exact hq
      cases hst : (modF (gen && !x.isEmpty) dev true m (.nth 0 :: x) false (.arr [d])).st with
      | go => simp only [Out.data]; exact hun
      | stop => simp only [Out.data]; exact hun
      | err e => simp only [Out.data]; exact hun
      | fault => left; rfl
      | stale => left; rfl

/-- ModifyOne (every path, every deviation set, simple and gen data): whatever is reported, the returned tree (after an
error: the data) is the root as it was, the modifier's result on the root (path `$`), or the root with ONE member of
one container replaced by the modifier's result on it (in the reflect branch of a filter on a map: deleted) -/
theorem modifyOne_atMost (gen : Bool) (dev : Dev) (m : Modifier) (x : List Frag) (d : JV) :
    RootOne (fun c v => v = (m c).1) d ((modifyM gen dev true m x d).data d) :=
  modifyCore_one (fun c v => v = (m c).1) gen dev m (fun _ _ => rfl) x d

/-! ## the `removeOne` methods drop one member -/

/-- the container has lost one member (all bindings of one name, or one element) — or is as it was -/
def Drop (c v : JV) : Prop :=
  (∃ k kvs, c = .obj kvs ∧ v = .obj (kvErase k kvs)) ∨ (∃ j xs, c = .arr xs ∧ v = .arr (xs.eraseIdx j))

theorem dropFirstIdx_eraseIdx (p : Nat → Bool) : ∀ (xs : List JV) (o : Nat), ∃ j, dropFirstIdx p o xs = xs.eraseIdx j
  | [], _ => ⟨0, rfl⟩
  | x :: r, o => by
    simp only [dropFirstIdx]
    by_cases h : p o = true
    · exact ⟨0, by simp [h]⟩
    · obtain ⟨j, hj⟩ := dropFirstIdx_eraseIdx p r (o + 1)
      exact ⟨j + 1, by simp [h, hj]⟩

theorem dropLastIdx_eraseIdx (p : Nat → Bool) (xs : List JV) : ∃ j, dropLastIdx p xs = xs.eraseIdx j := by
  simp only [dropLastIdx]
  cases (List.range xs.length).reverse.find? p with
  | some j => exact ⟨j, rfl⟩
  | none => exact ⟨xs.length, (List.eraseIdx_of_length_le (Nat.le_refl _)).symm⟩

theorem removeOneOf_drop (dev : Dev) (f : Frag) (m : Modifier) (h : removeOneOf dev f = some m) (c : JV) (hc : (m c).2 = true) :
    Drop c (m c).1 := by
  cases f with
  | descent => simp [removeOneOf, removeAllOf] at h
  | child k =>
    simp only [removeOneOf, removeAllOf, Option.some.injEq] at h
    subst h
    cases c with
    | obj kvs =>
      simp only [remChild] at hc ⊢
      split at hc
      · rename_i hs; simp only [hs, if_true]; exact Or.inl ⟨k, kvs, rfl, rfl⟩
      · simp at hc
    | _ => simp [remChild] at hc
  | nth i =>
    simp only [removeOneOf, removeAllOf, Option.some.injEq] at h
    subst h
    cases c with
    | arr xs =>
      simp only [remNth] at hc ⊢
      cases ha : absIdx xs.length i with
      | some j => simp only [ha]; exact Or.inr ⟨j, xs, rfl, rfl⟩
      | none => simp [ha] at hc
    | _ => simp [remNth] at hc
  | wild =>
    simp only [removeOneOf, Option.some.injEq] at h
    subst h
    cases c with
    | arr xs =>
      cases xs with
      | nil => simp [remWildOne] at hc
      | cons x r => exact Or.inr ⟨0, x :: r, rfl, by simp [remWildOne]⟩
    | obj kvs =>
      simp only [remWildOne] at hc ⊢
      cases hk : firstKey (fun _ => true) kvs with
      | some k => simp only [hk]; exact Or.inl ⟨k, kvs, rfl, rfl⟩
      | none => simp [hk] at hc
    | _ => simp [remWildOne] at hc
  | union ms =>
    simp only [removeOneOf, Option.some.injEq] at h
    subst h
    cases c with
    | arr xs =>
      simp only [remUnionOne] at hc ⊢
      split at hc
      · rename_i hs
        simp only [hs, if_true]
        obtain ⟨j, hj⟩ := dropFirstIdx_eraseIdx (hasN dev xs.length ms) xs 0
        exact Or.inr ⟨j, xs, rfl, by rw [hj]⟩
      · simp at hc
    | obj kvs =>
      simp only [remUnionOne] at hc ⊢
      cases hk : firstKey (hasKey ms) kvs with
      | some k => simp only [hk]; exact Or.inl ⟨k, kvs, rfl, rfl⟩
      | none => simp [hk] at hc
    | _ => simp [remUnionOne] at hc
  | slice s e t =>
    simp only [removeOneOf, Option.some.injEq] at h
    subst h
    cases c with
    | arr xs =>
      simp only [remSliceOne] at hc ⊢
      split at hc
      · rename_i hs
        simp only [hs, if_true]
        by_cases hn : negStep t = true
        · simp only [hn, if_true]
          obtain ⟨j, hj⟩ := dropLastIdx_eraseIdx (remSel dev xs.length s e t) xs
          exact Or.inr ⟨j, xs, rfl, by rw [hj]⟩
        · simp only [hn, Bool.false_eq_true, if_false]
          obtain ⟨j, hj⟩ := dropFirstIdx_eraseIdx (remSel dev xs.length s e t) xs 0
          exact Or.inr ⟨j, xs, rfl, by rw [hj]⟩
      · simp at hc
    | _ => simp [remSliceOne] at hc
  | filter p =>
    simp only [removeOneOf, Option.some.injEq] at h
    subst h
    cases c with
    | arr xs =>
      simp only [remFilterOne] at hc ⊢
      split at hc
      · rename_i hs
        simp only [hs, if_true]
        obtain ⟨j, hj⟩ := dropFirstIdx_eraseIdx (fun i => p (xs.getD i .null)) xs 0
        exact Or.inr ⟨j, xs, rfl, by rw [hj]⟩
      · simp at hc
    | obj kvs =>
      simp only [remFilterOne] at hc ⊢
      cases hk : firstKey (fun k => p (lookupD k kvs)) kvs with
      | some k => simp only [hk]; exact Or.inl ⟨k, kvs, rfl, rfl⟩
      | none => simp [hk] at hc
    | _ => simp [remFilterOne] at hc

/-- RemoveOne (every path, every deviation set, simple and gen data): whatever is reported, the returned tree is the root
as it was, or the root with ONE container — the root itself or one member of one container — having lost one member -/
theorem removeOne_atMost (gen : Bool) (dev : Dev) (x : List Frag) (d : JV) :
    RootOne Drop d ((removeM gen dev true x d).data d) := by
  simp only [removeM]
  cases hl : x.getLast? with
  | none => left; rfl
  | some f =>
    simp only [if_true]
    cases hm : removeOneOf dev f with
    | none => left; rfl
    | some m => exact modifyCore_one Drop gen dev m (removeOneOf_drop dev f m hm) x.dropLast d

end OjgVerif.JPMut
