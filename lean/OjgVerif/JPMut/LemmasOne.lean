import OjgVerif.JPMut.LemmasSet
/-! # The One forms change at most one member (every path, every deviation set, simple and gen data)

`OneChange Q d d'`: the tree `d'` is `d` with one member of one container written, added or deleted.
`setOne_atMost`, `modifyOne_atMost`, `removeOne_atMost`: whatever SetOne/DelOne/ModifyOne/RemoveOne report — a
result or an error — the data afterwards is the data before or differs from it by one such change (for
RemoveOne: one container has lost one member). Proved by an invariant of the traversal: as long as the status is
`go` nothing has changed (`Inv`). -/
namespace OjgVerif.JPMut
open OjgVerif OjgVerif.JPath

/-- one member of one container of the tree is written (`put*`: its new content is related to the old one by `Q`),
added (`ins`) or deleted (`eraseKey`, `eraseAt`); `in*`: the change is inside a member -/
inductive OneChange (Q : JV → JV → Prop) : JV → JV → Prop
  | putA (i : Nat) (v : JV) (xs : List JV) (c : JV) : xs[i]? = some c → Q c v → OneChange Q (.arr xs) (.arr (xs.set i v))
  | putO (j : Nat) (k : Bytes) (v : JV) (kvs : List (Bytes × JV)) (c : JV) : kvs[j]? = some (k, c) → Q c v →
      OneChange Q (.obj kvs) (.obj (kvs.set j (k, v)))
  | ins (k : Bytes) (v : JV) (kvs : List (Bytes × JV)) : OneChange Q (.obj kvs) (.obj (kvs ++ [(k, v)]))
  | eraseKey (k : Bytes) (kvs : List (Bytes × JV)) : OneChange Q (.obj kvs) (.obj (kvErase k kvs))
  | eraseAt (j : Nat) (kvs : List (Bytes × JV)) : OneChange Q (.obj kvs) (.obj (kvs.eraseIdx j))
  | inA (i : Nat) (xs : List JV) (c c' : JV) : xs[i]? = some c → OneChange Q c c' → OneChange Q (.arr xs) (.arr (xs.set i c'))
  | inO (j : Nat) (k : Bytes) (kvs : List (Bytes × JV)) (c c' : JV) : kvs[j]? = some (k, c) → OneChange Q c c' →
      OneChange Q (.obj kvs) (.obj (kvs.set j (k, c')))

/-- nothing changed, or one member of one container -/
def AtMostOne (Q : JV → JV → Prop) (d d' : JV) : Prop := d' = d ∨ OneChange Q d d'

/-- the invariant of a One form: as long as the traversal goes on nothing has changed, and whatever the status at
most one member has -/
def Inv (Q : JV → JV → Prop) (d : JV) (r : R) : Prop := (r.st = .go → r.d = d) ∧ AtMostOne Q d r.d

theorem inv_same (Q : JV → JV → Prop) (d : JV) (s : St) : Inv Q d ⟨d, s⟩ := ⟨fun _ => rfl, Or.inl rfl⟩

theorem kvInsert_set (k : Bytes) (v : JV) : ∀ (kvs : List (Bytes × JV)) (c : JV), lookup k kvs = some c →
    ∃ j, kvs[j]? = some (k, c) ∧ kvInsert k v kvs = kvs.set j (k, v)
  | [], _, h => by simp [lookup] at h
  | m :: r, c, h => by
    cases m with
    | mk k' v' =>
    simp only [lookup] at h
    by_cases e : k' = k
    · simp only [e, if_true, Option.some.injEq] at h
      subst e; subst h
      exact ⟨0, by simp, by simp [kvInsert]⟩
    · simp only [e, if_false] at h
      obtain ⟨j, h1, h2⟩ := kvInsert_set k v r c h
      exact ⟨j + 1, by simpa using h1, by simp [kvInsert, e, h2]⟩

/-- a change inside an existing member is a change of the container -/
theorem putChild_in (Q : JV → JV → Prop) (l : Loc) (d c c' : JV) (h : child? l d = some c) (hc : OneChange Q c c') :
    OneChange Q d (putChild l c' d) := by
  cases d with
  | arr xs =>
    cases l with
    | idx i => exact OneChange.inA i xs c c' h hc
    | key k => simp [child?] at h
  | obj kvs =>
    cases l with
    | idx i => simp [child?] at h
    | key k =>
      obtain ⟨j, h1, h2⟩ := kvInsert_set k c' kvs c h
      simp only [putChild, h2]
      exact OneChange.inO j k kvs c c' h1 hc
  | _ => cases l <;> simp [child?] at h

/-- writing an existing member is one change -/
theorem putChild_put (Q : JV → JV → Prop) (l : Loc) (d c v : JV) (h : child? l d = some c) (hq : Q c v) :
    OneChange Q d (putChild l v d) := by
  cases d with
  | arr xs =>
    cases l with
    | idx i => exact OneChange.putA i v xs c h hq
    | key k => simp [child?] at h
  | obj kvs =>
    cases l with
    | idx i => simp [child?] at h
    | key k =>
      obtain ⟨j, h1, h2⟩ := kvInsert_set k v kvs c h
      simp only [putChild, h2]
      exact OneChange.putO j k v kvs c h1 hq
  | _ => cases l <;> simp [child?] at h

theorem inv_put (Q : JV → JV → Prop) (l : Loc) (d c : JV) (r : R) (h : child? l d = some c) (hr : Inv Q c r) :
    Inv Q d ⟨putChild l r.d d, r.st⟩ := by
  refine ⟨?_, ?_⟩
  · intro hgo
    simp only at hgo ⊢
    rw [hr.1 hgo, putChild_self l d c h]
  · rcases hr.2 with e | hc
    · left; simp only; rw [e, putChild_self l d c h]
    · right; exact putChild_in Q l d c r.d h hc

theorem visitD_inv (Q : JV → JV → Prop) (cont sib : Bool) (k : Bool → JV → R) (hk : ∀ fl c, Inv Q c (k fl c)) :
    ∀ (steps : List Loc) (fl : Bool) (d : JV), Inv Q d (visitD cont sib k fl steps d)
  | [], _, d => inv_same Q d .go
  | l :: ls, fl, d => by
    simp only [visitD]
    cases hc : child? l d with
    | none => exact visitD_inv Q cont sib k hk ls fl d
    | some c =>
      by_cases hp : (cont && !isContainer c) = true
      · simp only [hp, if_true]; exact visitD_inv Q cont sib k hk ls fl d
      · simp only [hp, Bool.false_eq_true, if_false]
        have hi := hk (fl && sib) c
        have hput := inv_put Q l d c _ hc hi
        cases hst : (k (fl && sib) c).st with
        | go =>
          simp only
          rw [hi.1 hst, putChild_self l d c hc]
          exact visitD_inv Q cont sib k hk ls _ d
        | stop => rw [hst] at hput; exact hput
        | err e => rw [hst] at hput; exact hput
        | fault => rw [hst] at hput; exact hput
        | stale => rw [hst] at hput; exact hput

/-- the invariant for the element loop of a descent: nothing changed, or one element changed inside -/
def InvL (Q : JV → JV → Prop) (xs : List JV) (r : RL) : Prop :=
  (r.st = .go → r.xs = xs) ∧ (r.xs = xs ∨ ∃ i c c', xs[i]? = some c ∧ OneChange Q c c' ∧ r.xs = xs.set i c')

def InvO (Q : JV → JV → Prop) (kvs : List (Bytes × JV)) (r : RO) : Prop :=
  (r.st = .go → r.kvs = kvs) ∧
    (r.kvs = kvs ∨ ∃ j k c c', kvs[j]? = some (k, c) ∧ OneChange Q c c' ∧ r.kvs = kvs.set j (k, c'))

theorem inv_of_L (Q : JV → JV → Prop) (xs : List JV) (r : RL) (s : St) (hs : s ≠ .go) (hl : InvL Q xs r) :
    Inv Q (.arr xs) ⟨.arr r.xs, s⟩ := by
  refine ⟨fun h => absurd h hs, ?_⟩
  rcases hl.2 with e | ⟨i, c, c', h1, h2, h3⟩
  · left; simp only; rw [e]
  · right; simp only; rw [h3]; exact OneChange.inA i xs c c' h1 h2

theorem inv_of_O (Q : JV → JV → Prop) (kvs : List (Bytes × JV)) (r : RO) (s : St) (hs : s ≠ .go) (hl : InvO Q kvs r) :
    Inv Q (.obj kvs) ⟨.obj r.kvs, s⟩ := by
  refine ⟨fun h => absurd h hs, ?_⟩
  rcases hl.2 with e | ⟨j, k', c, c', h1, h2, h3⟩
  · left; simp only; rw [e]
  · right; simp only; rw [h3]; exact OneChange.inO j k' kvs c c' h1 h2

theorem invL_head (Q : JV → JV → Prop) (x : JV) (r : List JV) (rx : R) (s : St) (hs : s ≠ .go) (hx : Inv Q x rx) :
    InvL Q (x :: r) ⟨rx.d :: r, s⟩ := by
  refine ⟨fun h => absurd h hs, ?_⟩
  rcases hx.2 with e | hc
  · left; simp only; rw [e]
  · right; exact ⟨0, x, _, rfl, hc, rfl⟩

theorem invO_head (Q : JV → JV → Prop) (m : Bytes × JV) (r : List (Bytes × JV)) (rx : R) (s : St) (hs : s ≠ .go) (hx : Inv Q m.2 rx) :
    InvO Q (m :: r) ⟨(m.1, rx.d) :: r, s⟩ := by
  refine ⟨fun h => absurd h hs, ?_⟩
  rcases hx.2 with e | hc
  · left; simp only; rw [e]
  · right; exact ⟨0, m.1, m.2, _, rfl, hc, rfl⟩

theorem invL_tail (Q : JV → JV → Prop) (x : JV) (r : List JV) (rr : RL) (hr : InvL Q r rr) : InvL Q (x :: r) ⟨x :: rr.xs, rr.st⟩ := by
  refine ⟨fun h => by simp only at h ⊢; rw [hr.1 h], ?_⟩
  rcases hr.2 with e | ⟨i, c, c', h1, h2, h3⟩
  · left; simp only; rw [e]
  · right; exact ⟨i + 1, c, c', by simpa using h1, h2, by simp only; rw [h3]; rfl⟩

theorem invO_tail (Q : JV → JV → Prop) (m : Bytes × JV) (r : List (Bytes × JV)) (rr : RO) (hr : InvO Q r rr) :
    InvO Q (m :: r) ⟨m :: rr.kvs, rr.st⟩ := by
  refine ⟨fun h => by simp only at h ⊢; rw [hr.1 h], ?_⟩
  rcases hr.2 with e | ⟨j, k', c, c', h1, h2, h3⟩
  · left; simp only; rw [e]
  · right; exact ⟨j + 1, k', c, c', by simpa using h1, h2, by simp only; rw [h3]; rfl⟩

mutual
  theorem descGo_inv (Q : JV → JV → Prop) (k : JV → R) (hk : ∀ c, Inv Q c (k c)) : ∀ (d : JV), Inv Q d (descGo k d)
    | .arr xs => by
      simp only [descGo]
      have hl := descArr_inv Q k hk xs
      cases hst : (descArr k xs).st with
      | go => simp only; rw [hl.1 hst]; exact hk _
      | stop => exact inv_of_L Q xs _ _ (by simp) hl
      | err e' => exact inv_of_L Q xs _ _ (by simp) hl
      | fault => exact inv_of_L Q xs _ _ (by simp) hl
      | stale => exact inv_of_L Q xs _ _ (by simp) hl
    | .obj kvs => by
      simp only [descGo]
      have hl := descObj_inv Q k hk kvs
      cases hst : (descObj k kvs).st with
      | go => simp only; rw [hl.1 hst]; exact hk _
      | stop => exact inv_of_O Q kvs _ _ (by simp) hl
      | err e' => exact inv_of_O Q kvs _ _ (by simp) hl
      | fault => exact inv_of_O Q kvs _ _ (by simp) hl
      | stale => exact inv_of_O Q kvs _ _ (by simp) hl
    | .null => inv_same Q _ .go
    | .bool _ => inv_same Q _ .go
    | .int _ => inv_same Q _ .go
    | .flt _ => inv_same Q _ .go
    | .big _ => inv_same Q _ .go
    | .num _ => inv_same Q _ .go
    | .str _ => inv_same Q _ .go
  theorem descArr_inv (Q : JV → JV → Prop) (k : JV → R) (hk : ∀ c, Inv Q c (k c)) : ∀ (xs : List JV), InvL Q xs (descArr k xs)
    | [] => ⟨fun _ => rfl, Or.inl rfl⟩
    | x :: r => by
      simp only [descArr]
      have hx := descGo_inv Q k hk x
      have hr := descArr_inv Q k hk r
      cases hst : (descGo k x).st with
      | go => simp only; rw [hx.1 hst]; exact invL_tail Q x r _ hr
      | stop => exact invL_head Q x r _ _ (by simp) hx
      | err e' => exact invL_head Q x r _ _ (by simp) hx
      | fault => exact invL_head Q x r _ _ (by simp) hx
      | stale => exact invL_head Q x r _ _ (by simp) hx
  theorem descObj_inv (Q : JV → JV → Prop) (k : JV → R) (hk : ∀ c, Inv Q c (k c)) : ∀ (kvs : List (Bytes × JV)), InvO Q kvs (descObj k kvs)
    | [] => ⟨fun _ => rfl, Or.inl rfl⟩
    | m :: r => by
      simp only [descObj]
      have hx := descGo_inv Q k hk m.2
      have hr := descObj_inv Q k hk r
      cases hst : (descGo k m.2).st with
      | go =>
        simp only
        rw [hx.1 hst]
        have := invO_tail Q m r _ hr
        simpa using this
      | stop => exact invO_head Q m r _ _ (by simp) hx
      | err e' => exact invO_head Q m r _ _ (by simp) hx
      | fault => exact invO_head Q m r _ _ (by simp) hx
      | stale => exact invO_head Q m r _ _ (by simp) hx
end

/-- for Set/Del every new content is allowed -/
def QAny : JV → JV → Prop := fun _ _ => True

/-! ## SetOne / DelOne -/

theorem writeKey_one (a : SetArg) (k : Bytes) (kvs : List (Bytes × JV)) : AtMostOne QAny (.obj kvs) (.obj (writeKey a k kvs)) := by
  cases a with
  | del => right; exact OneChange.eraseKey k kvs
  | val v =>
    simp only [writeKey]
    cases hl : lookup k kvs with
    | none =>
      right
      have : ∀ (kvs : List (Bytes × JV)), lookup k kvs = none → kvInsert k v kvs = kvs ++ [(k, v)] := by
        intro kvs
        induction kvs with
        | nil => intro _; rfl
        | cons m r ih =>
          intro h
          cases m with
          | mk k' v' =>
          simp only [lookup] at h
          by_cases e : k' = k
          · simp [e] at h
          · simp only [e, if_false] at h
            simp [kvInsert, e, ih h]
      rw [this kvs hl]; exact OneChange.ins k v kvs
    | some c =>
      right
      obtain ⟨j, h1, h2⟩ := kvInsert_set k v kvs c hl
      rw [h2]; exact OneChange.putO j k v kvs c h1 trivial

theorem setLastUnion_inv (gen : Bool) (dev : Dev) (a : SetArg) : ∀ (ms : List Member) (d : JV),
    Inv QAny d (setLastUnion gen dev true a ms d)
  | [], d => inv_same QAny d .go
  | m :: ms, d => by
    cases m with
    | key k =>
      cases d with
      | obj kvs =>
        simp only [setLastUnion, if_true]
        exact ⟨fun h => (by cases h), writeKey_one a k kvs⟩
      | _ => simp only [setLastUnion]; exact setLastUnion_inv gen dev a ms _
    | idx i =>
      cases d with
      | arr xs =>
        simp only [setLastUnion]
        cases ha : absIdx xs.length i with
        | some j =>
          simp only [if_true]
          refine ⟨fun h => (by cases h), Or.inr ?_⟩
          have hj := absIdx_lt _ _ _ ha
          exact OneChange.putA j a.elem xs xs[j] (by simp [hj]) trivial
        | none =>
          simp only
          split
          · exact inv_same QAny _ .fault
          · exact setLastUnion_inv gen dev a ms _
      | _ => simp only [setLastUnion]; exact setLastUnion_inv gen dev a ms _

theorem setLast_inv (gen : Bool) (dev : Dev) (a : SetArg) (f : Frag) (d : JV) : Inv QAny d (setLast gen dev true a f d) := by
  cases f with
  | child k =>
    cases d with
    | obj kvs => simp only [setLast, stopIf, if_true]; exact ⟨fun h => (by cases h), writeKey_one a k kvs⟩
    | _ => exact inv_same QAny _ .go
  | nth i =>
    cases d with
    | arr xs =>
      simp only [setLast]
      cases ha : absIdx xs.length i with
      | some j =>
        simp only [stopIf, if_true]
        refine ⟨fun h => (by cases h), Or.inr ?_⟩
        have hj := absIdx_lt _ _ _ ha
        exact OneChange.putA j a.elem xs xs[j] (by simp [hj]) trivial
      | none => exact inv_same QAny _ _
    | _ => exact inv_same QAny _ .go
  | wild =>
    cases d with
    | obj kvs =>
      simp only [setLast, if_true]
      cases kvs with
      | nil => exact inv_same QAny _ .go
      | cons m r =>
        refine ⟨fun h => (by cases h), Or.inr ?_⟩
        simp only
        cases hd : a.isDel with
        | true =>
          simp only [if_true]
          have := OneChange.eraseAt (Q := QAny) 0 (m :: r)
          simpa using this
        | false =>
          simp only [Bool.false_eq_true, if_false]
          have := OneChange.putO (Q := QAny) 0 m.1 a.elem (m :: r) m.2 (by simp) trivial
          simpa using this
    | arr xs =>
      simp only [setLast, if_true]
      cases xs with
      | nil => exact inv_same QAny _ .go
      | cons x r =>
        refine ⟨fun h => (by cases h), Or.inr ?_⟩
        have := OneChange.putA (Q := QAny) 0 a.elem (x :: r) x (by simp) trivial
        simpa using this
    | _ => exact inv_same QAny _ .go
  | union ms => exact setLastUnion_inv gen dev a ms d
  | descent => exact inv_same QAny _ .go
  | slice s e t => exact inv_same QAny _ .go
  | filter p => exact inv_same QAny _ .go

theorem setFollow_inv (l : Loc) (c : JV) (k : Bool → JV → R) (hk : ∀ fl c, Inv QAny c (k fl c)) (d : JV)
    (hc : child? l d = some c) : Inv QAny d (setFollow l c k d) := by
  simp only [setFollow]
  cases isContainer c with
  | false => exact inv_same QAny _ _
  | true => simp only [if_true]; exact inv_put QAny l d c _ hc (hk false c)

/-- in a One form the chain of created containers always ends in the write (or in an error): it never just goes on -/
theorem chain_arr_nogo (gen : Bool) (dev : Dev) (v : JV) (i : Int) (r : List Frag) (fl : Bool) (hi : 0 ≤ i) :
    (setF gen dev true (.val v) (.nth i :: r) fl (.arr (List.replicate (i.toNat + 1) .null))).st ≠ .go := by
  cases r with
  | nil =>
    rw [setF_single_eq _ _ _ _ _ rfl]
    simp [setLast, absIdx_replicate i hi, stopIf]
  | cons g r' =>
    rw [setF_nth_eq]
    simp only [List.length_replicate, absIdx_replicate i hi]
    have : (List.replicate (i.toNat + 1) JV.null)[i.toNat]? = some JV.null := by simp
    simp [this, setFollow, isContainer]

theorem chain_obj_nogo (gen : Bool) (dev : Dev) (v : JV) : ∀ (rest : List Frag) (k : Bytes) (fl : Bool),
    (setF gen dev true (.val v) (.child k :: rest) fl (.obj [])).st ≠ .go
  | [], k, fl => by
    rw [setF_single_eq _ _ _ _ _ rfl]
    simp [setLast, stopIf]
  | g :: r, k, fl => by
    rw [setF_child_eq]
    simp only [lookup, setCreate, List.head?_cons]
    cases g with
    | child k' => exact chain_obj_nogo gen dev v r k' false
    | nth i =>
      simp only
      by_cases hi : i < 0
      · simp [hi]
      · simp only [hi, if_false]; exact chain_arr_nogo gen dev v i r false (by omega)
    | wild => simp
    | descent => simp
    | union ms => simp
    | slice s e t => simp
    | filter p => simp

theorem setCreate_inv (gen : Bool) (dev : Dev) (a : SetArg) (key : Bytes) (g : Frag) (r : List Frag) (kvs : List (Bytes × JV)) :
    Inv QAny (.obj kvs) (setCreate a key (g :: r) (setF gen dev true a (g :: r)) kvs) := by
  cases a with
  | del => exact inv_same QAny _ .go
  | val v =>
    simp only [setCreate, List.head?_cons]
    have hins : ∀ (c : JV), AtMostOne QAny (.obj kvs) (.obj (kvInsert key c kvs)) := fun c => writeKey_one (.val c) key kvs
    cases g with
    | child k' =>
      simp only
      exact ⟨fun h => absurd h (chain_obj_nogo gen dev v r k' false), hins _⟩
    | nth i =>
      simp only
      by_cases hi : i < 0
      · simp only [hi, if_true]; exact inv_same QAny _ _
      · simp only [hi, if_false]
        exact ⟨fun h => absurd h (chain_arr_nogo gen dev v i r false (by omega)), hins _⟩
    | wild => exact inv_same QAny _ _
    | descent => exact inv_same QAny _ _
    | union ms => exact inv_same QAny _ _
    | slice s e t => exact inv_same QAny _ _
    | filter p => exact inv_same QAny _ _

/-- SetOne / DelOne: the invariant of the traversal -/
theorem setF_inv (gen : Bool) (dev : Dev) (a : SetArg) : ∀ (x : List Frag) (fl : Bool) (d : JV),
    Inv QAny d (setF gen dev true a x fl d)
  | [], _, d => inv_same QAny d .go
  | f :: rest, fl, d => by
    have ih := setF_inv gen dev a rest
    cases f with
    | descent =>
      simp only [setF]
      by_cases h1 : rest.isEmpty = true
      · simp only [h1, if_true]; exact inv_same QAny d .go
      · by_cases h2 : fl = true
        · simp only [h1, h2, Bool.false_eq_true, if_false, if_true]; exact ih false d
        · simp only [h1, h2, Bool.false_eq_true, if_false]; exact descGo_inv QAny _ (fun c => ih false c) d
    | child key =>
      cases rest with
      | nil => rw [setF_single_eq _ _ _ _ _ rfl]; exact setLast_inv gen dev a _ d
      | cons g r =>
        cases d with
        | obj kvs =>
          rw [setF_child_eq]
          cases hl : lookup key kvs with
          | some c => simp only; exact setFollow_inv _ c _ ih _ hl
          | none => simp only; exact setCreate_inv gen dev a key g r kvs
        | _ => exact inv_same QAny _ .go
    | nth i =>
      cases rest with
      | nil => rw [setF_single_eq _ _ _ _ _ rfl]; exact setLast_inv gen dev a _ d
      | cons g r =>
        cases d with
        | arr xs =>
          rw [setF_nth_eq]
          cases ha : absIdx xs.length i with
          | none => exact inv_same QAny _ _
          | some j =>
            simp only
            cases hx : xs[j]? with
            | none => exact inv_same QAny _ _
            | some c => simp only; exact setFollow_inv _ c _ ih _ hx
        | _ => exact inv_same QAny _ .go
    | union ms =>
      simp only [setF]
      by_cases h1 : rest.isEmpty = true
      · simp only [h1, if_true]; exact setLast_inv gen dev a _ d
      · simp only [h1, Bool.false_eq_true, if_false]
        split
        · exact inv_same QAny _ _
        · exact visitD_inv QAny _ _ _ ih _ _ _
    | wild =>
      simp only [setF]
      by_cases h1 : rest.isEmpty = true
      · simp only [h1, if_true]; exact setLast_inv gen dev a _ d
      · simp only [h1, Bool.false_eq_true, if_false]; exact visitD_inv QAny _ _ _ ih _ _ _
    | slice s e t =>
      simp only [setF]
      by_cases h1 : rest.isEmpty = true
      · simp only [h1, if_true]; exact setLast_inv gen dev a _ d
      · simp only [h1, Bool.false_eq_true, if_false]; exact visitD_inv QAny _ _ _ ih _ _ _
    | filter p =>
      simp only [setF]
      by_cases h1 : rest.isEmpty = true
      · simp only [h1, if_true]; exact setLast_inv gen dev a _ d
      · simp only [h1, Bool.false_eq_true, if_false]; exact visitD_inv QAny _ _ _ ih _ _ _

/-- the data an outcome carries -/
def Out.data (d : JV) : Out → JV
  | .ok d' => d'
  | .err _ d' => d'
  | .fault d' => d'
  | .unmodelled => d

/-- SetOne / DelOne (every path, every deviation set, simple and gen data): whatever is reported, the data
afterwards is the data before or differs from it by one member of one container written, added or deleted -/
theorem setOne_atMost (gen : Bool) (dev : Dev) (a : SetArg) (x : List Frag) (d : JV) :
    AtMostOne QAny d ((setM gen dev true a x d).data d) := by
  simp only [setM]
  split
  · left; rfl
  · have := setF_inv gen dev a x false d
    cases hv : setF gen dev true a x false d with
    | mk dd ss =>
      rw [hv] at this
      cases ss <;> simp only [R.out, Out.data] <;> first | exact this.2 | (left; rfl)

end OjgVerif.JPMut
