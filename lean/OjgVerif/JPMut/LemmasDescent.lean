import OjgVerif.JPMut.LemmasOneSet
/-! # Modify through ONE recursive descent: the model's work-list against the denotation

`descGo` works bottom-up: the rest of the path is applied to the members' subtrees first, then to the node itself — as
the node is AFTER those edits. The specification edits all selected locations of the ORIGINAL tree simultaneously
(`updAll`, inner locations first). The two agree when the rest of the path selects on the edited node what it selects on
the original one: it does when the rest has no filter (selection then depends on member names and array lengths only,
`ShapeEq`, and the edits below lie too deep to change those) and no further descent (`modF_descent_eq`).
Excluded, exactly: a filter after the descent (known finding C13-descent-filter-reevaluated), a second descent and
repeated union members (C13-repeated-location). -/
set_option linter.unusedSimpArgs false
set_option linter.unusedSectionVars false
set_option linter.unusedVariables false

namespace OjgVerif.JPMut
open OjgVerif OjgVerif.JPath

variable {σ : SliceFn} [NodupSlice σ]

/-! ## editing deeper locations first, then the shallower ones -/

theorem strip_append (l : Loc) (A B : List Path) : strip l (A ++ B) = strip l A ++ strip l B := by
  simp [strip, List.filterMap_append]

theorem hasNil_append (A B : List Path) : hasNil (A ++ B) = (hasNil A || hasNil B) := by
  simp [hasNil, List.any_append]

theorem strip_length (l : Loc) (T : List Path) (q : Path) (hq : q ∈ strip l T) : ∃ p ∈ T, p.length = q.length + 1 :=
  ⟨l :: q, (mem_strip l T q).1 hq, rfl⟩

/-- when every location of `A` is longer than every location of `B`, the simultaneous edit at `A ++ B` is the edit at
`A` followed by the edit at `B` -/
theorem updAll_seq (m : JV → JV) : ∀ (N : Nat) (A B : List Path) (d : JV), (∀ b ∈ B, b.length < N) →
    (∀ a ∈ A, ∀ b ∈ B, b.length < a.length) → updAll m (A ++ B) d = updAll m B (updAll m A d)
  | 0, A, B, d, hN, _ => by
    have : B = [] := by
      cases B with
      | nil => rfl
      | cons b r => exact absurd (hN b (by simp)) (by omega)
    subst this
    simp [updAll_nil]
  | N + 1, A, B, d, hN, hlt => by
    have hkids : ∀ l c, updAll m (strip l (A ++ B)) c = updAll m (strip l B) (updAll m (strip l A) c) := by
      intro l c
      rw [strip_append]
      apply updAll_seq m N
      · intro b hb
        obtain ⟨p, hp, hl⟩ := strip_length l B b hb
        have := hN p hp
        omega
      · intro a ha b hb
        obtain ⟨p, hp, hl⟩ := strip_length l A a ha
        obtain ⟨p', hp', hl'⟩ := strip_length l B b hb
        have := hlt p hp p' hp'
        omega
    by_cases hB : B = []
    · subst hB; simp [updAll_nil]
    · have hA : hasNil A = false := by
        cases h : hasNil A with
        | false => rfl
        | true =>
          have hn := (hasNil_iff A).1 h
          cases B with
          | nil => exact absurd rfl hB
          | cons b r => exact absurd (hlt [] hn b (by simp)) (by simp)
      rw [updAll_eq m (A ++ B), updAll_eq m B, updAll_eq m A, hasNil_append, hA]
      simp only [Bool.false_or, Bool.false_eq_true, if_false, mapKids_comp]
      have : (fun l c => updAll m (strip l (A ++ B)) c) = fun l c => updAll m (strip l B) (updAll m (strip l A) c) := by
        funext l c; exact hkids l c
      rw [this]

/-! ## the shape of a value down to a depth -/

/-- a value with its members blanked: what a filter-free fragment looks at -/
def topShape : JV → JV
  | .arr xs => .arr (xs.map fun _ => .null)
  | .obj kvs => .obj (kvs.map fun m => (m.1, .null))
  | _ => .null

/-- the two values have the same member names / length at the top, and their members do down to depth `n` -/
def ShapeEq : Nat → JV → JV → Prop
  | 0, _, _ => True
  | n + 1, d, d' => topShape d = topShape d' ∧ ∀ l c c', child? l d = some c → child? l d' = some c' → ShapeEq n c c'

theorem ShapeEq.refl : ∀ (n : Nat) (d : JV), ShapeEq n d d
  | 0, _ => trivial
  | n + 1, d => ⟨rfl, fun l c c' h h' => by rw [h] at h'; injection h' with h'; subst h'; exact ShapeEq.refl n c⟩

theorem ShapeEq.mono : ∀ (n : Nat) (d d' : JV), ShapeEq (n + 1) d d' → ShapeEq n d d'
  | 0, _, _, _ => trivial
  | n + 1, d, d', h => ⟨h.1, fun l c c' hc hc' => ShapeEq.mono n c c' (h.2 l c c' hc hc')⟩

theorem map_const_mapArr (g : Loc → JV → JV) : ∀ (xs : List JV) (i : Nat), (mapArr g i xs).map (fun _ => JV.null) = xs.map fun _ => JV.null
  | [], _ => rfl
  | x :: r, i => by simp [mapArr, map_const_mapArr g r (i + 1)]

theorem topShape_mapKids (g : Loc → JV → JV) (d : JV) : topShape (mapKids g d) = topShape d := by
  cases d with
  | arr xs => simp [mapKids, topShape, map_const_mapArr]
  | obj kvs => simp [mapKids, topShape, List.map_map, Function.comp_def]
  | _ => rfl

/-- an edit at locations all at least `N` long leaves the shape down to depth `N` alone -/
theorem updAll_shape (m : JV → JV) : ∀ (N : Nat) (T : List Path) (d : JV), (∀ p ∈ T, N ≤ p.length) → ShapeEq N d (updAll m T d)
  | 0, _, _, _ => trivial
  | N + 1, T, d, h => by
    have hn : hasNil T = false := by
      cases hh : hasNil T with
      | false => rfl
      | true => exact absurd (h [] ((hasNil_iff T).1 hh)) (by simp)
    rw [updAll_eq, hn]
    simp only [Bool.false_eq_true, if_false]
    refine ⟨(topShape_mapKids _ d).symm, ?_⟩
    intro l c c' hc hc'
    rw [child?_mapKids, hc] at hc'
    simp only [Option.map_some, Option.some.injEq] at hc'
    rw [← hc']
    apply updAll_shape m N
    intro q hq
    obtain ⟨p, hp, hl⟩ := strip_length l T q hq
    have := h p hp
    omega

/-! ## well-formedness survives an edit with a modifier that returns well-formed values -/

theorem WF_mapKids (g : Loc → JV → JV) (d : JV) (hw : WF d) (hg : ∀ l c, child? l d = some c → WF (g l c)) : WF (mapKids g d) := by
  cases d with
  | arr xs =>
    simp only [mapKids, WF]
    have : ∀ (xs : List JV) (i : Nat), (∀ j x, xs[j]? = some x → WF (g (.idx (i + j)) x)) → WFL (mapArr g i xs) := by
      intro xs
      induction xs with
      | nil => intro _ _; trivial
      | cons x r ih =>
        intro i h
        refine ⟨by simpa using h 0 x (by simp), ih (i + 1) ?_⟩
        intro j y hy
        have := h (j + 1) y (by simpa using hy)
        have e : i + 1 + j = i + (j + 1) := by omega
        rw [e]; exact this
    exact this xs 0 (fun j x hx => by simpa using hg (.idx j) x (by simpa [child?] using hx))
  | obj kvs =>
    simp only [WF] at hw
    simp only [mapKids, WF]
    refine ⟨by simpa [keysOf, List.map_map, Function.comp_def] using hw.1, ?_⟩
    have : ∀ (l : List (Bytes × JV)), (∀ kv ∈ l, WF (g (.key kv.1) kv.2)) → WFK (l.map fun m => (m.1, g (.key m.1) m.2)) := by
      intro l
      induction l with
      | nil => intro _; trivial
      | cons kv r ih => intro h; exact ⟨h kv (by simp), ih (fun kv' h' => h kv' (List.mem_cons_of_mem _ h'))⟩
    exact this kvs (fun kv hkv => hg (.key kv.1) kv.2 (by simpa [child?] using lookup_of_mem_nodup kvs hw.1 kv hkv))
  | _ => exact hw

theorem WF_updAll (m : JV → JV) (hm : ∀ c, WF c → WF (m c)) : ∀ (N : Nat) (T : List Path) (d : JV), (∀ p ∈ T, p.length < N) →
    WF d → WF (updAll m T d)
  | 0, T, d, h, hw => by
    have : T = [] := by
      cases T with
      | nil => rfl
      | cons p r => exact absurd (h p (by simp)) (by omega)
    rw [this, updAll_nil]; exact hw
  | N + 1, T, d, h, hw => by
    have hk : WF (mapKids (fun l c => updAll m (strip l T) c) d) := by
      apply WF_mapKids _ d hw
      intro l c hc
      apply WF_updAll m hm N _ c _ (WF_child l d c hw hc)
      intro q hq
      obtain ⟨p, hp, hl⟩ := strip_length l T q hq
      have := h p hp
      omega
    rw [updAll_eq]
    split
    · exact hm _ hk
    · exact hk

theorem lengths_bounded (T : List Path) : ∃ N, ∀ p ∈ T, p.length < N := by
  induction T with
  | nil => exact ⟨0, fun _ h => by cases h⟩
  | cons p r ih =>
    obtain ⟨N, hN⟩ := ih
    refine ⟨max N (p.length + 1), ?_⟩
    intro q hq
    rcases List.mem_cons.1 hq with rfl | hq
    · omega
    · have := hN q hq; omega

theorem WF_updAll' (m : JV → JV) (hm : ∀ c, WF c → WF (m c)) (T : List Path) (d : JV) (hw : WF d) : WF (updAll m T d) := by
  obtain ⟨N, hN⟩ := lengths_bounded T
  exact WF_updAll m hm N T d hN hw

/-! ## a filter-free fragment selects by shape -/

def isFilterF : Frag → Bool
  | .filter _ => true
  | _ => false

/-- no fragment of the path is a filter -/
def NoFilter (x : List Frag) : Prop := ∀ f ∈ x, isFilterF f = false

theorem topShape_cases (d d' : JV) (h : topShape d = topShape d') :
    (∃ xs ys, d = .arr xs ∧ d' = .arr ys ∧ xs.length = ys.length) ∨
    (∃ kvs kvs', d = .obj kvs ∧ d' = .obj kvs' ∧ keysOf kvs = keysOf kvs') ∨
    (isContainer d = false ∧ isContainer d' = false) := by
  cases d with
  | arr xs =>
    cases d' with
    | arr ys =>
      left
      refine ⟨xs, ys, rfl, rfl, ?_⟩
      simp only [topShape, JV.arr.injEq] at h
      have := congrArg List.length h
      simpa using this
    | _ => simp [topShape] at h
  | obj kvs =>
    cases d' with
    | obj kvs' =>
      right; left
      refine ⟨kvs, kvs', rfl, rfl, ?_⟩
      simp only [topShape, JV.obj.injEq] at h
      have := congrArg (List.map Prod.fst) h
      simpa [keysOf, List.map_map, Function.comp_def] using this
    | _ => simp [topShape] at h
  | _ =>
    cases d' with
    | arr ys => simp [topShape] at h
    | obj kvs' => simp [topShape] at h
    | _ => right; right; exact ⟨rfl, rfl⟩

theorem filterMap_congr' {α β : Type} (f g : α → Option β) : ∀ (l : List α), (∀ a ∈ l, f a = g a) → l.filterMap f = l.filterMap g
  | [], _ => rfl
  | a :: r, h => by
    simp only [List.filterMap_cons, h a (by simp)]
    rw [filterMap_congr' f g r (fun b hb => h b (List.mem_cons_of_mem _ hb))]

theorem memberLoc_scalar (d : JV) (hd : isContainer d = false) (mb : Member) :
    memberLoc d mb = (match mb with | .key k => some (.key k) | .idx _ => none) := by
  cases mb <;> cases d <;> simp_all [memberLoc, isContainer]

theorem modLastSteps_scalar (dev : Dev) (f : Frag) (hf : isFilterF f = false) (d d' : JV) (hd : isContainer d = false)
    (hd' : isContainer d' = false) : modLastSteps dev f d = modLastSteps dev f d' := by
  cases f with
  | child k => rfl
  | nth i => simp only [modLastSteps, memberLoc_scalar d hd, memberLoc_scalar d' hd']
  | wild => cases d <;> cases d' <;> simp_all [modLastSteps, isContainer]
  | union ms =>
    simp only [modLastSteps, unionLocs]
    apply filterMap_congr'
    intro mb _
    rw [memberLoc_scalar d hd, memberLoc_scalar d' hd']
  | slice s e t => cases d <;> cases d' <;> simp_all [modLastSteps, isContainer]
  | filter p => simp [isFilterF] at hf
  | descent => rfl

theorem keyLocs_keys (kvs : List (Bytes × JV)) : keyLocs kvs = (keysOf kvs).map Loc.key := by
  simp [keyLocs, keysOf, List.map_map, Function.comp_def]

/-- the members a filter-free fragment works on depend on the shape only -/
theorem modLastSteps_shape (dev : Dev) (f : Frag) (hf : isFilterF f = false) (d d' : JV) (h : topShape d = topShape d') :
    modLastSteps dev f d = modLastSteps dev f d' := by
  rcases topShape_cases d d' h with ⟨xs, ys, rfl, rfl, hl⟩ | ⟨kvs, kvs', rfl, rfl, hk⟩ | ⟨h1, h2⟩
  · cases f with
    | child k => rfl
    | nth i => simp only [modLastSteps, memberLoc, hl]
    | wild => simp only [modLastSteps, hl]
    | union ms =>
      simp only [modLastSteps, unionLocs]
      apply filterMap_congr'
      intro mb _
      cases mb <;> simp only [memberLoc, hl]
    | slice s e t => simp only [modLastSteps, hl]
    | filter p => simp [isFilterF] at hf
    | descent => rfl
  · cases f with
    | child k => rfl
    | nth i => rfl
    | wild => simp only [modLastSteps, keyLocs_keys, hk]
    | union ms =>
      simp only [modLastSteps, unionLocs]
      apply filterMap_congr'
      intro mb _
      cases mb <;> rfl
    | slice s e t => rfl
    | filter p => simp [isFilterF] at hf
    | descent => rfl
  · exact modLastSteps_scalar dev f hf d d' h1 h2

theorem child_isSome_shape (d d' : JV) (h : topShape d = topShape d') (l : Loc) : (child? l d).isSome = (child? l d').isSome := by
  rcases topShape_cases d d' h with ⟨xs, ys, rfl, rfl, hl⟩ | ⟨kvs, kvs', rfl, rfl, hk⟩ | ⟨h1, h2⟩
  · cases l with
    | key k => rfl
    | idx j =>
      simp only [child?]
      by_cases hj : j < xs.length
      · simp [hj, hl ▸ hj]
      · simp [hj, hl ▸ hj]
  · cases l with
    | idx j => rfl
    | key k =>
      simp only [child?]
      have e1 := lookup_none_iff k kvs
      have e2 := lookup_none_iff k kvs'
      rw [hk] at e1
      cases h1 : lookup k kvs <;> cases h2 : lookup k kvs' <;> simp_all
  · rw [child?_scalar l d h1, child?_scalar l d' h2]

theorem TopNodup_shape (d d' : JV) (h : topShape d = topShape d') (hn : TopNodup d) : TopNodup d' := by
  rcases topShape_cases d d' h with ⟨xs, ys, rfl, rfl, _⟩ | ⟨kvs, kvs', rfl, rfl, hk⟩ | ⟨_, h2⟩
  · trivial
  · simp only [TopNodup] at hn ⊢; rw [← hk]; exact hn
  · cases d' <;> simp_all [TopNodup, isContainer]

theorem goodAt_shape (dev : Dev) (f : Frag) (hf : isFilterF f = false) (d d' : JV) (h : topShape d = topShape d')
    (hg : GoodAt σ dev f d) : GoodAt σ dev f d' := by
  cases f with
  | child k => trivial
  | nth i => trivial
  | wild => trivial
  | union ms =>
    have := modLastSteps_shape dev (.union ms) rfl d d' h
    simp only [modLastSteps] at this
    simp only [GoodAt] at hg ⊢
    rw [← this]; exact hg
  | slice s e t =>
    intro ys hd'
    subst hd'
    rcases topShape_cases d _ h with ⟨xs, ys', rfl, e, hl⟩ | ⟨kvs, kvs', _, e, _⟩ | ⟨_, h2⟩
    · injection e with e; subst e
      rw [← hl]; exact hg xs rfl
    · cases e
    · simp [isContainer] at h2
  | filter p => simp [isFilterF] at hf
  | descent => cases hg

/-- the rest of the path selects the same locations on two values of the same shape down to its length -/
theorem locs_shape (dev : Dev) : ∀ (rest : List Frag), NoDescent rest → NoFilter rest → ∀ (d d' : JV), WF d → WF d' →
    GoodPath σ dev rest d → ShapeEq rest.length d d' → SameSet (locsG σ rest d) (locsG σ rest d') ∧ GoodPath σ dev rest d'
  | [], _, _, d, d', _, _, _, _ => ⟨fun p => by simp [locs_nil], trivial⟩
  | f :: r, hnd, hnf, d, d', hw, hw', hg, hs => by
    have hff : isFilterF f = false := hnf f (by simp)
    have hndr : NoDescent r := fun g hg' => hnd g (List.mem_cons_of_mem _ hg')
    have hnfr : NoFilter r := fun g hg' => hnf g (List.mem_cons_of_mem _ hg')
    have htop : topShape d = topShape d' := hs.1
    have hg' : GoodAt σ dev f d' := goodAt_shape dev f hff d d' htop hg.1
    have hok := modLastSteps_ok (σ := σ) dev f d (WF_top d hw) hg.1
    have hok' := modLastSteps_ok (σ := σ) dev f d' (WF_top d' hw') hg'
    have hsteps := modLastSteps_shape dev f hff d d' htop
    -- corresponding members
    have hfwd : ∀ l c, child? l d = some c → ([l], c) ∈ selG σ f d → ∃ c', child? l d' = some c' ∧ ([l], c') ∈ selG σ f d' := by
      intro l c hc hsel
      have hl := (hok.mem l c hc).2 hsel
      have hsome := child_isSome_shape d d' htop l
      rw [hc] at hsome
      cases hc' : child? l d' with
      | none => rw [hc'] at hsome; cases hsome
      | some c' => exact ⟨c', rfl, (hok'.mem l c' hc').1 (hsteps ▸ hl)⟩
    have hbwd : ∀ l c', child? l d' = some c' → ([l], c') ∈ selG σ f d' → ∃ c, child? l d = some c ∧ ([l], c) ∈ selG σ f d := by
      intro l c' hc' hsel
      have hl := (hok'.mem l c' hc').2 hsel
      have hsome := child_isSome_shape d d' htop l
      rw [hc'] at hsome
      cases hc : child? l d with
      | none => rw [hc] at hsome; cases hsome
      | some c => exact ⟨c, rfl, (hok.mem l c hc).1 (hsteps ▸ hl)⟩
    have ih : ∀ l c c', child? l d = some c → child? l d' = some c' → ([l], c) ∈ selG σ f d →
        SameSet (locsG σ r c) (locsG σ r c') ∧ GoodPath σ dev r c' :=
      fun l c c' hc hc' hsel => locs_shape dev r hndr hnfr c c' (WF_child l d c hw hc) (WF_child l d' c' hw' hc')
        (hg.2 ([l], c) hsel) (hs.2 l c c' hc hc')
    refine ⟨?_, hg', ?_⟩
    · intro p
      rw [mem_locs_cons, mem_locs_cons]
      constructor
      · rintro ⟨m, hm, q, hq, rfl⟩
        obtain ⟨l, hl, hc⟩ := hok.shape m hm
        have hsel : ([l], m.2) ∈ selG σ f d := by rw [← hl]; exact hm
        obtain ⟨c', hc', hsel'⟩ := hfwd l m.2 hc hsel
        exact ⟨([l], c'), hsel', q, ((ih l m.2 c' hc hc' hsel).1 q).1 hq, by rw [hl]⟩
      · rintro ⟨m, hm, q, hq, rfl⟩
        obtain ⟨l, hl, hc'⟩ := hok'.shape m hm
        have hsel' : ([l], m.2) ∈ selG σ f d' := by rw [← hl]; exact hm
        obtain ⟨c, hc, hsel⟩ := hbwd l m.2 hc' hsel'
        exact ⟨([l], c), hsel, q, ((ih l c m.2 hc hc' hsel).1 q).2 hq, by rw [hl]⟩
    · intro m hm
      obtain ⟨l, hl, hc'⟩ := hok'.shape m hm
      have hsel' : ([l], m.2) ∈ selG σ f d' := by rw [← hl]; exact hm
      obtain ⟨c, hc, hsel⟩ := hbwd l m.2 hc' hsel'
      exact (ih l c m.2 hc hc' hsel).2

/-! ## the nodes a descent reaches -/

theorem mem_descArr : ∀ (xs : List JV) (o : Nat) (m : Path × JV),
    m ∈ JPath.descArr o xs ↔ ∃ j x, xs[j]? = some x ∧ ∃ m' ∈ desc x, m = pfx (.idx (o + j)) m'
  | [], _, m => by simp [JPath.descArr]
  | x :: r, o, m => by
    simp only [JPath.descArr, List.mem_append, List.mem_map, mem_descArr r (o + 1) m]
    constructor
    · rintro (⟨m', hm', rfl⟩ | ⟨j, y, hy, m', hm', rfl⟩)
      · exact ⟨0, x, rfl, m', hm', rfl⟩
      · exact ⟨j + 1, y, by simpa using hy, m', hm', by simp [pfx]; omega⟩
    · rintro ⟨j, y, hy, m', hm', rfl⟩
      cases j with
      | zero =>
        simp only [List.getElem?_cons_zero, Option.some.injEq] at hy
        subst hy
        exact Or.inl ⟨m', hm', rfl⟩
      | succ n => exact Or.inr ⟨n, y, by simpa using hy, m', hm', by simp [pfx]; omega⟩

theorem mem_descObj : ∀ (kvs : List (Bytes × JV)) (m : Path × JV),
    m ∈ JPath.descObj kvs ↔ ∃ kv ∈ kvs, ∃ m' ∈ desc kv.2, m = pfx (.key kv.1) m'
  | [], m => by simp [JPath.descObj]
  | kv :: r, m => by
    simp only [JPath.descObj, List.mem_append, List.mem_map, mem_descObj r m, List.mem_cons]
    constructor
    · rintro (⟨m', hm', rfl⟩ | ⟨kv', hkv', m', hm', rfl⟩)
      · exact ⟨kv, Or.inl rfl, m', hm', rfl⟩
      · exact ⟨kv', Or.inr hkv', m', hm', rfl⟩
    · rintro ⟨kv', hkv', m', hm', rfl⟩
      rcases hkv' with rfl | hkv'
      · exact Or.inl ⟨m', hm', rfl⟩
      · exact Or.inr ⟨kv', hkv', m', hm', rfl⟩

/-- the nodes of a value: the value itself and the nodes of its members -/
theorem mem_desc (d : JV) (hn : TopNodup d) (m : Path × JV) :
    m ∈ desc d ↔ m = ([], d) ∨ ∃ l c, child? l d = some c ∧ ∃ m' ∈ desc c, m = pfx l m' := by
  cases d with
  | arr xs =>
    simp only [desc, List.mem_append, List.mem_singleton, mem_descArr xs 0 m, Nat.zero_add]
    constructor
    · rintro (⟨j, x, hx, m', hm', rfl⟩ | h)
      · exact Or.inr ⟨.idx j, x, hx, m', hm', rfl⟩
      · exact Or.inl h
    · rintro (h | ⟨l, c, hc, m', hm', rfl⟩)
      · exact Or.inr h
      · obtain ⟨j, rfl, hj⟩ := child?_arr_inv l xs c hc
        exact Or.inl ⟨j, c, hj, m', hm', rfl⟩
  | obj kvs =>
    simp only [desc, List.mem_append, List.mem_singleton, mem_descObj kvs m]
    constructor
    · rintro (⟨kv, hkv, m', hm', rfl⟩ | h)
      · exact Or.inr ⟨.key kv.1, kv.2, lookup_of_mem_nodup kvs hn kv hkv, m', hm', rfl⟩
      · exact Or.inl h
    · rintro (h | ⟨l, c, hc, m', hm', rfl⟩)
      · exact Or.inr h
      · obtain ⟨k, rfl, hk⟩ := child?_obj_inv l kvs c hc
        exact Or.inl ⟨(k, c), lookup_mem kvs k c hk, m', hm', rfl⟩
  | _ =>
    simp only [desc, List.mem_singleton]
    constructor
    · intro h; exact Or.inl h
    · rintro (h | ⟨l, c, hc, _⟩)
      · exact h
      · rw [child?_scalar l _ rfl] at hc; cases hc

mutual
  theorem WF_desc : ∀ (d : JV), WF d → ∀ m ∈ desc d, WF m.2
    | .arr xs, hw, m, hm => by
      simp only [desc, List.mem_append, List.mem_singleton] at hm
      rcases hm with hm | rfl
      · exact WF_descArr xs (by simpa [WF] using hw) 0 m hm
      · exact hw
    | .obj kvs, hw, m, hm => by
      simp only [desc, List.mem_append, List.mem_singleton] at hm
      rcases hm with hm | rfl
      · exact WF_descObj kvs (by simp only [WF] at hw; exact hw.2) m hm
      · exact hw
    | .null, hw, m, hm => by simp only [desc, List.mem_singleton] at hm; rw [hm]; exact hw
    | .bool _, hw, m, hm => by simp only [desc, List.mem_singleton] at hm; rw [hm]; exact hw
    | .int _, hw, m, hm => by simp only [desc, List.mem_singleton] at hm; rw [hm]; exact hw
    | .flt _, hw, m, hm => by simp only [desc, List.mem_singleton] at hm; rw [hm]; exact hw
    | .big _, hw, m, hm => by simp only [desc, List.mem_singleton] at hm; rw [hm]; exact hw
    | .num _, hw, m, hm => by simp only [desc, List.mem_singleton] at hm; rw [hm]; exact hw
    | .str _, hw, m, hm => by simp only [desc, List.mem_singleton] at hm; rw [hm]; exact hw
  theorem WF_descArr : ∀ (xs : List JV), WFL xs → ∀ (o : Nat) (m : Path × JV), m ∈ JPath.descArr o xs → WF m.2
    | [], _, _, m, hm => by simp [JPath.descArr] at hm
    | x :: r, hw, o, m, hm => by
      simp only [JPath.descArr, List.mem_append, List.mem_map] at hm
      simp only [WFL] at hw
      rcases hm with ⟨m', hm', rfl⟩ | hm
      · exact WF_desc x hw.1 m' hm'
      · exact WF_descArr r hw.2 (o + 1) m hm
  theorem WF_descObj : ∀ (kvs : List (Bytes × JV)), WFK kvs → ∀ (m : Path × JV), m ∈ JPath.descObj kvs → WF m.2
    | [], _, m, hm => by simp [JPath.descObj] at hm
    | kv :: r, hw, m, hm => by
      simp only [JPath.descObj, List.mem_append, List.mem_map] at hm
      simp only [WFK] at hw
      rcases hm with ⟨m', hm', rfl⟩ | hm
      · exact WF_desc kv.2 hw.1 m' hm'
      · exact WF_descObj r hw.2 m hm
end

/-- without descent every selected location is as long as the path -/
theorem locs_len : ∀ (x : List Frag), NoDescent x → ∀ (d : JV), WF d → ∀ p ∈ locsG σ x d, p.length = x.length
  | [], _, d, _, p, hp => by
    simp only [locs_nil, List.mem_singleton] at hp
    rw [hp]; rfl
  | f :: r, hnd, d, hw, p, hp => by
    obtain ⟨m, hm, q, hq, rfl⟩ := (mem_locs_cons (σ := σ) f r d p).1 hp
    obtain ⟨l, hl, hc⟩ := Shape_of (σ := σ) f d (hnd f (by simp)) (WF_top d hw) m hm
    have := locs_len r (fun g hg => hnd g (List.mem_cons_of_mem _ hg)) m.2 (WF_child l d m.2 hw hc) q hq
    simp [hl, this]

/-- the locations a descent followed by `rest` selects -/
abbrev locsD (σ : SliceFn) (rest : List Frag) (d : JV) : List Path := locsG σ (.descent :: rest) d

theorem mem_locsD (rest : List Frag) (d : JV) (p : Path) :
    p ∈ locsD σ rest d ↔ ∃ m ∈ desc d, ∃ q ∈ locsG σ rest m.2, p = m.1 ++ q :=
  mem_locs_cons (σ := σ) .descent rest d p

theorem locsD_len (rest : List Frag) (hnd : NoDescent rest) (d : JV) (hw : WF d) (p : Path) (hp : p ∈ locsD σ rest d) :
    rest.length ≤ p.length := by
  obtain ⟨m, hm, q, hq, rfl⟩ := (mem_locsD rest d p).1 hp
  have := locs_len (σ := σ) rest hnd m.2 (WF_desc d hw m hm) q hq
  simp [this]

/-- below the member `l`: what the descent selects in the member, and what `rest` selects from the node itself -/
theorem strip_locsD (rest : List Frag) (d c : JV) (l : Loc) (hn : TopNodup d) (hc : child? l d = some c) :
    SameSet (strip l (locsD σ rest d)) (locsD σ rest c ++ strip l (locsG σ rest d)) := by
  intro q'
  rw [mem_strip, List.mem_append, mem_strip, mem_locsD, mem_locsD]
  constructor
  · rintro ⟨m, hm, q, hq, e⟩
    rcases (mem_desc d hn m).1 hm with rfl | ⟨l2, c2, hc2, m', hm', rfl⟩
    · right; simpa using e ▸ hq
    · simp only [pfx, List.cons_append, List.cons.injEq] at e
      obtain ⟨rfl, rfl⟩ := e
      rw [hc] at hc2
      injection hc2 with hc2
      subst hc2
      exact Or.inl ⟨m', hm', q, hq, rfl⟩
  · rintro (⟨m', hm', q, hq, rfl⟩ | h)
    · exact ⟨pfx l m', (mem_desc d hn _).2 (Or.inr ⟨l, c, hc, m', hm', rfl⟩), q, hq, rfl⟩
    · exact ⟨([], d), (mem_desc d hn _).2 (Or.inl rfl), l :: q', h, rfl⟩

/-! ## the descent work-list -/

mutual
  /-- the rest of the path is good (`GoodPath`) on every node of the value -/
  def GoodD (σ : SliceFn) (dev : Dev) (rest : List Frag) : JV → Prop
    | .arr xs => GoodPath σ dev rest (.arr xs) ∧ GoodDL σ dev rest xs
    | .obj kvs => GoodPath σ dev rest (.obj kvs) ∧ GoodDK σ dev rest kvs
    | .null => True
    | .bool _ => True
    | .int _ => True
    | .flt _ => True
    | .big _ => True
    | .num _ => True
    | .str _ => True
  def GoodDL (σ : SliceFn) (dev : Dev) (rest : List Frag) : List JV → Prop
    | [] => True
    | x :: r => GoodD σ dev rest x ∧ GoodDL σ dev rest r
  def GoodDK (σ : SliceFn) (dev : Dev) (rest : List Frag) : List (Bytes × JV) → Prop
    | [] => True
    | m :: r => GoodD σ dev rest m.2 ∧ GoodDK σ dev rest r
end

theorem mapArr_const (F : JV → JV) : ∀ (xs : List JV) (i : Nat), mapArr (fun _ c => F c) i xs = xs.map F
  | [], _ => rfl
  | x :: r, i => by simp [mapArr, mapArr_const F r (i + 1)]

theorem locsD_scalar (rest : List Frag) (g : Frag) (r : List Frag) (hr : rest = g :: r) (hg : isDescentF g = false) (d : JV)
    (hd : isContainer d = false) : locsD σ rest d = [] := by
  apply List.eq_nil_iff_forall_not_mem.2
  intro p hp
  obtain ⟨m, hm, q, hq, _⟩ := (mem_locsD rest d p).1 hp
  have : m = ([], d) := by
    cases d <;> simp_all [desc, isContainer]
  rw [this, hr, locs_scalar (σ := σ) g r d hg hd] at hq
  cases hq

/-- one node of the descent: the rest of the path applied to the node whose members have been worked through -/
theorem desc_node (dev : Dev) (m : Modifier) (hm : ∀ c, WF c → WF (m.eff c)) (rest : List Frag) (hne : rest ≠ [])
    (hnd : NoDescent rest) (hnf : NoFilter rest) (d : JV) (hw : WF d) (hg : GoodPath σ dev rest d) :
    modF false dev false m rest false (mapKids (fun _ c => updAll m.eff (locsD σ rest c) c) d) =
      ⟨updAll m.eff (locsD σ rest d) d, .go⟩ := by
  have hn : 1 ≤ rest.length := by cases rest with | nil => exact absurd rfl hne | cons g r => simp
  have hkid : ∀ l c, child? l d = some c → ∀ p ∈ locsD σ rest c, rest.length ≤ p.length :=
    fun l c hc p hp => locsD_len rest hnd c (WF_child l d c hw hc) p hp
  -- the node after its members have been worked through
  have hw' : WF (mapKids (fun _ c => updAll m.eff (locsD σ rest c) c) d) :=
    WF_mapKids _ d hw (fun l c hc => WF_updAll' m.eff hm _ c (WF_child l d c hw hc))
  have hshape : ShapeEq (rest.length + 1) d (mapKids (fun _ c => updAll m.eff (locsD σ rest c) c) d) := by
    refine ⟨(topShape_mapKids _ d).symm, ?_⟩
    intro l c c' hc hc'
    rw [child?_mapKids, hc] at hc'
    simp only [Option.map_some, Option.some.injEq] at hc'
    rw [← hc']
    exact updAll_shape m.eff rest.length _ c (hkid l c hc)
  obtain ⟨hsame, hg'⟩ := locs_shape (σ := σ) dev rest hnd hnf d _ hw hw' hg (ShapeEq.mono _ _ _ hshape)
  rw [modF_eq dev m rest hne hnd false _ hw' hg']
  congr 1
  rw [← updAll_congr m.eff _ _ _ hsame]
  -- both sides one level down
  have hnilB : hasNil (locsG σ rest d) = false := by
    cases h : hasNil (locsG σ rest d) with
    | false => rfl
    | true => exact absurd ((hasNil_iff _).1 h) (locs_no_nil (σ := σ) rest hne hnd d (WF_top d hw))
  have hnilD : hasNil (locsD σ rest d) = false := by
    cases h : hasNil (locsD σ rest d) with
    | false => rfl
    | true =>
      have := locsD_len (σ := σ) rest hnd d hw [] ((hasNil_iff _).1 h)
      simp only [List.length_nil] at this; omega
  rw [updAll_eq m.eff (locsG σ rest d), hnilB, updAll_eq m.eff (locsD σ rest d), hnilD]
  simp only [Bool.false_eq_true, if_false, mapKids_comp]
  symm
  apply mapKids_congr d (WF_top d hw)
  intro l c hc
  rw [updAll_congr m.eff c _ _ (strip_locsD (σ := σ) rest d c l (WF_top d hw) hc)]
  apply updAll_seq m.eff rest.length
  · intro b hb
    obtain ⟨p, hp, hl⟩ := strip_length l _ b hb
    have := locs_len (σ := σ) rest hnd d hw p hp
    omega
  · intro a ha b hb
    obtain ⟨p, hp, hl⟩ := strip_length l _ b hb
    have h1 := locs_len (σ := σ) rest hnd d hw p hp
    have h2 := hkid l c hc a ha
    omega

mutual
  /-- the descent work-list of Modify (all matches, simple data) against the denotation: bottom-up application of the rest of
  the path = the simultaneous edit at everything `..rest` selects -/
  theorem descGo_upd (dev : Dev) (m : Modifier) (hm : ∀ c, WF c → WF (m.eff c)) (rest : List Frag) (hne : rest ≠ [])
      (hnd : NoDescent rest) (hnf : NoFilter rest) : ∀ (d : JV), WF d → GoodD σ dev rest d →
      descGo (modF false dev false m rest false) d = ⟨updAll m.eff (locsD σ rest d) d, .go⟩
    | .arr xs, hw, hg => by
      simp only [GoodD] at hg
      have hl := descArr_upd dev m hm rest hne hnd hnf xs (by simpa [WF] using hw) hg.2
      simp only [descGo, hl]
      have := desc_node (σ := σ) dev m hm rest hne hnd hnf (.arr xs) hw hg.1
      simp only [mapKids, mapArr_const] at this
      exact this
    | .obj kvs, hw, hg => by
      simp only [GoodD] at hg
      have hl := descObj_upd dev m hm rest hne hnd hnf kvs (by simp only [WF] at hw; exact hw.2) hg.2
      simp only [descGo, hl]
      have := desc_node (σ := σ) dev m hm rest hne hnd hnf (.obj kvs) hw hg.1
      simp only [mapKids] at this
      exact this
    | .null, _, _ => by
      obtain ⟨g, r, hr⟩ : ∃ g r, rest = g :: r := by cases rest with | nil => exact absurd rfl hne | cons g r => exact ⟨g, r, rfl⟩
      rw [locsD_scalar (σ := σ) rest g r hr (hnd g (by rw [hr]; simp)) _ rfl, updAll_nil]; rfl
    | .bool _, _, _ => by
      obtain ⟨g, r, hr⟩ : ∃ g r, rest = g :: r := by cases rest with | nil => exact absurd rfl hne | cons g r => exact ⟨g, r, rfl⟩
      rw [locsD_scalar (σ := σ) rest g r hr (hnd g (by rw [hr]; simp)) _ rfl, updAll_nil]; rfl
    | .int _, _, _ => by
      obtain ⟨g, r, hr⟩ : ∃ g r, rest = g :: r := by cases rest with | nil => exact absurd rfl hne | cons g r => exact ⟨g, r, rfl⟩
      rw [locsD_scalar (σ := σ) rest g r hr (hnd g (by rw [hr]; simp)) _ rfl, updAll_nil]; rfl
    | .flt _, _, _ => by
      obtain ⟨g, r, hr⟩ : ∃ g r, rest = g :: r := by cases rest with | nil => exact absurd rfl hne | cons g r => exact ⟨g, r, rfl⟩
      rw [locsD_scalar (σ := σ) rest g r hr (hnd g (by rw [hr]; simp)) _ rfl, updAll_nil]; rfl
    | .big _, _, _ => by
      obtain ⟨g, r, hr⟩ : ∃ g r, rest = g :: r := by cases rest with | nil => exact absurd rfl hne | cons g r => exact ⟨g, r, rfl⟩
      rw [locsD_scalar (σ := σ) rest g r hr (hnd g (by rw [hr]; simp)) _ rfl, updAll_nil]; rfl
    | .num _, _, _ => by
      obtain ⟨g, r, hr⟩ : ∃ g r, rest = g :: r := by cases rest with | nil => exact absurd rfl hne | cons g r => exact ⟨g, r, rfl⟩
      rw [locsD_scalar (σ := σ) rest g r hr (hnd g (by rw [hr]; simp)) _ rfl, updAll_nil]; rfl
    | .str _, _, _ => by
      obtain ⟨g, r, hr⟩ : ∃ g r, rest = g :: r := by cases rest with | nil => exact absurd rfl hne | cons g r => exact ⟨g, r, rfl⟩
      rw [locsD_scalar (σ := σ) rest g r hr (hnd g (by rw [hr]; simp)) _ rfl, updAll_nil]; rfl
  theorem descArr_upd (dev : Dev) (m : Modifier) (hm : ∀ c, WF c → WF (m.eff c)) (rest : List Frag) (hne : rest ≠ [])
      (hnd : NoDescent rest) (hnf : NoFilter rest) : ∀ (xs : List JV), WFL xs → GoodDL σ dev rest xs →
      descArr (modF false dev false m rest false) xs = ⟨xs.map fun c => updAll m.eff (locsD σ rest c) c, .go⟩
    | [], _, _ => rfl
    | x :: r, hw, hg => by
      simp only [WFL] at hw
      simp only [GoodDL] at hg
      simp only [descArr, descGo_upd dev m hm rest hne hnd hnf x hw.1 hg.1, descArr_upd dev m hm rest hne hnd hnf r hw.2 hg.2,
        List.map_cons]
  theorem descObj_upd (dev : Dev) (m : Modifier) (hm : ∀ c, WF c → WF (m.eff c)) (rest : List Frag) (hne : rest ≠ [])
      (hnd : NoDescent rest) (hnf : NoFilter rest) : ∀ (kvs : List (Bytes × JV)), WFK kvs → GoodDK σ dev rest kvs →
      descObj (modF false dev false m rest false) kvs = ⟨kvs.map fun kv => (kv.1, updAll m.eff (locsD σ rest kv.2) kv.2), .go⟩
    | [], _, _ => rfl
    | kv :: r, hw, hg => by
      simp only [WFK] at hw
      simp only [GoodDK] at hg
      simp only [descObj, descGo_upd dev m hm rest hne hnd hnf kv.2 hw.1 hg.1, descObj_upd dev m hm rest hne hnd hnf r hw.2 hg.2,
        List.map_cons]
end

/-! ## the path before the descent -/

/-- the fragments before the descent are good on the values they meet, the rest is good on every node the descent reaches -/
def GoodPre (σ : SliceFn) (dev : Dev) (rest : List Frag) : List Frag → JV → Prop
  | [], d => GoodD σ dev rest d
  | f :: pre, d => GoodAt σ dev f d ∧ ∀ m ∈ selG σ f d, GoodPre σ dev rest pre m.2

theorem visitD_nosib (cont : Bool) (k : Bool → JV → R) : ∀ (steps : List Loc) (fl : Bool) (d : JV),
    visitD cont false k fl steps d = visitD cont false (fun _ => k false) fl steps d
  | [], _, _ => rfl
  | l :: ls, fl, d => by
    simp only [visitD, Bool.and_false]
    cases child? l d with
    | none => exact visitD_nosib cont k ls fl d
    | some c =>
      simp only
      split
      · exact visitD_nosib cont k ls fl d
      · split
        · exact visitD_nosib cont k ls _ _
        · rfl

theorem locs_tail_scalar (rest : List Frag) (hne : rest ≠ []) (hnd : NoDescent rest) : ∀ (pre : List Frag), NoDescent pre →
    ∀ (c : JV), isContainer c = false → locsG σ (pre ++ .descent :: rest) c = []
  | [], _, c, hc => by
    obtain ⟨g, r, hr⟩ : ∃ g r, rest = g :: r := by cases rest with | nil => exact absurd rfl hne | cons g r => exact ⟨g, r, rfl⟩
    exact locsD_scalar (σ := σ) rest g r hr (hnd g (by rw [hr]; simp)) c hc
  | g :: pre, hp, c, hc => locs_scalar (σ := σ) g _ c (hp g (by simp)) hc

/-- Modify's traversal (all matches, simple data) of a path with ONE recursive descent followed by a filter-free rest -/
theorem modF_preD (dev : Dev) (hsib : dev.descentSiblings = false) (m : Modifier) (hm : ∀ c, WF c → WF (m.eff c))
    (rest : List Frag) (hne : rest ≠ []) (hnd : NoDescent rest) (hnf : NoFilter rest) : ∀ (pre : List Frag), NoDescent pre →
    ∀ (fl : Bool) (d : JV), WF d → GoodPre σ dev rest pre d → (pre = [] → fl = false) →
    modF false dev false m (pre ++ .descent :: rest) fl d = ⟨updAll m.eff (locsG σ (pre ++ .descent :: rest) d) d, .go⟩
  | [], _, fl, d, hw, hg, hfl => by
    have hre : rest.isEmpty = false := by cases rest with | nil => exact absurd rfl hne | cons g r => rfl
    simp only [List.nil_append, modF, hre, hfl rfl, Bool.false_eq_true, if_false]
    exact descGo_upd (σ := σ) dev m hm rest hne hnd hnf d hw hg
  | f :: pre, hp, fl, d, hw, hg, _ => by
    have hgf : GoodAt σ dev f d := hg.1
    have hndf := hgf.notDescent
    have hpp : NoDescent pre := fun g hg' => hp g (List.mem_cons_of_mem _ hg')
    obtain ⟨g, r, hgr⟩ : ∃ g r, pre ++ .descent :: rest = g :: r := by
      cases pre with
      | nil => exact ⟨_, _, rfl⟩
      | cons g' r' => exact ⟨g', r' ++ .descent :: rest, rfl⟩
    have ih : ∀ l c, child? l d = some c → ([l], c) ∈ selG σ f d →
        modF false dev false m (g :: r) false c = ⟨updAll m.eff (locsG σ (g :: r) c) c, .go⟩ := by
      intro l c hc hs
      have := modF_preD dev hsib m hm rest hne hnd hnf pre hpp false c (WF_child l d c hw hc) (hg.2 ([l], c) hs) (fun _ => rfl)
      rw [hgr] at this
      exact this
    have hsc : ∀ c, isContainer c = false → locsG σ (g :: r) c = [] := by
      intro c hc
      rw [← hgr]; exact locs_tail_scalar (σ := σ) rest hne hnd pre hpp c hc
    rw [List.cons_append, hgr]
    have hok := modSteps_ok (σ := σ) dev f d (WF_top d hw) hgf
    have e1 : modF false dev false m (f :: g :: r) fl d =
        visitD (contOnly f) dev.descentSiblings (modF false dev false m (g :: r)) false (modSteps dev f d) d := by
      cases f <;> simp_all [modF, isDescentF]
    rw [e1, hsib, visitD_nosib]
    have hst := visitD_st (contOnly f) false (fun _ => modF false dev false m (g :: r) false)
      (fun _ c => modF_st dev m (g :: r) false c) (modSteps dev f d) false d
    obtain ⟨h1, _⟩ := visitD_go (contOnly f) false _ (fun _ _ => rfl) (modSteps dev f d) false d hok.nodup (WF_top d hw) hst
    rw [R_eta _ hst, h1]
    congr 1
    rw [updAll_eq, hasNil_locs_cons (σ := σ) f (g :: r) d hok.shape]
    simp only [Bool.false_eq_true, if_false]
    apply mapKids_congr d (WF_top d hw)
    intro l c hc
    by_cases hl : l ∈ modSteps dev f d
    · have hsel := (hok.mem l c hc).1 hl
      rw [updAll_congr m.eff c _ _ (strip_locs_sel (σ := σ) f (g :: r) d hok.shape l c hc hsel)]
      by_cases hpass : pass (contOnly f) c = true
      · simp only [hl, hpass, and_self, if_true]
        rw [ih l c hc hsel]
      · have hscal : isContainer c = false := by
          simp only [pass, Bool.not_eq_true', Bool.not_eq_false, Bool.and_eq_true, Bool.not_eq_true'] at hpass
          exact hpass.2
        simp only [hl, hpass, and_false, Bool.false_eq_true, if_false]
        rw [hsc c hscal, updAll_nil]
    · have hsel : ([l], c) ∉ selG σ f d := fun h => hl ((hok.mem l c hc).2 h)
      rw [updAll_congr m.eff c _ _ (strip_locs_not (σ := σ) f (g :: r) d hok.shape l c hc hsel), updAll_nil]
      simp [hl]

theorem last_not_descent (pre rest : List Frag) (hne : rest ≠ []) (hnd : NoDescent rest) :
    isDescent (pre ++ .descent :: rest).getLast? = false := by
  have hl : (pre ++ .descent :: rest).getLast? = rest.getLast? := by
    rw [List.getLast?_append]
    cases rest with
    | nil => exact absurd rfl hne
    | cons g r =>
      simp only [List.getLast?_cons_cons]
      cases h : (g :: r).getLast? with
      | none => simp at h
      | some z => rfl
  rw [hl]
  exact NoDescent.last hnd

/-- MODIFY THROUGH A DESCENT (all matches, simple data): for a path `pre ++ [..] ++ rest` with ONE recursive descent,
`rest` non-empty and free of filters and descents, the returned tree is the input with the modifier applied at exactly
the locations the path selects (`JPath.eval` includes the descent), inner locations first -/
theorem modifyM_descent_eq (dev : Dev) (hsib : dev.descentSiblings = false) (m : Modifier) (hm : ∀ c, WF c → WF (m.eff c))
    (pre rest : List Frag) (hp : NoDescent pre) (hne : rest ≠ []) (hnd : NoDescent rest) (hnf : NoFilter rest) (d : JV) (hw : WF d)
    (hg : GoodPre σ dev rest pre d) :
    modifyM false dev false m (pre ++ .descent :: rest) d = .ok (updAll m.eff (locsG σ (pre ++ .descent :: rest) d) d) := by
  have hwrap : WF (.arr [d]) := by simp [WF, WFL, hw]
  have hsel0 : selG σ (.nth 0) (.arr [d]) = [([.idx 0], d)] := by
    simp [selG, sel, selMember, absIdx]
  have hgp : GoodPre σ dev rest (.nth 0 :: pre) (.arr [d]) := by
    refine ⟨trivial, ?_⟩
    intro m' hm'
    rw [hsel0] at hm'
    simp only [List.mem_singleton] at hm'
    subst hm'
    exact hg
  have hndw : NoDescent (.nth 0 :: pre) := by
    intro f hf
    rcases List.mem_cons.1 hf with rfl | hf
    · rfl
    · exact hp f hf
  have hmain := modF_preD (σ := σ) dev hsib m hm rest hne hnd hnf (.nth 0 :: pre) hndw false (.arr [d]) hwrap hgp (fun h => by cases h)
  have hshape : Shape σ (.nth 0) (.arr [d]) := by
    intro m' hm'
    rw [hsel0] at hm'
    simp only [List.mem_singleton] at hm'
    subst hm'
    exact ⟨.idx 0, rfl, rfl⟩
  have hres : updAll m.eff (locsG σ (.nth 0 :: (pre ++ .descent :: rest)) (.arr [d])) (.arr [d]) =
      .arr [updAll m.eff (locsG σ (pre ++ .descent :: rest) d) d] := by
    rw [updAll_eq, hasNil_locs_cons (σ := σ) (.nth 0) _ (.arr [d]) hshape]
    simp only [Bool.false_eq_true, if_false, mapKids, mapArr]
    rw [updAll_congr m.eff d _ _ (strip_locs_sel (σ := σ) (.nth 0) _ (.arr [d]) hshape (.idx 0) d rfl (by rw [hsel0]; simp))]
  have hx : (pre ++ .descent :: rest).isEmpty = false := by cases pre <;> rfl
  simp only [List.cons_append] at hmain
  simp only [modifyM, modifyCore, last_not_descent pre rest hne hnd, Bool.false_eq_true, if_false, Bool.false_and, hx,
    hmain, hres, unwrap]

/-! ## hit at the outermost selected locations -/

/-- a selected location that has no selected location above it holds the modifier's result — on the subtree as it is after
the edits inside it (nested selections occur below a descent only) -/
theorem updAll_hit_outer (m : JV → JV) : ∀ (p : Path) (T : List Path) (d c : JV), p ∈ T →
    (∀ p' ∈ T, p'.isPrefixOf p = true → p' = p) → valAt p d = some c → ∃ c', valAt p (updAll m T d) = some (m c')
  | [], T, d, c, hp, _, _ => by
    rw [updAll_eq, (hasNil_iff T).2 hp]
    exact ⟨_, rfl⟩
  | l :: q, T, d, c, hp, hout, hv => by
    have hn : hasNil T = false := by
      cases h : hasNil T with
      | false => rfl
      | true =>
        have := hout [] ((hasNil_iff T).1 h) (by simp [List.isPrefixOf])
        cases this
    rw [valAt_cons] at hv
    cases hc : child? l d with
    | none => rw [hc] at hv; cases hv
    | some c0 =>
      rw [hc] at hv
      simp only [Option.bind_some] at hv
      rw [updAll_eq, hn]
      simp only [Bool.false_eq_true, if_false, valAt_cons, child?_mapKids, hc, Option.map_some, Option.bind_some]
      apply updAll_hit_outer m q (strip l T) c0 c ((mem_strip l T q).2 hp) _ hv
      intro p' hp' hpre
      have := hout (l :: p') ((mem_strip l T p').1 hp') (by simpa [isPrefixOf_cons_cons] using hpre)
      simpa using this

/-! ## Remove through a descent: the remover at the selected parents -/

theorem WFL_dropIdx (p : Nat → Bool) : ∀ (xs : List JV) (o : Nat), WFL xs → WFL (dropIdx p o xs)
  | [], _, _ => trivial
  | x :: r, o, h => by
    simp only [WFL] at h
    simp only [dropIdx]
    split
    · exact WFL_dropIdx p r (o + 1) h.2
    · exact ⟨h.1, WFL_dropIdx p r (o + 1) h.2⟩

theorem WFK_filter (q : Bytes × JV → Bool) : ∀ (kvs : List (Bytes × JV)), WFK kvs → WFK (kvs.filter q)
  | [], _ => trivial
  | kv :: r, h => by
    simp only [WFK] at h
    simp only [List.filter]
    split
    · exact ⟨h.1, WFK_filter q r h.2⟩
    · exact WFK_filter q r h.2

/-- what the specification removes from a well-formed container is well-formed -/
theorem WF_remOf (f : Frag) (hf : isDescentF f = false) (c : JV) (hw : WF c) : WF (remOf σ f c) := by
  have hs := Shape_of (σ := σ) f c hf (WF_top c hw)
  cases c with
  | arr xs => rw [remOf_arr f xs hs]; exact WFL_dropIdx _ xs 0 (by simpa [WF] using hw)
  | obj kvs =>
    rw [remOf_obj f kvs hs]
    simp only [WF] at hw ⊢
    refine ⟨?_, WFK_filter _ kvs hw.2⟩
    exact List.Nodup.sublist (List.Sublist.map _ List.filter_sublist) hw.1
  | _ => rw [remOf_scalar (σ := σ) f _ hf rfl]; exact hw

/-- REMOVE THROUGH A DESCENT (all matches, simple data): for `pre ++ [..] ++ rest ++ [f]` with `rest` non-empty and free of
filters and descents, the returned tree is the input with the last fragment's remover applied — inner locations first — at
exactly the PARENTS the path without `f` selects; and on every well-formed container that remover removes exactly what `f`
selects there (`removeAllOf_eff`: `m.eff c = remAll (what f selects in c) c`) -/
theorem removeM_descent_eq (dev : Dev) (hsib : dev.descentSiblings = false) (pre rest : List Frag) (f : Frag) (m : Modifier)
    (hm : removeAllOf dev f = some m) (hf : isDescentF f = false) (hrg : ∀ c, RemGood σ dev f c)
    (hp : NoDescent pre) (hne : rest ≠ []) (hnd : NoDescent rest) (hnf : NoFilter rest) (d : JV) (hw : WF d)
    (hg : GoodPre σ dev rest pre d) :
    removeM false dev false (pre ++ .descent :: rest ++ [f]) d = .ok (updAll m.eff (locsG σ (pre ++ .descent :: rest) d) d) := by
  have hmw : ∀ c, WF c → WF (m.eff c) := by
    intro c hc
    rw [removeAllOf_eff (σ := σ) dev f m hm c (WF_top c hc) (hrg c)]
    exact WF_remOf f hf c hc
  simp only [removeM, List.getLast?_append, List.getLast?_singleton, Option.some_or, hm, Bool.false_eq_true, if_false,
    List.dropLast_concat]
  exact modifyM_descent_eq (σ := σ) dev hsib m hmw pre rest hp hne hnd hnf d hw hg

end OjgVerif.JPMut
