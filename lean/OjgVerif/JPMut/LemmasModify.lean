import OjgVerif.JPMut.LemmasSteps
/-! # `Expr.modify` edits exactly the locations the path selects (paths without a descent)

`modF_eq`: on well-formed data, for a path without descent whose unions list no member twice and whose
slices — in the reading of the code — select the indexes of the specification on the arrays they meet
(`GoodAt σ`), the traversal of modify.go ends normally and leaves `updAll m.eff (locsG σ x d) d`: the tree
edited with the modifier at exactly the locations the path selects. -/
namespace OjgVerif.JPMut
open OjgVerif OjgVerif.JPath

variable {σ : SliceFn} [NodupSlice σ]

/-! ## the selected locations, one level at a time -/

theorem locs_nil (d : JV) : locsG σ [] d = [[]] := rfl

theorem mem_locs_cons (f : Frag) (rest : List Frag) (d : JV) (p : Path) :
    p ∈ locsG σ (f :: rest) d ↔ ∃ m ∈ selG σ f d, ∃ q ∈ locsG σ rest m.2, p = m.1 ++ q := by
  simp only [locsG, evalG, List.mem_map, List.mem_flatMap]
  constructor
  · rintro ⟨a, ⟨m, hm, b, hb, rfl⟩, rfl⟩
    exact ⟨m, hm, b.1, ⟨b, hb, rfl⟩, rfl⟩
  · rintro ⟨m, hm, q, ⟨b, hb, rfl⟩, rfl⟩
    exact ⟨(m.1 ++ b.1, b.2), ⟨m, hm, b, hb, rfl⟩, rfl⟩

/-- everything the fragment selects in `d` is a member of `d` -/
def Shape (σ : SliceFn) (f : Frag) (d : JV) : Prop := ∀ m ∈ selG σ f d, ∃ l, m.1 = [l] ∧ child? l d = some m.2

theorem hasNil_locs_cons (f : Frag) (rest : List Frag) (d : JV) (hs : Shape σ f d) : hasNil (locsG σ (f :: rest) d) = false := by
  cases h : hasNil (locsG σ (f :: rest) d) with
  | false => rfl
  | true =>
    obtain ⟨m, hm, q, _, e⟩ := (mem_locs_cons (σ := σ) f rest d []).1 ((hasNil_iff _).1 h)
    obtain ⟨l, hl, _⟩ := hs m hm
    rw [hl] at e
    cases e

/-- below a selected member: the locations the rest of the path selects in it -/
theorem strip_locs_sel (f : Frag) (rest : List Frag) (d : JV) (hs : Shape σ f d) (l : Loc) (c : JV)
    (hc : child? l d = some c) (hsel : ([l], c) ∈ selG σ f d) :
    SameSet (strip l (locsG σ (f :: rest) d)) (locsG σ rest c) := by
  intro q
  rw [mem_strip, mem_locs_cons]
  constructor
  · rintro ⟨m, hm, q', hq', e⟩
    obtain ⟨l', hl', hc'⟩ := hs m hm
    rw [hl'] at e
    simp only [List.singleton_append, List.cons.injEq] at e
    obtain ⟨rfl, rfl⟩ := e
    rw [hc] at hc'
    injection hc' with hc'
    rw [hc']
    exact hq'
  · intro hq
    exact ⟨([l], c), hsel, q, hq, rfl⟩

/-- below a member that is not selected: nothing -/
theorem strip_locs_not (f : Frag) (rest : List Frag) (d : JV) (hs : Shape σ f d) (l : Loc) (c : JV)
    (hc : child? l d = some c) (hsel : ([l], c) ∉ selG σ f d) :
    SameSet (strip l (locsG σ (f :: rest) d)) [] := by
  intro q
  rw [mem_strip, mem_locs_cons]
  constructor
  · rintro ⟨m, hm, q', _, e⟩
    obtain ⟨l', hl', hc'⟩ := hs m hm
    rw [hl'] at e
    simp only [List.singleton_append, List.cons.injEq] at e
    obtain ⟨rfl, rfl⟩ := e
    rw [hc] at hc'
    injection hc' with hc'
    exact absurd (by rw [hc']; cases m; simp_all) hsel
  · intro h; cases h

def isDescentF : Frag → Bool
  | .descent => true
  | _ => false

theorem selMember_scalar (c : JV) (hc : isContainer c = false) (mb : Member) : selMember c mb = [] := by
  cases mb <;> cases c <;> simp_all [selMember, isContainer]

theorem sel_scalar (f : Frag) (c : JV) (hf : isDescentF f = false) (hc : isContainer c = false) : selG σ f c = [] := by
  cases f with
  | descent => simp [isDescentF] at hf
  | child k => cases c <;> simp_all [selG, sel, selMember, isContainer]
  | nth i => cases c <;> simp_all [selG, sel, selMember, isContainer]
  | wild => cases c <;> simp_all [selG, sel, members, isContainer]
  | union ms =>
    simp only [selG, sel]
    induction ms with
    | nil => rfl
    | cons mb r ih => simp only [List.flatMap_cons, selMember_scalar c hc mb, List.nil_append]; exact ih rfl
  | slice s e t => cases c <;> simp_all [selG, sel, isContainer]
  | filter p => cases c <;> simp_all [selG, sel, members, isContainer]

theorem locs_scalar (g : Frag) (r : List Frag) (c : JV) (hg : isDescentF g = false) (hc : isContainer c = false) :
    locsG σ (g :: r) c = [] := by
  simp [locsG, evalG, sel_scalar (σ := σ) g c hg hc]

theorem updAll_here (m : JV → JV) (c : JV) : updAll m [[]] c = m c := by
  rw [updAll_eq]
  have : hasNil [[]] = true := rfl
  simp only [this, if_true]
  have hs : ∀ l, strip l [[]] = [] := fun _ => rfl
  simp only [hs, updAll_nil, mapKids_id]

/-! ## `modSeq`: the last fragment -/

theorem modSeq_pure (dev : Dev) (m : Modifier) : ∀ (steps : List Loc) (d : JV),
    modSeq false dev false m false steps d = visitD false false (fun _ c => ⟨m.eff c, .go⟩) false steps d
  | [], d => rfl
  | l :: ls, d => by
    simp only [modSeq, visitD]
    cases hc : child? l d with
    | none => exact modSeq_pure dev m ls d
    | some c =>
      simp only [Bool.false_and, Bool.false_eq_true, if_false, ap, Modifier.eff]
      by_cases hm : (m c).2 = true
      · simp only [hm, if_true, Bool.false_and, Bool.false_eq_true, if_false]
        rw [modSeq_pure dev m ls _]
        -- the descent marker is ignored by a continuation that does not look at it
        have : ∀ (fl fl' : Bool) (ls : List Loc) (d : JV),
            visitD false false (fun _ c => (⟨m.eff c, .go⟩ : R)) fl ls d = visitD false false (fun _ c => ⟨m.eff c, .go⟩) fl' ls d := by
          intro fl fl' ls
          induction ls generalizing fl fl' with
          | nil => intro d; rfl
          | cons l ls ih =>
            intro d
            simp only [visitD]
            cases child? l d with
            | none => exact ih fl fl' d
            | some c => simp only [Bool.false_and, Bool.false_eq_true, if_false]; exact ih _ _ _
        exact this _ _ ls _
      · have hm' : (m c).2 = false := by simpa using hm
        simp only [hm', Bool.false_eq_true, if_false]
        rw [putChild_self l d c hc, modSeq_pure dev m ls d]
        have : ∀ (fl fl' : Bool) (ls : List Loc) (d : JV),
            visitD false false (fun _ c => (⟨m.eff c, .go⟩ : R)) fl ls d = visitD false false (fun _ c => ⟨m.eff c, .go⟩) fl' ls d := by
          intro fl fl' ls
          induction ls generalizing fl fl' with
          | nil => intro d; rfl
          | cons l ls ih =>
            intro d
            simp only [visitD]
            cases child? l d with
            | none => exact ih fl fl' d
            | some c => simp only [Bool.false_and, Bool.false_eq_true, if_false]; exact ih _ _ _
        exact this _ _ ls _

/-- the last fragment: the modifier on exactly the selected members -/
theorem modSeq_eq (dev : Dev) (m : Modifier) (steps : List Loc) (f : Frag) (d : JV) (hw : TopNodup d)
    (hok : StepsOK σ steps f d) :
    modSeq false dev false m false steps d = ⟨updAll m.eff (locsG σ [f] d) d, .go⟩ := by
  rw [modSeq_pure]
  have hst := visitD_st false false (fun _ c => (⟨m.eff c, .go⟩ : R)) (fun _ _ => rfl) steps false d
  obtain ⟨h1, _⟩ := visitD_go false false (fun _ c => (⟨m.eff c, .go⟩ : R)) (fun _ _ => rfl) steps false d hok.nodup hw hst
  have hd : (visitD false false (fun _ c => (⟨m.eff c, .go⟩ : R)) false steps d) =
      ⟨(visitD false false (fun _ c => (⟨m.eff c, .go⟩ : R)) false steps d).d, .go⟩ := by
    cases hv : visitD false false (fun _ c => (⟨m.eff c, .go⟩ : R)) false steps d with
    | mk dd ss => rw [hv] at hst; simp only at hst; rw [hst]
  rw [hd, h1]
  congr 1
  rw [updAll_eq, hasNil_locs_cons (σ := σ) f [] d hok.shape]
  simp only [Bool.false_eq_true, if_false]
  apply mapKids_congr d hw
  intro l c hc
  by_cases hl : l ∈ steps
  · have hsel := (hok.mem l c hc).1 hl
    rw [updAll_congr m.eff c _ _ (strip_locs_sel (σ := σ) f [] d hok.shape l c hc hsel), locs_nil, updAll_here]
    simp [hl, pass]
  · have hsel : ([l], c) ∉ selG σ f d := fun h => hl ((hok.mem l c hc).2 h)
    rw [updAll_congr m.eff c _ _ (strip_locs_not (σ := σ) f [] d hok.shape l c hc hsel), updAll_nil]
    simp [hl]

/-! ## the hypotheses of the main theorems -/

/-- the fragment behaves in modify.go as in the specification on the value `e`: a union lists no member
of `e` twice; a slice — as modify.go reads it — selects in the array `e` the indexes the specification
selects; a filter does not meet the reflect branch that deletes on null; no descent -/
def GoodAt (σ : SliceFn) (dev : Dev) (f : Frag) (e : JV) : Prop :=
  match f with
  | .child _ => True
  | .nth _ => True
  | .wild => True
  | .union ms => (unionLocs ms e).Nodup
  | .slice s e' t => ∀ xs, e = .arr xs → modIdx dev xs.length s e' t = σ xs.length s e' t
  | .filter _ => dev.filterMapNil = false ∨ ∀ kvs, e ≠ .obj kvs
  | .descent => False

/-- every fragment of the path is good on the values it is applied to -/
def GoodPath (σ : SliceFn) (dev : Dev) : List Frag → JV → Prop
  | [], _ => True
  | f :: r, d => GoodAt σ dev f d ∧ ∀ m ∈ selG σ f d, GoodPath σ dev r m.2

/-- the path has no recursive descent -/
def NoDescent (x : List Frag) : Prop := ∀ f ∈ x, isDescentF f = false

theorem GoodAt.notDescent {dev : Dev} {f : Frag} {e : JV} (h : GoodAt σ dev f e) : isDescentF f = false := by
  cases f <;> simp_all [GoodAt, isDescentF]

theorem stepsOK_sortedKeys (kvs : List (Bytes × JV)) (hw : (keysOf kvs).Nodup) :
    StepsOK σ ((sortedKeys kvs).map Loc.key) .wild (.obj kvs) := by
  have h := stepsOK_wild (σ := σ) (.obj kvs) hw
  refine h.perm (nodup_map_inj Loc.key (fun a b hab => by injection hab) (sortedKeys_nodup kvs hw)) ?_
  intro l
  simp only [List.mem_map, mem_keyLocs]
  constructor
  · rintro ⟨k, hk, rfl⟩; exact ⟨k, (mem_sortedKeys k kvs).1 hk, rfl⟩
  · rintro ⟨k, hk, rfl⟩; exact ⟨k, (mem_sortedKeys k kvs).2 hk, rfl⟩

theorem stepsOK_scalar_nil (f : Frag) (d : JV) (hf : isDescentF f = false) (hd : isContainer d = false) : StepsOK σ [] f d := by
  refine ⟨List.nodup_nil, ?_, ?_⟩
  · intro m hm; rw [sel_scalar (σ := σ) f d hf hd] at hm; cases hm
  · intro l c hc; rw [child?_scalar l d hd] at hc; cases hc

/-- the members the last fragment of modify.go applies the modifier to are the selected ones -/
theorem modLastSteps_ok (dev : Dev) (f : Frag) (d : JV) (hw : TopNodup d) (hg : GoodAt σ dev f d) :
    StepsOK σ (modLastSteps dev f d) f d := by
  cases f with
  | child k => exact stepsOK_child (σ := σ) k d
  | nth i => exact stepsOK_nth (σ := σ) i d
  | wild =>
    have h := stepsOK_wild (σ := σ) d hw
    cases d <;> exact h
  | union ms => exact stepsOK_union (σ := σ) ms d hg
  | slice s e t =>
    have h := stepsOK_slice (σ := σ) s e t d (modIdx dev · s e t) (fun xs h => hg xs h) (fun xs _ => NodupSlice.nodup _ s e t)
    cases d <;> exact h
  | filter p =>
    cases d with
    | arr xs => exact stepsOK_filter (σ := σ) p _ hw _ (stepsOK_wild (σ := σ) (.arr xs) hw)
    | obj kvs => exact stepsOK_filter (σ := σ) p _ hw _ (stepsOK_sortedKeys (σ := σ) kvs hw)
    | _ => exact stepsOK_scalar_nil (σ := σ) _ _ rfl rfl
  | descent => cases hg

/-- the members an inner fragment of modify.go hands on are the selected ones -/
theorem modSteps_ok (dev : Dev) (f : Frag) (d : JV) (hw : TopNodup d) (hg : GoodAt σ dev f d) :
    StepsOK σ (modSteps dev f d) f d := by
  cases f with
  | child k => exact stepsOK_child (σ := σ) k d
  | nth i => exact stepsOK_nth (σ := σ) i d
  | wild =>
    have h := stepsOK_wild (σ := σ) d hw
    cases d with
    | arr xs => exact h.reverse
    | obj kvs => exact h.reverse
    | _ => exact h
  | union ms => exact (stepsOK_union (σ := σ) ms d hg).reverse
  | slice s e t =>
    have h := stepsOK_slice (σ := σ) s e t d (modIdx dev · s e t) (fun xs h => hg xs h) (fun xs _ => NodupSlice.nodup _ s e t)
    cases d with
    | arr xs => exact h.reverse
    | _ => exact h
  | filter p =>
    cases d with
    | arr xs => exact stepsOK_filter (σ := σ) p _ hw _ (stepsOK_wild (σ := σ) (.arr xs) hw)
    | obj kvs => exact stepsOK_filter (σ := σ) p _ hw _ (stepsOK_wild (σ := σ) (.obj kvs) hw)
    | _ => exact stepsOK_scalar_nil (σ := σ) _ _ rfl rfl
  | descent => cases hg

/-! ## `modify` never stops early when it is not a One form on simple data -/

theorem modSeq_st (dev : Dev) (m : Modifier) (nd : Bool) : ∀ (steps : List Loc) (d : JV),
    (modSeq false dev false m nd steps d).st = .go
  | [], _ => rfl
  | l :: ls, d => by
    simp only [modSeq]
    cases child? l d with
    | none => exact modSeq_st dev m nd ls d
    | some c =>
      simp only [ap, Bool.false_and, Bool.false_eq_true, if_false]
      by_cases hm : (m c).2 = true
      · simp only [hm, if_true]; exact modSeq_st dev m nd ls _
      · simp only [hm, if_false]; exact modSeq_st dev m nd ls d

mutual
  theorem descGo_st (k : JV → R) (hk : ∀ c, (k c).st = .go) : ∀ (d : JV), (descGo k d).st = .go
    | .arr xs => by simp [descGo, descArr_st k hk xs, hk]
    | .obj kvs => by simp [descGo, descObj_st k hk kvs, hk]
    | .null => rfl
    | .bool _ => rfl
    | .int _ => rfl
    | .flt _ => rfl
    | .big _ => rfl
    | .num _ => rfl
    | .str _ => rfl
  theorem descArr_st (k : JV → R) (hk : ∀ c, (k c).st = .go) : ∀ (xs : List JV), (descArr k xs).st = .go
    | [] => rfl
    | x :: r => by simp [descArr, descGo_st k hk x, descArr_st k hk r]
  theorem descObj_st (k : JV → R) (hk : ∀ c, (k c).st = .go) : ∀ (kvs : List (Bytes × JV)), (descObj k kvs).st = .go
    | [] => rfl
    | m :: r => by simp [descObj, descGo_st k hk m.2, descObj_st k hk r]
end

theorem modF_st (dev : Dev) (m : Modifier) : ∀ (x : List Frag) (fl : Bool) (d : JV),
    (modF false dev false m x fl d).st = .go
  | [], _, _ => rfl
  | f :: rest, fl, d => by
    have ih := modF_st dev m rest
    cases f with
    | descent =>
      simp only [modF]
      by_cases h1 : rest.isEmpty = true
      · simp [h1]
      · by_cases h2 : fl = true
        · simp [h1, h2, ih]
        · simp only [h1, h2, Bool.false_eq_true, if_false]
          exact descGo_st _ (fun c => ih false c) d
    | child k =>
      simp only [modF]
      by_cases h1 : rest.isEmpty = true
      · simp only [h1, if_true, modLast]; split <;> exact modSeq_st dev m _ _ _
      · simp only [h1, Bool.false_eq_true, if_false]; exact visitD_st _ _ _ ih _ _ _
    | nth i =>
      simp only [modF]
      by_cases h1 : rest.isEmpty = true
      · simp only [h1, if_true, modLast]; split <;> exact modSeq_st dev m _ _ _
      · simp only [h1, Bool.false_eq_true, if_false]; exact visitD_st _ _ _ ih _ _ _
    | wild =>
      simp only [modF]
      by_cases h1 : rest.isEmpty = true
      · simp only [h1, if_true, modLast]; split <;> exact modSeq_st dev m _ _ _
      · simp only [h1, Bool.false_eq_true, if_false]; exact visitD_st _ _ _ ih _ _ _
    | union ms =>
      simp only [modF]
      by_cases h1 : rest.isEmpty = true
      · simp only [h1, if_true, modLast]; split <;> exact modSeq_st dev m _ _ _
      · simp only [h1, Bool.false_eq_true, if_false]; exact visitD_st _ _ _ ih _ _ _
    | slice s e t =>
      simp only [modF]
      by_cases h1 : rest.isEmpty = true
      · simp only [h1, if_true, modLast]; split <;> exact modSeq_st dev m _ _ _
      · simp only [h1, Bool.false_eq_true, if_false]; exact visitD_st _ _ _ ih _ _ _
    | filter p =>
      simp only [modF]
      by_cases h1 : rest.isEmpty = true
      · simp only [h1, if_true, modLast]; split <;> exact modSeq_st dev m _ _ _
      · simp only [h1, Bool.false_eq_true, if_false]; exact visitD_st _ _ _ ih _ _ _

/-- a fragment that is not a descent does not look at the descent marker -/
theorem modF_fl (gen : Bool) (dev : Dev) (one : Bool) (m : Modifier) (g : Frag) (r : List Frag) (hg : isDescentF g = false)
    (fl : Bool) (c : JV) : modF gen dev one m (g :: r) fl c = modF gen dev one m (g :: r) false c := by
  cases g <;> simp_all [modF, isDescentF]

/-! ## the main theorem for `modify` -/

theorem R_eta (r : R) (h : r.st = .go) : r = ⟨r.d, .go⟩ := by
  cases r with
  | mk d s => simp only at h; rw [h]

/-- modify.go, all matches, simple data: the tree edited with the modifier at exactly the selected locations -/
theorem modF_eq (dev : Dev) (m : Modifier) : ∀ (x : List Frag), x ≠ [] → NoDescent x → ∀ (fl : Bool) (d : JV), WF d →
    GoodPath σ dev x d → modF false dev false m x fl d = ⟨updAll m.eff (locsG σ x d) d, .go⟩
  | [], h, _, _, _, _, _ => absurd rfl h
  | [f], _, _, fl, d, hw, hg => by
    have hgf : GoodAt σ dev f d := hg.1
    have hnd := hgf.notDescent
    have hok := modLastSteps_ok (σ := σ) dev f d (WF_top d hw) hgf
    have e1 : modF false dev false m [f] fl d = modLast false dev false m f d := by
      cases f <;> simp_all [modF, isDescentF]
    rw [e1]
    simp only [modLast]
    by_cases hfo : isFilterOnObj f d = true
    · have hnil : dev.filterMapNil = false := by
        cases f with
        | filter p =>
          cases d with
          | obj kvs =>
            rcases hgf with h | h
            · exact h
            · exact absurd rfl (h kvs)
          | _ => simp [isFilterOnObj] at hfo
        | _ => simp [isFilterOnObj] at hfo
      simp only [hfo, if_true, hnil]
      exact modSeq_eq dev m _ f d (WF_top d hw) hok
    · simp only [hfo, Bool.false_eq_true, if_false]
      exact modSeq_eq dev m _ f d (WF_top d hw) hok
  | f :: g :: r, _, hnd', fl, d, hw, hg => by
    have hgf : GoodAt σ dev f d := hg.1
    have hnd := hgf.notDescent
    have hndg : isDescentF g = false := hnd' g (by simp)
    have hok := modSteps_ok (σ := σ) dev f d (WF_top d hw) hgf
    have e1 : modF false dev false m (f :: g :: r) fl d =
        visitD (contOnly f) dev.descentSiblings (modF false dev false m (g :: r)) false (modSteps dev f d) d := by
      cases f <;> simp_all [modF, isDescentF]
    rw [e1]
    have hk : ∀ fl c, modF false dev false m (g :: r) fl c = modF false dev false m (g :: r) false c :=
      fun fl c => modF_fl false dev false m g r hndg fl c
    have hst := visitD_st (contOnly f) dev.descentSiblings (modF false dev false m (g :: r))
      (fun fl c => modF_st dev m (g :: r) fl c) (modSteps dev f d) false d
    obtain ⟨h1, _⟩ := visitD_go (contOnly f) dev.descentSiblings _ hk (modSteps dev f d) false d hok.nodup (WF_top d hw) hst
    rw [R_eta _ hst, h1]
    congr 1
    rw [updAll_eq, hasNil_locs_cons (σ := σ) f (g :: r) d hok.shape]
    simp only [Bool.false_eq_true, if_false]
    apply mapKids_congr d (WF_top d hw)
    intro l c hc
    by_cases hl : l ∈ modSteps dev f d
    · have hsel := (hok.mem l c hc).1 hl
      rw [updAll_congr m.eff c _ _ (strip_locs_sel (σ := σ) f (g :: r) d hok.shape l c hc hsel)]
      by_cases hp : pass (contOnly f) c = true
      · simp only [hl, hp, and_self, if_true]
        rw [modF_eq dev m (g :: r) (by simp) (fun f' hf' => hnd' f' (List.mem_cons_of_mem _ hf')) false c
          (WF_child l d c hw hc) (hg.2 ([l], c) hsel)]
      · have hsc : isContainer c = false := by
          simp only [pass, Bool.not_eq_true', Bool.not_eq_false, Bool.and_eq_true, Bool.not_eq_true'] at hp
          exact hp.2
        simp only [hl, hp, and_false, Bool.false_eq_true, if_false]
        rw [locs_scalar (σ := σ) g r c hndg hsc, updAll_nil]
    · have hsel : ([l], c) ∉ selG σ f d := fun h => hl ((hok.mem l c hc).2 h)
      rw [updAll_congr m.eff c _ _ (strip_locs_not (σ := σ) f (g :: r) d hok.shape l c hc hsel), updAll_nil]
      simp [hl]

theorem NoDescent.last {x : List Frag} (h : NoDescent x) : isDescent x.getLast? = false := by
  cases hl : x.getLast? with
  | none => rfl
  | some f =>
    have := h f (List.mem_of_getLast? hl)
    cases f <;> simp_all [isDescent, isDescentF]

/-- Modify on simple data, a path without descent: the returned tree is the input edited with the modifier
at exactly the selected locations -/
theorem modifyM_eq (dev : Dev) (m : Modifier) (x : List Frag) (d : JV) (hnd : NoDescent x) (hw : WF d)
    (hg : GoodPath σ dev x d) (hroot : ¬ (x = [] ∧ dev.rootScalar = true ∧ isContainer d = false)) :
    modifyM false dev false m x d = .ok (updAll m.eff (locsG σ x d) d) := by
  have hwrap : WF (.arr [d]) := by simp [WF, WFL, hw]
  have hsel0 : selG σ (.nth 0) (.arr [d]) = [([.idx 0], d)] := by
    simp [selG, sel, selMember, absIdx]
  have hgp : GoodPath σ dev (.nth 0 :: x) (.arr [d]) := by
    refine ⟨trivial, ?_⟩
    intro m' hm'
    rw [hsel0] at hm'
    simp only [List.mem_singleton] at hm'
    subst hm'
    exact hg
  have hndw : NoDescent (.nth 0 :: x) := by
    intro f hf
    rcases List.mem_cons.1 hf with rfl | hf
    · rfl
    · exact hnd f hf
  have hmain := modF_eq dev m (.nth 0 :: x) (by simp) hndw false (.arr [d]) hwrap hgp
  have hshape : Shape σ (.nth 0) (.arr [d]) := by
    intro m' hm'
    rw [hsel0] at hm'
    simp only [List.mem_singleton] at hm'
    subst hm'
    exact ⟨.idx 0, rfl, rfl⟩
  have hres : updAll m.eff (locsG σ (.nth 0 :: x) (.arr [d])) (.arr [d]) = .arr [updAll m.eff (locsG σ x d) d] := by
    rw [updAll_eq, hasNil_locs_cons (σ := σ) (.nth 0) x (.arr [d]) hshape]
    simp only [Bool.false_eq_true, if_false, mapKids, mapArr]
    rw [updAll_congr m.eff d _ _ (strip_locs_sel (σ := σ) (.nth 0) x (.arr [d]) hshape (.idx 0) d rfl (by rw [hsel0]; simp))]
  simp only [modifyM, modifyCore, hnd.last, Bool.false_eq_true, if_false, Bool.false_and]
  have hr : (x.isEmpty && dev.rootScalar && !isContainer d) = false := by
    cases hx : x.isEmpty <;> cases hr : dev.rootScalar <;> cases hc : isContainer d <;> simp_all
  simp only [hr, Bool.false_eq_true, if_false, hmain, hres, unwrap]

end OjgVerif.JPMut
