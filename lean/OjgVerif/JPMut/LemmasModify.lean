import OjgVerif.JPMut.LemmasSteps
/-! # `Expr.modify` edits exactly the locations the path selects (paths without a descent)

`modF_eq`: on well-formed data, for a path without descent whose unions list no member twice and whose
slices — in the reading of the code — select the indexes of the specification on the arrays they meet
(`GoodAt`), the traversal of modify.go ends normally and leaves `updAll m.eff (locs x d) d`: the tree
edited with the modifier at exactly the locations the path selects. -/
namespace OjgVerif.JPMut
open OjgVerif OjgVerif.JPath

/-! ## the selected locations, one level at a time -/

theorem locs_nil (d : JV) : locs [] d = [[]] := rfl

theorem mem_locs_cons (f : Frag) (rest : List Frag) (d : JV) (p : Path) :
    p ∈ locs (f :: rest) d ↔ ∃ m ∈ sel f d, ∃ q ∈ locs rest m.2, p = m.1 ++ q := by
  simp only [locs, eval, List.mem_map, List.mem_flatMap]
  constructor
  · rintro ⟨a, ⟨m, hm, b, hb, rfl⟩, rfl⟩
    exact ⟨m, hm, b.1, ⟨b, hb, rfl⟩, rfl⟩
  · rintro ⟨m, hm, q, ⟨b, hb, rfl⟩, rfl⟩
    exact ⟨(m.1 ++ b.1, b.2), ⟨m, hm, b, hb, rfl⟩, rfl⟩

/-- everything the fragment selects in `d` is a member of `d` -/
def Shape (f : Frag) (d : JV) : Prop := ∀ m ∈ sel f d, ∃ l, m.1 = [l] ∧ child? l d = some m.2

theorem hasNil_locs_cons (f : Frag) (rest : List Frag) (d : JV) (hs : Shape f d) : hasNil (locs (f :: rest) d) = false := by
  cases h : hasNil (locs (f :: rest) d) with
  | false => rfl
  | true =>
    obtain ⟨m, hm, q, _, e⟩ := (mem_locs_cons f rest d []).1 ((hasNil_iff _).1 h)
    obtain ⟨l, hl, _⟩ := hs m hm
    rw [hl] at e
    cases e

/-- below a selected member: the locations the rest of the path selects in it -/
theorem strip_locs_sel (f : Frag) (rest : List Frag) (d : JV) (hs : Shape f d) (l : Loc) (c : JV)
    (hc : child? l d = some c) (hsel : ([l], c) ∈ sel f d) :
    SameSet (strip l (locs (f :: rest) d)) (locs rest c) := by
  intro q
  rw [mem_strip, mem_locs_cons]
  constructor
  · rintro ⟨m, hm, q', hq', e⟩
    obtain ⟨l', hl', hc'⟩ := hs m hm
    rw [hl'] at e
    simp only [List.singleton_append, List.cons.injEq] at e
    obtain ⟨rfl, rfl⟩ := e
    rw [hc] at hc'
    injection hc' with hc'
    rw [hc']
    exact hq'
  · intro hq
    exact ⟨([l], c), hsel, q, hq, rfl⟩

/-- below a member that is not selected: nothing -/
theorem strip_locs_not (f : Frag) (rest : List Frag) (d : JV) (hs : Shape f d) (l : Loc) (c : JV)
    (hc : child? l d = some c) (hsel : ([l], c) ∉ sel f d) :
    SameSet (strip l (locs (f :: rest) d)) [] := by
  intro q
  rw [mem_strip, mem_locs_cons]
  constructor
  · rintro ⟨m, hm, q', _, e⟩
    obtain ⟨l', hl', hc'⟩ := hs m hm
    rw [hl'] at e
    simp only [List.singleton_append, List.cons.injEq] at e
    obtain ⟨rfl, rfl⟩ := e
    rw [hc] at hc'
    injection hc' with hc'
    exact absurd (by rw [hc']; cases m; simp_all) hsel
  · intro h; cases h

def isDescentF : Frag → Bool
  | .descent => true
  | _ => false

theorem selMember_scalar (c : JV) (hc : isContainer c = false) (mb : Member) : selMember c mb = [] := by
  cases mb <;> cases c <;> simp_all [selMember, isContainer]

theorem sel_scalar (f : Frag) (c : JV) (hf : isDescentF f = false) (hc : isContainer c = false) : sel f c = [] := by
  cases f with
  | descent => simp [isDescentF] at hf
  | child k => cases c <;> simp_all [sel, selMember, isContainer]
  | nth i => cases c <;> simp_all [sel, selMember, isContainer]
  | wild => cases c <;> simp_all [sel, members, isContainer]
  | union ms =>
    simp only [sel]
    induction ms with
    | nil => rfl
    | cons mb r ih => simp only [List.flatMap_cons, selMember_scalar c hc mb, List.nil_append]; exact ih rfl
  | slice s e t => cases c <;> simp_all [sel, isContainer]
  | filter p => cases c <;> simp_all [sel, members, isContainer]

theorem locs_scalar (g : Frag) (r : List Frag) (c : JV) (hg : isDescentF g = false) (hc : isContainer c = false) :
    locs (g :: r) c = [] := by
  simp [locs, eval, sel_scalar g c hg hc]

theorem updAll_here (m : JV → JV) (c : JV) : updAll m [[]] c = m c := by
  rw [updAll_eq]
  have : hasNil [[]] = true := rfl
  simp only [this, if_true]
  have hs : ∀ l, strip l [[]] = [] := fun _ => rfl
  simp only [hs, updAll_nil, mapKids_id]

/-! ## `modSeq`: the last fragment -/

theorem modSeq_pure (dev : Dev) (m : Modifier) : ∀ (steps : List Loc) (d : JV),
    modSeq false dev false m false steps d = visitD false false (fun _ c => ⟨m.eff c, .go⟩) false steps d
  | [], d => rfl
  | l :: ls, d => by
    simp only [modSeq, visitD]
    cases hc : child? l d with
    | none => exact modSeq_pure dev m ls d
    | some c =>
      simp only [Bool.false_and, Bool.false_eq_true, if_false, ap, Modifier.eff]
      by_cases hm : (m c).2 = true
      · simp only [hm, if_true, Bool.false_and, Bool.false_eq_true, if_false]
        rw [modSeq_pure dev m ls _]
        -- the descent marker is ignored by a continuation that does not look at it
        have : ∀ (fl fl' : Bool) (ls : List Loc) (d : JV),
            visitD false false (fun _ c => (⟨m.eff c, .go⟩ : R)) fl ls d = visitD false false (fun _ c => ⟨m.eff c, .go⟩) fl' ls d := by
          intro fl fl' ls
          induction ls generalizing fl fl' with
          | nil => intro d; rfl
          | cons l ls ih =>
            intro d
            simp only [visitD]
            cases child? l d with
            | none => exact ih fl fl' d
            | some c => simp only [Bool.false_and, Bool.false_eq_true, if_false]; exact ih _ _ _
        exact this _ _ ls _
      · have hm' : (m c).2 = false := by simpa using hm
        simp only [hm', Bool.false_eq_true, if_false]
        rw [putChild_self l d c hc, modSeq_pure dev m ls d]
        have : ∀ (fl fl' : Bool) (ls : List Loc) (d : JV),
            visitD false false (fun _ c => (⟨m.eff c, .go⟩ : R)) fl ls d = visitD false false (fun _ c => ⟨m.eff c, .go⟩) fl' ls d := by
          intro fl fl' ls
          induction ls generalizing fl fl' with
          | nil => intro d; rfl
          | cons l ls ih =>
            intro d
            simp only [visitD]
            cases child? l d with
            | none => exact ih fl fl' d
            | some c => simp only [Bool.false_and, Bool.false_eq_true, if_false]; exact ih _ _ _
        exact this _ _ ls _

/-- the last fragment: the modifier on exactly the selected members -/
theorem modSeq_eq (dev : Dev) (m : Modifier) (steps : List Loc) (f : Frag) (d : JV) (hw : TopNodup d)
    (hok : StepsOK steps f d) :
    modSeq false dev false m false steps d = ⟨updAll m.eff (locs [f] d) d, .go⟩ := by
  rw [modSeq_pure]
  have hst := visitD_st false false (fun _ c => (⟨m.eff c, .go⟩ : R)) (fun _ _ => rfl) steps false d
  obtain ⟨h1, _⟩ := visitD_go false false (fun _ c => (⟨m.eff c, .go⟩ : R)) (fun _ _ => rfl) steps false d hok.nodup hw hst
  have hd : (visitD false false (fun _ c => (⟨m.eff c, .go⟩ : R)) false steps d) =
      ⟨(visitD false false (fun _ c => (⟨m.eff c, .go⟩ : R)) false steps d).d, .go⟩ := by
    cases hv : visitD false false (fun _ c => (⟨m.eff c, .go⟩ : R)) false steps d with
    | mk dd ss => rw [hv] at hst; simp only at hst; rw [hst]
  rw [hd, h1]
  congr 1
  rw [updAll_eq, hasNil_locs_cons f [] d hok.shape]
  simp only [Bool.false_eq_true, if_false]
  apply mapKids_congr d hw
  intro l c hc
  by_cases hl : l ∈ steps
  · have hsel := (hok.mem l c hc).1 hl
    rw [updAll_congr m.eff c _ _ (strip_locs_sel f [] d hok.shape l c hc hsel), locs_nil, updAll_here]
    simp [hl, pass]
  · have hsel : ([l], c) ∉ sel f d := fun h => hl ((hok.mem l c hc).2 h)
    rw [updAll_congr m.eff c _ _ (strip_locs_not f [] d hok.shape l c hc hsel), updAll_nil]
    simp [hl]

end OjgVerif.JPMut
