import OjgVerif.JPMut.LemmasDescent
/-! # ModifyOne / RemoveOne through ONE recursive descent

A One form makes a single edit, so nothing it looks at has been edited before: the work-list of the descent (members first, then
the node) stops at the first selected location at which the modifier reports a change — `descGo_one` — and the result is the
all-matches edit at that ONE location (`updAll m.eff [p] d`, `p ∈ locsG σ x d` with the descent clause of `JPath.eval`). No
shape argument and no hypothesis about filters is needed for that. -/
set_option linter.unusedSimpArgs false
set_option linter.unusedSectionVars false
set_option linter.unusedVariables false

namespace OjgVerif.JPMut
open OjgVerif OjgVerif.JPath

variable {σ : SliceFn} [NodupSlice σ]

/-- `ModOne` for an arbitrary location list (the rest of the path after a descent has its own) -/
def OneAt (m : Modifier) (T : List Path) (d : JV) (r : R) : Prop :=
  (r.st = .go → r.d = d ∧ ∀ p ∈ T, ∀ c, valAt p d = some c → (m c).2 = false) ∧
  (r.st = .stop → ∃ p ∈ T, ∃ c, valAt p d = some c ∧ (m c).2 = true ∧ r.d = updAll m.eff [p] d) ∧
  Quiet r.st

theorem oneAt_of_modOne (m : Modifier) (x : List Frag) (d : JV) (r : R) (h : ModOne σ m x d r) : OneAt m (locsG σ x d) d r := h

theorem mem_locsD_self (rest : List Frag) (d : JV) (p : Path) (hp : p ∈ locsG σ rest d) : p ∈ locsD σ rest d := by
  refine (mem_locsD rest d p).2 ⟨([], d), ?_, p, hp, rfl⟩
  cases d <;> simp [desc]

theorem mem_locsD_child (rest : List Frag) (d c : JV) (l : Loc) (hn : TopNodup d) (hc : child? l d = some c) (p : Path)
    (hp : p ∈ locsD σ rest c) : l :: p ∈ locsD σ rest d := by
  have := (strip_locsD (σ := σ) rest d c l hn hc p).2 (List.mem_append_left _ hp)
  exact (mem_strip l _ p).1 this

theorem locsD_cases (rest : List Frag) (d : JV) (hn : TopNodup d) (p : Path) (hp : p ∈ locsD σ rest d) :
    p ∈ locsG σ rest d ∨ ∃ l c q, child? l d = some c ∧ q ∈ locsD σ rest c ∧ p = l :: q := by
  obtain ⟨mm, hm, q, hq, rfl⟩ := (mem_locsD rest d p).1 hp
  rcases (mem_desc d hn mm).1 hm with rfl | ⟨l, c, hc, m', hm', rfl⟩
  · left; simpa using hq
  · right
    exact ⟨l, c, m'.1 ++ q, hc, (mem_locsD rest c _).2 ⟨m', hm', q, hq, rfl⟩, rfl⟩

/-- the node step of a One form: every member's subtree let the traversal go on (nothing wanted a change there), then the rest
of the path is applied to the (unchanged) node -/
theorem oneAt_node_go (m : Modifier) (rest : List Frag) (d : JV) (hn : TopNodup d) (r : R)
    (hkids : ∀ l c, child? l d = some c → ∀ p ∈ locsD σ rest c, ∀ c', valAt p c = some c' → (m c').2 = false)
    (hr : OneAt m (locsG σ rest d) d r) : OneAt m (locsD σ rest d) d r := by
  refine ⟨fun hst => ?_, fun hst => ?_, hr.2.2⟩
  · obtain ⟨h1, h2⟩ := hr.1 hst
    refine ⟨h1, ?_⟩
    intro p hp c hv
    rcases locsD_cases rest d hn p hp with h | ⟨l, c0, q, hc, hq, rfl⟩
    · exact h2 p h c hv
    · simp only [valAt_cons, hc, Option.bind_some] at hv
      exact hkids l c0 hc q hq c hv
  · obtain ⟨p, hp, c, hv, hm, hd⟩ := hr.2.1 hst
    exact ⟨p, mem_locsD_self rest d p hp, c, hv, hm, hd⟩

/-- a member's subtree stopped the traversal -/
theorem oneAt_node_stop (m : Modifier) (rest : List Frag) (d c : JV) (l : Loc) (hn : TopNodup d) (hc : child? l d = some c) (rc : R)
    (hrc : OneAt m (locsD σ rest c) c rc) (hst : rc.st = .stop) : OneAt m (locsD σ rest d) d ⟨putChild l rc.d d, .stop⟩ := by
  obtain ⟨p, hp, c', hv, hm, hd⟩ := hrc.2.1 hst
  refine ⟨(fun h => by cases h), fun _ => ⟨l :: p, mem_locsD_child rest d c l hn hc p hp, c', ?_, hm, ?_⟩, Or.inr rfl⟩
  · simp only [valAt_cons, hc, Option.bind_some]; exact hv
  · simp only
    rw [hd, updAll_single_cons m.eff l p d c hn hc]

/-- no selected location below the value wants a change -/
def NoWish (σ : SliceFn) (m : Modifier) (rest : List Frag) (x : JV) : Prop :=
  ∀ p ∈ locsD σ rest x, ∀ c, valAt p x = some c → (m c).2 = false

theorem kvInsert_split (k : Bytes) (v c : JV) : ∀ (pre suf : List (Bytes × JV)), k ∉ keysOf pre →
    kvInsert k v (pre ++ (k, c) :: suf) = pre ++ (k, v) :: suf
  | [], _, _ => by simp [kvInsert]
  | e :: pre, suf, h => by
    cases e with
    | mk k' v' =>
    have hne : k' ≠ k := by
      intro e'; apply h; simp [keysOf, e']
    have h' : k ∉ keysOf pre := by
      intro hh; apply h; simp only [keysOf, List.map_cons, List.mem_cons]; right; exact hh
    simp only [List.cons_append, kvInsert, hne, if_false]
    rw [kvInsert_split k v c pre suf h']

theorem oneAt_quiet_cases {m : Modifier} {T : List Path} {d : JV} {r : R} (h : OneAt m T d r) : r.st = .go ∨ r.st = .stop := h.2.2

theorem oneAt_scalar (m : Modifier) (rest : List Frag) (hne : rest ≠ []) (hnd : NoDescent rest) (d : JV) (hd : isContainer d = false) :
    OneAt m (locsD σ rest d) d ⟨d, .go⟩ := by
  obtain ⟨g, r, hr⟩ : ∃ g r, rest = g :: r := by cases rest with | nil => exact absurd rfl hne | cons g r => exact ⟨g, r, rfl⟩
  have h0 := locsD_scalar (σ := σ) rest g r hr (hnd g (by rw [hr]; simp)) d hd
  refine ⟨fun _ => ⟨rfl, ?_⟩, (fun h => by cases h), Or.inl rfl⟩
  intro p hp
  rw [h0] at hp
  cases hp

mutual
  /-- the descent work-list in a One form of `modify` -/
  theorem descGo_one (dev : Dev) (m : Modifier) (hfm : dev.filterMapNil = false) (rest : List Frag) (hne : rest ≠ [])
      (hnd : NoDescent rest) : ∀ (d : JV), WF d → GoodD σ dev rest d →
      OneAt m (locsD σ rest d) d (descGo (modF false dev true m rest false) d)
    | .arr xs, hw, hg => by
      simp only [GoodD] at hg
      have hl := descArr_one dev m hfm rest hne hnd xs (by simpa [WF] using hw) hg.2
      simp only [descGo]
      rcases hl.2.2 with hst | hst
      · obtain ⟨h1, h2⟩ := hl.1 hst
        rw [hst, h1]
        simp only
        apply oneAt_node_go m rest (.arr xs) trivial
        · intro l c hc
          obtain ⟨j, _, hj⟩ := child?_arr_inv l xs c hc
          exact h2 c (List.mem_of_getElem? hj)
        · exact oneAt_of_modOne m rest _ _ (modF_one (σ := σ) dev m hfm rest hne hnd false (.arr xs) hw hg.1)
      · obtain ⟨i, x, rc, hx, hrc, hrs, hd⟩ := hl.2.1 hst
        rw [hst, hd]
        simp only
        exact oneAt_node_stop m rest (.arr xs) x (.idx i) trivial hx rc hrc hrs
    | .obj kvs, hw, hg => by
      simp only [GoodD] at hg
      simp only [WF] at hw
      have hl := descObj_one dev m hfm rest hne hnd kvs hw.2 hg.2
      simp only [descGo]
      rcases hl.2.2 with hst | hst
      · obtain ⟨h1, h2⟩ := hl.1 hst
        rw [hst, h1]
        simp only
        apply oneAt_node_go m rest (.obj kvs) hw.1
        · intro l c hc
          obtain ⟨k, _, hk⟩ := child?_obj_inv l kvs c hc
          exact h2 (k, c) (lookup_mem kvs k c hk)
        · exact oneAt_of_modOne m rest _ _ (modF_one (σ := σ) dev m hfm rest hne hnd false (.obj kvs) (by simp only [WF]; exact hw) hg.1)
      · obtain ⟨pre, suf, kv, rc, hsplit, hrc, hrs, hd⟩ := hl.2.1 hst
        rw [hst, hd]
        simp only
        have hmem : kv ∈ kvs := by rw [hsplit]; simp
        have hc : child? (.key kv.1) (.obj kvs) = some kv.2 := lookup_of_mem_nodup kvs hw.1 kv hmem
        have hnot : kv.1 ∉ keysOf pre := by
          have hn := hw.1
          rw [hsplit] at hn
          simp only [keysOf, List.map_append, List.map_cons] at hn
          have := (List.nodup_append.1 hn).2.2
          intro hin
          exact this kv.1 hin kv.1 (by simp) rfl
        have := oneAt_node_stop m rest (.obj kvs) kv.2 (.key kv.1) hw.1 hc rc hrc hrs
        have e : putChild (.key kv.1) rc.d (.obj kvs) = .obj (pre ++ (kv.1, rc.d) :: suf) := by
          simp only [putChild]
          rw [hsplit]
          have : kv = (kv.1, kv.2) := rfl
          rw [this, kvInsert_split kv.1 rc.d kv.2 pre suf hnot]
        rw [e] at this
        exact this
    | .null, _, _ => oneAt_scalar m rest hne hnd _ rfl
    | .bool _, _, _ => oneAt_scalar m rest hne hnd _ rfl
    | .int _, _, _ => oneAt_scalar m rest hne hnd _ rfl
    | .flt _, _, _ => oneAt_scalar m rest hne hnd _ rfl
    | .big _, _, _ => oneAt_scalar m rest hne hnd _ rfl
    | .num _, _, _ => oneAt_scalar m rest hne hnd _ rfl
    | .str _, _, _ => oneAt_scalar m rest hne hnd _ rfl
  theorem descArr_one (dev : Dev) (m : Modifier) (hfm : dev.filterMapNil = false) (rest : List Frag) (hne : rest ≠ [])
      (hnd : NoDescent rest) : ∀ (xs : List JV), WFL xs → GoodDL σ dev rest xs →
      ((descArr (modF false dev true m rest false) xs).st = .go →
        (descArr (modF false dev true m rest false) xs).xs = xs ∧ ∀ x ∈ xs, NoWish σ m rest x) ∧
      ((descArr (modF false dev true m rest false) xs).st = .stop →
        ∃ i x rc, xs[i]? = some x ∧ OneAt m (locsD σ rest x) x rc ∧ rc.st = .stop ∧
          (descArr (modF false dev true m rest false) xs).xs = xs.set i rc.d) ∧
      Quiet (descArr (modF false dev true m rest false) xs).st
    | [], _, _ => ⟨fun _ => ⟨rfl, fun _ h => nomatch h⟩, (fun h => nomatch h), Or.inl rfl⟩
    | x :: r, hw, hg => by
      simp only [WFL] at hw
      simp only [GoodDL] at hg
      have hx := descGo_one dev m hfm rest hne hnd x hw.1 hg.1
      have hr := descArr_one dev m hfm rest hne hnd r hw.2 hg.2
      simp only [descArr]
      rcases hx.2.2 with hst | hst
      · obtain ⟨h1, h2⟩ := hx.1 hst
        rw [hst]
        simp only
        rw [h1]
        refine ⟨fun h => ?_, fun h => ?_, hr.2.2⟩
        · obtain ⟨h3, h4⟩ := hr.1 h
          refine ⟨by rw [h3], ?_⟩
          intro y hy
          rcases List.mem_cons.1 hy with e | hy'
          · rw [e]; exact h2
          · exact h4 y hy'
        · obtain ⟨i, y, rc, hy, hrc, hrs, hd⟩ := hr.2.1 h
          exact ⟨i + 1, y, rc, by simpa using hy, hrc, hrs, by rw [hd]; rfl⟩
      · rw [hst]
        simp only
        exact ⟨(fun h => by cases h), fun _ => ⟨0, x, _, rfl, hx, hst, rfl⟩, Or.inr rfl⟩
  theorem descObj_one (dev : Dev) (m : Modifier) (hfm : dev.filterMapNil = false) (rest : List Frag) (hne : rest ≠ [])
      (hnd : NoDescent rest) : ∀ (kvs : List (Bytes × JV)), WFK kvs → GoodDK σ dev rest kvs →
      ((descObj (modF false dev true m rest false) kvs).st = .go →
        (descObj (modF false dev true m rest false) kvs).kvs = kvs ∧ ∀ kv ∈ kvs, NoWish σ m rest kv.2) ∧
      ((descObj (modF false dev true m rest false) kvs).st = .stop →
        ∃ pre suf kv rc, kvs = pre ++ kv :: suf ∧ OneAt m (locsD σ rest kv.2) kv.2 rc ∧ rc.st = .stop ∧
          (descObj (modF false dev true m rest false) kvs).kvs = pre ++ (kv.1, rc.d) :: suf) ∧
      Quiet (descObj (modF false dev true m rest false) kvs).st
    | [], _, _ => ⟨fun _ => ⟨rfl, fun _ h => nomatch h⟩, (fun h => nomatch h), Or.inl rfl⟩
    | kv :: r, hw, hg => by
      simp only [WFK] at hw
      simp only [GoodDK] at hg
      have hx := descGo_one dev m hfm rest hne hnd kv.2 hw.1 hg.1
      have hr := descObj_one dev m hfm rest hne hnd r hw.2 hg.2
      simp only [descObj]
      rcases hx.2.2 with hst | hst
      · obtain ⟨h1, h2⟩ := hx.1 hst
        rw [hst]
        simp only
        rw [h1]
        refine ⟨fun h => ?_, fun h => ?_, hr.2.2⟩
        · obtain ⟨h3, h4⟩ := hr.1 h
          refine ⟨by rw [h3], ?_⟩
          intro y hy
          rcases List.mem_cons.1 hy with e | hy'
          · rw [e]; exact h2
          · exact h4 y hy'
        · obtain ⟨pre, suf, y, rc, hsplit, hrc, hrs, hd⟩ := hr.2.1 h
          exact ⟨kv :: pre, suf, y, rc, by rw [hsplit]; rfl, hrc, hrs, by rw [hd]; rfl⟩
      · rw [hst]
        simp only
        exact ⟨(fun h => by cases h), fun _ => ⟨[], r, kv, _, rfl, hx, hst, rfl⟩, Or.inr rfl⟩
end

/-! ## the path before the descent -/

theorem modF_pre_one (dev : Dev) (hsib : dev.descentSiblings = false) (m : Modifier) (hfm : dev.filterMapNil = false)
    (rest : List Frag) (hne : rest ≠ []) (hnd : NoDescent rest) : ∀ (pre : List Frag), NoDescent pre →
    ∀ (fl : Bool) (d : JV), WF d → GoodPre σ dev rest pre d → (pre = [] → fl = false) →
    OneAt m (locsG σ (pre ++ .descent :: rest) d) d (modF false dev true m (pre ++ .descent :: rest) fl d)
  | [], _, fl, d, hw, hg, hfl => by
    have hre : rest.isEmpty = false := by cases rest with | nil => exact absurd rfl hne | cons g r => rfl
    simp only [List.nil_append, modF, hre, hfl rfl, Bool.false_eq_true, if_false]
    exact descGo_one (σ := σ) dev m hfm rest hne hnd d hw hg
  | f :: pre, hp, fl, d, hw, hg, _ => by
    have hgf : GoodAt σ dev f d := hg.1
    have hndf := hgf.notDescent
    have hpp : NoDescent pre := fun g hg' => hp g (List.mem_cons_of_mem _ hg')
    obtain ⟨g, r, hgr⟩ : ∃ g r, pre ++ .descent :: rest = g :: r := by
      cases pre with
      | nil => exact ⟨_, _, rfl⟩
      | cons g' r' => exact ⟨g', r' ++ .descent :: rest, rfl⟩
    have ih : ∀ l c, child? l d = some c → ([l], c) ∈ selG σ f d →
        OneAt m (locsG σ (g :: r) c) c (modF false dev true m (g :: r) false c) := by
      intro l c hc hs
      have := modF_pre_one dev hsib m hfm rest hne hnd pre hpp false c (WF_child l d c hw hc) (hg.2 ([l], c) hs) (fun _ => rfl)
      rw [hgr] at this
      exact this
    have hsc : ∀ c, isContainer c = false → locsG σ (g :: r) c = [] := by
      intro c hc
      rw [← hgr]; exact locs_tail_scalar (σ := σ) rest hne hnd pre hpp c hc
    rw [List.cons_append, hgr]
    have hok := modSteps_ok (σ := σ) dev f d (WF_top d hw) hgf
    have e1 : modF false dev true m (f :: g :: r) fl d =
        visitD (contOnly f) dev.descentSiblings (modF false dev true m (g :: r)) false (modSteps dev f d) d := by
      cases f <;> simp_all [modF, isDescentF]
    rw [e1, hsib, visitD_nosib]
    have hk : ∀ (fl' : Bool) c, ((fun _ => modF false dev true m (g :: r) false) fl' c).st = .go →
        ((fun _ => modF false dev true m (g :: r) false) fl' c).d = c :=
      fun _ c h => (modF_inv (fun _ _ => True) false dev m (fun _ _ => trivial) (g :: r) false c).1 h
    have hq := visitD_quiet (contOnly f) false (fun _ => modF false dev true m (g :: r) false)
      (fun _ c => modF_quiet false dev true m (by simp) (g :: r) false c) (modSteps dev f d) false d
    have h := visitD_one (contOnly f) false _ hk (modSteps dev f d) false d
    refine ⟨fun hst => ?_, fun hst => ?_, hq⟩
    · obtain ⟨h1, h2⟩ := h.1 hst
      refine ⟨h1, ?_⟩
      intro p hp' c hv
      obtain ⟨m', hm', q, hq', rfl⟩ := (mem_locs_cons (σ := σ) f (g :: r) d p).1 hp'
      obtain ⟨l, hl, hc⟩ := hok.shape m' hm'
      have hsel : ([l], m'.2) ∈ selG σ f d := by rw [← hl]; exact hm'
      have hmem : l ∈ modSteps dev f d := (hok.mem l m'.2 hc).2 hsel
      rw [hl] at hv
      simp only [List.singleton_append, valAt_cons, hc, Option.bind_some] at hv
      by_cases hpass : pass (contOnly f) m'.2 = true
      · obtain ⟨_, hgo⟩ := h2 l hmem m'.2 hc hpass
        exact ((ih l m'.2 hc hsel).1 hgo).2 q hq' c hv
      · have hscal : isContainer m'.2 = false := by
          simp only [pass, Bool.not_eq_true', Bool.not_eq_false, Bool.and_eq_true, Bool.not_eq_true'] at hpass
          exact hpass.2
        rw [hsc m'.2 hscal] at hq'
        cases hq'
    · have hne' : (visitD (contOnly f) false (fun _ => modF false dev true m (g :: r) false) false (modSteps dev f d) d).st ≠ .go := by
        rw [hst]; simp
      obtain ⟨l, hl, c, _, hc, _, hst', hd⟩ := h.2 hne'
      rw [hst] at hst'
      have hsel := (hok.mem l c hc).1 hl
      obtain ⟨q, hq', c', hv, hm', hd'⟩ := (ih l c hc hsel).2.1 hst'
      refine ⟨l :: q, (mem_locs_cons (σ := σ) f (g :: r) d (l :: q)).2 ⟨([l], c), hsel, q, hq', rfl⟩, c', ?_, hm', ?_⟩
      · simp only [valAt_cons, hc, Option.bind_some]; exact hv
      · rw [hd, hd', updAll_single_cons m.eff l q d c (WF_top d hw) hc]

/-- MODIFYONE THROUGH ONE DESCENT (simple data; `rest` non-empty, no further descent; filters ARE allowed): no error; the
returned tree is the modifier applied at ONE selected location that wanted a change (the first the work-list meets: members'
subtrees before the node), or the input itself when no selected location wants one -/
theorem modifyOne_descent (dev : Dev) (hsib : dev.descentSiblings = false) (m : Modifier) (hfm : dev.filterMapNil = false)
    (pre rest : List Frag) (hp : NoDescent pre) (hne : rest ≠ []) (hnd : NoDescent rest) (d : JV) (hw : WF d)
    (hg : GoodPre σ dev rest pre d) :
    ∃ d', modifyM false dev true m (pre ++ .descent :: rest) d = .ok d' ∧ ModOneOut σ m (pre ++ .descent :: rest) d d' := by
  have hwrap : WF (.arr [d]) := by simp [WF, WFL, hw]
  have hsel0 : selG σ (.nth 0) (.arr [d]) = [([.idx 0], d)] := by
    simp [selG, sel, selMember, absIdx]
  have hgp : GoodPre σ dev rest (.nth 0 :: pre) (.arr [d]) := by
    refine ⟨trivial, ?_⟩
    intro m' hm'
    rw [hsel0] at hm'
    simp only [List.mem_singleton] at hm'
    subst hm'
    exact hg
  have hndw : NoDescent (.nth 0 :: pre) := by
    intro f hf
    rcases List.mem_cons.1 hf with rfl | hf
    · rfl
    · exact hp f hf
  have hmain := modF_pre_one (σ := σ) dev hsib m hfm rest hne hnd (.nth 0 :: pre) hndw false (.arr [d]) hwrap hgp (fun h => by cases h)
  simp only [List.cons_append] at hmain
  have hmem : ∀ p, p ∈ locsG σ (.nth 0 :: (pre ++ .descent :: rest)) (.arr [d]) ↔ ∃ q ∈ locsG σ (pre ++ .descent :: rest) d, p = .idx 0 :: q := by
    intro p
    rw [mem_locs_cons, hsel0]
    simp
  have hc0 : child? (.idx 0) (.arr [d]) = some d := rfl
  have hx : (pre ++ .descent :: rest).isEmpty = false := by cases pre <;> rfl
  simp only [modifyM, modifyCore, last_not_descent pre rest hne hnd, Bool.false_eq_true, if_false, Bool.false_and, hx]
  rcases hmain.2.2 with hst | hst
  · rw [hst]
    obtain ⟨h1, h2⟩ := hmain.1 hst
    refine ⟨_, rfl, Or.inl ⟨by rw [h1]; rfl, ?_⟩⟩
    intro p hp' c hv
    exact h2 (.idx 0 :: p) ((hmem _).2 ⟨p, hp', rfl⟩) c (by simp only [valAt_cons, hc0, Option.bind_some]; exact hv)
  · rw [hst]
    obtain ⟨p, hp', c, hv, hm', hd⟩ := hmain.2.1 hst
    obtain ⟨q, hq, rfl⟩ := (hmem p).1 hp'
    refine ⟨_, rfl, Or.inr ⟨q, hq, c, ?_, hm', ?_⟩⟩
    · simpa only [valAt_cons, hc0, Option.bind_some] using hv
    · rw [hd, updAll_single_cons m.eff (.idx 0) q (.arr [d]) d (WF_top _ hwrap) hc0]
      rfl

/-- what `ModOneOut` says is what the property demands of a One form -/
theorem oneOKG_of_modOneOut (m : Modifier) (x : List Frag) (d d' : JV) (hw : WF d) (h : ModOneOut σ m x d d') :
    OneOKG σ x d d' (.mod m) := by
  rcases h with ⟨rfl, hno⟩ | ⟨p, hp, c, _, _, hd⟩
  · cases hl : locsG σ x d' with
    | nil => exact Or.inl ⟨hl, trivial, rfl⟩
    | cons p T =>
      have hp : p ∈ locsG σ x d' := by rw [hl]; simp
      refine Or.inr (Or.inl ⟨p, hp, ?_⟩)
      simp only [single]
      rw [updAll_single_noop m.eff p d' hw]
      intro c hv
      simp [Modifier.eff, hno p hp c hv]
  · exact Or.inr (Or.inl ⟨p, hp, hd⟩)

/-! ## RemoveOne through a descent -/

theorem valAt_append : ∀ (a b : Path) (d : JV), valAt (a ++ b) d = (valAt a d).bind (valAt b)
  | [], _, _ => rfl
  | l :: a, b, d => by
    simp only [List.cons_append, valAt_cons]
    cases child? l d with
    | none => rfl
    | some c => simp only [Option.bind_some]; exact valAt_append a b c

mutual
  /-- a node the descent reaches is the value at its location -/
  theorem desc_valAt : ∀ (d : JV), WF d → ∀ m ∈ desc d, valAt m.1 d = some m.2
    | .arr xs, hw, m, hm => by
      simp only [desc, List.mem_append, List.mem_singleton] at hm
      rcases hm with hm | rfl
      · obtain ⟨j, x, hx, m', hm', rfl⟩ := (mem_descArr xs 0 m).1 hm
        simp only [pfx, Nat.zero_add, valAt_cons, child?, hx, Option.bind_some]
        exact descArr_valAt xs (by simpa [WF] using hw) x (List.mem_of_getElem? hx) m' hm'
      · rfl
    | .obj kvs, hw, m, hm => by
      simp only [WF] at hw
      simp only [desc, List.mem_append, List.mem_singleton] at hm
      rcases hm with hm | rfl
      · obtain ⟨kv, hkv, m', hm', rfl⟩ := (mem_descObj kvs m).1 hm
        simp only [pfx, valAt_cons, child?, lookup_of_mem_nodup kvs hw.1 kv hkv, Option.bind_some]
        exact descObj_valAt kvs hw.2 kv hkv m' hm'
      · rfl
    | .null, _, m, hm => by simp only [desc, List.mem_singleton] at hm; rw [hm]; rfl
    | .bool _, _, m, hm => by simp only [desc, List.mem_singleton] at hm; rw [hm]; rfl
    | .int _, _, m, hm => by simp only [desc, List.mem_singleton] at hm; rw [hm]; rfl
    | .flt _, _, m, hm => by simp only [desc, List.mem_singleton] at hm; rw [hm]; rfl
    | .big _, _, m, hm => by simp only [desc, List.mem_singleton] at hm; rw [hm]; rfl
    | .num _, _, m, hm => by simp only [desc, List.mem_singleton] at hm; rw [hm]; rfl
    | .str _, _, m, hm => by simp only [desc, List.mem_singleton] at hm; rw [hm]; rfl
  theorem descArr_valAt : ∀ (xs : List JV), WFL xs → ∀ x ∈ xs, ∀ m ∈ desc x, valAt m.1 x = some m.2
    | [], _, _, h, _, _ => by cases h
    | y :: r, hw, x, h, m, hm => by
      simp only [WFL] at hw
      rcases List.mem_cons.1 h with e | h'
      · rw [e] at hm ⊢; exact desc_valAt y hw.1 m hm
      · exact descArr_valAt r hw.2 x h' m hm
  theorem descObj_valAt : ∀ (kvs : List (Bytes × JV)), WFK kvs → ∀ kv ∈ kvs, ∀ m ∈ desc kv.2, valAt m.1 kv.2 = some m.2
    | [], _, _, h, _, _ => by cases h
    | y :: r, hw, kv, h, m, hm => by
      simp only [WFK] at hw
      rcases List.mem_cons.1 h with e | h'
      · rw [e] at hm ⊢; exact desc_valAt y.2 hw.1 m hm
      · exact descObj_valAt r hw.2 kv h' m hm
end

/-- `mem_locs_append` for a front part with ONE descent -/
theorem mem_locs_append_desc (y rest : List Frag) (hnd : NoDescent rest) : ∀ (pre : List Frag), NoDescent pre → ∀ (d : JV), WF d →
    ∀ (p' : Path), p' ∈ locsG σ (pre ++ .descent :: rest ++ y) d ↔
      ∃ p ∈ locsG σ (pre ++ .descent :: rest) d, ∃ c, valAt p d = some c ∧ ∃ q ∈ locsG σ y c, p' = p ++ q
  | [], _, d, hw, p' => by
    simp only [List.nil_append, List.cons_append]
    rw [mem_locs_cons]
    constructor
    · rintro ⟨mm, hm, q', hq', rfl⟩
      have hwm := WF_desc d hw mm hm
      obtain ⟨p, hp, c, hv, q, hq, rfl⟩ := (mem_locs_append (σ := σ) y rest hnd mm.2 hwm q').1 hq'
      refine ⟨mm.1 ++ p, (mem_locs_cons (σ := σ) .descent rest d _).2 ⟨mm, hm, p, hp, rfl⟩, c, ?_, q, hq, by simp⟩
      rw [valAt_append, desc_valAt d hw mm hm]
      exact hv
    · rintro ⟨p, hp, c, hv, q, hq, rfl⟩
      obtain ⟨mm, hm, p1, hp1, rfl⟩ := (mem_locs_cons (σ := σ) .descent rest d p).1 hp
      rw [valAt_append, desc_valAt d hw mm hm] at hv
      exact ⟨mm, hm, p1 ++ q, (mem_locs_append (σ := σ) y rest hnd mm.2 (WF_desc d hw mm hm) _).2 ⟨p1, hp1, c, hv, q, hq, rfl⟩, by simp⟩
  | h :: r, hp, d, hw, p' => by
    have hs := Shape_of (σ := σ) h d (hp h (by simp)) (WF_top d hw)
    have hpr : NoDescent r := fun g hg => hp g (List.mem_cons_of_mem _ hg)
    have e : (h :: r) ++ .descent :: rest ++ y = h :: (r ++ .descent :: rest ++ y) := by simp
    rw [e, List.cons_append, mem_locs_cons]
    constructor
    · rintro ⟨mm, hm, q', hq', rfl⟩
      obtain ⟨l, hl, hc⟩ := hs mm hm
      obtain ⟨p, hp', c, hv, q, hq, rfl⟩ := (mem_locs_append_desc y rest hnd r hpr mm.2 (WF_child l d mm.2 hw hc) q').1 hq'
      refine ⟨mm.1 ++ p, (mem_locs_cons (σ := σ) h _ d _).2 ⟨mm, hm, p, hp', rfl⟩, c, ?_, q, hq, by simp⟩
      rw [hl]
      simp only [List.singleton_append, valAt_cons, hc, Option.bind_some]
      exact hv
    · rintro ⟨p, hp', c, hv, q, hq, rfl⟩
      obtain ⟨mm, hm, p1, hp1, rfl⟩ := (mem_locs_cons (σ := σ) h _ d p).1 hp'
      obtain ⟨l, hl, hc⟩ := hs mm hm
      rw [hl] at hv
      simp only [List.singleton_append, valAt_cons, hc, Option.bind_some] at hv
      exact ⟨mm, hm, p1 ++ q, (mem_locs_append_desc y rest hnd r hpr mm.2 (WF_child l d mm.2 hw hc) _).2 ⟨p1, hp1, c, hv, q, hq, rfl⟩, by simp⟩

/-- REMOVEONE THROUGH ONE DESCENT (simple data): no error; the returned tree is the input with ONE selected member removed
(`remAll [q] d`, `q` a location the full path selects), or the input as it was when nothing is selected -/
theorem removeOne_descent (dev : Dev) (hsib : dev.descentSiblings = false) (hfm : dev.filterMapNil = false) (pre rest : List Frag)
    (f : Frag) (hf : isDescentF f = false) (hrg : ∀ c, RemGood σ dev f c) (hp : NoDescent pre) (hne : rest ≠ [])
    (hnd : NoDescent rest) (d : JV) (hw : WF d) (hg : GoodPre σ dev rest pre d) :
    ∃ d', removeM false dev true (pre ++ .descent :: rest ++ [f]) d = .ok d' ∧
      OneOKG σ (pre ++ .descent :: rest ++ [f]) d d' .rem := by
  obtain ⟨m, hm⟩ : ∃ m, removeOneOf dev f = some m := by
    cases f <;> simp_all [removeOneOf, removeAllOf, isDescentF]
  obtain ⟨d', h1, h2⟩ := modifyOne_descent (σ := σ) dev hsib m hfm pre rest hp hne hnd d hw hg
  simp only [removeM, List.getLast?_append, List.getLast?_singleton, Option.some_or, hm, if_true, List.dropLast_concat]
  simp only [modifyM] at h1
  refine ⟨d', h1, ?_⟩
  rcases h2 with ⟨rfl, hno⟩ | ⟨p, hp', c, hv, hch, hd⟩
  · refine Or.inl ⟨?_, trivial, rfl⟩
    apply List.eq_nil_iff_forall_not_mem.2
    intro p' hp''
    obtain ⟨p, hp', c, hv, q, hq, _⟩ := (mem_locs_append_desc (σ := σ) [f] rest hnd pre hp d' hw p').1 hp''
    have hone := removeOneOf_single (σ := σ) dev f m hm c (WF_top c (WF_valAt p d' c hw hv)) (hrg c)
    rw [locs_nosel (σ := σ) f [] c (hone.1 (hno p hp' c hv))] at hq
    cases hq
  · have hone := removeOneOf_single (σ := σ) dev f m hm c (WF_top c (WF_valAt p d c hw hv)) (hrg c)
    obtain ⟨l, v, hsel, he⟩ := hone.2 hch
    refine Or.inr (Or.inl ⟨p ++ [l], ?_, ?_⟩)
    · exact (mem_locs_append_desc (σ := σ) [f] rest hnd pre hp d hw _).2 ⟨p, hp', c, hv, [l],
        (mem_locs_cons (σ := σ) f [] c [l]).2 ⟨([l], v), hsel, [], by simp [locs_nil], by simp⟩, rfl⟩
    · rw [hd]
      exact upd_single_rem m.eff l p d c hw hv (by rw [eff_of_changed m c hch]; exact he)

end OjgVerif.JPMut
