import OjgVerif.JPMut.LemmasRemove
/-! # Del deletes exactly the selected members (paths without a descent)

`delM_eq`: when Del (all matches, simple data, a path without recursive descent whose unions list no member
twice and whose slices — as set.go reads them — select the indexes of the specification on the arrays they
meet) reports no error, the data afterwards is `delAll (locsG σ x d) d`: selected object members gone,
selected array elements null, everything else as it was. -/
namespace OjgVerif.JPMut
open OjgVerif OjgVerif.JPath

variable {σ : SliceFn} [NodupSlice σ]

/-! ## `delAll` -/

mutual
  theorem delAll_nil : ∀ (d : JV), delAll [] d = d
    | .arr xs => by simp [delAll, delArr_nil xs 0]
    | .obj kvs => by simp [delAll, delObj_nil kvs]
    | .null => rfl
    | .bool _ => rfl
    | .int _ => rfl
    | .flt _ => rfl
    | .big _ => rfl
    | .num _ => rfl
    | .str _ => rfl
  theorem delArr_nil : ∀ (xs : List JV) (i : Nat), delArr [] i xs = xs
    | [], _ => rfl
    | x :: r, i => by simp [delArr, strip_nil, delAll_nil x, delArr_nil r (i + 1)]
  theorem delObj_nil : ∀ (kvs : List (Bytes × JV)), delObj [] kvs = kvs
    | [] => rfl
    | kv :: r => by simp [delObj, strip_nil, delAll_nil kv.2, delObj_nil r]
end

mutual
  theorem delAll_congr : ∀ (d : JV) (T T' : List Path), SameSet T T' → delAll T d = delAll T' d
    | .arr xs, T, T', h => by simp [delAll, delArr_congr xs T T' h 0]
    | .obj kvs, T, T', h => by simp [delAll, delObj_congr kvs T T' h]
    | .null, _, _, _ => rfl
    | .bool _, _, _, _ => rfl
    | .int _, _, _, _ => rfl
    | .flt _, _, _, _ => rfl
    | .big _, _, _, _ => rfl
    | .num _, _, _, _ => rfl
    | .str _, _, _, _ => rfl
  theorem delArr_congr : ∀ (xs : List JV) (T T' : List Path), SameSet T T' → ∀ i, delArr T i xs = delArr T' i xs
    | [], _, _, _, _ => rfl
    | x :: r, T, T', h, i => by
      simp only [delArr]
      rw [h.contains_eq [Loc.idx i], delAll_congr x _ _ (h.strip_same (.idx i)), delArr_congr r T T' h (i + 1)]
  theorem delObj_congr : ∀ (kvs : List (Bytes × JV)) (T T' : List Path), SameSet T T' → delObj T kvs = delObj T' kvs
    | [], _, _, _ => rfl
    | kv :: r, T, T', h => by
      simp only [delObj]
      rw [h.contains_eq [Loc.key kv.1], delAll_congr kv.2 _ _ (h.strip_same (.key kv.1)), delObj_congr r T T' h]
end

theorem delArr_inner (T : List Path) (h : ∀ l, [l] ∉ T) : ∀ (xs : List JV) (i : Nat),
    delArr T i xs = mapArr (fun l c => delAll (strip l T) c) i xs
  | [], _ => rfl
  | x :: r, i => by
    have : T.contains [Loc.idx i] = false := by
      cases hc : T.contains [Loc.idx i] with
      | false => rfl
      | true => exact absurd ((contains_iff T _).1 hc) (h _)
    simp only [delArr, mapArr, this, Bool.false_eq_true, if_false, delArr_inner T h r (i + 1)]

theorem delObj_inner (T : List Path) (h : ∀ l, [l] ∉ T) : ∀ (kvs : List (Bytes × JV)),
    delObj T kvs = kvs.map fun kv => (kv.1, delAll (strip (.key kv.1) T) kv.2)
  | [] => rfl
  | kv :: r => by
    have : T.contains [Loc.key kv.1] = false := by
      cases hc : T.contains [Loc.key kv.1] with
      | false => rfl
      | true => exact absurd ((contains_iff T _).1 hc) (h _)
    simp only [delObj, this, Bool.false_eq_true, if_false, delObj_inner T h r, List.map_cons]

/-- no one-step location in the set: nothing is deleted at this level -/
theorem delAll_inner (T : List Path) (h : ∀ l, [l] ∉ T) (d : JV) :
    delAll T d = mapKids (fun l c => delAll (strip l T) c) d := by
  cases d <;> simp [delAll, mapKids, delArr_inner T h, delObj_inner T h]

theorem delArr_last (T : List Path) (hs : ∀ p ∈ T, ∃ l, p = [l]) : ∀ (xs : List JV) (i : Nat),
    delArr T i xs = mapArr (fun l c => if T.contains [l] then JV.null else c) i xs
  | [], _ => rfl
  | x :: r, i => by
    simp only [delArr, mapArr]
    by_cases hc : T.contains [Loc.idx i] = true
    · simp only [hc, if_true, delArr_last T hs r (i + 1)]
    · have hn : [Loc.idx i] ∉ T := fun h => hc ((contains_iff T _).2 h)
      simp only [hc, Bool.false_eq_true, if_false, strip_singletons T hs _ hn, delAll_nil, delArr_last T hs r (i + 1)]

theorem delObj_last (T : List Path) (hs : ∀ p ∈ T, ∃ l, p = [l]) : ∀ (kvs : List (Bytes × JV)),
    delObj T kvs = kvs.filter fun kv => !T.contains [Loc.key kv.1]
  | [] => rfl
  | kv :: r => by
    simp only [delObj]
    by_cases hc : T.contains [Loc.key kv.1] = true
    · simp only [hc, if_true, delObj_last T hs r]
      rw [List.filter_cons_of_neg (by simpa using (contains_iff T _).1 hc)]
    · have hn : [Loc.key kv.1] ∉ T := fun h => hc ((contains_iff T _).2 h)
      simp only [hc, Bool.false_eq_true, if_false, strip_singletons T hs _ hn, delAll_nil, delObj_last T hs r]
      rw [List.filter_cons_of_pos (by simpa using hc)]

/-- the last level of Del on an array: the selected elements become null -/
theorem delAll_last_arr (f : Frag) (xs : List JV) (hs : Shape σ f (.arr xs)) (p : Loc → Bool)
    (hp : ∀ j v, xs[j]? = some v → (p (.idx j) = true ↔ ([Loc.idx j], v) ∈ selG σ f (.arr xs))) :
    delAll (locsG σ [f] (.arr xs)) (.arr xs) = mapKids (fun l c => if p l then JV.null else c) (.arr xs) := by
  rw [delAll_congr _ _ _ (locs_single (σ := σ) f _)]
  simp only [delAll, delArr_last _ (selLocs_singletons (σ := σ) f _ hs), mapKids]
  congr 1
  apply mapArr_congr
  intro j v hv
  simp only [Nat.zero_add]
  have h1 := hp j v hv
  have h2 := mem_selLocs (σ := σ) f (.arr xs) hs (.idx j) v hv
  cases hpj : p (.idx j) <;> cases hcj : ((selG σ f (.arr xs)).map (·.1)).contains [Loc.idx j] <;> simp_all

/-- the last level of Del on an object: the selected members disappear -/
theorem delAll_last_obj (f : Frag) (kvs : List (Bytes × JV)) (hn : (keysOf kvs).Nodup) (hs : Shape σ f (.obj kvs)) (p : Bytes × JV → Bool)
    (hp : ∀ kv ∈ kvs, (p kv = true ↔ ([Loc.key kv.1], kv.2) ∈ selG σ f (.obj kvs))) :
    delAll (locsG σ [f] (.obj kvs)) (.obj kvs) = .obj (kvs.filter fun kv => !p kv) := by
  rw [delAll_congr _ _ _ (locs_single (σ := σ) f _)]
  simp only [delAll, delObj_last _ (selLocs_singletons (σ := σ) f _ hs)]
  congr 1
  apply List.filter_congr
  intro kv hkv
  have h1 := hp kv hkv
  have h2 := mem_selLocs (σ := σ) f (.obj kvs) hs (.key kv.1) kv.2 (lookup_of_mem_nodup kvs hn kv hkv)
  cases hpj : p kv <;> cases hcj : ((selG σ f (.obj kvs)).map (·.1)).contains [Loc.key kv.1] <;> simp_all

theorem delAll_nosel (f : Frag) (d : JV) (h : selG σ f d = []) : delAll (locsG σ [f] d) d = d := by
  rw [delAll_congr _ _ _ (locs_single (σ := σ) f d), h]
  exact delAll_nil d

theorem absIdx_lt (n : Nat) (i : Int) (j : Nat) (h : absIdx n i = some j) : j < n := by
  simp only [absIdx] at h
  by_cases hi : i < 0
  · simp only [hi, if_true] at h
    by_cases hh : 0 ≤ i + (n : Int) ∧ i + (n : Int) < n
    · simp only [hh, and_self, if_true, Option.some.injEq] at h; omega
    · simp only [hh, if_false] at h; cases h
  · simp only [hi, if_false] at h
    by_cases hh : 0 ≤ i ∧ i < (n : Int)
    · simp only [hh, and_self, if_true, Option.some.injEq] at h; omega
    · simp only [hh, if_false] at h; cases h

/-- the fragment behaves in set.go as in the specification on the value `e` -/
def GoodAtS (σ : SliceFn) (dev : Dev) (f : Frag) (e : JV) : Prop :=
  match f with
  | .union ms => (unionLocs ms e).Nodup
  | .slice s e' t => ∀ xs, e = .arr xs → setIdx dev xs.length s e' t = σ xs.length s e' t
  | .descent => False
  | _ => True

def GoodPathS (σ : SliceFn) (dev : Dev) : List Frag → JV → Prop
  | [], _ => True
  | f :: r, d => GoodAtS σ dev f d ∧ ∀ m ∈ selG σ f d, GoodPathS σ dev r m.2

/-- the fragment kinds set.go accepts in last position -/
def endable : Frag → Bool
  | .child _ => true
  | .nth _ => true
  | .wild => true
  | .union _ => true
  | _ => false

theorem GoodAtS.notDescent {dev : Dev} {f : Frag} {e : JV} (h : GoodAtS σ dev f e) : isDescentF f = false := by
  cases f <;> simp_all [GoodAtS, isDescentF]

/-- the members an inner Wildcard, Union, Slice or Filter of set.go hands on are the selected ones -/
theorem setSteps_ok (dev : Dev) (f : Frag) (d : JV) (hw : TopNodup d) (hg : GoodAtS σ dev f d)
    (hf : ∀ k, f ≠ .child k) (hf' : ∀ i, f ≠ .nth i) : StepsOK σ (setSteps dev f d) f d := by
  cases f with
  | child k => exact absurd rfl (hf k)
  | nth i => exact absurd rfl (hf' i)
  | wild =>
    have h := stepsOK_wild (σ := σ) d hw
    cases d <;> exact h
  | union ms => exact (stepsOK_union (σ := σ) ms d hg).reverse
  | slice s e t =>
    have h := stepsOK_slice (σ := σ) s e t d (setIdx dev · s e t) (fun xs h => hg xs h) (fun xs _ => NodupSlice.nodup _ s e t)
    cases d <;> exact h
  | filter p =>
    cases d with
    | arr xs => exact stepsOK_filter (σ := σ) p _ hw _ (stepsOK_wild (σ := σ) (.arr xs) hw)
    | obj kvs => exact stepsOK_filter (σ := σ) p _ hw _ (stepsOK_wild (σ := σ) (.obj kvs) hw)
    | _ => exact stepsOK_scalar_nil (σ := σ) _ _ rfl rfl
  | descent => cases hg

/-! ## the last fragment of Del -/

theorem filter_filter_key (k : Bytes) (ms : List Member) (kvs : List (Bytes × JV)) :
    (kvs.filter fun kv => !decide (kv.1 = k)).filter (fun kv => !hasKey ms kv.1) =
      kvs.filter fun kv => !hasKey (.key k :: ms) kv.1 := by
  rw [List.filter_filter]
  apply List.filter_congr
  intro kv _
  have e : hasKey (.key k :: ms) kv.1 = (decide (k = kv.1) || hasKey ms kv.1) := by simp [hasKey, List.any_cons]
  rw [e]
  by_cases h1 : kv.1 = k
  · simp [h1]
  · have h1' : ¬ k = kv.1 := fun h => h1 h.symm
    simp [h1, h1']

theorem setLastUnion_del_obj (dev : Dev) : ∀ (ms : List Member) (kvs : List (Bytes × JV)),
    setLastUnion false dev false .del ms (.obj kvs) = ⟨.obj (kvs.filter fun kv => !hasKey ms kv.1), .go⟩
  | [], kvs => by
    simp only [setLastUnion, hasKey, List.any_nil, Bool.not_false]
    rw [List.filter_eq_self.2 (by intro a _; rfl)]
  | .key k :: ms, kvs => by
    simp only [setLastUnion, oneKey, Bool.false_and, Bool.false_eq_true, if_false, writeKey]
    rw [setLastUnion_del_obj dev ms, kvErase_eq_filter, filter_filter_key]
  | .idx i :: ms, kvs => by
    simp only [setLastUnion]
    rw [setLastUnion_del_obj dev ms]
    congr 2

theorem memberLoc_set (xs : List JV) (j : Nat) (v : JV) (mb : Member) :
    memberLoc (.arr (xs.set j v)) mb = memberLoc (.arr xs) mb := by
  cases mb <;> simp [memberLoc]

theorem unionLocs_set (ms : List Member) (xs : List JV) (j : Nat) (v : JV) :
    unionLocs ms (.arr (xs.set j v)) = unionLocs ms (.arr xs) := by
  simp only [unionLocs]
  induction ms with
  | nil => rfl
  | cons mb r ih => simp only [List.filterMap_cons, memberLoc_set, ih]

theorem setLastUnion_arr (dev : Dev) (a : SetArg) : ∀ (ms : List Member) (xs : List JV),
    setLastUnion false dev false a ms (.arr xs) =
      ⟨mapKids (fun l c => if l ∈ unionLocs ms (.arr xs) then a.elem else c) (.arr xs), .go⟩
  | [], xs => by simp [setLastUnion, unionLocs, mapKids_id]
  | .key k :: ms, xs => by
    simp only [setLastUnion]
    rw [setLastUnion_arr dev a ms]
    congr 1
    apply mapKids_congr (.arr xs) trivial
    intro l c hc
    obtain ⟨j, rfl, _⟩ := child?_arr_inv l xs c hc
    simp [unionLocs, memberLoc]
  | .idx i :: ms, xs => by
    simp only [setLastUnion, Bool.false_and, Bool.false_eq_true, if_false]
    cases ha : absIdx xs.length i with
    | none =>
      simp only
      rw [setLastUnion_arr dev a ms]
      congr 1
      apply mapKids_congr (.arr xs) trivial
      intro l c _
      simp [unionLocs, memberLoc, ha]
    | some j =>
      simp only
      rw [setLastUnion_arr dev a ms, unionLocs_set]
      congr 1
      have hj : j < xs.length := absIdx_lt _ _ _ ha
      obtain ⟨c0, hc0⟩ : ∃ c0, child? (.idx j) (.arr xs) = some c0 := ⟨xs[j], by simp [child?, hj]⟩
      have := putChild_eq_mapKids (.idx j) a.elem (.arr xs) c0 trivial hc0
      simp only [putChild] at this
      rw [this, mapKids_comp]
      apply mapKids_congr (.arr xs) trivial
      intro l c _
      simp only [unionLocs, List.filterMap_cons, memberLoc, ha, Option.map_some, List.mem_cons]
      by_cases e : l = .idx j
      · simp [e]
      · simp [e]

theorem map_const_eq_mapArr (v : JV) : ∀ (xs : List JV) (o : Nat), xs.map (fun _ => v) = mapArr (fun _ _ => v) o xs
  | [], _ => rfl
  | x :: r, o => by simp [mapArr, map_const_eq_mapArr v r (o + 1)]

/-- the last fragment of Del: the selected members are deleted (objects) / set to null (arrays) -/
theorem setLast_del (dev : Dev) (f : Frag) (d : JV) (hw : TopNodup d) (he : endable f = true)
    (hst : (setLast false dev false .del f d).st = .go) :
    (setLast false dev false .del f d).d = delAll (locsG σ [f] d) d := by
  cases f with
  | descent => simp [endable] at he
  | slice s e t => simp [endable] at he
  | filter p => simp [endable] at he
  | child k =>
    cases d with
    | obj kvs =>
      have hs := Shape_of (σ := σ) (.child k) (.obj kvs) rfl hw
      simp only [setLast, writeKey]
      rw [kvErase_eq_filter, delAll_last_obj (.child k) kvs hw hs (fun kv => decide (kv.1 = k))]
      intro kv hkv
      have hlk := lookup_of_mem_nodup kvs hw kv hkv
      rw [← (stepsOK_child (σ := σ) k (.obj kvs)).mem (.key kv.1) kv.2 hlk]
      simp [eq_comm]
    | arr xs =>
      have : (setLast false dev false .del (.child k) (.arr xs)).d = .arr xs := rfl
      rw [this]; exact (delAll_nosel _ _ (by simp [selG, sel, selMember])).symm
    | _ => exact (delAll_nosel _ _ (sel_scalar (σ := σ) _ _ rfl rfl)).symm
  | nth i =>
    cases d with
    | arr xs =>
      have hs := Shape_of (σ := σ) (.nth i) (.arr xs) rfl hw
      simp only [setLast] at hst ⊢
      cases ha : absIdx xs.length i with
      | none => simp [ha] at hst
      | some j =>
        simp only [ha]
        have hj : j < xs.length := absIdx_lt _ _ _ ha
        obtain ⟨c0, hc0⟩ : ∃ c0, child? (.idx j) (.arr xs) = some c0 := ⟨xs[j], by simp [child?, hj]⟩
        have := putChild_eq_mapKids (.idx j) SetArg.del.elem (.arr xs) c0 trivial hc0
        simp only [putChild] at this
        rw [this, delAll_last_arr (.nth i) xs hs (fun l => decide (l = .idx j))]
        · apply mapKids_congr (.arr xs) trivial
          intro l c _
          by_cases e : l = .idx j <;> simp [e, SetArg.elem]
        · intro j' v hv
          rw [← (stepsOK_nth (σ := σ) i (.arr xs)).mem (.idx j') v hv]
          simp [memberLoc, ha, eq_comm]
    | obj kvs =>
      have : (setLast false dev false .del (.nth i) (.obj kvs)).d = .obj kvs := rfl
      rw [this]; exact (delAll_nosel _ _ (by simp [selG, sel, selMember])).symm
    | _ => exact (delAll_nosel _ _ (sel_scalar (σ := σ) _ _ rfl rfl)).symm
  | wild =>
    cases d with
    | obj kvs =>
      have hs := Shape_of (σ := σ) .wild (.obj kvs) rfl hw
      simp only [setLast, SetArg.isDel, Bool.false_eq_true, if_false, if_true]
      rw [delAll_last_obj .wild kvs hw hs (fun _ => true)]
      · simp
      · intro kv hkv
        have hlk := lookup_of_mem_nodup kvs hw kv hkv
        rw [← (stepsOK_wild (σ := σ) (.obj kvs) hw).mem (.key kv.1) kv.2 hlk]
        simp only [mem_keyLocs, true_iff]
        exact ⟨kv.1, List.mem_map_of_mem (f := (·.1)) hkv, rfl⟩
    | arr xs =>
      have hs := Shape_of (σ := σ) .wild (.arr xs) rfl hw
      simp only [setLast, Bool.false_eq_true, if_false]
      rw [delAll_last_arr .wild xs hs (fun _ => true), map_const_eq_mapArr _ xs 0]
      · simp [mapKids, SetArg.elem]
      · intro j v hv
        rw [← (stepsOK_wild (σ := σ) (.arr xs) hw).mem (.idx j) v hv]
        simp only [mem_idxLocs, true_iff]
        exact ⟨j, (List.getElem?_eq_some_iff.1 hv).1, rfl⟩
    | _ => exact (delAll_nosel _ _ (sel_scalar (σ := σ) _ _ rfl rfl)).symm
  | union ms =>
    cases d with
    | obj kvs =>
      have hs := Shape_of (σ := σ) (.union ms) (.obj kvs) rfl hw
      simp only [setLast, setLastUnion_del_obj]
      rw [delAll_last_obj (.union ms) kvs hw hs (fun kv => hasKey ms kv.1)]
      intro kv hkv
      have hlk := lookup_of_mem_nodup kvs hw kv hkv
      rw [← union_mem (σ := σ) ms (.obj kvs) (.key kv.1) kv.2 hlk]
      simp only [hasKey, List.any_eq_true, unionLocs, List.mem_filterMap]
      constructor
      · rintro ⟨mb, hmb, h⟩
        refine ⟨mb, hmb, ?_⟩
        cases mb with
        | key k => simp only [decide_eq_true_eq] at h; simp [memberLoc, h]
        | idx i' => simp at h
      · rintro ⟨mb, hmb, h⟩
        refine ⟨mb, hmb, ?_⟩
        cases mb with
        | key k => simp only [memberLoc, Option.some.injEq, Loc.key.injEq] at h; simp [h]
        | idx i' => simp [memberLoc] at h
    | arr xs =>
      have hs := Shape_of (σ := σ) (.union ms) (.arr xs) rfl hw
      simp only [setLast, setLastUnion_arr]
      rw [delAll_last_arr (.union ms) xs hs (fun l => decide (l ∈ unionLocs ms (.arr xs)))]
      · apply mapKids_congr (.arr xs) trivial
        intro l c _
        by_cases e : l ∈ unionLocs ms (.arr xs) <;> simp [e, SetArg.elem]
      · intro j v hv
        rw [← union_mem (σ := σ) ms (.arr xs) (.idx j) v hv]
        simp
    | _ =>
      have : ∀ (ms : List Member) (c : JV), isContainer c = false → setLastUnion false dev false .del ms c = ⟨c, .go⟩ := by
        intro ms
        induction ms with
        | nil => intro c _; rfl
        | cons mb r ih =>
          intro c hc
          cases mb <;> cases c <;> simp_all [setLastUnion, isContainer]
      simp only [setLast]
      rw [this ms _ rfl]
      exact (delAll_nosel _ _ (sel_scalar (σ := σ) _ _ rfl rfl)).symm
/-! ## statuses -/

/-- the status of a visit is `go` or the status of one of the runs of the rest of the path -/
theorem visitD_pred (P : St → Prop) (hgo : P .go) (cont sib : Bool) (k : Bool → JV → R) (hk : ∀ fl c, P (k fl c).st) :
    ∀ (steps : List Loc) (fl : Bool) (d : JV), P (visitD cont sib k fl steps d).st
  | [], _, _ => hgo
  | l :: ls, fl, d => by
    simp only [visitD]
    cases child? l d with
    | none => exact visitD_pred P hgo cont sib k hk ls fl d
    | some c =>
      by_cases hp : (cont && !isContainer c) = true
      · simp only [hp, if_true]; exact visitD_pred P hgo cont sib k hk ls fl d
      · simp only [hp, Bool.false_eq_true, if_false]
        have := hk (fl && sib) c
        cases hst : (k (fl && sib) c).st with
        | go => simp only; exact visitD_pred P hgo cont sib k hk ls _ _
        | stop => rw [hst] at this; exact this
        | err e => rw [hst] at this; exact this
        | fault => rw [hst] at this; exact this
        | stale => rw [hst] at this; exact this

mutual
  theorem descGo_pred (P : St → Prop) (hgo : P .go) (k : JV → R) (hk : ∀ c, P (k c).st) : ∀ (d : JV), P (descGo k d).st
    | .arr xs => by
      simp only [descGo]
      have := descArr_pred P hgo k hk xs
      cases hst : (descArr k xs).st with
      | go => exact hk _
      | stop => rw [hst] at this; exact this
      | err e => rw [hst] at this; exact this
      | fault => rw [hst] at this; exact this
      | stale => rw [hst] at this; exact this
    | .obj kvs => by
      simp only [descGo]
      have := descObj_pred P hgo k hk kvs
      cases hst : (descObj k kvs).st with
      | go => exact hk _
      | stop => rw [hst] at this; exact this
      | err e => rw [hst] at this; exact this
      | fault => rw [hst] at this; exact this
      | stale => rw [hst] at this; exact this
    | .null => hgo
    | .bool _ => hgo
    | .int _ => hgo
    | .flt _ => hgo
    | .big _ => hgo
    | .num _ => hgo
    | .str _ => hgo
  theorem descArr_pred (P : St → Prop) (hgo : P .go) (k : JV → R) (hk : ∀ c, P (k c).st) : ∀ (xs : List JV), P (descArr k xs).st
    | [] => hgo
    | x :: r => by
      simp only [descArr]
      have := descGo_pred P hgo k hk x
      cases hst : (descGo k x).st with
      | go => exact descArr_pred P hgo k hk r
      | stop => rw [hst] at this; exact this
      | err e => rw [hst] at this; exact this
      | fault => rw [hst] at this; exact this
      | stale => rw [hst] at this; exact this
  theorem descObj_pred (P : St → Prop) (hgo : P .go) (k : JV → R) (hk : ∀ c, P (k c).st) : ∀ (kvs : List (Bytes × JV)), P (descObj k kvs).st
    | [] => hgo
    | m :: r => by
      simp only [descObj]
      have := descGo_pred P hgo k hk m.2
      cases hst : (descGo k m.2).st with
      | go => exact descObj_pred P hgo k hk r
      | stop => rw [hst] at this; exact this
      | err e => rw [hst] at this; exact this
      | fault => rw [hst] at this; exact this
      | stale => rw [hst] at this; exact this
end

/-- not stopped early -/
def NoStop (s : St) : Prop := s ≠ .stop

theorem setLastUnion_nostop (gen : Bool) (dev : Dev) (a : SetArg) : ∀ (ms : List Member) (d : JV),
    NoStop (setLastUnion gen dev false a ms d).st
  | [], _ => by simp [setLastUnion, NoStop]
  | m :: ms, d => by
    cases m with
    | key k =>
      cases d with
      | obj kvs => simp only [setLastUnion, Bool.false_eq_true, if_false]; exact setLastUnion_nostop gen dev a ms _
      | _ => simp only [setLastUnion]; exact setLastUnion_nostop gen dev a ms _
    | idx i =>
      cases d with
      | arr xs =>
        simp only [setLastUnion]
        cases absIdx xs.length i with
        | some j => simp only [Bool.false_eq_true, if_false]; exact setLastUnion_nostop gen dev a ms _
        | none =>
          simp only
          split
          · simp [NoStop]
          · exact setLastUnion_nostop gen dev a ms _
      | _ => simp only [setLastUnion]; exact setLastUnion_nostop gen dev a ms _

theorem setLast_nostop (gen : Bool) (dev : Dev) (a : SetArg) (f : Frag) (d : JV) : NoStop (setLast gen dev false a f d).st := by
  cases f with
  | child k => cases d <;> simp [setLast, stopIf, oneKey, NoStop]
  | nth i =>
    cases d with
    | arr xs =>
      simp only [setLast]
      cases absIdx xs.length i <;> simp [stopIf, NoStop]
    | _ => simp [setLast, NoStop]
  | wild => cases d <;> simp [setLast, NoStop]
  | union ms => exact setLastUnion_nostop gen dev a ms d
  | descent => simp [setLast, NoStop]
  | slice s e t => simp [setLast, NoStop]
  | filter p => simp [setLast, NoStop]

/-- a traversal of set.go that is not a One form never stops early -/
theorem setF_nostop (gen : Bool) (dev : Dev) (a : SetArg) : ∀ (x : List Frag) (fl : Bool) (d : JV),
    NoStop (setF gen dev false a x fl d).st
  | [], _, _ => by simp [setF, NoStop]
  | f :: rest, fl, d => by
    have ih := setF_nostop gen dev a rest
    have hgo : NoStop .go := by simp [NoStop]
    cases f with
    | descent =>
      simp only [setF]
      by_cases h1 : rest.isEmpty = true
      · simp only [h1, if_true]; exact hgo
      · by_cases h2 : fl = true
        · simp only [h1, h2, Bool.false_eq_true, if_false, if_true]; exact ih false d
        · simp only [h1, h2, Bool.false_eq_true, if_false]; exact descGo_pred NoStop hgo _ (fun c => ih false c) d
    | child key =>
      simp only [setF]
      by_cases h1 : rest.isEmpty = true
      · simp only [h1, if_true]; exact setLast_nostop gen dev a _ d
      · simp only [h1, Bool.false_eq_true, if_false]
        cases d with
        | obj kvs =>
          simp only
          cases lookup key kvs with
          | some c =>
            simp only [setFollow]
            cases isContainer c
            · simp [NoStop]
            · exact ih false c
          | none =>
            cases a with
            | del => simp [setCreate, NoStop]
            | val v =>
              simp only [setCreate]
              cases rest.head? with
              | none => simp [NoStop]
              | some f' =>
                cases f' with
                | child k' => exact ih false _
                | nth i =>
                  simp only
                  by_cases hi : i < 0
                  · simp [hi, NoStop]
                  · simp only [hi, if_false]; exact ih false _
                | _ => simp [NoStop]
        | _ => exact hgo
    | nth i =>
      simp only [setF]
      by_cases h1 : rest.isEmpty = true
      · simp only [h1, if_true]; exact setLast_nostop gen dev a _ d
      · simp only [h1, Bool.false_eq_true, if_false]
        cases d with
        | arr xs =>
          simp only
          cases absIdx xs.length i with
          | some j =>
            simp only
            cases xs[j]? with
            | some c =>
              simp only [setFollow]
              cases isContainer c
              · simp [NoStop]
              · exact ih false c
            | none => simp [NoStop]
          | none => simp [NoStop]
        | _ => exact hgo
    | union ms =>
      simp only [setF]
      by_cases h1 : rest.isEmpty = true
      · simp only [h1, if_true]; exact setLast_nostop gen dev a _ d
      · simp only [h1, Bool.false_eq_true, if_false]
        split
        · simp [NoStop]
        · exact visitD_pred NoStop hgo _ _ _ ih _ _ _
    | wild =>
      simp only [setF]
      by_cases h1 : rest.isEmpty = true
      · simp only [h1, if_true]; exact setLast_nostop gen dev a _ d
      · simp only [h1, Bool.false_eq_true, if_false]; exact visitD_pred NoStop hgo _ _ _ ih _ _ _
    | slice s e t =>
      simp only [setF]
      by_cases h1 : rest.isEmpty = true
      · simp only [h1, if_true]; exact setLast_nostop gen dev a _ d
      · simp only [h1, Bool.false_eq_true, if_false]; exact visitD_pred NoStop hgo _ _ _ ih _ _ _
    | filter p =>
      simp only [setF]
      by_cases h1 : rest.isEmpty = true
      · simp only [h1, if_true]; exact setLast_nostop gen dev a _ d
      · simp only [h1, Bool.false_eq_true, if_false]; exact visitD_pred NoStop hgo _ _ _ ih _ _ _

/-! ## the main theorem for Del -/

/-- a path that goes on after `f` selects no one-step location -/
theorem no_singleton (f : Frag) (rest : List Frag) (hr : rest ≠ []) (hnd : NoDescent rest) (d : JV) (hw : WF d)
    (hs : Shape σ f d) : ∀ l, [l] ∉ locsG σ (f :: rest) d := by
  intro l hl
  obtain ⟨m', hm', q, hq, e⟩ := (mem_locs_cons (σ := σ) f rest d [l]).1 hl
  obtain ⟨l', hl', hc'⟩ := hs m' hm'
  rw [hl'] at e
  simp only [List.singleton_append, List.cons.injEq] at e
  obtain ⟨_, rfl⟩ := e
  exact locs_no_nil (σ := σ) rest hr hnd m'.2 (WF_top _ (WF_child l' d m'.2 hw hc')) hq

theorem locs_nosel (f : Frag) (rest : List Frag) (d : JV) (h : selG σ f d = []) : locsG σ (f :: rest) d = [] := by
  simp [locsG, evalG, h]

/-- a fragment that is not a descent does not look at the descent marker -/
theorem setF_fl (gen : Bool) (dev : Dev) (one : Bool) (a : SetArg) (g : Frag) (r : List Frag) (hg : isDescentF g = false)
    (fl : Bool) (c : JV) : setF gen dev one a (g :: r) fl c = setF gen dev one a (g :: r) false c := by
  cases g <;> simp_all [setF, isDescentF]

theorem getLast?_cons_cons {α : Type} (a b : α) (r : List α) : (a :: b :: r).getLast? = (b :: r).getLast? := by
  simp [List.getLast?_cons_cons]

/-- the visit of the members an inner Wildcard, Union, Slice or Filter of set.go hands on, for Del -/
theorem delF_visit (dev : Dev) (f g : Frag) (r : List Frag) (d : JV) (hw : WF d) (hnd : NoDescent (f :: g :: r))
    (hok : StepsOK σ (setSteps dev f d) f d)
    (hrec : ∀ l c, child? l d = some c → ([l], c) ∈ selG σ f d →
      (setF false dev false .del (g :: r) false c).st = .go →
      (setF false dev false .del (g :: r) false c).d = delAll (locsG σ (g :: r) c) c)
    (hst : (visitD (contOnly f) dev.descentSiblings (setF false dev false .del (g :: r)) false (setSteps dev f d) d).st = .go) :
    (visitD (contOnly f) dev.descentSiblings (setF false dev false .del (g :: r)) false (setSteps dev f d) d).d =
      delAll (locsG σ (f :: g :: r) d) d := by
  have hndg : isDescentF g = false := hnd g (by simp)
  have hndf : isDescentF f = false := hnd f (by simp)
  have hndr : NoDescent (g :: r) := fun g' hg' => hnd g' (List.mem_cons_of_mem _ hg')
  have hk : ∀ fl c, setF false dev false .del (g :: r) fl c = setF false dev false .del (g :: r) false c :=
    fun fl c => setF_fl false dev false .del g r hndg fl c
  obtain ⟨h1, h2⟩ := visitD_go (contOnly f) dev.descentSiblings _ hk (setSteps dev f d) false d hok.nodup (WF_top d hw) hst
  rw [h1, delAll_inner _ (no_singleton (σ := σ) f (g :: r) (by simp) hndr d hw hok.shape) d]
  apply mapKids_congr d (WF_top d hw)
  intro l c hc
  by_cases hl : l ∈ setSteps dev f d
  · have hsel := (hok.mem l c hc).1 hl
    rw [delAll_congr c _ _ (strip_locs_sel (σ := σ) f (g :: r) d hok.shape l c hc hsel)]
    by_cases hp : pass (contOnly f) c = true
    · simp only [hl, hp, and_self, if_true]
      exact hrec l c hc hsel (h2 l hl c hc hp)
    · have hsc : isContainer c = false := by
        simp only [pass, Bool.not_eq_true', Bool.not_eq_false, Bool.and_eq_true, Bool.not_eq_true'] at hp
        exact hp.2
      simp only [hl, hp, and_false, Bool.false_eq_true, if_false]
      rw [locs_scalar (σ := σ) g r c hndg hsc, delAll_nil]
  · have hsel : ([l], c) ∉ selG σ f d := fun h => hl ((hok.mem l c hc).2 h)
    rw [delAll_congr c _ _ (strip_locs_not (σ := σ) f (g :: r) d hok.shape l c hc hsel), delAll_nil]
    simp [hl]

/-- following one existing member (Child, Nth in an inner position), for Del -/
theorem delF_follow (dev : Dev) (f g : Frag) (r : List Frag) (d c : JV) (l : Loc) (hw : WF d) (hnd : NoDescent (f :: g :: r))
    (hc : child? l d = some c) (hsel : ∀ l' c', child? l' d = some c' → (([l'], c') ∈ selG σ f d ↔ l' = l))
    (hrec : (setF false dev false .del (g :: r) false c).st = .go →
      (setF false dev false .del (g :: r) false c).d = delAll (locsG σ (g :: r) c) c)
    (hst : (setFollow l c (setF false dev false .del (g :: r)) d).st = .go) :
    (setFollow l c (setF false dev false .del (g :: r)) d).d = delAll (locsG σ (f :: g :: r) d) d := by
  have hndf : isDescentF f = false := hnd f (by simp)
  have hndr : NoDescent (g :: r) := fun g' hg' => hnd g' (List.mem_cons_of_mem _ hg')
  have hs := Shape_of (σ := σ) f d hndf (WF_top d hw)
  simp only [setFollow] at hst ⊢
  by_cases hcont : isContainer c = true
  · simp only [hcont, if_true] at hst ⊢
    rw [hrec hst, putChild_eq_mapKids l _ d c (WF_top d hw) hc, delAll_inner _ (no_singleton (σ := σ) f (g :: r) (by simp) hndr d hw hs) d]
    apply mapKids_congr d (WF_top d hw)
    intro l' c' hc'
    by_cases e : l' = l
    · subst e
      rw [hc] at hc'; injection hc' with hc'; subst hc'
      simp only [if_true]
      rw [delAll_congr c _ _ (strip_locs_sel (σ := σ) f (g :: r) d hs l' c hc ((hsel l' c hc).2 rfl))]
    · simp only [e, if_false]
      have : ([l'], c') ∉ selG σ f d := fun h => e ((hsel l' c' hc').1 h)
      rw [delAll_congr c' _ _ (strip_locs_not (σ := σ) f (g :: r) d hs l' c' hc' this), delAll_nil]
  · simp [hcont] at hst

/-- Del (all matches, simple data, no descent): when no error is reported the data is `delAll` at the selected locations -/
theorem delF_eq (dev : Dev) : ∀ (x : List Frag), x ≠ [] → NoDescent x → (∀ f, x.getLast? = some f → endable f = true) →
    ∀ (fl : Bool) (d : JV), WF d → GoodPathS σ dev x d →
    (setF false dev false .del x fl d).st = .go → (setF false dev false .del x fl d).d = delAll (locsG σ x d) d
  | [], h, _, _, _, _, _, _, _ => absurd rfl h
  | [f], _, hnd, hl, fl, d, hw, hg, hst => by
    have hndf : isDescentF f = false := hnd f (by simp)
    have e1 : setF false dev false .del [f] fl d = setLast false dev false .del f d := by
      cases f <;> simp_all [setF, isDescentF]
    rw [e1] at hst ⊢
    exact setLast_del dev f d (WF_top d hw) (hl f rfl) hst
  | f :: g :: r, _, hnd, hl, fl, d, hw, hg, hst => by
    have hndf : isDescentF f = false := hnd f (by simp)
    have hndr : NoDescent (g :: r) := fun g' hg' => hnd g' (List.mem_cons_of_mem _ hg')
    have hlr : ∀ f', (g :: r).getLast? = some f' → endable f' = true := by
      intro f' hf'; exact hl f' (by rw [getLast?_cons_cons]; exact hf')
    have hs := Shape_of (σ := σ) f d hndf (WF_top d hw)
    have hrec : ∀ l c, child? l d = some c → ([l], c) ∈ selG σ f d →
        (setF false dev false .del (g :: r) false c).st = .go →
        (setF false dev false .del (g :: r) false c).d = delAll (locsG σ (g :: r) c) c :=
      fun l c hc hsel h => delF_eq dev (g :: r) (by simp) hndr hlr false c (WF_child l d c hw hc) (hg.2 ([l], c) hsel) h
    cases f with
    | descent => simp [isDescentF] at hndf
    | child k =>
      cases d with
      | obj kvs =>
        simp only [setF, List.isEmpty_cons, Bool.false_eq_true, if_false] at hst ⊢
        cases hlk : lookup k kvs with
        | some c =>
          simp only [hlk] at hst ⊢
          have hc : child? (.key k) (.obj kvs) = some c := hlk
          refine delF_follow dev (.child k) g r (.obj kvs) c (.key k) hw hnd hc ?_ (hrec (.key k) c hc ?_) hst
          · intro l' c' hc'
            rw [← (stepsOK_child (σ := σ) k (.obj kvs)).mem l' c' hc']
            simp
          · rw [← (stepsOK_child (σ := σ) k (.obj kvs)).mem (.key k) c hc]; simp
        | none =>
          simp only [hlk, setCreate] at hst ⊢
          rw [locs_nosel (σ := σ) (.child k) (g :: r) (.obj kvs) (by simp [selG, sel, selMember, hlk]), delAll_nil]
      | arr xs =>
        have : setF false dev false .del (.child k :: g :: r) fl (.arr xs) = ⟨.arr xs, .go⟩ := by simp [setF]
        rw [this, locs_nosel (σ := σ) (.child k) (g :: r) (.arr xs) (by simp [selG, sel, selMember]), delAll_nil]
      | _ =>
        rw [locs_nosel (σ := σ) (.child k) (g :: r) _ (sel_scalar (σ := σ) _ _ rfl rfl), delAll_nil]
        simp [setF]
    | nth i =>
      cases d with
      | arr xs =>
        simp only [setF, List.isEmpty_cons, Bool.false_eq_true, if_false] at hst ⊢
        cases ha : absIdx xs.length i with
        | none => simp [ha] at hst
        | some j =>
          simp only [ha] at hst ⊢
          cases hx : xs[j]? with
          | none => simp [hx] at hst
          | some c =>
            simp only [hx] at hst ⊢
            have hc : child? (.idx j) (.arr xs) = some c := hx
            refine delF_follow dev (.nth i) g r (.arr xs) c (.idx j) hw hnd hc ?_ (hrec (.idx j) c hc ?_) hst
            · intro l' c' hc'
              rw [← (stepsOK_nth (σ := σ) i (.arr xs)).mem l' c' hc']
              simp [memberLoc, ha]
            · rw [← (stepsOK_nth (σ := σ) i (.arr xs)).mem (.idx j) c hc]; simp [memberLoc, ha]
      | obj kvs =>
        have : setF false dev false .del (.nth i :: g :: r) fl (.obj kvs) = ⟨.obj kvs, .go⟩ := by simp [setF]
        rw [this, locs_nosel (σ := σ) (.nth i) (g :: r) (.obj kvs) (by simp [selG, sel, selMember]), delAll_nil]
      | _ =>
        rw [locs_nosel (σ := σ) (.nth i) (g :: r) _ (sel_scalar (σ := σ) _ _ rfl rfl), delAll_nil]
        simp [setF]
    | wild =>
      have hok := setSteps_ok (σ := σ) dev .wild d (WF_top d hw) hg.1 (fun _ h => by cases h) (fun _ h => by cases h)
      simp only [setF, List.isEmpty_cons, Bool.false_eq_true, if_false] at hst ⊢
      exact delF_visit dev .wild g r d hw hnd hok hrec hst
    | union ms =>
      have hok := setSteps_ok (σ := σ) dev (.union ms) d (WF_top d hw) hg.1 (fun _ h => by cases h) (fun _ h => by cases h)
      simp only [setF, List.isEmpty_cons, Bool.false_eq_true, if_false, Bool.false_and] at hst ⊢
      exact delF_visit dev (.union ms) g r d hw hnd hok hrec hst
    | slice s e t =>
      have hok := setSteps_ok (σ := σ) dev (.slice s e t) d (WF_top d hw) hg.1 (fun _ h => by cases h) (fun _ h => by cases h)
      simp only [setF, List.isEmpty_cons, Bool.false_eq_true, if_false] at hst ⊢
      exact delF_visit dev (.slice s e t) g r d hw hnd hok hrec hst
    | filter p =>
      have hok := setSteps_ok (σ := σ) dev (.filter p) d (WF_top d hw) hg.1 (fun _ h => by cases h) (fun _ h => by cases h)
      simp only [setF, List.isEmpty_cons, Bool.false_eq_true, if_false] at hst ⊢
      exact delF_visit dev (.filter p) g r d hw hnd hok hrec hst

/-- Del on simple data, a path without descent: if no error is reported, the data afterwards is the input with
the selected object members gone and the selected array elements null, everything else as it was -/
theorem delM_eq (dev : Dev) (x : List Frag) (d d' : JV) (hnd : NoDescent x) (hw : WF d) (hg : GoodPathS σ dev x d)
    (h : setM false dev false .del x d = .ok d') : d' = delAll (locsG σ x d) d := by
  simp only [setM] at h
  by_cases hr : setRefuses x.getLast? = true
  · simp [hr] at h
  · simp only [hr, Bool.false_eq_true, if_false] at h
    have hx : x ≠ [] := by
      intro e; subst e; simp [setRefuses] at hr
    have hl : ∀ f, x.getLast? = some f → endable f = true := by
      intro f hf
      rw [hf] at hr
      cases f <;> simp_all [setRefuses, endable]
    cases hst : (setF false dev false .del x false d).st with
    | go =>
      have := delF_eq dev x hx hnd hl false d hw hg hst
      cases hv : setF false dev false .del x false d with
      | mk dd ss =>
        rw [hv] at hst this h
        simp only at hst this
        subst hst
        simp only [R.out] at h
        injection h with h
        rw [← h, this]
    | stop =>
      exact absurd hst (setF_nostop false dev .del x false d)
    | err e =>
      cases hv : setF false dev false .del x false d with
      | mk dd ss => rw [hv] at hst h; simp only at hst; subst hst; simp [R.out] at h
    | fault =>
      cases hv : setF false dev false .del x false d with
      | mk dd ss => rw [hv] at hst h; simp only at hst; subst hst; simp [R.out] at h
    | stale =>
      cases hv : setF false dev false .del x false d with
      | mk dd ss => rw [hv] at hst h; simp only at hst; subst hst; simp [R.out] at h

end OjgVerif.JPMut
