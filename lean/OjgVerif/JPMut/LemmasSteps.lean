import OjgVerif.JPMut.LemmasVisit
/-! # The members a fragment visits in the model are the members it selects in the specification

`StepsOK σ steps f d`: the steps are pairwise different, everything `f` selects in `d` is a member of `d`
(location = one step), and a member is selected exactly when its step is listed. Proved for the step
lists of modify.go and set.go (`modLastSteps`, `modSteps`, `setSteps`), fragment kind by fragment kind;
for a slice under the hypothesis that the reading of the code selects the indexes of the specification
on this array, for a union under the hypothesis that no member is listed twice. -/
namespace OjgVerif.JPMut
open OjgVerif OjgVerif.JPath

/-- the reading of slices selects no index twice -/
class NodupSlice (σ : SliceFn) : Prop where
  nodup : ∀ (n : Nat) (s e t : Option Int), (σ n s e t).Nodup

variable {σ : SliceFn}

theorem nodup_map_inj {α β : Type} (f : α → β) (hf : ∀ a b, f a = f b → a = b) {l : List α} (h : l.Nodup) :
    (l.map f).Nodup :=
  List.Pairwise.map f (fun a b hab e => hab (hf a b e)) h

theorem nodup_reverse' {α : Type} {l : List α} (h : l.Nodup) : l.reverse.Nodup :=
  List.pairwise_reverse.2 (h.imp fun hab => Ne.symm hab)

structure StepsOK (σ : SliceFn) (steps : List Loc) (f : Frag) (d : JV) : Prop where
  nodup : steps.Nodup
  shape : ∀ m ∈ selG σ f d, ∃ l, m.1 = [l] ∧ child? l d = some m.2
  mem : ∀ l c, child? l d = some c → (l ∈ steps ↔ ([l], c) ∈ selG σ f d)

theorem StepsOK.perm {steps steps' : List Loc} {f : Frag} {d : JV} (h : StepsOK σ steps f d)
    (hn : steps'.Nodup) (hm : ∀ l, l ∈ steps' ↔ l ∈ steps) : StepsOK σ steps' f d :=
  ⟨hn, h.shape, fun l c hc => by rw [hm l]; exact h.mem l c hc⟩

theorem StepsOK.reverse {steps : List Loc} {f : Frag} {d : JV} (h : StepsOK σ steps f d) : StepsOK σ steps.reverse f d :=
  h.perm (nodup_reverse' h.nodup) (fun l => List.mem_reverse)

/-! ## list facts -/

theorem mem_elemsFrom : ∀ (xs : List JV) (o : Nat) (m : Path × JV),
    m ∈ elemsFrom o xs ↔ ∃ j, xs[j]? = some m.2 ∧ m.1 = [Loc.idx (o + j)]
  | [], o, m => by simp [elemsFrom]
  | x :: r, o, m => by
    simp only [elemsFrom, List.mem_cons, mem_elemsFrom r (o + 1) m]
    constructor
    · rintro (h | ⟨j, h1, h2⟩)
      · exact ⟨0, by simp [h]⟩
      · exact ⟨j + 1, by simpa using h1, by rw [h2]; congr 2; omega⟩
    · rintro ⟨j, h1, h2⟩
      cases j with
      | zero =>
        left
        simp only [List.getElem?_cons_zero, Option.some.injEq] at h1
        cases m; simp_all
      | succ j =>
        right
        exact ⟨j, by simpa using h1, by rw [h2]; congr 2; omega⟩

theorem idxLocs_nodup (n : Nat) : (idxLocs n).Nodup := by
  simp only [idxLocs]
  exact nodup_map_inj Loc.idx (fun a b h => by injection h) List.nodup_range

theorem mem_idxLocs (n : Nat) (l : Loc) : l ∈ idxLocs n ↔ ∃ j, j < n ∧ l = .idx j := by
  simp only [idxLocs, List.mem_map, List.mem_range]
  constructor
  · rintro ⟨j, h, rfl⟩; exact ⟨j, h, rfl⟩
  · rintro ⟨j, h, rfl⟩; exact ⟨j, h, rfl⟩

theorem keyLocs_nodup (kvs : List (Bytes × JV)) (h : (keysOf kvs).Nodup) : (keyLocs kvs).Nodup := by
  have : keyLocs kvs = (keysOf kvs).map Loc.key := by simp [keyLocs, keysOf, List.map_map, Function.comp_def]
  rw [this]
  exact nodup_map_inj Loc.key (fun a b hab => by injection hab) h

theorem mem_keyLocs (kvs : List (Bytes × JV)) (l : Loc) : l ∈ keyLocs kvs ↔ ∃ k, k ∈ keysOf kvs ∧ l = .key k := by
  simp only [keyLocs, keysOf, List.mem_map]
  constructor
  · rintro ⟨m, hm, rfl⟩; exact ⟨m.1, ⟨m, hm, rfl⟩, rfl⟩
  · rintro ⟨k, ⟨m, hm, rfl⟩, rfl⟩; exact ⟨m, hm, rfl⟩

theorem mem_insertKey (k a : Bytes) : ∀ (l : List Bytes), a ∈ insertKey k l ↔ a = k ∨ a ∈ l
  | [] => by simp [insertKey]
  | b :: r => by
    simp only [insertKey]
    by_cases h : bytesLt k b = true
    · simp [h]
    · simp only [h, Bool.false_eq_true, if_false, List.mem_cons, mem_insertKey k a r]
      constructor
      · rintro (h1 | h1 | h1) <;> simp [h1]
      · rintro (h1 | h1 | h1) <;> simp [h1]

theorem insertKey_nodup (k : Bytes) : ∀ (l : List Bytes), k ∉ l → l.Nodup → (insertKey k l).Nodup
  | [], _, _ => by simp [insertKey]
  | b :: r, hk, hn => by
    simp only [insertKey]
    by_cases h : bytesLt k b = true
    · simp only [h, if_true]
      exact List.nodup_cons.2 ⟨hk, hn⟩
    · simp only [h, Bool.false_eq_true, if_false]
      have hn' := List.nodup_cons.1 hn
      refine List.nodup_cons.2 ⟨?_, insertKey_nodup k r (fun h' => hk (List.mem_cons_of_mem _ h')) hn'.2⟩
      rw [mem_insertKey]
      rintro (h1 | h1)
      · exact hk (by simp [h1])
      · exact hn'.1 h1

theorem mem_sortedKeys (a : Bytes) : ∀ (kvs : List (Bytes × JV)), a ∈ sortedKeys kvs ↔ a ∈ keysOf kvs
  | [] => by simp [sortedKeys, keysOf]
  | m :: r => by
    simp only [sortedKeys, mem_insertKey, mem_sortedKeys a r, keysOf, List.map_cons, List.mem_cons]

theorem sortedKeys_nodup : ∀ (kvs : List (Bytes × JV)), (keysOf kvs).Nodup → (sortedKeys kvs).Nodup
  | [], _ => by simp [sortedKeys]
  | m :: r, h => by
    simp only [keysOf, List.map_cons, List.nodup_cons] at h
    simp only [sortedKeys]
    exact insertKey_nodup m.1 _ (by rw [mem_sortedKeys]; exact h.1) (sortedKeys_nodup r h.2)

theorem child?_idx_arr (j : Nat) (xs : List JV) : child? (.idx j) (.arr xs) = xs[j]? := rfl
theorem child?_key_obj (k : Bytes) (kvs : List (Bytes × JV)) : child? (.key k) (.obj kvs) = lookup k kvs := rfl

theorem child?_arr_inv (l : Loc) (xs : List JV) (c : JV) (h : child? l (.arr xs) = some c) : ∃ j, l = .idx j ∧ xs[j]? = some c := by
  cases l with
  | idx j => exact ⟨j, rfl, h⟩
  | key k => simp [child?] at h

theorem child?_obj_inv (l : Loc) (kvs : List (Bytes × JV)) (c : JV) (h : child? l (.obj kvs) = some c) :
    ∃ k, l = .key k ∧ lookup k kvs = some c := by
  cases l with
  | idx j => simp [child?] at h
  | key k => exact ⟨k, rfl, h⟩

theorem child?_scalar (l : Loc) (d : JV) (h : isContainer d = false) : child? l d = none := by
  cases d <;> cases l <;> simp_all [child?, isContainer]

/-! ## the selection of a name or an index -/

theorem selMember_shape (d : JV) (mb : Member) : ∀ m ∈ selMember d mb, ∃ l, m.1 = [l] ∧ child? l d = some m.2 := by
  intro m hm
  cases mb with
  | key k =>
    cases d with
    | obj kvs =>
      simp only [selMember] at hm
      cases hl : lookup k kvs with
      | none => simp [hl] at hm
      | some c =>
        simp only [hl, Option.toList_some, List.map_cons, List.map_nil, List.mem_singleton] at hm
        subst hm
        exact ⟨.key k, rfl, hl⟩
    | _ => simp [selMember] at hm
  | idx i =>
    cases d with
    | arr xs =>
      simp only [selMember] at hm
      cases ha : absIdx xs.length i with
      | none => simp [ha] at hm
      | some j =>
        simp only [ha] at hm
        cases hx : xs[j]? with
        | none => simp [hx] at hm
        | some c =>
          simp only [hx, Option.toList_some, List.map_cons, List.map_nil, List.mem_singleton] at hm
          subst hm
          exact ⟨.idx j, rfl, hx⟩
    | _ => simp [selMember] at hm

/-- a member is selected by a name or an index exactly when that name or index resolves to its step -/
theorem selMember_mem (d : JV) (mb : Member) (l : Loc) (c : JV) (hc : child? l d = some c) :
    ([l], c) ∈ selMember d mb ↔ memberLoc d mb = some l := by
  cases mb with
  | key k =>
    simp only [memberLoc, Option.some.injEq]
    cases d with
    | obj kvs =>
      obtain ⟨k', rfl, hk'⟩ := child?_obj_inv l kvs c hc
      simp only [selMember]
      constructor
      · intro h
        cases hl : lookup k kvs with
        | none => simp [hl] at h
        | some c' =>
          simp only [hl, Option.toList_some, List.map_cons, List.map_nil, List.mem_singleton, Prod.mk.injEq,
            List.cons.injEq, and_true] at h
          rw [h.1]
      · intro h
        injection h with h
        subst h
        simp [hk']
    | arr xs =>
      obtain ⟨j, rfl, _⟩ := child?_arr_inv l xs c hc
      simp [selMember]
    | _ => rw [child?_scalar l _ rfl] at hc; cases hc
  | idx i =>
    cases d with
    | arr xs =>
      obtain ⟨j, rfl, hj⟩ := child?_arr_inv l xs c hc
      simp only [selMember, memberLoc]
      cases ha : absIdx xs.length i with
      | none => simp
      | some j' =>
        simp only [Option.map_some, Option.some.injEq, Loc.idx.injEq]
        constructor
        · intro h
          cases hx : xs[j']? with
          | none => simp [hx] at h
          | some c' =>
            simp only [hx, Option.toList_some, List.map_cons, List.map_nil, List.mem_singleton, Prod.mk.injEq,
              List.cons.injEq, Loc.idx.injEq, and_true] at h
            exact h.1.symm
        · intro h
          subst h
          simp [hj]
    | obj kvs =>
      obtain ⟨k', rfl, _⟩ := child?_obj_inv l kvs c hc
      simp [selMember, memberLoc]
    | _ => rw [child?_scalar l _ rfl] at hc; cases hc

theorem memberLoc_toList_nodup (d : JV) (mb : Member) : ((memberLoc d mb).toList).Nodup := by
  cases memberLoc d mb <;> simp

/-! ## fragment kind by fragment kind: the last-position steps of modify.go -/

theorem stepsOK_child (k : Bytes) (d : JV) : StepsOK σ [.key k] (.child k) d := by
  refine ⟨by simp, selMember_shape d (.key k), ?_⟩
  intro l c hc
  simp only [selG, sel]
  rw [selMember_mem d (.key k) l c hc]
  simp [memberLoc, eq_comm]

theorem stepsOK_nth (i : Int) (d : JV) : StepsOK σ ((memberLoc d (.idx i)).toList) (.nth i) d := by
  refine ⟨memberLoc_toList_nodup d _, selMember_shape d (.idx i), ?_⟩
  intro l c hc
  simp only [selG, sel]
  rw [selMember_mem d (.idx i) l c hc]
  cases memberLoc d (.idx i) <;> simp [eq_comm]

theorem stepsOK_wild (d : JV) (hw : TopNodup d) :
    StepsOK σ (match d with | .arr xs => idxLocs xs.length | .obj kvs => keyLocs kvs | _ => []) .wild d := by
  cases d with
  | arr xs =>
    refine ⟨idxLocs_nodup _, ?_, ?_⟩
    · intro m hm
      simp only [selG, sel, members] at hm
      obtain ⟨j, h1, h2⟩ := (mem_elemsFrom xs 0 m).1 hm
      exact ⟨.idx j, by simpa using h2, h1⟩
    · intro l c hc
      obtain ⟨j, rfl, hj⟩ := child?_arr_inv l xs c hc
      simp only [selG, sel, members, mem_idxLocs, mem_elemsFrom]
      constructor
      · intro _; exact ⟨j, hj, by simp⟩
      · intro _
        exact ⟨j, (List.getElem?_eq_some_iff.1 hj).1, rfl⟩
  | obj kvs =>
    simp only [TopNodup] at hw
    refine ⟨keyLocs_nodup kvs hw, ?_, ?_⟩
    · intro m hm
      simp only [selG, sel, members, List.mem_map] at hm
      obtain ⟨kv, hkv, rfl⟩ := hm
      exact ⟨.key kv.1, rfl, lookup_of_mem_nodup kvs hw kv hkv⟩
    · intro l c hc
      obtain ⟨k, rfl, hk⟩ := child?_obj_inv l kvs c hc
      simp only [selG, sel, members, mem_keyLocs, List.mem_map]
      constructor
      · intro _
        exact ⟨(k, c), lookup_mem kvs k c hk, rfl⟩
      · intro _
        exact ⟨k, lookup_isSome_mem kvs k c hk, rfl⟩
  | _ =>
    refine ⟨List.nodup_nil, ?_, ?_⟩
    · intro m hm; simp [selG, sel, members] at hm
    · intro l c hc; rw [child?_scalar l _ rfl] at hc; cases hc

theorem stepsOK_union (ms : List Member) (d : JV) (hn : (unionLocs ms d).Nodup) :
    StepsOK σ (unionLocs ms d) (.union ms) d := by
  refine ⟨hn, ?_, ?_⟩
  · intro m hm
    simp only [selG, sel, List.mem_flatMap] at hm
    obtain ⟨mb, _, h⟩ := hm
    exact selMember_shape d mb m h
  · intro l c hc
    simp only [selG, sel, unionLocs, List.mem_filterMap, List.mem_flatMap]
    constructor
    · rintro ⟨mb, hmb, h⟩; exact ⟨mb, hmb, (selMember_mem d mb l c hc).2 h⟩
    · rintro ⟨mb, hmb, h⟩; exact ⟨mb, hmb, (selMember_mem d mb l c hc).1 h⟩

theorem stepsOK_slice (s e t : Option Int) (d : JV) (idx : Nat → List Nat)
    (hag : ∀ xs, d = .arr xs → idx xs.length = σ xs.length s e t)
    (hnd : ∀ xs, d = .arr xs → (σ xs.length s e t).Nodup) :
    StepsOK σ (match d with | .arr xs => (idx xs.length).map Loc.idx | _ => []) (.slice s e t) d := by
  cases d with
  | arr xs =>
    simp only [hag xs rfl]
    refine ⟨?_, ?_, ?_⟩
    · exact nodup_map_inj Loc.idx (fun a b h => by injection h) (hnd xs rfl)
    · intro m hm
      simp only [selG, sel, List.mem_flatMap] at hm
      obtain ⟨j, _, h⟩ := hm
      cases hx : xs[j]? with
      | none => simp [hx] at h
      | some c =>
        simp only [hx, Option.toList_some, List.map_cons, List.map_nil, List.mem_singleton] at h
        subst h
        exact ⟨.idx j, rfl, hx⟩
    · intro l c hc
      obtain ⟨j, rfl, hj⟩ := child?_arr_inv l xs c hc
      simp only [selG, sel, List.mem_map, List.mem_flatMap]
      constructor
      · rintro ⟨j', hj', h⟩
        injection h with h
        subst h
        exact ⟨j', hj', by simp [hj]⟩
      · rintro ⟨j', hj', h⟩
        cases hx : xs[j']? with
        | none => simp [hx] at h
        | some c' =>
          simp only [hx, Option.toList_some, List.map_cons, List.map_nil, List.mem_singleton, Prod.mk.injEq,
            List.cons.injEq, Loc.idx.injEq, and_true] at h
          obtain ⟨_, _, h2, _⟩ := h
          exact ⟨j', hj', by rw [h2]⟩
  | _ =>
    refine ⟨List.nodup_nil, ?_, ?_⟩ <;> simp [selG, sel]

theorem mem_filterLocs (p : JV → Bool) (d : JV) (ls : List Loc) (l : Loc) (c : JV) (hc : child? l d = some c) :
    l ∈ filterLocs p d ls ↔ l ∈ ls ∧ p c = true := by
  simp [filterLocs, List.mem_filter, hc]

/-- the filter's steps over any duplicate-free listing `ls` of the members' steps -/
theorem stepsOK_filter (p : JV → Bool) (d : JV) (hw : TopNodup d) (ls : List Loc)
    (hls : StepsOK σ ls .wild d) : StepsOK σ (filterLocs p d ls) (.filter p) d := by
  refine ⟨?_, ?_, ?_⟩
  · exact List.Nodup.sublist List.filter_sublist hls.nodup
  · intro m hm
    simp only [selG, sel, List.mem_filter] at hm
    exact hls.shape m (by simpa [selG, sel] using hm.1)
  · intro l c hc
    rw [mem_filterLocs p d ls l c hc, hls.mem l c hc]
    simp only [selG, sel, List.mem_filter]

/-! ## a slice selects no index twice -/

theorem progression_pairwise_lt (n : Nat) (a d : Int) (hd : 0 < d) : (progression n a d).Pairwise (· < ·) := by
  simp only [progression]
  rw [List.pairwise_map]
  refine List.Pairwise.imp ?_ (List.pairwise_lt_range (n := n))
  intro i j hij
  have : (i : Int) < j := by exact_mod_cast hij
  have := Int.mul_lt_mul_of_pos_right this hd
  omega

theorem progression_pairwise_gt (n : Nat) (a d : Int) (hd : d < 0) : (progression n a d).Pairwise (· > ·) := by
  simp only [progression]
  rw [List.pairwise_map]
  refine List.Pairwise.imp ?_ (List.pairwise_lt_range (n := n))
  intro i j hij
  have h1 : (i : Int) < j := by exact_mod_cast hij
  have := Int.mul_lt_mul_of_neg_right h1 hd
  omega

theorem mem_progression_ge (n : Nat) (a d : Int) (hd : 0 ≤ d) : ∀ i ∈ progression n a d, a ≤ i := by
  intro i hi
  simp only [progression, List.mem_map, List.mem_range] at hi
  obtain ⟨k, _, rfl⟩ := hi
  have : 0 ≤ (k : Int) * d := Int.mul_nonneg (by omega) hd
  omega

theorem mem_takeWhile_true {α : Type} (p : α → Bool) : ∀ (l : List α) (a : α), a ∈ l.takeWhile p → p a = true
  | [], _, h => by cases h
  | x :: r, a, h => by
    simp only [List.takeWhile] at h
    cases hp : p x with
    | false => simp [hp] at h
    | true =>
      simp only [hp, List.mem_cons] at h
      rcases h with rfl | h
      · exact hp
      · exact mem_takeWhile_true p r a h

theorem up_nodup (n : Nat) (a d : Int) (p : Int → Bool) (ha : 0 ≤ a) (hd : 0 < d) :
    (((progression n a d).takeWhile p).map Int.toNat).Nodup := by
  rw [List.Nodup, List.pairwise_map]
  have hp := (progression_pairwise_lt n a d hd).sublist (List.takeWhile_sublist p)
  refine List.Pairwise.imp_of_mem ?_ hp
  intro x y hx hy hxy
  have hx' := mem_progression_ge n a d (Int.le_of_lt hd) x ((List.takeWhile_sublist p).subset hx)
  have hy' := mem_progression_ge n a d (Int.le_of_lt hd) y ((List.takeWhile_sublist p).subset hy)
  omega

theorem down_nodup (n : Nat) (a d stop : Int) (hs : -1 ≤ stop) (hd : d < 0) :
    (((progression n a d).takeWhile fun i => decide (stop < i)).map Int.toNat).Nodup := by
  rw [List.Nodup, List.pairwise_map]
  have hp := (progression_pairwise_gt n a d hd).sublist (List.takeWhile_sublist (fun i => decide (stop < i)))
  refine List.Pairwise.imp_of_mem ?_ hp
  intro x y hx hy hxy
  have hx' := mem_takeWhile_true _ _ x hx
  have hy' := mem_takeWhile_true _ _ y hy
  simp only [decide_eq_true_eq] at hx' hy'
  omega

/-- a slice selects no index twice -/
theorem sliceIdx_nodup (n : Nat) (s e t : Option Int) : (sliceIdx n s e t).Nodup := by
  unfold sliceIdx
  simp only []
  generalize hst : (if s.getD 0 < 0 then max (s.getD 0 + (n : Int)) 0 else s.getD 0) = start
  have hstart : 0 ≤ start := by rw [← hst]; split <;> omega
  by_cases h0 : t.getD 1 = 0 ∨ (n : Int) ≤ start
  · rw [if_pos h0]; exact List.nodup_nil
  · rw [if_neg h0]
    by_cases hpos : 0 < t.getD 1
    · rw [if_pos hpos]; exact up_nodup n start _ _ hstart hpos
    · rw [if_neg hpos]
      have hneg : t.getD 1 < 0 := by
        have : ¬ (t.getD 1 = 0) := fun h => h0 (Or.inl h)
        omega
      apply down_nodup n start _ _ _ hneg
      cases e with
      | none => simp only; omega
      | some e => simp only; split <;> omega
instance : NodupSlice sliceIdx := ⟨sliceIdx_nodup⟩

end OjgVerif.JPMut
